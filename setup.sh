#!/bin/sh
# Builds the framework from files on disk only (offline).
set -e
cd "$(dirname "$0")"
export GOFLAGS=-mod=mod GOPROXY=off GOSUMDB=off GOTOOLCHAIN=local CGO_ENABLED=0
mkdir -p .work evidence replays
R="${VERIF_REPO:-/repo}"
if [ "$R" != "/repo" ]; then sed -i "s#=> .*#=> $R#" harness/go.mod; fi
cp "$R/go.sum" harness/go.sum
(cd harness && go build -tags verif -o hx .)
./harness/hx consts -repo "$R" -out lean/DDS/Generated/Consts.lean
./harness/hx trans -repo "$R" -out lean/DDS/Generated
(cd lean && lake build)
echo "setup ok"
