#!/bin/sh
# Builds the framework from files on disk only (offline).
set -e
cd "$(dirname "$0")"
export GOFLAGS=-mod=mod GOPROXY=off GOSUMDB=off GOTOOLCHAIN=local CGO_ENABLED=0
mkdir -p .work evidence replays
cp /repo/go.sum harness/go.sum
(cd harness && go build -tags verif -o hx .)
./harness/hx consts -repo /repo -out lean/DDS/Generated/Consts.lean
(cd lean && lake build)
echo "setup ok"
