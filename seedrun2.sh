#!/bin/bash
# seedrun2.sh <worktree-with-change> <seeds> <prop> [prop…] : as seedrun.sh, but the private copy of /verif is the
# COMMITTED tree (git archive HEAD) plus the build cache, so that tracked files another agent is editing are not used.
WT="$1"; SEEDS="$2"; shift 2
B=/tmp/sv/$(basename "$WT")-$$
mkdir -p "$B/verif"
git -C /verif archive HEAD | tar -x -C "$B/verif"
rm -rf "$B/verif/seeded" "$B/verif/mutants"
mkdir -p "$B/verif/lean"; rsync -a /verif/lean/.lake "$B/verif/lean/"
trap 'rm -rf "$B"' EXIT
export GOFLAGS=-mod=mod GOPROXY=off GOSUMDB=off GOTOOLCHAIN=local CGO_ENABLED=0
for prop in "$@"; do
  for s in $SEEDS; do
    out=$(cd "$B/verif" && VERIF_REPO="$WT" VERIF_SEED=$s VERIF_HX_TIMEOUT=600 ./check $prop 2>&1 | grep -E 'VIOLATION|^OK|KNOWN' | head -3 | tr '\n' ' ')
    echo "$prop seed=$s: $out"
    case "$out" in *VIOLATION*) mkdir -p /tmp/sv/replays-$(basename "$WT"); cp "$B"/verif/replays/$prop-* /tmp/sv/replays-$(basename "$WT")/ 2>/dev/null; break;; esac
  done
done
