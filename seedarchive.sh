#!/bin/bash
# seedarchive.sh <id> <prop> <worktree> "<needs>" "<checks>" : archive a seeded change from an agent's worktree,
# then (serialised by a lock) confirm it in the private worktree.
ID="$1"; PROP="$2"; WT="$3"; NEEDS="$4"; CAUGHT="$5"
D=/verif/seeded/$ID; mkdir -p $D
cp $WT/patch.diff $D/patch.diff
DEMO=$(cd $WT && find . -name 'zz_seeded_demo_test.go' | head -1 | sed 's#^\./##')
cp $WT/$DEMO $D/$(basename $DEMO)
[ -f $WT/SEEDED.md ] && cp $WT/SEEDED.md $D/SEEDED.md
python3 - "$ID" "$PROP" "$DEMO" "$NEEDS" "$CAUGHT" <<'PY'
import json,sys
i,prop,demo,needs,caught=sys.argv[1:]
json.dump({"id":i,"property":prop,"breaks":prop,"demo_test":demo,"needs_to_manifest":needs,
 "confirmed":{"demo_with_change":"pending","demo_without_change":"pending","existing_fast_packages_with_change":"pending","existing_store_package_with_change":"pending"},
 "ran":["go test -run TestSeededDemo <pkg> with the change applied and with it reverted (git apply / git apply -R in a private worktree)","go test ./dataset/ ./ddsketch/ ./ddsketch/encoding/ ./ddsketch/mapping/ ./ddsketch/stat/ (+ ./ddsketch/store/ when touched) with the change","/verif/seedtest.sh patch.diff <seeds> <props> (apply to /repo, run quick checks, git checkout)"],
 "checks":caught}, open(f"/verif/seeded/{i}/meta.json","w"), indent=1)
PY
(flock /tmp/p/confirm.lock /verif/seedconfirm.sh $ID >> /tmp/p/confirm_all.log 2>&1 &)
