#!/bin/bash
# seedconfirm.sh <id>… : re-confirm archived seeded changes one after the other in a private worktree
# (no git stash: the stash is shared between worktrees). Updates seeded/<id>/meta.json "confirmed".
export GOFLAGS=-mod=mod GOPROXY=off GOSUMDB=off GOTOOLCHAIN=local
WT=/tmp/seedconfirm
[ -d $WT ] || git -C /repo worktree add -q $WT HEAD
for ID in "$@"; do
  D=/verif/seeded/$ID
  cd $WT && git checkout -q -- . && git clean -fdq
  DEMOFILE=$(ls $D/*_test.go | head -1)
  DEMOREL=$(python3 -c "import json;print(json.load(open('$D/meta.json'))['demo_test'])")
  PKG=./$(dirname "$DEMOREL")/
  git apply $D/patch.diff || { echo "$ID: patch does not apply"; continue; }
  cp $DEMOFILE $WT/$DEMOREL
  if go test -vet=off -count=1 -run 'TestSeededDemo' "$PKG" > /tmp/p/$ID.with.log 2>&1; then WITH=pass; else WITH=fail; fi
  git apply -R $D/patch.diff
  if go test -vet=off -count=1 -run 'TestSeededDemo' "$PKG" > /tmp/p/$ID.without.log 2>&1; then WITHOUT=pass; else WITHOUT=fail; fi
  git apply $D/patch.diff
  rm $WT/$DEMOREL
  if go test -vet=off -count=1 ./dataset/ ./ddsketch/ ./ddsketch/encoding/ ./ddsketch/mapping/ ./ddsketch/stat/ > /tmp/p/$ID.fast.log 2>&1; then FAST=pass; else FAST=fail; fi
  STORE="not run (change does not touch ddsketch/store)"
  if grep -q '^+++ b/ddsketch/store' $D/patch.diff; then
    if go test -vet=off -count=1 -timeout 25m ./ddsketch/store/ > /tmp/p/$ID.store.log 2>&1; then STORE=pass; else STORE=fail; fi
  fi
  python3 - "$D/meta.json" "$WITH" "$WITHOUT" "$FAST" "$STORE" <<'PY'
import json,sys
f,w,wo,fast,store=sys.argv[1:]
m=json.load(open(f))
m['confirmed']={"demo_with_change":w,"demo_without_change":wo,"existing_fast_packages_with_change":fast,"existing_store_package_with_change":store}
json.dump(m,open(f,'w'),indent=1)
print(m['id'],"demo with:",w,"without:",wo,"fast:",fast,"store:",store)
PY
done
cd $WT && git checkout -q -- . && git clean -fdq
