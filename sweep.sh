#!/bin/sh
# sweep.sh <tier> "<seeds>" [props…] : unchanged-tree sweep; prints one line per run, lists anything that is not OK.
TIER="$1"; SEEDS="$2"; shift 2
PROPS="${*:-C01 C02 C03 C04 C05 C06 C07 C08 C09 C10 C11 C12 C13 C14 C15 C16 C17 C18 C19 C20}"
for s in $SEEDS; do for p in $PROPS; do
  out=$(VERIF_SEED=$s ./check $p --tier $TIER 2>&1 | grep -E 'VIOLATION|^OK|KNOWN' | head -2 | tr '\n' ' ')
  echo "seed=$s $out"
  case "$out" in OK*) ;; *) cp -r replays "replays-$p-$s" 2>/dev/null;; esac
done; done
