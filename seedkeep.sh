#!/bin/bash
# seedkeep.sh <id> <prop> <worktree> "<needs>" "<caught-by summary>" : confirm and archive a seeded change.
ID="$1"; PROP="$2"; WT="$3"; NEEDS="$4"; CAUGHT="$5"
export GOFLAGS=-mod=mod GOPROXY=off GOSUMDB=off GOTOOLCHAIN=local
set -e
cd "$WT"
DEMO=$(git status --short | grep 'zz_seeded_demo_test.go' | awk '{print $2}')
PKG=./$(dirname "$DEMO")/
git diff > /tmp/p/$ID.patch
# with the change: demo must fail
if go test -vet=off -count=1 -run 'TestSeededDemo' "$PKG" > /tmp/p/$ID.with.log 2>&1; then WITH=pass; else WITH=fail; fi
git stash push -q -- $(git diff --name-only)
if go test -vet=off -count=1 -run 'TestSeededDemo' "$PKG" > /tmp/p/$ID.without.log 2>&1; then WITHOUT=pass; else WITHOUT=fail; fi
git stash pop -q
# existing suite with the change (demo moved aside)
mv "$DEMO" /tmp/p/$ID.demo.go
if go test -vet=off -count=1 ./dataset/ ./ddsketch/ ./ddsketch/encoding/ ./ddsketch/mapping/ ./ddsketch/stat/ > /tmp/p/$ID.fast.log 2>&1; then FAST=pass; else FAST=fail; fi
STORE="not run (change does not touch ddsketch/store)"
if git diff --name-only | grep -q 'ddsketch/store'; then
  if go test -vet=off -count=1 -timeout 25m ./ddsketch/store/ > /tmp/p/$ID.store.log 2>&1; then STORE=pass; else STORE=fail; fi
fi
mv /tmp/p/$ID.demo.go "$DEMO"
mkdir -p /verif/seeded/$ID
cp /tmp/p/$ID.patch /verif/seeded/$ID/patch.diff
cp "$DEMO" /verif/seeded/$ID/$(basename "$DEMO")
[ -f SEEDED.md ] && cp SEEDED.md /verif/seeded/$ID/SEEDED.md
python3 - "$ID" "$PROP" "$DEMO" "$WITH" "$WITHOUT" "$FAST" "$STORE" "$NEEDS" "$CAUGHT" <<'PY'
import json,sys
i,prop,demo,w,wo,fast,store,needs,caught=sys.argv[1:]
json.dump({"id":i,"property":prop,"breaks":prop,"demo_test":demo,"needs_to_manifest":needs,
 "confirmed":{"demo_with_change":w,"demo_without_change":wo,"existing_fast_packages_with_change":fast,"existing_store_package_with_change":store},
 "ran":["go test -run TestSeededDemo <pkg> with the change and with it stashed","go test ./dataset/ ./ddsketch/ ./ddsketch/encoding/ ./ddsketch/mapping/ ./ddsketch/stat/ (+ ./ddsketch/store/ when touched) with the change","/verif/seedtest.sh patch.diff <seeds> <props> (apply to /repo, run quick checks, git checkout)"],
 "checks":caught}, open(f"/verif/seeded/{i}/meta.json","w"), indent=1)
print(i, "demo with:",w,"without:",wo,"fast:",fast,"store:",store)
PY
