import DDS.Props.All
import DDS.Props.NonVacuity
import DDS.Driver
