import DDS.Props.All
import DDS.Driver
