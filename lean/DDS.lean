import DDS.Props.All
import DDS.Props.Lift
import DDS.Props.Lift2
import DDS.Props.C12x
import DDS.Props.Lift3
import DDS.Props.NonVacuity
import DDS.Driver
