/-
  DDS.Driver — line protocol between the Go harness and the model (DESIGN §12).

  One operation per input line, one observation per output line. The harness executes the same
  lines on the real implementation and the two output streams are compared textually.
-/
import DDS.Model.Store
import DDS.Model.Codec
import DDS.Driver.Util
import DDS.Driver.StoreOps
import DDS.Driver.CodecOps
import DDS.Driver.SketchOps
import DDS.Driver.DatasetOps
import DDS.Driver.MapOps
import DDS.Driver.StatOps

namespace DDS.Driver

structure State where
  stores : StoreOps.Tbl := {}
  sketches : SketchOps.Tbl := {}
  datasets : DatasetOps.Tbl := []

def step (st : State) (line : String) : State × Option String :=
  let toks := Util.tokens line
  match toks with
  | [] => (st, none)
  | cmd :: args =>
    if cmd = "#hist" then ({}, none)      -- every history starts from scratch
    else if cmd.startsWith "#" then (st, none)
    else if cmd = "codec" then (st, some (CodecOps.run args))
    else if cmd = "stat" then (st, some (StatOps.run args))
    else if StoreOps.isStoreCmd cmd then
      let (t, out) := StoreOps.run st.stores cmd args
      ({ st with stores := t }, some out)
    else if SketchOps.isSketchCmd cmd then
      let (t, out) := SketchOps.run st.sketches cmd args
      ({ st with sketches := t }, some out)
    else if MapOps.isMapCmd cmd then (st, some (MapOps.run args cmd))
    else if DatasetOps.isDatasetCmd cmd then
      let (t, out) := DatasetOps.run st.datasets cmd args
      ({ st with datasets := t }, some out)
    else (st, some "bad-op")

partial def loop (h : IO.FS.Stream) (out : IO.FS.Stream) (st : State) : IO Unit := do
  let line ← h.getLine
  if line.isEmpty then return ()
  let (st', o) := step st line
  match o with
  | some s => out.putStrLn s
  | none => pure ()
  loop h out st'

end DDS.Driver

def main : IO Unit := do
  let stdin ← IO.getStdin
  let stdout ← IO.getStdout
  DDS.Driver.loop stdin stdout {}
  stdout.flush
