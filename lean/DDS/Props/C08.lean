/-
  DDS.Props.C08 — truncated and malformed input.

  * A cut strictly inside a block is an `eof` error of the documentation decoder; a cut between
    blocks yields exactly the complete blocks.  Undefined flag bytes are `unknownFlag` errors.
  * The transcribed decoder (`Sketch.decodeLoop` / `Sketch.decodeAndMergeWith`) on SPEC stores
    refuses every stream cut inside a block, and never panics (`none`) — on any input whatsoever
    in which every readable varfloat is a finite float.

  Proofs are in `DDS.Proofs.Wire`.  Vocabulary defined there:
  * `Block.WF` (see `DDS.Props.C07`), `Block.FiniteWeights` — every bin weight the block carries
    (`Wire.payloadBins`) is a finite float (`F64.isFinite`).
  * `Sketch.IsSparse s` — both stores of `s` are plain finite maps (`.sp`); `Sketch.spec m cp cn z` is.
  * `Sketch.FiniteVarfloats bytes` — at every position of `bytes` where `decVarfloat64` succeeds,
    its value is finite.  (The decoder hands weights to `AddWithCount` unchecked; a non-finite
    weight is outside the model, `none`, for every store kind.)
  * `Wire.OkOrEof r` — `r` is `.ok _` or `.error .eof`.
-/
import DDS.Proofs.Wire
import DDS.Proofs.SketchDefs

namespace DDS.Props.C08

open DDS DDS.Codec DDS.Wire

/-! ### the documentation decoder on truncated input -/

theorem parseBlock_prefix_eof (b : Block) (hb : b.WF) (k : Nat)
    (hk : k < (Wire.encBlock b).length) :
    Wire.parseBlock ((Wire.encBlock b).take k) = .error .eof :=
  Wire.parseBlock_take b hb k hk

example : Wire.parseBlock ((Wire.encBlock (.bins .neg (.deltasCounts [(-7, 0x4000000000000000)]))).take 3)
    = .error .eof :=
  parseBlock_prefix_eof _ (by decide) 3 (by decide)

/-- a cut of an encoded stream either falls between blocks — then exactly the complete blocks are
    parsed — or is an `eof` error -/
theorem parseBlocks_cut (bs : List Block) (h : ∀ b ∈ bs, b.WF) (k : Nat)
    (hk : k ≤ (Wire.encBlocks bs).length) :
    (∃ j, k = (Wire.encBlocks (bs.take j)).length ∧
        Wire.parseBlocks ((Wire.encBlocks bs).take k) = .ok (bs.take j))
    ∨ Wire.parseBlocks ((Wire.encBlocks bs).take k) = .error .eof :=
  Wire.parseBlocks_cut bs h k hk

/-- where a cut can fall: after `j` complete blocks, or `k'` bytes into block number `j` -/
theorem encBlocks_take (bs : List Block) (k : Nat) (hk : k ≤ (Wire.encBlocks bs).length) :
    ∃ j, j ≤ bs.length ∧
      ((k = (Wire.encBlocks (bs.take j)).length ∧
          (Wire.encBlocks bs).take k = Wire.encBlocks (bs.take j)) ∨
       (∃ b k', b ∈ bs ∧ 0 < k' ∧ k' < (Wire.encBlock b).length ∧
          (Wire.encBlocks bs).take k = Wire.encBlocks (bs.take j) ++ (Wire.encBlock b).take k')) :=
  Wire.encBlocks_take bs k hk

/-- a cut strictly inside a block, after any number of complete blocks, is an `eof` error -/
theorem parseBlocks_cut_inside (pre : List Block) (h : ∀ b ∈ pre, b.WF) (b : Block) (hb : b.WF)
    (k : Nat) (h0 : 0 < k) (hk : k < (Wire.encBlock b).length) :
    Wire.parseBlocks (Wire.encBlocks pre ++ (Wire.encBlock b).take k) = .error .eof :=
  Wire.parseBlocks_cut_inside pre h b hb k h0 hk

/-- `parseBlocks` is a total function (it is a Lean function: every input has a result) and it
    never returns `.ok` on input whose last block is cut -/
theorem parseBlocks_total (bytes : Bytes) :
    (∃ bs, Wire.parseBlocks bytes = .ok bs) ∨ (∃ e, Wire.parseBlocks bytes = .error e) := by
  cases h : Wire.parseBlocks bytes with
  | ok bs => exact .inl ⟨bs, rfl⟩
  | error e => exact .inr ⟨e, rfl⟩

theorem parseBlocks_never_ok_on_cut_block (pre : List Block) (h : ∀ b ∈ pre, b.WF) (b : Block)
    (hb : b.WF) (k : Nat) (h0 : 0 < k) (hk : k < (Wire.encBlock b).length) (out : List Block) :
    Wire.parseBlocks (Wire.encBlocks pre ++ (Wire.encBlock b).take k) ≠ .ok out := by
  rw [Wire.parseBlocks_cut_inside pre h b hb k h0 hk]
  intro h'; cases h'

example : Wire.parseBlocks ((Wire.encBlocks [.zeroCount 0x4008000000000000,
      .bins .pos (.deltas [3, 2])]).take 4) = .error .eof := by rfl
example : Wire.parseBlocks ((Wire.encBlocks [.zeroCount 0x4008000000000000,
      .bins .pos (.deltas [3, 2])]).take 2) = .ok [.zeroCount 0x4008000000000000] := by rfl

/-! ### flag bytes outside the format -/

/-- every flag byte that is not one of the 16 defined ones is reported as unknown — for a store
    type with an undefined bin layout the reported value is the sub-flag, otherwise the byte.
    (No bound on `f` is needed.) -/
theorem parseBlock_unknown_flag (f : Nat) (rest : Bytes) (hf : f ∉ definedFlagBytes) :
    ∃ g, Wire.parseBlock (f :: rest) = .error (.unknownFlag g) :=
  Wire.parseBlock_unknown_flag f rest hf

/-- a defined flag byte is never reported as unknown: the block parses or the input ends early -/
theorem parseBlock_defined_flag (f : Nat) (rest : Bytes) (hf : f ∈ definedFlagBytes) :
    OkOrEof (Wire.parseBlock (f :: rest)) :=
  Wire.parseBlock_defined_flag f rest hf

/-- classification of all 256 byte values -/
theorem flag_byte_classification (f : Nat) (_ : f < 256) (rest : Bytes) :
    (f ∈ definedFlagBytes ∧ OkOrEof (Wire.parseBlock (f :: rest))) ∨
    (f ∉ definedFlagBytes ∧ ∃ g, Wire.parseBlock (f :: rest) = .error (.unknownFlag g)) := by
  by_cases hf : f ∈ definedFlagBytes
  · exact .inl ⟨hf, Wire.parseBlock_defined_flag f rest hf⟩
  · exact .inr ⟨hf, Wire.parseBlock_unknown_flag f rest hf⟩

set_option maxRecDepth 8192 in
example : ((List.range 256).filter (fun f => decide (f ∈ definedFlagBytes))) =
    [2, 4, 5, 6, 7, 9, 10, 11, 13, 14, 15, 18, 132, 136, 140, 160] := by decide
set_option maxRecDepth 8192 in
example : ((List.range 256).filter (fun f => decide (f ∉ definedFlagBytes))).length = 240 := by
  decide
example (rest : Bytes) : ∃ g, Wire.parseBlock (17 :: rest) = .error (.unknownFlag g) :=
  parseBlock_unknown_flag 17 rest (by decide)
example (rest : Bytes) : ∃ g, Wire.parseBlock (22 :: rest) = .error (.unknownFlag g) :=
  parseBlock_unknown_flag 22 rest (by decide)

/-! ### the transcribed decoder on truncated input (spec stores) -/

/-- a stream cut strictly inside a block (after any number of complete blocks) is refused by
    `DecodeAndMergeWith` on a spec sketch: never accepted, never a panic.
    The weights of the stream must be finite floats (non-negativity is not needed in the model:
    the spec store accumulates any rational). -/
theorem decode_cut_inside_block_errors (pre : List Block) (hpre : ∀ b ∈ pre, b.WF)
    (hfin : ∀ b ∈ pre, b.FiniteWeights) (b : Block) (hb : b.WF) (hbf : b.FiniteWeights)
    (k : Nat) (h0 : 0 < k) (hk : k < (Wire.encBlock b).length)
    (m : Option MapId) (cp cn : Content) (z : F64) :
    ∃ e, Sketch.decodeAndMergeWith (Sketch.spec m cp cn z)
      (Wire.encBlocks pre ++ (Wire.encBlock b).take k) = some (.error e) :=
  Sketch.decodeAndMergeWith_cut_inside pre hpre hfin b hb hbf k h0 hk _
    (Sketch.isSparse_spec m cp cn z)

/-- the loop-level form, for any store kind: if the complete block would not panic
    (`applyBlock ≠ none`), any strict non-empty prefix of it is refused -/
theorem decodeLoop_cut_block (b : Block) (hb : b.WF) (n : Nat) (s : Sketch) (aux : Sketch.DecAux)
    (k : Nat) (h0 : 0 < k) (hk : k < (Wire.encBlock b).length)
    (hsafe : Sketch.applyBlock s aux b ≠ none) :
    ∃ e, Sketch.decodeLoop (n + 1) s aux ((Wire.encBlock b).take k) = some (.error e) :=
  Sketch.decodeLoop_take_encBlock b hb n s aux k h0 hk hsafe

/-- every cut of an encoded stream of finite weights, on a spec sketch: either the cut is between
    blocks and the decoder does exactly the fold over the complete blocks (not a panic), or it
    refuses -/
theorem decode_cut (bs : List Block) (h : ∀ b ∈ bs, b.WF) (hfin : ∀ b ∈ bs, b.FiniteWeights)
    (k : Nat) (hk : k ≤ (Wire.encBlocks bs).length) (fuel : Nat) (hfuel : k < fuel)
    (m : Option MapId) (cp cn : Content) (z : F64) (aux : Sketch.DecAux) :
    (∃ j, k = (Wire.encBlocks (bs.take j)).length ∧
        Sketch.decodeLoop fuel (Sketch.spec m cp cn z) aux ((Wire.encBlocks bs).take k)
          = Sketch.applyBlocks (Sketch.spec m cp cn z) aux (bs.take j) ∧
        Sketch.applyBlocks (Sketch.spec m cp cn z) aux (bs.take j) ≠ none)
    ∨ ∃ e, Sketch.decodeLoop fuel (Sketch.spec m cp cn z) aux ((Wire.encBlocks bs).take k)
        = some (.error e) :=
  Sketch.decodeLoop_encoded_take_ne_none bs h hfin k hk fuel hfuel _ aux
    (Sketch.isSparse_spec m cp cn z)

/-! ### the transcribed decoder never panics on spec stores -/

/-- ANY byte string: on spec stores the loop never returns `none` (no panic, and `fuel ≥ length`
    is enough fuel), provided every varfloat that can be read anywhere in the input is finite. -/
theorem decode_total_spec (fuel : Nat) (bytes : Bytes) (hl : bytes.length ≤ fuel)
    (m : Option MapId) (cp cn : Content) (z : F64) (aux : Sketch.DecAux)
    (hf : Sketch.FiniteVarfloats bytes) :
    Sketch.decodeLoop fuel (Sketch.spec m cp cn z) aux bytes ≠ none :=
  Sketch.decodeLoop_total_spec fuel bytes _ aux hl (Sketch.isSparse_spec m cp cn z) hf

theorem decodeAndMergeWith_total_spec (bytes : Bytes) (m : Option MapId) (cp cn : Content) (z : F64)
    (hf : Sketch.FiniteVarfloats bytes) :
    Sketch.decodeAndMergeWith (Sketch.spec m cp cn z) bytes ≠ none :=
  Sketch.decodeAndMergeWith_total_spec _ (Sketch.isSparse_spec m cp cn z) bytes hf

/-- the hypothesis is needed: a non-finite weight is a `none` of the model
    (`0x7ff0000000000000` is `+Inf`; the varfloat payload is the bits of `count + 1`) -/
example : Sketch.decodeAndMergeWith (Sketch.spec none [] [] (.fin 0))
    (Wire.encBlocks [.bins .pos (.deltasCounts [(0, 0x7ff0000000000000)])]) = none := by
  rfl

/-- encoded streams with finite bin weights: the fold never panics on spec stores, and keeps them
    spec -/
theorem applyBlocks_spec_total (bs : List Block) (hfin : ∀ b ∈ bs, b.FiniteWeights)
    (m : Option MapId) (cp cn : Content) (z : F64) (aux : Sketch.DecAux) :
    Sketch.applyBlocks (Sketch.spec m cp cn z) aux bs ≠ none ∧
      ∀ s' aux', Sketch.applyBlocks (Sketch.spec m cp cn z) aux bs = some (.ok (s', aux')) →
        s'.IsSparse :=
  Sketch.applyBlocks_spec bs hfin _ aux (Sketch.isSparse_spec m cp cn z)

theorem decode_encoded_total_spec (bs : List Block) (h : ∀ b ∈ bs, b.WF)
    (hfin : ∀ b ∈ bs, b.FiniteWeights) (fuel : Nat) (hf : bs.length ≤ fuel)
    (m : Option MapId) (cp cn : Content) (z : F64) (aux : Sketch.DecAux) :
    Sketch.decodeLoop fuel (Sketch.spec m cp cn z) aux (Wire.encBlocks bs) ≠ none := by
  rw [Sketch.decodeLoop_encBlocks bs h fuel hf]
  exact (Sketch.applyBlocks_spec bs hfin _ aux (Sketch.isSparse_spec m cp cn z)).1

end DDS.Props.C08
