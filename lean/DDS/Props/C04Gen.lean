/-
  DDS.Props.C04Gen — the main theorems about the plain dense store (`DDS/Proofs/Dense.lean`, with the
  growth hypothesis discharged in `DDS/Proofs/Growth.lean`) restated on the REGENERATED code
  `DDS/Generated/CodeDense.lean` (translated from `/repo/ddsketch/store/dense_store.go` on every run).

  Every theorem is the model theorem of the same name transported along the equivalence of
  `DDS/Proofs/GenDenseBase.lean` / `DDS/Proofs/GenDense.lean` (`toGen`, `addWithCount_rel`,
  `mergeWith_rel`, `keyAtRank_eq`, …) with the SAME hypotheses, stated about the model store `s` that
  the generated store `toGen s` holds (`GenDense.forall_gen`: every generated `DenseStore` is `toGen`
  of a plain model store).  A generated method returns `Res _`: `.ok g` is "returned, the receiver is
  now `g`", `.panic` is the Go run-time panic, `.nofuel` is "the fuel given to the loops ran out".
  Each statement says which fuel suffices (`extendFuel`, `mergeFuel`, `reweightFuel`: all computable
  from the arguments) and so proves termination as well; the `_ex` forms only say that enough fuel
  exists (and that any larger amount gives the same result).
-/
import DDS.Proofs.GenDense
import DDS.Proofs.Growth

namespace DDS.Props.C04Gen

open DDS DDS.GoSem DDS.DStore DDS.GenDense

/-! ### `AddWithCount` / `Add` -/

/-- generated `AddWithCount` never panics on a store satisfying the invariant (non-negative weight,
    span below `2^33`), and adds exactly `w` at index `i` -/
theorem gen_addWithCount_ok (fuel : Nat) (s : DStore) (h : Inv s) (i : Int) (w : Rat) (hw : 0 ≤ w)
    (hsp : SpanOK s i i) (hf : extendFuel s i i ≤ fuel) :
    ∃ s', Gen.Dense.DenseStore.AddWithCount fuel (toGen s) i w = .ok (toGen s') ∧ Inv s' ∧
      (∀ j, wt s' j = wt s j + (if j = i then w else 0)) ∧ s'.count = s.count + w := by
  obtain ⟨s', h1, h2, h3, h4⟩ := Uncond.addWithCount_ok s h i w hw hsp
  exact ⟨s', by rw [addWithCount_rel fuel s i w h.plain hf, h1]; rfl, h2, h3, h4⟩

/-- the int32 form: a store holding int32 indexes accepts every int32 index -/
theorem gen_addWithCount_ok32 (fuel : Nat) (s : DStore) (h : Inv s) (hb : Bounded32 s) (i : Int)
    (hi : minInt32 ≤ i ∧ i ≤ maxInt32) (w : Rat) (hw : 0 ≤ w) (hf : extendFuel s i i ≤ fuel) :
    ∃ s', Gen.Dense.DenseStore.AddWithCount fuel (toGen s) i w = .ok (toGen s') ∧ Inv s' ∧
      Bounded32 s' ∧ (∀ j, wt s' j = wt s j + (if j = i then w else 0)) ∧ s'.count = s.count + w := by
  obtain ⟨s', h1, h2, h3, h4, h5⟩ := Uncond.addWithCount_ok32 s h hb i hi w hw
  exact ⟨s', by rw [addWithCount_rel fuel s i w h.plain hf, h1]; rfl, h2, h3, h4, h5⟩

/-- enough fuel exists -/
theorem gen_addWithCount_ok32_ex (s : DStore) (h : Inv s) (hb : Bounded32 s) (i : Int)
    (hi : minInt32 ≤ i ∧ i ≤ maxInt32) (w : Rat) (hw : 0 ≤ w) :
    ∃ s' f0, (∀ fuel, f0 ≤ fuel →
        Gen.Dense.DenseStore.AddWithCount fuel (toGen s) i w = .ok (toGen s')) ∧ Inv s' ∧
      Bounded32 s' ∧ (∀ j, wt s' j = wt s j + (if j = i then w else 0)) ∧ s'.count = s.count + w := by
  obtain ⟨s', h1, h2, h3, h4, h5⟩ := Uncond.addWithCount_ok32 s h hb i hi w hw
  exact ⟨s', extendFuel s i i,
    fun fuel hf => by rw [addWithCount_rel fuel s i w h.plain hf, h1]; rfl, h2, h3, h4, h5⟩

/-- generated `Add(index)` adds exactly one -/
theorem gen_add_ok32 (fuel : Nat) (s : DStore) (h : Inv s) (hb : Bounded32 s) (i : Int)
    (hi : minInt32 ≤ i ∧ i ≤ maxInt32) (hf : extendFuel s i i ≤ fuel) :
    ∃ s', Gen.Dense.DenseStore.Add fuel (toGen s) i = .ok (toGen s') ∧ Inv s' ∧
      Bounded32 s' ∧ (∀ j, wt s' j = wt s j + (if j = i then 1 else 0)) ∧ s'.count = s.count + 1 := by
  obtain ⟨s', h1, h2, h3, h4, h5⟩ := Uncond.addWithCount_ok32 s h hb i hi 1 (by decide)
  exact ⟨s', by rw [add_rel fuel s i h.plain hf, h1]; rfl, h2, h3, h4, h5⟩

/-! ### `MergeWith` (two dense stores) -/

theorem gen_mergeWith_ok (fuel : Nat) (s o : DStore) (hs : Inv s) (ho : Inv o)
    (hsp : SpanOK s o.minIndex o.maxIndex) (hf : mergeFuel s o ≤ fuel) :
    ∃ s', Gen.Dense.DenseStore.MergeWith fuel (toGen s) (toGen o) = .ok (toGen s') ∧ Inv s' ∧
      (∀ j, wt s' j = wt s j + wt o j) ∧ s'.count = s.count + o.count := by
  obtain ⟨s', h1, h2, h3, h4⟩ := Uncond.mergeSame_ok s o hs ho hsp
  exact ⟨s', by rw [mergeWith_rel fuel s o hs.plain hf, h1]; rfl, h2, h3, h4⟩

theorem gen_mergeWith_ok32 (fuel : Nat) (s o : DStore) (hs : Inv s) (ho : Inv o) (bs : Bounded32 s)
    (bo : Bounded32 o) (hf : mergeFuel s o ≤ fuel) :
    ∃ s', Gen.Dense.DenseStore.MergeWith fuel (toGen s) (toGen o) = .ok (toGen s') ∧ Inv s' ∧
      Bounded32 s' ∧ (∀ j, wt s' j = wt s j + wt o j) ∧ s'.count = s.count + o.count := by
  obtain ⟨s', h1, h2, h3, h4, h5⟩ := Uncond.mergeSame_ok32 s o hs ho bs bo
  exact ⟨s', by rw [mergeWith_rel fuel s o hs.plain hf, h1]; rfl, h2, h3, h4, h5⟩

/-! ### `KeyAtRank` -/

/-- generated `KeyAtRank(r)` returns the first index whose cumulative weight exceeds `max r 0`, or
    `maxIndex` when the total count does not exceed it; any fuel, never panics -/
theorem gen_keyAtRank_spec (fuel : Nat) (s : DStore) (h : Inv s) (r : Rat) :
    ∃ k, Gen.Dense.DenseStore.KeyAtRank fuel (toGen s) r = .ok k ∧
      let r' := if r < 0 then 0 else r
      (r' < cum s k ∧ ∀ j, j < k → cum s j ≤ r') ∨ (s.count ≤ r' ∧ k = s.maxIndex) :=
  ⟨s.keyAtRank r, keyAtRank_eq fuel s r, DStore.keyAtRank_spec s h r⟩

/-! ### `Reweight`, `Clear` -/

theorem gen_reweight_ok (fuel : Nat) (s : DStore) (h : Inv s) (w : Rat) (hw : 0 < w) (hw1 : w ≠ 1)
    (hf : reweightFuel s ≤ fuel) :
    ∃ s', Gen.Dense.DenseStore.Reweight fuel (toGen s) w = .ok (toGen s', GoErr.nil) ∧ Inv s' ∧
      (∀ j, wt s' j = wt s j * w) ∧ s'.count = s.count * w := by
  obtain ⟨s', h1, h2, h3, h4⟩ := DStore.reweight_ok s h w hw
  exact ⟨s', by rw [reweight_rel fuel s w hw hw1 hf, h1]; rfl, h2, h3, h4⟩

theorem gen_clear_spec (fuel : Nat) (s : DStore) (h : Inv s) :
    ∃ s', Gen.Dense.DenseStore.Clear fuel (toGen s) = .ok (toGen s') ∧ Inv s' ∧ ∀ j, wt s' j = 0 :=
  ⟨s.clear, clear_rel fuel s, (DStore.clear_spec s h).1, (DStore.clear_spec s h).2⟩

/-! ### `MinIndex` / `MaxIndex` -/

theorem gen_minIndex_spec (s : DStore) (h : Inv s) (hb : Bounded32 s) (k : Int)
    (hk : Gen.Dense.DenseStore.MinIndex (toGen s) = (k, GoErr.nil)) :
    0 < wt s k ∧ ∀ j, j < k → wt s j = 0 := by
  rw [minIndex_eq] at hk
  cases hm : s.minIndex? with
  | none =>
    rw [hm] at hk
    have e : Gen.Dense.errUndefinedMinIndex = GoErr.nil := congrArg Prod.snd hk
    exact absurd e (by decide)
  | some i =>
    rw [hm] at hk
    have : i = k := congrArg Prod.fst hk
    exact DStore.minIndex_spec s h hb k (this ▸ hm)

theorem gen_maxIndex_spec (s : DStore) (h : Inv s) (hb : Bounded32 s) (k : Int)
    (hk : Gen.Dense.DenseStore.MaxIndex (toGen s) = (k, GoErr.nil)) :
    0 < wt s k ∧ ∀ j, k < j → wt s j = 0 := by
  rw [maxIndex_eq] at hk
  cases hm : s.maxIndex? with
  | none =>
    rw [hm] at hk
    have e : Gen.Dense.errUndefinedMaxIndex = GoErr.nil := congrArg Prod.snd hk
    exact absurd e (by decide)
  | some i =>
    rw [hm] at hk
    have : i = k := congrArg Prod.fst hk
    exact DStore.maxIndex_spec s h hb k (this ▸ hm)

/-- the error `errUndefinedMinIndex` is returned exactly by the stores that hold no weight -/
theorem gen_minIndex_undefined_iff (s : DStore) (h : Inv s) :
    (Gen.Dense.DenseStore.MinIndex (toGen s)).2 = Gen.Dense.errUndefinedMinIndex ↔ ∀ j, wt s j = 0 := by
  rw [minIndex_eq, ← DStore.minIndex?_none_iff s h]
  cases s.minIndex? with
  | none => simp
  | some i => simp [Gen.Dense.errUndefinedMinIndex]

/-! ### histories -/

/-- every history of adds (int32 indexes, non-negative weights), clears and reweightings run by the
    GENERATED code from `NewDenseStore()` terminates without a panic (given enough fuel) in a state
    that is `toGen` of a model store satisfying the invariant -/
theorem gen_run_ok (ops : List Op)
    (hops : ∀ op ∈ ops, match op with
      | .add i w => 0 ≤ w ∧ minInt32 ≤ i ∧ i ≤ maxInt32 | _ => True) :
    ∃ s f0, (∀ fuel, f0 ≤ fuel → genRun fuel ops Gen.Dense.NewDenseStore = .ok (toGen s)) ∧
      Inv s ∧ Bounded32 s := by
  obtain ⟨s, h1, h2, h3⟩ := Uncond.run_ok32 ops hops
  obtain ⟨f0, hf⟩ := genRun_rel ops (DStore.new .plain) rfl
  refine ⟨s, f0, fun fuel hfuel => ?_, h2, h3⟩
  rw [newDenseStore_eq, hf fuel hfuel, h1]
  rfl

/-! ### the finding reproduces on the generated code -/

/-- FINDING (concrete, known): add index `0`, then index `2^62`, to a fresh generated dense store —
    the second `AddWithCount` panics (the float `getNewLength` under-allocates by one) -/
theorem gen_addWithCount_far_panics :
    ∃ s f0, ∀ fuel, f0 ≤ fuel →
      Gen.Dense.DenseStore.AddWithCount fuel Gen.Dense.NewDenseStore 0 1 = .ok (toGen s) ∧
      Gen.Dense.DenseStore.AddWithCount fuel (toGen s) (2^62) 1 = .panic := by
  obtain ⟨s, h1, h2, h3⟩ := DStore.addWithCount_far_panics DStore.growthOK
  refine ⟨s, max (extendFuel (DStore.new .plain) 0 0) (extendFuel s (2^62) (2^62)), fun fuel hf => ⟨?_, ?_⟩⟩
  · rw [newDenseStore_eq, addWithCount_rel fuel _ 0 1 rfl (by omega), h1]; rfl
  · rw [addWithCount_rel fuel s _ 1 h2.plain (by omega), h3]; rfl

end DDS.Props.C04Gen
