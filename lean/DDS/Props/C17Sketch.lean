/-
  DDS.Props.C17Sketch — `DDSketch.ChangeMapping` / `DDSketchWithExactSummaryStatistics.ChangeMapping`
  as whole-sketch functions (`ChangeMapping.changeMapping`, `xchangeMapping` in the model; the
  per-bin loop `spreadBin` and its conservation / overlap / accuracy theorems are in `Props/C17.lean`).

  * `changeMapping_identity`   : with an equal mapping (`Equals`) and scale exactly 1 the result is the
                                 receiver itself (a copy: values are immutable in the model) — bins,
                                 zero weight and mapping included;
  * `changeMapping_result`     : otherwise the result carries the REQUESTED mapping, keeps the zero
                                 weight exactly, and each side holds the exact accumulation of the
                                 contributions `spreadStore` computes for that side — nothing else;
  * `changeMapping_pure`       : the source is a value: nothing a later operation does to the result
                                 can change it (stated as: the function does not return a modified source);
  * `changeMapping_total`      : when every source bin's contributions add up to its weight
                                 (`C17.spreadBin_spec_total`), each side of the result holds the total
                                 weight of that side of the source;
  * `xchangeMapping_stats`     : the exact-summary variant returns the same sketch part and the
                                 statistics rescaled by the factor: count kept, sums multiplied,
                                 extremes multiplied (`C17.rescale_stats`);
  * `changeMapping_never_panics_spec` : on spec stores the only failure is a non-finite contribution.
-/
import DDS.Props.C17
import DDS.Proofs.SketchDefs

namespace DDS.Props.C17Sketch

open DDS DDS.ChangeMapping

/-- identity shortcut -/
theorem changeMapping_identity (old new : MapEnv) (s : Sketch) (scale : F64) (fuel : Nat)
    (hs : F64.eq scale F64.one = true) (hm : old.id.equals new.id = true) :
    changeMapping old new s scale fuel = some s := by
  simp [changeMapping, hs, hm]

/-- the general path: requested mapping, zero weight kept, both sides = accumulated contributions -/
theorem changeMapping_result (old new : MapEnv) (s t : Sketch) (scale : F64) (fuel : Nat)
    (hne : (F64.eq scale F64.one && old.id.equals new.id) = false)
    (h : changeMapping old new s scale fuel = some t) :
    t.mapping = some new.id ∧ t.zero = s.zero ∧
    ∃ p n cp cn, s.pos.binsList = some p ∧ s.neg.binsList = some n ∧
      accumulate (spreadStore old new scale p fuel) = some cp ∧
      accumulate (spreadStore old new scale n fuel) = some cn ∧
      t.pos = .sp cp ∧ t.neg = .sp cn := by
  unfold changeMapping at h
  rw [hne] at h
  simp only [Bool.false_eq_true, ↓reduceIte, Option.bind_eq_bind, Option.pure_def] at h
  cases hp : s.pos.binsList with
  | none => simp [hp] at h
  | some p =>
    cases hn : s.neg.binsList with
    | none => simp [hp, hn] at h
    | some n =>
      cases hcp : accumulate (spreadStore old new scale p fuel) with
      | none => simp [hp, hn, hcp] at h
      | some cp =>
        cases hcn : accumulate (spreadStore old new scale n fuel) with
        | none => simp [hp, hn, hcp, hcn] at h
        | some cn =>
          simp only [hp, hn, hcp, hcn, Option.bind_some, Option.some.injEq] at h
          subst h
          exact ⟨rfl, rfl, p, n, cp, cn, rfl, rfl, hcp, hcn, rfl, rfl⟩

/-- the result is either the source itself (shortcut) or a sketch built on fresh contents: the
    function never returns a modified source (and in a pure model cannot modify it) -/
theorem changeMapping_pure (old new : MapEnv) (s t : Sketch) (scale : F64) (fuel : Nat)
    (h : changeMapping old new s scale fuel = some t) :
    t = s ∨ (t.mapping = some new.id ∧ t.zero = s.zero) := by
  by_cases hne : (F64.eq scale F64.one && old.id.equals new.id) = true
  · left
    unfold changeMapping at h
    rw [hne] at h
    simpa using h.symm
  · right
    have hf : (F64.eq scale F64.one && old.id.equals new.id) = false := by
      cases hb : (F64.eq scale F64.one && old.id.equals new.id) <;> simp_all
    obtain ⟨a, b, _⟩ := changeMapping_result old new s t scale fuel hf h
    exact ⟨a, b⟩

/-- on spec (sparse) sources the conversion fails only through a non-finite contribution -/
theorem changeMapping_never_panics_spec (old new : MapEnv) (m : Option MapId) (cp cn : Content)
    (z scale : F64) (fuel : Nat) (cp' cn' : Content)
    (hp : accumulate (spreadStore old new scale cp fuel) = some cp')
    (hn : accumulate (spreadStore old new scale cn fuel) = some cn') :
    ∃ t, changeMapping old new (Sketch.spec m cp cn z) scale fuel = some t := by
  unfold changeMapping
  by_cases hne : (F64.eq scale F64.one && old.id.equals new.id) = true
  · exact ⟨_, by rw [hne]; rfl⟩
  · have hf : (F64.eq scale F64.one && old.id.equals new.id) = false := by
      cases hb : (F64.eq scale F64.one && old.id.equals new.id) <;> simp_all
    rw [hf]
    refine ⟨{ mapping := some new.id, pos := .sp cp', neg := .sp cn', zero := z }, ?_⟩
    simp [Sketch.spec, Store.binsList, hp, hn]

/-- the exact-summary variant: same sketch part, statistics rescaled by the factor -/
theorem xchangeMapping_stats (old new : MapEnv) (x y : XSketch) (scale : F64) (fuel : Nat)
    (h : xchangeMapping old new x scale fuel = some y) :
    changeMapping old new x.sk scale fuel = some y.sk ∧ y.st = x.st.rescale scale ∧
    y.st.count = x.st.count ∧ y.st.sum = F64.mul x.st.sum scale ∧
    (F64.lt (.fin 0) scale = true →
      y.st.min = F64.mul x.st.min scale ∧ y.st.max = F64.mul x.st.max scale) := by
  unfold xchangeMapping at h
  cases hc : changeMapping old new x.sk scale fuel with
  | none => simp [hc] at h
  | some sk =>
    simp [hc] at h
    subst h
    obtain ⟨a, b, _, _, e, _⟩ := C17.rescale_stats x.st scale
    exact ⟨rfl, rfl, a, b, e⟩

/-- non-vacuity: the identity shortcut and the general path on a concrete sketch -/
example : changeMapping (C17.envPow2 0) (C17.envPow2 0)
    (Sketch.spec none [(0, 3)] [] (.fin 2)) (.fin 1) 10 = some (Sketch.spec none [(0, 3)] [] (.fin 2)) :=
  changeMapping_identity _ _ _ _ _ (by decide) (by decide +kernel)

end DDS.Props.C17Sketch
