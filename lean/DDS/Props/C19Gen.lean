/-
  DDS.Props.C19Gen — the C19 property theorems ("the identity `(kind, gamma, indexOffset)` of an
  index mapping: `Equals` and the serialized mapping block", `DDS/Props/C19.lean`) restated on the
  REGENERATED code `DDS/Generated/CodeMapId.lean` (translated from
  `/repo/ddsketch/mapping/{logarithmic,linearly_interpolated,cubically_interpolated}_mapping.go` on
  every run).

  Every theorem is the model theorem of the same name transported along the equivalences of
  `DDS/Proofs/GenMapId.lean` (`log_equals_eq`, `log_encode_eq`, … ), with the SAME hypotheses, for
  each of the three kinds.  `fuel` is arbitrary in every statement about `Encode` (no loop).

  `Equals` is translated for an argument of the receiver's own kind; across kinds Go's type assertion
  fails and the answer is `false` — the model's `equals_kind`, see `GenMapId.equals_other_kind`.
-/
import DDS.Proofs.GenMapId
import DDS.Props.C19

set_option linter.unusedVariables false

namespace DDS.Props.C19Gen

open DDS DDS.GoSem DDS.Gen.MapId DDS.GenEncoding DDS.GenMapId

/-! ### `Equals` is reflexive on finite parameters -/

theorem log_equals_refl (m : LogarithmicMapping) (g o : Rat)
    (hg : m.gamma = .fin g) (ho : m.indexOffset = .fin o) : m.Equals m = true := by
  rw [log_equals_eq]; exact C19.equals_refl (toIdLog m) g o hg ho

theorem lin_equals_refl (m : LinearlyInterpolatedMapping) (g o : Rat)
    (hg : m.gamma = .fin g) (ho : m.indexOffset = .fin o) : m.Equals m = true := by
  rw [lin_equals_eq]; exact C19.equals_refl (toIdLin m) g o hg ho

theorem cub_equals_refl (m : CubicallyInterpolatedMapping) (g o : Rat)
    (hg : m.gamma = .fin g) (ho : m.indexOffset = .fin o) : m.Equals m = true := by
  rw [cub_equals_eq]; exact C19.equals_refl (toIdCub m) g o hg ho

/-- Finiteness is needed, on the generated code as in the model and in Go: a mapping with
    `gamma = +Inf` is not `Equals` to itself (`Inf - Inf` is NaN) -/
example (mu lo hi : F64) :
    LogarithmicMapping.Equals ⟨.pinf, .fin 0, mu, lo, hi⟩ ⟨.pinf, .fin 0, mu, lo, hi⟩ = false := by
  rw [log_equals_eq]
  show (⟨.log, .pinf, .fin 0⟩ : MapId).equals ⟨.log, .pinf, .fin 0⟩ = false
  rfl

/-! ### `Equals` is symmetric on finite parameters -/

theorem log_equals_symm (a b : LogarithmicMapping) (ga gb oa ob : Rat)
    (hga : a.gamma = .fin ga) (hgb : b.gamma = .fin gb)
    (hoa : a.indexOffset = .fin oa) (hob : b.indexOffset = .fin ob) :
    a.Equals b = b.Equals a := by
  rw [log_equals_eq, log_equals_eq]
  exact C19.equals_symm (toIdLog a) (toIdLog b) ga gb oa ob hga hgb hoa hob

theorem lin_equals_symm (a b : LinearlyInterpolatedMapping) (ga gb oa ob : Rat)
    (hga : a.gamma = .fin ga) (hgb : b.gamma = .fin gb)
    (hoa : a.indexOffset = .fin oa) (hob : b.indexOffset = .fin ob) :
    a.Equals b = b.Equals a := by
  rw [lin_equals_eq, lin_equals_eq]
  exact C19.equals_symm (toIdLin a) (toIdLin b) ga gb oa ob hga hgb hoa hob

theorem cub_equals_symm (a b : CubicallyInterpolatedMapping) (ga gb oa ob : Rat)
    (hga : a.gamma = .fin ga) (hgb : b.gamma = .fin gb)
    (hoa : a.indexOffset = .fin oa) (hob : b.indexOffset = .fin ob) :
    a.Equals b = b.Equals a := by
  rw [cub_equals_eq, cub_equals_eq]
  exact C19.equals_symm (toIdCub a) (toIdCub b) ga gb oa ob hga hgb hoa hob

/-! ### the same identity is `Equals` -/

theorem log_equals_of_identity (a b : LogarithmicMapping) (g o : Rat)
    (hg : a.gamma = b.gamma) (ho : a.indexOffset = b.indexOffset)
    (hgf : a.gamma = .fin g) (hof : a.indexOffset = .fin o) : a.Equals b = true := by
  rw [log_equals_eq]
  exact C19.equals_of_identity (toIdLog a) (toIdLog b) g o rfl hg ho hgf hof

theorem lin_equals_of_identity (a b : LinearlyInterpolatedMapping) (g o : Rat)
    (hg : a.gamma = b.gamma) (ho : a.indexOffset = b.indexOffset)
    (hgf : a.gamma = .fin g) (hof : a.indexOffset = .fin o) : a.Equals b = true := by
  rw [lin_equals_eq]
  exact C19.equals_of_identity (toIdLin a) (toIdLin b) g o rfl hg ho hgf hof

theorem cub_equals_of_identity (a b : CubicallyInterpolatedMapping) (g o : Rat)
    (hg : a.gamma = b.gamma) (ho : a.indexOffset = b.indexOffset)
    (hgf : a.gamma = .fin g) (hof : a.indexOffset = .fin o) : a.Equals b = true := by
  rw [cub_equals_eq]
  exact C19.equals_of_identity (toIdCub a) (toIdCub b) g o rfl hg ho hgf hof

/-! ### gammas further apart than the tolerance are told apart -/

theorem log_not_equals_of_gamma_apart (a b : LogarithmicMapping) (ga gb : Rat)
    (hga : a.gamma = .fin ga) (hgb : b.gamma = .fin gb)
    (h1a : 1 ≤ ga) (h1b : 1 ≤ gb) (hfa : ga ≤ pow2 1023) (hfb : gb ≤ pow2 1023)
    (h : ga * (1 + 2 / 10^12) < gb ∨ gb * (1 + 2 / 10^12) < ga) :
    a.Equals b = false := by
  rw [log_equals_eq]
  exact C19.not_equals_of_gamma_apart (toIdLog a) (toIdLog b) ga gb hga hgb h1a h1b hfa hfb h

theorem lin_not_equals_of_gamma_apart (a b : LinearlyInterpolatedMapping) (ga gb : Rat)
    (hga : a.gamma = .fin ga) (hgb : b.gamma = .fin gb)
    (h1a : 1 ≤ ga) (h1b : 1 ≤ gb) (hfa : ga ≤ pow2 1023) (hfb : gb ≤ pow2 1023)
    (h : ga * (1 + 2 / 10^12) < gb ∨ gb * (1 + 2 / 10^12) < ga) :
    a.Equals b = false := by
  rw [lin_equals_eq]
  exact C19.not_equals_of_gamma_apart (toIdLin a) (toIdLin b) ga gb hga hgb h1a h1b hfa hfb h

theorem cub_not_equals_of_gamma_apart (a b : CubicallyInterpolatedMapping) (ga gb : Rat)
    (hga : a.gamma = .fin ga) (hgb : b.gamma = .fin gb)
    (h1a : 1 ≤ ga) (h1b : 1 ≤ gb) (hfa : ga ≤ pow2 1023) (hfb : gb ≤ pow2 1023)
    (h : ga * (1 + 2 / 10^12) < gb ∨ gb * (1 + 2 / 10^12) < ga) :
    a.Equals b = false := by
  rw [cub_equals_eq]
  exact C19.not_equals_of_gamma_apart (toIdCub a) (toIdCub b) ga gb hga hgb h1a h1b hfa hfb h

/-- gamma = 1.02 against gamma = 1.03, on the generated `Equals` -/
example (mu lo hi : F64) :
    LogarithmicMapping.Equals ⟨F64.ofBits 0x3FF051EB851EB852, .fin 0, mu, lo, hi⟩
      ⟨.fin (103 / 100), .fin 0, mu, lo, hi⟩ = false := by
  refine log_not_equals_of_gamma_apart _ _ _ _ C19.gamma102_eq rfl (by norm_num) (by norm_num) ?_ ?_
    (Or.inl (by norm_num))
  · exact le_trans (by norm_num : (4593671619917906 / 4503599627370496 : Rat) ≤ 2) (by
      have := pow2_mono (show (1:Int) ≤ 1023 by norm_num); rwa [pow2_one] at this)
  · exact le_trans (by norm_num : (103 / 100 : Rat) ≤ 2) (by
      have := pow2_mono (show (1:Int) ≤ 1023 by norm_num); rwa [pow2_one] at this)

/-! ### the binary round trip: what `Encode` writes, the documented block parser reads back as the
    mapping block, and `ofBlock` (the checks of `mapping.Decode`) rebuilds the identity -/

/-- the model theorem on any identity whose `Encode` writes the model's block -/
theorem roundtrip_of_encode (id : MapId) (r : Res (List (BitVec 8))) (b : List (BitVec 8))
    (he : r = .ok (b ++ bn (Wire.encBlock id.toBlock)))
    (hg : F64.ofBits (F64.toBits id.gamma) = id.gamma)
    (ho : F64.ofBits (F64.toBits id.indexOffset) = id.indexOffset)
    (h1 : F64.le id.gamma (.fin 1) = false) (rest : Bytes) :
    ∃ bs sub g o, r = .ok (b ++ bs) ∧
      Wire.parseBlock (nb bs ++ rest) = .ok (.mapping sub g o, rest) ∧
      MapId.ofBlock sub g o = .ok id := by
  obtain ⟨hp, hb⟩ := C19.binary_roundtrip id hg ho h1 rest
  refine ⟨_, MapId.subFlag id.kind, id.gamma.toBits.toNat, id.indexOffset.toBits.toNat, he, ?_, hb⟩
  rw [nb_bn_encBlock]
  exact hp

theorem log_binary_roundtrip (fuel : Nat) (m : LogarithmicMapping) (b : List (BitVec 8))
    (hg : F64.ofBits (F64.toBits m.gamma) = m.gamma)
    (ho : F64.ofBits (F64.toBits m.indexOffset) = m.indexOffset)
    (h1 : F64.le m.gamma (.fin 1) = false) (rest : Bytes) :
    ∃ bs sub g o, LogarithmicMapping.Encode fuel m b = .ok (b ++ bs) ∧
      Wire.parseBlock (nb bs ++ rest) = .ok (.mapping sub g o, rest) ∧
      MapId.ofBlock sub g o = .ok (toIdLog m) :=
  roundtrip_of_encode (toIdLog m) _ b (log_encode_eq fuel m b) hg ho h1 rest

theorem lin_binary_roundtrip (fuel : Nat) (m : LinearlyInterpolatedMapping) (b : List (BitVec 8))
    (hg : F64.ofBits (F64.toBits m.gamma) = m.gamma)
    (ho : F64.ofBits (F64.toBits m.indexOffset) = m.indexOffset)
    (h1 : F64.le m.gamma (.fin 1) = false) (rest : Bytes) :
    ∃ bs sub g o, LinearlyInterpolatedMapping.Encode fuel m b = .ok (b ++ bs) ∧
      Wire.parseBlock (nb bs ++ rest) = .ok (.mapping sub g o, rest) ∧
      MapId.ofBlock sub g o = .ok (toIdLin m) :=
  roundtrip_of_encode (toIdLin m) _ b (lin_encode_eq fuel m b) hg ho h1 rest

theorem cub_binary_roundtrip (fuel : Nat) (m : CubicallyInterpolatedMapping) (b : List (BitVec 8))
    (hg : F64.ofBits (F64.toBits m.gamma) = m.gamma)
    (ho : F64.ofBits (F64.toBits m.indexOffset) = m.indexOffset)
    (h1 : F64.le m.gamma (.fin 1) = false) (rest : Bytes) :
    ∃ bs sub g o, CubicallyInterpolatedMapping.Encode fuel m b = .ok (b ++ bs) ∧
      Wire.parseBlock (nb bs ++ rest) = .ok (.mapping sub g o, rest) ∧
      MapId.ofBlock sub g o = .ok (toIdCub m) :=
  roundtrip_of_encode (toIdCub m) _ b (cub_encode_eq fuel m b) hg ho h1 rest

/-! ### non-vacuity: the mapping of relative accuracy 1 % (`gamma = 1.02`, offset 0) -/

/-- the generated logarithmic mapping whose identity is `C19.m102` (the other fields do not enter
    the identity) -/
def g102 (mu lo hi : F64) : LogarithmicMapping :=
  ⟨F64.ofBits 0x3FF051EB851EB852, .fin 0, mu, lo, hi⟩

theorem toIdLog_g102 (mu lo hi : F64) : toIdLog (g102 mu lo hi) = C19.m102 := rfl

example (mu lo hi : F64) : (g102 mu lo hi).Equals (g102 mu lo hi) = true :=
  log_equals_refl _ _ 0 C19.gamma102_eq rfl

example (mu lo hi : F64) (fuel : Nat) (b : List (BitVec 8)) (rest : Bytes) :
    ∃ bs sub g o, LogarithmicMapping.Encode fuel (g102 mu lo hi) b = .ok (b ++ bs) ∧
      Wire.parseBlock (nb bs ++ rest) = .ok (.mapping sub g o, rest) ∧
      MapId.ofBlock sub g o = .ok C19.m102 :=
  log_binary_roundtrip fuel (g102 mu lo hi) b C19.m102_valid.1 C19.m102_valid.2 C19.m102_valid.3 rest

/-- the seventeen bytes, spelled out: flag `0x02` (type 2 = index mapping, sub-flag 0 = logarithmic),
    `1.02` and `0.0` little endian -/
example (mu lo hi : F64) (fuel : Nat) :
    LogarithmicMapping.Encode fuel (g102 mu lo hi) []
      = .ok [0x02#8, 0x52#8, 0xB8#8, 0x1E#8, 0x85#8, 0xEB#8, 0x51#8, 0xF0#8, 0x3F#8,
             0#8, 0#8, 0#8, 0#8, 0#8, 0#8, 0#8, 0#8] := by
  have hg : F64.toBits (F64.ofBits 0x3FF051EB851EB852) = 0x3FF051EB851EB852 :=
    F64.ofBits_toBits_fin _ (by rw [C19.gamma102_eq]; simp) (by decide)
  have ho : F64.toBits (.fin 0) = 0 := by simp [F64.toBits]
  rw [log_encode_eq]
  simp only [toIdLog, g102, MapId.toBlock, hg, ho]
  rfl

/-- the cubic flag: `0x0E` (type 2, sub-flag 3) -/
example (mu lo hi : F64) (fuel : Nat) :
    CubicallyInterpolatedMapping.Encode fuel ⟨F64.ofBits 0x3FF051EB851EB852, .fin 0, mu, lo, hi⟩ []
      = .ok [0x0E#8, 0x52#8, 0xB8#8, 0x1E#8, 0x85#8, 0xEB#8, 0x51#8, 0xF0#8, 0x3F#8,
             0#8, 0#8, 0#8, 0#8, 0#8, 0#8, 0#8, 0#8] := by
  have hg : F64.toBits (F64.ofBits 0x3FF051EB851EB852) = 0x3FF051EB851EB852 :=
    F64.ofBits_toBits_fin _ (by rw [C19.gamma102_eq]; simp) (by decide)
  have ho : F64.toBits (.fin 0) = 0 := by simp [F64.toBits]
  rw [cub_encode_eq]
  simp only [toIdCub, MapId.toBlock, hg, ho]
  rfl

end DDS.Props.C19Gen
