/-
  DDS.Props.C10 — "Summary statistics are exact whenever the float operations are".

  Statements about the Lean transcription `DDS.Summary` (`DDS/Model/Summary.lean`) of
  `ddsketch/stat/summary.go` (Kahan-compensated count / sum / min / max) over the exact binary64
  model `F64`, and about the clamping of `DDSketchWithExactSummaryStatistics` (`DDS.XSketch`);
  proved with the lemmas of `DDS.Proofs.Summary`.

  "Exact field" reading.  `exactOf l` is THE summary of a list `l` of `(value, weight)` pairs:
  count `Σ w`, sum and simpleSum `Σ v·w`, compensation `0`, min / max the least / greatest value
  (`+∞ / −∞` for the empty list).  The theorems say: as long as the float operations the code
  performs are exact (hypotheses `F64.isRep …` on exactly the numbers it computes: the partial
  counts, the products `v·w`, the partial sums — `RepFrom` / `RepOK`), the state IS `exactOf l`,
  and merging / reweighting / rescaling exact summaries gives the exact summary of the union /
  reweighted / rescaled list.  `repOK_nat` shows the hypotheses hold for natural values and weights
  whose totals stay `≤ 2^53`.

  min and max involve no arithmetic at all (`minmax_no_rounding`), so for ARBITRARY floats the
  reported extremes are values that were actually absorbed (`extremes_are_absorbed_values`).

  Remarks / corrections with respect to the informal claims:
  * `fold_exact` does not need `w > 0`; `Add` updates min and max even for weight 0 (the sketch
    wrapper `XSketch.addWithCount` never calls it with weight 0: `xsketch_add_zero_weight`).
  * `empty_iff` needs `w ≥ 0`: with weights of both signs the count can cancel to 0.
  * `reweight` by 0 resets min/max (result `Summary.new`), so `reweight_exact` is for `w ≠ 0`.
  * `xsketch_quantile_clamped` needs `¬ max < min`; it fails for the statistics of the empty summary
    (`xsketch_clamp_needs_min_le_max`), which `maxOf_not_lt_minOf` excludes for non-empty lists.
-/
import DDS.Proofs.Summary
import DDS.Model.Dataset

namespace DDS.Props.C10

open DDS DDS.Summary DDS.F64

/-! ### the vocabulary, restated -/

example (v m : F64) : minStep v m = if F64.lt v m then v else m := rfl
example (v m : F64) : maxStep v m = if F64.lt m v then v else m := rfl
example (l : List (Rat × Rat)) : cnt l = (l.map (fun p => p.2)).sum := rfl
example (l : List (Rat × Rat)) : tot l = (l.map (fun p => p.1 * p.2)).sum := rfl
example (l : List (Rat × Rat)) :
    minOf l = l.foldl (fun m p => minStep (.fin p.1) m) .pinf := rfl
example (l : List (Rat × Rat)) :
    maxOf l = l.foldl (fun m p => maxStep (.fin p.1) m) .ninf := rfl
example (s : Summary) (l : List (Rat × Rat)) :
    addAll s l = l.foldl (fun s p => s.add (.fin p.1) (.fin p.2)) s := rfl
example (l : List (Rat × Rat)) : exactOf l =
    { count := .fin (cnt l), sum := .fin (tot l), sumCompensation := .fin 0,
      simpleSum := .fin (tot l), min := minOf l, max := maxOf l } := rfl
example (c sm : Rat) (p : Rat × Rat) (rest : List (Rat × Rat)) :
    RepFrom c sm (p :: rest) ↔
      (isRep (c + p.2) = true ∧ isRep (p.1 * p.2) = true ∧ isRep (sm + p.1 * p.2) = true ∧
        RepFrom (c + p.2) (sm + p.1 * p.2) rest) := Iff.rfl
example (l : List (Rat × Rat)) : RepOK l ↔ RepFrom 0 0 l := Iff.rfl
example : exactOf [] = Summary.new := rfl

/-- the running example: values 3, −1, 5/2 with weights 2, 1, 4 -/
def exL : List (Rat × Rat) := [(3, 2), (-1, 1), (5/2, 4)]

theorem exL_ok : RepOK exL :=
  ⟨by decide +kernel, by decide +kernel, by decide +kernel,
   by decide +kernel, by decide +kernel, by decide +kernel,
   by decide +kernel, by decide +kernel, by decide +kernel, trivial⟩

/-! ### one addition -/

/-- with exact additions the compensation stays 0 and the state is the exact one.
    Hypotheses: exactly the three numbers the code rounds (`count + w`, `v·w`, `sum + v·w`). -/
theorem add_exact_state (c sm v w : Rat) (mn mx : F64) (h1 : isRep (c + w) = true)
    (h2 : isRep (v * w) = true) (h3 : isRep (sm + v * w) = true) :
    (Summary.mk (.fin c) (.fin sm) (.fin 0) (.fin sm) mn mx).add (.fin v) (.fin w) =
      Summary.mk (.fin (c + w)) (.fin (sm + v * w)) (.fin 0) (.fin (sm + v * w))
        (if F64.lt (.fin v) mn then .fin v else mn) (if F64.lt mx (.fin v) then .fin v else mx) :=
  Summary.add_exact_state c sm v w mn mx h1 h2 h3

example : (Summary.mk (.fin 2) (.fin 6) (.fin 0) (.fin 6) (.fin 3) (.fin 3)).add (.fin (-1)) (.fin 1) =
    Summary.mk (.fin 3) (.fin 5) (.fin 0) (.fin 5) (.fin (-1)) (.fin 3) := by
  have := add_exact_state 2 6 (-1) 1 (.fin 3) (.fin 3) (by decide +kernel) (by decide +kernel)
    (by decide +kernel)
  rw [this]; decide +kernel

/-! ### a history of additions -/

/-- after absorbing `l` the summary is the exact one -/
theorem fold_exact_eq (l : List (Rat × Rat)) (h : RepOK l) : addAll Summary.new l = exactOf l :=
  addAll_new_exact l h

/-- … field by field: count `Σ w`, `Sum()` `Σ v·w`, compensation 0, min / max of the values -/
theorem fold_exact (l : List (Rat × Rat)) (h : RepOK l) :
    (addAll Summary.new l).count = .fin (cnt l) ∧
    (addAll Summary.new l).getSum = .fin (tot l) ∧
    (addAll Summary.new l).sumCompensation = .fin 0 ∧
    (addAll Summary.new l).sum = .fin (tot l) ∧
    (addAll Summary.new l).simpleSum = .fin (tot l) ∧
    (addAll Summary.new l).min = minOf l ∧
    (addAll Summary.new l).max = maxOf l := by
  rw [fold_exact_eq l h]
  refine ⟨rfl, ?_, rfl, rfl, rfl, rfl, rfl⟩
  have hrep : isRep (tot l) = true := by
    have := repFrom_isRep_sum l 0 0 h isRep_zero
    rwa [zero_add] at this
  exact getSum_exact _ _ _ _ hrep

/-- `minOf` / `maxOf` of a non-empty list are its least / greatest value -/
theorem min_is_least (l : List (Rat × Rat)) (hl : l ≠ []) :
    ∃ m, minOf l = .fin m ∧ (∃ p ∈ l, p.1 = m) ∧ ∀ p ∈ l, m ≤ p.1 := minOf_spec l hl

theorem max_is_greatest (l : List (Rat × Rat)) (hl : l ≠ []) :
    ∃ m, maxOf l = .fin m ∧ (∃ p ∈ l, p.1 = m) ∧ ∀ p ∈ l, p.1 ≤ m := maxOf_spec l hl

/-- the same starting from any exact state (count `c`, sum `sm`) -/
theorem fold_exact_from (l : List (Rat × Rat)) (c sm : Rat) (mn mx : F64) (h : RepFrom c sm l) :
    addAll (Summary.mk (.fin c) (.fin sm) (.fin 0) (.fin sm) mn mx) l =
      Summary.mk (.fin (c + cnt l)) (.fin (sm + tot l)) (.fin 0) (.fin (sm + tot l))
        (l.foldl (fun m p => minStep (.fin p.1) m) mn) (l.foldl (fun m p => maxStep (.fin p.1) m) mx) :=
  addAll_exact_from l c sm mn mx h

/-- the hypotheses are satisfiable: natural values and weights with totals `≤ 2^53` -/
theorem repOK_nat (l : List (Nat × Nat))
    (h1 : (l.map (fun p => p.2)).sum ≤ 2 ^ 53)
    (h2 : (l.map (fun p => p.1 * p.2)).sum ≤ 2 ^ 53) :
    RepOK (l.map (fun p => ((p.1 : Rat), (p.2 : Rat)))) := by
  have := repFrom_nat l 0 0 (by omega) (by omega)
  simpa [RepOK] using this

example : RepOK ([(3, 2), (1, 1), (2, 4)].map (fun p : Nat × Nat => ((p.1 : Rat), (p.2 : Rat)))) :=
  repOK_nat _ (by decide) (by decide)

example : (addAll Summary.new exL).count = .fin 7 ∧ (addAll Summary.new exL).getSum = .fin 15 ∧
    (addAll Summary.new exL).sumCompensation = .fin 0 := by
  obtain ⟨h1, h2, h3, _⟩ := fold_exact exL exL_ok
  refine ⟨by rw [h1]; decide +kernel, by rw [h2]; decide +kernel, h3⟩

example : (addAll Summary.new exL).min = .fin (-1) ∧ (addAll Summary.new exL).max = .fin 3 := by
  obtain ⟨_, _, _, _, _, h6, h7⟩ := fold_exact exL exL_ok
  rw [h6, h7]
  exact ⟨minOf_eq_of _ _ ⟨(-1, 1), by decide +kernel, rfl⟩ (by decide +kernel),
         maxOf_eq_of _ _ ⟨(3, 2), by decide +kernel, rfl⟩ (by decide +kernel)⟩

/-! ### emptiness -/

/-- with non-negative weights the count is 0 exactly when nothing of positive weight was absorbed
    (both for `=` and for the float comparison `==` used by `IsEmpty`) -/
theorem empty_iff (l : List (Rat × Rat)) (h : RepOK l) (hw : ∀ p ∈ l, 0 ≤ p.2) :
    ((addAll Summary.new l).count = .fin 0 ↔ ∀ p ∈ l, p.2 = 0) ∧
    (F64.eq (addAll Summary.new l).count (.fin 0) = true ↔ ∀ p ∈ l, p.2 = 0) := by
  rw [(fold_exact l h).1]
  constructor
  · rw [← cnt_eq_zero_iff l hw]
    constructor
    · intro e; injection e
    · intro e; rw [e]
  · rw [← cnt_eq_zero_iff l hw]
    simp only [F64.eq, beq_iff_eq]

/-- with positive weights: empty iff nothing was absorbed -/
theorem empty_iff_pos (l : List (Rat × Rat)) (h : RepOK l) (hw : ∀ p ∈ l, 0 < p.2) :
    F64.eq (addAll Summary.new l).count (.fin 0) = true ↔ l = [] := by
  rw [(empty_iff l h (fun p hp => (hw p hp).le)).2]
  constructor
  · intro hall
    cases l with
    | nil => rfl
    | cons p r =>
      have := hw p (List.mem_cons_self ..)
      have := hall p (List.mem_cons_self ..)
      linarith
  · rintro rfl; simp

/-- weights of both signs can cancel: the hypothesis `0 ≤ w` of `empty_iff` is needed -/
theorem empty_iff_needs_nonneg :
    (addAll Summary.new [(1, 1), (2, -1)]).count = .fin 0 := by decide +kernel

example : F64.eq (addAll Summary.new exL).count (.fin 0) = false := by
  have h := empty_iff_pos exL exL_ok (by decide)
  cases hc : F64.eq (addAll Summary.new exL).count (.fin 0) with
  | false => rfl
  | true => exact absurd (h.mp hc) (by decide)

/-! ### merging, reweighting, rescaling, clearing -/

/-- merging two exact summaries is the exact summary of the union.  Hypotheses: the three numbers
    the code rounds (`count₁ + count₂`, `sum₁ + sum₂`) and that the incoming sum is a float. -/
theorem mergeWith_exact (l₁ l₂ : List (Rat × Rat)) (hc : isRep (cnt l₁ + cnt l₂) = true)
    (hs2 : isRep (tot l₂) = true) (hs : isRep (tot l₁ + tot l₂) = true) :
    (exactOf l₁).mergeWith (exactOf l₂) = exactOf (l₁ ++ l₂) := by
  unfold exactOf
  rw [mergeWith_exact_state _ _ _ _ _ _ _ _ hc hs2 hs, cnt_append, tot_append, minOf_append,
    maxOf_append]

/-- state form (any min / max) -/
theorem mergeWith_exact_state (c1 s1 c2 s2 : Rat) (mn1 mx1 mn2 mx2 : F64)
    (hc : isRep (c1 + c2) = true) (hs2 : isRep s2 = true) (hs : isRep (s1 + s2) = true) :
    (Summary.mk (.fin c1) (.fin s1) (.fin 0) (.fin s1) mn1 mx1).mergeWith
        (Summary.mk (.fin c2) (.fin s2) (.fin 0) (.fin s2) mn2 mx2) =
      Summary.mk (.fin (c1 + c2)) (.fin (s1 + s2)) (.fin 0) (.fin (s1 + s2))
        (if F64.lt mn2 mn1 then mn2 else mn1) (if F64.lt mx1 mx2 then mx2 else mx1) :=
  Summary.mergeWith_exact_state c1 s1 c2 s2 mn1 mx1 mn2 mx2 hc hs2 hs

example : (exactOf exL).mergeWith (exactOf [(7, 1)]) = exactOf (exL ++ [(7, 1)]) :=
  mergeWith_exact _ _ (by decide +kernel) (by decide +kernel) (by decide +kernel)

/-- reweighting by `w ≠ 0` (the sketch only passes `w > 0`): every weight multiplied by `w` -/
theorem reweight_exact (l : List (Rat × Rat)) (w : Rat) (hw : w ≠ 0)
    (hc : isRep (cnt l * w) = true) (hs : isRep (tot l * w) = true) :
    (exactOf l).reweight (.fin w) = exactOf (scaleWts w l) := by
  unfold exactOf
  rw [reweight_exact_state _ _ _ _ _ hc hs, if_neg hw, cnt_scaleWts, tot_scaleWts]
  unfold minOf maxOf
  rw [minFrom_scaleWts, maxFrom_scaleWts]

/-- reweighting by 0 gives the empty summary -/
theorem reweight_zero (l : List (Rat × Rat)) : (exactOf l).reweight (.fin 0) = Summary.new := by
  unfold exactOf
  rw [reweight_exact_state _ _ _ _ _ (by rw [mul_zero]; exact isRep_zero)
    (by rw [mul_zero]; exact isRep_zero), if_pos rfl]

example : (exactOf exL).reweight (.fin 3) = exactOf [(3, 6), (-1, 3), (5/2, 12)] := by
  have := reweight_exact exL 3 (by norm_num) (by decide +kernel) (by decide +kernel)
  rw [this]; decide +kernel

/-- state form of `Rescale(f)`, the three cases of the code; `count` is any float -/
theorem rescale_exact_state (c : F64) (sm f : Rat) (mn mx : F64) (hs : isRep (sm * f) = true) :
    (Summary.mk c (.fin sm) (.fin 0) (.fin sm) mn mx).rescale (.fin f) =
      if 0 < f then
        Summary.mk c (.fin (sm * f)) (.fin 0) (.fin (sm * f)) (F64.mul mn (.fin f)) (F64.mul mx (.fin f))
      else if f < 0 then
        Summary.mk c (.fin (sm * f)) (.fin 0) (.fin (sm * f)) (F64.mul mx (.fin f)) (F64.mul mn (.fin f))
      else if F64.ne c (.fin 0) = true then
        Summary.mk c (.fin 0) (.fin 0) (.fin 0) (.fin 0) (.fin 0)
      else Summary.mk c (.fin 0) (.fin 0) (.fin 0) mn mx :=
  Summary.rescale_exact_state c sm f mn mx hs

/-- rescaling an exact summary: every value multiplied by `f` (`f > 0`, `f < 0` and `f = 0` alike).
    Hypotheses: the products the code rounds (`sum·f`, `min·f`, `max·f`); positive weights are
    only used for `f = 0` (the code looks at `count ≠ 0`). -/
theorem rescale_exact (l : List (Rat × Rat)) (f : Rat) (hs : isRep (tot l * f) = true)
    (hmn : ∀ a, minOf l = .fin a → isRep (a * f) = true)
    (hmx : ∀ b, maxOf l = .fin b → isRep (b * f) = true)
    (hw : ∀ p ∈ l, 0 < p.2) :
    (exactOf l).rescale (.fin f) = exactOf (scaleVals f l) := by
  unfold exactOf
  rw [Summary.rescale_exact_state _ _ _ _ _ hs, cnt_scaleVals, tot_scaleVals]
  by_cases hl : l = []
  · subst hl
    simp only [scaleVals, List.map_nil, minOf_nil, maxOf_nil, tot_nil, zero_mul, cnt_nil]
    split
    · rename_i h; simp [F64.mul, h]
    · split
      · rename_i h1 h2; simp [F64.mul, h2, h1]
      · simp [F64.ne, F64.eq]
  · obtain ⟨a, ha, _⟩ := minOf_spec l hl
    obtain ⟨b, hb, _⟩ := maxOf_spec l hl
    have hcnt : cnt l ≠ 0 := (cnt_pos l hl hw).ne'
    rw [ha, hb, mul_exact a f (hmn a ha), mul_exact b f (hmx b hb)]
    split
    · rename_i h
      rw [minOf_scaleVals_nonneg f h.le l a ha, maxOf_scaleVals_nonneg f h.le l b hb]
    · split
      · rename_i h1 h2
        rw [minOf_scaleVals_neg f h2.le l b hb, maxOf_scaleVals_neg f h2.le l a ha]
      · rename_i h1 h2
        have hf : f = 0 := le_antisymm (not_lt.mp h1) (not_lt.mp h2)
        subst hf
        rw [minOf_scaleVals_nonneg 0 (le_refl _) l a ha, maxOf_scaleVals_nonneg 0 (le_refl _) l b hb]
        simp [F64.ne, F64.eq, hcnt]

example : (exactOf exL).rescale (.fin (-2)) = exactOf [(-6, 2), (2, 1), (-5, 4)] := by
  have hmin : minOf exL = .fin (-1) := minOf_eq_of _ _ ⟨(-1, 1), by decide +kernel, rfl⟩ (by decide +kernel)
  have hmax : maxOf exL = .fin 3 := maxOf_eq_of _ _ ⟨(3, 2), by decide +kernel, rfl⟩ (by decide +kernel)
  have := rescale_exact exL (-2) (by decide +kernel)
    (by intro a ha; rw [hmin] at ha; injection ha with ha; subst ha; decide +kernel)
    (by intro b hb; rw [hmax] at hb; injection hb with hb; subst hb; decide +kernel)
    (by decide)
  rw [this]; decide +kernel

theorem clear_is_new (s : Summary) : s.clear = Summary.new ∧ Summary.new = exactOf [] := ⟨rfl, rfl⟩

/-! ### min and max never round -/

/-- for ANY floats (NaN, infinities, inexact sums …) the new extremes are one comparison away from
    the old ones: no arithmetic is involved -/
theorem minmax_no_rounding (s : Summary) (v w : F64) :
    (s.add v w).min = (if F64.lt v s.min then v else s.min) ∧
    (s.add v w).max = (if F64.lt s.max v then v else s.max) :=
  add_min_max s v w

/-- hence the reported extremes of any history are the initial ones or values actually absorbed -/
theorem extremes_are_absorbed_values (l : List (F64 × F64)) :
    let s := l.foldl (fun s p => s.add p.1 p.2) Summary.new
    (s.min = .pinf ∨ ∃ p ∈ l, s.min = p.1) ∧ (s.max = .ninf ∨ ∃ p ∈ l, s.max = p.1) :=
  addAllF_min_max Summary.new l

/-- the same for `MergeWith` -/
theorem merge_minmax_no_rounding (s o : Summary) :
    (s.mergeWith o).min = (if F64.lt o.min s.min then o.min else s.min) ∧
    (s.mergeWith o).max = (if F64.lt s.max o.max then o.max else s.max) := by
  unfold Summary.mergeWith Summary.sumWithCompensation
  simp only
  split <;> split <;> exact ⟨rfl, rfl⟩

example : ((Summary.mk (.fin 1) (.fin 1) (.fin 0) (.fin 1) (.fin 1) (.fin 1)).add .nan (.fin 1)).min
    = .fin 1 := by
  rw [(minmax_no_rounding _ _ _).1]; rfl

/-! ### the sketch with exact summary statistics -/

/-- quantile answers of the exact variant lie within `[min, max]` as soon as `¬ max < min`
    (which holds for the statistics of a non-empty exact summary: `exact_stats_ordered`) -/
theorem xsketch_quantile_clamped (env : MapEnv) (x : XSketch) (q v : F64)
    (hmm : F64.lt x.st.max x.st.min = false) (h : x.quantile env q = .ok v) :
    F64.lt v x.st.min = false ∧ F64.gt v x.st.max = false := by
  rw [XSketch.quantile_eq] at h
  cases hq : x.sk.quantile env q with
  | error e => rw [hq] at h; cases h
  | ok u =>
    rw [hq] at h
    injection h with h
    subst h
    exact XSketch.clampTo_bounds x u hmm

theorem exact_stats_ordered (l : List (Rat × Rat)) (hl : l ≠ []) :
    F64.lt (exactOf l).max (exactOf l).min = false := maxOf_not_lt_minOf l hl

/-- for the statistics of the EMPTY summary the clamp returns `+∞ > max = −∞`: the hypothesis of
    `xsketch_quantile_clamped` is needed (the plain sketch refuses quantiles of an empty sketch, so
    this only matters when sketch and statistics disagree) -/
theorem xsketch_clamp_needs_min_le_max (sk : Sketch) :
    let x : XSketch := { sk := sk, st := Summary.new }
    x.clampTo (.fin 0) = .pinf ∧ F64.gt (x.clampTo (.fin 0)) x.st.max = true := by
  intro x; exact ⟨rfl, rfl⟩

/-- if the plain answer lies within `[min, max]` the exact variant returns the plain answer -/
theorem xsketch_quantile_eq_plain (env : MapEnv) (x : XSketch) (q u : F64)
    (h : x.sk.quantile env q = .ok u) (h1 : F64.lt u x.st.min = false)
    (h2 : F64.gt u x.st.max = false) : x.quantile env q = .ok u := by
  rw [XSketch.quantile_eq, h]
  show Except.ok (x.clampTo u) = _
  rw [XSketch.clampTo_id x u h1 h2]

/-- errors of the plain sketch pass through unchanged -/
theorem xsketch_quantile_error (env : MapEnv) (x : XSketch) (q : F64) (e : SkErr)
    (h : x.sk.quantile env q = .error e) : x.quantile env q = .error e := by
  rw [XSketch.quantile_eq, h]

/-- a refused (or panicking) add produces no new state: the result carries no sketch, so the
    caller's `x` — statistics included — is what remains -/
theorem xsketch_add_refused_keeps_stats (env : MapEnv) (x : XSketch) (v c : F64) (idx : Int) :
    (∀ e, x.sk.addWithCount env v c idx = some (.error e) →
        x.addWithCount env v c idx = some (.error e)) ∧
    (x.sk.addWithCount env v c idx = none → x.addWithCount env v c idx = none) ∧
    (∀ x', x.addWithCount env v c idx = some (.ok x') →
        x' = x ∨ ∃ sk, x.sk.addWithCount env v c idx = some (.ok sk) ∧ x'.sk = sk ∧
          x'.st = x.st.add v c) := by
  refine ⟨?_, ?_, ?_⟩
  · intro e h; unfold XSketch.addWithCount; rw [h]
  · intro h; unfold XSketch.addWithCount; rw [h]
  · intro x' h
    unfold XSketch.addWithCount at h
    cases hs : x.sk.addWithCount env v c idx with
    | none => rw [hs] at h; cases h
    | some r =>
      cases r with
      | error e => rw [hs] at h; cases h
      | ok sk =>
        rw [hs] at h
        simp only at h
        split at h
        · left; injection h with h; injection h with h; exact h.symm
        · right; injection h with h; injection h with h; subst h; exact ⟨sk, rfl, rfl, rfl⟩

/-- an accepted value of weight 0 changes nothing (neither statistics nor stores) -/
theorem xsketch_add_zero_weight (env : MapEnv) (x x' : XSketch) (v c : F64) (idx : Int)
    (hc : F64.eq c (.fin 0) = true) (h : x.addWithCount env v c idx = some (.ok x')) : x' = x := by
  unfold XSketch.addWithCount at h
  cases hs : x.sk.addWithCount env v c idx with
  | none => rw [hs] at h; cases h
  | some r =>
    cases r with
    | error e => rw [hs] at h; cases h
    | ok sk =>
      rw [hs] at h
      simp only [hc, if_true] at h
      injection h with h; injection h with h; exact h.symm

/-- an accepted value of non-zero weight is absorbed by `Summary.add` -/
theorem xsketch_add_accepted (env : MapEnv) (x x' : XSketch) (v c : F64) (idx : Int)
    (hc : F64.eq c (.fin 0) = false) (h : x.addWithCount env v c idx = some (.ok x')) :
    x'.st = x.st.add v c := by
  unfold XSketch.addWithCount at h
  cases hs : x.sk.addWithCount env v c idx with
  | none => rw [hs] at h; cases h
  | some r =>
    cases r with
    | error e => rw [hs] at h; cases h
    | ok sk =>
      rw [hs] at h
      simp only [hc] at h
      injection h with h; injection h with h; subst h; rfl

/-- the other operations act on the statistics through the `Summary` functions above -/
theorem xsketch_stats_ops (x o x' : XSketch) (w : F64) :
    (x.mergeWith o = some (.ok x') → x'.st = x.st.mergeWith o.st) ∧
    (x.reweight w = some (.ok x') → x'.st = x.st.reweight w) ∧
    x.clear.st = Summary.new := by
  refine ⟨?_, ?_, rfl⟩
  · intro h
    unfold XSketch.mergeWith at h
    cases hs : x.sk.mergeWith o.sk with
    | none => rw [hs] at h; cases h
    | some r =>
      cases r with
      | error e => rw [hs] at h; cases h
      | ok sk => rw [hs] at h; injection h with h; injection h with h; subst h; rfl
  · intro h
    unfold XSketch.reweight at h
    cases hs : x.sk.reweight w with
    | none => rw [hs] at h; cases h
    | some r =>
      cases r with
      | error e => rw [hs] at h; cases h
      | ok sk => rw [hs] at h; injection h with h; injection h with h; subst h; rfl

/-! ### `Dataset.Sum()` -/

/-- the ground-truth helper's `Sum()` (a Kahan fold with weight 1) is the exact sum of the values
    whenever the partial counts and partial sums are representable -/
theorem dataset_sum_exact (d : Dataset) (h : RepOK (d.values.map (fun v => (v, (1 : Rat))))) :
    d.sum = .fin d.values.sum := by
  have e : d.sum = (addAll Summary.new (d.values.map (fun v => (v, (1 : Rat))))).getSum := by
    unfold Dataset.sum addAll
    rw [List.foldl_map]; rfl
  rw [e, (fold_exact _ h).2.1]
  congr 1
  unfold tot
  rw [List.map_map]
  congr 1
  have : ((fun p : Rat × Rat => p.1 * p.2) ∘ fun v : Rat => (v, (1 : Rat))) = id := by
    funext v; simp
  rw [this, List.map_id]

example : (Dataset.mk [3, -1, 2, 2, 7] (.fin 5) false).sum = .fin 13 := by
  have := dataset_sum_exact (Dataset.mk [3, -1, 2, 2, 7] (.fin 5) false)
    ⟨by decide +kernel, by decide +kernel, by decide +kernel,
     by decide +kernel, by decide +kernel, by decide +kernel,
     by decide +kernel, by decide +kernel, by decide +kernel,
     by decide +kernel, by decide +kernel, by decide +kernel,
     by decide +kernel, by decide +kernel, by decide +kernel, trivial⟩
  rw [this]; decide +kernel

end DDS.Props.C10
