/-
  DDS.Props.C02 — full mergeability.

  Any tree of merges over sketches built from sub-lists of the inputs yields the sketch obtained by
  adding all inputs to one sketch (`merge_tree`); the order of the inputs does not matter
  (`addAll_perm`); the empty sketch is a right unit (`merge_empty_right`); `mergeWith` reads only
  (mapping, bins, zero) of its argument (`merge_pure_argument`).  The statements are on SPEC
  sketches and are lifted to any store kind through `Sketch.Refines` (`merge_refines`).

  The only place where float arithmetic is not associative is the zero bucket; `ExactSums` is the
  hypothesis under which it is (every sub-sum of the zero weights is a binary64 number), and
  `exactSums_of_nat` shows that integer weights with total ≤ 2^53 satisfy it.
-/
import DDS.Proofs.SpecSketch
import DDS.Proofs.Num

namespace DDS.Props.C02
open DDS DDS.Sketch

/-! ## `MapId.equals` is reflexive -/

theorem tol_eq : F64.ofBits 0x3d719799812dea11 = .fin (4951760157141521 / 4951760157141521099596496896) := by
  simp [F64.ofBits, pow2_eq_zpow]
  norm_num

theorem tol_pos : ∃ t : Rat, 0 < t ∧ F64.ofBits 0x3d719799812dea11 = .fin t :=
  ⟨_, by norm_num, tol_eq⟩

theorem fabs_fin (x : Rat) : MapId.fabs (.fin x) = .fin |x| := by
  unfold MapId.fabs
  by_cases h : x < 0
  · simp [F64.lt, h, F64.neg, abs_of_neg h]
  · simp [F64.lt, h, abs_of_nonneg (not_lt.mp h)]

theorem le_zero_round (y : Rat) (hy : 0 ≤ y) : F64.le (.fin 0) (F64.roundF64 y) = true := by
  rw [F64.roundF64_eq]
  have := F64.rv_nonneg hy
  have hp := pow2_pos 1024
  split_ifs with h1 h2
  · rfl
  · linarith
  · rcases this.lt_or_eq with h | h
    · simp [F64.le, F64.lt, h]
    · simp [F64.le, F64.lt, F64.eq, ← h]

theorem withinTolerance_refl (x : Rat) : MapId.withinTolerance (.fin x) (.fin x) = true := by
  obtain ⟨t, ht, htol⟩ := tol_pos
  unfold MapId.withinTolerance
  simp only [htol, fabs_fin]
  by_cases hx : x = 0
  · subst hx
    simp [F64.eq, F64.le, F64.lt, ht]
  · have h0 : F64.sub (.fin x) (.fin x) = .fin 0 := by
      show F64.roundF64 (x + -x) = _
      rw [add_neg_cancel]; exact F64.roundF64_zero
    have hm : MapId.fmaxF (.fin |x|) (.fin |x|) = .fin |x| := by
      simp [MapId.fmaxF, F64.isNaN, F64.lt]
    simp only [h0, hm, fabs_fin, abs_zero]
    have : F64.mul (.fin t) (.fin |x|) = F64.roundF64 (t * |x|) := rfl
    rw [this, le_zero_round _ (by positivity)]
    simp [F64.eq, hx]

/-- `MapId.equals` is reflexive on mappings with finite parameters -/
theorem equals_refl (id : MapId) (g o : Rat) (hg : id.gamma = .fin g) (ho : id.indexOffset = .fin o) :
    id.equals id = true := by
  simp [MapId.equals, hg, ho, withinTolerance_refl]

/-! ## merge trees -/

inductive MergeTree where
  | leaf (inputs : List (Rat × Rat))
  | node (l r : MergeTree)

/-- all inputs of the tree, left to right -/
def MergeTree.flat : MergeTree → List (Rat × Rat)
  | .leaf l => l
  | .node l r => l.flat ++ r.flat

/-- leaf: the inputs added to a new sparse sketch; node: the right result merged into the left
    one (`none` if any step is refused or panics) -/
def MergeTree.eval (env : MapEnv) : MergeTree → Option Sketch
  | .leaf l => Sketch.addAll env (Sketch.new (some env.id) .sparse) l
  | .node l r =>
    match l.eval env, r.eval env with
    | some a, some b =>
      match a.mergeWith b with
      | some (.ok s) => some s
      | _ => none
    | _, _ => none

/-! ## exact zero-bucket sums -/

/-- every sub-sum of the weights (sum of a sub-multiset) is exactly representable in binary64:
    then any way of adding them up in float arithmetic is exact -/
def ExactSums (ws : List Rat) : Prop :=
  ∀ p sub : List Rat, p.Perm ws → sub.Sublist p → F64.isRep sub.sum = true

theorem ExactSums.perm {ws ws' : List Rat} (h : ExactSums ws) (hp : ws.Perm ws') : ExactSums ws' :=
  fun p sub hpp hs => h p sub (hpp.trans hp.symm) hs

theorem ExactSums.left {x y : List Rat} (h : ExactSums (x ++ y)) : ExactSums x :=
  fun p sub hp hs => h (p ++ y) sub (hp.append_right y) (hs.trans (List.sublist_append_left p y))

theorem ExactSums.right {x y : List Rat} (h : ExactSums (x ++ y)) : ExactSums y :=
  fun p sub hp hs => h (x ++ p) sub (hp.append_left x) (hs.trans (List.sublist_append_right x p))

theorem ExactSums.whole {ws : List Rat} (h : ExactSums ws) : F64.isRep ws.sum = true :=
  h ws ws (List.Perm.refl _) (List.Sublist.refl _)

theorem ExactSums.tail {c : Rat} {ws : List Rat} (h : ExactSums (c :: ws)) : ExactSums ws :=
  ExactSums.right (x := [c]) h

theorem fsum_exact_aux (pre ws : List Rat) (h : ExactSums (pre ++ ws)) :
    fsum (.fin pre.sum) ws = .fin (pre ++ ws).sum := by
  induction ws generalizing pre with
  | nil => simp
  | cons c ws ih =>
    have hrep : F64.isRep (pre ++ [c]).sum = true :=
      h (pre ++ c :: ws) (pre ++ [c]) (List.Perm.refl _)
        (List.Sublist.append_left (List.cons_sublist_cons.2 (List.nil_sublist ws)) pre)
    have hadd : F64.add (.fin pre.sum) (.fin c) = .fin (pre ++ [c]).sum := by
      have := F64.add_exact pre.sum c (by simpa using hrep)
      simpa using this
    have h' : ExactSums ((pre ++ [c]) ++ ws) := by simpa using h
    rw [fsum_cons, hadd, ih (pre ++ [c]) h']
    simp

/-- under `ExactSums`, the float sum of the weights is their exact sum -/
theorem fsum_exact (ws : List Rat) (h : ExactSums ws) : fsum (.fin 0) ws = .fin ws.sum := by
  have := fsum_exact_aux [] ws (by simpa using h)
  simpa using this

/-- non-vacuity: natural-number weights whose total is at most 2^53 -/
theorem exactSums_of_nat (ws : List Rat) (hnat : ∀ w ∈ ws, ∃ n : Nat, w = (n : Rat))
    (htot : ws.sum ≤ 2 ^ 53) : ExactSums ws := by
  intro p sub hp hs
  have hnatp : ∀ w ∈ p, ∃ n : Nat, w = (n : Rat) := fun w hw => hnat w (hp.mem_iff.1 hw)
  have hnn : ∀ w ∈ p, (0 : Rat) ≤ w := by
    intro w hw; obtain ⟨n, rfl⟩ := hnatp w hw; exact Nat.cast_nonneg n
  have hle : sub.sum ≤ 2 ^ 53 := by
    calc sub.sum ≤ p.sum := hs.sum_le_sum hnn
      _ = ws.sum := hp.sum_eq
      _ ≤ 2 ^ 53 := htot
  have hsubnat : ∀ (l : List Rat), (∀ w ∈ l, ∃ n : Nat, w = (n : Rat)) → ∃ n : Nat, l.sum = (n : Rat) := by
    intro l
    induction l with
    | nil => intro _; exact ⟨0, by simp⟩
    | cons a l ih =>
      intro hl
      obtain ⟨n, hn⟩ := hl a (List.mem_cons_self ..)
      obtain ⟨k, hk⟩ := ih (fun w hw => hl w (List.mem_cons_of_mem _ hw))
      exact ⟨n + k, by rw [List.sum_cons, hn, hk]; push_cast; ring⟩
  obtain ⟨n, hn⟩ := hsubnat sub (fun w hw => hnatp w (hs.subset hw))
  rw [hn] at hle ⊢
  have hn' : (n : Int) ≤ 2 ^ 53 := by exact_mod_cast hle
  have := F64.isRep_int (n : Int) (by rw [abs_of_nonneg (by positivity)]; exact hn')
  simpa using this

/-! ## the closed form of a merge tree -/

section tree
variable (env : MapEnv) (mn mx : Rat)

/-- the sketch every merge tree over the inputs `l` evaluates to -/
def target (l : List (Rat × Rat)) : Sketch :=
  spec (some env.id) (Content.merge [] (posPart env mn l)) (Content.merge [] (negPart env mn l))
    (.fin (zeroPart mn l).sum)

theorem addAll_new (hmn : env.minIndexable = .fin mn) (hmx : env.maxIndexable = .fin mx)
    (hmn0 : 0 ≤ mn) (l : List (Rat × Rat)) (hacc : Accepted mx l)
    (hexact : ExactSums (zeroPart mn l)) :
    Sketch.addAll env (Sketch.new (some env.id) .sparse) l = some (target env mn l) := by
  rw [new_sparse, addAll_spec env mn mx hmn hmx hmn0 _ l hacc, fsum_exact _ hexact]
  rfl

theorem target_isSpec (l : List (Rat × Rat)) (hacc : Accepted mx l) : (target env mn l).IsSpec :=
  isSpec_spec _ _ _ _
    (Content.wf_merge_of_nonneg [] _ Content.wf_nil
      (posPart_nonneg env mn l (fun p hp => (hacc p hp).2)))
    (Content.wf_merge_of_nonneg [] _ Content.wf_nil
      (negPart_nonneg env mn l (fun p hp => (hacc p hp).2)))

theorem target_merge (hrefl : env.id.equals env.id = true) (l₁ l₂ : List (Rat × Rat))
    (h₁ : Accepted mx l₁) (h₂ : Accepted mx l₂) (hexact : ExactSums (zeroPart mn (l₁ ++ l₂))) :
    (target env mn l₁).mergeWith (target env mn l₂) = some (.ok (target env mn (l₁ ++ l₂))) := by
  unfold target
  rw [mergeWith_spec _ _ _ _ _ _ _ _ (by simpa [mappingEquals] using hrefl)]
  have hz : F64.add (.fin (zeroPart mn l₁).sum) (.fin (zeroPart mn l₂).sum)
      = .fin (zeroPart mn (l₁ ++ l₂)).sum := by
    have := F64.add_exact (zeroPart mn l₁).sum (zeroPart mn l₂).sum
      (by simpa [zeroPart_append] using hexact.whole)
    simpa [zeroPart_append] using this
  rw [hz, posPart_append, negPart_append,
    Content.canon_append _ _ (posPart_nonneg env mn l₁ (fun p hp => (h₁ p hp).2))
      (posPart_nonneg env mn l₂ (fun p hp => (h₂ p hp).2)),
    Content.canon_append _ _ (negPart_nonneg env mn l₁ (fun p hp => (h₁ p hp).2))
      (negPart_nonneg env mn l₂ (fun p hp => (h₂ p hp).2))]

/-- every merge tree evaluates to `target` of its flattened inputs -/
theorem eval_eq_target (hmn : env.minIndexable = .fin mn) (hmx : env.maxIndexable = .fin mx)
    (hmn0 : 0 ≤ mn) (hrefl : env.id.equals env.id = true) (t : MergeTree)
    (hacc : Accepted mx t.flat) (hexact : ExactSums (zeroPart mn t.flat)) :
    t.eval env = some (target env mn t.flat) := by
  induction t with
  | leaf l => exact addAll_new env mn mx hmn hmx hmn0 l hacc hexact
  | node l r ihl ihr =>
    have hex' : ExactSums (zeroPart mn l.flat ++ zeroPart mn r.flat) := by
      simpa [MergeTree.flat, zeroPart_append] using hexact
    have hl := ihl (Accepted.left hacc) hex'.left
    have hr := ihr (Accepted.right hacc) hex'.right
    simp only [MergeTree.eval, hl, hr, MergeTree.flat]
    rw [target_merge env mn mx hrefl _ _ (Accepted.left hacc) (Accepted.right hacc) hexact]

/-- **Full mergeability.**  Any tree of merges over sketches built from the pieces of the input
    equals (field by field — hence for every observer) the single sketch that received all the
    inputs. -/
theorem merge_tree (hmn : env.minIndexable = .fin mn) (hmx : env.maxIndexable = .fin mx)
    (hmn0 : 0 ≤ mn) (hrefl : env.id.equals env.id = true) (t : MergeTree)
    (hacc : ∀ p ∈ t.flat, rabs p.1 ≤ mx ∧ 0 ≤ p.2) (hexact : ExactSums (zeroPart mn t.flat)) :
    ∃ s s', t.eval env = some s ∧
      Sketch.addAll env (Sketch.new (some env.id) .sparse) t.flat = some s' ∧
      s.pos = s'.pos ∧ s.neg = s'.neg ∧ s.zero = s'.zero ∧ s.mapping = s'.mapping :=
  ⟨_, _, eval_eq_target env mn mx hmn hmx hmn0 hrefl t hacc hexact,
    addAll_new env mn mx hmn hmx hmn0 t.flat hacc hexact, rfl, rfl, rfl, rfl⟩

/-- the same, as one equation; the common value is a spec sketch with canonical contents -/
theorem merge_tree_eq (hmn : env.minIndexable = .fin mn) (hmx : env.maxIndexable = .fin mx)
    (hmn0 : 0 ≤ mn) (hrefl : env.id.equals env.id = true) (t : MergeTree)
    (hacc : ∀ p ∈ t.flat, rabs p.1 ≤ mx ∧ 0 ≤ p.2) (hexact : ExactSums (zeroPart mn t.flat)) :
    t.eval env = Sketch.addAll env (Sketch.new (some env.id) .sparse) t.flat ∧
      ∃ s, t.eval env = some s ∧ s.IsSpec := by
  rw [eval_eq_target env mn mx hmn hmx hmn0 hrefl t hacc hexact,
    addAll_new env mn mx hmn hmx hmn0 t.flat hacc hexact]
  exact ⟨rfl, _, rfl, target_isSpec env mn mx _ hacc⟩

/-- two trees over permuted inputs agree: shape and order are both irrelevant -/
theorem target_perm {l₁ l₂ : List (Rat × Rat)} (h : l₁.Perm l₂) (hacc : Accepted mx l₁) :
    target env mn l₁ = target env mn l₂ := by
  unfold target
  rw [Content.merge_perm [] Content.wf_nil (posPart_perm env mn h)
      (posPart_nonneg env mn l₁ (fun p hp => (hacc p hp).2)),
    Content.merge_perm [] Content.wf_nil (negPart_perm env mn h)
      (negPart_nonneg env mn l₁ (fun p hp => (hacc p hp).2)),
    (zeroPart_perm mn h).sum_eq]

/-- **Order independence.**  Adding a permutation of the inputs gives the same sketch. -/
theorem addAll_perm (hmn : env.minIndexable = .fin mn) (hmx : env.maxIndexable = .fin mx)
    (hmn0 : 0 ≤ mn) (l₁ l₂ : List (Rat × Rat)) (h : l₁.Perm l₂)
    (hacc : ∀ p ∈ l₁, rabs p.1 ≤ mx ∧ 0 ≤ p.2) (hexact : ExactSums (zeroPart mn l₁)) :
    ∃ s s', Sketch.addAll env (Sketch.new (some env.id) .sparse) l₁ = some s ∧
      Sketch.addAll env (Sketch.new (some env.id) .sparse) l₂ = some s' ∧
      s.pos = s'.pos ∧ s.neg = s'.neg ∧ s.zero = s'.zero ∧ s.mapping = s'.mapping := by
  refine ⟨_, _, addAll_new env mn mx hmn hmx hmn0 l₁ hacc hexact,
    addAll_new env mn mx hmn hmx hmn0 l₂ (Accepted.perm hacc h)
      (hexact.perm (zeroPart_perm mn h)), ?_⟩
  rw [target_perm env mn mx h hacc]
  exact ⟨rfl, rfl, rfl, rfl⟩

/-- two merge trees over permuted inputs evaluate to the same sketch -/
theorem merge_tree_perm (hmn : env.minIndexable = .fin mn) (hmx : env.maxIndexable = .fin mx)
    (hmn0 : 0 ≤ mn) (hrefl : env.id.equals env.id = true) (t₁ t₂ : MergeTree)
    (h : t₁.flat.Perm t₂.flat)
    (hacc : ∀ p ∈ t₁.flat, rabs p.1 ≤ mx ∧ 0 ≤ p.2) (hexact : ExactSums (zeroPart mn t₁.flat)) :
    t₁.eval env = t₂.eval env ∧ (t₁.eval env).isSome := by
  rw [eval_eq_target env mn mx hmn hmx hmn0 hrefl t₁ hacc hexact,
    eval_eq_target env mn mx hmn hmx hmn0 hrefl t₂ (Accepted.perm hacc h)
      (hexact.perm (zeroPart_perm mn h)), target_perm env mn mx h hacc]
  exact ⟨rfl, rfl⟩

end tree

/-! ## unit and purity -/

/-- the zero weight is a binary64 number (always the case for a value computed by the model) -/
def ZeroRep : F64 → Prop
  | .fin q => F64.isRep q = true
  | _ => True

theorem add_zero_of_zeroRep (z : F64) (h : ZeroRep z) : F64.add z (.fin 0) = z := by
  cases z with
  | fin q =>
    have := F64.add_exact q 0 (by simpa [ZeroRep] using h)
    simpa using this
  | pinf => rfl
  | ninf => rfl
  | nan => rfl

/-- **The empty sketch is a right unit of `mergeWith`.**  (`ZeroRep` is needed: the model adds
    `+ 0.0` in float arithmetic, which rounds a zero weight that is not a float — such a value is
    never produced by the model, but the structure does not exclude it.) -/
theorem merge_empty_right (id : MapId) (a b : Content) (z : F64)
    (hrefl : id.equals id = true) (hz : ZeroRep z) :
    (spec (some id) a b z).mergeWith (Sketch.new (spec (some id) a b z).mapping .sparse)
      = some (.ok (spec (some id) a b z)) := by
  rw [new_sparse, spec_mapping,
    mergeWith_spec _ _ _ _ _ _ _ _ (by simpa [mappingEquals] using hrefl),
    add_zero_of_zeroRep z hz]
  rfl

/-- counterexample without `ZeroRep`: a zero weight of 1/3 is rounded by the merge with an empty
    sketch -/
theorem merge_empty_right_needs_zeroRep :
    F64.add (.fin (1 / 3)) (.fin 0) ≠ .fin (1 / 3) := by
  intro h
  have h1 : F64.roundF64 (1 / 3) = .fin (1 / 3) := by simpa [F64.add] using h
  obtain ⟨m, k, _, _, hk⟩ := F64.rv_is_dyadic (1 / 3)
  rw [← (F64.roundF64_fin_iff.mp h1).1, pow2_eq_zpow] at hk
  have hmod : ∀ n : Nat, (2 : Int) ^ n % 3 = 1 ∨ (2 : Int) ^ n % 3 = 2 := by
    intro n
    induction n with
    | zero => left; norm_num
    | succ n ih => rw [pow_succ]; omega
  rcases Int.le_total 0 k with hk0 | hk0
  · obtain ⟨n, rfl⟩ := Int.eq_ofNat_of_zero_le hk0
    rw [zpow_natCast] at hk
    have h3 : (1 : Rat) = ((3 * (m * 2 ^ n) : Int) : Rat) := by push_cast; linarith
    have h4 : (1 : Int) = 3 * (m * 2 ^ n) := by exact_mod_cast h3
    omega
  · obtain ⟨n, hn⟩ := Int.eq_ofNat_of_zero_le (Int.neg_nonneg_of_nonpos hk0)
    have hkn : k = -(n : Int) := by omega
    rw [hkn, zpow_neg, zpow_natCast] at hk
    have hpos : (0 : Rat) < 2 ^ n := by positivity
    have h3 : ((2 ^ n : Int) : Rat) = ((3 * m : Int) : Rat) := by
      push_cast
      field_simp at hk
      linarith
    have h4 : (2 : Int) ^ n = 3 * m := by exact_mod_cast h3
    have := hmod n
    omega

/-- **`mergeWith` reads only (mapping, bins, zero) of its argument**: two arguments with the same
    mapping, the same enumerated bins and the same zero weight are interchangeable, whatever their
    store kinds and internal state. -/
theorem merge_pure_argument (m : Option MapId) (a b : Content) (z : F64) (o o' : Sketch)
    (hm : o.mapping = o'.mapping) (hp : o.pos.binsList = o'.pos.binsList)
    (hn : o.neg.binsList = o'.neg.binsList) (hz : o.zero = o'.zero) :
    (spec m a b z).mergeWith o = (spec m a b z).mergeWith o' := by
  have key : ∀ (c : Content) (x y : Store), x.binsList = y.binsList →
      (Store.sp c).mergeWith x = (Store.sp c).mergeWith y := by
    intro c x y h
    cases x <;> cases y <;> simp_all [Store.mergeWith]
  simp only [mergeWith, spec, hm, hz, key a _ _ hp, key b _ _ hn]
  rfl

/-! ## lifting to any store kind through `Refines` -/

/-- **Sketch-level merge refinement** from a per-store merge refinement `hstep` for the store
    class `K` the receiving sketch uses (`hstep` is proved per store kind; `sparse_step` below is
    the instance for sparse receivers, with ANY kind of argument store). -/
theorem merge_refines (K : Store → Prop) (s o : Sketch) (cp cn cp' cn' : Content)
    (hKp : K s.pos) (hKn : K s.neg)
    (hs : s.Refines cp cn) (ho : o.Refines cp' cn')
    (hm : mappingEquals s.mapping o.mapping = true)
    (hstep : ∀ (st : Store) (c : Content) (ot : Store) (co : Content), K st → st.Refines c →
      ot.Refines co → ∃ st', st.mergeWith ot = some st' ∧ st'.Refines (c.merge co)) :
    ∃ s', s.mergeWith o = some (.ok s') ∧ s'.Refines (cp.merge cp') (cn.merge cn') ∧
      s'.zero = F64.add s.zero o.zero ∧ s'.mapping = s.mapping := by
  obtain ⟨p, hp1, hp2⟩ := hstep s.pos cp o.pos cp' hKp hs.pos ho.pos
  obtain ⟨n, hn1, hn2⟩ := hstep s.neg cn o.neg cn' hKn hs.neg ho.neg
  refine ⟨{ s with pos := p, neg := n, zero := F64.add s.zero o.zero }, ?_, ⟨hp2, hn2⟩, rfl, rfl⟩
  simp [mergeWith, hm, hp1, hn1]

/-- the per-store step for sparse receivers -/
theorem sparse_step (st : Store) (c : Content) (ot : Store) (co : Content)
    (hK : ∃ x, st = .sp x) (hst : st.Refines c) (hot : ot.Refines co) :
    ∃ st', st.mergeWith ot = some st' ∧ st'.Refines (c.merge co) := by
  obtain ⟨x, rfl⟩ := hK
  have := Store.sp_refines_eq hst
  subst this
  exact ⟨_, Store.sp_mergeWith x ot co hot,
    Store.sp_refines _ (Content.wf_merge x co hst.wf hot.wf)⟩

/-- unconditional instance: a spec sketch absorbs a sketch of ANY store kinds -/
theorem merge_refines_sparse (m : Option MapId) (a b : Content) (z : F64) (ha : a.WF) (hb : b.WF)
    (o : Sketch) (cp' cn' : Content) (ho : o.Refines cp' cn')
    (hm : mappingEquals m o.mapping = true) :
    ∃ s', (spec m a b z).mergeWith o = some (.ok s') ∧ s'.Refines (a.merge cp') (b.merge cn') ∧
      s'.zero = F64.add z o.zero ∧ s'.mapping = m :=
  merge_refines (fun st => ∃ x, st = .sp x) (spec m a b z) o a b cp' cn' ⟨a, rfl⟩ ⟨b, rfl⟩
    ⟨Store.sp_refines a ha, Store.sp_refines b hb⟩ ho hm sparse_step


/-! ## the hypotheses are satisfiable: a concrete instance -/

def demoId : MapId := { kind := .log, gamma := .fin (51 / 49), indexOffset := .fin 0 }

def demoEnv : MapEnv :=
  { id := demoId, minIndexable := .fin (1 / 1000), maxIndexable := .fin 1000, relAcc := .fin (1 / 100),
    value := fun i => .fin ((i : Rat) + 1), lowerBound := fun i => .fin (i : Rat),
    index := fun v => match v with | .fin q => q.floor | _ => 0 }

def demoTree : MergeTree :=
  .node (.leaf [(5, 2), (0, 1)]) (.node (.leaf [(-3, 1)]) (.leaf [(7, 3), (1 / 2000, 2), (5, 1)]))

theorem demo_refl : demoEnv.id.equals demoEnv.id = true :=
  equals_refl _ (51 / 49) 0 rfl rfl

theorem demo_acc : ∀ p ∈ demoTree.flat, rabs p.1 ≤ 1000 ∧ 0 ≤ p.2 := by
  simp [demoTree, MergeTree.flat, rabs]
  norm_num

theorem demo_zero : zeroPart (1 / 1000) demoTree.flat = [1, 2] := by
  simp [demoTree, MergeTree.flat, zeroPart, List.filter_cons]
  norm_num

theorem demo_exact : ExactSums (zeroPart (1 / 1000) demoTree.flat) := by
  rw [demo_zero]
  apply exactSums_of_nat
  · intro w hw
    simp at hw
    rcases hw with rfl | rfl
    · exact ⟨1, by norm_num⟩
    · exact ⟨2, by norm_num⟩
  · norm_num

example : ∃ s s', demoTree.eval demoEnv = some s ∧
    Sketch.addAll demoEnv (Sketch.new (some demoEnv.id) .sparse) demoTree.flat = some s' ∧
    s.pos = s'.pos ∧ s.neg = s'.neg ∧ s.zero = s'.zero ∧ s.mapping = s'.mapping :=
  merge_tree demoEnv (1 / 1000) 1000 rfl rfl (by norm_num) demo_refl demoTree demo_acc demo_exact

example : ∃ s s', Sketch.addAll demoEnv (Sketch.new (some demoEnv.id) .sparse) demoTree.flat = some s ∧
    Sketch.addAll demoEnv (Sketch.new (some demoEnv.id) .sparse) demoTree.flat.reverse = some s' ∧
    s.pos = s'.pos ∧ s.neg = s'.neg ∧ s.zero = s'.zero ∧ s.mapping = s'.mapping :=
  addAll_perm demoEnv (1 / 1000) 1000 rfl rfl (by norm_num) _ _ (List.reverse_perm _).symm
    demo_acc demo_exact

example : (spec (some demoId) [(1, 2)] [(3, 1)] (.fin 5)).mergeWith
    (Sketch.new (spec (some demoId) [(1, 2)] [(3, 1)] (.fin 5)).mapping .sparse)
      = some (.ok (spec (some demoId) [(1, 2)] [(3, 1)] (.fin 5))) :=
  merge_empty_right demoId _ _ _ demo_refl (by
    have := F64.isRep_int 5 (by norm_num)
    simpa [ZeroRep] using this)

/-- `merge_pure_argument`: a dense argument and a sparse argument with the same bins -/
example (o o' : Sketch) (hm : o.mapping = o'.mapping) (hp : o.pos.binsList = o'.pos.binsList)
    (hn : o.neg.binsList = o'.neg.binsList) (hz : o.zero = o'.zero) :
    (spec (some demoId) [(1, 2)] [] (.fin 0)).mergeWith o
      = (spec (some demoId) [(1, 2)] [] (.fin 0)).mergeWith o' :=
  merge_pure_argument _ _ _ _ o o' hm hp hn hz

example : (Sketch.new (some demoId) .sparse).mapping = (Sketch.new (some demoId) .dense).mapping ∧
    (Sketch.new (some demoId) .sparse).pos.binsList = (Sketch.new (some demoId) .dense).pos.binsList ∧
    (Sketch.new (some demoId) .sparse).neg.binsList = (Sketch.new (some demoId) .dense).neg.binsList ∧
    (Sketch.new (some demoId) .sparse).zero = (Sketch.new (some demoId) .dense).zero := by
  refine ⟨rfl, ?_, ?_, rfl⟩ <;> decide

/-- `merge_refines_sparse`: a sparse receiver and a sparse argument, both non-trivial -/
example : ∃ s', (spec (some demoId) [(1, 2)] [(3, 1)] (.fin 5)).mergeWith
      (spec (some demoId) [(1, 1), (2, 4)] [] (.fin 1)) = some (.ok s') ∧
    s'.Refines (Content.merge [(1, 2)] [(1, 1), (2, 4)]) (Content.merge [(3, 1)] []) ∧
    s'.zero = F64.add (.fin 5) (.fin 1) ∧ s'.mapping = some demoId := by
  have wf1 : Content.WF [((1 : Int), (2 : Rat))] := by simp [Content.wf_cons]
  have wf2 : Content.WF [((3 : Int), (1 : Rat))] := by simp [Content.wf_cons]
  have wf3 : Content.WF [((1 : Int), (1 : Rat)), (2, 4)] := by simp [Content.wf_cons]
  exact merge_refines_sparse (some demoId) _ _ _ wf1 wf2 _ _ _
    ⟨Store.sp_refines _ wf3, Store.sp_refines _ Content.wf_nil⟩
    (by show demoId.equals demoId = true; exact demo_refl)

end DDS.Props.C02
