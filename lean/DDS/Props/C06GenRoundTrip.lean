/-
  DDS.Props.C06GenRoundTrip — C06 (decode ∘ encode) for the DEFAULT sketch on fully REGENERATED code: the regenerated
  `DDSketch.Encode` over the regenerated buffered-paginated stores (`GPS grow`), then the regenerated
  `DecodeDDSketch` with the provider `NewBufferedPaginatedStore` on the appended bytes.

  `decode_encode_regenerated_of_goodRun` — for every regenerated default sketch `a` (mapping object a `MapEnv`) whose
  two stores are images `toGen s cap` of model stores satisfying the encoder's range condition `RoundTrip.PagOK`
  (invariant, buffer shorter than `2^64`, varfloat-exact counts `WOK`), with a finite `WOK` zero count and a mapping
  identity that survives its bit patterns (`MapOK`; `MapFinite` when the mapping block is written), every prefix
  `buf`, `9 ≤ fuel`:
     `Encode fuel a buf om = .ok (a', buf ++ out)` and, for every `fuel' ≥ len(out) + 9`, IF the decoder run over the
     regenerated stores meets its side conditions on `out` (`GoodRun DecodeOK`, see `GenPagSketch3`), THEN
     `DecodeDDSketch fuel' out NewBufferedPaginatedStore a.IndexMapping = .ok (r, nil)`, the decoded mapping object has
     the identity of the original, and `r` (with the original mapping OBJECT put back — the `MapI MapEnv` glue
     decodes the identity only, its oracle functions are defaults) answers `GetCount`, `IsEmpty`, `GetZeroCount`,
     `GetValueAtQuantile q` (all `q`), `GetMinValue`, `GetMaxValue` like `a`.
  The hypotheses are those of the model theorem chained with (`RoundTrip.encode_ok`, `Lift.encodesTo_decode_new`)
  plus `GImg` (the record is an image) — and `GoodRun`, which is NOT discharged here (see "missing").
  `encode_regenerated_blocks` — the encode half alone (no `GoodRun`): the appended bytes are exactly the bytes of the
  model's block list for the image sketch.

  MISSING for the unconditional `decode_encode_regenerated`: `GoodRun DecodeOK` for `out = bn (encBlocks bl)`,
  `bl = zeroBlocks z ++ mapBlocks m om ++ pagBlocks sp .pos ++ pagBlocks sn .neg` (`sp`, `sn` the compacted images):
  by induction on the block list, carrying a `SkSim` partner (the remaining bytes after a store block are known
  through `sim_decode` and `Wire.decodeStore_encPayload`), with, per store block:
    * deltas block (`Sketch.deltasFrom0 buffer`): `CapOK` (the store is still `NewBufferedPaginatedStore`:
      `capOK_new`; the deltas block of a side is the first block of that side), `len(buffer) < 2^63`, the running sums
      (= the buffer entries) int32 (`PStore.Inv`);
    * contiguous block of a page: `2·32 ≤ 3·len + 51`, indexes `index(page, 0) + j` int32, counts
      `decVarfloat64 (encVarfloatBits (vfBits c)) = .fin c` with `0 ≤ c` (`WOK`).
-/
import DDS.Proofs.GenPagSketch4

namespace DDS.Props.C06GenRoundTrip

open DDS DDS.GoSem DDS.PStore DDS.GenPag DDS.GenPagSketch DDS.Gen.Sketch DDS.Gen.Paginated DDS.Gen.Encoding
open DDS.GenEncoding DDS.RoundTrip

variable {grow : Int → Int → Int}

/-- **the encode half**: the regenerated `Encode` of a regenerated default sketch appends exactly the bytes of the
    blocks the model's `Sketch.encode` writes for the image sketch; the receiver stays related to a model sketch -/
theorem encode_regenerated_blocks (a : DDSketch MapEnv (GPS grow))
    (hp : GImg a.positiveValueStore) (hn : GImg a.negativeValueStore)
    (hpp : PagOK (ofGen a.positiveValueStore.g)) (hpn : PagOK (ofGen a.negativeValueStore.g))
    (z : Rat) (hz : a.zeroCount = .fin z) (om : Bool) (fuel : Nat) (hf : 9 ≤ fuel) (buf : List (BitVec 8)) :
    ∃ (a' : DDSketch MapEnv (GPS grow)) (s' : Sketch) (bl : List Block),
      DDSketch.Encode fuel a buf om = .ok (a', buf ++ bn (Wire.encBlocks bl)) ∧
      SkSim a' (GenSketch.toGen a.IndexMapping s') ∧
      EncodesTo (GenSketch.ofGen (imageOf a)) (content (ofGen a.positiveValueStore.g))
        (content (ofGen a.negativeValueStore.g)) a.IndexMapping.id z om s' bl :=
  Encode_blocks a hp hn hpp hpn z hz om fuel hf buf

/-- **C06 on fully regenerated code, conditional on the decoder's side conditions** (`GoodRun DecodeOK` on the bytes
    written) -/
theorem decode_encode_regenerated_of_goodRun (a : DDSketch MapEnv (GPS grow))
    (hp : GImg a.positiveValueStore) (hn : GImg a.negativeValueStore)
    (hpp : PagOK (ofGen a.positiveValueStore.g)) (hpn : PagOK (ofGen a.negativeValueStore.g))
    (z : Rat) (hz : a.zeroCount = .fin z) (hzw : WOK z) (om : Bool)
    (hmk : MapOK a.IndexMapping.id) (hmf : om = false → MapFinite a.IndexMapping.id)
    (fuel : Nat) (hf : 9 ≤ fuel) (buf : List (BitVec 8)) :
    ∃ (a' : DDSketch MapEnv (GPS grow)) (out : List (BitVec 8)),
      DDSketch.Encode fuel a buf om = .ok (a', buf ++ out) ∧
      ∀ fuel', out.length + 9 ≤ fuel' →
        GoodRun DecodeOK (DDSketch.DecodeAndMergeWith.lit1 (M := MapEnv) (S := Store) fuel') fuel' out
          (NewDDSketch a.IndexMapping (⟨NewBufferedPaginatedStore⟩ : GPS grow) ⟨NewBufferedPaginatedStore⟩) →
        ∃ r : DDSketch MapEnv (GPS grow),
          Gen.SketchIter.DecodeDDSketch fuel' out (fun _ => .ok (⟨NewBufferedPaginatedStore⟩ : GPS grow))
            a.IndexMapping = .ok (r, GoErr.nil) ∧
          r.IndexMapping.id = a.IndexMapping.id ∧
          SameAnswers { r with IndexMapping := a.IndexMapping } a := by
  obtain ⟨a', s', bl, h1, _, hE⟩ := Encode_blocks a hp hn hpp hpn z hz om fuel hf buf
  refine ⟨a', _, h1, fun fuel' hf' hg => ?_⟩
  obtain ⟨r, r1, r2, _, r4⟩ := decode_of_encodesTo a hp hn hpp.inv hpn.inv z hz hzw om hmk hmf s' bl hE fuel' hf' hg
  exact ⟨r, r1, r2, r4⟩

end DDS.Props.C06GenRoundTrip
