/-
  DDS.Props.C10Self — a sketch with exact statistics merged INTO ITSELF (`x.MergeWith(x)`): the Go code
  then reads the argument's fields while it updates them (`Summary.mergeWithSelf` transcribes that).
  Whatever the aliasing does to the low bits of the compensated sum, the exact count doubles and the
  exact extremes do not move; the sketch part is the ordinary merge of the sketch with itself.
-/
import DDS.Model.Sketch

namespace DDS.Props.C10Self
open DDS

theorem self_merge_count (s : Summary) : s.mergeWithSelf.count = F64.add s.count s.count := rfl

theorem self_merge_extremes (s : Summary) :
    s.mergeWithSelf.min = s.min ∧ s.mergeWithSelf.max = s.max := ⟨rfl, rfl⟩

theorem self_merge_simple_sum (s : Summary) :
    s.mergeWithSelf.simpleSum = F64.add s.simpleSum s.simpleSum := rfl

/-- the uncompensated part of the sum: the first step adds the receiver's own running sum to it -/
theorem self_merge_sum_first_step (s : Summary) :
    ({ s with count := F64.add s.count s.count } : Summary).sumWithCompensation s.sum =
      { s with count := F64.add s.count s.count,
               sum := F64.add s.sum (F64.sub s.sum s.sumCompensation),
               sumCompensation := F64.sub (F64.sub (F64.add s.sum (F64.sub s.sum s.sumCompensation)) s.sum)
                 (F64.sub s.sum s.sumCompensation) } := rfl

theorem xself_merge (x y : XSketch) (h : x.mergeWithSelf = some (.ok y)) :
    x.sk.mergeWith x.sk = some (.ok y.sk) ∧ y.st = x.st.mergeWithSelf := by
  unfold XSketch.mergeWithSelf at h
  cases hm : x.sk.mergeWith x.sk with
  | none => simp [hm] at h
  | some r =>
    cases r with
    | error e => simp [hm] at h
    | ok sk =>
      simp [hm] at h
      subst h
      exact ⟨rfl, rfl⟩

/-- with exactly representable sums (no rounding) the aliased merge doubles the sum too -/
example : (Summary.new.add (.fin 3) (.fin 2)).mergeWithSelf.getSum = .fin 12 := by decide +kernel

end DDS.Props.C10Self
