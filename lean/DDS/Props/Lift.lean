/-
  DDS.Props.Lift — the headline guarantees for EVERY store kind.
-/
import DDS.Proofs.Lift
import DDS.Props.C01
import DDS.Props.C02
import DDS.Props.C12

namespace DDS.Lift

open DDS

/-! ## a sketch on good, non-collapsing stores and its spec sketch -/

/-- both stores are `Good` and do not clamp (dense, sparse or paginated) -/
structure GoodSk (s : Sketch) : Prop where
  pos : Good s.pos
  neg : Good s.neg
  cpos : s.pos.clamp = .none
  cneg : s.neg.clamp = .none

/-- the spec sketch holding the same contents -/
def specOf (s : Sketch) : Sketch :=
  Sketch.spec s.mapping (contentOf s.pos) (contentOf s.neg) s.zero

theorem GoodSk.refines {s : Sketch} (G : GoodSk s) :
    s.Refines (contentOf s.pos) (contentOf s.neg) :=
  ⟨good_refines _ G.pos, good_refines _ G.neg⟩

/-- non-collapsing kinds -/
def Plain : StoreKind → Prop
  | .dense => True
  | .sparse => True
  | .pag => True
  | _ => False

theorem goodSk_new (m : Option MapId) (k : StoreKind) (hk : Plain k) :
    GoodSk (Sketch.new m k) ∧ specOf (Sketch.new m k) = Sketch.new m .sparse := by
  have hok : KindOK k := by cases k <;> first | trivial | exact hk.elim
  obtain ⟨g, c, _⟩ := good_new k hok
  have hcl : (Store.new k).clamp = .none := by
    rw [clamp_new]; cases k <;> first | rfl | exact hk.elim
  refine ⟨⟨g, g, hcl, hcl⟩, ?_⟩
  show Sketch.spec m (contentOf (Store.new k)) (contentOf (Store.new k)) (.fin 0) = _
  rw [c]; rfl

/-- one `AddWithCount` on the model follows the spec sketch (the index of a value routed to a
    store must be an int32) -/
theorem addV_lift (env : MapEnv) (s : Sketch) (G : GoodSk s) (v c : Rat)
    (hidx : (F64.gt (.fin v) env.minIndexable = true ∨
        F64.lt (.fin v) (F64.neg env.minIndexable) = true) → I32 (env.index (.fin (rabs v))))
    (t' : Sketch) (h : (specOf s).addV env v c = some (.ok t')) :
    ∃ s', s.addV env v c = some (.ok s') ∧ GoodSk s' ∧ specOf s' = t' := by
  unfold Sketch.addV Sketch.addWithCount at h ⊢
  by_cases hc : F64.lt (.fin c) (.fin 0) = true
  · rw [if_pos hc] at h; cases h
  · rw [if_neg hc] at h ⊢
    have hc0 : 0 ≤ c := by
      have : ¬ c < 0 := by simpa [F64.lt] using hc
      exact not_lt.1 this
    by_cases h1 : F64.gt (.fin v) env.minIndexable = true
    · rw [if_pos h1] at h ⊢
      by_cases h2 : F64.gt (.fin v) env.maxIndexable = true
      · rw [if_pos h2] at h; cases h
      · rw [if_neg h2] at h ⊢
        obtain ⟨p', hp1, hp2, hp3, hp4⟩ := good_add s.pos G.pos _ (hidx (Or.inl h1)) c hc0
        rw [G.cpos] at hp4
        simp only [Sketch.ratOf?, Option.bind_eq_bind, Option.bind_some, hp1, Option.pure_def]
        refine ⟨_, rfl, ⟨hp2, G.neg, by rw [clamp_of_kind hp3]; exact G.cpos, G.cneg⟩, ?_⟩
        simp only [Sketch.ratOf?, Option.bind_eq_bind, Option.bind_some, Option.pure_def, specOf,
          Sketch.spec, Store.addWithCount, Option.some.injEq, Except.ok.injEq] at h
        rw [← h]
        simp only [specOf, Sketch.spec, hp4]
        rfl
    · rw [if_neg h1] at h ⊢
      by_cases h3 : F64.lt (.fin v) (F64.neg env.minIndexable) = true
      · rw [if_pos h3] at h ⊢
        by_cases h4 : F64.lt (.fin v) (F64.neg env.maxIndexable) = true
        · rw [if_pos h4] at h; cases h
        · rw [if_neg h4] at h ⊢
          obtain ⟨n', hn1, hn2, hn3, hn4⟩ := good_add s.neg G.neg _ (hidx (Or.inr h3)) c hc0
          rw [G.cneg] at hn4
          simp only [Sketch.ratOf?, Option.bind_eq_bind, Option.bind_some, hn1, Option.pure_def]
          refine ⟨_, rfl, ⟨G.pos, hn2, G.cpos, by rw [clamp_of_kind hn3]; exact G.cneg⟩, ?_⟩
          simp only [Sketch.ratOf?, Option.bind_eq_bind, Option.bind_some, Option.pure_def, specOf,
            Sketch.spec, Store.addWithCount, Option.some.injEq, Except.ok.injEq] at h
          rw [← h]
          simp only [specOf, Sketch.spec, hn4]
          rfl
      · rw [if_neg h3] at h ⊢
        have hnan : F64.isNaN (.fin v) = false := rfl
        simp only [hnan, Bool.false_eq_true, if_false, Sketch.ratOf?, Option.bind_eq_bind,
          Option.bind_some, Option.pure_def, Option.some.injEq, Except.ok.injEq] at h ⊢
        refine ⟨_, rfl, ⟨G.pos, G.neg, G.cpos, G.cneg⟩, ?_⟩
        rw [← h]; rfl

/-- a list of `AddWithCount`s on the model follows the spec sketch -/
theorem addAll_lift (env : MapEnv) (l : List (Rat × Rat))
    (hidx : ∀ p ∈ l, (F64.gt (.fin p.1) env.minIndexable = true ∨
        F64.lt (.fin p.1) (F64.neg env.minIndexable) = true) → I32 (env.index (.fin (rabs p.1))))
    (s : Sketch) (G : GoodSk s) (t : Sketch)
    (h : (specOf s).addAll env l = some t) :
    ∃ s', s.addAll env l = some s' ∧ GoodSk s' ∧ specOf s' = t := by
  induction l generalizing s t with
  | nil =>
    simp only [Sketch.addAll, Option.some.injEq] at h
    exact ⟨s, rfl, G, h⟩
  | cons p l ih =>
    obtain ⟨v, c⟩ := p
    simp only [Sketch.addAll] at h ⊢
    cases h1 : (specOf s).addV env v c with
    | none => rw [h1] at h; cases h
    | some r =>
      cases r with
      | error e => rw [h1] at h; cases h
      | ok t1 =>
        rw [h1] at h
        obtain ⟨s1, k1, G1, e1⟩ := addV_lift env s G v c (hidx (v, c) (by simp)) t1 h1
        rw [k1]
        simp only
        exact ih (fun q hq => hidx q (by simp [hq])) s1 G1 t (by rw [e1]; exact h)

/-- `MergeWith` on the model follows the spec sketch, for any two non-collapsing store kinds on
    either side (fast paths and `ForEach` fallback alike) -/
theorem mergeWith_lift (s o : Sketch) (Gs : GoodSk s) (Go : GoodSk o) (t' : Sketch)
    (h : (specOf s).mergeWith (specOf o) = some (.ok t')) :
    ∃ s', s.mergeWith o = some (.ok s') ∧ GoodSk s' ∧ specOf s' = t' := by
  unfold Sketch.mergeWith at h ⊢
  have hm : (specOf s).mapping = s.mapping := rfl
  have hm' : (specOf o).mapping = o.mapping := rfl
  rw [hm, hm'] at h
  by_cases hme : (!Sketch.mappingEquals s.mapping o.mapping) = true
  · rw [if_pos hme] at h; cases h
  · rw [if_neg hme] at h ⊢
    obtain ⟨p', hp1, hp2, hp3, hp4⟩ := good_merge s.pos o.pos Gs.pos Go.pos
    obtain ⟨n', hn1, hn2, hn3, hn4⟩ := good_merge s.neg o.neg Gs.neg Go.neg
    rw [Gs.cpos] at hp4
    rw [Gs.cneg] at hn4
    simp only [hp1, hn1, Option.bind_eq_bind, Option.bind_some, Option.pure_def]
    refine ⟨_, rfl, ⟨hp2, hn2, by rw [clamp_of_kind hp3]; exact Gs.cpos,
      by rw [clamp_of_kind hn3]; exact Gs.cneg⟩, ?_⟩
    simp only [specOf, Sketch.spec, Store.mergeWith, Store.binsList, Option.bind_eq_bind,
      Option.bind_some, Option.pure_def, Option.some.injEq, Except.ok.injEq] at h
    rw [← h]
    simp only [specOf, Sketch.spec, hp4, hn4]
    rfl

/-! ## merge trees with a store kind per leaf -/

inductive KTree where
  | leaf (k : StoreKind) (inputs : List (Rat × Rat))
  | node (l r : KTree)

/-- the same tree on spec (sparse) sketches -/
def KTree.erase : KTree → Props.C02.MergeTree
  | .leaf _ l => .leaf l
  | .node l r => .node l.erase r.erase

/-- all inputs of the tree, left to right -/
def KTree.flat (t : KTree) : List (Rat × Rat) := t.erase.flat

/-- every leaf uses a non-collapsing store kind -/
def KTree.AllPlain : KTree → Prop
  | .leaf k _ => Plain k
  | .node l r => l.AllPlain ∧ r.AllPlain

/-- leaf: the inputs added to a new sketch on stores of the leaf's kind; node: the right result
    merged into the left one (`none` if any step is refused or panics) -/
def KTree.eval (env : MapEnv) : KTree → Option Sketch
  | .leaf k l => Sketch.addAll env (Sketch.new (some env.id) k) l
  | .node l r =>
    match l.eval env, r.eval env with
    | some a, some b =>
      match a.mergeWith b with
      | some (.ok s) => some s
      | _ => none
    | _, _ => none

/-- a tree on stores of any non-collapsing kinds follows the tree on spec sketches -/
theorem ktree_lift (env : MapEnv) (t : KTree) (hk : t.AllPlain)
    (hidx : ∀ p ∈ t.flat, (F64.gt (.fin p.1) env.minIndexable = true ∨
        F64.lt (.fin p.1) (F64.neg env.minIndexable) = true) → I32 (env.index (.fin (rabs p.1))))
    (t₀ : Sketch) (h : t.erase.eval env = some t₀) :
    ∃ s, t.eval env = some s ∧ GoodSk s ∧ specOf s = t₀ := by
  induction t generalizing t₀ with
  | leaf k l =>
    obtain ⟨G, hspec⟩ := goodSk_new (some env.id) k hk
    exact addAll_lift env l hidx _ G t₀ (by rw [hspec]; exact h)
  | node l r ihl ihr =>
    simp only [KTree.erase, Props.C02.MergeTree.eval] at h
    cases hl : l.erase.eval env with
    | none => rw [hl] at h; cases h
    | some a =>
      cases hr : r.erase.eval env with
      | none => rw [hl, hr] at h; cases h
      | some b =>
        rw [hl, hr] at h
        simp only at h
        have hflat : ∀ p, p ∈ l.flat ∨ p ∈ r.flat → p ∈ (KTree.node l r).flat := by
          intro p hp
          show p ∈ l.erase.flat ++ r.erase.flat
          exact List.mem_append.2 hp
        obtain ⟨sa, ea, Ga, ca⟩ := ihl hk.1 (fun p hp => hidx p (hflat p (Or.inl hp))) a hl
        obtain ⟨sb, eb, Gb, cb⟩ := ihr hk.2 (fun p hp => hidx p (hflat p (Or.inr hp))) b hr
        cases hm : a.mergeWith b with
        | none => rw [hm] at h; cases h
        | some res =>
          cases res with
          | error e => rw [hm] at h; cases h
          | ok t1 =>
            rw [hm] at h
            simp only [Option.some.injEq] at h
            obtain ⟨s', k1, G', e'⟩ := mergeWith_lift sa sb Ga Gb t1 (by rw [ca, cb]; exact hm)
            refine ⟨s', ?_, G', by rw [e', h]⟩
            simp only [KTree.eval, ea, eb, k1]

end DDS.Lift

namespace DDS.Props.Lift

open DDS DDS.Lift

/-- values whose magnitude exceeds `minIndexable` are the ones routed to a store -/
theorem routed_iff (env : MapEnv) (α mn mx : Rat) (C : Contract env α mn mx) (v : Rat)
    (h : F64.gt (.fin v) env.minIndexable = true ∨
      F64.lt (.fin v) (F64.neg env.minIndexable) = true) : mn < rabs v := by
  rw [C.minEq] at h
  have hmn := C.minPos
  rcases h with h | h
  · have : mn < v := by simpa [F64.gt, F64.lt] using h
    rw [rabs_of_pos (by linarith)]; exact this
  · have : v < -mn := by simpa [F64.lt, F64.neg] using h
    rw [rabs_of_neg (by linarith)]; linarith

/-- the same with the hypotheses of `C02.merge_tree` (no contract needed) -/
theorem routed_iff' (env : MapEnv) (mn : Rat) (hmn : env.minIndexable = .fin mn) (hmn0 : 0 ≤ mn)
    (v : Rat) (h : F64.gt (.fin v) env.minIndexable = true ∨
      F64.lt (.fin v) (F64.neg env.minIndexable) = true) : mn < rabs v := by
  rw [hmn] at h
  rcases h with h | h
  · have : mn < v := by simpa [F64.gt, F64.lt] using h
    rw [rabs_of_pos (by linarith)]; exact this
  · have : v < -mn := by simpa [F64.lt, F64.neg] using h
    rw [rabs_of_neg (by linarith)]; linarith

/-- the sketch built by unit adds on stores of a non-collapsing kind is `GoodSk` and holds the
    contents of the spec sketch built from the same values -/
theorem addAll_any_store (k : StoreKind) (hk : Plain k)
    (env : MapEnv) (α mn mx : Rat) (C : Contract env α mn mx)
    (xs : List Rat) (hx : ∀ x ∈ xs, rabs x ≤ mx)
    (hx32 : ∀ x ∈ xs, mn < rabs x → I32 (env.index (.fin (rabs x)))) :
    ∃ s s₀, Sketch.addAll env (Sketch.new (some env.id) k) (xs.map (fun x => (x, 1))) = some s ∧
      Sketch.addAll env (Sketch.new (some env.id) .sparse) (xs.map (fun x => (x, 1))) = some s₀ ∧
      GoodSk s ∧ specOf s = s₀ := by
  obtain ⟨s₀, hs₀⟩ := C01.addAll_ok env α mn mx C xs hx
  obtain ⟨G, hspec⟩ := goodSk_new (some env.id) k hk
  obtain ⟨s, h1, h2, h3⟩ := addAll_lift env (xs.map (fun x => (x, 1))) (by
      intro p hp hr
      obtain ⟨x, hxm, rfl⟩ := List.mem_map.1 hp
      exact hx32 x hxm (routed_iff env α mn mx C x hr)) _ G s₀ (by rw [hspec]; exact hs₀)
  exact ⟨s, s₀, h1, hs₀, h2, h3⟩

/-- the quantile of a sketch on good non-collapsing stores, built by at most `2^53` unit adds, is
    the quantile of the spec sketch built from the same values -/
theorem quantile_eq_spec (k : StoreKind) (hk : Plain k)
    (env : MapEnv) (α mn mx : Rat) (C : Contract env α mn mx)
    (xs : List Rat) (hx : ∀ x ∈ xs, rabs x ≤ mx)
    (hx32 : ∀ x ∈ xs, mn < rabs x → I32 (env.index (.fin (rabs x))))
    (hne : xs ≠ []) (hn : xs.length ≤ 2 ^ 53) (s : Sketch)
    (hs : Sketch.addAll env (Sketch.new (some env.id) k) (xs.map (fun x => (x, 1))) = some s) :
    ∃ s₀, Sketch.addAll env (Sketch.new (some env.id) .sparse) (xs.map (fun x => (x, 1))) = some s₀ ∧
      ∀ q : F64, s.quantile env q = s₀.quantile env q := by
  obtain ⟨s', s₀, h1, h2, G, h4⟩ := addAll_any_store k hk env α mn mx C xs hx hx32
  rw [hs] at h1
  cases h1
  refine ⟨s₀, h2, fun q => ?_⟩
  have hst := addAll_state env α mn mx C xs hx hn s₀ h2
  rw [← h4] at hst
  simp only [specOf, Sketch.spec, Sketch.mk.injEq, Store.sp.injEq] at hst
  obtain ⟨hm, hp, hng, hz⟩ := hst
  have hlen := length_split mn C.minPos xs
  have hP : (contentOf s.pos).total = (((Psorted mn xs).map (idxOf env)).length : Rat) := by
    rw [hp, total_unitsOf]
  have hM : (contentOf s.neg).total = (((Msorted mn xs).map (idxOf env)).length : Rat) := by
    rw [hng, total_unitsOf]
  have hPl : ((Psorted mn xs).map (idxOf env)).length = (posPart mn xs).length := by
    rw [List.length_map]; exact (sortAsc_perm _).length_eq
  have hMl : ((Msorted mn xs).map (idxOf env)).length = (negPart mn xs).length := by
    rw [List.length_map, Msorted, (sortAsc_perm _).length_eq, List.length_map]
  rw [hPl] at hP
  rw [hMl] at hM
  have hpos : 0 < xs.length := List.length_pos_iff.2 hne
  have hq := Props.C12.quantile_congr_exact env s (contentOf s.pos) (contentOf s.neg)
    (zeroCnt mn xs : Rat) G.refines hz (by positivity)
    (by
      rw [hP, hM, add_nat _ _ (by omega), add_nat _ _ (by omega)]
      push_cast; rfl)
    (by
      rw [hP, hM]
      have e : ((zeroCnt mn xs : Rat) + ((posPart mn xs).length : Rat) +
          ((negPart mn xs).length : Rat)) = ((xs.length : Int) : Rat) := by
        rw [← hlen]; push_cast; ring
      rw [e]
      show F64.roundF64 (((xs.length : Int) : Rat) + -1) ≠ _
      have e2 : ((xs.length : Int) : Rat) + -1 = (((xs.length : Int) - 1 : Int) : Rat) := by
        push_cast; ring
      rw [e2, F64.roundF64_int' _ (by omega) (by omega)]
      intro hc
      have := F64.fin.inj hc
      have : ((xs.length : Int) - 1 : Int) = (xs.length : Int) := by exact_mod_cast this
      omega) q
  rw [hq, ← h4]
  rfl

/-- **DDSketch accuracy, for every non-collapsing store kind** (dense, sparse,
    buffered-paginated): the statement of `C01.quantile_accuracy` with the stores of kind `k`.
    The only extra hypothesis: the indexes the mapping assigns to the values routed to a store are
    int32 (the stores panic or mis-report `MinIndex`/`MaxIndex` outside that range). -/
theorem quantile_accuracy_any_store (k : StoreKind) (hk : Plain k)
    (env : MapEnv) (α mn mx : Rat) (C : Contract env α mn mx)
    (xs : List Rat) (hx : ∀ x ∈ xs, rabs x ≤ mx)
    (hx32 : ∀ x ∈ xs, mn < rabs x → I32 (env.index (.fin (rabs x))))
    (hne : xs ≠ []) (hn : xs.length ≤ 2 ^ 53) (s : Sketch)
    (hs : Sketch.addAll env (Sketch.new (some env.id) k) (xs.map (fun x => (x, 1))) = some s)
    (q : Rat) (hq0 : 0 ≤ q) (hq1 : q ≤ 1) :
    ∃ a : Rat, Sketch.quantile env s (.fin q) = .ok (.fin a) ∧
      ∃ k : Nat, k < xs.length ∧
        ((k : Int) = ⌊q * ((xs.length : Rat) - 1)⌋ ∨ (k : Int) = ⌈q * ((xs.length : Rat) - 1)⌉) ∧
        rabs (a - (sortedInputs mn xs)[k]!) ≤ α * rabs ((sortedInputs mn xs)[k]!) := by
  obtain ⟨s₀, h0, hq⟩ := quantile_eq_spec k hk env α mn mx C xs hx hx32 hne hn s hs
  rw [hq]
  exact C01.quantile_accuracy env α mn mx C xs hx hne hn s₀ h0 q hq0 hq1

/-- adding never fails, for every non-collapsing store kind -/
theorem addAll_ok_any_store (k : StoreKind) (hk : Plain k)
    (env : MapEnv) (α mn mx : Rat) (C : Contract env α mn mx)
    (xs : List Rat) (hx : ∀ x ∈ xs, rabs x ≤ mx)
    (hx32 : ∀ x ∈ xs, mn < rabs x → I32 (env.index (.fin (rabs x)))) :
    ∃ s, Sketch.addAll env (Sketch.new (some env.id) k) (xs.map (fun x => (x, 1))) = some s := by
  obtain ⟨s, _, h1, _⟩ := addAll_any_store k hk env α mn mx C xs hx hx32
  exact ⟨s, h1⟩

/-- **Full mergeability, for every mix of non-collapsing store kinds.**  A tree of merges whose
    leaves are sketches on dense, sparse or paginated stores (a kind per leaf; the merges go
    through the same-kind fast paths or the `ForEach` fallback as the kinds dictate) never panics
    and ends in a sketch that OBSERVES exactly like the single spec sketch that received all the
    inputs: it refines that sketch's contents, hence `GetCount`, `IsEmpty`, `ForEach`, `GetSum`,
    `GetMinValue`, `GetMaxValue` agree, and so does `GetValueAtQuantile(q)` for every `q` for
    which the positive store is consulted only if it is non-empty (the guard of
    `Sketch.quantile_congr`; `Sketch.quantile_empty_pos_counterexample` shows it is needed). -/
theorem merge_tree_any_stores (env : MapEnv) (mn mx : Rat)
    (hmn : env.minIndexable = .fin mn) (hmx : env.maxIndexable = .fin mx)
    (hmn0 : 0 ≤ mn) (hrefl : env.id.equals env.id = true) (t : KTree) (hk : t.AllPlain)
    (hacc : ∀ p ∈ t.flat, rabs p.1 ≤ mx ∧ 0 ≤ p.2)
    (hexact : C02.ExactSums (Sketch.zeroPart mn t.flat))
    (h32 : ∀ p ∈ t.flat, mn < rabs p.1 → I32 (env.index (.fin (rabs p.1)))) :
    ∃ s s₀ cp cn, t.eval env = some s ∧
      Sketch.addAll env (Sketch.new (some env.id) .sparse) t.flat = some s₀ ∧
      s₀ = Sketch.spec (some env.id) cp cn s.zero ∧ s.mapping = some env.id ∧
      s.Refines cp cn ∧
      s.getCount = s₀.getCount ∧ s.isEmpty = s₀.isEmpty ∧
      s.forEachList env = s₀.forEachList env ∧ s.getSum env = s₀.getSum env ∧
      s.getMin env = s₀.getMin env ∧ s.getMax env = s₀.getMax env ∧
      ∀ q : F64, (cp = [] → s₀.usesPos q = false) → s.quantile env q = s₀.quantile env q := by
  obtain ⟨t₀, s₀, e1, e2, p1, p2, p3, p4⟩ :=
    C02.merge_tree env mn mx hmn hmx hmn0 hrefl t.erase hacc hexact
  have e12 : t₀ = s₀ := by
    cases t₀; cases s₀; simp only at p1 p2 p3 p4; subst p1 p2 p3 p4; rfl
  subst e12
  obtain ⟨s, h1, G, h3⟩ := ktree_lift env t hk (fun p hp hr =>
    h32 p hp (routed_iff' env mn hmn hmn0 p.1 hr)) t₀ e1
  have hmap : s.mapping = some env.id := by
    have hm0 : t₀.mapping = some env.id := by
      have := C02.eval_eq_target env mn mx hmn hmx hmn0 hrefl t.erase hacc hexact
      rw [e1] at this
      rw [Option.some.inj this]; rfl
    rw [← hm0, ← h3]; rfl
  have hsp : t₀ = Sketch.spec s.mapping (contentOf s.pos) (contentOf s.neg) s.zero := h3.symm
  have R := G.refines
  refine ⟨s, t₀, contentOf s.pos, contentOf s.neg, h1, e2, by rw [hsp, hmap], hmap, R,
    ?_, ?_, ?_, ?_, ?_, ?_, ?_⟩
  · rw [hsp]; exact Sketch.getCount_congr R
  · rw [hsp]; exact Sketch.isEmpty_congr R
  · rw [hsp]; exact Sketch.forEachList_congr env R
  · rw [hsp]; exact Sketch.getSum_congr env R
  · rw [hsp]; exact Sketch.getMin_congr env R
  · rw [hsp]; exact Sketch.getMax_congr env R
  · intro q hq
    rw [hsp] at hq ⊢
    exact Sketch.quantile_congr' env R q (fun hc => by rw [Sketch.usesPos_congr R q]; exact hq hc)

end DDS.Props.Lift
