/-
  DDS.Props.Lift — the headline guarantees for EVERY store kind.

  `DDS.Proofs.Lift` gives one invariant (`Lift.Good`) for the five store kinds and shows that
  every operation of the store interface — all 5 × 5 kind pairs of `MergeWith` included — is the
  SPEC step on the canonical content.  Here the sketch-level theorems, proved on spec (sparse)
  stores in C01 / C02 / C12, are transported:

  * `quantile_accuracy_any_store`, `addAll_ok_any_store`, `quantile_eq_spec` — the statement of
    `C01.quantile_accuracy` on dense, sparse and buffered-paginated stores;
  * `merge_tree_any_stores` — `C02.merge_tree` with a store kind per leaf (any mix of
    non-collapsing kinds): the result observes like the flat spec sketch;
  * `collapsing_sketch_contents` — sketches on lowest- or highest-collapsing stores hold
    `specLow N` / `specHigh N` of the exact contents;
  * `collapsing_quantile_retained` — on lowest-collapsing stores every quantile whose selected
    bin is at or above the edge `max − N + 1` of its side is answered exactly as by the
    un-collapsed spec sketch (`Lift.keyAtRank_specLow`: below the edge the edge bin answers).

  The only hypothesis added to C01/C02: the indexes of the values routed to a store are int32
  (outside int32 the dense stores mis-report `MinIndex`/`MaxIndex` or panic; see
  `DStore.minIndex_counterexample`, `DStore.addWithCount_far_panics`).
-/
import DDS.Proofs.Lift
import DDS.Props.C01
import DDS.Props.C02
import DDS.Props.C12

namespace DDS.Lift

open DDS

/-! ## a sketch on good, non-collapsing stores and its spec sketch -/

/-- both stores are `Good` and do not clamp (dense, sparse or paginated) -/
structure GoodSk (s : Sketch) : Prop where
  pos : Good s.pos
  neg : Good s.neg
  cpos : s.pos.clamp = .none
  cneg : s.neg.clamp = .none

/-- the spec sketch holding the same contents -/
def specOf (s : Sketch) : Sketch :=
  Sketch.spec s.mapping (contentOf s.pos) (contentOf s.neg) s.zero

theorem GoodSk.refines {s : Sketch} (G : GoodSk s) :
    s.Refines (contentOf s.pos) (contentOf s.neg) :=
  ⟨good_refines _ G.pos, good_refines _ G.neg⟩

/-- non-collapsing kinds -/
def Plain : StoreKind → Prop
  | .dense => True
  | .sparse => True
  | .pag => True
  | _ => False

theorem goodSk_new (m : Option MapId) (k : StoreKind) (hk : Plain k) :
    GoodSk (Sketch.new m k) ∧ specOf (Sketch.new m k) = Sketch.new m .sparse := by
  have hok : KindOK k := by cases k <;> trivial
  obtain ⟨g, c, _⟩ := good_new k hok
  have hcl : (Store.new k).clamp = .none := by
    rw [clamp_new]; cases k <;> first | rfl | exact False.elim hk
  refine ⟨⟨g, g, hcl, hcl⟩, ?_⟩
  show Sketch.spec m (contentOf (Store.new k)) (contentOf (Store.new k)) (.fin 0) = _
  rw [c]; rfl

/-- one `AddWithCount` on the model follows the spec sketch (the index of a value routed to a
    store must be an int32) -/
theorem addV_lift (env : MapEnv) (s : Sketch) (G : GoodSk s) (v c : Rat)
    (hidx : (F64.gt (.fin v) env.minIndexable = true ∨
        F64.lt (.fin v) (F64.neg env.minIndexable) = true) → I32 (env.index (.fin (rabs v))))
    (t' : Sketch) (h : (specOf s).addV env v c = some (.ok t')) :
    ∃ s', s.addV env v c = some (.ok s') ∧ GoodSk s' ∧ specOf s' = t' := by
  unfold Sketch.addV Sketch.addWithCount at h ⊢
  by_cases hc : F64.lt (.fin c) (.fin 0) = true
  · rw [if_pos hc] at h; cases h
  · rw [if_neg hc] at h ⊢
    have hc0 : 0 ≤ c := by
      have : ¬ c < 0 := by simpa [F64.lt] using hc
      exact not_lt.1 this
    by_cases h1 : F64.gt (.fin v) env.minIndexable = true
    · rw [if_pos h1] at h ⊢
      by_cases h2 : F64.gt (.fin v) env.maxIndexable = true
      · rw [if_pos h2] at h; cases h
      · rw [if_neg h2] at h ⊢
        obtain ⟨p', hp1, hp2, hp3, hp4⟩ := good_add s.pos G.pos _ (hidx (Or.inl h1)) c hc0
        rw [G.cpos] at hp4
        simp only [Sketch.ratOf?, Option.bind_eq_bind, Option.bind_some, hp1, Option.pure_def]
        refine ⟨_, rfl, ⟨hp2, G.neg, by rw [clamp_of_kind hp3]; exact G.cpos, G.cneg⟩, ?_⟩
        simp only [Sketch.ratOf?, Option.bind_eq_bind, Option.bind_some, Option.pure_def, specOf,
          Sketch.spec, Store.addWithCount, Option.some.injEq, Except.ok.injEq] at h
        rw [← h]
        simp only [specOf, Sketch.spec, hp4]
        rfl
    · rw [if_neg h1] at h ⊢
      by_cases h3 : F64.lt (.fin v) (F64.neg env.minIndexable) = true
      · rw [if_pos h3] at h ⊢
        by_cases h4 : F64.lt (.fin v) (F64.neg env.maxIndexable) = true
        · rw [if_pos h4] at h; cases h
        · rw [if_neg h4] at h ⊢
          obtain ⟨n', hn1, hn2, hn3, hn4⟩ := good_add s.neg G.neg _ (hidx (Or.inr h3)) c hc0
          rw [G.cneg] at hn4
          simp only [Sketch.ratOf?, Option.bind_eq_bind, Option.bind_some, hn1, Option.pure_def]
          refine ⟨_, rfl, ⟨G.pos, hn2, G.cpos, by rw [clamp_of_kind hn3]; exact G.cneg⟩, ?_⟩
          simp only [Sketch.ratOf?, Option.bind_eq_bind, Option.bind_some, Option.pure_def, specOf,
            Sketch.spec, Store.addWithCount, Option.some.injEq, Except.ok.injEq] at h
          rw [← h]
          simp only [specOf, Sketch.spec, hn4]
          rfl
      · rw [if_neg h3] at h ⊢
        have hnan : F64.isNaN (.fin v) = false := rfl
        simp only [hnan, Bool.false_eq_true, if_false, Sketch.ratOf?, Option.bind_eq_bind,
          Option.bind_some, Option.pure_def, Option.some.injEq, Except.ok.injEq] at h ⊢
        refine ⟨_, rfl, ⟨G.pos, G.neg, G.cpos, G.cneg⟩, ?_⟩
        rw [← h]; rfl

/-- a list of `AddWithCount`s on the model follows the spec sketch -/
theorem addAll_lift (env : MapEnv) (l : List (Rat × Rat))
    (hidx : ∀ p ∈ l, (F64.gt (.fin p.1) env.minIndexable = true ∨
        F64.lt (.fin p.1) (F64.neg env.minIndexable) = true) → I32 (env.index (.fin (rabs p.1))))
    (s : Sketch) (G : GoodSk s) (t : Sketch)
    (h : (specOf s).addAll env l = some t) :
    ∃ s', s.addAll env l = some s' ∧ GoodSk s' ∧ specOf s' = t := by
  induction l generalizing s t with
  | nil =>
    simp only [Sketch.addAll, Option.some.injEq] at h
    exact ⟨s, rfl, G, h⟩
  | cons p l ih =>
    obtain ⟨v, c⟩ := p
    simp only [Sketch.addAll] at h ⊢
    cases h1 : (specOf s).addV env v c with
    | none => rw [h1] at h; cases h
    | some r =>
      cases r with
      | error e => rw [h1] at h; cases h
      | ok t1 =>
        rw [h1] at h
        obtain ⟨s1, k1, G1, e1⟩ := addV_lift env s G v c (hidx (v, c) (by simp)) t1 h1
        rw [k1]
        simp only
        exact ih (fun q hq => hidx q (by simp [hq])) s1 G1 t (by rw [e1]; exact h)

/-- `MergeWith` on the model follows the spec sketch, for any two non-collapsing store kinds on
    either side (fast paths and `ForEach` fallback alike) -/
theorem mergeWith_lift (s o : Sketch) (Gs : GoodSk s) (Go : GoodSk o) (t' : Sketch)
    (h : (specOf s).mergeWith (specOf o) = some (.ok t')) :
    ∃ s', s.mergeWith o = some (.ok s') ∧ GoodSk s' ∧ specOf s' = t' := by
  unfold Sketch.mergeWith at h ⊢
  have hm : (specOf s).mapping = s.mapping := rfl
  have hm' : (specOf o).mapping = o.mapping := rfl
  rw [hm, hm'] at h
  by_cases hme : (!Sketch.mappingEquals s.mapping o.mapping) = true
  · rw [if_pos hme] at h; cases h
  · rw [if_neg hme] at h ⊢
    obtain ⟨p', hp1, hp2, hp3, hp4⟩ := good_merge s.pos o.pos Gs.pos Go.pos
    obtain ⟨n', hn1, hn2, hn3, hn4⟩ := good_merge s.neg o.neg Gs.neg Go.neg
    rw [Gs.cpos] at hp4
    rw [Gs.cneg] at hn4
    simp only [hp1, hn1, Option.bind_eq_bind, Option.bind_some, Option.pure_def]
    refine ⟨_, rfl, ⟨hp2, hn2, by rw [clamp_of_kind hp3]; exact Gs.cpos,
      by rw [clamp_of_kind hn3]; exact Gs.cneg⟩, ?_⟩
    simp only [specOf, Sketch.spec, Store.mergeWith, Store.binsList, Option.bind_eq_bind,
      Option.bind_some, Option.pure_def, Option.some.injEq, Except.ok.injEq] at h
    rw [← h]
    simp only [specOf, Sketch.spec, hp4, hn4]
    rfl

/-! ## merge trees with a store kind per leaf -/

inductive KTree where
  | leaf (k : StoreKind) (inputs : List (Rat × Rat))
  | node (l r : KTree)

/-- the same tree on spec (sparse) sketches -/
def KTree.erase : KTree → Props.C02.MergeTree
  | .leaf _ l => .leaf l
  | .node l r => .node l.erase r.erase

/-- all inputs of the tree, left to right -/
def KTree.flat (t : KTree) : List (Rat × Rat) := t.erase.flat

/-- every leaf uses a non-collapsing store kind -/
def KTree.AllPlain : KTree → Prop
  | .leaf k _ => Plain k
  | .node l r => l.AllPlain ∧ r.AllPlain

/-- leaf: the inputs added to a new sketch on stores of the leaf's kind; node: the right result
    merged into the left one (`none` if any step is refused or panics) -/
def KTree.eval (env : MapEnv) : KTree → Option Sketch
  | .leaf k l => Sketch.addAll env (Sketch.new (some env.id) k) l
  | .node l r =>
    match l.eval env, r.eval env with
    | some a, some b =>
      match a.mergeWith b with
      | some (.ok s) => some s
      | _ => none
    | _, _ => none

/-- a tree on stores of any non-collapsing kinds follows the tree on spec sketches -/
theorem ktree_lift (env : MapEnv) (t : KTree) (hk : t.AllPlain)
    (hidx : ∀ p ∈ t.flat, (F64.gt (.fin p.1) env.minIndexable = true ∨
        F64.lt (.fin p.1) (F64.neg env.minIndexable) = true) → I32 (env.index (.fin (rabs p.1))))
    (t₀ : Sketch) (h : t.erase.eval env = some t₀) :
    ∃ s, t.eval env = some s ∧ GoodSk s ∧ specOf s = t₀ := by
  induction t generalizing t₀ with
  | leaf k l =>
    obtain ⟨G, hspec⟩ := goodSk_new (some env.id) k hk
    exact addAll_lift env l hidx _ G t₀ (by rw [hspec]; exact h)
  | node l r ihl ihr =>
    simp only [KTree.erase, Props.C02.MergeTree.eval] at h
    cases hl : l.erase.eval env with
    | none => rw [hl] at h; cases h
    | some a =>
      cases hr : r.erase.eval env with
      | none => rw [hl, hr] at h; cases h
      | some b =>
        rw [hl, hr] at h
        simp only at h
        have hflat : ∀ p, p ∈ l.flat ∨ p ∈ r.flat → p ∈ (KTree.node l r).flat := by
          intro p hp
          show p ∈ l.erase.flat ++ r.erase.flat
          exact List.mem_append.2 hp
        obtain ⟨sa, ea, Ga, ca⟩ := ihl hk.1 (fun p hp => hidx p (hflat p (Or.inl hp))) a hl
        obtain ⟨sb, eb, Gb, cb⟩ := ihr hk.2 (fun p hp => hidx p (hflat p (Or.inr hp))) b hr
        cases hm : a.mergeWith b with
        | none => rw [hm] at h; cases h
        | some res =>
          cases res with
          | error e => rw [hm] at h; cases h
          | ok t1 =>
            rw [hm] at h
            simp only [Option.some.injEq] at h
            obtain ⟨s', k1, G', e'⟩ := mergeWith_lift sa sb Ga Gb t1 (by rw [ca, cb]; exact hm)
            refine ⟨s', ?_, G', by rw [e', h]⟩
            simp only [KTree.eval, ea, eb, k1]

/-! ## sketches on collapsing stores: contents = clamped exact contents -/

/-- admissible clamping rules: a collapsing store has at least one bin -/
def ClampOK : Clamp → Prop
  | .none => True
  | .low n => 1 ≤ n
  | .high n => 1 ≤ n

theorem wf_clamp (cl : Clamp) (E : Content) (h : E.WF) : (cl.apply E).WF := by
  cases cl with
  | none => exact h
  | low n => exact Content.wf_specLow n E h
  | high n => exact Content.wf_specHigh n E h

/-- "clamp at every step" = "clamp once" -/
theorem clamp_add_clamp (cl : Clamp) (hcl : ClampOK cl) (E : Content) (hE : E.WF) (i : Int)
    (w : Rat) (hw : 0 ≤ w) : cl.apply ((cl.apply E).add i w) = cl.apply (E.add i w) := by
  cases cl with
  | none => rfl
  | low n => exact DStore.specLow_add_specLow n hcl E hE i w hw
  | high n => exact DStore.specHigh_add_specHigh n hcl E hE i w hw

/-- the sketch `s` (stores with clamping rule `cl`) holds the clamped contents of the exact
    (un-collapsed) spec sketch `t` -/
structure SimC (cl : Clamp) (s t : Sketch) : Prop where
  pos : Good s.pos
  neg : Good s.neg
  cpos : s.pos.clamp = cl
  cneg : s.neg.clamp = cl
  spec : ∃ cp cn, cp.WF ∧ cn.WF ∧ t = Sketch.spec s.mapping cp cn s.zero ∧
    contentOf s.pos = cl.apply cp ∧ contentOf s.neg = cl.apply cn

theorem simC_new (m : Option MapId) (k : StoreKind) (hk : KindOK k) :
    SimC (clampOfKind k) (Sketch.new m k) (Sketch.new m .sparse) := by
  obtain ⟨g, c, _⟩ := good_new k hk
  refine ⟨g, g, clamp_new k, clamp_new k, [], [], Content.wf_nil, Content.wf_nil, rfl, ?_, ?_⟩
  · show contentOf (Store.new k) = _
    rw [c]; cases k <;> rfl
  · show contentOf (Store.new k) = _
    rw [c]; cases k <;> rfl

theorem addV_liftC (env : MapEnv) (cl : Clamp) (hcl : ClampOK cl) (s t : Sketch)
    (S : SimC cl s t) (v c : Rat)
    (hidx : (F64.gt (.fin v) env.minIndexable = true ∨
        F64.lt (.fin v) (F64.neg env.minIndexable) = true) → I32 (env.index (.fin (rabs v))))
    (t' : Sketch) (h : t.addV env v c = some (.ok t')) :
    ∃ s', s.addV env v c = some (.ok s') ∧ SimC cl s' t' := by
  obtain ⟨Gp, Gn, kp, kn, cp, cn, wp, wn, rfl, ep, en⟩ := S
  unfold Sketch.addV Sketch.addWithCount at h ⊢
  by_cases hc : F64.lt (.fin c) (.fin 0) = true
  · rw [if_pos hc] at h; cases h
  · rw [if_neg hc] at h ⊢
    have hc0 : 0 ≤ c := by
      have : ¬ c < 0 := by simpa [F64.lt] using hc
      exact not_lt.1 this
    by_cases h1 : F64.gt (.fin v) env.minIndexable = true
    · rw [if_pos h1] at h ⊢
      by_cases h2 : F64.gt (.fin v) env.maxIndexable = true
      · rw [if_pos h2] at h; cases h
      · rw [if_neg h2] at h ⊢
        obtain ⟨p', hp1, hp2, hp3, hp4⟩ := good_add s.pos Gp _ (hidx (Or.inl h1)) c hc0
        rw [kp, ep, clamp_add_clamp cl hcl cp wp _ c hc0] at hp4
        simp only [Sketch.ratOf?, Option.bind_eq_bind, Option.bind_some, hp1, Option.pure_def]
        simp only [Sketch.ratOf?, Option.bind_eq_bind, Option.bind_some, Option.pure_def,
          Sketch.spec, Store.addWithCount, Option.some.injEq, Except.ok.injEq] at h
        refine ⟨_, rfl, ⟨hp2, Gn, by rw [clamp_of_kind hp3]; exact kp, kn,
          cp.add (env.index (.fin (rabs v))) c, cn, Content.wf_add _ _ _ wp hc0, wn, ?_, hp4, en⟩⟩
        rw [← h]; rfl
    · rw [if_neg h1] at h ⊢
      by_cases h3 : F64.lt (.fin v) (F64.neg env.minIndexable) = true
      · rw [if_pos h3] at h ⊢
        by_cases h4 : F64.lt (.fin v) (F64.neg env.maxIndexable) = true
        · rw [if_pos h4] at h; cases h
        · rw [if_neg h4] at h ⊢
          obtain ⟨n', hn1, hn2, hn3, hn4⟩ := good_add s.neg Gn _ (hidx (Or.inr h3)) c hc0
          rw [kn, en, clamp_add_clamp cl hcl cn wn _ c hc0] at hn4
          simp only [Sketch.ratOf?, Option.bind_eq_bind, Option.bind_some, hn1, Option.pure_def]
          simp only [Sketch.ratOf?, Option.bind_eq_bind, Option.bind_some, Option.pure_def,
            Sketch.spec, Store.addWithCount, Option.some.injEq, Except.ok.injEq] at h
          refine ⟨_, rfl, ⟨Gp, hn2, kp, by rw [clamp_of_kind hn3]; exact kn,
            cp, cn.add (env.index (.fin (rabs v))) c, wp, Content.wf_add _ _ _ wn hc0, ?_, ep, hn4⟩⟩
          rw [← h]; rfl
      · rw [if_neg h3] at h ⊢
        have hnan : F64.isNaN (.fin v) = false := rfl
        simp only [hnan, Bool.false_eq_true, if_false, Sketch.ratOf?, Option.bind_eq_bind,
          Option.bind_some, Option.pure_def, Option.some.injEq, Except.ok.injEq] at h ⊢
        refine ⟨_, rfl, ⟨Gp, Gn, kp, kn, cp, cn, wp, wn, ?_, ep, en⟩⟩
        rw [← h]; rfl

theorem addAll_liftC (env : MapEnv) (cl : Clamp) (hcl : ClampOK cl) (l : List (Rat × Rat))
    (hidx : ∀ p ∈ l, (F64.gt (.fin p.1) env.minIndexable = true ∨
        F64.lt (.fin p.1) (F64.neg env.minIndexable) = true) → I32 (env.index (.fin (rabs p.1))))
    (s t : Sketch) (S : SimC cl s t) (t' : Sketch) (h : t.addAll env l = some t') :
    ∃ s', s.addAll env l = some s' ∧ SimC cl s' t' := by
  induction l generalizing s t with
  | nil =>
    simp only [Sketch.addAll, Option.some.injEq] at h
    exact ⟨s, rfl, h ▸ S⟩
  | cons p l ih =>
    obtain ⟨v, c⟩ := p
    simp only [Sketch.addAll] at h ⊢
    cases h1 : t.addV env v c with
    | none => rw [h1] at h; cases h
    | some r =>
      cases r with
      | error e => rw [h1] at h; cases h
      | ok t1 =>
        rw [h1] at h
        obtain ⟨s1, k1, S1⟩ := addV_liftC env cl hcl s t S v c (hidx (v, c) (by simp)) t1 h1
        rw [k1]
        simp only
        exact ih (fun q hq => hidx q (by simp [hq])) s1 t1 S1 h

/-! ## rank lookups survive the collapsing above the edge -/

theorem cumul_foldLow (m : Content) (e k : Int) :
    (Content.foldLow m e).cumul k = if k < e then 0 else m.cumul k := by
  unfold Content.foldLow
  rw [Content.cumul_eq_wsum, Content.wsum_relabel]
  by_cases hk : k < e
  · rw [if_pos hk, ← Content.wsum_false m]
    apply Content.wsum_congr
    intro i
    simp only [decide_eq_false_iff_not]
    split <;> omega
  · rw [if_neg hk, Content.cumul_eq_wsum]
    apply Content.wsum_congr
    intro i
    by_cases hi : i < e
    · simp only [if_pos hi]
      rw [decide_eq_true (by omega), decide_eq_true (by omega)]
    · simp only [if_neg hi]

/-- `KeyAtRank` on the content folded at `e` answers the un-folded key, moved onto the edge when
    it lies below it -/
theorem keyAtRank_foldLow (m : Content) (h : m.WF) (e mx : Int) (he : e ≤ mx)
    (hmx : m.maxIndex? = some mx) (r : Rat) :
    (Content.foldLow m e).keyAtRank r = max (m.keyAtRank r) e := by
  have hne : m ≠ [] := fun hc => by rw [hc] at hmx; cases hmx
  have hwf' := Content.wf_foldLow m h e
  obtain ⟨hmx', hkeys'⟩ := Content.foldLow_keys m h e mx he hmx
  have hne' : Content.foldLow m e ≠ [] := fun hc => by rw [hc] at hmx'; cases hmx'
  have htot : (Content.foldLow m e).total = m.total := Content.total_relabel _ m
  have A := Content.keyAtRank_spec m h hne r
  have B := Content.keyAtRank_spec _ hwf' hne' r
  obtain ⟨wk, hwk⟩ := Content.keyAtRank_mem m r hne
  obtain ⟨wk', hwk'⟩ := Content.keyAtRank_mem _ r hne'
  simp only at A B
  generalize m.keyAtRank r = k at A hwk ⊢
  generalize (Content.foldLow m e).keyAtRank r = k' at B hwk' ⊢
  have hr' : (0 : Rat) ≤ (if r < 0 then 0 else r) := by split_ifs <;> linarith
  generalize (if r < 0 then 0 else r) = r' at A B hr'
  have hk'e : e ≤ k' := (hkeys' _ hwk').1
  have hcum' : ∀ j, e ≤ j → (Content.foldLow m e).cumul j = m.cumul j := fun j hj => by
    rw [cumul_foldLow, if_neg (by omega)]
  have hle := Content.cumul_le_total m h.2
  have hle' := Content.cumul_le_total _ hwf'.2
  have hnn := Content.cumul_nonneg m h.2
  -- a key of the folded content at or above the edge
  have key' : ∀ j, e ≤ j → 0 < (if j = e then m.cumul e else m.lookup j) →
      ∃ w, (j, w) ∈ Content.foldLow m e := by
    intro j hj hpos
    rw [← Content.lookup_pos_iff _ hwf', Content.lookup_foldLow]
    unfold DStore.foldW
    rw [if_neg (by omega)]; exact hpos
  rcases A with ⟨a1, a2⟩ | ⟨a1, a2⟩
  · rcases B with ⟨b1, b2⟩ | ⟨b1, b2⟩
    · rw [hcum' k' hk'e] at b1
      by_cases hke : e ≤ k
      · -- the un-folded answer is at or above the edge: it is kept
        rw [max_eq_left hke]
        have hkkey : ∃ w, (k, w) ∈ Content.foldLow m e := by
          apply key' k hke
          have hpos : 0 < m.lookup k := (Content.lookup_pos_iff m h k).2 ⟨wk, hwk⟩
          by_cases hk : k = e
          · rw [if_pos hk, ← hk]
            have := Content.cumul_step m k
            have := hnn (k - 1)
            linarith
          · rw [if_neg hk]; exact hpos
        rcases lt_trichotomy k' k with hlt | heq | hgt
        · exfalso
          by_cases hk'e' : k' = e
          · -- `k' = e < k`: the largest key of `m` at or below `e` already exceeds the rank
            rcases DDS.cumul_eq_zero_or_key m h.1 e with h0 | ⟨p, hp, hpl, hpe⟩
            · rw [hk'e', h0] at b1; linarith
            · have := a2 p hp (by omega)
              rw [hk'e', hpe] at b1; linarith
          · have hpos : 0 < m.lookup k' := by
              have := (Content.lookup_pos_iff _ hwf' k').2 ⟨wk', hwk'⟩
              rw [Content.lookup_foldLow] at this
              unfold DStore.foldW at this
              rw [if_neg (by omega), if_neg hk'e'] at this
              exact this
            obtain ⟨w, hw⟩ := (Content.lookup_pos_iff m h k').1 hpos
            have := a2 _ hw hlt
            simp only at this
            linarith
        · exact heq
        · exfalso
          obtain ⟨w, hw⟩ := hkkey
          have := b2 _ hw hgt
          simp only at this
          rw [hcum' k hke] at this
          linarith
      · -- the un-folded answer lies below the edge: the edge answers
        have hke' : k < e := not_le.1 hke
        rw [max_eq_right (le_of_lt hke')]
        have hce : r' < m.cumul e := lt_of_lt_of_le a1 (Content.cumul_mono m h.2 k e (le_of_lt hke'))
        rcases lt_or_eq_of_le hk'e with hlt | heq
        · exfalso
          obtain ⟨w, hw⟩ := key' e (le_refl _) (by rw [if_pos rfl]; linarith)
          have := b2 _ hw hlt
          simp only at this
          rw [hcum' e (le_refl _)] at this
          linarith
        · exact heq.symm
    · exfalso
      have := hle k
      rw [htot] at b1; linarith
  · rcases B with ⟨b1, b2⟩ | ⟨b1, b2⟩
    · exfalso
      have := hle' k'
      rw [htot] at this; linarith
    · rw [hmx] at a2
      rw [hmx'] at b2
      have e1 : k = mx := (Option.some.inj a2).symm
      have e2 : k' = mx := (Option.some.inj b2).symm
      rw [e1, e2, max_eq_left he]

theorem keyAtRank_specLow (N : Nat) (hN : 1 ≤ N) (m : Content) (h : m.WF) (mx : Int)
    (hmx : m.maxIndex? = some mx) (r : Rat) :
    (Content.specLow N m).keyAtRank r = max (m.keyAtRank r) (mx - (N : Int) + 1) := by
  rw [Content.specLow_of_max N m mx hmx]
  exact keyAtRank_foldLow m h _ mx (by omega) hmx r

/-- the float-rank lookup of the sparse store on the collapsed content -/
theorem storeKeyAtRank_specLow (N : Nat) (hN : 1 ≤ N) (c : Content) (h : c.WF) (mx : Int)
    (hmx : c.maxIndex? = some mx) (rk : F64) :
    Sketch.storeKeyAtRank (.sp (Content.specLow N c)) rk =
      max (Sketch.storeKeyAtRank (.sp c) rk) (mx - (N : Int) + 1) := by
  have hwf' := Content.wf_specLow N c h
  have hmx' := (Content.specLow_keys N hN c h mx hmx).1
  cases rk with
  | fin r =>
    show (Store.sp _).keyAtRank r = max ((Store.sp c).keyAtRank r) _
    rw [Store.sp_keyAtRank _ hwf', Store.sp_keyAtRank _ h, keyAtRank_specLow N hN c h mx hmx]
  | ninf =>
    show (Store.sp _).keyAtRank 0 = max ((Store.sp c).keyAtRank 0) _
    rw [Store.sp_keyAtRank _ hwf', Store.sp_keyAtRank _ h, keyAtRank_specLow N hN c h mx hmx]
  | pinf =>
    show ((Content.specLow N c).maxIndex?).getD 0 = max ((c.maxIndex?).getD 0) _
    rw [hmx', hmx]; simp only [Option.getD_some]; omega
  | nan =>
    show ((Content.specLow N c).maxIndex?).getD 0 = max ((c.maxIndex?).getD 0) _
    rw [hmx', hmx]; simp only [Option.getD_some]; omega

/-- which bin `GetValueAtQuantile(q)` selects: `none` (refused, or the zero bucket) or the side
    (`true` = positive store) and the bin index -/
def selKey (s : Sketch) (q : F64) : Option (Bool × Int) :=
  if !(F64.le (.fin 0) q && F64.le q (.fin 1)) then none
  else if F64.eq s.getCount (.fin 0) then none
  else if F64.lt (s.qrank q) s.negTotal then
    some (false, Sketch.storeKeyAtRank s.neg (F64.sub (F64.sub s.negTotal F64.one) (s.qrank q)))
  else if F64.lt (s.qrank q) (F64.add s.zero s.negTotal) then none
  else some (true, Sketch.storeKeyAtRank s.pos (F64.sub (F64.sub (s.qrank q) s.zero) s.negTotal))

/-- the lower edge of a lowest-collapsing store with `N` bins holding the exact content `c`:
    `max − N + 1` (anything for the empty content) -/
def edgeLow (N : Nat) (c : Content) : Int :=
  match c.maxIndex? with
  | some mx => mx - (N : Int) + 1
  | none => 0

/-- spec level: collapsing both contents with limit `N` does not change the answer of
    `GetValueAtQuantile(q)` when the bin the exact sketch selects is at or above the edge
    `max − N + 1` of its side (and never changes refusals or zero-bucket answers) -/
theorem quantile_specLow_retained (env : MapEnv) (N : Nat) (hN : 1 ≤ N) (m : Option MapId)
    (cp cn : Content) (hcp : cp.WF) (hcn : cn.WF) (z : F64) (q : F64)
    (hsel : ∀ side k, selKey (Sketch.spec m cp cn z) q = some (side, k) →
      edgeLow N (if side then cp else cn) ≤ k) :
    (Sketch.spec m (Content.specLow N cp) (Content.specLow N cn) z).quantile env q =
      (Sketch.spec m cp cn z).quantile env q := by
  have hcount : (Sketch.spec m (Content.specLow N cp) (Content.specLow N cn) z).getCount =
      (Sketch.spec m cp cn z).getCount := by
    simp only [Sketch.getCount, Sketch.posTotal, Sketch.negTotal, Sketch.spec, Store.totalCount,
      Content.total_specLow]
  have hneg : (Sketch.spec m (Content.specLow N cp) (Content.specLow N cn) z).negTotal =
      (Sketch.spec m cp cn z).negTotal := by
    simp only [Sketch.negTotal, Sketch.spec, Store.totalCount, Content.total_specLow]
  have hrank : (Sketch.spec m (Content.specLow N cp) (Content.specLow N cn) z).qrank q =
      (Sketch.spec m cp cn z).qrank q := by
    simp only [Sketch.qrank, hcount]
  have hzero : (Sketch.spec m (Content.specLow N cp) (Content.specLow N cn) z).zero =
      (Sketch.spec m cp cn z).zero := rfl
  -- the key lemma, with the edge condition
  have keyEq : ∀ (c : Content), c.WF → ∀ rk k, Sketch.storeKeyAtRank (.sp c) rk = k →
      edgeLow N c ≤ k →
      Sketch.storeKeyAtRank (.sp (Content.specLow N c)) rk = k := by
    intro c hc rk k hk hedge
    cases hmx : c.maxIndex? with
    | none =>
      have : c = [] := Content.maxIndex?_eq_none.1 hmx
      subst this
      exact hk
    | some mx =>
      rw [storeKeyAtRank_specLow N hN c hc mx hmx, hk]
      unfold edgeLow at hedge
      rw [hmx] at hedge
      exact max_eq_left hedge
  rw [Sketch.quantile_unfold, Sketch.quantile_unfold, hcount, hneg, hrank, hzero]
  unfold selKey at hsel
  by_cases h1 : (!(F64.le (.fin 0) q && F64.le q (.fin 1))) = true
  · rw [if_pos h1, if_pos h1]
  · rw [if_neg h1, if_neg h1]
    rw [if_neg h1] at hsel
    by_cases h2 : F64.eq (Sketch.spec m cp cn z).getCount (.fin 0) = true
    · rw [if_pos h2, if_pos h2]
    · rw [if_neg h2, if_neg h2]
      rw [if_neg h2] at hsel
      by_cases h3 : F64.lt ((Sketch.spec m cp cn z).qrank q) (Sketch.spec m cp cn z).negTotal = true
      · rw [if_pos h3, if_pos h3]
        rw [if_pos h3] at hsel
        have := hsel false _ rfl
        have e := keyEq cn hcn (F64.sub (F64.sub (Sketch.spec m cp cn z).negTotal F64.one)
          ((Sketch.spec m cp cn z).qrank q)) _ rfl (by simpa using this)
        exact congrArg (fun k => Except.ok (F64.neg (env.value k))) e
      · rw [if_neg h3, if_neg h3]
        rw [if_neg h3] at hsel
        by_cases h4 : F64.lt ((Sketch.spec m cp cn z).qrank q)
            (F64.add (Sketch.spec m cp cn z).zero (Sketch.spec m cp cn z).negTotal) = true
        · rw [if_pos h4, if_pos h4]
        · rw [if_neg h4, if_neg h4]
          rw [if_neg h4] at hsel
          have := hsel true _ rfl
          have e := keyEq cp hcp (F64.sub (F64.sub ((Sketch.spec m cp cn z).qrank q)
            (Sketch.spec m cp cn z).zero) (Sketch.spec m cp cn z).negTotal) _ rfl
            (by simpa using this)
          exact congrArg (fun k => Except.ok (env.value k)) e

end DDS.Lift

namespace DDS.Props.Lift

open DDS DDS.Lift

/-- values whose magnitude exceeds `minIndexable` are the ones routed to a store -/
theorem routed_iff (env : MapEnv) (α mn mx : Rat) (C : Contract env α mn mx) (v : Rat)
    (h : F64.gt (.fin v) env.minIndexable = true ∨
      F64.lt (.fin v) (F64.neg env.minIndexable) = true) : mn < rabs v := by
  rw [C.minEq] at h
  have hmn := C.minPos
  rcases h with h | h
  · have : mn < v := by simpa [F64.gt, F64.lt] using h
    rw [rabs_of_pos (by linarith)]; exact this
  · have : v < -mn := by simpa [F64.lt, F64.neg] using h
    rw [rabs_of_neg (by linarith)]; linarith

/-- the same with the hypotheses of `C02.merge_tree` (no contract needed) -/
theorem routed_iff' (env : MapEnv) (mn : Rat) (hmn : env.minIndexable = .fin mn) (hmn0 : 0 ≤ mn)
    (v : Rat) (h : F64.gt (.fin v) env.minIndexable = true ∨
      F64.lt (.fin v) (F64.neg env.minIndexable) = true) : mn < rabs v := by
  rw [hmn] at h
  rcases h with h | h
  · have : mn < v := by simpa [F64.gt, F64.lt] using h
    rw [rabs_of_pos (by linarith)]; exact this
  · have : v < -mn := by simpa [F64.lt, F64.neg] using h
    rw [rabs_of_neg (by linarith)]; linarith

/-- the mapping of the spec sketch built by unit adds (no bound on the number of values) -/
theorem addAll_state_mapping (env : MapEnv) (α mn mx : Rat) (C : Contract env α mn mx)
    (xs : List Rat) (hx : ∀ x ∈ xs, rabs x ≤ mx) (s₀ : Sketch)
    (hs : Sketch.addAll env (Sketch.new (some env.id) .sparse) (xs.map (fun x => (x, 1))) = some s₀) :
    s₀.mapping = some env.id := by
  rw [DDS.new_sparse, addAll_units env α mn mx C xs hx] at hs
  rw [← Option.some.inj hs]

/-- the sketch built by unit adds on stores of a non-collapsing kind is `GoodSk` and holds the
    contents of the spec sketch built from the same values -/
theorem addAll_any_store (k : StoreKind) (hk : Plain k)
    (env : MapEnv) (α mn mx : Rat) (C : Contract env α mn mx)
    (xs : List Rat) (hx : ∀ x ∈ xs, rabs x ≤ mx)
    (hx32 : ∀ x ∈ xs, mn < rabs x → I32 (env.index (.fin (rabs x)))) :
    ∃ s s₀, Sketch.addAll env (Sketch.new (some env.id) k) (xs.map (fun x => (x, 1))) = some s ∧
      Sketch.addAll env (Sketch.new (some env.id) .sparse) (xs.map (fun x => (x, 1))) = some s₀ ∧
      GoodSk s ∧ specOf s = s₀ := by
  obtain ⟨s₀, hs₀⟩ := C01.addAll_ok env α mn mx C xs hx
  obtain ⟨G, hspec⟩ := goodSk_new (some env.id) k hk
  obtain ⟨s, h1, h2, h3⟩ := addAll_lift env (xs.map (fun x => (x, 1))) (by
      intro p hp hr
      obtain ⟨x, hxm, rfl⟩ := List.mem_map.1 hp
      exact hx32 x hxm (routed_iff env α mn mx C x hr)) _ G s₀ (by rw [hspec]; exact hs₀)
  exact ⟨s, s₀, h1, hs₀, h2, h3⟩

/-- the quantile of a sketch on good non-collapsing stores, built by at most `2^53` unit adds, is
    the quantile of the spec sketch built from the same values -/
theorem quantile_eq_spec (k : StoreKind) (hk : Plain k)
    (env : MapEnv) (α mn mx : Rat) (C : Contract env α mn mx)
    (xs : List Rat) (hx : ∀ x ∈ xs, rabs x ≤ mx)
    (hx32 : ∀ x ∈ xs, mn < rabs x → I32 (env.index (.fin (rabs x))))
    (hne : xs ≠ []) (hn : xs.length ≤ 2 ^ 53) (s : Sketch)
    (hs : Sketch.addAll env (Sketch.new (some env.id) k) (xs.map (fun x => (x, 1))) = some s) :
    ∃ s₀, Sketch.addAll env (Sketch.new (some env.id) .sparse) (xs.map (fun x => (x, 1))) = some s₀ ∧
      ∀ q : F64, s.quantile env q = s₀.quantile env q := by
  obtain ⟨s', s₀, h1, h2, G, h4⟩ := addAll_any_store k hk env α mn mx C xs hx hx32
  rw [hs] at h1
  cases h1
  refine ⟨s₀, h2, fun q => ?_⟩
  have hst := addAll_state env α mn mx C xs hx hn s₀ h2
  rw [← h4] at hst
  simp only [specOf, Sketch.spec, Sketch.mk.injEq, Store.sp.injEq] at hst
  obtain ⟨hm, hp, hng, hz⟩ := hst
  have hlen := length_split mn C.minPos xs
  have hP : (contentOf s.pos).total = (((Psorted mn xs).map (idxOf env)).length : Rat) := by
    rw [hp, total_unitsOf]
  have hM : (contentOf s.neg).total = (((Msorted mn xs).map (idxOf env)).length : Rat) := by
    rw [hng, total_unitsOf]
  have hPl : ((Psorted mn xs).map (idxOf env)).length = (posPart mn xs).length := by
    rw [List.length_map]; exact (sortAsc_perm _).length_eq
  have hMl : ((Msorted mn xs).map (idxOf env)).length = (negPart mn xs).length := by
    rw [List.length_map, Msorted, (sortAsc_perm _).length_eq, List.length_map]
  rw [hPl] at hP
  rw [hMl] at hM
  have hpos : 0 < xs.length := List.length_pos_iff.2 hne
  have hq := Props.C12.quantile_congr_exact env s (contentOf s.pos) (contentOf s.neg)
    (zeroCnt mn xs : Rat) G.refines hz (by positivity)
    (by
      rw [hP, hM, add_nat _ _ (by omega), add_nat _ _ (by omega)]
      push_cast; rfl)
    (by
      rw [hP, hM]
      have e : ((zeroCnt mn xs : Rat) + ((posPart mn xs).length : Rat) +
          ((negPart mn xs).length : Rat)) = ((xs.length : Int) : Rat) := by
        rw [← hlen]; push_cast; ring
      rw [e]
      show F64.roundF64 (((xs.length : Int) : Rat) + -1) ≠ _
      have e2 : ((xs.length : Int) : Rat) + -1 = (((xs.length : Int) - 1 : Int) : Rat) := by
        push_cast; ring
      rw [e2, F64.roundF64_int' _ (by omega) (by omega)]
      intro hc
      have := F64.fin.inj hc
      have : ((xs.length : Int) - 1 : Int) = (xs.length : Int) := by exact_mod_cast this
      omega) q
  rw [hq, ← h4]
  rfl

/-- **DDSketch accuracy, for every non-collapsing store kind** (dense, sparse,
    buffered-paginated): the statement of `C01.quantile_accuracy` with the stores of kind `k`.
    The only extra hypothesis: the indexes the mapping assigns to the values routed to a store are
    int32 (the stores panic or mis-report `MinIndex`/`MaxIndex` outside that range). -/
theorem quantile_accuracy_any_store (k : StoreKind) (hk : Plain k)
    (env : MapEnv) (α mn mx : Rat) (C : Contract env α mn mx)
    (xs : List Rat) (hx : ∀ x ∈ xs, rabs x ≤ mx)
    (hx32 : ∀ x ∈ xs, mn < rabs x → I32 (env.index (.fin (rabs x))))
    (hne : xs ≠ []) (hn : xs.length ≤ 2 ^ 53) (s : Sketch)
    (hs : Sketch.addAll env (Sketch.new (some env.id) k) (xs.map (fun x => (x, 1))) = some s)
    (q : Rat) (hq0 : 0 ≤ q) (hq1 : q ≤ 1) :
    ∃ a : Rat, Sketch.quantile env s (.fin q) = .ok (.fin a) ∧
      ∃ k : Nat, k < xs.length ∧
        ((k : Int) = ⌊q * ((xs.length : Rat) - 1)⌋ ∨ (k : Int) = ⌈q * ((xs.length : Rat) - 1)⌉) ∧
        rabs (a - (sortedInputs mn xs)[k]!) ≤ α * rabs ((sortedInputs mn xs)[k]!) := by
  obtain ⟨s₀, h0, hq⟩ := quantile_eq_spec k hk env α mn mx C xs hx hx32 hne hn s hs
  rw [hq]
  exact C01.quantile_accuracy env α mn mx C xs hx hne hn s₀ h0 q hq0 hq1

/-- adding never fails, for every non-collapsing store kind -/
theorem addAll_ok_any_store (k : StoreKind) (hk : Plain k)
    (env : MapEnv) (α mn mx : Rat) (C : Contract env α mn mx)
    (xs : List Rat) (hx : ∀ x ∈ xs, rabs x ≤ mx)
    (hx32 : ∀ x ∈ xs, mn < rabs x → I32 (env.index (.fin (rabs x)))) :
    ∃ s, Sketch.addAll env (Sketch.new (some env.id) k) (xs.map (fun x => (x, 1))) = some s := by
  obtain ⟨s, _, h1, _⟩ := addAll_any_store k hk env α mn mx C xs hx hx32
  exact ⟨s, h1⟩

/-- **Full mergeability, for every mix of non-collapsing store kinds.**  A tree of merges whose
    leaves are sketches on dense, sparse or paginated stores (a kind per leaf; the merges go
    through the same-kind fast paths or the `ForEach` fallback as the kinds dictate) never panics
    and ends in a sketch that OBSERVES exactly like the single spec sketch that received all the
    inputs: it refines that sketch's contents, hence `GetCount`, `IsEmpty`, `ForEach`, `GetSum`,
    `GetMinValue`, `GetMaxValue` agree, and so does `GetValueAtQuantile(q)` for every `q` for
    which the positive store is consulted only if it is non-empty (the guard of
    `Sketch.quantile_congr`; `Sketch.quantile_empty_pos_counterexample` shows it is needed). -/
theorem merge_tree_any_stores (env : MapEnv) (mn mx : Rat)
    (hmn : env.minIndexable = .fin mn) (hmx : env.maxIndexable = .fin mx)
    (hmn0 : 0 ≤ mn) (hrefl : env.id.equals env.id = true) (t : KTree) (hk : t.AllPlain)
    (hacc : ∀ p ∈ t.flat, rabs p.1 ≤ mx ∧ 0 ≤ p.2)
    (hexact : C02.ExactSums (Sketch.zeroPart mn t.flat))
    (h32 : ∀ p ∈ t.flat, mn < rabs p.1 → I32 (env.index (.fin (rabs p.1)))) :
    ∃ s s₀ cp cn, t.eval env = some s ∧
      Sketch.addAll env (Sketch.new (some env.id) .sparse) t.flat = some s₀ ∧
      s₀ = Sketch.spec (some env.id) cp cn s.zero ∧ s.mapping = some env.id ∧
      s.Refines cp cn ∧
      s.getCount = s₀.getCount ∧ s.isEmpty = s₀.isEmpty ∧
      s.forEachList env = s₀.forEachList env ∧ s.getSum env = s₀.getSum env ∧
      s.getMin env = s₀.getMin env ∧ s.getMax env = s₀.getMax env ∧
      ∀ q : F64, (cp = [] → s₀.usesPos q = false) → s.quantile env q = s₀.quantile env q := by
  obtain ⟨t₀, s₀, e1, e2, p1, p2, p3, p4⟩ :=
    C02.merge_tree env mn mx hmn hmx hmn0 hrefl t.erase hacc hexact
  have e12 : t₀ = s₀ := by
    cases t₀; cases s₀; simp only at p1 p2 p3 p4; subst p1 p2 p3 p4; rfl
  subst e12
  obtain ⟨s, h1, G, h3⟩ := ktree_lift env t hk (fun p hp hr =>
    h32 p hp (routed_iff' env mn hmn hmn0 p.1 hr)) t₀ e1
  have hmap : s.mapping = some env.id := by
    have hm0 : t₀.mapping = some env.id := by
      have := C02.eval_eq_target env mn mx hmn hmx hmn0 hrefl t.erase hacc hexact
      rw [e1] at this
      rw [Option.some.inj this]; rfl
    rw [← hm0, ← h3]; rfl
  have hsp : t₀ = Sketch.spec s.mapping (contentOf s.pos) (contentOf s.neg) s.zero := h3.symm
  have R := G.refines
  refine ⟨s, t₀, contentOf s.pos, contentOf s.neg, h1, e2, by rw [hsp, hmap], hmap, R,
    ?_, ?_, ?_, ?_, ?_, ?_, ?_⟩
  · rw [hsp]; exact Sketch.getCount_congr R
  · rw [hsp]; exact Sketch.isEmpty_congr R
  · rw [hsp]; exact Sketch.forEachList_congr env R
  · rw [hsp]; exact Sketch.getSum_congr env R
  · rw [hsp]; exact Sketch.getMin_congr env R
  · rw [hsp]; exact Sketch.getMax_congr env R
  · intro q hq
    rw [hsp] at hq ⊢
    exact Sketch.quantile_congr' env R q (fun hc => by rw [Sketch.usesPos_congr R q]; exact hq hc)

/-! ## sketches on collapsing stores -/

theorem clampOK_of_kindOK (k : StoreKind) (hk : KindOK k) : ClampOK (clampOfKind k) := by
  cases k <;> trivial

/-- **Contents of a sketch on collapsing (or any) stores.**  After unit adds, a sketch on stores
    of kind `k` — lowest-collapsing `.low N`, highest-collapsing `.high N`, or a non-collapsing
    kind — never panicked, and its two stores hold (and observe like) the clamped contents
    `specLow N` / `specHigh N` of the EXACT contents `cp`, `cn` of the spec sketch built from the
    same values; zero bucket and mapping are those of the spec sketch. -/
theorem collapsing_sketch_contents (k : StoreKind) (hk : KindOK k)
    (env : MapEnv) (α mn mx : Rat) (C : Contract env α mn mx)
    (xs : List Rat) (hx : ∀ x ∈ xs, rabs x ≤ mx)
    (hx32 : ∀ x ∈ xs, mn < rabs x → I32 (env.index (.fin (rabs x)))) :
    ∃ s s₀ cp cn,
      Sketch.addAll env (Sketch.new (some env.id) k) (xs.map (fun x => (x, 1))) = some s ∧
      Sketch.addAll env (Sketch.new (some env.id) .sparse) (xs.map (fun x => (x, 1))) = some s₀ ∧
      s₀ = Sketch.spec (some env.id) cp cn s.zero ∧ s.mapping = some env.id ∧ cp.WF ∧ cn.WF ∧
      Good s.pos ∧ Good s.neg ∧
      contentOf s.pos = (clampOfKind k).apply cp ∧ contentOf s.neg = (clampOfKind k).apply cn ∧
      s.Refines ((clampOfKind k).apply cp) ((clampOfKind k).apply cn) := by
  obtain ⟨s₀, hs₀⟩ := C01.addAll_ok env α mn mx C xs hx
  obtain ⟨s, h1, S⟩ := addAll_liftC env (clampOfKind k) (clampOK_of_kindOK k hk)
    (xs.map (fun x => (x, 1))) (by
      intro p hp hr
      obtain ⟨x, hxm, rfl⟩ := List.mem_map.1 hp
      exact hx32 x hxm (routed_iff env α mn mx C x hr)) _ _ (simC_new (some env.id) k hk) s₀ hs₀
  obtain ⟨Gp, Gn, _, _, cp, cn, wp, wn, e, ep, en⟩ := S
  have hmap : s.mapping = some env.id := by
    have hst := addAll_state_mapping env α mn mx C xs hx s₀ hs₀
    rw [e] at hst; exact hst
  refine ⟨s, s₀, cp, cn, h1, hs₀, by rw [e, hmap], hmap, wp, wn, Gp, Gn, ep, en, ?_⟩
  exact ⟨ep ▸ good_refines _ Gp, en ▸ good_refines _ Gn⟩

/-- counts of at most `2^53` unit weights add up exactly, and `count - 1 ≠ count` -/
theorem unit_counts_exact (zc np nm : Nat) (h1 : 1 ≤ zc + np + nm) (h2 : zc + np + nm ≤ 2 ^ 53) :
    F64.add (F64.add (.fin (zc : Rat)) (.fin (np : Rat))) (.fin (nm : Rat)) =
      .fin ((zc : Rat) + (np : Rat) + (nm : Rat)) ∧
    F64.sub (.fin ((zc : Rat) + (np : Rat) + (nm : Rat))) F64.one ≠
      .fin ((zc : Rat) + (np : Rat) + (nm : Rat)) := by
  constructor
  · rw [add_nat _ _ (by omega), add_nat _ _ (by omega)]
    push_cast; rfl
  · have e : ((zc : Rat) + (np : Rat) + (nm : Rat)) = (((zc + np + nm : Nat) : Int) : Rat) := by
      push_cast; ring
    rw [e]
    show F64.roundF64 ((((zc + np + nm : Nat) : Int) : Rat) + -1) ≠ _
    have e2 : (((zc + np + nm : Nat) : Int) : Rat) + -1 =
        ((((zc + np + nm : Nat) : Int) - 1 : Int) : Rat) := by push_cast; ring
    rw [e2, F64.roundF64_int' _ (by omega) (by omega)]
    intro hc
    have := F64.fin.inj hc
    have : (((zc + np + nm : Nat) : Int) - 1 : Int) = ((zc + np + nm : Nat) : Int) := by
      exact_mod_cast this
    omega

/-- **Quantiles above the edge survive the collapsing.**  A sketch on lowest-collapsing stores
    with `N ≥ 1` bins, built by at most `2^53` unit adds, holds `specLow N` of the exact contents
    (`collapsing_sketch_contents`); consequently `GetValueAtQuantile(q)` answers EXACTLY what the
    un-collapsed spec sketch built from the same values answers, for every `q` whose selected bin
    (`selKey`) is at or above the edge `max − N + 1` of its side — in particular strictly above
    it — and for every `q` that is refused or falls in the zero bucket.  (Below the edge the
    collapsed sketch answers the edge bin instead: `Lift.storeKeyAtRank_specLow`.) -/
theorem collapsing_quantile_retained (N : Nat) (hN : 1 ≤ N)
    (env : MapEnv) (α mn mx : Rat) (C : Contract env α mn mx)
    (xs : List Rat) (hx : ∀ x ∈ xs, rabs x ≤ mx)
    (hx32 : ∀ x ∈ xs, mn < rabs x → I32 (env.index (.fin (rabs x))))
    (hne : xs ≠ []) (hn : xs.length ≤ 2 ^ 53) :
    ∃ s s₀ cp cn,
      Sketch.addAll env (Sketch.new (some env.id) (.low N)) (xs.map (fun x => (x, 1))) = some s ∧
      Sketch.addAll env (Sketch.new (some env.id) .sparse) (xs.map (fun x => (x, 1))) = some s₀ ∧
      s₀ = Sketch.spec (some env.id) cp cn s.zero ∧
      contentOf s.pos = Content.specLow N cp ∧ contentOf s.neg = Content.specLow N cn ∧
      ∀ q : F64,
        (∀ side k, selKey s₀ q = some (side, k) → edgeLow N (if side then cp else cn) ≤ k) →
        s.quantile env q = s₀.quantile env q := by
  obtain ⟨s, s₀, cp, cn, h1, h2, h3, hmap, wp, wn, _, _, ep, en, R⟩ :=
    collapsing_sketch_contents (.low N) hN env α mn mx C xs hx hx32
  refine ⟨s, s₀, cp, cn, h1, h2, h3, ep, en, fun q hsel => ?_⟩
  change s.Refines (Content.specLow N cp) (Content.specLow N cn) at R
  have hst := addAll_state env α mn mx C xs hx hn s₀ h2
  rw [h3] at hst
  simp only [Sketch.spec, Sketch.mk.injEq, Store.sp.injEq, true_and] at hst
  obtain ⟨hp, hng, hz⟩ := hst
  have hlen := length_split mn C.minPos xs
  have hPl : ((Psorted mn xs).map (idxOf env)).length = (posPart mn xs).length := by
    rw [List.length_map]; exact (sortAsc_perm _).length_eq
  have hMl : ((Msorted mn xs).map (idxOf env)).length = (negPart mn xs).length := by
    rw [List.length_map, Msorted, (sortAsc_perm _).length_eq, List.length_map]
  have hP : (Content.specLow N cp).total = ((posPart mn xs).length : Rat) := by
    rw [Content.total_specLow, hp, total_unitsOf, hPl]
  have hM : (Content.specLow N cn).total = ((negPart mn xs).length : Rat) := by
    rw [Content.total_specLow, hng, total_unitsOf, hMl]
  have hpos : 0 < xs.length := List.length_pos_iff.2 hne
  obtain ⟨u1, u2⟩ := unit_counts_exact (zeroCnt mn xs) (posPart mn xs).length
    (negPart mn xs).length (by omega) (by omega)
  have hq := Props.C12.quantile_congr_exact env s _ _ (zeroCnt mn xs : Rat) R hz (by positivity)
    (by rw [hP, hM]; exact u1) (by rw [hP, hM]; exact u2) q
  rw [hq, hmap, h3]
  exact quantile_specLow_retained env N hN (some env.id) cp cn wp wn s.zero q
    (by rw [← h3]; exact hsel)

/-! ## the hypotheses are satisfiable: concrete instances -/

section examples
open DDS.QuantileEx

theorem exEnv_index32 (v : F64) : I32 (exEnv.index v) := by
  cases v <;> simp only [exEnv] <;> first | (split <;> decide) | decide

/-- `quantile_accuracy_any_store` / `addAll_ok_any_store` on dense and on paginated stores:
    `exXs = [5, -2, 1, 3, -7, 0, 12]` (both sides and the zero bucket), every `q ∈ [0, 1]` -/
example (k : StoreKind) (hk : k = .dense ∨ k = .pag) :
    ∃ s, Sketch.addAll exEnv (Sketch.new (some exEnv.id) k) (exXs.map (fun x => (x, 1))) = some s ∧
    ∀ q : Rat, 0 ≤ q → q ≤ 1 →
      ∃ a : Rat, Sketch.quantile exEnv s (.fin q) = .ok (.fin a) ∧
        ∃ k : Nat, k < exXs.length ∧
          ((k : Int) = ⌊q * ((exXs.length : Rat) - 1)⌋ ∨ (k : Int) = ⌈q * ((exXs.length : Rat) - 1)⌉) ∧
          rabs (a - (sortedInputs (4 / 3) exXs)[k]!) ≤ 1 / 2 * rabs ((sortedInputs (4 / 3) exXs)[k]!) := by
  have hp : Plain k := by rcases hk with rfl | rfl <;> trivial
  obtain ⟨s, hs⟩ := addAll_ok_any_store k hp exEnv _ _ _ exContract exXs exXs_ok
    (fun x _ _ => exEnv_index32 _)
  exact ⟨s, hs, fun q h0 h1 =>
    quantile_accuracy_any_store k hp exEnv _ _ _ exContract exXs exXs_ok
      (fun x _ _ => exEnv_index32 _) (by simp [exXs]) (by simp [exXs]) s hs q h0 h1⟩

/-- the tree of `C02` with a dense, a paginated and a sparse leaf -/
def demoKTree : KTree :=
  .node (.leaf .dense [(5, 2), (0, 1)])
    (.node (.leaf .pag [(-3, 1)]) (.leaf .sparse [(7, 3), (1 / 2000, 2), (5, 1)]))

theorem demoKTree_flat : demoKTree.flat = C02.demoTree.flat := rfl

theorem demo_index32 : ∀ p ∈ demoKTree.flat, (1 / 1000 : Rat) < rabs p.1 →
    I32 (C02.demoEnv.index (.fin (rabs p.1))) := by
  intro p hp _
  simp only [demoKTree_flat, C02.demoTree, C02.MergeTree.flat, List.cons_append, List.nil_append,
    List.mem_cons, List.not_mem_nil, or_false] at hp
  rcases hp with rfl | rfl | rfl | rfl | rfl | rfl <;> decide +kernel

/-- `merge_tree_any_stores`: dense ⊕ (paginated ⊕ sparse) observes like the flat spec sketch -/
example : ∃ s s₀ cp cn, demoKTree.eval C02.demoEnv = some s ∧
    Sketch.addAll C02.demoEnv (Sketch.new (some C02.demoEnv.id) .sparse) demoKTree.flat = some s₀ ∧
    s₀ = Sketch.spec (some C02.demoEnv.id) cp cn s.zero ∧ s.Refines cp cn ∧
    s.getCount = s₀.getCount ∧ s.forEachList C02.demoEnv = s₀.forEachList C02.demoEnv ∧
    s.getMin C02.demoEnv = s₀.getMin C02.demoEnv ∧ s.getMax C02.demoEnv = s₀.getMax C02.demoEnv := by
  obtain ⟨s, s₀, cp, cn, a1, a2, a3, _, a5, a6, _, a8, _, a10, a11, _⟩ :=
    merge_tree_any_stores C02.demoEnv (1 / 1000) 1000 rfl rfl (by norm_num) C02.demo_refl demoKTree
      ⟨trivial, trivial, trivial⟩ C02.demo_acc C02.demo_exact demo_index32
  exact ⟨s, s₀, cp, cn, a1, a2, a3, a5, a6, a8, a10, a11⟩

/-- `collapsing_sketch_contents` / `collapsing_quantile_retained`: `exXs` into lowest-collapsing
    stores with ONE bin (on the positive side the bin 0 of the value 3 is folded into bin 1) -/
example : ∃ s s₀ cp cn,
    Sketch.addAll exEnv (Sketch.new (some exEnv.id) (.low 1)) (exXs.map (fun x => (x, 1))) = some s ∧
    Sketch.addAll exEnv (Sketch.new (some exEnv.id) .sparse) (exXs.map (fun x => (x, 1))) = some s₀ ∧
    s₀ = Sketch.spec (some exEnv.id) cp cn s.zero ∧
    contentOf s.pos = Content.specLow 1 cp ∧ contentOf s.neg = Content.specLow 1 cn ∧
    ∀ q : F64,
      (∀ side k, selKey s₀ q = some (side, k) → edgeLow 1 (if side then cp else cn) ≤ k) →
      s.quantile exEnv q = s₀.quantile exEnv q :=
  collapsing_quantile_retained 1 (by omega) exEnv _ _ _ exContract exXs exXs_ok
    (fun x _ _ => exEnv_index32 _) (by simp [exXs]) (by simp [exXs])

example : ∃ s s₀ cp cn,
    Sketch.addAll exEnv (Sketch.new (some exEnv.id) (.high 1)) (exXs.map (fun x => (x, 1))) = some s ∧
    Sketch.addAll exEnv (Sketch.new (some exEnv.id) .sparse) (exXs.map (fun x => (x, 1))) = some s₀ ∧
    s₀ = Sketch.spec (some exEnv.id) cp cn s.zero ∧
    contentOf s.pos = Content.specHigh 1 cp ∧ contentOf s.neg = Content.specHigh 1 cn := by
  obtain ⟨s, s₀, cp, cn, a1, a2, a3, _, _, _, _, _, a9, a10, _⟩ :=
    collapsing_sketch_contents (.high 1) (by decide) exEnv _ _ _ exContract exXs exXs_ok
      (fun x _ _ => exEnv_index32 _)
  exact ⟨s, s₀, cp, cn, a1, a2, a3, a9, a10⟩

/-- `keyAtRank_specLow`: three unit bins 1, 3, 5 collapsed to two bins (edge 4): rank 0 (exact
    answer 1, below the edge) now answers the edge 4; rank 2 keeps its answer 5 -/
example : (Content.specLow 2 [(1, 1), (3, 1), (5, 1)]).keyAtRank 0 = 4 ∧
    (Content.specLow 2 [(1, 1), (3, 1), (5, 1)]).keyAtRank 2 = 5 := by
  have wf : Content.WF [((1 : Int), (1 : Rat)), (3, 1), (5, 1)] := by simp [Content.wf_cons]
  rw [keyAtRank_specLow 2 (by omega) _ wf 5 rfl, keyAtRank_specLow 2 (by omega) _ wf 5 rfl]
  decide +kernel

end examples

end DDS.Props.Lift
