/-
  DDS.Props.C20Gen — the C20 property theorems ("the in-memory dataset helper computes exact order
  statistics", `DDS/Props/C20.lean`) restated on the REGENERATED code
  `DDS/Generated/CodeDataset.lean` (translated from `/repo/dataset/dataset.go` on every run).

  Every theorem is the model theorem of the same name transported along the equivalence of
  `DDS/Proofs/GenDataset.lean` (`toGen`, `lowerQuantile_eq`, …), with the SAME hypotheses, stated
  about the model dataset `d` that the generated dataset `toGen d` stores (values `F64.fin v`);
  `GenDataset.forall_gen` turns any of them into a statement about every generated dataset with
  finite values (see `gen_quantile_never_panics_allFin` for the pattern).  `fuel` is arbitrary in
  every statement.

  A query of the generated code returns `Res (Dataset × F64)`: `.ok (g, x)` is "returned `x`, the
  receiver is now `g`", `.panic` is the Go run-time panic.  `Dataset.sort (toGen d)` is the receiver
  after the in-place sort.
-/
import DDS.Proofs.GenDataset
import DDS.Props.C20

namespace DDS.Props.C20Gen

open DDS DDS.GoSem DDS.Dataset DDS.GenDataset

/-- `Add(x)` for every `x` of `xs`, in order, on a fresh generated dataset -/
def genOfList (xs : List Rat) : GD :=
  xs.foldl (fun g v => Gen.Dataset.Dataset.Add g (.fin v)) Gen.Dataset.NewDataset

theorem genOfList_eq (xs : List Rat) : genOfList xs = toGen (ofList xs) := by
  unfold genOfList ofList
  rw [new_eq, foldl_add_eq]

/-- an accepted query sorts the receiver -/
theorem toGen_lower_fst (d : Dataset) (h : Inv d) (hn : 0 < d.values.length) (q : Rat)
    (hq0 : 0 ≤ q) (hq1 : q ≤ 1) :
    toGen (d.lowerQuantile (.fin q)).1 = Gen.Dataset.Dataset.sort (toGen d) := by
  rw [lowerQuantile_fst d _ (C20.quantile_accepts d h hn q hq0 hq1), sort_eq]

theorem toGen_upper_fst (d : Dataset) (h : Inv d) (hn : 0 < d.values.length) (q : Rat)
    (hq0 : 0 ≤ q) (hq1 : q ≤ 1) :
    toGen (d.upperQuantile (.fin q)).1 = Gen.Dataset.Dataset.sort (toGen d) := by
  rw [upperQuantile_fst d _ (C20.quantile_accepts d h hn q hq0 hq1), sort_eq]

/-! ### quantiles -/

/-- generated `LowerQuantile(q)` returns the element of rank `k` of the ascending values, `k` the
    floor or (when the float product rounds up to an integer) the ceiling of `q·(n−1)`, and leaves
    the receiver sorted -/
theorem gen_lowerQuantile_spec (fuel : Nat) (d : Dataset) (h : Inv d) (hn : 0 < d.values.length)
    (hlen : d.values.length ≤ 2 ^ 53) (q : Rat) (hq0 : 0 ≤ q) (hq1 : q ≤ 1) :
    ∃ k : Nat, k < d.values.length ∧
      Gen.Dataset.Dataset.LowerQuantile fuel (toGen d) (.fin q) =
        .ok (Gen.Dataset.Dataset.sort (toGen d),
             .fin ((d.values.mergeSort (fun a b => decide (a ≤ b)))[k]!)) ∧
      ((k : Int) = ⌊q * ((d.values.length : Rat) - 1)⌋ ∨
       (k : Int) = ⌈q * ((d.values.length : Rat) - 1)⌉) := by
  obtain ⟨k, hk, hv, hr⟩ := C20.lowerQuantile_spec d h hn hlen q hq0 hq1
  refine ⟨k, hk, ?_, hr⟩
  rw [lowerQuantile_eq, qres_val hv, toGen_lower_fst d h hn q hq0 hq1]

theorem gen_upperQuantile_spec (fuel : Nat) (d : Dataset) (h : Inv d) (hn : 0 < d.values.length)
    (hlen : d.values.length ≤ 2 ^ 53) (q : Rat) (hq0 : 0 ≤ q) (hq1 : q ≤ 1) :
    ∃ k : Nat, k < d.values.length ∧
      Gen.Dataset.Dataset.UpperQuantile fuel (toGen d) (.fin q) =
        .ok (Gen.Dataset.Dataset.sort (toGen d),
             .fin ((d.values.mergeSort (fun a b => decide (a ≤ b)))[k]!)) ∧
      ((k : Int) = ⌊q * ((d.values.length : Rat) - 1)⌋ ∨
       (k : Int) = ⌈q * ((d.values.length : Rat) - 1)⌉) := by
  obtain ⟨k, hk, hv, hr⟩ := C20.upperQuantile_spec d h hn hlen q hq0 hq1
  refine ⟨k, hk, ?_, hr⟩
  rw [upperQuantile_eq, qres_val hv, toGen_upper_fst d h hn q hq0 hq1]

/-- `Quantile` is `LowerQuantile` in the generated code too -/
theorem gen_quantile_spec (fuel : Nat) (d : Dataset) (h : Inv d) (hn : 0 < d.values.length)
    (hlen : d.values.length ≤ 2 ^ 53) (q : Rat) (hq0 : 0 ≤ q) (hq1 : q ≤ 1) :
    ∃ k : Nat, k < d.values.length ∧
      Gen.Dataset.Dataset.Quantile fuel (toGen d) (.fin q) =
        .ok (Gen.Dataset.Dataset.sort (toGen d),
             .fin ((d.values.mergeSort (fun a b => decide (a ≤ b)))[k]!)) ∧
      ((k : Int) = ⌊q * ((d.values.length : Rat) - 1)⌋ ∨
       (k : Int) = ⌈q * ((d.values.length : Rat) - 1)⌉) := by
  rw [quantile_eq_lower]; exact gen_lowerQuantile_spec fuel d h hn hlen q hq0 hq1

/-- the exact version: `k = ⌊fl⌋`, `fl` the float product `q ⊗ (n − 1)` -/
theorem gen_lowerQuantile_spec_exact (fuel : Nat) (d : Dataset) (h : Inv d) (hn : 0 < d.values.length)
    (hlen : d.values.length ≤ 2 ^ 53) (q : Rat) (hq0 : 0 ≤ q) (hq1 : q ≤ 1) :
    ∃ fl : Rat, F64.mul (.fin q) (.fin ((d.values.length : Rat) - 1)) = .fin fl ∧
      ((⌊q * ((d.values.length : Rat) - 1)⌋ : Int) : Rat) ≤ fl ∧
      fl ≤ ((⌈q * ((d.values.length : Rat) - 1)⌉ : Int) : Rat) ∧
      0 ≤ ⌊fl⌋ ∧ ⌊fl⌋.toNat < d.values.length ∧
      Gen.Dataset.Dataset.LowerQuantile fuel (toGen d) (.fin q) =
        .ok (Gen.Dataset.Dataset.sort (toGen d),
             .fin ((d.values.mergeSort (fun a b => decide (a ≤ b)))[⌊fl⌋.toNat]!)) := by
  obtain ⟨fl, h1, h2, h3, h4, h5, h6⟩ := C20.lowerQuantile_spec_exact d h hn hlen q hq0 hq1
  refine ⟨fl, h1, h2, h3, h4, h5, ?_⟩
  rw [lowerQuantile_eq, h6, sort_eq]; rfl

theorem gen_upperQuantile_spec_exact (fuel : Nat) (d : Dataset) (h : Inv d) (hn : 0 < d.values.length)
    (hlen : d.values.length ≤ 2 ^ 53) (q : Rat) (hq0 : 0 ≤ q) (hq1 : q ≤ 1) :
    ∃ fl : Rat, F64.mul (.fin q) (.fin ((d.values.length : Rat) - 1)) = .fin fl ∧
      ((⌊q * ((d.values.length : Rat) - 1)⌋ : Int) : Rat) ≤ fl ∧
      fl ≤ ((⌈q * ((d.values.length : Rat) - 1)⌉ : Int) : Rat) ∧
      0 ≤ ⌈fl⌉ ∧ ⌈fl⌉.toNat < d.values.length ∧
      Gen.Dataset.Dataset.UpperQuantile fuel (toGen d) (.fin q) =
        .ok (Gen.Dataset.Dataset.sort (toGen d),
             .fin ((d.values.mergeSort (fun a b => decide (a ≤ b)))[⌈fl⌉.toNat]!)) := by
  obtain ⟨fl, h1, h2, h3, h4, h5, h6⟩ := C20.upperQuantile_spec_exact d h hn hlen q hq0 hq1
  refine ⟨fl, h1, h2, h3, h4, h5, ?_⟩
  rw [upperQuantile_eq, h6, sort_eq]; rfl

/-- the lower quantile is at most the upper quantile -/
theorem gen_lower_le_upper (fuel : Nat) (d : Dataset) (h : Inv d) (hn : 0 < d.values.length)
    (hlen : d.values.length ≤ 2 ^ 53) (q : Rat) (hq0 : 0 ≤ q) (hq1 : q ≤ 1) :
    ∃ a b : Rat,
      Gen.Dataset.Dataset.LowerQuantile fuel (toGen d) (.fin q) =
        .ok (Gen.Dataset.Dataset.sort (toGen d), .fin a) ∧
      Gen.Dataset.Dataset.UpperQuantile fuel (toGen d) (.fin q) =
        .ok (Gen.Dataset.Dataset.sort (toGen d), .fin b) ∧
      a ≤ b := by
  obtain ⟨a, b, ha, hb, hab⟩ := C20.lower_le_upper d h hn hlen q hq0 hq1
  refine ⟨a, b, ?_, ?_, hab⟩
  · rw [lowerQuantile_eq, qres_val ha, toGen_lower_fst d h hn q hq0 hq1]
  · rw [upperQuantile_eq, qres_val hb, toGen_upper_fst d h hn q hq0 hq1]

/-- no quantile query of the generated code panics (or runs out of fuel), whatever `q` is -/
theorem gen_quantile_never_panics (fuel : Nat) (d : Dataset) (h : Inv d)
    (hlen : d.values.length ≤ 2 ^ 53) (q : F64) :
    Gen.Dataset.Dataset.LowerQuantile fuel (toGen d) q ≠ .panic ∧
    Gen.Dataset.Dataset.UpperQuantile fuel (toGen d) q ≠ .panic ∧
    Gen.Dataset.Dataset.Quantile fuel (toGen d) q ≠ .panic ∧
    Gen.Dataset.Dataset.LowerQuantile fuel (toGen d) q ≠ .nofuel ∧
    Gen.Dataset.Dataset.UpperQuantile fuel (toGen d) q ≠ .nofuel ∧
    Gen.Dataset.Dataset.Quantile fuel (toGen d) q ≠ .nofuel := by
  obtain ⟨h1, h2⟩ := C20.quantile_never_panics d h hlen q
  rw [quantile_eq_lower, lowerQuantile_eq, upperQuantile_eq]
  exact ⟨fun e => h1 ((qres_eq_panic_iff _).mp e), fun e => h2 ((qres_eq_panic_iff _).mp e),
    fun e => h1 ((qres_eq_panic_iff _).mp e), qres_ne_nofuel _, qres_ne_nofuel _, qres_ne_nofuel _⟩

/-- the same about an arbitrary generated dataset with finite values: the pattern that turns every
    theorem of this file into one that does not mention `toGen` -/
theorem gen_quantile_never_panics_allFin (fuel : Nat) (g : GD) (hg : AllFin g) (h : Inv (ofGen g))
    (hlen : g.Values.length ≤ 2 ^ 53) (q : F64) :
    Gen.Dataset.Dataset.LowerQuantile fuel g q ≠ .panic ∧
    Gen.Dataset.Dataset.UpperQuantile fuel g q ≠ .panic := by
  have := gen_quantile_never_panics fuel (ofGen g) h (by simpa [ofGen] using hlen) q
  rw [toGen_ofGen g hg] at this
  exact ⟨this.1, this.2.1⟩

/-- the length bound is needed on the generated code as well: `Inv` alone does not exclude the
    panic -/
theorem gen_inv_alone_does_not_prevent_panic (fuel : Nat) :
    ∃ d : Dataset, Inv d ∧ Gen.Dataset.Dataset.LowerQuantile fuel (toGen d) (.fin 1) = .panic := by
  obtain ⟨d, hd, hp⟩ := C20.inv_alone_does_not_prevent_panic
  exact ⟨d, hd, by rw [lowerQuantile_eq, qres_panic hp]⟩

/-- the guard: NaN, negative, above one, or `Count == 0`: the answer is NaN and the receiver is not
    touched — for EVERY generated dataset (no finiteness hypothesis) -/
theorem gen_quantile_rejects (fuel : Nat) (g : GD) (q : F64)
    (h : q.isNaN = true ∨ F64.lt q (.fin 0) = true ∨ F64.gt q (.fin 1) = true ∨
      F64.eq g.Count (.fin 0) = true) :
    Gen.Dataset.Dataset.LowerQuantile fuel g q = .ok (g, .nan) ∧
    Gen.Dataset.Dataset.UpperQuantile fuel g q = .ok (g, .nan) ∧
    Gen.Dataset.Dataset.Quantile fuel g q = .ok (g, .nan) := by
  have hc : ((((F64.lt q (F64.fin (0 : Rat))) || (F64.lt (F64.fin (1 : Rat)) q)) || (F64.isNaN q)) ||
      (F64.eq g.Count (F64.fin (0 : Rat)))) = true := by
    unfold F64.gt at h
    rcases h with h | h | h | h <;> simp [h]
  have hl : Gen.Dataset.Dataset.LowerQuantile fuel g q = .ok (g, .nan) := by
    unfold Gen.Dataset.Dataset.LowerQuantile; rw [if_pos hc]
  refine ⟨hl, ?_, by rw [quantile_eq_lower, hl]⟩
  unfold Gen.Dataset.Dataset.UpperQuantile; rw [if_pos hc]

/-- the same as a corollary of the model theorem, on the domain -/
theorem gen_quantile_rejects_model (fuel : Nat) (d : Dataset) (q : F64)
    (h : q.isNaN = true ∨ F64.lt q (.fin 0) = true ∨ F64.gt q (.fin 1) = true ∨
      F64.eq d.count (.fin 0) = true) :
    Gen.Dataset.Dataset.LowerQuantile fuel (toGen d) q = .ok (toGen d, .nan) ∧
    Gen.Dataset.Dataset.UpperQuantile fuel (toGen d) q = .ok (toGen d, .nan) := by
  obtain ⟨h1, h2⟩ := C20.quantile_rejects d q h
  rw [lowerQuantile_eq, upperQuantile_eq, h1, h2]
  exact ⟨rfl, rfl⟩

theorem gen_quantile_rejects_empty (fuel : Nat) (d : Dataset) (h : Inv d) (he : d.values = []) (q : F64) :
    Gen.Dataset.Dataset.LowerQuantile fuel (toGen d) q = .ok (toGen d, .nan) ∧
    Gen.Dataset.Dataset.UpperQuantile fuel (toGen d) q = .ok (toGen d, .nan) := by
  obtain ⟨h1, h2⟩ := C20.quantile_rejects_empty d h he q
  rw [lowerQuantile_eq, upperQuantile_eq, h1, h2]
  exact ⟨rfl, rfl⟩

/-- the `or the ceiling` disjunct is needed on the generated code too: q = fl(1/3), four values -/
theorem gen_lower_rank_can_round_up (fuel : Nat) :
    let q : Rat := 6004799503160661 / 18014398509481984
    let d := ofList [3, -1, 2, 7]
    ⌊q * ((d.values.length : Rat) - 1)⌋ = 0 ∧
      ans (Gen.Dataset.Dataset.LowerQuantile fuel (genOfList [3, -1, 2, 7]) (.fin q)) = .ok (.fin 2) := by
  intro q d
  obtain ⟨_, h2, _, h4⟩ := C20.lower_rank_can_round_up
  refine ⟨h2, ?_⟩
  rw [genOfList_eq, lowerQuantile_eq, ans_qres, h4]; rfl

/-! ### minimum, maximum, count -/

theorem gen_min_spec (fuel : Nat) (d : Dataset) (h : Inv d) (hn : 0 < d.values.length) :
    ∃ m, Gen.Dataset.Dataset.Min fuel (toGen d) = .ok (Gen.Dataset.Dataset.sort (toGen d), .fin m) ∧
      m ∈ d.values ∧ ∀ x ∈ d.values, m ≤ x := by
  obtain ⟨m, h1, h2, h3⟩ := C20.min_spec d h hn
  refine ⟨m, ?_, h2, h3⟩
  rw [GenDataset.min_eq, qres_val h1, sort_eq]; rfl

theorem gen_max_spec (fuel : Nat) (d : Dataset) (h : Inv d) (hn : 0 < d.values.length) :
    ∃ m, Gen.Dataset.Dataset.Max fuel (toGen d) = .ok (Gen.Dataset.Dataset.sort (toGen d), .fin m) ∧
      m ∈ d.values ∧ ∀ x ∈ d.values, x ≤ m := by
  obtain ⟨m, h1, h2, h3⟩ := C20.max_spec d h hn
  refine ⟨m, ?_, h2, h3⟩
  rw [GenDataset.max_eq, qres_val h1, sort_eq]; rfl

/-- `Min()` / `Max()` of an empty dataset panic in the generated code (index out of range) -/
theorem gen_min_max_empty_panic (fuel : Nat) (d : Dataset) (he : d.values = []) :
    Gen.Dataset.Dataset.Min fuel (toGen d) = .panic ∧ Gen.Dataset.Dataset.Max fuel (toGen d) = .panic := by
  obtain ⟨h1, h2⟩ := C20.min_max_empty_panic d he
  rw [GenDataset.min_eq, GenDataset.max_eq, qres_panic h1, qres_panic h2]
  exact ⟨rfl, rfl⟩

theorem gen_count_spec (xs : List Rat) (h : xs.length ≤ 2 ^ 53) :
    (genOfList xs).Count = .fin (xs.length : Rat) ∧ (genOfList xs).Values = xs.map F64.fin := by
  obtain ⟨h1, h2⟩ := C20.count_spec xs h
  rw [genOfList_eq, toGen_Count, toGen_Values, h1, h2]
  exact ⟨rfl, rfl⟩

/-- the generated `sort()` permutes the values, leaves them ascending, keeps `Count` -/
theorem gen_sort_perm (d : Dataset) (h : d.sorted = true → d.values.Pairwise (· ≤ ·)) :
    ∃ s : List Rat, (Gen.Dataset.Dataset.sort (toGen d)).Values = s.map F64.fin ∧
      s.Perm d.values ∧ s.Pairwise (· ≤ ·) ∧
      (Gen.Dataset.Dataset.sort (toGen d)).Count = d.count ∧
      (Gen.Dataset.Dataset.sort (toGen d)).sorted = true := by
  obtain ⟨h1, h2, h3, h4⟩ := C20.sort_perm d h
  exact ⟨d.sort.values, by rw [sort_eq]; rfl, h1, h2, by rw [sort_eq]; exact h3,
    by rw [sort_eq]; exact h4⟩

/-! ### merging -/

theorem gen_merge_eq_adds (fuel : Nat) (d o : Dataset) :
    Gen.Dataset.Dataset.Merge fuel (toGen d) (toGen o) =
      .ok (o.values.foldl (fun g v => Gen.Dataset.Dataset.Add g (.fin v)) (toGen d)) ∧
    (∃ g, Gen.Dataset.Dataset.Merge fuel (toGen d) (toGen o) = .ok g ∧
      g.Values = (toGen d).Values ++ (toGen o).Values) ∧
    (∃ g, Gen.Dataset.Dataset.Merge fuel (toGen d) (toGen d) = .ok g ∧
      g.Values = (toGen d).Values ++ (toGen d).Values ∧
      (Inv d → 2 * d.values.length ≤ 2 ^ 53 →
        g.Count = .fin ((2 * d.values.length : Nat) : Rat))) := by
  obtain ⟨h1, h2, h3, h4⟩ := C20.merge_eq_adds d o
  refine ⟨?_, ⟨_, merge_eq fuel d o, ?_⟩, ⟨_, merge_eq fuel d d, ?_, ?_⟩⟩
  · rw [merge_eq, foldl_add_eq]; rfl
  · simp only [toGen_Values, h2, List.map_append]
  · simp only [toGen_Values, h3, List.map_append]
  · obtain ⟨_, _, _, h4'⟩ := C20.merge_eq_adds d d
    exact h4'

/-- for every pair of generated datasets (finite or not): `Merge` is the fold of `Add` -/
theorem gen_merge_foldl (fuel : Nat) (g o : GD) :
    Gen.Dataset.Dataset.Merge fuel g o = .ok (o.Values.foldl Gen.Dataset.Dataset.Add g) :=
  merge_foldl fuel g o

/-! ### order independence -/

/-- the answers of the generated code depend on the multiset of added values only -/
theorem gen_order_independent (fuel : Nat) (xs ys : List Rat) (h : xs.Perm ys) (q : F64) :
    ans (Gen.Dataset.Dataset.LowerQuantile fuel (genOfList xs) q) =
      ans (Gen.Dataset.Dataset.LowerQuantile fuel (genOfList ys) q) ∧
    ans (Gen.Dataset.Dataset.UpperQuantile fuel (genOfList xs) q) =
      ans (Gen.Dataset.Dataset.UpperQuantile fuel (genOfList ys) q) ∧
    ans (Gen.Dataset.Dataset.Min fuel (genOfList xs)) = ans (Gen.Dataset.Dataset.Min fuel (genOfList ys)) ∧
    ans (Gen.Dataset.Dataset.Max fuel (genOfList xs)) = ans (Gen.Dataset.Dataset.Max fuel (genOfList ys)) ∧
    (genOfList xs).Count = (genOfList ys).Count := by
  obtain ⟨h1, h2, h3, h4, h5⟩ := C20.order_independent xs ys h q
  simp only [genOfList_eq, lowerQuantile_eq, upperQuantile_eq, GenDataset.min_eq, GenDataset.max_eq, ans_qres, toGen_Count,
    h1, h2, h3, h4, h5, and_self]

/-- the sorted receiver left behind is the same too -/
theorem gen_order_independent_sort (xs ys : List Rat) (h : xs.Perm ys) :
    Gen.Dataset.Dataset.sort (genOfList xs) = Gen.Dataset.Dataset.sort (genOfList ys) := by
  rw [genOfList_eq, genOfList_eq, sort_eq, sort_eq, (obsEq_ofList h).sort_eq]

/-- `Sum()` of the generated code is NOT order independent (Kahan fold in insertion order) -/
theorem gen_sum_is_order_dependent (fuel : Nat) :
    Gen.Dataset.Dataset.Sum fuel (genOfList [2 ^ 54, 1, -2 ^ 54]) = .ok (.fin 0) ∧
    Gen.Dataset.Dataset.Sum fuel (genOfList [2 ^ 54, -2 ^ 54, 1]) = .ok (.fin 1) ∧
      List.Perm [(2 : Rat) ^ 54, 1, -2 ^ 54] [2 ^ 54, -2 ^ 54, 1] := by
  obtain ⟨h1, h2, h3⟩ := C20.sum_is_order_dependent
  rw [genOfList_eq, genOfList_eq, sum_eq, sum_eq, h1, h2]
  exact ⟨rfl, rfl, h3⟩

/-! ### on the running example of `C20` -/

example (fuel : Nat) (q : F64) :
    Gen.Dataset.Dataset.LowerQuantile fuel (genOfList [3, -1, 2, 2, 7]) q ≠ .panic := by
  rw [genOfList_eq]
  exact (gen_quantile_never_panics fuel _ C20.ex_inv (by rw [C20.ex_len]; decide) q).1

example (fuel : Nat) :
    ans (Gen.Dataset.Dataset.LowerQuantile fuel (genOfList [3, -1, 2, 2, 7]) (.fin (1/2))) = .ok (.fin 2) := by
  have h : (C20.ex.lowerQuantile (.fin (1/2))).2 = .val 2 :=
    lowerQuantile_eval C20.ex C20.ex_inv.2 [-1, 2, 2, 3, 7] (by decide)
      (by rw [C20.ex_values]; decide) _ 2 2 (by decide +kernel) (by decide +kernel) (by decide +kernel)
  rw [genOfList_eq, lowerQuantile_eq, ans_qres]
  show qans (C20.ex.lowerQuantile _).2 = _
  rw [h]; rfl

end DDS.Props.C20Gen
