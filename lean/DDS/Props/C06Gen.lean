/-
  DDS.Props.C06Gen — the store-level statements of C06 ("what the encoder writes denotes the store's
  content") restated on the REGENERATED encoder `DDS.Gen.Dense.DenseStore.Encode`
  (`DDS/Generated/CodeDense.lean`, translated from `/repo/ddsketch/store/dense_store.go` on every run).

  `DDS.Proofs.GenDenseEncode.Encode_rel'` says the regenerated encoder appends exactly the bytes of the
  blocks of the hand-written `Sketch.encodeDense`; `DDS.Props.C06.encodeStore_dense_denotes` /
  `encodeStore_collapsing_denotes` say what those blocks denote.  Combined: for a store satisfying the
  invariant of its kind, holding int32 indexes and weights that survive the varfloat transform, the
  bytes that the regenerated `Encode` appends to ANY prefix `b`
    * are parsed by the documentation-based parser `Wire.parseBlocks` into a block list `bl`,
    * every block of `bl` is well formed with finite weights, and
    * `bl` denotes, on the side of the flag type, the content `c` of the store (`c.lookup = wt s`,
      `s.binsList = some c`) — whichever of the two layouts the encoder chose.
  The same hypotheses as the model theorems, plus the fuel bound `encodeFuel s ≤ fuel`
  (`= (maxIndex - minIndex + 1).toNat + 10`).  The `int64` range hypothesis of `Encode_rel'` is
  discharged from the int32 bounds (`encRange_of_denseOK`).
-/
import DDS.Proofs.GenDenseEncode
import DDS.Props.C06

namespace DDS.Props.C06Gen

open DDS DDS.GoSem DDS.Gen.Encoding DDS.GenEncoding DDS.GenDense DDS.GenDenseEncode DDS.RoundTrip

/-- the model's store-level encoder on a dense store is `encodeDense` -/
theorem encodeDense_of_encodeStore (s : DStore) (side : Side) (st : Store) (bl : List Block)
    (h : Sketch.encodeStore (.d s) side = some (st, bl)) : Sketch.encodeDense s side = some bl := by
  simp only [Sketch.encodeStore] at h
  cases he : Sketch.encodeDense s side with
  | none => rw [he] at h; cases h
  | some bl' =>
    rw [he] at h
    simp only [Option.map_some, Option.some.injEq, Prod.mk.injEq] at h
    rw [h.2]

/-- what the model theorems assume of a dense store puts the window in the `int64` range -/
theorem encRange_of_denseOK (s : DStore) (hd : DenseOK s) : s.isEmpty = false → EncRange s := by
  intro hne
  have h0 : s.count ≠ 0 := by
    intro h0
    rw [(DStore.isEmpty_iff_count s).2 h0] at hne
    cases hne
  obtain ⟨⟨a1, a2⟩, ⟨b1, b2⟩⟩ := hd.range h0
  simp only [minInt32, maxInt32] at a1 a2 b1 b2
  exact ⟨by omega, by omega, by omega⟩

/-- the general form: any dense store meeting `DenseOK` -/
theorem Encode_denotes_of_denseOK (s : DStore) (hd : DenseOK s) (side : Side) (t : FlagType)
    (ht : t.byte.toNat = Wire.sideType side) (b : List (BitVec 8)) (fuel : Nat)
    (hf : encodeFuel s ≤ fuel) :
    ∃ (out : List (BitVec 8)) (bl : List Block) (c : Content),
      Gen.Dense.DenseStore.Encode fuel (toGen s) b t = .ok (b ++ out) ∧
      nb out = Wire.encBlocks bl ∧
      Wire.parseBlocks (nb out) = .ok bl ∧
      (∀ x ∈ bl, x.WF ∧ x.FiniteWeights) ∧
      c.WF ∧ (∀ j, c.lookup j = DStore.wt s j) ∧ s.binsList = some c ∧
      Wire.contentOf (sideBins (Wire.interp bl) side) = some c := by
  obtain ⟨e1, e2, e3⟩ := hd.content_spec
  obtain ⟨bl, h1, h2, h3⟩ := RoundTrip.encodeDense_denotes s hd _ e3 side
  have hbl := encodeDense_of_encodeStore s side _ bl h1
  obtain ⟨out, ho, hn⟩ := Encode_nb fuel s side t ht b (encRange_of_denseOK s hd) hf bl hbl
  refine ⟨out, bl, _, ho, hn, ?_, fun x hx => ⟨(h2 x hx).1, (h2 x hx).2.1⟩, e2, e3, e1,
    h3.contentOf e2⟩
  rw [hn]
  exact Wire.parseBlocks_encBlocks bl (fun x hx => (h2 x hx).1)

/-- **C06 on the regenerated code, plain dense store** (both layouts): the bytes `Encode` appends parse
    into well-formed blocks that denote the store's content -/
theorem Encode_dense_denotes (s : DStore) (h : DStore.Inv s) (hb : DStore.Bounded32 s)
    (hw : ∀ j, WOK (DStore.wt s j)) (side : Side) (t : FlagType)
    (ht : t.byte.toNat = Wire.sideType side) (b : List (BitVec 8)) (fuel : Nat)
    (hf : encodeFuel s ≤ fuel) :
    ∃ (out : List (BitVec 8)) (bl : List Block) (c : Content),
      Gen.Dense.DenseStore.Encode fuel (toGen s) b t = .ok (b ++ out) ∧
      nb out = Wire.encBlocks bl ∧
      Wire.parseBlocks (nb out) = .ok bl ∧
      (∀ x ∈ bl, x.WF ∧ x.FiniteWeights) ∧
      c.WF ∧ (∀ j, c.lookup j = DStore.wt s j) ∧ s.binsList = some c ∧
      Wire.contentOf (sideBins (Wire.interp bl) side) = some c :=
  Encode_denotes_of_denseOK s (RoundTrip.denseOK_of_inv s h hb hw) side t ht b fuel hf

/-- **C06 on the regenerated code, collapsing dense stores**: `Encode` of the embedded `DenseStore`
    of a `.low N` / `.high N` store -/
theorem Encode_collapsing_denotes (s : DStore) (N : Nat)
    (h : DStore.InvLow N s ∨ DStore.InvHigh N s) (htt : DStore.Tight32 s)
    (hw : ∀ j, WOK (DStore.wt s j)) (side : Side) (t : FlagType)
    (ht : t.byte.toNat = Wire.sideType side) (b : List (BitVec 8)) (fuel : Nat)
    (hf : encodeFuel s ≤ fuel) :
    ∃ (out : List (BitVec 8)) (bl : List Block) (c : Content),
      Gen.Dense.DenseStore.Encode fuel (toGen s) b t = .ok (b ++ out) ∧
      nb out = Wire.encBlocks bl ∧
      Wire.parseBlocks (nb out) = .ok bl ∧
      (∀ x ∈ bl, x.WF ∧ x.FiniteWeights) ∧
      c.WF ∧ (∀ j, c.lookup j = DStore.wt s j) ∧ s.binsList = some c ∧
      Wire.contentOf (sideBins (Wire.interp bl) side) = some c :=
  Encode_denotes_of_denseOK s
    (h.elim (fun h => RoundTrip.denseOK_of_invLow N s h htt hw)
      (fun h => RoundTrip.denseOK_of_invHigh N s h htt hw)) side t ht b fuel hf

/-- in particular: under the invariant the regenerated encoder neither panics nor runs out of fuel,
    and it only appends (the prefix `b` is kept) -/
theorem Encode_dense_appends (s : DStore) (h : DStore.Inv s) (hb : DStore.Bounded32 s)
    (hw : ∀ j, WOK (DStore.wt s j)) (t : FlagType) (side : Side)
    (ht : t.byte.toNat = Wire.sideType side) (b : List (BitVec 8)) (fuel : Nat)
    (hf : encodeFuel s ≤ fuel) :
    ∃ out, Gen.Dense.DenseStore.Encode fuel (toGen s) b t = .ok (b ++ out) := by
  obtain ⟨out, _, _, ho, _⟩ := Encode_dense_denotes s h hb hw side t ht b fuel hf
  exact ⟨out, ho⟩

end DDS.Props.C06Gen
