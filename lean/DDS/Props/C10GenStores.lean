/-
  DDS.Props.C10GenStores — property C10 ("the summary statistics of `DDSketchWithExactSummaryStatistics` are exact
  whenever the float operations are; quantile answers are the plain sketch's, clamped into `[min, max]`") for the
  exact variant ENTIRELY ON REGENERATED CODE: the regenerated sketch (`DDS/Generated/CodeSketch.lean`), the
  regenerated `SummaryStatistics` (`CodeStat.lean`) and a REGENERATED STORE — buffered-paginated (every growth
  policy), dense, lowest/highest-collapsing, sparse (every lawful iteration order).  The mapping stays the model's
  oracle `MapEnv`, as in `C01GenPag`.

  The argument is written once, for any `T : StoreSim S Store` (`c10_transport`), by the chain
    regenerated store  --`GenStoreSimX.xrunAdds_paramG` / `x…_paramG`-->  regenerated sketch over MODEL stores
      --`model_xrunAdds` (from `GenSketch2.XAddWithCount_rel_nonzero`)-->  model `XSketch` (`xaddAll`)
      --`C10.xsketch_add_accepted`, `C10.fold_exact_eq`, `C10.fold_exact`-->  exact statistics,
  and the observers come back through `GenSketch2.XGetCount_eq`, `XGetSum_eq`, `XGetValueAtQuantile_rel`.

  What is TRANSPORTED (model theorem  ↦  conjunct of `C10Holds`):
    * `C10.fold_exact` (count, `Sum()`, min, max fields)      ↦  `GetCount = Σ w`, `GetSum = Σ v·w`,
        `GetMinValue` / `GetMaxValue` = `minOf` / `maxOf` (guarded by the emptiness test of the embedded sketch,
        which is the model sketch's `isEmpty`);  `C10.min_is_least` / `max_is_greatest` then apply verbatim to
        `minOf lr` / `maxOf lr` (`c10_min_is_least`, `c10_max_is_greatest`);
    * `GenSketch2.XGetValueAtQuantile_rel`                      ↦  `QRel (x.quantile env q) (GetValueAtQuantile … q)`;
    * `C10.xsketch_quantile_clamped` + `C10.exact_stats_ordered` ↦  every answered quantile lies in `[minOf, maxOf]`;
    * `C10.xsketch_quantile_error`                              ↦  a refusal of the plain model sketch is the Go
        refusal `(NaN, err)`;
    * `C10.xsketch_quantile_eq_plain` / "the plain sketch's answer clamped": stated on regenerated code alone,
        against the PLAIN regenerated sketch over the same regenerated stores and the same history
        (`GenSketch3.XGetValueAtQuantile_eq`, `GenStoreSimX.xrunAdds_sk`).
  Admissible history: `(value, weight)` pairs of rationals, weights `≠ 0`, `RepOK` (C10's exactness hypothesis),
  routed indexes admissible for the simulation (int32 for the paginated store, nothing for dense, int64 for
  sparse), and accepted by the model (`xaddAll … = some x`: no call refused, none outside the model).

  Independent of any simulation (ANY mapping, ANY store): `xhistory_stats_exact` — if every call of the history
  returned nil, the statistics ARE `genExactOf lr` (from `GenStoreSimX.xrunAdds_stats` and
  `C10Gen.gen_fold_exact_eq`): the statistics never read the stores.

  Zero weights are excluded (the exact variant skips them, and `GenSketch2.exact_addWithCount_zero_discrepancy`
  shows model and Go differ on the zero count of the embedded sketch for a non-float64 zero count).
  Core Lean only.
-/
import DDS.Proofs.GenStoreSimX
import DDS.Proofs.GenDenseSketch
import DDS.Proofs.GenSparseSketch
import DDS.Props.C10Gen

namespace DDS.Props.C10GenStores

open DDS DDS.GoSem DDS.Gen.Sketch DDS.Gen.Stat DDS.GenSketch DDS.GenStoreSim DDS.Summary
open DDS.GenPagSketch (runAdds Routed32 GPS)

/-- the history as float pairs -/
def fins (lr : List (Rat × Rat)) : List (F64 × F64) := lr.map (fun p => (F64.fin p.1, F64.fin p.2))

theorem addAllF_fins (s : Summary) (lr : List (Rat × Rat)) : addAllF s (fins lr) = addAll s lr := by
  unfold addAllF addAll fins
  rw [List.foldl_map]

theorem genAddAllF_fins (s : SummaryStatistics) (lr : List (Rat × Rat)) :
    GenStat.genAddAllF s (fins lr) = GenStat.genAddAll s lr := by
  unfold GenStat.genAddAllF GenStat.genAddAll fins
  rw [List.foldl_map]

theorem fins_nonzero (lr : List (Rat × Rat)) (hnz : ∀ p ∈ lr, p.2 ≠ 0) :
    ∀ q ∈ fins lr, F64.eq q.2 (.fin 0) = false := by
  intro q hq
  simp only [fins, List.mem_map] at hq
  obtain ⟨p, hp, rfl⟩ := hq
  simpa [F64.eq] using hnz p hp

/-! ### independent of the stores: the statistics of an accepted history -/

/-- ANY mapping, ANY store implementation: if every `AddWithCount` of the history returned nil, the statistics of
    the exact variant are THE exact summary of the history -/
theorem xhistory_stats_exact {M S : Type} [MapI M] [StoreI S] [Inhabited M] [Inhabited S]
    (g : DDSketchWithExactSummaryStatistics M S) (hg : g.summaryStatistics = NewSummaryStatistics)
    (lr : List (Rat × Rat)) (hrep : RepOK lr) (hnz : ∀ p ∈ lr, p.2 ≠ 0)
    (herr : (xrunAdds g (fins lr)).2 = List.replicate (fins lr).length GoErr.nil) :
    (xrunAdds g (fins lr)).1.summaryStatistics = C10Gen.genExactOf lr := by
  rw [xrunAdds_stats, herr, xabsorbed_all _ (fins_nonzero lr hnz), hg, genAddAllF_fins]
  exact C10Gen.gen_fold_exact_eq lr hrep

/-! ### the model's history, and the regenerated code over MODEL stores -/

/-- the model's history of `AddWithCount` calls on the exact variant (index as the Go code computes it): `none`
    as soon as a call is refused or leaves the model -/
def xaddAll (env : MapEnv) : XSketch → List (F64 × F64) → Option XSketch
  | x, [] => some x
  | x, (v, c) :: rest =>
    match x.addWithCount env v c (goIdx env v) with
    | some (.ok x') => xaddAll env x' rest
    | _ => none

/-- on the model-store instance the regenerated exact variant runs the model's history; the model's statistics
    are the fold of `Summary.add` -/
theorem model_xrunAdds (env : MapEnv) (l : List (F64 × F64)) (hnz : ∀ p ∈ l, F64.eq p.2 (.fin 0) = false) :
    ∀ (x0 x : XSketch), xaddAll env x0 l = some x →
      xrunAdds (toGenX env x0) l = (toGenX env x, List.replicate l.length GoErr.nil) ∧
        x.st = addAllF x0.st l := by
  induction l with
  | nil =>
    intro x0 x h
    simp only [xaddAll, Option.some.injEq] at h
    subst h
    exact ⟨rfl, rfl⟩
  | cons p rest ih =>
    intro x0 x h
    obtain ⟨v, c⟩ := p
    have hc := hnz (v, c) (List.mem_cons_self ..)
    have hrel := XAddWithCount_rel_nonzero env x0 v c hc
    cases hstep : x0.addWithCount env v c (goIdx env v) with
    | none => simp [xaddAll, hstep] at h
    | some r =>
      cases r with
      | error e => simp [xaddAll, hstep] at h
      | ok x1 =>
        simp only [xaddAll, hstep] at h
        have h1 : DDSketchWithExactSummaryStatistics.AddWithCount (toGenX env x0) v c =
            (toGenX env x1, GoErr.nil) := hrel.ok hstep
        obtain ⟨h2, h3⟩ := ih (fun q hq => hnz q (List.mem_cons_of_mem _ hq)) x1 x h
        have hst : x1.st = x0.st.add v c := C10.xsketch_add_accepted env x0 x1 v c _ hc hstep
        refine ⟨?_, ?_⟩
        · show ((xrunAdds (DDSketchWithExactSummaryStatistics.AddWithCount (toGenX env x0) v c).1 rest).1,
            (DDSketchWithExactSummaryStatistics.AddWithCount (toGenX env x0) v c).2 ::
              (xrunAdds (DDSketchWithExactSummaryStatistics.AddWithCount (toGenX env x0) v c).1 rest).2) = _
          rw [h1]
          simp only [h2, List.length_cons, List.replicate_succ]
        · rw [h3, hst]; rfl

/-- the empty exact-variant sketch over model stores is the model's `XSketch.new` -/
theorem newX_model (env : MapEnv) (k : StoreKind) :
    newX env (Store.new k) (Store.new k) = toGenX env (XSketch.new (some env.id) k) := by
  unfold newX toGenX XSketch.new
  congr 1

/-! ### the conclusion -/

/-- C10 for the history `lr` on the exact variant built over the stores `p`, `n` (model witness `x`) -/
def C10Holds {S : Type} [StoreI S] [Inhabited S] (env : MapEnv) (p n : S) (lr : List (Rat × Rat))
    (x : XSketch) : Prop :=
  let a := xrunAdds (newX env p n) (fins lr)
  -- no call is refused
  a.2 = List.replicate lr.length GoErr.nil ∧
  -- the statistics are the exact ones
  a.1.summaryStatistics = C10Gen.genExactOf lr ∧
  DDSketchWithExactSummaryStatistics.GetCount a.1 = .fin (cnt lr) ∧
  DDSketchWithExactSummaryStatistics.GetSum a.1 = .fin (tot lr) ∧
  DDSketchWithExactSummaryStatistics.GetMinValue a.1 =
    (if DDSketch.IsEmpty a.1.DDSketch then (F64.nan, errEmptySketch) else (minOf lr, GoErr.nil)) ∧
  DDSketchWithExactSummaryStatistics.GetMaxValue a.1 =
    (if DDSketch.IsEmpty a.1.DDSketch then (F64.nan, errEmptySketch) else (maxOf lr, GoErr.nil)) ∧
  DDSketch.IsEmpty a.1.DDSketch = x.sk.isEmpty ∧
  -- quantiles: the model's answer …
  (∀ q, QRel (x.quantile env q) (DDSketchWithExactSummaryStatistics.GetValueAtQuantile a.1 q)) ∧
  -- … every answered quantile lies within [min, max] …
  (lr ≠ [] → ∀ q v, DDSketchWithExactSummaryStatistics.GetValueAtQuantile a.1 q = (v, GoErr.nil) →
    F64.lt v (minOf lr) = false ∧ F64.lt (maxOf lr) v = false) ∧
  -- … a refusal of the plain model sketch is the Go refusal …
  (∀ q e, x.sk.quantile env q = .error e → ∃ g, goErr? e = some g ∧
    DDSketchWithExactSummaryStatistics.GetValueAtQuantile a.1 q = (F64.nan, g)) ∧
  -- … and the answer is the PLAIN regenerated sketch's (same stores, same history), clamped into [min, max]
  (∀ q, DDSketchWithExactSummaryStatistics.GetValueAtQuantile a.1 q =
    (goClamp (minOf lr) (maxOf lr)
        (DDSketch.GetValueAtQuantile (runAdds (NewDDSketch env p n) (fins lr)).1 q).1,
      (DDSketch.GetValueAtQuantile (runAdds (NewDDSketch env p n) (fins lr)).1 q).2)) ∧
  (∀ q u, DDSketch.GetValueAtQuantile (runAdds (NewDDSketch env p n) (fins lr)).1 q = (u, GoErr.nil) →
    F64.lt u (minOf lr) = false → F64.lt (maxOf lr) u = false →
    DDSketchWithExactSummaryStatistics.GetValueAtQuantile a.1 q = (u, GoErr.nil))

theorem c10_min_is_least (lr : List (Rat × Rat)) (hl : lr ≠ []) :
    ∃ m, minOf lr = .fin m ∧ (∃ p ∈ lr, p.1 = m) ∧ ∀ p ∈ lr, m ≤ p.1 := C10.min_is_least lr hl

theorem c10_max_is_greatest (lr : List (Rat × Rat)) (hl : lr ≠ []) :
    ∃ m, maxOf lr = .fin m ∧ (∃ p ∈ lr, p.1 = m) ∧ ∀ p ∈ lr, p.1 ≤ m := C10.max_is_greatest lr hl

/-! ### the generic transport -/

section transport

variable {S : Type} [StoreI S] [Inhabited S] (T : StoreSim S Store)

/-- the regenerated exact variant over stores simulating the model's ends, after a history the model accepts,
    related to the model's final state; no call refused -/
theorem xhistory_eq_model (env : MapEnv) (k : StoreKind) {p n : S} (hp : T.R p (Store.new k))
    (hn : T.R n (Store.new k)) (l : List (F64 × F64)) (hr : ∀ q ∈ l, RoutedG T env q.1)
    (hnz : ∀ q ∈ l, F64.eq q.2 (.fin 0) = false) (x : XSketch)
    (hx : xaddAll env (XSketch.new (some env.id) k) l = some x) :
    (xrunAdds (newX env p n) l).2 = List.replicate l.length GoErr.nil ∧
      XSkSimG T (xrunAdds (newX env p n) l).1 (toGenX env x) ∧ x.st = addAllF Summary.new l := by
  obtain ⟨he, hs⟩ := xrunAdds_paramG T l (xSkSimG_new T env hp hn) hr
  obtain ⟨hm, hst⟩ := model_xrunAdds env l hnz _ x hx
  rw [newX_model, hm] at he hs
  exact ⟨he, hs, hst⟩

/-- **C10 on regenerated code over any store implementation that simulates the model stores** -/
theorem c10_transport (env : MapEnv) (k : StoreKind) {p n : S} (hp : T.R p (Store.new k))
    (hn : T.R n (Store.new k)) (lr : List (Rat × Rat)) (hrep : RepOK lr) (hnz : ∀ p ∈ lr, p.2 ≠ 0)
    (hr : ∀ p ∈ lr, RoutedG T env (F64.fin p.1)) (x : XSketch)
    (hx : xaddAll env (XSketch.new (some env.id) k) (fins lr) = some x) :
    C10Holds env p n lr x := by
  have hr' : ∀ q ∈ fins lr, RoutedG T env q.1 := by
    intro q hq
    simp only [fins, List.mem_map] at hq
    obtain ⟨p, hp, rfl⟩ := hq
    exact hr p hp
  obtain ⟨he, hs, hst⟩ := xhistory_eq_model T env k hp hn (fins lr) hr' (fins_nonzero lr hnz) x hx
  rw [addAllF_fins, C10.fold_exact_eq lr hrep] at hst
  have hlen : (fins lr).length = lr.length := by simp [fins]
  rw [hlen] at he
  -- the statistics of the regenerated-store sketch
  have hstat : (xrunAdds (newX env p n) (fins lr)).1.summaryStatistics = C10Gen.genExactOf lr := by
    rw [hs.st, toGenX_st, hst]; rfl
  have hmin : SummaryStatistics.Min (C10Gen.genExactOf lr) = minOf lr := rfl
  have hmax : SummaryStatistics.Max (C10Gen.genExactOf lr) = maxOf lr := rfl
  have hq : ∀ q, DDSketchWithExactSummaryStatistics.GetValueAtQuantile (xrunAdds (newX env p n) (fins lr)).1 q =
      (goClamp (minOf lr) (maxOf lr)
          (DDSketch.GetValueAtQuantile (runAdds (NewDDSketch env p n) (fins lr)).1 q).1,
        (DDSketch.GetValueAtQuantile (runAdds (NewDDSketch env p n) (fins lr)).1 q).2) := by
    intro q
    rw [XGetValueAtQuantile_eq, hstat, hmin, hmax, xrunAdds_sk]
    rfl
  have hqrel : ∀ q, QRel (x.quantile env q)
      (DDSketchWithExactSummaryStatistics.GetValueAtQuantile (xrunAdds (newX env p n) (fins lr)).1 q) := by
    intro q
    rw [XGetValueAtQuantile_paramG T hs q]
    exact XGetValueAtQuantile_rel env x q
  refine ⟨he, hstat, ?_, ?_, ?_, ?_, ?_, hqrel, ?_, ?_, hq, ?_⟩
  · rw [XGetCount_paramG T hs, XGetCount_eq]
    show x.st.count = _
    rw [hst]; rfl
  · rw [XGetSum_paramG T hs, XGetSum_eq]
    show x.st.getSum = _
    rw [hst, ← C10.fold_exact_eq lr hrep]
    exact (C10.fold_exact lr hrep).2.1
  · unfold DDSketchWithExactSummaryStatistics.GetMinValue
    rw [hstat, hmin]
  · unfold DDSketchWithExactSummaryStatistics.GetMaxValue
    rw [hstat, hmax]
  · rw [IsEmpty_paramG T hs.sk, toGenX_sk, IsEmpty_eq]
  · intro hne q v hv
    have hqr := hqrel q
    rw [hv] at hqr
    cases hm : x.quantile env q with
    | error e =>
      rw [hm] at hqr
      exact absurd rfl (goErr?_ne_nil hqr.2)
    | ok v' =>
      rw [hm] at hqr
      have hvv : v = v' := (Prod.mk.inj hqr).1
      subst hvv
      have hmm : F64.lt x.st.max x.st.min = false := by
        rw [hst]; exact C10.exact_stats_ordered lr hne
      have := C10.xsketch_quantile_clamped env x q v hmm hm
      rw [hst] at this
      exact this
  · intro q e hqe
    have hm := C10.xsketch_quantile_error env x q e hqe
    exact (hqrel q).error hm
  · intro q u hu h1 h2
    rw [hq q, hu]
    simp [goClamp, h1, h2]

end transport

/-! ### the instances: regenerated stores -/

/-- **C10 on regenerated code, sketch + statistics + buffered-paginated store**, for every growth policy of the
    runtime; routed indexes int32 -/
theorem c10_paginated (grow : Int → Int → Int) (env : MapEnv) (lr : List (Rat × Rat)) (hrep : RepOK lr)
    (hnz : ∀ p ∈ lr, p.2 ≠ 0) (hr : ∀ p ∈ lr, Routed32 env (F64.fin p.1)) (x : XSketch)
    (hx : xaddAll env (XSketch.new (some env.id) .pag) (fins lr) = some x) :
    C10Holds env (⟨Gen.Paginated.NewBufferedPaginatedStore⟩ : GPS grow)
      ⟨Gen.Paginated.NewBufferedPaginatedStore⟩ lr x :=
  c10_transport (pagStoreSim grow) env .pag GenPagSketch.sim_new GenPagSketch.sim_new lr hrep hnz hr x hx

/-- … dense store (no condition on the indexes) -/
theorem c10_dense (env : MapEnv) (lr : List (Rat × Rat)) (hrep : RepOK lr) (hnz : ∀ p ∈ lr, p.2 ≠ 0)
    (x : XSketch) (hx : xaddAll env (XSketch.new (some env.id) .dense) (fins lr) = some x) :
    C10Holds env (⟨Gen.Dense.NewDenseStore⟩ : GenDenseSketch.GDS) ⟨Gen.Dense.NewDenseStore⟩ lr x :=
  c10_transport GenDenseSketch.denseStoreSim env .dense GenDenseSketch.dsim_new GenDenseSketch.dsim_new lr hrep hnz
    (fun _ _ => GenDenseSketch.dense_routed env _) x hx

/-- … sparse store, for every lawful iteration order of Go's `range` over the map; routed indexes int32 -/
theorem c10_sparse (ord : MapOrder) (hl : ord.Lawful) (env : MapEnv) (lr : List (Rat × Rat)) (hrep : RepOK lr)
    (hnz : ∀ p ∈ lr, p.2 ≠ 0) (hr : ∀ p ∈ lr, Routed32 env (F64.fin p.1)) (x : XSketch)
    (hx : xaddAll env (XSketch.new (some env.id) .sparse) (fins lr) = some x) :
    C10Holds env (⟨Gen.Sparse.NewSparseStore⟩ : GenSparseSketch.GSS ord) ⟨Gen.Sparse.NewSparseStore⟩ lr x :=
  c10_transport (GenSparseSketch.sparseStoreSim ord hl) env .sparse GenSparseSketch.ssim_new
    GenSparseSketch.ssim_new lr hrep hnz
    (fun p hp => GenSparseSketch.sparse_routed_of_32 hl env _ (hr p hp)) x hx

/-- … lowest-collapsing dense store with `n` bins (no condition on the indexes) -/
theorem c10_collapsing_lowest (n : Nat) (env : MapEnv) (lr : List (Rat × Rat)) (hrep : RepOK lr)
    (hnz : ∀ p ∈ lr, p.2 ≠ 0) (x : XSketch)
    (hx : xaddAll env (XSketch.new (some env.id) (.low n)) (fins lr) = some x) :
    C10Holds env (⟨Gen.Dense.NewCollapsingLowestDenseStore (n : Int)⟩ : GenLowSketch.GLS n)
      ⟨Gen.Dense.NewCollapsingLowestDenseStore (n : Int)⟩ lr x :=
  c10_transport (GenLowSketch.lowStoreSim n) env (.low n) GenLowSketch.lsim_new GenLowSketch.lsim_new lr hrep hnz
    (fun _ _ => GenLowSketch.low_routed env _) x hx

/-- … highest-collapsing dense store with `n` bins -/
theorem c10_collapsing_highest (n : Nat) (env : MapEnv) (lr : List (Rat × Rat)) (hrep : RepOK lr)
    (hnz : ∀ p ∈ lr, p.2 ≠ 0) (x : XSketch)
    (hx : xaddAll env (XSketch.new (some env.id) (.high n)) (fins lr) = some x) :
    C10Holds env (⟨Gen.Dense.NewCollapsingHighestDenseStore (n : Int)⟩ : GenHighSketch.GHS n)
      ⟨Gen.Dense.NewCollapsingHighestDenseStore (n : Int)⟩ lr x :=
  c10_transport (GenHighSketch.highStoreSim n) env (.high n) GenHighSketch.hsim_new GenHighSketch.hsim_new lr hrep
    hnz (fun _ _ => GenHighSketch.high_routed env _) x hx

/-! ### the hypotheses are satisfiable

  C10's running example (values 3, −1, 5/2 with weights 2, 1, 4; `C10.exL_ok : RepOK C10.exL`) on the mapping
  oracle `GenSketch.discEnv` (every value routed to index 0, indexable range `[1/1000, 1000]`): the model accepts
  the history on every store kind. -/

theorem exL_accepted_pag : (xaddAll discEnv (XSketch.new (some discEnv.id) .pag) (fins C10.exL)).isSome = true := by
  decide +kernel

theorem exL_accepted_sparse :
    (xaddAll discEnv (XSketch.new (some discEnv.id) .sparse) (fins C10.exL)).isSome = true := by
  decide +kernel

theorem exL_accepted_dense :
    (xaddAll discEnv (XSketch.new (some discEnv.id) .dense) (fins C10.exL)).isSome = true := by
  decide +kernel

theorem exL_nonzero : ∀ p ∈ C10.exL, p.2 ≠ 0 := by decide +kernel

theorem exL_routed32 : ∀ p ∈ C10.exL, Routed32 discEnv (F64.fin p.1) := by
  intro p _
  exact ⟨fun _ => (by decide : PStore.Idx32 (0 : Int)), fun _ => (by decide : PStore.Idx32 (0 : Int))⟩

/-- the paginated instance, met on the example: count 7, sum 15 -/
theorem c10_paginated_example (grow : Int → Int → Int) :
    let a := xrunAdds (newX discEnv (⟨Gen.Paginated.NewBufferedPaginatedStore⟩ : GPS grow)
      ⟨Gen.Paginated.NewBufferedPaginatedStore⟩) (fins C10.exL)
    a.2 = [GoErr.nil, GoErr.nil, GoErr.nil] ∧
    DDSketchWithExactSummaryStatistics.GetCount a.1 = .fin 7 ∧
    DDSketchWithExactSummaryStatistics.GetSum a.1 = .fin 15 := by
  intro a
  obtain ⟨x, hx⟩ := Option.isSome_iff_exists.mp exL_accepted_pag
  obtain ⟨h1, _, h3, h4, _⟩ := c10_paginated grow discEnv C10.exL C10.exL_ok exL_nonzero exL_routed32 x hx
  refine ⟨h1, ?_, ?_⟩
  · show DDSketchWithExactSummaryStatistics.GetCount a.1 = _
    rw [h3]; decide +kernel
  · show DDSketchWithExactSummaryStatistics.GetSum a.1 = _
    rw [h4]; decide +kernel

end DDS.Props.C10GenStores
