/-
  DDS.Props.Lift3 — the DECODING results (binary format C06, protobuf C09, reuse after `Clear`
  C15) for consumers on stores of EVERY kind: dense, sparse, buffered-paginated,
  lowest-collapsing `.low N`, highest-collapsing `.high N`.

  C06 / C09 were proved with a spec (sparse) sketch as the consumer.  `DDS.Proofs.Lift` gives one
  invariant `Good st` for the five store kinds, with the canonical content `contentOf st` (what
  `Bins()` / `ForEach` enumerate) and `good_refines`: every observer of a good store answers
  like its canonical content.  Here the decoders are transported.  In plain words:

  T1 — bins into a store of any kind
  * `addBins_any_store`: adding a list of `(index, weight)` bins, in stream order, to a good store
    never panics, keeps the store good and of the same kind, and the store then holds
    "the old content with every bin added, then clamped by the store's rule" (the rule is the
    identity for the three unbounded kinds; `specLow N` / `specHigh N` as in C05 for the
    collapsing kinds).  Weights are finite and non-negative; indexes are int32 — except that a
    ZERO-weight bin may carry any index (`AddWithCount(i, 0)` returns before looking at `i` in
    every store kind; the dense encoder does write zero counts).
  * `addBins_any_store_rel`: the same relative to an un-clamped "exact" content `E` whose clamped
    form the store holds: afterwards it holds the clamped form of `E` plus the bins — clamping
    at every step is clamping once.  `addBins_any_store_f64`: stated on a list of float bins.
    `addBins_never_panics`.

  T2 — C06 for consumers of every kind
  * `decode_encode_any_consumer`: encode any sketch (any producer kinds, mapping embedded or
    omitted), decode the bytes into a new sketch on stores of kind `k`: same mapping, same zero
    weight, stores good, contents = the producer's contents clamped by the rule of `k`, and the
    decoded sketch observes like those contents.  No int32 hypothesis is added: the encoder's
    precondition `EncOK` already bounds the indexes (`encOK_keys32`).
  * `decode_encode_plain_consumer`: for the unbounded kinds the decoded sketch refines the
    producer's very contents, hence (`same_answers`) `GetCount`, `IsEmpty`, `ForEach`, `GetSum`,
    `GetMinValue`, `GetMaxValue` and `GetValueAtQuantile` answer exactly as on the producer.
  * `decode_into_nonempty_is_merge_any` (+ `_rel`): decoding into a NON-EMPTY receiver with good
    stores of any kinds (the two stores may even be of different kinds) is a merge: contents add
    up, then are clamped by the receiver's rules; zero weights add.
  * `decode_concat_any_consumer`: the concatenation of two encodings decodes, into a new sketch of
    kind `k`, to the (clamped) merge of the two encoded sketches.

  T3 — C09 for consumers of every kind
  * `mergeWithProto_any_store`: `MergeWithProto` of a message into a good store of any kind: the
    sparse and the contiguous bins add up, index by index, exactly as `C09.mergeWithProto_adds`
    says, on top of what the store held — then the store's clamping rule applies.
  * `fromProto_any_consumer`: rebuilding ANY message whose weights are finite, non-negative floats
    with int32 indexes, with stores of kind `k`.
  * `fromProto_toProto_any_consumer`: the message `ToProto` builds for a (spec) sketch, rebuilt
    with stores of kind `k`: same mapping, zero weight bit for bit, contents clamped by the rule
    of `k`.
  * `fromProto_toProto_any_kinds`: the same with a PRODUCER on good stores of any kinds (the dense
    kinds travel as contiguous counts, the others as sparse entries): 5 × 5 producer / consumer
    pairs.  `fromProto_toProto_plain_same_answers`: an unbounded consumer answers every query as
    the original sketch.

  T4 — C15: a cleared sketch as the target of decoding
  * `decode_into_cleared`: for any sketch `r` with good stores, decoding into `r.Clear()` gives
    the producer's contents clamped by the rules of `r`'s stores, zero weight and mapping of the
    producer — nothing of what `r` held before survives.
  * `decode_into_cleared_eq_new`: … which is exactly what decoding into a NEW sketch of the same
    kind and mapping gives: same mapping, zero weight, canonical contents, hence same answers.

  Proofs of the helper lemmas are in `DDS.Proofs.Lift3`.
-/
import DDS.Proofs.Lift3
import DDS.Props.C06
import DDS.Props.C09

namespace DDS.Lift

open DDS DDS.Wire DDS.RoundTrip

/-! ## T1. bins into a store of any kind -/

/-- `Content.merge` IS the left fold of `Content.add` over the bins -/
theorem merge_eq_foldl (c : Content) (L : List (Int × Rat)) :
    c.merge L = L.foldl (fun c b => c.add b.1 b.2) c := rfl

/-- **T1.**  Adding the bins `L` (as the float bins a decoder reads) to a good store of any kind.
    `BinsOK L`: non-negative weights, int32 indexes (any index for a zero weight). -/
theorem addBins_any_store (st : Store) (h : Good st) (L : List (Int × Rat)) (hL : BinsOK L) :
    ∃ st', Sketch.addBins st (finBins L) = some st' ∧ Good st' ∧ st'.kind = st.kind ∧
      st'.clamp = st.clamp ∧
      contentOf st' = st.clamp.apply (L.foldl (fun c b => c.add b.1 b.2) (contentOf st)) := by
  obtain ⟨st', a1, a2, a3, a4⟩ := addList_good L hL st h (contentOf st) (good_wf st h)
    (good_fixed' st h)
  exact ⟨st', by rw [addBins_finBins]; exact a1, a2, a3, clamp_of_kind a3, a4⟩

/-- relative to an exact content: a store holding the clamped form of `E` ends up holding the
    clamped form of `E` merged with the bins ("clamp at every step" = "clamp once") -/
theorem addBins_any_store_rel (st : Store) (h : Good st) (L : List (Int × Rat)) (hL : BinsOK L)
    (E : Content) (hE : E.WF) (hc : contentOf st = st.clamp.apply E) :
    ∃ st', Sketch.addBins st (finBins L) = some st' ∧ Good st' ∧ st'.kind = st.kind ∧
      contentOf st' = st.clamp.apply (E.merge L) := by
  obtain ⟨st', a1, a2, a3, a4⟩ := addList_good L hL st h E hE hc
  exact ⟨st', by rw [addBins_finBins]; exact a1, a2, a3, a4⟩

theorem addBins_never_panics (st : Store) (h : Good st) (L : List (Int × Rat)) (hL : BinsOK L) :
    Sketch.addBins st (finBins L) ≠ none := by
  obtain ⟨st', a1, _⟩ := addBins_any_store st h L hL
  rw [a1]; exact Option.some_ne_none _

/-- the rational bins of a list of float bins (a non-finite weight reads 0) -/
def ratBins (l : List (Int × F64)) : List (Int × Rat) :=
  l.map (fun p => (p.1, (Sketch.ratOf? p.2).getD 0))

/-- the same on a list of float bins: every weight finite and non-negative, every index an int32
    unless its weight is zero -/
theorem addBins_any_store_f64 (st : Store) (h : Good st) (l : List (Int × F64))
    (hl : ∀ p ∈ l, ∃ w, p.2 = .fin w ∧ 0 ≤ w ∧ (w ≠ 0 → I32 p.1)) :
    ∃ st', Sketch.addBins st l = some st' ∧ Good st' ∧ st'.kind = st.kind ∧
      contentOf st' = st.clamp.apply ((contentOf st).merge (ratBins l)) := by
  have e : l = finBins (ratBins l) := by
    unfold finBins ratBins
    rw [List.map_map]
    conv => lhs; rw [← List.map_id l]
    apply List.map_congr_left
    intro p hp
    obtain ⟨w, hw, _⟩ := hl p hp
    obtain ⟨i, c⟩ := p
    simp only at hw
    subst hw
    rfl
  have hL : BinsOK (ratBins l) := by
    intro q hq
    obtain ⟨p, hp, rfl⟩ := List.mem_map.1 hq
    obtain ⟨w, hw, h1, h2⟩ := hl p hp
    simp only [hw, Sketch.ratOf?, Option.getD_some]
    exact ⟨h1, h2⟩
  obtain ⟨st', a1, a2, a3, _, a5⟩ := addBins_any_store st h (ratBins l) hL
  exact ⟨st', by rw [e]; exact a1, a2, a3, a5⟩

/-! ## observers: two sketches refining the same contents answer alike -/

/-- two sketches (on stores of any kinds) that refine the same contents and have the same mapping
    and zero weight give the same answer to every query; for `GetValueAtQuantile` under the guard
    of `Sketch.quantile_congr'` (the positive store is consulted only if it is non-empty;
    `Sketch.quantile_empty_pos_counterexample` shows the guard is needed) -/
theorem same_answers (env : MapEnv) (s t : Sketch) (cp cn : Content) (hs : s.Refines cp cn)
    (ht : t.Refines cp cn) (hm : t.mapping = s.mapping) (hz : t.zero = s.zero) :
    t.getCount = s.getCount ∧ t.isEmpty = s.isEmpty ∧
      t.forEachList env = s.forEachList env ∧ t.getSum env = s.getSum env ∧
      t.getMin env = s.getMin env ∧ t.getMax env = s.getMax env ∧
      ∀ q : F64, (cp = [] → s.usesPos q = false) → t.quantile env q = s.quantile env q := by
  refine ⟨?_, ?_, ?_, ?_, ?_, ?_, ?_⟩
  · rw [Sketch.getCount_congr ht, Sketch.getCount_congr hs, hm, hz]
  · rw [Sketch.isEmpty_congr ht, Sketch.isEmpty_congr hs, hm, hz]
  · rw [Sketch.forEachList_congr env ht, Sketch.forEachList_congr env hs, hm, hz]
  · rw [Sketch.getSum_congr env ht, Sketch.getSum_congr env hs, hm, hz]
  · rw [Sketch.getMin_congr env ht, Sketch.getMin_congr env hs, hm, hz]
  · rw [Sketch.getMax_congr env ht, Sketch.getMax_congr env hs, hm, hz]
  · intro q hq
    rw [Sketch.quantile_congr' env hs q hq,
      Sketch.quantile_congr' env ht q (fun hc => by
        rw [Sketch.usesPos_congr ht q, hm, hz, ← Sketch.usesPos_congr hs q]; exact hq hc),
      hm, hz]

/-! ## T2. C06 for consumers of every kind -/

/-- **T2 (C06, any consumer).**  Producer: any sketch the encoder accepts (stores of any kinds).
    Consumer: a new sketch on stores of kind `k`, given the mapping iff the encoding omits it.
    The hypotheses are those of `C06.decode_encode` plus `KindOK k` (a collapsing store has at
    least one bin). -/
theorem decode_encode_any_consumer (k : StoreKind) (hk : KindOK k) (s : Sketch)
    (cp cn : Content) (hs : s.Refines cp cn) (hp : EncOK s.pos) (hn : EncOK s.neg)
    (m : MapId) (hm : s.mapping = some m) (hmk : MapOK m)
    (z : Rat) (hz : s.zero = .fin z) (hzw : WOK z) (omitMapping : Bool) :
    ∃ s' bl t, s.encode omitMapping = some (s', bl) ∧ (∀ b ∈ bl, b.WF ∧ b.FiniteWeights) ∧
      Sketch.decodeAndMergeWith (Sketch.new (if omitMapping then some m else none) k)
        (Wire.encBlocks bl) = some (.ok t) ∧
      t.mapping = some m ∧ t.zero = .fin z ∧ Good t.pos ∧ Good t.neg ∧
      t.pos.kind = k ∧ t.neg.kind = k ∧
      contentOf t.pos = (clampOfKind k).apply cp ∧ contentOf t.neg = (clampOfKind k).apply cn ∧
      t.Refines ((clampOfKind k).apply cp) ((clampOfKind k).apply cn) := by
  obtain ⟨s', bl, he⟩ := RoundTrip.encode_ok s cp cn hs hp hn m hm z hz omitMapping
  obtain ⟨t, t1, t2, t3, t4, t5, t6, t7, t8, t9⟩ := encodesTo_decode_new k hk he
    (encOK_keys32 _ _ hs.pos hp) (encOK_keys32 _ _ hs.neg hn) hmk hzw
    (if omitMapping then some m else none) (by cases omitMapping <;> simp [Accepts])
  obtain ⟨pb, nb, _, henc, _⟩ := id he
  exact ⟨s', bl, t, henc, fun b hb => ⟨he.wf b hb, he.finite b hb⟩, t1, t2, t3, t4, t5, t6, t7,
    t8, t9, ⟨t8 ▸ good_refines _ t4, t9 ▸ good_refines _ t5⟩⟩

/-- the non-collapsing kinds do not clamp -/
theorem clampOfKind_plain (k : StoreKind) (hk : Plain k) : clampOfKind k = .none := by
  cases k <;> first | rfl | exact False.elim hk

/-- **T2, unbounded consumers.**  For `k` dense, sparse or paginated the decoded sketch refines
    the producer's very contents, hence answers every query exactly as the producer. -/
theorem decode_encode_plain_consumer (k : StoreKind) (hk : Plain k) (s : Sketch)
    (cp cn : Content) (hs : s.Refines cp cn) (hp : EncOK s.pos) (hn : EncOK s.neg)
    (m : MapId) (hm : s.mapping = some m) (hmk : MapOK m)
    (z : Rat) (hz : s.zero = .fin z) (hzw : WOK z) (omitMapping : Bool) (env : MapEnv) :
    ∃ s' bl t, s.encode omitMapping = some (s', bl) ∧
      Sketch.decodeAndMergeWith (Sketch.new (if omitMapping then some m else none) k)
        (Wire.encBlocks bl) = some (.ok t) ∧
      t.mapping = s.mapping ∧ t.zero = s.zero ∧ t.Refines cp cn ∧
      t.getCount = s.getCount ∧ t.isEmpty = s.isEmpty ∧
      t.forEachList env = s.forEachList env ∧ t.getSum env = s.getSum env ∧
      t.getMin env = s.getMin env ∧ t.getMax env = s.getMax env ∧
      ∀ q : F64, (cp = [] → s.usesPos q = false) → t.quantile env q = s.quantile env q := by
  have hok : KindOK k := by cases k <;> trivial
  obtain ⟨s', bl, t, h1, _, h3, h4, h5, _, _, _, _, _, _, R⟩ :=
    decode_encode_any_consumer k hok s cp cn hs hp hn m hm hmk z hz hzw omitMapping
  rw [clampOfKind_plain k hk] at R
  change t.Refines cp cn at R
  have hm' : t.mapping = s.mapping := by rw [h4, hm]
  have hz' : t.zero = s.zero := by rw [h5, hz]
  exact ⟨s', bl, t, h1, h3, hm', hz', R, same_answers env s t cp cn hs R hm' hz'⟩

/-- **T2, decoding into a non-empty receiver is a merge** — relative form.  The receiver `r` has
    the same (finite) mapping, a finite zero bucket and good stores of ANY kinds (the two may
    differ) holding the clamped forms of exact contents `Ep`, `En`: afterwards they hold the
    clamped forms of `Ep ⊎ cp`, `En ⊎ cn`; the zero weights add (exactness of that float addition
    is the hypothesis `hadd`, as in `C06.decode_into_nonempty_is_merge`). -/
theorem decode_into_nonempty_is_merge_any_rel (s : Sketch) (cp cn : Content)
    (hs : s.Refines cp cn) (hp : EncOK s.pos) (hn : EncOK s.neg)
    (m : MapId) (hm : s.mapping = some m) (hmk : MapOK m) (hmf : MapFinite m)
    (z : Rat) (hz : s.zero = .fin z) (hzw : WOK z) (omitMapping : Bool)
    (r : Sketch) (hrm : r.mapping = some m) (Gp : Good r.pos) (Gn : Good r.neg)
    (z₀ : Rat) (hrz : r.zero = .fin z₀) (hadd : F64.add (.fin z₀) (.fin z) = .fin (z₀ + z))
    (Ep En : Content) (hEp : Ep.WF) (hEn : En.WF)
    (hcEp : contentOf r.pos = r.pos.clamp.apply Ep)
    (hcEn : contentOf r.neg = r.neg.clamp.apply En) :
    ∃ s' bl t, s.encode omitMapping = some (s', bl) ∧
      Sketch.decodeAndMergeWith r (Wire.encBlocks bl) = some (.ok t) ∧
      t.mapping = some m ∧ t.zero = .fin (z₀ + z) ∧ Good t.pos ∧ Good t.neg ∧
      t.pos.kind = r.pos.kind ∧ t.neg.kind = r.neg.kind ∧
      contentOf t.pos = r.pos.clamp.apply (Ep.merge cp) ∧
      contentOf t.neg = r.neg.clamp.apply (En.merge cn) := by
  obtain ⟨s', bl, he⟩ := RoundTrip.encode_ok s cp cn hs hp hn m hm z hz omitMapping
  obtain ⟨t, ht⟩ := encodesTo_decode_merge he (encOK_keys32 _ _ hs.pos hp)
    (encOK_keys32 _ _ hs.neg hn) hmk hmf hzw r hrm Gp Gn z₀ hrz hadd Ep En hEp hEn hcEp hcEn
  obtain ⟨pb, nb, _, henc, _⟩ := id he
  exact ⟨s', bl, t, henc, ht⟩

/-- **T2, decoding into a non-empty receiver is a merge.**  The receiver's stores hold `a`, `b`:
    afterwards they hold `a ⊎ cp`, `b ⊎ cn`, clamped by the receiver's rules, and the decoded
    sketch observes like those contents. -/
theorem decode_into_nonempty_is_merge_any (s : Sketch) (cp cn : Content)
    (hs : s.Refines cp cn) (hp : EncOK s.pos) (hn : EncOK s.neg)
    (m : MapId) (hm : s.mapping = some m) (hmk : MapOK m) (hmf : MapFinite m)
    (z : Rat) (hz : s.zero = .fin z) (hzw : WOK z) (omitMapping : Bool)
    (r : Sketch) (hrm : r.mapping = some m) (Gp : Good r.pos) (Gn : Good r.neg)
    (a b : Content) (ha : contentOf r.pos = a) (hb : contentOf r.neg = b)
    (z₀ : Rat) (hrz : r.zero = .fin z₀) (hadd : F64.add (.fin z₀) (.fin z) = .fin (z₀ + z)) :
    ∃ s' bl t, s.encode omitMapping = some (s', bl) ∧
      Sketch.decodeAndMergeWith r (Wire.encBlocks bl) = some (.ok t) ∧
      t.mapping = some m ∧ t.zero = .fin (z₀ + z) ∧ Good t.pos ∧ Good t.neg ∧
      t.pos.kind = r.pos.kind ∧ t.neg.kind = r.neg.kind ∧
      contentOf t.pos = r.pos.clamp.apply (a.merge cp) ∧
      contentOf t.neg = r.neg.clamp.apply (b.merge cn) ∧
      t.Refines (r.pos.clamp.apply (a.merge cp)) (r.neg.clamp.apply (b.merge cn)) := by
  subst ha hb
  obtain ⟨s', bl, t, h1, h2, h3, h4, h5, h6, h7, h8, h9, h10⟩ :=
    decode_into_nonempty_is_merge_any_rel s cp cn hs hp hn m hm hmk hmf z hz hzw omitMapping r hrm
      Gp Gn z₀ hrz hadd _ _ (good_wf _ Gp) (good_wf _ Gn) (good_fixed' _ Gp) (good_fixed' _ Gn)
  exact ⟨s', bl, t, h1, h2, h3, h4, h5, h6, h7, h8, h9, h10,
    ⟨h9 ▸ good_refines _ h5, h10 ▸ good_refines _ h6⟩⟩

/-- **T2, concatenation.**  Two sketches with the same mapping are encoded (each with or without
    its mapping; the consumer is given the mapping iff the FIRST encoding omits it); the
    concatenated bytes decode, into a new sketch on stores of kind `k`, to the merge of the two:
    contents `cp₁ ⊎ cp₂`, `cn₁ ⊎ cn₂` clamped by the rule of `k`, zero weights added. -/
theorem decode_concat_any_consumer (k : StoreKind) (hk : KindOK k)
    (m : MapId) (hmk : MapOK m) (hmf : MapFinite m)
    (s₁ : Sketch) (cp₁ cn₁ : Content) (hs₁ : s₁.Refines cp₁ cn₁)
    (hp₁ : EncOK s₁.pos) (hn₁ : EncOK s₁.neg) (hm₁ : s₁.mapping = some m)
    (z₁ : Rat) (hz₁ : s₁.zero = .fin z₁) (hzw₁ : WOK z₁) (om₁ : Bool)
    (s₂ : Sketch) (cp₂ cn₂ : Content) (hs₂ : s₂.Refines cp₂ cn₂)
    (hp₂ : EncOK s₂.pos) (hn₂ : EncOK s₂.neg) (hm₂ : s₂.mapping = some m)
    (z₂ : Rat) (hz₂ : s₂.zero = .fin z₂) (hzw₂ : WOK z₂) (om₂ : Bool)
    (hadd : F64.add (.fin z₁) (.fin z₂) = .fin (z₁ + z₂)) :
    ∃ s₁' bl₁ s₂' bl₂ t, s₁.encode om₁ = some (s₁', bl₁) ∧ s₂.encode om₂ = some (s₂', bl₂) ∧
      Sketch.decodeAndMergeWith (Sketch.new (if om₁ then some m else none) k)
        (Wire.encBlocks bl₁ ++ Wire.encBlocks bl₂) = some (.ok t) ∧
      t.mapping = some m ∧ t.zero = .fin (z₁ + z₂) ∧ Good t.pos ∧ Good t.neg ∧
      t.pos.kind = k ∧ t.neg.kind = k ∧
      contentOf t.pos = (clampOfKind k).apply (cp₁.merge cp₂) ∧
      contentOf t.neg = (clampOfKind k).apply (cn₁.merge cn₂) ∧
      t.Refines ((clampOfKind k).apply (cp₁.merge cp₂)) ((clampOfKind k).apply (cn₁.merge cn₂)) := by
  obtain ⟨s₁', bl₁, he₁⟩ := RoundTrip.encode_ok s₁ cp₁ cn₁ hs₁ hp₁ hn₁ m hm₁ z₁ hz₁ om₁
  obtain ⟨s₂', bl₂, he₂⟩ := RoundTrip.encode_ok s₂ cp₂ cn₂ hs₂ hp₂ hn₂ m hm₂ z₂ hz₂ om₂
  obtain ⟨t₁, a1, a2, a3, a4, a5, a6, a7, a8, a9⟩ := encodesTo_decode_new k hk he₁
    (encOK_keys32 _ _ hs₁.pos hp₁) (encOK_keys32 _ _ hs₁.neg hn₁) hmk hzw₁
    (if om₁ then some m else none) (by cases om₁ <;> simp [Accepts])
  obtain ⟨t, b1, b2, b3, b4, b5, b6, b7, b8, b9⟩ := encodesTo_decode_merge he₂
    (encOK_keys32 _ _ hs₂.pos hp₂) (encOK_keys32 _ _ hs₂.neg hn₂) hmk hmf hzw₂ t₁ a2 a4 a5
    z₁ a3 hadd cp₁ cn₁ hs₁.pos.wf hs₁.neg.wf
    (by rw [a8, clamp_eq_of_kind _ k a6]) (by rw [a9, clamp_eq_of_kind _ k a7])
  rw [clamp_eq_of_kind _ k a6] at b8
  rw [clamp_eq_of_kind _ k a7] at b9
  obtain ⟨_, _, _, henc₁, _⟩ := id he₁
  obtain ⟨_, _, _, henc₂, _⟩ := id he₂
  refine ⟨s₁', bl₁, s₂', bl₂, t, henc₁, henc₂, ?_, b2, b3, b4, b5, b6.trans a6, b7.trans a7,
    b8, b9, ⟨b8 ▸ good_refines _ b4, b9 ▸ good_refines _ b5⟩⟩
  rw [RoundTrip.decode_concat bl₁ bl₂ he₁.wf he₂.wf _ _ a1]
  exact b1

/-! ## T4. C15: a cleared sketch as the target of decoding -/

/-- **T4.**  Any sketch `r` with good stores (of any kinds), cleared, then used as the target of
    decoding: the result holds the producer's contents clamped by the rules of `r`'s stores, the
    producer's zero weight and mapping.  `hm0`: `r`'s mapping is compatible with the encoding
    (`Clear` keeps the mapping). -/
theorem decode_into_cleared (s : Sketch) (cp cn : Content) (hs : s.Refines cp cn)
    (hp : EncOK s.pos) (hn : EncOK s.neg) (m : MapId) (hm : s.mapping = some m) (hmk : MapOK m)
    (z : Rat) (hz : s.zero = .fin z) (hzw : WOK z) (omitMapping : Bool)
    (r : Sketch) (Gp : Good r.pos) (Gn : Good r.neg)
    (hm0 : if omitMapping then r.mapping = some m else Accepts r.mapping m) :
    ∃ s' bl t, s.encode omitMapping = some (s', bl) ∧
      Sketch.decodeAndMergeWith r.clear (Wire.encBlocks bl) = some (.ok t) ∧
      t.mapping = some m ∧ t.zero = .fin z ∧ Good t.pos ∧ Good t.neg ∧
      t.pos.kind = r.pos.kind ∧ t.neg.kind = r.neg.kind ∧
      contentOf t.pos = r.pos.clamp.apply cp ∧ contentOf t.neg = r.neg.clamp.apply cn ∧
      t.Refines (r.pos.clamp.apply cp) (r.neg.clamp.apply cn) := by
  obtain ⟨s', bl, he⟩ := RoundTrip.encode_ok s cp cn hs hp hn m hm z hz omitMapping
  obtain ⟨cp1, cp2, cp3⟩ := good_clear r.pos Gp
  obtain ⟨cn1, cn2, cn3⟩ := good_clear r.neg Gn
  obtain ⟨t, t1, t2, t3, t4, t5, t6, t7, t8, t9⟩ := encodesTo_decode_good he
    (encOK_keys32 _ _ hs.pos hp) (encOK_keys32 _ _ hs.neg hn) hmk hzw r.clear hm0
    cp1 cn1 [] [] Content.wf_nil Content.wf_nil
    (by show contentOf r.pos.clear = _; rw [cp2, clamp_apply_nil])
    (by show contentOf r.neg.clear = _; rw [cn2, clamp_apply_nil])
  have e8 : contentOf t.pos = r.pos.clamp.apply cp := by
    rw [t8, Content.merge_nil_left cp hs.pos.wf]
    show r.pos.clear.clamp.apply cp = _
    rw [clamp_of_kind cp3]
  have e9 : contentOf t.neg = r.neg.clamp.apply cn := by
    rw [t9, Content.merge_nil_left cn hs.neg.wf]
    show r.neg.clear.clamp.apply cn = _
    rw [clamp_of_kind cn3]
  obtain ⟨_, _, _, henc, _⟩ := id he
  refine ⟨s', bl, t, henc, t1, t2, ?_, t4, t5, t6.trans cp3, t7.trans cn3, e8, e9,
    ⟨e8 ▸ good_refines _ t4, e9 ▸ good_refines _ t5⟩⟩
  rw [t3]; exact zeroAfter_zero z hzw

/-- **T4, cleared = new.**  When both stores of `r` are of kind `k`, decoding into `r.Clear()` and
    decoding into a NEW sketch of kind `k` with `r`'s mapping give sketches with the same
    mapping, zero weight and canonical contents — both refine the producer's contents clamped by
    the rule of `k`, hence (`same_answers`) answer every query alike. -/
theorem decode_into_cleared_eq_new (k : StoreKind) (s : Sketch) (cp cn : Content)
    (hs : s.Refines cp cn) (hp : EncOK s.pos) (hn : EncOK s.neg) (m : MapId)
    (hm : s.mapping = some m) (hmk : MapOK m)
    (z : Rat) (hz : s.zero = .fin z) (hzw : WOK z) (omitMapping : Bool)
    (r : Sketch) (Gp : Good r.pos) (Gn : Good r.neg) (hkp : r.pos.kind = k) (hkn : r.neg.kind = k)
    (hm0 : if omitMapping then r.mapping = some m else Accepts r.mapping m) :
    ∃ s' bl t t₀, s.encode omitMapping = some (s', bl) ∧
      Sketch.decodeAndMergeWith r.clear (Wire.encBlocks bl) = some (.ok t) ∧
      Sketch.decodeAndMergeWith (Sketch.new r.mapping k) (Wire.encBlocks bl) = some (.ok t₀) ∧
      t.mapping = t₀.mapping ∧ t.zero = t₀.zero ∧
      contentOf t.pos = contentOf t₀.pos ∧ contentOf t.neg = contentOf t₀.neg ∧
      t.pos.kind = t₀.pos.kind ∧ t.neg.kind = t₀.neg.kind ∧
      t.Refines ((clampOfKind k).apply cp) ((clampOfKind k).apply cn) ∧
      t₀.Refines ((clampOfKind k).apply cp) ((clampOfKind k).apply cn) := by
  obtain ⟨s', bl, t, h1, h2, h3, h4, h5, h6, h7, h8, h9, h10, _⟩ :=
    decode_into_cleared s cp cn hs hp hn m hm hmk z hz hzw omitMapping r Gp Gn hm0
  obtain ⟨s'', bl', he⟩ := RoundTrip.encode_ok s cp cn hs hp hn m hm z hz omitMapping
  have hk : KindOK k := hkp ▸ good_kindOK _ Gp
  obtain ⟨t₀, a1, a2, a3, a4, a5, a6, a7, a8, a9⟩ := encodesTo_decode_new k hk he
    (encOK_keys32 _ _ hs.pos hp) (encOK_keys32 _ _ hs.neg hn) hmk hzw r.mapping hm0
  obtain ⟨_, _, _, henc, _⟩ := id he
  rw [h1] at henc
  obtain ⟨rfl, rfl⟩ := Prod.mk.inj (Option.some.inj henc)
  rw [clamp_eq_of_kind _ k hkp] at h9
  rw [clamp_eq_of_kind _ k hkn] at h10
  exact ⟨s', bl, t, t₀, h1, h2, a1, by rw [h3, a2], by rw [h4, a3], by rw [h9, a8],
    by rw [h10, a9], by rw [h7, hkp, a6], by rw [h8, hkn, a7],
    ⟨h9 ▸ good_refines _ h5, h10 ▸ good_refines _ h6⟩,
    ⟨a8 ▸ good_refines _ a4, a9 ▸ good_refines _ a5⟩⟩

/-! ## T3. C09 for consumers of every kind -/

section proto
open DDS.Proto DDS.Lift.PB

/-- **T3, `MergeWithProto` into a store of any kind.**  `MsgOK pb`: every weight of the message
    is a finite non-negative float and every bin with a non-zero weight has an int32 index.
    The merge never panics, keeps the store good and of its kind; the store then holds
    `clamp C` where, index by index, `C` is what the store held plus what the (canonical) sparse
    entries give plus what the contiguous counts give — `C09.mergeWithProto_adds`, then the
    clamping rule of the store. -/
theorem mergeWithProto_any_store (pb : PbStore) (h : MsgOK pb) (st : Store) (hg : Good st) :
    ∃ st' C, mergeWithProto st pb = some st' ∧ Good st' ∧ st'.kind = st.kind ∧
      contentOf st' = st.clamp.apply C ∧ C.WF ∧ C = (contentOf st).merge (protoBins pb) ∧
      ∀ j, C.lookup j = (contentOf st).lookup j +
        binWeight (normBinCounts pb.binCounts) j +
        contigWeight pb.contiguous pb.contiguousOffset j := by
  obtain ⟨st', a1, a2, a3, a4⟩ := mergeWithProto_good pb h st hg (contentOf st) (good_wf st hg)
    (good_fixed' st hg)
  refine ⟨st', _, a1, a2, a3, a4,
    Content.wf_merge_of_nonneg _ _ (good_wf st hg) (binsOK_protoBins pb h).nonneg, rfl, fun j => ?_⟩
  rw [Content.lookup_merge, lookup_protoBins, add_assoc]

/-- relative to an exact content `E` whose clamped form the store holds -/
theorem mergeWithProto_any_store_rel (pb : PbStore) (h : MsgOK pb) (st : Store) (hg : Good st)
    (E : Content) (hE : E.WF) (hcE : contentOf st = st.clamp.apply E) :
    ∃ st', mergeWithProto st pb = some st' ∧ Good st' ∧ st'.kind = st.kind ∧
      contentOf st' = st.clamp.apply (E.merge (protoBins pb)) :=
  mergeWithProto_good pb h st hg E hE hcE

/-- **T3, rebuilding ANY message with stores of kind `k`**: both stores are good, of kind `k`,
    and hold the bins of their `Store` message (sparse and contiguous added up), clamped by the
    rule of `k`; the zero weight is the message's bit pattern. -/
theorem fromProto_any_consumer (k : StoreKind) (hk : KindOK k) (msg : PbSketch)
    (pbp pbn : PbStore) (hpos : msg.pos = some pbp) (hneg : msg.neg = some pbn)
    (hp : MsgOK pbp) (hn : MsgOK pbn) (m : MapId) (hm : mappingFromProto msg.mapping = .ok m) :
    ∃ t, fromProto k msg = some (.ok t) ∧ t.mapping = some m ∧
      t.zero = F64.ofBits (UInt64.ofNat msg.zero) ∧ Good t.pos ∧ Good t.neg ∧
      t.pos.kind = k ∧ t.neg.kind = k ∧
      contentOf t.pos = (clampOfKind k).apply (Content.ofList (protoBins pbp)) ∧
      contentOf t.neg = (clampOfKind k).apply (Content.ofList (protoBins pbn)) := by
  obtain ⟨g, c0, k0⟩ := good_new k hk
  have hc0 : contentOf (Store.new k) = (Store.new k).clamp.apply [] := by
    rw [c0, clamp_apply_nil]
  obtain ⟨p, p1, p2, p3, p4⟩ := mergeWithProto_good pbp hp (Store.new k) g [] Content.wf_nil hc0
  obtain ⟨n, n1, n2, n3, n4⟩ := mergeWithProto_good pbn hn (Store.new k) g [] Content.wf_nil hc0
  refine ⟨{ mapping := some m, pos := p, neg := n, zero := F64.ofBits (UInt64.ofNat msg.zero) },
    ?_, rfl, rfl, p2, n2, p3.trans k0, n3.trans k0, ?_, ?_⟩
  · unfold fromProto
    rw [hpos, hneg]
    simp only [p1, n1, hm, Option.bind_eq_bind, Option.bind_some, Option.pure_def]
  · rw [p4, clamp_new]; rfl
  · rw [n4, clamp_new]; rfl

/-- **T3 (C09, any consumer).**  The message `ToProto` builds for a sketch with contents `cp`,
    `cn`, rebuilt with stores of kind `k`: same mapping, zero weight bit for bit, stores good and
    holding the contents clamped by the rule of `k`.  Hypotheses of `C09.fromProto_toProto_spec`
    plus int32 indexes and `KindOK k`. -/
theorem fromProto_toProto_any_consumer (k : StoreKind) (hk : KindOK k) (m : MapId)
    (cp cn : Content) (z : F64) (hcp : cp.WF) (hcn : cn.WF)
    (hw : ∀ p ∈ cp ++ cn, F64.isRep p.2 = true) (h32 : ∀ p ∈ cp ++ cn, I32 p.1)
    (hg : F64.ofBits (F64.toBits m.gamma) = m.gamma)
    (ho : F64.ofBits (F64.toBits m.indexOffset) = m.indexOffset)
    (h1 : F64.le m.gamma (.fin 1) = false)
    (hz : F64.ofBits (F64.toBits z) = z) :
    ∀ msg, toProto (Sketch.spec (some m) cp cn z) = some msg →
      ∃ t, fromProto k msg = some (.ok t) ∧ t.mapping = some m ∧ t.zero = z ∧
        Good t.pos ∧ Good t.neg ∧ t.pos.kind = k ∧ t.neg.kind = k ∧
        contentOf t.pos = (clampOfKind k).apply cp ∧ contentOf t.neg = (clampOfKind k).apply cn ∧
        t.Refines ((clampOfKind k).apply cp) ((clampOfKind k).apply cn) := by
  intro msg hmsg
  simp only [toProto, Sketch.spec, storeToProto, Option.bind_eq_bind, Option.bind_some,
    Option.pure_def, Option.some.injEq, Option.map_some] at hmsg
  subst hmsg
  obtain ⟨okp, ebp⟩ := msgOK_content cp hcp (fun p hp => hw p (by simp [hp]))
    (fun p hp => h32 p (by simp [hp]))
  obtain ⟨okn, ebn⟩ := msgOK_content cn hcn (fun p hp => hw p (by simp [hp]))
    (fun p hp => h32 p (by simp [hp]))
  obtain ⟨t, t1, t2, t3, t4, t5, t6, t7, t8, t9⟩ := fromProto_any_consumer k hk
    { mapping := some (mappingToProto m),
      pos := some { binCounts := cp.map (fun p => (p.1, ratBits p.2)) },
      neg := some { binCounts := cn.map (fun p => (p.1, ratBits p.2)) },
      zero := f64bits z } _ _ rfl rfl okp okn m (MapId.mappingFromProto_mappingToProto m hg ho h1)
  rw [ebp, ofList_wf cp hcp] at t8
  rw [ebn, ofList_wf cn hcn] at t9
  refine ⟨t, t1, t2, ?_, t4, t5, t6, t7, t8, t9, ⟨t8 ▸ good_refines _ t4, t9 ▸ good_refines _ t5⟩⟩
  rw [t3]
  show F64.ofBits (UInt64.ofNat (f64bits z)) = z
  unfold f64bits
  rw [UInt64.ofNat_toNat, hz]

/-- the message of a sketch with mapping `m`, store messages `pbp`, `pbn` and zero weight `z` -/
def msgOf (m : MapId) (pbp pbn : PbStore) (z : F64) : PbSketch :=
  { mapping := some (mappingToProto m)
    pos := some pbp
    neg := some pbn
    zero := f64bits z }

/-- **T3 (C09), ANY producer and ANY consumer.**  A sketch whose two stores are good (of any
    kinds: dense — contiguous counts —, sparse / paginated — sparse entries —, collapsing) and hold
    float weights is converted with `ToProto` and rebuilt with stores of kind `k`: no panic, same
    mapping, zero weight bit for bit, and each store holds the producer's canonical content
    clamped by the rule of `k` (unchanged for the unbounded kinds). -/
theorem fromProto_toProto_any_kinds (k : StoreKind) (hk : KindOK k) (s : Sketch)
    (Gp : Good s.pos) (Gn : Good s.neg)
    (hw : ∀ p ∈ contentOf s.pos ++ contentOf s.neg, F64.isRep p.2 = true)
    (m : MapId) (hm : s.mapping = some m)
    (hg : F64.ofBits (F64.toBits m.gamma) = m.gamma)
    (ho : F64.ofBits (F64.toBits m.indexOffset) = m.indexOffset)
    (h1 : F64.le m.gamma (.fin 1) = false)
    (hz : F64.ofBits (F64.toBits s.zero) = s.zero) :
    ∃ msg t, toProto s = some msg ∧ fromProto k msg = some (.ok t) ∧
      t.mapping = some m ∧ t.zero = s.zero ∧ Good t.pos ∧ Good t.neg ∧
      t.pos.kind = k ∧ t.neg.kind = k ∧
      contentOf t.pos = (clampOfKind k).apply (contentOf s.pos) ∧
      contentOf t.neg = (clampOfKind k).apply (contentOf s.neg) ∧
      t.Refines ((clampOfKind k).apply (contentOf s.pos))
        ((clampOfKind k).apply (contentOf s.neg)) := by
  obtain ⟨pbp, p1, p2, p3, p4⟩ := storeToProto_good s.pos Gp (fun p hp => hw p (by simp [hp]))
  obtain ⟨pbn, n1, n2, n3, n4⟩ := storeToProto_good s.neg Gn (fun p hp => hw p (by simp [hp]))
  have hmsg : toProto s = some (msgOf m pbp pbn s.zero) := by
    simp only [toProto, p1, n1, hm, Option.bind_eq_bind, Option.bind_some, Option.pure_def,
      Option.map_some, msgOf]
  obtain ⟨t, t1, t2, t3, t4, t5, t6, t7, t8, t9⟩ := fromProto_any_consumer k hk
    (msgOf m pbp pbn s.zero) pbp pbn rfl rfl p2 n2 m
    (MapId.mappingFromProto_mappingToProto m hg ho h1)
  have e8 : Content.ofList (protoBins pbp) = contentOf s.pos := by
    show Content.merge [] (protoBins pbp) = _
    rw [merge_of_lookup [] Content.wf_nil _ p3 _ (good_wf _ Gp) p4,
      Content.merge_nil_left _ (good_wf _ Gp)]
  have e9 : Content.ofList (protoBins pbn) = contentOf s.neg := by
    show Content.merge [] (protoBins pbn) = _
    rw [merge_of_lookup [] Content.wf_nil _ n3 _ (good_wf _ Gn) n4,
      Content.merge_nil_left _ (good_wf _ Gn)]
  rw [e8] at t8
  rw [e9] at t9
  refine ⟨_, t, hmsg, t1, t2, ?_, t4, t5, t6, t7, t8, t9,
    ⟨t8 ▸ good_refines _ t4, t9 ▸ good_refines _ t5⟩⟩
  rw [t3]
  show F64.ofBits (UInt64.ofNat (f64bits s.zero)) = s.zero
  unfold f64bits
  rw [UInt64.ofNat_toNat, hz]

/-- … for the unbounded consumer kinds the rebuilt sketch answers every query as the original -/
theorem fromProto_toProto_plain_same_answers (k : StoreKind) (hk : Plain k) (s : Sketch)
    (Gp : Good s.pos) (Gn : Good s.neg)
    (hw : ∀ p ∈ contentOf s.pos ++ contentOf s.neg, F64.isRep p.2 = true)
    (m : MapId) (hm : s.mapping = some m)
    (hg : F64.ofBits (F64.toBits m.gamma) = m.gamma)
    (ho : F64.ofBits (F64.toBits m.indexOffset) = m.indexOffset)
    (h1 : F64.le m.gamma (.fin 1) = false)
    (hz : F64.ofBits (F64.toBits s.zero) = s.zero) (env : MapEnv) :
    ∃ msg t, toProto s = some msg ∧ fromProto k msg = some (.ok t) ∧
      t.Refines (contentOf s.pos) (contentOf s.neg) ∧
      t.getCount = s.getCount ∧ t.isEmpty = s.isEmpty ∧
      t.forEachList env = s.forEachList env ∧ t.getSum env = s.getSum env ∧
      t.getMin env = s.getMin env ∧ t.getMax env = s.getMax env ∧
      ∀ q : F64, (contentOf s.pos = [] → s.usesPos q = false) →
        t.quantile env q = s.quantile env q := by
  have hok : KindOK k := by cases k <;> trivial
  obtain ⟨msg, t, h1', h2, h3, h4, _, _, _, _, _, _, R⟩ :=
    fromProto_toProto_any_kinds k hok s Gp Gn hw m hm hg ho h1 hz
  rw [clampOfKind_plain k hk] at R
  change t.Refines (contentOf s.pos) (contentOf s.neg) at R
  exact ⟨msg, t, h1', h2, R, same_answers env s t _ _
    ⟨good_refines _ Gp, good_refines _ Gn⟩ R (by rw [h3, hm]) h4⟩

end proto

/-! ## the hypotheses are satisfiable: concrete instances

No decoder is evaluated on encoder output here: the theorems are instantiated, their side
conditions discharged on small data, and only closed facts about contents (`specLow`, `merge`
of literals) are computed. -/

section examples
open DDS.Props.C06 DDS.Proto DDS.Lift.PB

/-- `addBins_any_store`: four bins — one of them a ZERO-weight bin whose index is far outside
    int32 — into a new lowest-collapsing store with 2 bins: 1 and 3 end up on the edge 4 -/
example : ∃ st, Sketch.addBins (Store.new (.low 2))
      (finBins [(1, 1), (5, 1), (100000000000, 0), (3, 1)]) = some st ∧
    Good st ∧ st.kind = .low 2 ∧ contentOf st = [(4, 2), (5, 1)] := by
  obtain ⟨g, c0, k0⟩ := good_new (.low 2) (by decide)
  obtain ⟨st, a1, a2, a3, _, a5⟩ := addBins_any_store _ g [(1, 1), (5, 1), (100000000000, 0), (3, 1)]
    (binsOK_of_b _ (by decide +kernel))
  exact ⟨st, a1, a2, a3.trans k0, by rw [a5, c0]; decide +kernel⟩

/-- `addBins_any_store_f64`, `addBins_never_panics`: float bins into a new paginated store -/
example : ∃ st, Sketch.addBins (Store.new .pag) [(7, .fin 1), (-2, .fin (1 / 2)), (7, .fin 2)] = some st ∧
    contentOf st = [(-2, 1 / 2), (7, 3)] := by
  obtain ⟨g, c0, _⟩ := good_new .pag trivial
  obtain ⟨st, a1, _, _, a4⟩ := addBins_any_store_f64 _ g [(7, .fin 1), (-2, .fin (1 / 2)), (7, .fin 2)]
    (by
      intro p hp
      simp only [List.mem_cons, List.not_mem_nil, or_false] at hp
      rcases hp with rfl | rfl | rfl
      · exact ⟨1, rfl, by decide, fun _ => by decide⟩
      · exact ⟨1 / 2, rfl, by decide +kernel, fun _ => by decide⟩
      · exact ⟨2, rfl, by decide, fun _ => by decide⟩)
  exact ⟨st, a1, by rw [a4, c0]; decide +kernel⟩

example : Sketch.addBins (Store.new (.high 3)) (finBins [(1, 1), (2, 1 / 4)]) ≠ none :=
  addBins_never_panics _ (good_new (.high 3) (by decide)).1 _ (binsOK_of_b _ (by decide +kernel))

/-- `addBins_any_store_rel`: a lowest-collapsing store (2 bins) that absorbed the exact content
    `{1 ↦ 1, 5 ↦ 1}` holds `{4 ↦ 1, 5 ↦ 1}`; adding a bin at 9 moves the edge to 8: the result is
    the clamped form of the EXACT content plus the bin, `{8 ↦ 2, 9 ↦ 1}` -/
example : ∃ st₀ st, addList (Store.new (.low 2)) [(1, 1), (5, 1)] = some st₀ ∧
    contentOf st₀ = [(4, 1), (5, 1)] ∧
    Sketch.addBins st₀ (finBins [(9, 1)]) = some st ∧ contentOf st = [(8, 2), (9, 1)] := by
  obtain ⟨g, c0, _⟩ := good_new (.low 2) (by decide)
  obtain ⟨st₀, a1, a2, a3, a4⟩ := addList_good [(1, 1), (5, 1)] (binsOK_of_b _ (by decide +kernel))
    _ g [] Content.wf_nil (by rw [c0, clamp_apply_nil])
  obtain ⟨st, b1, _, _, b4⟩ := addBins_any_store_rel st₀ a2 [(9, 1)] (binsOK_of_b _ (by decide +kernel))
    (Content.merge [] [(1, 1), (5, 1)]) (wf_of_wfb _ (by decide +kernel)) (by rw [a4, clamp_of_kind a3])
  rw [clamp_of_kind a3] at b4
  exact ⟨st₀, st, a1, by rw [a4]; decide +kernel, b1, by rw [b4]; decide +kernel⟩

/-- `decode_encode_any_consumer`: the sketch `exS` of C06 (dense positive store, paginated
    negative store, zero bucket 3/4) decoded into LOWEST-COLLAPSING stores with 2 bins: the
    positive bins 5, 7, 8 arrive as 7 (weight 2 + 1) and 8; the negative bins 1, 2, 3 as 2, 3 -/
example (om : Bool) : ∃ s' bl t, exS.encode om = some (s', bl) ∧
    Sketch.decodeAndMergeWith (Sketch.new (if om then some exM else none) (.low 2))
      (Wire.encBlocks bl) = some (.ok t) ∧
    t.mapping = some exM ∧ t.zero = .fin (3 / 4) ∧ Good t.pos ∧ Good t.neg ∧
    contentOf t.pos = [(7, 3), (8, 3)] ∧ contentOf t.neg = [(2, 3), (3, 1)] ∧
    t.Refines [(7, 3), (8, 3)] [(2, 3), (3, 1)] := by
  obtain ⟨s', bl, t, h1, _, h3, h4, h5, h6, h7, _, _, h10, h11, h12⟩ :=
    decode_encode_any_consumer (.low 2) (by decide) exS exCp exCn exS_refines exS_pos exS_neg exM
      rfl exM_ok (3 / 4) rfl (by decide +kernel) om
  have e1 : (clampOfKind (.low 2)).apply exCp = [(7, 3), (8, 3)] := by decide +kernel
  have e2 : (clampOfKind (.low 2)).apply exCn = [(2, 3), (3, 1)] := by decide +kernel
  rw [e1] at h10 h12
  rw [e2] at h11 h12
  exact ⟨s', bl, t, h1, h3, h4, h5, h6, h7, h10, h11, h12⟩

/-- … and into highest-collapsing stores with 1 bin: everything on the lowest index -/
example : ∃ s' bl t, exS.encode true = some (s', bl) ∧
    Sketch.decodeAndMergeWith (Sketch.new (some exM) (.high 1)) (Wire.encBlocks bl) = some (.ok t) ∧
    contentOf t.pos = [(5, 6)] ∧ contentOf t.neg = [(1, 4)] := by
  obtain ⟨s', bl, t, h1, _, h3, _, _, _, _, _, _, h10, h11, _⟩ :=
    decode_encode_any_consumer (.high 1) (by decide) exS exCp exCn exS_refines exS_pos exS_neg exM
      rfl exM_ok (3 / 4) rfl (by decide +kernel) true
  exact ⟨s', bl, t, h1, h3, by rw [h10]; decide +kernel, by rw [h11]; decide +kernel⟩

/-- `decode_encode_plain_consumer`: `exS` decoded into dense (or paginated) stores answers every
    query as `exS` itself; its positive content is non-empty, so no guard is left on quantiles -/
example (k : StoreKind) (hk : k = .dense ∨ k = .pag) (env : MapEnv) (om : Bool) :
    ∃ s' bl t, exS.encode om = some (s', bl) ∧
    Sketch.decodeAndMergeWith (Sketch.new (if om then some exM else none) k)
      (Wire.encBlocks bl) = some (.ok t) ∧
    t.Refines exCp exCn ∧ t.getCount = exS.getCount ∧ t.getSum env = exS.getSum env ∧
    t.getMin env = exS.getMin env ∧ t.getMax env = exS.getMax env ∧
    ∀ q : F64, t.quantile env q = exS.quantile env q := by
  have hp : Plain k := by rcases hk with rfl | rfl <;> trivial
  obtain ⟨s', bl, t, h1, h2, _, _, R, a1, _, _, a4, a5, a6, a7⟩ :=
    decode_encode_plain_consumer k hp exS exCp exCn exS_refines exS_pos exS_neg exM rfl exM_ok
      (3 / 4) rfl (by decide +kernel) om env
  exact ⟨s', bl, t, h1, h2, R, a1, a4, a5, a6, fun q => a7 q (fun hc => by cases hc)⟩

/-- a receiver that already holds data, on a highest-collapsing positive store (2 bins) and a
    sparse negative store, built by a history (`store_history`) -/
theorem exR : ∃ p₀, runS (Store.new (.high 2)) [.add 5 1, .add 6 2] = some p₀ ∧ Good p₀ ∧
    p₀.kind = .high 2 ∧ contentOf p₀ = [(5, 1), (6, 2)] := by
  obtain ⟨st, h1, h2, h3, h4⟩ := store_history (.high 2) (by decide) [.add 5 1, .add 6 2]
    (by simp only [OKs, SOp.OK, I32, minInt32, maxInt32]; decide +kernel)
  exact ⟨st, h1, h2, h3, by rw [h4]; decide +kernel⟩

/-- `decode_into_nonempty_is_merge_any`: `exS` decoded into that receiver: the positive bins
    5, 7, 8 meet 5, 6 and everything above the edge 6 is folded onto it; the negative side (sparse
    store) is the plain merge; zero buckets add -/
example : ∃ p₀, runS (Store.new (.high 2)) [.add 5 1, .add 6 2] = some p₀ ∧
    ∃ s' bl t, exS.encode false = some (s', bl) ∧
    Sketch.decodeAndMergeWith
      { mapping := some exM, pos := p₀, neg := .sp [(0, 4)], zero := .fin (1 / 4) }
      (Wire.encBlocks bl) = some (.ok t) ∧
    t.zero = .fin 1 ∧ contentOf t.pos = [(5, 3), (6, 6)] ∧
    contentOf t.neg = [(0, 4), (1, 2), (2, 1), (3, 1)] := by
  obtain ⟨p₀, r1, r2, r3, r4⟩ := exR
  have gn : Good (.sp [(0, 4)]) := ⟨wf_of_wfb _ (by decide +kernel), by decide⟩
  obtain ⟨s', bl, t, h1, h2, _, h4, _, _, _, _, h9, h10, _⟩ :=
    decode_into_nonempty_is_merge_any exS exCp exCn exS_refines exS_pos exS_neg exM rfl exM_ok
      exM_fin (3 / 4) rfl (by decide +kernel) false
      { mapping := some exM, pos := p₀, neg := .sp [(0, 4)], zero := .fin (1 / 4) } rfl r2 gn
      [(5, 1), (6, 2)] [(0, 4)] r4 rfl (1 / 4) rfl (by decide +kernel)
  refine ⟨p₀, r1, s', bl, t, h1, h2, ?_, ?_, ?_⟩
  · rw [h4]; norm_num
  · rw [h9]
    show p₀.clamp.apply _ = _
    rw [clamp_eq_of_kind _ _ r3]; decide +kernel
  · rw [h10]
    show Content.merge [(0, 4)] exCn = _
    decide +kernel

/-- `decode_concat_any_consumer`: `exS` encoded twice (with, then without its mapping) into one
    stream, decoded into lowest-collapsing stores with 2 bins: the sketch merged with itself,
    collapsed -/
example : ∃ s₁' bl₁ s₂' bl₂ t, exS.encode false = some (s₁', bl₁) ∧ exS.encode true = some (s₂', bl₂) ∧
    Sketch.decodeAndMergeWith (Sketch.new none (.low 2))
      (Wire.encBlocks bl₁ ++ Wire.encBlocks bl₂) = some (.ok t) ∧
    t.mapping = some exM ∧ t.zero = .fin (3 / 2) ∧
    contentOf t.pos = [(7, 6), (8, 6)] ∧ contentOf t.neg = [(2, 6), (3, 2)] := by
  obtain ⟨s₁', bl₁, s₂', bl₂, t, h1, h2, h3, h4, h5, _, _, _, _, h10, h11, _⟩ :=
    decode_concat_any_consumer (.low 2) (by decide) exM exM_ok exM_fin
      exS exCp exCn exS_refines exS_pos exS_neg rfl (3 / 4) rfl (by decide +kernel) false
      exS exCp exCn exS_refines exS_pos exS_neg rfl (3 / 4) rfl (by decide +kernel) true
      (by decide +kernel)
  refine ⟨s₁', bl₁, s₂', bl₂, t, h1, h2, h3, h4, ?_, ?_, ?_⟩
  · rw [h5]; norm_num
  · rw [h10]; decide +kernel
  · rw [h11]; decide +kernel

/-- `decode_into_cleared`, `decode_into_cleared_eq_new`: the receiver of the previous examples,
    with both stores highest-collapsing (2 bins) and holding data, is cleared and reused: nothing
    of `{5 ↦ 1, 6 ↦ 2}` survives, and the result is what a new sketch would hold -/
example : ∃ p₀, runS (Store.new (.high 2)) [.add 5 1, .add 6 2] = some p₀ ∧
    ∃ s' bl t t₀, exS.encode false = some (s', bl) ∧
    Sketch.decodeAndMergeWith
      (Sketch.clear { mapping := some exM, pos := p₀, neg := p₀, zero := .fin (1 / 4) })
      (Wire.encBlocks bl) = some (.ok t) ∧
    Sketch.decodeAndMergeWith (Sketch.new (some exM) (.high 2)) (Wire.encBlocks bl) = some (.ok t₀) ∧
    t.mapping = t₀.mapping ∧ t.zero = t₀.zero ∧
    contentOf t.pos = contentOf t₀.pos ∧ contentOf t.neg = contentOf t₀.neg ∧
    t.Refines [(5, 2), (6, 4)] [(1, 2), (2, 2)] ∧ t₀.Refines [(5, 2), (6, 4)] [(1, 2), (2, 2)] := by
  obtain ⟨p₀, r1, r2, r3, _⟩ := exR
  obtain ⟨s', bl, t, t₀, h1, h2, h3, h4, h5, h6, h7, _, _, h10, h11⟩ :=
    decode_into_cleared_eq_new (.high 2) exS exCp exCn exS_refines exS_pos exS_neg exM rfl exM_ok
      (3 / 4) rfl (by decide +kernel) false
      { mapping := some exM, pos := p₀, neg := p₀, zero := .fin (1 / 4) } r2 r2 r3 r3
      (by simpa using accepts_self exM exM_fin)
  have e1 : (clampOfKind (.high 2)).apply exCp = [(5, 2), (6, 4)] := by decide +kernel
  have e2 : (clampOfKind (.high 2)).apply exCn = [(1, 2), (2, 2)] := by decide +kernel
  rw [e1, e2] at h10 h11
  exact ⟨p₀, r1, s', bl, t, t₀, h1, h2, h3, h4, h5, h6, h7, h10, h11⟩

/-- `mergeWithProto_any_store`: the message of `C09.pbBoth` (sparse `{3 ↦ 1.0, 5 ↦ 2.0}` and
    contiguous `[1.0, 1.0, 4.0]` from index 4) merged into a new highest-collapsing store with
    2 bins: index 5 receives `2.0 + 1.0`, then everything above the edge 4 is folded onto it -/
example : ∃ st, mergeWithProto (Store.new (.high 2)) Props.C09.pbBoth = some st ∧ Good st ∧
    contentOf st = [(3, 1), (4, 8)] := by
  obtain ⟨g, c0, _⟩ := good_new (.high 2) (by decide)
  obtain ⟨st, C, a1, a2, _, a4, _, a6, _⟩ :=
    mergeWithProto_any_store Props.C09.pbBoth (msgOK_of_b _ (by decide +kernel)) _ g
  have hb : protoBins Props.C09.pbBoth = [(3, 1), (5, 2), (4, 1), (5, 1), (6, 4)] := by
    unfold protoBins
    rw [normBinCounts_of_increasing _ (by simp [Props.C09.pbBoth])]
    decide +kernel
  refine ⟨st, a1, a2, ?_⟩
  rw [a4, a6, c0, hb]; decide +kernel

/-- … and into a new paginated store: the bins simply add up -/
example : ∃ st, mergeWithProto (Store.new .pag) Props.C09.pbBoth = some st ∧
    contentOf st = [(3, 1), (4, 1), (5, 3), (6, 4)] ∧
    ∀ j, (contentOf st).lookup j = binWeight (normBinCounts Props.C09.pbBoth.binCounts) j +
      contigWeight Props.C09.pbBoth.contiguous Props.C09.pbBoth.contiguousOffset j := by
  obtain ⟨g, c0, _⟩ := good_new .pag trivial
  obtain ⟨st, C, a1, _, _, a4, _, a6, a7⟩ :=
    mergeWithProto_any_store Props.C09.pbBoth (msgOK_of_b _ (by decide +kernel)) _ g
  have hb : protoBins Props.C09.pbBoth = [(3, 1), (5, 2), (4, 1), (5, 1), (6, 4)] := by
    unfold protoBins
    rw [normBinCounts_of_increasing _ (by simp [Props.C09.pbBoth])]
    decide +kernel
  have hC : contentOf st = C := a4
  refine ⟨st, a1, ?_, fun j => ?_⟩
  · rw [hC, a6, c0, hb]; decide +kernel
  · rw [hC, a7 j, c0]; simp

/-- `fromProto_any_consumer`: a message whose positive store carries both sparse and contiguous
    bins (`C09.pbBoth`) and whose negative store is empty, rebuilt with lowest-collapsing stores
    (3 bins): `{3 ↦ 1, 4 ↦ 1, 5 ↦ 3, 6 ↦ 4}` arrives as `{4 ↦ 2, 5 ↦ 3, 6 ↦ 4}` -/
example : ∃ t, fromProto (.low 3) (msgOf exM Props.C09.pbBoth {} (.fin (3 / 4))) = some (.ok t) ∧
    t.mapping = some exM ∧ Good t.pos ∧ Good t.neg ∧
    contentOf t.pos = [(4, 2), (5, 3), (6, 4)] ∧ contentOf t.neg = [] := by
  obtain ⟨t, t1, t2, _, t4, t5, _, _, t8, t9⟩ := fromProto_any_consumer (.low 3) (by decide)
    (msgOf exM Props.C09.pbBoth {} (.fin (3 / 4))) Props.C09.pbBoth {} rfl rfl
    (msgOK_of_b _ (by decide +kernel)) msgOK_empty exM
    (MapId.mappingFromProto_mappingToProto exM exM_ok.gamma exM_ok.offset exM_ok.gt)
  have hb : protoBins Props.C09.pbBoth = [(3, 1), (5, 2), (4, 1), (5, 1), (6, 4)] := by
    unfold protoBins
    rw [normBinCounts_of_increasing _ (by simp [Props.C09.pbBoth])]
    decide +kernel
  refine ⟨t, t1, t2, t4, t5, ?_, ?_⟩
  · rw [t8, hb]; decide +kernel
  · rw [t9, protoBins_empty]; decide +kernel

/-- `fromProto_toProto_any_consumer`: the message of a spec sketch rebuilt with
    lowest-collapsing stores (2 bins) -/
example : ∀ msg, toProto (Sketch.spec (some exM) [(-2, 1), (0, 5 / 2), (7, 3)] [(4, 1)] (.fin 2)) = some msg →
    ∃ t, fromProto (.low 2) msg = some (.ok t) ∧ t.mapping = some exM ∧ t.zero = .fin 2 ∧
      contentOf t.pos = [(6, 7 / 2), (7, 3)] ∧ contentOf t.neg = [(4, 1)] := by
  intro msg hmsg
  obtain ⟨t, t1, t2, t3, _, _, _, _, t8, t9, _⟩ :=
    fromProto_toProto_any_consumer (.low 2) (by decide) exM [(-2, 1), (0, 5 / 2), (7, 3)] [(4, 1)]
      (.fin 2) (wf_of_wfb _ (by decide +kernel)) (wf_of_wfb _ (by decide +kernel))
      (by decide +kernel) (by decide) exM_ok.gamma exM_ok.offset exM_ok.gt
      (F64.toBits_ofBits_rep 2 (by decide +kernel)) msg hmsg
  exact ⟨t, t1, t2, t3, by rw [t8]; decide +kernel, by rw [t9]; decide +kernel⟩

theorem exS_good : Good exS.pos ∧ Good exS.neg ∧ contentOf exS.pos = exCp ∧ contentOf exS.neg = exCn := by
  have hp : contentOf exS.pos = exCp := by
    unfold contentOf; rw [exS_refines.pos.bins]; rfl
  have hn : contentOf exS.neg = exCn := by
    unfold contentOf; rw [exS_refines.neg.bins]; rfl
  exact ⟨good_of_inv (exD_arr.inv rfl) exD_arr.bounded32, exP_ok.inv, hp, hn⟩

/-- `fromProto_toProto_any_kinds`: `exS` (DENSE positive store: contiguous counts; PAGINATED
    negative store: sparse entries) through `ToProto`, rebuilt with highest-collapsing stores
    (2 bins) -/
example : ∃ msg t, toProto exS = some msg ∧ fromProto (.high 2) msg = some (.ok t) ∧
    t.mapping = some exM ∧ t.zero = .fin (3 / 4) ∧ Good t.pos ∧ Good t.neg ∧
    contentOf t.pos = [(5, 2), (6, 4)] ∧ contentOf t.neg = [(1, 2), (2, 2)] := by
  obtain ⟨gp, gn, cp, cn⟩ := exS_good
  obtain ⟨msg, t, h1, h2, h3, h4, h5, h6, _, _, h9, h10, _⟩ :=
    fromProto_toProto_any_kinds (.high 2) (by decide) exS gp gn
      (by rw [cp, cn]; decide +kernel) exM rfl exM_ok.gamma exM_ok.offset exM_ok.gt
      (F64.toBits_ofBits_rep (3 / 4) (by decide +kernel))
  rw [cp] at h9
  rw [cn] at h10
  exact ⟨msg, t, h1, h2, h3, h4, h5, h6, by rw [h9]; decide +kernel, by rw [h10]; decide +kernel⟩

/-- `fromProto_toProto_plain_same_answers`: … rebuilt with sparse (or paginated) stores, it
    answers every query as `exS` -/
example (k : StoreKind) (hk : k = .sparse ∨ k = .pag) (env : MapEnv) :
    ∃ msg t, toProto exS = some msg ∧ fromProto k msg = some (.ok t) ∧
    t.Refines exCp exCn ∧ t.getCount = exS.getCount ∧ t.getSum env = exS.getSum env ∧
    ∀ q : F64, t.quantile env q = exS.quantile env q := by
  have hp : Plain k := by rcases hk with rfl | rfl <;> trivial
  obtain ⟨gp, gn, cp, cn⟩ := exS_good
  obtain ⟨msg, t, h1, h2, R, a1, _, _, a4, _, _, a7⟩ :=
    fromProto_toProto_plain_same_answers k hp exS gp gn
      (by rw [cp, cn]; decide +kernel) exM rfl exM_ok.gamma exM_ok.offset exM_ok.gt
      (F64.toBits_ofBits_rep (3 / 4) (by decide +kernel)) env
  rw [cp, cn] at R
  exact ⟨msg, t, h1, h2, R, a1, a4, fun q => a7 q (fun hc => by rw [cp] at hc; cases hc)⟩

end examples

end DDS.Lift
