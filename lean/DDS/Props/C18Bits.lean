/-
  DDS.Props.C18Bits — the arithmetic forms used in `DDS.Model.Codec` agree with the bit tricks
  of `encoding.go` on 64-bit words (`BitVec 64`).
-/
import DDS.Proofs.Codec

namespace DDS.Props.C18Bits

open DDS DDS.Codec

/-- `uint64(v>>63 ^ v<<1)` (arithmetic shift on `int64`) is `zigzag`. -/
theorem zigzag_bits (v : BitVec 64) :
    (v.sshiftRight 63 ^^^ v <<< 1).toNat = zigzag v.toInt := by
  have hlt := v.isLt
  rw [BitVec.toInt_eq_msb_cond]
  cases hm : v.msb with
  | false =>
    have h63 : v.toNat < 2 ^ 63 := by
      rw [BitVec.msb_eq_decide] at hm; simpa using hm
    have hz : v >>> 63 = 0#64 := by
      apply BitVec.eq_of_toNat_eq
      rw [BitVec.toNat_ushiftRight, Nat.shiftRight_eq_div_pow]
      simp only [BitVec.toNat_ofNat, Nat.zero_mod]
      omega
    rw [BitVec.sshiftRight_eq_of_msb_false hm, hz, BitVec.zero_xor, BitVec.toNat_shiftLeft,
      Nat.shiftLeft_eq]
    unfold zigzag
    simp only [Bool.false_eq_true, if_false, Nat.reducePow]
    split <;> omega
  | true =>
    have h63 : 2 ^ 63 ≤ v.toNat := by
      rw [BitVec.msb_eq_decide] at hm; simpa using hm
    have hz : ~~~v >>> 63 = 0#64 := by
      apply BitVec.eq_of_toNat_eq
      rw [BitVec.toNat_ushiftRight, Nat.shiftRight_eq_div_pow, BitVec.toNat_not]
      simp only [BitVec.toNat_ofNat, Nat.zero_mod]
      omega
    have ha : ~~~(0#64) = BitVec.allOnes 64 := by decide
    rw [BitVec.sshiftRight_eq_of_msb_true hm, hz, ha, BitVec.allOnes_xor, BitVec.toNat_not,
      BitVec.toNat_shiftLeft, Nat.shiftLeft_eq]
    unfold zigzag
    simp only [if_true, Nat.reducePow]
    split <;> omega

example : ((-3 : BitVec 64).sshiftRight 63 ^^^ (-3 : BitVec 64) <<< 1).toNat = 5 := by decide

/-- `int64((u >> 1) ^ -(u & 1))` is `unzigzag`. -/
theorem unzigzag_bits (u : BitVec 64) :
    ((u >>> 1) ^^^ -(u &&& 1#64)).toInt = unzigzag u.toNat := by
  have hlt := u.isLt
  have hand : (u &&& 1#64).toNat = u.toNat % 2 := by
    rw [BitVec.toNat_and]
    exact Nat.and_two_pow_sub_one_eq_mod u.toNat 1
  have hs : (u >>> 1).toNat = u.toNat / 2 := by
    rw [BitVec.toNat_ushiftRight, Nat.shiftRight_eq_div_pow, Nat.pow_one]
  unfold unzigzag
  by_cases hpar : u.toNat % 2 = 0
  · have h1 : u &&& 1#64 = 0#64 := by
      apply BitVec.eq_of_toNat_eq; rw [hand, hpar]; rfl
    have hneg : -(0#64) = 0#64 := by decide
    rw [h1, hneg, BitVec.xor_zero, BitVec.toInt_eq_msb_cond, BitVec.msb_eq_decide, hs]
    have : ¬ (2 ^ (64 - 1) ≤ u.toNat / 2) := by omega
    simp only [hpar, if_true, this, decide_false, Bool.false_eq_true, if_false]
  · have h1 : u &&& 1#64 = 1#64 := by
      apply BitVec.eq_of_toNat_eq; rw [hand]
      have : (1#64).toNat = 1 := by decide
      omega
    have hneg : -(1#64) = BitVec.allOnes 64 := by decide
    rw [h1, hneg, BitVec.xor_allOnes, BitVec.toInt_eq_msb_cond, BitVec.msb_eq_decide,
      BitVec.toNat_not, hs]
    have : 2 ^ (64 - 1) ≤ 2 ^ 64 - 1 - u.toNat / 2 := by omega
    simp only [hpar, if_false, this, decide_true, if_true]
    omega

example : ((5#64 >>> 1) ^^^ -(5#64 &&& 1#64)).toInt = -3 := by decide

/-- One continuation step of `EncodeUvarint64`: the byte `byte(v) | 0x80`, and `v >>= 7`. -/
theorem uvarint_step_bits (v : BitVec 64) :
    ((v.setWidth 8) ||| 0x80#8).toNat = v.toNat % 128 + 128 ∧ (v >>> 7).toNat = v.toNat / 128 := by
  constructor
  · have h : ∀ n, n < 256 → n ||| 128 = n % 128 + 128 := by
      set_option maxRecDepth 8192 in decide
    rw [BitVec.toNat_or, BitVec.toNat_setWidth]
    have := h (v.toNat % 2 ^ 8) (Nat.mod_lt _ (by decide))
    simp only [Nat.reducePow] at this
    simp only [Nat.reducePow, BitVec.toNat_ofNat, Nat.reduceMod]
    omega
  · rw [BitVec.toNat_ushiftRight, Nat.shiftRight_eq_div_pow]

/-- One step of `DecodeUvarint64` / `DecodeVarfloat64`: `x | uint64(n) << s` is an addition when
    the accumulator only has bits below `s`. -/
theorem acc_or_bits (x n : BitVec 64) (s : Nat) (hx : x.toNat < 2 ^ s) :
    (x ||| n <<< s).toNat = (x.toNat + n.toNat * 2 ^ s) % W64 := by
  have hlt := x.isLt
  rw [BitVec.toNat_or, BitVec.toNat_shiftLeft, Nat.or_comm]
  by_cases hs : s < 64
  · have e : n.toNat <<< s % 2 ^ 64 = (n.toNat % 2 ^ (64 - s)) <<< s := by
      rw [Nat.shiftLeft_eq, Nat.shiftLeft_eq]
      have : (2 : Nat) ^ 64 = 2 ^ (64 - s) * 2 ^ s := by
        rw [← Nat.pow_add]; congr 1; omega
      rw [this, Nat.mul_mod_mul_right]
    rw [e, ← Nat.shiftLeft_add_eq_or_of_lt hx, Nat.shiftLeft_eq]
    have hP : (2 : Nat) ^ 64 = 2 ^ (64 - s) * 2 ^ s := by
      rw [← Nat.pow_add]; congr 1; omega
    have hdm := Nat.div_add_mod n.toNat (2 ^ (64 - s))
    unfold W64
    -- n·2^s + x = (n % 2^(64-s))·2^s + x + 2^64·(n / 2^(64-s)), and the first two terms are < 2^64
    have hr : n.toNat % 2 ^ (64 - s) < 2 ^ (64 - s) := Nat.mod_lt _ (Nat.pow_pos (by decide))
    have hsmall : n.toNat % 2 ^ (64 - s) * 2 ^ s + x.toNat < 2 ^ 64 := by
      have : (n.toNat % 2 ^ (64 - s) + 1) * 2 ^ s ≤ 2 ^ (64 - s) * 2 ^ s :=
        Nat.mul_le_mul_right _ hr
      rw [Nat.add_mul, Nat.one_mul] at this
      omega
    have hsplit : x.toNat + n.toNat * 2 ^ s
        = (n.toNat % 2 ^ (64 - s) * 2 ^ s + x.toNat) + 2 ^ 64 * (n.toNat / 2 ^ (64 - s)) := by
      rw [hP]
      calc x.toNat + n.toNat * 2 ^ s
          = x.toNat + (2 ^ (64 - s) * (n.toNat / 2 ^ (64 - s)) + n.toNat % 2 ^ (64 - s)) * 2 ^ s := by
            rw [hdm]
        _ = _ := by
            rw [Nat.add_mul, Nat.mul_right_comm]; omega
    rw [hsplit, Nat.add_mul_mod_self_left, Nat.mod_eq_of_lt hsmall]
  · -- the shift is ≥ 64: the shifted byte vanishes
    have hs' : 64 ≤ s := by omega
    have hz : n.toNat <<< s % 2 ^ 64 = 0 := by
      rw [Nat.shiftLeft_eq]
      apply Nat.mod_eq_zero_of_dvd
      exact Nat.dvd_trans (Nat.pow_dvd_pow 2 hs') (Nat.dvd_mul_left _ _)
    have hz' : n.toNat * 2 ^ s % 2 ^ 64 = 0 := by
      rw [← Nat.shiftLeft_eq]; exact hz
    unfold W64
    rw [hz, Nat.zero_or, Nat.add_mod, hz', Nat.add_zero, Nat.mod_mod]
    exact (Nat.mod_eq_of_lt hlt).symm

/-- Byte `i` written by `binary.LittleEndian.PutUint64`. -/
theorem f64le_byte_bits (b : BitVec 64) (i : Nat) :
    ((b >>> (8 * i)).setWidth 8).toNat = b.toNat / 256 ^ i % 256 := by
  rw [BitVec.toNat_setWidth, BitVec.toNat_ushiftRight, Nat.shiftRight_eq_div_pow, Nat.pow_mul]

/-- `bits.RotateLeft64(x, r)` for `0 ≤ r < 64`. -/
theorem rotl64_bits (x : BitVec 64) (r : Nat) (hr : r < 64) :
    (x.rotateLeft r).toNat = rotl64 x.toNat r := by
  have hlt := x.isLt
  rw [BitVec.toNat_rotateLeft, Nat.mod_eq_of_lt hr]
  unfold rotl64 W64
  have hP : (2 : Nat) ^ 64 = 2 ^ (64 - r) * 2 ^ r := by
    rw [← Nat.pow_add]; congr 1; omega
  have e : x.toNat <<< r % 2 ^ 64 = (x.toNat % 2 ^ (64 - r)) <<< r := by
    rw [Nat.shiftLeft_eq, Nat.shiftLeft_eq, hP, Nat.mul_mod_mul_right]
  have hb : x.toNat >>> (64 - r) < 2 ^ r := by
    rw [Nat.shiftRight_eq_div_pow, Nat.div_lt_iff_lt_mul (Nat.pow_pos (by decide)), Nat.mul_comm,
      ← hP]
    exact hlt
  rw [e, ← Nat.shiftLeft_add_eq_or_of_lt hb, Nat.shiftLeft_eq, Nat.shiftRight_eq_div_pow,
    hP, Nat.mul_mod_mul_right]

/-- `bits.RotateLeft64(x, -r)` for `0 ≤ r < 64` (a right rotation). -/
theorem rotr64_bits (x : BitVec 64) (r : Nat) (hr : r < 64) :
    (x.rotateRight r).toNat = rotr64 x.toNat r := by
  have hlt := x.isLt
  rw [BitVec.toNat_rotateRight, Nat.mod_eq_of_lt hr]
  unfold rotr64
  by_cases h0 : r = 0
  · subst h0
    have : x.toNat <<< (64 - 0) % 2 ^ 64 = 0 := by
      rw [Nat.shiftLeft_eq]; exact Nat.mul_mod_left _ _
    simp [this, Nat.mod_one]
  · have hP : (2 : Nat) ^ 64 = 2 ^ r * 2 ^ (64 - r) := by
      rw [← Nat.pow_add]; congr 1; omega
    have e : x.toNat <<< (64 - r) % 2 ^ 64 = (x.toNat % 2 ^ r) <<< (64 - r) := by
      rw [Nat.shiftLeft_eq, Nat.shiftLeft_eq, hP, Nat.mul_mod_mul_right]
    have hb : x.toNat >>> r < 2 ^ (64 - r) := by
      rw [Nat.shiftRight_eq_div_pow, Nat.div_lt_iff_lt_mul (Nat.pow_pos (by decide)), Nat.mul_comm,
        ← hP]
      exact hlt
    rw [e, Nat.or_comm, ← Nat.shiftLeft_add_eq_or_of_lt hb, Nat.shiftLeft_eq,
      Nat.shiftRight_eq_div_pow, Nat.add_comm]

/-- `RotateLeft64(Float64bits(v+1) - Float64bits(1), 6)` is `vfWord`. -/
theorem vfWord_bits (b : BitVec 64) :
    ((b - BitVec.ofNat 64 oneBits).rotateLeft 6).toNat = vfWord b.toNat := by
  rw [rotl64_bits _ 6 (by decide), BitVec.toNat_sub]
  unfold vfWord
  have h6 : Consts.varfloat64Rotate = 6 := by decide
  have ho : (BitVec.ofNat 64 oneBits).toNat = oneBits := by decide
  rw [h6, ho]
  have e : (2 ^ 64 - oneBits + b.toNat) % 2 ^ 64 = (b.toNat + W64 - oneBits) % W64 := by
    unfold W64 oneBits
    omega
  rw [e]

/-- `RotateLeft64(x, -6) + Float64bits(1)` is `vfUnword`. -/
theorem vfUnword_bits (x : BitVec 64) :
    (x.rotateRight 6 + BitVec.ofNat 64 oneBits).toNat = vfUnword x.toNat := by
  rw [BitVec.toNat_add, rotr64_bits _ 6 (by decide)]
  unfold vfUnword
  have h6 : Consts.varfloat64Rotate = 6 := by decide
  have ho : (BitVec.ofNat 64 oneBits).toNat = oneBits := by decide
  rw [h6, ho]
  rfl

/-- One step of `EncodeVarfloat64`: `byte(x >> 57)` and `x <<= 7`. -/
theorem varfloat_step_bits (x : BitVec 64) :
    (x >>> 57).toNat = x.toNat / 2 ^ 57 ∧ (x <<< 7).toNat = x.toNat * 128 % W64 := by
  constructor
  · rw [BitVec.toNat_ushiftRight, Nat.shiftRight_eq_div_pow]
  · rw [BitVec.toNat_shiftLeft, Nat.shiftLeft_eq]; rfl

/-- `bits.LeadingZeros64`. -/
theorem lzcnt64_bits (x : BitVec 64) : x.clz.toNat = lzcnt64 x.toNat := by
  unfold lzcnt64
  by_cases h0 : x = 0#64
  · subst h0; decide
  · have hne : x.toNat ≠ 0 := by
      intro h; apply h0; apply BitVec.eq_of_toNat_eq; simpa using h
    have hc : x.clz.toNat < 64 := by
      have := (BitVec.clz_lt_iff_ne_zero (x := x)).mpr h0
      rw [BitVec.lt_def] at this
      simpa using this
    have hlo := BitVec.two_pow_sub_clz_le_toNat_of_ne_zero (x := x) (by decide) h0
    have hhi := BitVec.toNat_lt_two_pow_sub_clz (x := x)
    simp only [hne, if_false]
    have h1 : x.toNat.log2 < 64 - x.clz.toNat := (Nat.log2_lt hne).mpr hhi
    have h2 : ¬ x.toNat.log2 < 64 - 1 - x.clz.toNat := by
      rw [Nat.log2_lt hne]; omega
    omega

/-- `tzcnt64` is determined by the lowest set bit. -/
theorem tzcnt64_eq_of (x t : Nat) (ht : t < 64) (hbit : x / 2 ^ t % 2 = 1)
    (hlow : ∀ j, j < t → x / 2 ^ j % 2 = 0) : tzcnt64 x = t := by
  unfold tzcnt64
  have h0 : x ≠ 0 := by
    intro h; subst h; simp at hbit
  have : (List.range 64).find? (fun i => decide ((x / 2 ^ i) % 2 = 1)) = some t := by
    rw [List.find?_range_eq_some]
    refine ⟨by simpa using hbit, List.mem_range.mpr ht, ?_⟩
    intro j hj
    have := hlow j hj
    simp [this]
  simp only [h0, if_false, this, Option.getD_some]

/-- `bits.TrailingZeros64`. -/
theorem tzcnt64_bits (x : BitVec 64) : x.ctz.toNat = tzcnt64 x.toNat := by
  by_cases h0 : x = 0#64
  · subst h0
    have hr : (0#64).reverse = 0#64 := BitVec.reverse_eq_zero_iff.mpr rfl
    have hz : (0#64).ctz = 64#64 := by
      rw [BitVec.ctz_eq_reverse_clz, hr]
      exact BitVec.clz_eq_iff_eq_zero.mpr rfl
    rw [hz]; decide
  · have hc : x.ctz.toNat < 64 := by
      have := (BitVec.ctz_lt_iff_ne_zero (x := x)).mpr h0
      rw [BitVec.lt_def] at this
      simpa using this
    symm
    apply tzcnt64_eq_of _ _ hc
    · have := BitVec.getLsbD_true_ctz_of_ne_zero (x := x) h0
      rw [← BitVec.testBit_toNat, Nat.testBit_eq_decide_div_mod_eq] at this
      simpa using this
    · intro j hj
      have := BitVec.getLsbD_false_of_lt_ctz (x := x) hj
      rw [← BitVec.testBit_toNat, Nat.testBit_eq_decide_div_mod_eq] at this
      have := of_decide_eq_false this
      omega

example : (0x0400000000000030#64).ctz.toNat = 4 := by rw [tzcnt64_bits]; decide
example : (0x0400000000000030#64).clz.toNat = 5 := by rw [lzcnt64_bits]; decide
example : ((0x4059000000000000#64 - BitVec.ofNat 64 oneBits).rotateLeft 6).toNat
    = vfWord 0x4059000000000000 := vfWord_bits _

end DDS.Props.C18Bits
