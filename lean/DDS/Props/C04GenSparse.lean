/-
  DDS.Props.C04GenSparse — C04 ("a store is the map  index ↦ accumulated weight") on the REGENERATED
  sparse store (`DDS/Generated/CodeSparse.lean`, translated from `/repo/ddsketch/store/sparse.go` on
  every run), for EVERY lawful iteration order of Go's `range` over the map and any fuel.

  A history is a list `l` of `(index, weight)` additions with weights `≥ 0`, run by the generated
  `AddWithCount` from `NewSparseStore()` (`genAdds l`).  The mathematical map of the history is
    `W l j   = Content.lookup l j`   the sum of the weights added at index `j`,
    `cum l k = Content.cumul l k`    the sum of the weights added at indexes `≤ k`,
    `Content.total l`                the sum of all the weights added.
  (`Content.lookup / cumul / total` make no assumption on the list, so on the raw history they ARE
  these sums: `Content.lookup_eq_wsum`, `Content.cumul_eq_sum`, `Content.total_eq_wsum`.)

  The corollaries transport the spec theorems about `Content` (`DDS/Proofs/Bins.lean`) along the
  equivalences of `DDS/Proofs/GenSparse.lean`:
  * `gen_adds_rep`        the generated store holds exactly the canonical content `Content.ofList l`
  * `gen_totalCount`      `TotalCount = Σ weights`
  * `gen_minIndex_spec`, `gen_maxIndex_spec`   the least / greatest index of positive accumulated
                          weight; the error values exactly when nothing of positive weight was added
  * `gen_keyAtRank_spec`  the first index whose cumulative weight exceeds `max r 0`, else the greatest
                          index of positive weight
  * `gen_orderedBins_spec` `Bins()` enumerates, by strictly increasing index, exactly the indexes of
                          positive accumulated weight, each with its accumulated weight
  Key-range hypotheses (`-2^63 ≤ index` for `MaxIndex/KeyAtRank`, `index < 2^63` for `MinIndex`) are
  those of `GenSparse` (an artefact of `GoSem`'s unbounded `int`).
-/
import DDS.Proofs.GenSparse

namespace DDS.Props.C04GenSparse

open DDS DDS.GoSem DDS.Gen.Sparse DDS.GenSparse

/-- the generated store after the additions `l`, from `NewSparseStore()` -/
def genAdds (l : List (Int × Rat)) : SparseStore :=
  l.foldl (fun g p => g.AddWithCount p.1 p.2) NewSparseStore

theorem foldl_rep (l : List (Int × Rat)) (hl : ∀ p ∈ l, 0 ≤ p.2) (g : SparseStore) (c : Content)
    (h : Rep g c) : Rep (l.foldl (fun g p => g.AddWithCount p.1 p.2) g) (c.merge l) := by
  induction l generalizing g c with
  | nil => exact h
  | cons p rest ih =>
    rw [List.foldl_cons, Content.merge_cons]
    exact ih (fun q hq => hl q (List.mem_cons_of_mem _ hq)) _ _
      (addWithCount_rep h p.1 p.2 (hl p (List.mem_cons_self ..)))

/-- after any history of additions with non-negative weights the generated store holds exactly the
    canonical content of the history -/
theorem gen_adds_rep (l : List (Int × Rat)) (hl : ∀ p ∈ l, 0 ≤ p.2) :
    Rep (genAdds l) (Content.ofList l) :=
  foldl_rep l hl _ _ rep_new

theorem lookup_ofList (l : List (Int × Rat)) (j : Int) :
    (Content.ofList l).lookup j = Content.lookup l j := by
  have : Content.ofList l = Content.merge [] l := rfl
  rw [this, Content.lookup_merge, Content.lookup_nil, Rat.zero_add]

theorem total_ofList (l : List (Int × Rat)) : (Content.ofList l).total = Content.total l := by
  have : Content.ofList l = Content.merge [] l := rfl
  rw [this, Content.total_merge, Content.total_nil, Rat.zero_add]

theorem cumul_eq_wsum (m : Content) (k : Int) :
    Content.cumul m k = Content.wsum (fun i => decide (i ≤ k)) m := by
  rw [Content.cumul_eq_sum]; rfl

theorem cumul_ofList (l : List (Int × Rat)) (k : Int) :
    (Content.ofList l).cumul k = Content.cumul l k := by
  have : Content.ofList l = Content.merge [] l := rfl
  rw [cumul_eq_wsum, cumul_eq_wsum, this, Content.wsum_merge, Content.wsum_nil, Rat.zero_add]

theorem keys_ofList (l : List (Int × Rat)) (p : Int × Rat) (hp : p ∈ Content.ofList l) :
    ∃ q ∈ l, q.1 = p.1 := by
  have : Content.ofList l = Content.merge [] l := rfl
  rw [this] at hp
  rcases Content.mem_merge hp with h | h
  · simp at h
  · exact h

/-! ### `TotalCount` -/

/-- `TotalCount` is the sum of the weights added, whatever the iteration order -/
theorem gen_totalCount (l : List (Int × Rat)) (hl : ∀ p ∈ l, 0 ≤ p.2) (fuel : Nat) (ord : MapOrder)
    (ho : ord.Lawful) : (genAdds l).TotalCount fuel ord = .ok (Content.total l) := by
  rw [totalCount_eq (gen_adds_rep l hl).repS fuel ord ho]
  show Res.ok (Content.ofList l).total = _
  rw [total_ofList]

/-! ### `MinIndex` / `MaxIndex` -/

/-- `MinIndex`: either `(k, nil)` with `k` the least index of positive accumulated weight, or
    `(0, errUndefinedMinIndex)` and every accumulated weight is 0 -/
theorem gen_minIndex_spec (l : List (Int × Rat)) (hl : ∀ p ∈ l, 0 ≤ p.2)
    (hk : ∀ p ∈ l, p.1 < (2:Int)^63) (fuel : Nat) (ord : MapOrder) (ho : ord.Lawful) :
    (∃ k, (genAdds l).MinIndex fuel ord = .ok (k, GoErr.nil) ∧
        0 < Content.lookup l k ∧ ∀ j, j < k → Content.lookup l j = 0) ∨
    ((genAdds l).MinIndex fuel ord = .ok (0, errUndefinedMinIndex) ∧ ∀ j, Content.lookup l j = 0) := by
  have hrep := gen_adds_rep l hl
  have hwf := hrep.2
  rw [minIndex_eq hrep.repS fuel ord ho (fun p hp => by
    obtain ⟨q, hq, e⟩ := keys_ofList l p hp; rw [← e]; exact hk q hq)]
  rw [show (Store.sp (Content.ofList l)).minIndex? = Content.minIndex? (Content.ofList l) from rfl]
  cases hm : Content.minIndex? (Content.ofList l) with
  | none =>
    right
    refine ⟨rfl, fun j => ?_⟩
    rw [← lookup_ofList, Content.minIndex?_eq_none.1 hm]; rfl
  | some k =>
    left
    refine ⟨k, rfl, ?_, fun j hj => ?_⟩
    · rw [← lookup_ofList, Content.lookup_pos_iff _ hwf]
      exact Content.minIndex_mem _ k hm
    · rw [← lookup_ofList]
      apply Content.lookup_eq_zero_of_lt
      intro p hp
      have := Content.minIndex_le _ hwf k hm p hp
      omega

/-- `MaxIndex`, symmetric -/
theorem gen_maxIndex_spec (l : List (Int × Rat)) (hl : ∀ p ∈ l, 0 ≤ p.2)
    (hk : ∀ p ∈ l, -(2:Int)^63 ≤ p.1) (fuel : Nat) (ord : MapOrder) (ho : ord.Lawful) :
    (∃ k, (genAdds l).MaxIndex fuel ord = .ok (k, GoErr.nil) ∧
        0 < Content.lookup l k ∧ ∀ j, k < j → Content.lookup l j = 0) ∨
    ((genAdds l).MaxIndex fuel ord = .ok (0, errUndefinedMaxIndex) ∧ ∀ j, Content.lookup l j = 0) := by
  have hrep := gen_adds_rep l hl
  have hwf := hrep.2
  rw [maxIndex_eq hrep.repS fuel ord ho (fun p hp => by
    obtain ⟨q, hq, e⟩ := keys_ofList l p hp; rw [← e]; exact hk q hq)]
  rw [show (Store.sp (Content.ofList l)).maxIndex? = Content.maxIndex? (Content.ofList l) from rfl]
  cases hm : Content.maxIndex? (Content.ofList l) with
  | none =>
    right
    refine ⟨rfl, fun j => ?_⟩
    rw [← lookup_ofList, Content.maxIndex?_eq_none.1 hm]; rfl
  | some k =>
    left
    refine ⟨k, rfl, ?_, fun j hj => ?_⟩
    · rw [← lookup_ofList, Content.lookup_pos_iff _ hwf]
      exact Content.maxIndex_mem _ k hm
    · rw [← lookup_ofList]
      apply Content.lookup_eq_zero_of_not_mem
      intro p hp
      have := Content.le_maxIndex _ hwf k hm p hp
      omega

/-! ### `KeyAtRank` -/

/-- below the first key whose cumulative weight exceeds `r`, no cumulative weight does (every index,
    not only the keys) -/
theorem firstExceeding_below (c : Content) (hs : c.Sorted) (acc r : Rat) (hacc : acc ≤ r) (k : Int)
    (hk : c.firstExceeding acc r = some k) : ∀ j, j < k → acc + c.cumul j ≤ r := by
  induction c generalizing acc with
  | nil => simp [Content.firstExceeding] at hk
  | cons q rest ih =>
    intro j hj
    rw [Content.firstExceeding_cons] at hk
    have hlt := hs.head_lt
    split at hk
    · simp only [Option.some.injEq] at hk
      subst hk
      have h0 := Content.cumul_eq_zero_of_lt rest j (fun p hp => by have := hlt p hp; omega)
      rw [Content.cumul_cons, if_neg (by omega), h0]; grind
    · rename_i hnot
      have := ih hs.tail (acc + q.2) (by grind) hk j hj
      rw [Content.cumul_cons]
      by_cases hq : q.1 ≤ j
      · rw [if_pos hq]; grind
      · rw [if_neg hq, Content.cumul_eq_zero_of_lt rest j (fun p hp => by have := hlt p hp; omega)]
        grind

/-- `KeyAtRank(r)` after a history that added some positive weight: the first index whose cumulative
    accumulated weight exceeds `max r 0`; when none does, the greatest index of positive weight.
    Every lawful order, any fuel, every rational rank. -/
theorem gen_keyAtRank_spec (l : List (Int × Rat)) (hl : ∀ p ∈ l, 0 ≤ p.2)
    (hk : ∀ p ∈ l, -(2:Int)^63 ≤ p.1) (hpos : ∃ j, Content.lookup l j ≠ 0)
    (fuel : Nat) (ord : MapOrder) (ho : ord.Lawful) (r : Rat) :
    ∃ k, (genAdds l).KeyAtRank fuel ord r = .ok k ∧
      let r' := if r < 0 then 0 else r
      (r' < Content.cumul l k ∧ ∀ j, j < k → Content.cumul l j ≤ r') ∨
      (Content.total l ≤ r' ∧ 0 < Content.lookup l k ∧ ∀ j, k < j → Content.lookup l j = 0) := by
  have hrep := gen_adds_rep l hl
  have hwf := hrep.2
  have hne : Content.ofList l ≠ [] := by
    intro h
    obtain ⟨j, hj⟩ := hpos
    rw [← lookup_ofList, h] at hj
    exact hj rfl
  refine ⟨(Content.ofList l).keyAtRank r, ?_, ?_⟩
  · rw [keyAtRank_eq hrep.repS fuel ord ho (fun p hp => by
      obtain ⟨q, hq, e⟩ := keys_ofList l p hp; rw [← e]; exact hk q hq) r,
      Store.sp_keyAtRank _ hwf r]
  · intro r'
    have hr' : (0 : Rat) ≤ r' := by show (0 : Rat) ≤ if r < 0 then 0 else r; split <;> grind
    cases hfe : Content.firstExceeding (Content.ofList l) 0 r' with
    | some k' =>
      have hkk : (Content.ofList l).keyAtRank r = k' := by
        unfold Content.keyAtRank
        rw [show (if r < 0 then 0 else r) = r' from rfl, hfe]
      left
      rw [hkk]
      obtain ⟨h1, _⟩ := Content.firstExceeding_some_spec _ hwf.1 0 r' k' hfe
      have h2 := firstExceeding_below _ hwf.1 0 r' hr' k' hfe
      rw [cumul_ofList] at h1
      refine ⟨by grind, fun j hj => ?_⟩
      have := h2 j hj
      rw [cumul_ofList] at this
      grind
    | none =>
      obtain ⟨k', hk'⟩ := Content.maxIndex?_isSome _ hne
      have hkk : (Content.ofList l).keyAtRank r = k' := by
        unfold Content.keyAtRank
        rw [show (if r < 0 then 0 else r) = r' from rfl, hfe, hk']
        rfl
      right
      rw [hkk]
      have h1 := Content.firstExceeding_none_spec _ 0 r' hr' hfe
      rw [total_ofList] at h1
      refine ⟨by grind, ?_, fun j hj => ?_⟩
      · rw [← lookup_ofList, Content.lookup_pos_iff _ hwf]
        exact Content.maxIndex_mem _ k' hk'
      · rw [← lookup_ofList]
        apply Content.lookup_eq_zero_of_not_mem
        intro p hp
        have := Content.le_maxIndex _ hwf k' hk' p hp
        omega

/-! ### `orderedBins` (what `Bins()` sends) -/

/-- `orderedBins`: by strictly increasing index, exactly the indexes of positive accumulated weight,
    each with its accumulated weight — whatever order `range` picked -/
theorem gen_orderedBins_spec (l : List (Int × Rat)) (hl : ∀ p ∈ l, 0 ≤ p.2) (fuel : Nat)
    (ord : MapOrder) (ho : ord.Lawful) :
    ∃ bins, (genAdds l).orderedBins fuel ord = .ok bins ∧
      bins.Pairwise (fun a b => a.index < b.index) ∧
      (∀ b ∈ bins, 0 < b.count ∧ b.count = Content.lookup l b.index) ∧
      (∀ j, 0 < Content.lookup l j → ∃ b ∈ bins, b.index = j) := by
  have hrep := gen_adds_rep l hl
  have hwf := hrep.2
  refine ⟨_, orderedBins_eq hrep.repS fuel ord ho, ?_, ?_, ?_⟩
  · rw [List.pairwise_map]
    exact (sorted_iff_pairwise _).1 hwf.1
  · intro b hb
    obtain ⟨p, hp, rfl⟩ := List.mem_map.1 hb
    exact ⟨hwf.2 p hp, by rw [← lookup_ofList]; exact (Content.lookup_pos_of_mem _ hwf p hp).symm⟩
  · intro j hj
    rw [← lookup_ofList, Content.lookup_pos_iff _ hwf] at hj
    obtain ⟨w, hw⟩ := hj
    exact ⟨toBin (j, w), List.mem_map.2 ⟨_, hw, rfl⟩, rfl⟩

/-! ### non-vacuity: a concrete history, two different orders, same answers -/

example : (genAdds [(7, 2), (3, 1), (7, 1)]).counts = [(3, 1), (7, 3)] := by decide +kernel
def okRat : Res Rat → Option Rat
  | .ok k => some k
  | _ => none
-- (`orderedBins` sorts with `List.mergeSort`, defined by well-founded recursion, which the kernel does
-- not evaluate: the `KeyAtRank` instance goes through the theorem, its hypotheses checked by the kernel)
example : (genAdds [(7, 2), (3, 1), (7, 1)]).KeyAtRank 0 descending 1 = .ok 7 := by
  rw [keyAtRank_eq (gen_adds_rep _ (by decide +kernel)).repS 0 descending descending_lawful
    (by decide +kernel) 1]
  exact congrArg Res.ok (by decide +kernel)
example : ((genAdds [(7, 2), (3, 1), (7, 1)]).MaxIndex 0 descending).bind (fun r => .ok r.1) = .ok 7 := by
  rfl
example : okRat ((genAdds [(7, 2), (3, 1), (7, 1)]).TotalCount 0 descending) = some 4 := by
  decide +kernel

end DDS.Props.C04GenSparse
