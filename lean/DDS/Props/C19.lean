/-
  DDS.Props.C19 — the identity of an index mapping `(kind, gamma, indexOffset)`:
  * it survives both serialized forms (mapping block of the binary format, `IndexMapping`
    protobuf message) bit for bit (`binary_roundtrip`, `proto_roundtrip`);
  * the decoders reject unknown kinds and `gamma ≤ 1`;
  * `Equals` is reflexive and symmetric on finite parameters, false across kinds, and false
    when the gammas differ by more than the tolerance (`not_equals_of_gamma_apart`);
  * the mapping functions of `DDS.Model.Mapping` depend on the identity only.
  Helpers are in `DDS.Proofs.MapId`.
-/
import DDS.Proofs.MapId

namespace DDS.Props.C19
open DDS

/-- the bit patterns of the two parameters survive `toBits`/`ofBits` (every float does, in Go;
    in the model `F64.fin q` with `q` not a binary64 number does not) and `gamma > 1` in the sense
    of the constructors (`¬ gamma <= 1`) -/
structure Valid (m : MapId) : Prop where
  gammaBits : F64.ofBits (F64.toBits m.gamma) = m.gamma
  offsetBits : F64.ofBits (F64.toBits m.indexOffset) = m.indexOffset
  gammaGtOne : F64.le m.gamma (.fin 1) = false

/-- the logarithmic mapping of relative accuracy 1 %: `gamma = 1.02` (nearest float), offset 0 -/
def m102 : MapId := { kind := .log, gamma := F64.ofBits 0x3FF051EB851EB852, indexOffset := .fin 0 }

theorem gamma102_eq : F64.ofBits 0x3FF051EB851EB852 = .fin (4593671619917906 / 4503599627370496) := by
  simp [F64.ofBits, pow2_eq_zpow]
  norm_num

theorem m102_valid : Valid m102 := by
  refine ⟨?_, ?_, ?_⟩
  · show F64.ofBits (F64.toBits (F64.ofBits 0x3FF051EB851EB852)) = F64.ofBits 0x3FF051EB851EB852
    rw [F64.ofBits_toBits_fin _ (by rw [gamma102_eq]; simp) (by decide)]
  · exact F64.toBits_ofBits_rep 0 (by decide +kernel)
  · show F64.le (F64.ofBits 0x3FF051EB851EB852) (.fin 1) = false
    rw [gamma102_eq, MapId.le_fin]
    norm_num

/-! ### the two serialized forms -/

theorem binary_roundtrip (m : MapId)
    (hg : F64.ofBits (F64.toBits m.gamma) = m.gamma)
    (ho : F64.ofBits (F64.toBits m.indexOffset) = m.indexOffset)
    (h1 : F64.le m.gamma (.fin 1) = false) (rest : Bytes) :
    Wire.parseBlock (Wire.encBlock m.toBlock ++ rest) = .ok (m.toBlock, rest) ∧
    (match m.toBlock with
      | .mapping sub g o => MapId.ofBlock sub g o = .ok m
      | _ => False) := by
  exact ⟨MapId.parseBlock_encBlock_mapping _ _ _ (MapId.subFlag_le _) (MapId.toBits_lt _)
    (MapId.toBits_lt _) rest, MapId.ofBlock_toBlock m hg ho h1⟩

example (rest : Bytes) :
    Wire.parseBlock (Wire.encBlock m102.toBlock ++ rest) = .ok (m102.toBlock, rest) :=
  (binary_roundtrip m102 m102_valid.1 m102_valid.2 m102_valid.3 rest).1

theorem proto_roundtrip (m : MapId)
    (hg : F64.ofBits (F64.toBits m.gamma) = m.gamma)
    (ho : F64.ofBits (F64.toBits m.indexOffset) = m.indexOffset)
    (h1 : F64.le m.gamma (.fin 1) = false) :
    Proto.mappingFromProto (some (Proto.mappingToProto m)) = .ok m :=
  MapId.mappingFromProto_mappingToProto m hg ho h1

example : Proto.mappingFromProto (some (Proto.mappingToProto m102)) = .ok m102 :=
  proto_roundtrip m102 m102_valid.1 m102_valid.2 m102_valid.3

/-! ### rejections -/

/-- `gamma ≤ 1` (as floats) is rejected for the three known kinds -/
theorem ofBlock_rejects_gamma_le_one (sub g o : Nat) (hs : sub = 0 ∨ sub = 1 ∨ sub = 3)
    (hg : F64.le (F64.ofBits (UInt64.ofNat g)) (.fin 1) = true) :
    MapId.ofBlock sub g o = .error .gammaTooSmall :=
  MapId.ofBlock_gamma_le_one sub g o hs hg

-- gamma = 1.0
example : MapId.ofBlock 0 0x3FF0000000000000 0 = .error .gammaTooSmall :=
  ofBlock_rejects_gamma_le_one 0 _ 0 (Or.inl rfl) (by decide +kernel)

/-- sub-flags 2 (quadratic), 4 (quartic) and anything `≥ 5` are rejected, whatever the payload -/
theorem ofBlock_rejects_unknown_kind (sub g o : Nat) (hs : sub = 2 ∨ sub = 4 ∨ 5 ≤ sub) :
    MapId.ofBlock sub g o = .error .unknownMapping :=
  MapId.ofBlock_unknown sub g o (by omega) (by omega) (by omega)

example : MapId.ofBlock Consts.subFlagIndexMappingBaseQuadratic 0x3FF051EB851EB852 0 = .error .unknownMapping :=
  ofBlock_rejects_unknown_kind _ _ _ (Or.inl rfl)
example : MapId.ofBlock Consts.subFlagIndexMappingBaseQuartic 0x3FF051EB851EB852 0 = .error .unknownMapping :=
  ofBlock_rejects_unknown_kind _ _ _ (Or.inr (Or.inl rfl))

/-- the protobuf side: an interpolation outside {NONE, LINEAR, CUBIC} is rejected -/
theorem mappingFromProto_rejects_unknown_interpolation (pm : Proto.PbMapping)
    (h : pm.interpolation = 2 ∨ 4 ≤ pm.interpolation) :
    Proto.mappingFromProto (some pm) = .error .badInterpolation := by
  unfold Proto.mappingFromProto
  have h0 : pm.interpolation ≠ 0 := by omega
  have h1 : pm.interpolation ≠ 1 := by omega
  have h3 : pm.interpolation ≠ 3 := by omega
  simp only [if_neg h0, if_neg h1, if_neg h3]

/-! ### `Equals` -/

theorem equals_refl (m : MapId) (g o : Rat) (hg : m.gamma = .fin g) (ho : m.indexOffset = .fin o) :
    m.equals m = true := by
  simp [MapId.equals, hg, ho, MapId.withinTolerance_refl]

example : m102.equals m102 = true := equals_refl m102 _ 0 gamma102_eq rfl

/-- Finiteness is needed: `gamma = +Inf` passes the constructors' check (`¬ +Inf <= 1`), is accepted
    by the decoder, and the resulting mapping is not `Equals` to itself (`Inf - Inf` is NaN). Same
    in Go: `withinTolerance(+Inf, +Inf, 1e-12)` is false. -/
example : MapId.ofBlock 0 0x7FF0000000000000 0 = .ok ⟨.log, .pinf, .fin 0⟩ := by decide +kernel
example : (⟨.log, .pinf, .fin 0⟩ : MapId).equals ⟨.log, .pinf, .fin 0⟩ = false := by decide +kernel

theorem equals_symm (a b : MapId) (ga gb oa ob : Rat)
    (hga : a.gamma = .fin ga) (hgb : b.gamma = .fin gb)
    (hoa : a.indexOffset = .fin oa) (hob : b.indexOffset = .fin ob) :
    a.equals b = b.equals a := by
  unfold MapId.equals
  rw [hga, hgb, hoa, hob, MapId.withinTolerance_symm ga gb, MapId.withinTolerance_symm oa ob]
  cases a.kind <;> cases b.kind <;> rfl

theorem equals_kind (a b : MapId) (h : a.kind ≠ b.kind) : a.equals b = false := by
  unfold MapId.equals
  have : (a.kind == b.kind) = false := by simpa using h
  rw [this]; rfl

example : m102.equals { m102 with kind := .cubic } = false := equals_kind _ _ (by decide)

/-- the same identity (kind, gamma, offset) is `Equals` -/
theorem equals_of_identity (a b : MapId) (g o : Rat) (hk : a.kind = b.kind)
    (hg : a.gamma = b.gamma) (ho : a.indexOffset = b.indexOffset)
    (hgf : a.gamma = .fin g) (hof : a.indexOffset = .fin o) : a.equals b = true := by
  have : a = b := by
    cases a; cases b; simp_all
  subst this
  exact equals_refl a g o hgf hof

/-- gammas (of valid mappings: `≥ 1`, finite) further apart than the relative tolerance are told
    apart.  Sufficient gap, in exact rationals: `ga·(1 + 2·10⁻¹²) < gb` (either way round). The
    model's float arithmetic is used as is: `sub`, `mul`, `le` with their roundings. -/
theorem not_equals_of_gamma_apart (a b : MapId) (ga gb : Rat)
    (hga : a.gamma = .fin ga) (hgb : b.gamma = .fin gb)
    (h1a : 1 ≤ ga) (h1b : 1 ≤ gb) (hfa : ga ≤ pow2 1023) (hfb : gb ≤ pow2 1023)
    (h : ga * (1 + 2 / 10^12) < gb ∨ gb * (1 + 2 / 10^12) < ga) :
    a.equals b = false := by
  unfold MapId.equals
  rw [hga, hgb]
  have : MapId.withinTolerance (.fin ga) (.fin gb) = false := by
    rcases h with h | h
    · exact MapId.withinTolerance_apart ga gb h1a h hfb
    · rw [MapId.withinTolerance_symm]; exact MapId.withinTolerance_apart gb ga h1b h hfa
  rw [this]; simp

/-- gamma = 1.02 against gamma = 1.03 -/
example : m102.equals { m102 with gamma := .fin (103 / 100) } = false := by
  refine not_equals_of_gamma_apart _ _ _ _ gamma102_eq rfl (by norm_num) (by norm_num) ?_ ?_
    (Or.inl (by norm_num))
  · exact le_trans (by norm_num : (4593671619917906 / 4503599627370496 : Rat) ≤ 2) (by
      have := pow2_mono (show (1:Int) ≤ 1023 by norm_num); rwa [pow2_one] at this)
  · exact le_trans (by norm_num : (103 / 100 : Rat) ≤ 2) (by
      have := pow2_mono (show (1:Int) ≤ 1023 by norm_num); rwa [pow2_one] at this)

/-! ### the mapping functions depend on the identity only -/

/-- In the sketch model the mapping functions are an oracle keyed by `MapId` (`MapEnv.id`), so
    "equal identity ⇒ equal functions" is built in there.  The statement with content is about the
    formulas of `DDS.Model.Mapping` (the definitions the driver runs with floats and C03 reads over
    the reals): they are functions of `(kind, gamma, indexOffset)` and nothing else. -/
theorem identity_determines_functions {F : Type} [MOps F] (p q : Mapping.Params F)
    (hk : p.kind = q.kind) (hg : p.gamma = q.gamma) (ho : p.indexOffset = q.indexOffset) :
    Mapping.index p = Mapping.index q ∧ Mapping.value p = Mapping.value q ∧
    Mapping.lowerBound p = Mapping.lowerBound q ∧
    Mapping.relativeAccuracy p = Mapping.relativeAccuracy q ∧
    Mapping.minIndexable p = Mapping.minIndexable q ∧
    Mapping.maxIndexable p = Mapping.maxIndexable q := by
  have : p = q := by
    cases p; cases q; simp_all
  subst this
  exact ⟨rfl, rfl, rfl, rfl, rfl, rfl⟩

end DDS.Props.C19
