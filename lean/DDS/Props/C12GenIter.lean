/-
  DDS.Props.C12GenIter — property C12 (iteration and approximate sum) on the REGENERATED code
  (`DDS/Generated/CodeSketchIter.lean`: `DDSketch.ForEach`, `DDSketch.GetSum`), by chaining the equivalences of
  `DDS/Proofs/GenSketch7.lean` with the model-level theorems of `DDS/Props/C12.lean` and `DDS/Props/C12x.lean`.

  * `forEach_gen_bins` — on ANY model sketch `s` (any store kinds) refining contents `cp`, `cn` (well-formed),
    zero count `zq ≥ 0`: the regenerated `ForEach` with a visitor that records its calls and never stops returns
    normally, for any fuel, with the calls `liftL l` where `l` is the model's enumeration; every recorded weight
    is the float of a POSITIVE rational (no empty bin is reported) and the weights sum to
    `zq + cp.total + cn.total` (the count).
  * `forEach_gen_stops` — with a visitor that stops according to a predicate `p`, the calls are
    `takeThrough p (liftL l)`: a prefix of the enumeration, ending with the first bin on which `p` holds;
    all of it if `p` never holds (`forEach_gen_never`).
  * `getSum_gen_exact` — under `SumExact l` (no rounding) the regenerated `GetSum` returns the exact
    approximate sum `approxSumL l`.
  * `getSum_gen_accuracy` — values added one by one to a sparse sketch, same-signed data: the regenerated
    `GetSum` is within `α` of the true sum (under `SumExact`).

  Core Lean + what C12x imports.
-/
import DDS.Proofs.GenSketch7
import DDS.Props.C12
import DDS.Props.C12x

namespace DDS.Props.C12GenIter

open DDS DDS.GoSem DDS.GenSketch DDS.GenSketch7 DDS.Extremes

/-- the visitor that records its calls and never stops -/
def recorder : List (F64 × F64) → F64 → F64 → Res (List (F64 × F64) × Bool) :=
  fun log v c => .ok (log ++ [(v, c)], false)

theorem takeThrough_false (l : List (F64 × F64)) : takeThrough (fun _ _ => false) l = l :=
  takeThrough_all _ l (fun _ _ => rfl)

/-- **iteration yields each non-empty bin once, with positive weight, summing to the count** -/
theorem forEach_gen_bins (env : MapEnv) (s : Sketch) (cp cn : Content) (zq : Rat)
    (h : s.Refines cp cn) (hzero : s.zero = .fin zq)
    (hcp : cp.WF) (hcn : cn.WF) (hz : 0 ≤ zq) (fuel : Nat) :
    ∃ l : List (F64 × Rat),
      s.forEachList env = some l ∧
      Gen.SketchIter.DDSketch.ForEach fuel (toGen env s) [] recorder = .ok (liftL l) ∧
      (∀ p ∈ l, 0 < p.2) ∧ (l.map (·.2)).sum = zq + cp.total + cn.total := by
  have hc := Sketch.forEachList_congr env h
  rw [hzero] at hc
  obtain ⟨l, hl⟩ := C12.forEach_total env s.mapping cp cn zq
  refine ⟨l, by rw [hc, hl], ?_, C12.forEach_weights_positive env s.mapping cp cn zq hcp hcn hz l hl,
    C12.forEach_weights_sum env s.mapping cp cn zq l hl⟩
  have := ForEach_model_calls env s l (by rw [hc, hl]) (by rw [hzero]; rfl) fuel (fun _ _ => false)
  rw [takeThrough_false] at this
  exact this

/-- **iteration stops as asked**: the visitor is called on the bins in order up to and including the first one
    on which it answers `true`, and never again -/
theorem forEach_gen_stops (env : MapEnv) (s : Sketch) (l : List (F64 × Rat))
    (hl : s.forEachList env = some l) (hz : s.zero.isFinite = true) (fuel : Nat) (p : F64 → F64 → Bool) :
    Gen.SketchIter.DDSketch.ForEach fuel (toGen env s) ([] : List (F64 × F64))
      (fun log v c => .ok (log ++ [(v, c)], p v c)) = .ok (takeThrough p (liftL l)) ∧
    takeThrough p (liftL l) <+: liftL l :=
  ⟨ForEach_model_calls env s l hl hz fuel p, takeThrough_prefix p _⟩

/-- the calls made end with the bin that stopped the iteration, and no earlier bin satisfied `p` -/
theorem takeThrough_spec (p : F64 → F64 → Bool) (l : List (F64 × F64)) :
    (∀ x ∈ (takeThrough p l).dropLast, p x.1 x.2 = false) ∧
    (l.any (fun x => p x.1 x.2) = true → ∃ x, (takeThrough p l).getLast? = some x ∧ p x.1 x.2 = true) := by
  induction l with
  | nil => simp [takeThrough]
  | cons a rest ih =>
    unfold takeThrough
    by_cases ha : p a.1 a.2 = true
    · simp [ha]
    · have ha' : p a.1 a.2 = false := by simpa using ha
      simp only [ha', Bool.false_eq_true, if_false, List.any_cons, Bool.false_or]
      constructor
      · intro x hx
        cases ht : takeThrough p rest with
        | nil => rw [ht] at hx; simp at hx
        | cons b t =>
          rw [ht, List.dropLast_cons_cons] at hx
          rcases List.mem_cons.mp hx with rfl | hx
          · exact ha'
          · exact ih.1 x (by rw [ht]; exact hx)
      · intro hany
        obtain ⟨x, hx, hpx⟩ := ih.2 hany
        refine ⟨x, ?_, hpx⟩
        cases ht : takeThrough p rest with
        | nil => rw [ht] at hx; simp at hx
        | cons b t => rw [ht] at hx; rw [List.getLast?_cons_cons]; exact hx

theorem forEach_gen_never (env : MapEnv) (s : Sketch) (l : List (F64 × Rat))
    (hl : s.forEachList env = some l) (hz : s.zero.isFinite = true) (fuel : Nat) (p : F64 → F64 → Bool)
    (hp : ∀ x ∈ liftL l, p x.1 x.2 = false) :
    Gen.SketchIter.DDSketch.ForEach fuel (toGen env s) ([] : List (F64 × F64))
      (fun log v c => .ok (log ++ [(v, c)], p v c)) = .ok (liftL l) := by
  rw [ForEach_model_calls env s l hl hz fuel p, takeThrough_all p _ hp]

/-- **the approximate sum, no rounding**: the regenerated `GetSum` is the exact `Σ value·weight` -/
theorem getSum_gen_exact (env : MapEnv) (s : Sketch) (l : List (F64 × Rat))
    (hl : s.forEachList env = some l) (hE : SumExact l) (hz : s.zero.isFinite = true) (fuel : Nat) :
    Gen.SketchIter.DDSketch.GetSum fuel (toGen env s) = .ok (.fin (approxSumL l)) ∧
    approxSumQ env s = some (approxSumL l) := by
  obtain ⟨h1, h2⟩ := C12x.getSum_of_exact env s l hl hE
  exact ⟨GetSum_model env s _ h1 hz fuel, h2⟩

/-- **accuracy of the regenerated `GetSum`** on same-signed data added one by one to a sparse sketch -/
theorem getSum_gen_accuracy (env : MapEnv) (α mn mx : Rat) (C : Contract env α mn mx)
    (xs : List Rat) (hx : ∀ x ∈ xs, rabs x ≤ mx) (hn : xs.length ≤ 2 ^ 53) (s : Sketch)
    (hs : Sketch.addAll env (Sketch.new (some env.id) .sparse) (xs.map (fun x => (x, 1))) = some s)
    (hsign : (∀ y ∈ sortedInputs mn xs, 0 ≤ y) ∨ (∀ y ∈ sortedInputs mn xs, y ≤ 0))
    (l : List (F64 × Rat)) (hl : s.forEachList env = some l) (hE : SumExact l)
    (hz : s.zero.isFinite = true) (fuel : Nat) :
    ∃ A : Rat, Gen.SketchIter.DDSketch.GetSum fuel (toGen env s) = .ok (.fin A) ∧
      rabs (A - (sortedInputs mn xs).sum) ≤ α * rabs (sortedInputs mn xs).sum := by
  obtain ⟨A, hA, hacc⟩ := C12x.sum_accuracy env α mn mx C xs hx hn s hs hsign
  obtain ⟨h1, h2⟩ := getSum_gen_exact env s l hl hE hz fuel
  rw [h2] at hA
  cases hA
  exact ⟨_, h1, hacc⟩

end DDS.Props.C12GenIter
