/-
  DDS.Props.NonVacuityGen — AUDIT of the hypotheses of the headline theorems about REGENERATED code
  (`Props/C01GenPag`, `C02GenPag`, `C04GenPag`, `C05GenSketch`, `C06GenPag`, `C09GenStore`, `C12GenIter`,
  `C19GenProto`), in the manner of `DDS.Props.NonVacuity`: every theorem is APPLIED here to a concrete,
  non-trivial instance, so that its hypotheses are shown to be jointly satisfiable.
-/
import DDS.Props.C01GenPag
import DDS.Props.C02GenPag
import DDS.Props.C05GenSketch

namespace DDS.Props.NonVacuityGen

open DDS DDS.GoSem

/-! ## C01GenPag, C05GenSketch: `exEnv`, `exXs = [5, -2, 1, 3, -7, 0, 12]` -/
section C01
open DDS.QuantileEx DDS.Gen.Sketch DDS.Gen.Paginated DDS.GenSketch DDS.GenPagSketch
open DDS.Props.C01GenPag

theorem exXs_32 : ∀ x ∈ exXs, (4 / 3 : Rat) < rabs x → Lift.I32 (exEnv.index (.fin (rabs x))) :=
  fun _ _ _ => Lift.exEnv_index32 _

theorem exXs_ne : exXs ≠ [] := by simp [exXs]
theorem exXs_len : exXs.length ≤ 2 ^ 53 := by simp [exXs]

/-- `quantile_accuracy_regenerated`: every growth policy, every `q ∈ [0, 1]`, seven inputs on both sides and in
    the zero bucket -/
example (grow : Int → Int → Int) (q : Rat) (hq0 : 0 ≤ q) (hq1 : q ≤ 1) :
    let g := runAdds (NewDDSketch exEnv (⟨NewBufferedPaginatedStore⟩ : GPS grow) ⟨NewBufferedPaginatedStore⟩)
      (unitAdds exXs)
    g.2 = List.replicate exXs.length GoErr.nil ∧
    ∃ a : Rat, DDSketch.GetValueAtQuantile g.1 (.fin q) = (.fin a, GoErr.nil) ∧
      ∃ k : Nat, k < exXs.length ∧
        ((k : Int) = ⌊q * ((exXs.length : Rat) - 1)⌋ ∨ (k : Int) = ⌈q * ((exXs.length : Rat) - 1)⌉) ∧
        rabs (a - (sortedInputs (4 / 3) exXs)[k]!) ≤ 1 / 2 * rabs ((sortedInputs (4 / 3) exXs)[k]!) :=
  quantile_accuracy_regenerated grow exEnv _ _ _ exContract exXs exXs_ok exXs_32 exXs_ne exXs_len q hq0 hq1

/-- `adds_then_quantile_eq_model`: the model sketch and a model answer exist (`addAll_ok_any_store`,
    `quantile_accuracy_any_store` at `q = 1/2`), so all hypotheses hold together -/
example (grow : Int → Int → Int) : ∃ (s : Sketch) (v : F64),
    Sketch.addAll exEnv (Sketch.new (some exEnv.id) .pag) (exXs.map (fun x => (x, 1))) = some s ∧
    Sketch.quantile exEnv s (.fin (1 / 2)) = .ok v ∧
    (let g := runAdds (NewDDSketch exEnv (⟨NewBufferedPaginatedStore⟩ : GPS grow) ⟨NewBufferedPaginatedStore⟩)
      (unitAdds exXs)
     g.2 = List.replicate exXs.length GoErr.nil ∧
       DDSketch.GetValueAtQuantile g.1 (.fin (1 / 2)) = (v, GoErr.nil)) := by
  obtain ⟨s, hs⟩ := Lift.addAll_ok_any_store .pag trivial exEnv _ _ _ exContract exXs exXs_ok exXs_32
  obtain ⟨a, ha, _⟩ := Lift.quantile_accuracy_any_store .pag trivial exEnv _ _ _ exContract exXs exXs_ok exXs_32
    exXs_ne exXs_len s hs (1 / 2) (by norm_num) (by norm_num)
  exact ⟨s, .fin a, hs, ha,
    adds_then_quantile_eq_model grow exEnv (4 / 3) rfl (by norm_num) exXs exXs_32 s hs _ _ ha⟩

end C01

/-! ## C02GenPag: `demoEnv`, `demoTree` (three leaves, six weighted inputs, both signs and the zero bucket);
    the weighted history `exWs` on `exEnv` -/
section C02
open DDS.QuantileEx DDS.Gen.Sketch DDS.Gen.Paginated DDS.GenSketch DDS.GenPagSketch
open DDS.Props.C02GenPag DDS.Props.C01GenPag

theorem demo_32 : ∀ p ∈ C02.demoTree.flat, (1 / 1000 : Rat) < rabs p.1 →
    Lift.I32 (C02.demoEnv.index (.fin (rabs p.1))) := Lift.demo_index32

theorem demoTree_nontrivial : C02.demoTree.flat.length = 6 ∧ (toG C02.demoTree).flat = ratAdds C02.demoTree.flat :=
  ⟨rfl, toG_flat _⟩

/-- `merge_tree_regenerated` -/
example (grow : Int → Int → Int) :
    let mk := NewDDSketch C02.demoEnv (⟨NewBufferedPaginatedStore⟩ : GPS grow) ⟨NewBufferedPaginatedStore⟩
    let g := GTree.eval mk (toG C02.demoTree)
    let g1 := runAdds mk (ratAdds C02.demoTree.flat)
    (∀ e ∈ g.2, e = GoErr.nil) ∧ (∀ e ∈ g1.2, e = GoErr.nil) ∧
    DDSketch.GetCount g.1 = DDSketch.GetCount g1.1 ∧ DDSketch.IsEmpty g.1 = DDSketch.IsEmpty g1.1 ∧
    DDSketch.GetZeroCount g.1 = DDSketch.GetZeroCount g1.1 ∧
    (∀ q, DDSketch.GetValueAtQuantile g.1 q = DDSketch.GetValueAtQuantile g1.1 q) ∧
    DDSketch.GetMinValue g.1 = DDSketch.GetMinValue g1.1 ∧
    DDSketch.GetMaxValue g.1 = DDSketch.GetMaxValue g1.1 :=
  merge_tree_regenerated grow C02.demoEnv (1 / 1000) 1000 rfl rfl (by norm_num) C02.demo_refl C02.demoTree
    C02.demo_acc C02.demo_exact demo_32

/-- `merge_tree_regenerated_spec` -/
example (grow : Int → Int → Int) :
    let mk := NewDDSketch C02.demoEnv (⟨NewBufferedPaginatedStore⟩ : GPS grow) ⟨NewBufferedPaginatedStore⟩
    let g := GTree.eval mk (toG C02.demoTree)
    ∃ s₀ cp cn,
      Sketch.addAll C02.demoEnv (Sketch.new (some C02.demoEnv.id) .sparse) C02.demoTree.flat = some s₀ ∧
      s₀ = Sketch.spec (some C02.demoEnv.id) cp cn (DDSketch.GetZeroCount g.1) ∧
      DDSketch.GetCount g.1 = s₀.getCount ∧ DDSketch.IsEmpty g.1 = s₀.isEmpty ∧
      ExtRel (s₀.getMin C02.demoEnv) (DDSketch.GetMinValue g.1) ∧
      ExtRel (s₀.getMax C02.demoEnv) (DDSketch.GetMaxValue g.1) ∧
      ∀ q : F64, (cp = [] → s₀.usesPos q = false) →
        QRel (s₀.quantile C02.demoEnv q) (DDSketch.GetValueAtQuantile g.1 q) :=
  merge_tree_regenerated_spec grow C02.demoEnv (1 / 1000) 1000 rfl rfl (by norm_num) C02.demo_refl C02.demoTree
    C02.demo_acc C02.demo_exact demo_32

theorem exWs_32 : ∀ p ∈ Lift.exWs, (4 / 3 : Rat) < rabs p.1 → Lift.I32 (exEnv.index (.fin (rabs p.1))) :=
  fun _ _ _ => Lift.exEnv_index32 _

/-- `weighted_history_regenerated`, outer statement -/
example (grow : Int → Int → Int) :
    let g := runAdds (NewDDSketch exEnv (⟨NewBufferedPaginatedStore⟩ : GPS grow) ⟨NewBufferedPaginatedStore⟩)
      (ratAdds Lift.exWs)
    g.2 = List.replicate Lift.exWs.length GoErr.nil ∧ ∃ cp cn : Content, cp.WF ∧ cn.WF ∧
      DDSketch.GetCount g.1 =
        F64.add (F64.add (DDSketch.GetZeroCount g.1) (.fin cp.total)) (.fin cn.total) := by
  intro g
  obtain ⟨h1, cp, cn, h2, h3, _, _, h6, _⟩ :=
    weighted_history_regenerated grow exEnv _ _ _ exContract Lift.exWs Lift.exWs_ok exWs_32
  exact ⟨h1, cp, cn, h2, h3, h6⟩

theorem wf_12 : Content.WF [((1 : Int), (2 : Rat))] := RoundTrip.wf_of_wfb _ (by decide +kernel)
theorem exCn_wf : exCn.WF := RoundTrip.wf_of_wfb _ (by decide +kernel)

/-- … and the INNER implication of `weighted_history_regenerated` (`GetZeroCount = .fin z`, `0 ≤ z`, `q ∈ [0,1]`,
    positive total, `QExact`) is satisfiable on that instance: the contents are `cp = [(1, 2)]`, `cn = exCn`, the
    zero count is `0`, and `q = 1/8`, `rank' = 1/4` meet `QExact`; the first alternative holds (bin 0 of the
    negative side answers) -/
example (grow : Int → Int → Int) :
    let g := runAdds (NewDDSketch exEnv (⟨NewBufferedPaginatedStore⟩ : GPS grow) ⟨NewBufferedPaginatedStore⟩)
      (ratAdds Lift.exWs)
    DDSketch.GetZeroCount g.1 = .fin 0 ∧ QExact [(1, 2)] exCn 0 (1 / 8) (1 / 4) ∧
    (0 : Rat) < 0 + Content.total [((1 : Int), (2 : Rat))] + exCn.total ∧
    ∃ j w, (j, w) ∈ exCn ∧ DDSketch.GetValueAtQuantile g.1 (.fin (1 / 8)) = (F64.neg (exEnv.value j), GoErr.nil) := by
  intro g
  obtain ⟨_, cp, cn, wp, wn, lp, ln, _, hq⟩ :=
    weighted_history_regenerated grow exEnv _ _ _ exContract Lift.exWs Lift.exWs_ok exWs_32
  have fp : (Lift.exWs.filter (fun p => decide ((4 / 3 : Rat) < p.1))).map
      (fun p => (exEnv.index (.fin (rabs p.1)), p.2)) = [(1, 2)] := by decide +kernel
  have fn : (Lift.exWs.filter (fun p => decide (p.1 < -(4 / 3 : Rat)))).map
      (fun p => (exEnv.index (.fin (rabs p.1)), p.2)) = exCn := by decide +kernel
  have ep : cp = [(1, 2)] := Content.ext _ _ wp wf_12 (fun j => by rw [lp j, fp])
  have en : cn = exCn := Content.ext _ _ wn exCn_wf (fun j => by rw [ln j, fn])
  subst ep en
  -- the zero count of the regenerated sketch is the model's
  obtain ⟨s, cp', cn', a1, a2, _, _, _, _, _⟩ :=
    Lift.addAll_weighted_any_store .pag trivial exEnv _ _ _ exContract Lift.exWs Lift.exWs_ok exWs_32
  rw [Lift.exWs_spec] at a2
  simp only [Option.some.injEq, Sketch.mk.injEq, Store.sp.injEq, true_and] at a2
  have hz : s.zero = .fin 0 := a2.2.2.symm
  have hmn0 : (0 : Rat) ≤ 4 / 3 := by norm_num
  have hm := model_runAdds_w exEnv (4 / 3) rfl hmn0 Lift.exWs _ s a1
  obtain ⟨_, sS⟩ := runAdds_param (grow := grow) (ratAdds Lift.exWs) (skSim_new exEnv)
    (routed32_ratAdds exEnv (4 / 3) rfl hmn0 Lift.exWs exWs_32)
  rw [NewDDSketch_eq exEnv (some exEnv.id) .pag, hm] at sS
  have hS : SkSim g.1 (toGen exEnv s) := sS
  have hz0 : DDSketch.GetZeroCount g.1 = .fin 0 := by
    rw [GetZeroCount_param hS, GetZeroCount_eq]; exact hz
  have tp : Content.total [((1 : Int), (2 : Rat))] = exCp.total := by
    rw [exCp_total]; norm_num [Content.total]
  have hE : QExact [((1 : Int), (2 : Rat))] exCn 0 (1 / 8) (1 / 4) := Lift.qexact_of_totals exExact tp rfl
  have hW : (0 : Rat) < 0 + Content.total [((1 : Int), (2 : Rat))] + exCn.total := by
    rw [tp, exCp_total, exCn_total]; norm_num
  refine ⟨hz0, hE, hW, ?_⟩
  rcases hq 0 (1 / 8) (1 / 4) hz0 (le_refl _) (by norm_num) (by norm_num) hW hE with
    ⟨_, j, w, hj, hv, _⟩ | ⟨a, _, _⟩ | ⟨a, _⟩
  · exact ⟨j, w, hj, hv⟩
  · rw [ex_clamp, exCn_total] at a; norm_num at a
  · rw [ex_clamp, exCn_total] at a; norm_num at a

end C02

end DDS.Props.NonVacuityGen
