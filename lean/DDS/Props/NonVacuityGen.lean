/-
  DDS.Props.NonVacuityGen — AUDIT of the hypotheses of the headline theorems about REGENERATED code
  (`Props/C01GenPag`, `C02GenPag`, `C04GenPag`, `C05GenSketch`, `C05GenLow`, `C05GenHigh`, `C06GenPag`, `C09GenStore`,
  `C12GenIter`, `C19GenProto`), in the manner of `DDS.Props.NonVacuity`: every theorem is APPLIED here to a
  concrete, non-trivial instance, so that its hypotheses are shown to be jointly satisfiable.  No hypothesis was
  found to be unsatisfiable.

  Instances used
  * C01GenPag `quantile_accuracy_regenerated`, `adds_then_quantile_eq_model`; C05GenSketch
    `collapsing_sketch_contents_regenerated(_high)`, `collapsing_quantile_retained_regenerated`,
    `dense_quantile_accuracy_regenerated`: the mapping `QuantileEx.exEnv` (`exContract`), the seven inputs `exXs`
    (both signs, the zero bucket), every `grow`, every `q ∈ [0, 1]`, collapsing limit `N = 1`.  The inner guard of
    `collapsing_quantile_retained_regenerated` is met at `q = 1` (the selected bin is the edge; answer 6).
  * C02GenPag `merge_tree_regenerated(_spec)`: `C02.demoEnv`, `C02.demoTree` (three leaves, six weighted inputs);
    `weighted_history_regenerated`: `exEnv`, `Lift.exWs` — and its inner implication (`QExact` …) is met at
    `z = 0, q = 1/8, rank' = 1/4` with `cp = [(1, 2)]`, `cn = exCn`.
  * C04GenPag `gen_observers`, `gen_forEach_stops`, `gen_reads_preserve_content`, `gen_history_from`, `gen_merge`: the
    store `NonVacuity.pagS` (a materialised page and a buffered entry), fuel 100 (`pagS_obsFuel`);
    `gen_history_from`, `gen_history_observers`: the histories `gops` (adds, reweight 2, reweight 1) and `gops2` (a
    `Clear` in the middle); `gen_merge`: `pagS` with the store of `NonVacuity.PStoreInv_inhabited`.
  * C06GenPag `gen_pag_Encode`: `pagS`; `gen_pag_Decode_deltas`: `pagS`, capacity 4, the block `deltaBytes` (3 bins,
    deltas 5, 2, -1, one trailing byte), every `grow` and fallback; `gen_pag_Decode_other`.
  * C09GenStore `pag_roundtrip`, `pag_roundtrip_any`: `pagS`, the DESCENDING map order; `sparse_roundtrip`,
    `sparse_to_dense_fromProto`: the sparse store `spC`, orders descending / ascending, kinds `.low 1`, `.pag`, the
    instance `GenDecodeWrap.denseI`; `mergeWithProto_adds_gen`: the message `pbBoth` (map AND contiguous bins,
    overlapping) into the non-empty sparse store `[(5, 1)]`.
  * C12GenIter `forEach_gen_bins`, `forEach_gen_stops`: `C06.exS` (dense + paginated stores) under `C12.envC`;
    `getSum_gen_exact`, `getSum_gen_accuracy`: `exEnv`, the inputs `nnXs = [5, 1, 3, 0, 12]`, `SumExact nnL`.
  * C19GenProto: the theorems quantify over every instance `[MOps F64]` and the project declares none: `demoOps`
    is one (local to the section), it meets `LeOne`, and `gamma = 1.02` passes its guard; all of
    `log/lin/cub_proto_roundtrip(_model)`, `proto_roundtrip_inf_not_equals`, `proto_rejects_*` are applied.
  * C05GenLow / C05GenHigh: `N = 2` (and `M = 3` for the merges), the history `lops`.
  Fuel hypotheses are bounds by a function of the state; they are instantiated by the function itself or by a number
  checked by evaluation (`pagS_obsFuel`, `pagS_feFuel`).

  Only closed computations (`decide`, `decide +kernel`) and the audited theorems are used; every declaration depends on
  `propext`, `Classical.choice`, `Quot.sound` at most.
-/
import DDS.Props.C01GenPag
import DDS.Props.C02GenPag
import DDS.Props.C05GenSketch
import DDS.Props.C04GenPag
import DDS.Props.NonVacuity
import DDS.Props.C06GenPag
import DDS.Props.C09GenStore
import DDS.Props.C12GenIter
import DDS.Props.C19GenProto
import DDS.Props.C05GenLow
import DDS.Props.C05GenHigh

namespace DDS.Props.NonVacuityGen

open DDS DDS.GoSem

/-! ## C01GenPag, C05GenSketch: `exEnv`, `exXs = [5, -2, 1, 3, -7, 0, 12]` -/
section C01
open DDS.QuantileEx DDS.Gen.Sketch DDS.Gen.Paginated DDS.GenSketch DDS.GenPagSketch
open DDS.Props.C01GenPag

theorem exXs_32 : ∀ x ∈ exXs, (4 / 3 : Rat) < rabs x → Lift.I32 (exEnv.index (.fin (rabs x))) :=
  fun _ _ _ => Lift.exEnv_index32 _

theorem exXs_ne : exXs ≠ [] := by simp [exXs]
theorem exXs_len : exXs.length ≤ 2 ^ 53 := by simp [exXs]

/-- `quantile_accuracy_regenerated`: every growth policy, every `q ∈ [0, 1]`, seven inputs on both sides and in
    the zero bucket -/
example (grow : Int → Int → Int) (q : Rat) (hq0 : 0 ≤ q) (hq1 : q ≤ 1) :
    let g := runAdds (NewDDSketch exEnv (⟨NewBufferedPaginatedStore⟩ : GPS grow) ⟨NewBufferedPaginatedStore⟩)
      (unitAdds exXs)
    g.2 = List.replicate exXs.length GoErr.nil ∧
    ∃ a : Rat, DDSketch.GetValueAtQuantile g.1 (.fin q) = (.fin a, GoErr.nil) ∧
      ∃ k : Nat, k < exXs.length ∧
        ((k : Int) = ⌊q * ((exXs.length : Rat) - 1)⌋ ∨ (k : Int) = ⌈q * ((exXs.length : Rat) - 1)⌉) ∧
        rabs (a - (sortedInputs (4 / 3) exXs)[k]!) ≤ 1 / 2 * rabs ((sortedInputs (4 / 3) exXs)[k]!) :=
  quantile_accuracy_regenerated grow exEnv _ _ _ exContract exXs exXs_ok exXs_32 exXs_ne exXs_len q hq0 hq1

/-- `adds_then_quantile_eq_model`: the model sketch and a model answer exist (`addAll_ok_any_store`,
    `quantile_accuracy_any_store` at `q = 1/2`), so all hypotheses hold together -/
example (grow : Int → Int → Int) : ∃ (s : Sketch) (v : F64),
    Sketch.addAll exEnv (Sketch.new (some exEnv.id) .pag) (exXs.map (fun x => (x, 1))) = some s ∧
    Sketch.quantile exEnv s (.fin (1 / 2)) = .ok v ∧
    (let g := runAdds (NewDDSketch exEnv (⟨NewBufferedPaginatedStore⟩ : GPS grow) ⟨NewBufferedPaginatedStore⟩)
      (unitAdds exXs)
     g.2 = List.replicate exXs.length GoErr.nil ∧
       DDSketch.GetValueAtQuantile g.1 (.fin (1 / 2)) = (v, GoErr.nil)) := by
  obtain ⟨s, hs⟩ := Lift.addAll_ok_any_store .pag trivial exEnv _ _ _ exContract exXs exXs_ok exXs_32
  obtain ⟨a, ha, _⟩ := Lift.quantile_accuracy_any_store .pag trivial exEnv _ _ _ exContract exXs exXs_ok exXs_32
    exXs_ne exXs_len s hs (1 / 2) (by norm_num) (by norm_num)
  exact ⟨s, .fin a, hs, ha,
    adds_then_quantile_eq_model grow exEnv (4 / 3) rfl (by norm_num) exXs exXs_32 s hs _ _ ha⟩

end C01

/-! ## C02GenPag: `demoEnv`, `demoTree` (three leaves, six weighted inputs, both signs and the zero bucket);
    the weighted history `exWs` on `exEnv` -/
section C02
open DDS.QuantileEx DDS.Gen.Sketch DDS.Gen.Paginated DDS.GenSketch DDS.GenPagSketch
open DDS.Props.C02GenPag DDS.Props.C01GenPag

theorem demo_32 : ∀ p ∈ C02.demoTree.flat, (1 / 1000 : Rat) < rabs p.1 →
    Lift.I32 (C02.demoEnv.index (.fin (rabs p.1))) := Lift.demo_index32

theorem demoTree_nontrivial : C02.demoTree.flat.length = 6 ∧ (toG C02.demoTree).flat = ratAdds C02.demoTree.flat :=
  ⟨rfl, toG_flat _⟩

/-- `merge_tree_regenerated` -/
example (grow : Int → Int → Int) :
    let mk := NewDDSketch C02.demoEnv (⟨NewBufferedPaginatedStore⟩ : GPS grow) ⟨NewBufferedPaginatedStore⟩
    let g := GTree.eval mk (toG C02.demoTree)
    let g1 := runAdds mk (ratAdds C02.demoTree.flat)
    (∀ e ∈ g.2, e = GoErr.nil) ∧ (∀ e ∈ g1.2, e = GoErr.nil) ∧
    DDSketch.GetCount g.1 = DDSketch.GetCount g1.1 ∧ DDSketch.IsEmpty g.1 = DDSketch.IsEmpty g1.1 ∧
    DDSketch.GetZeroCount g.1 = DDSketch.GetZeroCount g1.1 ∧
    (∀ q, DDSketch.GetValueAtQuantile g.1 q = DDSketch.GetValueAtQuantile g1.1 q) ∧
    DDSketch.GetMinValue g.1 = DDSketch.GetMinValue g1.1 ∧
    DDSketch.GetMaxValue g.1 = DDSketch.GetMaxValue g1.1 :=
  merge_tree_regenerated grow C02.demoEnv (1 / 1000) 1000 rfl rfl (by norm_num) C02.demo_refl C02.demoTree
    C02.demo_acc C02.demo_exact demo_32

/-- `merge_tree_regenerated_spec` -/
example (grow : Int → Int → Int) :
    let mk := NewDDSketch C02.demoEnv (⟨NewBufferedPaginatedStore⟩ : GPS grow) ⟨NewBufferedPaginatedStore⟩
    let g := GTree.eval mk (toG C02.demoTree)
    ∃ s₀ cp cn,
      Sketch.addAll C02.demoEnv (Sketch.new (some C02.demoEnv.id) .sparse) C02.demoTree.flat = some s₀ ∧
      s₀ = Sketch.spec (some C02.demoEnv.id) cp cn (DDSketch.GetZeroCount g.1) ∧
      DDSketch.GetCount g.1 = s₀.getCount ∧ DDSketch.IsEmpty g.1 = s₀.isEmpty ∧
      ExtRel (s₀.getMin C02.demoEnv) (DDSketch.GetMinValue g.1) ∧
      ExtRel (s₀.getMax C02.demoEnv) (DDSketch.GetMaxValue g.1) ∧
      ∀ q : F64, (cp = [] → s₀.usesPos q = false) →
        QRel (s₀.quantile C02.demoEnv q) (DDSketch.GetValueAtQuantile g.1 q) :=
  merge_tree_regenerated_spec grow C02.demoEnv (1 / 1000) 1000 rfl rfl (by norm_num) C02.demo_refl C02.demoTree
    C02.demo_acc C02.demo_exact demo_32

theorem exWs_32 : ∀ p ∈ Lift.exWs, (4 / 3 : Rat) < rabs p.1 → Lift.I32 (exEnv.index (.fin (rabs p.1))) :=
  fun _ _ _ => Lift.exEnv_index32 _

/-- `weighted_history_regenerated`, outer statement -/
example (grow : Int → Int → Int) :
    let g := runAdds (NewDDSketch exEnv (⟨NewBufferedPaginatedStore⟩ : GPS grow) ⟨NewBufferedPaginatedStore⟩)
      (ratAdds Lift.exWs)
    g.2 = List.replicate Lift.exWs.length GoErr.nil ∧ ∃ cp cn : Content, cp.WF ∧ cn.WF ∧
      DDSketch.GetCount g.1 =
        F64.add (F64.add (DDSketch.GetZeroCount g.1) (.fin cp.total)) (.fin cn.total) := by
  intro g
  obtain ⟨h1, cp, cn, h2, h3, _, _, h6, _⟩ :=
    weighted_history_regenerated grow exEnv _ _ _ exContract Lift.exWs Lift.exWs_ok exWs_32
  exact ⟨h1, cp, cn, h2, h3, h6⟩

theorem wf_12 : Content.WF [((1 : Int), (2 : Rat))] := RoundTrip.wf_of_wfb _ (by decide +kernel)
theorem exCn_wf : exCn.WF := RoundTrip.wf_of_wfb _ (by decide +kernel)

/-- … and the INNER implication of `weighted_history_regenerated` (`GetZeroCount = .fin z`, `0 ≤ z`, `q ∈ [0,1]`,
    positive total, `QExact`) is satisfiable on that instance: the contents are `cp = [(1, 2)]`, `cn = exCn`, the
    zero count is `0`, and `q = 1/8`, `rank' = 1/4` meet `QExact`; the first alternative holds (bin 0 of the
    negative side answers) -/
example (grow : Int → Int → Int) :
    let g := runAdds (NewDDSketch exEnv (⟨NewBufferedPaginatedStore⟩ : GPS grow) ⟨NewBufferedPaginatedStore⟩)
      (ratAdds Lift.exWs)
    DDSketch.GetZeroCount g.1 = .fin 0 ∧ QExact [(1, 2)] exCn 0 (1 / 8) (1 / 4) ∧
    (0 : Rat) < 0 + Content.total [((1 : Int), (2 : Rat))] + exCn.total ∧
    ∃ j w, (j, w) ∈ exCn ∧ DDSketch.GetValueAtQuantile g.1 (.fin (1 / 8)) = (F64.neg (exEnv.value j), GoErr.nil) := by
  intro g
  obtain ⟨_, cp, cn, wp, wn, lp, ln, _, hq⟩ :=
    weighted_history_regenerated grow exEnv _ _ _ exContract Lift.exWs Lift.exWs_ok exWs_32
  have fp : (Lift.exWs.filter (fun p => decide ((4 / 3 : Rat) < p.1))).map
      (fun p => (exEnv.index (.fin (rabs p.1)), p.2)) = [(1, 2)] := by decide +kernel
  have fn : (Lift.exWs.filter (fun p => decide (p.1 < -(4 / 3 : Rat)))).map
      (fun p => (exEnv.index (.fin (rabs p.1)), p.2)) = exCn := by decide +kernel
  have ep : cp = [(1, 2)] := Content.ext _ _ wp wf_12 (fun j => by rw [lp j, fp])
  have en : cn = exCn := Content.ext _ _ wn exCn_wf (fun j => by rw [ln j, fn])
  subst ep en
  -- the zero count of the regenerated sketch is the model's
  obtain ⟨s, cp', cn', a1, a2, _, _, _, _, _⟩ :=
    Lift.addAll_weighted_any_store .pag trivial exEnv _ _ _ exContract Lift.exWs Lift.exWs_ok exWs_32
  rw [Lift.exWs_spec] at a2
  simp only [Option.some.injEq, Sketch.mk.injEq, Store.sp.injEq, true_and] at a2
  have hz : s.zero = .fin 0 := a2.2.2.symm
  have hmn0 : (0 : Rat) ≤ 4 / 3 := by norm_num
  have hm := model_runAdds_w exEnv (4 / 3) rfl hmn0 Lift.exWs _ s a1
  obtain ⟨_, sS⟩ := runAdds_param (grow := grow) (ratAdds Lift.exWs) (skSim_new exEnv)
    (routed32_ratAdds exEnv (4 / 3) rfl hmn0 Lift.exWs exWs_32)
  rw [NewDDSketch_eq exEnv (some exEnv.id) .pag, hm] at sS
  have hS : SkSim g.1 (toGen exEnv s) := sS
  have hz0 : DDSketch.GetZeroCount g.1 = .fin 0 := by
    rw [GetZeroCount_param hS, GetZeroCount_eq]; exact hz
  have tp : Content.total [((1 : Int), (2 : Rat))] = exCp.total := by
    rw [exCp_total]; norm_num [Content.total]
  have hE : QExact [((1 : Int), (2 : Rat))] exCn 0 (1 / 8) (1 / 4) := Lift.qexact_of_totals exExact tp rfl
  have hW : (0 : Rat) < 0 + Content.total [((1 : Int), (2 : Rat))] + exCn.total := by
    rw [tp, exCp_total, exCn_total]; norm_num
  refine ⟨hz0, hE, hW, ?_⟩
  rcases hq 0 (1 / 8) (1 / 4) hz0 (le_refl _) (by norm_num) (by norm_num) hW hE with
    ⟨_, j, w, hj, hv, _⟩ | ⟨a, _, _⟩ | ⟨a, _⟩
  · exact ⟨j, w, hj, hv⟩
  · rw [ex_clamp, exCn_total] at a; norm_num at a
  · rw [ex_clamp, exCn_total] at a; norm_num at a

end C02

/-! ## C05GenSketch: `exEnv`, `exXs`, collapsing stores with ONE bin (something is collapsed: on the positive
    side bin 0 of the value 3 is folded) -/
section C05
open DDS.QuantileEx DDS.Gen.Sketch DDS.Gen.Dense DDS.GenSketch DDS.GenStoreSim DDS.GenLowSketch
open DDS.GenPagSketch (runAdds)
open DDS.Props.C01GenPag (unitAdds)
open DDS.Props.C05GenSketch DDS.GenDenseSketch DDS.GenHighSketch

/-- `collapsing_sketch_contents_regenerated` -/
example : let g := runAdds (newLow exEnv 1) (unitAdds exXs)
    g.2 = List.replicate exXs.length GoErr.nil ∧
    ∃ (s₀ : Sketch) (cp cn : Content) (dp dn : DStore),
      Sketch.addAll exEnv (Sketch.new (some exEnv.id) .sparse) (exXs.map (fun x => (x, 1))) = some s₀ ∧
      s₀ = Sketch.spec (some exEnv.id) cp cn g.1.zeroCount ∧ g.1.IndexMapping = exEnv ∧ cp.WF ∧ cn.WF ∧
      g.1.positiveValueStore.g = GenDense.toLow ((1 : Nat) : Int) dp ∧ dp.kind = .low 1 ∧
      g.1.negativeValueStore.g = GenDense.toLow ((1 : Nat) : Int) dn ∧ dn.kind = .low 1 ∧
      Lift.contentOf (.d dp) = Content.specLow 1 cp ∧ Lift.contentOf (.d dn) = Content.specLow 1 cn :=
  collapsing_sketch_contents_regenerated 1 (by omega) exEnv _ _ _ exContract exXs exXs_ok exXs_32

/-- `collapsing_sketch_contents_regenerated_high` -/
example : let g := runAdds (newHigh exEnv 1) (unitAdds exXs)
    g.2 = List.replicate exXs.length GoErr.nil ∧
    ∃ (s₀ : Sketch) (cp cn : Content) (dp dn : DStore),
      Sketch.addAll exEnv (Sketch.new (some exEnv.id) .sparse) (exXs.map (fun x => (x, 1))) = some s₀ ∧
      s₀ = Sketch.spec (some exEnv.id) cp cn g.1.zeroCount ∧ g.1.IndexMapping = exEnv ∧ cp.WF ∧ cn.WF ∧
      g.1.positiveValueStore.g = GenDense.toHigh ((1 : Nat) : Int) dp ∧ dp.kind = .high 1 ∧
      g.1.negativeValueStore.g = GenDense.toHigh ((1 : Nat) : Int) dn ∧ dn.kind = .high 1 ∧
      Lift.contentOf (.d dp) = Content.specHigh 1 cp ∧ Lift.contentOf (.d dn) = Content.specHigh 1 cn :=
  collapsing_sketch_contents_regenerated_high 1 (by omega) exEnv _ _ _ exContract exXs exXs_ok exXs_32

/-- `collapsing_quantile_retained_regenerated` -/
example : let g := runAdds (newLow exEnv 1) (unitAdds exXs)
    g.2 = List.replicate exXs.length GoErr.nil ∧
    ∃ (s₀ : Sketch) (cp cn : Content),
      Sketch.addAll exEnv (Sketch.new (some exEnv.id) .sparse) (exXs.map (fun x => (x, 1))) = some s₀ ∧
      s₀ = Sketch.spec (some exEnv.id) cp cn g.1.zeroCount ∧
      ∀ q : F64,
        (∀ side k, Lift.selKey s₀ q = some (side, k) → Lift.edgeLow 1 (if side then cp else cn) ≤ k) →
        QRel (s₀.quantile exEnv q) (DDSketch.GetValueAtQuantile g.1 q) :=
  collapsing_quantile_retained_regenerated 1 (by omega) exEnv _ _ _ exContract exXs exXs_ok exXs_32
    exXs_ne exXs_len

/-- `dense_quantile_accuracy_regenerated` -/
example (q : Rat) (hq0 : 0 ≤ q) (hq1 : q ≤ 1) :
    let g := runAdds (NewDDSketch exEnv (⟨NewDenseStore⟩ : GDS) ⟨NewDenseStore⟩) (unitAdds exXs)
    g.2 = List.replicate exXs.length GoErr.nil ∧
    ∃ a : Rat, DDSketch.GetValueAtQuantile g.1 (.fin q) = (.fin a, GoErr.nil) ∧
      ∃ k : Nat, k < exXs.length ∧
        ((k : Int) = ⌊q * ((exXs.length : Rat) - 1)⌋ ∨ (k : Int) = ⌈q * ((exXs.length : Rat) - 1)⌉) ∧
        rabs (a - (sortedInputs (4 / 3) exXs)[k]!) ≤ 1 / 2 * rabs ((sortedInputs (4 / 3) exXs)[k]!) :=
  dense_quantile_accuracy_regenerated exEnv _ _ _ exContract exXs exXs_ok exXs_32 exXs_ne exXs_len q hq0 hq1

/-- the exact (sparse) sketch of `exXs`: positive bins `0 ↦ 1` (the value 3), `1 ↦ 2` (5 and 12), negative bins
    `0 ↦ 1`, `1 ↦ 1`, two values in the zero bucket -/
def exS0 : Sketch := ⟨some exEnv.id, .sp [(0, 1), (1, 2)], .sp [(0, 1), (1, 1)], .fin 2⟩

theorem exS0_spec :
    Sketch.addAll exEnv (Sketch.new (some exEnv.id) .sparse) (exXs.map (fun x => (x, 1))) = some exS0 := by
  rw [DDS.new_sparse, addAll_units exEnv _ _ _ exContract exXs exXs_ok]
  have e1 : Content.merge [] (unitPairs ((posPart (4 / 3) exXs).map (idxOf exEnv))) = [(0, 1), (1, 2)] := by
    decide +kernel
  have e2 : Content.merge [] (unitPairs ((negPart (4 / 3) exXs).map (idxOf exEnv))) = [(0, 1), (1, 1)] := by
    decide +kernel
  have e3 : addOnes (zeroCnt (4 / 3) exXs) (.fin 0) = .fin 2 := by decide +kernel
  rw [e1, e2, e3]; rfl

/-- … and the INNER guard of `collapsing_quantile_retained_regenerated` (the selected bin is at or above the edge) is
    met non-trivially: at `q = 1` the exact sketch of `exXs` selects bin 1 of the positive side, which IS the edge
    of a one-bin store (bin 0 has been collapsed); the regenerated collapsing sketch answers `6` with a nil error -/
example : let g := runAdds (newLow exEnv 1) (unitAdds exXs)
    Lift.selKey exS0 (.fin 1) = some (true, 1) ∧ Lift.edgeLow 1 [(0, 1), (1, 2)] = 1 ∧
    DDSketch.GetValueAtQuantile g.1 (.fin 1) = (.fin 6, GoErr.nil) := by
  intro g
  obtain ⟨_, s₀, cp, cn, h1, h2, hq⟩ :=
    collapsing_quantile_retained_regenerated 1 (by omega) exEnv _ _ _ exContract exXs exXs_ok exXs_32
      exXs_ne exXs_len
  rw [exS0_spec] at h1
  cases h1
  simp only [exS0, Sketch.spec, Sketch.mk.injEq, Store.sp.injEq, true_and] at h2
  obtain ⟨rfl, rfl, _⟩ := h2
  have hsel : Lift.selKey exS0 (.fin 1) = some (true, 1) := by decide +kernel
  have hedge : Lift.edgeLow 1 [((0 : Int), (1 : Rat)), (1, 2)] = 1 := by decide +kernel
  refine ⟨hsel, hedge, ?_⟩
  have hv : exS0.quantile exEnv (.fin 1) = .ok (.fin 6) := by decide +kernel
  have := hq (.fin 1) (by
    intro side k h
    rw [hsel] at h
    cases h
    show Lift.edgeLow 1 [((0 : Int), (1 : Rat)), (1, 2)] ≤ 1
    rw [hedge])
  rw [hv] at this
  exact this

end C05

/-! ## C04GenPag: the store `NonVacuity.pagS` (one materialised page holding `3 ↦ 5/2`, the buffered entry `40`;
    invariant `pagS_inv`, content `[(3, 5/2), (40, 1)]`), and a second store with content `[(3, 7), (40, 2)]` -/
section C04
open DDS.PStore DDS.GenPag DDS.Gen.Paginated DDS.Props.C04GenPag
open DDS.Props.NonVacuity (pagS pagS_inv pagS_content)

/-- `gen_observers` at the fuel `obsFuel pagS`, capacity 4 -/
example : content pagS = [(3, 5 / 2), (40, 1)] ∧
    BufferedPaginatedStore.IsEmpty (obsFuel pagS) (toGen pagS 4) = .ok (content pagS).isEmpty ∧
    BufferedPaginatedStore.TotalCount (obsFuel pagS) (toGen pagS 4) = .ok (content pagS).total ∧
    BufferedPaginatedStore.MinIndex (obsFuel pagS) (toGen pagS 4)
      = .ok (match (content pagS).minIndex? with
             | some m => (m, GoErr.nil) | none => ((0 : Int), errUndefinedMinIndex)) ∧
    BufferedPaginatedStore.MaxIndex (obsFuel pagS) (toGen pagS 4)
      = .ok (match (content pagS).maxIndex? with
             | some m => (m, GoErr.nil) | none => ((0 : Int), errUndefinedMaxIndex)) ∧
    (∀ r : Rat, ∃ g', BufferedPaginatedStore.KeyAtRank (obsFuel pagS) (toGen pagS 4) r
      = .ok (g', (content pagS).keyAtRank r)) ∧
    (∃ g', BufferedPaginatedStore.ForEach (obsFuel pagS) (toGen pagS 4) (fun _ _ => .ok false) = .ok g') ∧
    visitTrace (fun _ _ => .ok false) pagS.binsList = content pagS :=
  ⟨pagS_content, gen_observers pagS pagS_inv 4 _ (Nat.le_refl _)⟩

/-- … the bound is a number: fuel 100 is enough for that store -/
theorem pagS_obsFuel : obsFuel pagS ≤ 100 := by decide +kernel

example : BufferedPaginatedStore.TotalCount 100 (toGen pagS 4) = .ok (7 / 2) ∧
    BufferedPaginatedStore.MinIndex 100 (toGen pagS 4) = .ok (3, GoErr.nil) ∧
    BufferedPaginatedStore.MaxIndex 100 (toGen pagS 4) = .ok (40, GoErr.nil) := by
  obtain ⟨_, h2, h3, h4, _⟩ := gen_observers pagS pagS_inv 4 100 pagS_obsFuel
  rw [pagS_content] at h2 h3 h4
  have e2 : Content.total [((3 : Int), (5 / 2 : Rat)), (40, 1)] = 7 / 2 := by decide +kernel
  have e3 : Content.minIndex? [((3 : Int), (5 / 2 : Rat)), (40, 1)] = some 3 := by decide +kernel
  have e4 : Content.maxIndex? [((3 : Int), (5 / 2 : Rat)), (40, 1)] = some 40 := by decide +kernel
  rw [e2] at h2; rw [e3] at h3; rw [e4] at h4
  exact ⟨h2, h3, h4⟩

/-- `gen_forEach_stops`: a visitor that stops at index 3 sees `[(3, 5/2)]` only -/
example : (∃ g', BufferedPaginatedStore.ForEach 100 (toGen pagS 4) (fun i c => .ok ((fun i _ => i == 3) i c))
      = .ok g') ∧
    visitTrace (fun i c => .ok ((fun i _ => i == 3) i c)) pagS.binsList = [(3, 5 / 2)] := by
  have hf : forEachFuel pagS ≤ 100 := by decide +kernel
  obtain ⟨h1, h2⟩ := gen_forEach_stops pagS 4 (fun i _ => i == 3) 100 hf
  refine ⟨h1, ?_⟩
  rw [h2, pagS_content]; decide +kernel

/-- `gen_reads_preserve_content` -/
example (r : Rat) : ∃ s' : PStore, Inv s' ∧ content s' = [(3, 5 / 2), (40, 1)] ∧
    BufferedPaginatedStore.KeyAtRank 100 (toGen pagS 4) r
      = .ok (toGen s' 4, Content.keyAtRank [(3, 5 / 2), (40, 1)] r) ∧
    BufferedPaginatedStore.ForEach 100 (toGen pagS 4) (fun _ _ => .ok false) = .ok (toGen s' 4) := by
  obtain ⟨s', h1, h2, h3, h4⟩ := gen_reads_preserve_content pagS pagS_inv 4 r 100 pagS_obsFuel
  rw [pagS_content] at h2 h3
  exact ⟨s', h1, h2, h3, h4⟩

/-- a history with every kind of operation, negative and repeated indexes, a fractional weight -/
def gops : List GOp := [.add 3 1, .add (-100) (1 / 2), .add 3 (5 / 4), .reweight 2, .reweight 1, .add 7 1]

theorem gops_ok : ∀ op ∈ gops, op.ok := by
  intro op hop
  simp only [gops, List.mem_cons, List.not_mem_nil, or_false] at hop
  rcases hop with rfl | rfl | rfl | rfl | rfl | rfl
  · exact ⟨⟨by decide, by decide⟩, by decide +kernel⟩
  · exact ⟨⟨by decide, by decide⟩, by decide +kernel⟩
  · exact ⟨⟨by decide, by decide⟩, by decide +kernel⟩
  · show (0 : Rat) < 2; decide +kernel
  · show (0 : Rat) < 1; decide +kernel
  · exact ⟨⟨by decide, by decide⟩, by decide +kernel⟩

theorem gops_spec : crun [] gops = [(-100, 1), (3, 9 / 2), (7, 1)] := by decide +kernel

theorem gops_from_pagS : crun [(3, 5 / 2), (40, 1)] gops = [(-100, 1), (3, 19 / 2), (7, 1), (40, 2)] := by
  decide +kernel

/-- a history with a `Clear` in the middle -/
def gops2 : List GOp := [.add 3 1, .clear, .add 5 (1 / 2)]

theorem gops2_ok : ∀ op ∈ gops2, op.ok := by
  intro op hop
  simp only [gops2, List.mem_cons, List.not_mem_nil, or_false] at hop
  rcases hop with rfl | rfl | rfl
  · exact ⟨⟨by decide, by decide⟩, by decide +kernel⟩
  · trivial
  · exact ⟨⟨by decide, by decide⟩, by decide +kernel⟩

/-- `gen_history_from`, from the non-empty store `pagS` -/
example : ∃ F : Nat, ∀ (cap : Int) (grow : Int → Int → Int) (fuel : Nat), F ≤ fuel →
    ∃ (s' : PStore) (cap' : Int), grun fuel grow (toGen pagS cap) gops = .ok (toGen s' cap') ∧ Inv s' ∧
      content s' = [(-100, 1), (3, 19 / 2), (7, 1), (40, 2)] := by
  obtain ⟨F, hF⟩ := gen_history_from gops gops_ok pagS pagS_inv
  refine ⟨F, fun cap grow fuel hf => ?_⟩
  obtain ⟨s', cap', h1, h2, h3⟩ := hF cap grow fuel hf
  rw [pagS_content, gops_from_pagS] at h3
  exact ⟨s', cap', h1, h2, h3⟩

/-- `gen_history_observers` -/
example : ∃ F : Nat, ∀ (grow : Int → Int → Int) (fuel : Nat), F ≤ fuel →
    ∃ g : GP, grun fuel grow NewBufferedPaginatedStore gops = .ok g ∧
      ∃ F' : Nat, ∀ fuel', F' ≤ fuel' →
        BufferedPaginatedStore.IsEmpty fuel' g = .ok false ∧
        BufferedPaginatedStore.TotalCount fuel' g = .ok (13 / 2) ∧
        BufferedPaginatedStore.MinIndex fuel' g = .ok (-100, GoErr.nil) ∧
        BufferedPaginatedStore.MaxIndex fuel' g = .ok (7, GoErr.nil) ∧
        (∀ r : Rat, ∃ g', BufferedPaginatedStore.KeyAtRank fuel' g r
          = .ok (g', Content.keyAtRank [(-100, 1), (3, 9 / 2), (7, 1)] r)) ∧
        (∃ g', BufferedPaginatedStore.ForEach fuel' g (fun _ _ => .ok false) = .ok g') := by
  obtain ⟨F, hF⟩ := gen_history_observers gops gops_ok
  refine ⟨F, fun grow fuel hf => ?_⟩
  obtain ⟨g, h1, F', hF'⟩ := hF grow fuel hf
  refine ⟨g, h1, F', fun fuel' hf' => ?_⟩
  obtain ⟨o1, o2, o3, o4, o5, o6⟩ := hF' fuel' hf'
  rw [gops_spec] at o1 o2 o3 o4 o5
  have e1 : Content.isEmpty [((-100 : Int), (1 : Rat)), (3, 9 / 2), (7, 1)] = false := by decide +kernel
  have e2 : Content.total [((-100 : Int), (1 : Rat)), (3, 9 / 2), (7, 1)] = 13 / 2 := by decide +kernel
  have e3 : Content.minIndex? [((-100 : Int), (1 : Rat)), (3, 9 / 2), (7, 1)] = some (-100) := by decide +kernel
  have e4 : Content.maxIndex? [((-100 : Int), (1 : Rat)), (3, 9 / 2), (7, 1)] = some 7 := by decide +kernel
  rw [e1] at o1; rw [e2] at o2; rw [e3] at o3; rw [e4] at o4
  exact ⟨o1, o2, o3, o4, o5, o6⟩

example : ∃ F : Nat, ∀ (grow : Int → Int → Int) (fuel : Nat), F ≤ fuel →
    ∃ g : GP, grun fuel grow NewBufferedPaginatedStore gops2 = .ok g ∧
      ∃ F' : Nat, ∀ fuel', F' ≤ fuel' → BufferedPaginatedStore.TotalCount fuel' g = .ok (1 / 2) := by
  obtain ⟨F, hF⟩ := gen_history_observers gops2 gops2_ok
  refine ⟨F, fun grow fuel hf => ?_⟩
  obtain ⟨g, h1, F', hF'⟩ := hF grow fuel hf
  refine ⟨g, h1, F', fun fuel' hf' => ?_⟩
  obtain ⟨_, o2, _⟩ := hF' fuel' hf'
  have e2 : Content.total (crun [] gops2) = 1 / 2 := by decide +kernel
  rw [o2, e2]

/-- `gen_merge`: `pagS` (content `[(3, 5/2), (40, 1)]`) receives a store with content `[(3, 7), (40, 2)]`
    (`NonVacuity.PStoreInv_inhabited`: reached by a history with a compaction and a reweighting) -/
example : ∃ o : PStore, Inv o ∧ content o = [(3, 7), (40, 2)] ∧
    ∀ (cap cap' : Int) (grow : Int → Int → Int) (mf : GP → GP → Res GP),
    ∃ (g' : GP) (s' : PStore),
      BufferedPaginatedStore.MergeWith (mergeFuel addFuel pagS o) grow mf (toGen pagS cap) (toGen o cap') = .ok g' ∧
      Rel g' s' ∧ Inv s' ∧ content s' = [(3, 19 / 2), (40, 3)] := by
  obtain ⟨o, ho, hc, _⟩ := DDS.Props.NonVacuity.PStoreInv_inhabited
  refine ⟨o, ho, hc, fun cap cap' grow mf => ?_⟩
  obtain ⟨g', s', h1, h2, h3, h4⟩ := gen_merge pagS o pagS_inv ho cap cap' grow mf _ (Nat.le_refl _)
  rw [pagS_content, hc] at h4
  exact ⟨g', s', h1, h2, h3, by rw [h4]; decide +kernel⟩

end C04

/-! ## C06GenPag: encoding and decoding of `pagS` -/
section C06
open DDS.PStore DDS.GenPag DDS.Gen.Paginated DDS.Gen.Encoding DDS.Props.C06GenPag
open DDS.Props.NonVacuity (pagS pagS_inv pagS_content)

/-- `gen_pag_Encode`: the positive-store flag, a non-empty prefix of bytes already written -/
example (cap : Int) : ∃ s' blocks, Sketch.encodeStore (.pg pagS) .pos = some (.pg s', blocks) ∧
    BufferedPaginatedStore.Encode (encodeFuel compactFuel pagS) (toGen pagS cap) [7#8, 9#8] FlagTypePositiveStore
      = .ok (toGen s' cap, [7#8, 9#8] ++ DDS.GenEncoding.bn (Wire.encBlocks blocks)) ∧
    PStore.Inv s' ∧ content s' = [(3, 5 / 2), (40, 1)] := by
  obtain ⟨s', bl, h1, h2, h3, h4⟩ := gen_pag_Encode (encodeFuel compactFuel pagS) pagS cap .pos
    FlagTypePositiveStore (by decide) [7#8, 9#8] pagS_inv (by decide) (Nat.le_refl _)
  rw [pagS_content] at h4
  exact ⟨s', bl, h1, h2, h3, h4⟩

/-- an index-delta block announcing 3 bins with deltas `5, 2, -1` (indexes `5, 7, 6`), followed by one more byte -/
def deltaBytes : List (BitVec 8) := [3#8, 10#8, 4#8, 1#8, 7#8]

theorem deltaBytes_count : Codec.decUvarint64 (DDS.GenEncoding.nb deltaBytes) = .ok (3, [10, 4, 1, 7]) := by
  decide +kernel

theorem deltaBytes_indexes :
    DDS.GenStoreDecode.storeIndexes Consts.binEncodingIndexDeltas (DDS.GenEncoding.nb deltaBytes) = [5, 7, 6] := by
  decide +kernel

/-- the model decodes that block into `pagS` and leaves the last byte -/
theorem deltaBytes_model :
    (Sketch.decodeStore (.pg pagS) Consts.binEncodingIndexDeltas (DDS.GenEncoding.nb deltaBytes)).map
      (fun r => match r with | .ok (_, rest) => some rest | .error _ => none) = some (some [7]) := by
  decide +kernel

/-- `gen_pag_Decode_deltas`: all five hypotheses hold of `pagS` (buffer of length 1, trigger 64), capacity 4,
    every growth policy and every fallback; the regenerated decoder returns a store with the invariant, the
    remaining byte and a nil error -/
example (grow : Int → Int → Int)
    (fb : GP → List (BitVec 8) → SubFlag → Res (GP × List (BitVec 8) × GoErr)) :
    ∃ s' cap', BufferedPaginatedStore.DecodeAndMergeWith (deltasFuel compactFuel grow pagS 4 deltaBytes) grow fb
        (toGen pagS 4) deltaBytes BinEncodingIndexDeltas = .ok (toGen s' cap', [7#8], GoErr.nil) ∧
      PStore.Inv s' := by
  have h := gen_pag_Decode_deltas grow fb _ pagS 4 deltaBytes pagS_inv (by decide)
    (by
      intro v rest hv
      rw [deltaBytes_count] at hv
      cases hv
      decide)
    (by
      intro u hu
      rw [deltaBytes_indexes] at hu
      simp only [List.mem_cons, List.not_mem_nil, or_false] at hu
      rcases hu with rfl | rfl | rfl <;> exact ⟨by decide, by decide⟩)
    (Nat.le_refl _)
  have hm := deltaBytes_model
  cases hd : Sketch.decodeStore (.pg pagS) Consts.binEncodingIndexDeltas (DDS.GenEncoding.nb deltaBytes) with
  | none => rw [hd] at hm; cases hm
  | some r =>
    rw [hd] at hm h
    cases r with
    | error e => cases hm
    | ok p =>
      obtain ⟨st', rest⟩ := p
      simp only [Option.map_some, Option.some.injEq] at hm
      cases hm
      obtain ⟨s', cap', st'', h1, _, h3, _⟩ := h
      exact ⟨s', cap', h1, h3⟩

/-- `gen_pag_Decode_other` -/
example (grow : Int → Int → Int)
    (fb : GP → List (BitVec 8) → SubFlag → Res (GP × List (BitVec 8) × GoErr)) (fuel : Nat) (g : GP)
    (b : List (BitVec 8)) :
    BufferedPaginatedStore.DecodeAndMergeWith fuel grow fb g b BinEncodingIndexDeltasAndCounts
      = fb g b BinEncodingIndexDeltasAndCounts :=
  gen_pag_Decode_other grow fb fuel g b _ (by decide) (by decide)

end C06

/-! ## C09GenStore: protobuf conversions of the stores -/
section C09
open DDS.PStore DDS.GenPag DDS.Gen.Paginated DDS.Proto DDS.GenProtoStore DDS.Gen.PaginatedProto
open DDS.Props.C09GenStore
open DDS.Props.NonVacuity (pagS pagS_inv pagS_content)

theorem pagS_feFuel : forEachFuel pagS ≤ 100 := by decide +kernel

/-- `pag_roundtrip`: `pagS`, the DESCENDING iteration order of the map (lawful, not the identity), every capacity
    and growth policy -/
example (cap cap0 : Int) (grow : Int → Int → Int) :
    ∃ g1 m, BufferedPaginatedStore.ToProto 100 (toGen pagS cap) = .ok (g1, m) ∧
      some (pbOfGo m) = storeToProto (.pg pagS) ∧
      ∀ fuel2, pagFuel PStore.new (msgCalls GenSparse.descending m) ≤ fuel2 →
        ∃ s' cap', BufferedPaginatedStore.MergeWithProto fuel2 GenSparse.descending grow (toGen PStore.new cap0) m
            = .ok (toGen s' cap') ∧ Inv s' ∧ content s' = [(3, 5 / 2), (40, 1)] := by
  obtain ⟨g1, m, h1, h2, h3⟩ :=
    pag_roundtrip pagS pagS_inv cap cap0 grow GenSparse.descending GenSparse.descending_lawful 100 pagS_feFuel
  refine ⟨g1, m, h1, h2, fun fuel2 hf2 => ?_⟩
  obtain ⟨s', cap', a1, a2, a3⟩ := h3 fuel2 hf2
  rw [pagS_content] at a3
  exact ⟨s', cap', a1, a2, a3⟩

/-- `pag_roundtrip_any`: the same producer, a regenerated generic consumer filling a dense store -/
example (cap : Int) (fuel2 : Nat) :
    ∃ g1 m, BufferedPaginatedStore.ToProto 100 (toGen pagS cap) = .ok (g1, m) ∧
      some (pbOfGo m) = storeToProto (.pg pagS) ∧
      ∃ st', Gen.StoreProto.MergeWithProto fuel2 GenSparse.descending (Store.new .dense) (toF64 m) = .ok st' ∧
        Lift.Good st' ∧ st'.kind = .dense ∧
        Lift.contentOf st' = (Lift.clampOfKind .dense).apply (content pagS) :=
  pag_roundtrip_any pagS pagS_inv cap GenSparse.descending GenSparse.descending_lawful .dense trivial 100 fuel2
    pagS_feFuel

/-- a sparse store holding two bins, one negative index, one fractional weight -/
def spC : Content := [(-3, 2), (5, 1 / 2)]

theorem spC_wf : spC.WF := RoundTrip.wf_of_wfb _ (by decide +kernel)

theorem spC_rep : GenSparse.Rep ⟨spC⟩ spC := ⟨rfl, spC_wf⟩

theorem spC_32 : ∀ p ∈ spC, Lift.I32 p.1 := by
  intro p hp
  simp only [spC, List.mem_cons, List.not_mem_nil, or_false] at hp
  rcases hp with rfl | rfl <;> decide

/-- `sparse_roundtrip`: producer order descending, consumer order ascending, into a lowest-collapsing store with ONE
    bin (the clamp is not the identity) and into a paginated store -/
example (fuel fuel2 : Nat) :
    ∃ m, Gen.SparseProto.SparseStore.ToProto fuel GenSparse.descending ⟨spC⟩ = .ok m ∧
      some (pbOfGo m) = storeToProto (.sp spC) ∧
      ∃ st', Gen.StoreProto.MergeWithProto fuel2 MapOrder.ascending (Store.new (.low 1)) (toF64 m) = .ok st' ∧
        Lift.Good st' ∧ st'.kind = .low 1 ∧ Lift.contentOf st' = (Lift.clampOfKind (.low 1)).apply spC :=
  sparse_roundtrip spC_rep spC_32 GenSparse.descending MapOrder.ascending GenSparse.descending_lawful
    GenSparse.ascending_lawful (.low 1) (by show 1 ≤ 1; omega) fuel fuel2

example (fuel fuel2 : Nat) :
    ∃ m, Gen.SparseProto.SparseStore.ToProto fuel GenSparse.descending ⟨spC⟩ = .ok m ∧
      some (pbOfGo m) = storeToProto (.sp spC) ∧
      ∃ st', Gen.StoreProto.MergeWithProto fuel2 MapOrder.ascending (Store.new .pag) (toF64 m) = .ok st' ∧
        Lift.Good st' ∧ st'.kind = .pag ∧ Lift.contentOf st' = (Lift.clampOfKind .pag).apply spC :=
  sparse_roundtrip spC_rep spC_32 GenSparse.descending MapOrder.ascending GenSparse.descending_lawful
    GenSparse.ascending_lawful .pag trivial fuel fuel2

/-- a message with BOTH forms of bins, overlapping at index 5 (map: `-3 ↦ 2`, `5 ↦ 1/2`; contiguous from 4:
    `1, 0, 3`) -/
def pbBoth : GoPb.Store F64 :=
  { BinCounts := [(-3, .fin 2), (5, .fin (1 / 2))], ContiguousBinCounts := [.fin 1, .fin 0, .fin 3],
    ContiguousBinIndexOffset := 4#32 }

theorem pbBoth_wf : pbBoth.WF := by
  refine ⟨?_, ?_⟩
  · intro p hp
    simp only [pbBoth, List.mem_cons, List.not_mem_nil, or_false] at hp
    rcases hp with rfl | rfl <;> decide
  · simp [pbBoth]

theorem pbBoth_fin : Finite pbBoth := by
  refine ⟨?_, ?_⟩
  · intro p hp
    simp only [pbBoth, List.mem_cons, List.not_mem_nil, or_false] at hp
    rcases hp with rfl | rfl <;> exact ⟨_, rfl⟩
  · intro c hc
    simp only [pbBoth, List.mem_cons, List.not_mem_nil, or_false] at hc
    rcases hc with rfl | rfl | rfl <;> exact ⟨_, rfl⟩

theorem pbBoth_bins : msgBins GenSparse.descending pbBoth = [(5, 1 / 2), (-3, 2), (4, 1), (5, 0), (6, 3)] := by
  decide +kernel

theorem pbBoth_ok : Lift.BinsOK (msgBins GenSparse.descending pbBoth) := by
  rw [pbBoth_bins]
  intro p hp
  simp only [List.mem_cons, List.not_mem_nil, or_false] at hp
  rcases hp with rfl | rfl | rfl | rfl | rfl <;> exact ⟨by decide +kernel, fun _ => by decide⟩

theorem wf_51 : Content.WF [((5 : Int), (1 : Rat))] := RoundTrip.wf_of_wfb _ (by decide +kernel)

/-- `mergeWithProto_adds_gen`: into the NON-EMPTY sparse store `[(5, 1)]`; index 5 receives `1 + 1/2 + 0` -/
example (fuel : Nat) :
    ∃ st' C, Gen.StoreProto.MergeWithProto fuel GenSparse.descending (.sp [(5, 1)]) pbBoth = .ok st' ∧
      Lift.Good st' ∧ st'.kind = (Store.sp [(5, 1)]).kind ∧
      Lift.contentOf st' = (Store.sp [(5, 1)]).clamp.apply C ∧
      C.lookup 5 = 3 / 2 ∧ C.lookup 6 = 3 ∧ C.lookup (-3) = 2 ∧ C.lookup 4 = 1 := by
  obtain ⟨st', C, h1, h2, h3, h4, h5⟩ :=
    mergeWithProto_adds_gen fuel GenSparse.descending GenSparse.descending_lawful (.sp [(5, 1)])
      ⟨wf_51, by intro p hp; simp only [List.mem_cons, List.not_mem_nil, or_false] at hp; subst hp; decide⟩
      [(5, 1)] wf_51 (by decide +kernel) pbBoth pbBoth_wf pbBoth_fin pbBoth_ok
  refine ⟨st', C, h1, h2, h3, h4, ?_, ?_, ?_, ?_⟩
  · rw [h5]; decide +kernel
  · rw [h5]; decide +kernel
  · rw [h5]; decide +kernel
  · rw [h5]; decide +kernel

/-- `sparse_to_dense_fromProto`: the instance `GenDecodeWrap.denseI` meets `DenseAdds` -/
example (fuel fuel2 : Nat) :
    ∃ m d, Gen.SparseProto.SparseStore.ToProto fuel GenSparse.descending ⟨spC⟩ = .ok m ∧
      @Gen.DenseFromProto.FromProto GenDecodeWrap.denseI fuel2 MapOrder.ascending (toF64 m)
        = .ok (GenDense.toGen d) ∧
      Lift.Good (.d d) ∧ Lift.contentOf (.d d) = spC :=
  sparse_to_dense_fromProto spC_rep spC_32 GenSparse.descending MapOrder.ascending GenSparse.descending_lawful
    GenSparse.ascending_lawful GenDecodeWrap.denseI GenDecodeWrap.denseI_adds fuel fuel2

end C09

/-! ## C12GenIter: iteration and approximate sum on regenerated code -/
section C12
open DDS.QuantileEx DDS.GenSketch DDS.GenSketch7 DDS.Extremes DDS.Props.C12GenIter

theorem exCp6_wf : C06.exCp.WF := RoundTrip.wf_of_wfb _ (by decide +kernel)
theorem exCn6_wf : C06.exCn.WF := RoundTrip.wf_of_wfb _ (by decide +kernel)

/-- `forEach_gen_bins`: the sketch `C06.exS` (a DENSE positive store, a PAGINATED negative store, zero count `3/4`),
    refining `exCp = [(5, 2), (7, 1), (8, 3)]`, `exCn = [(1, 2), (2, 1), (3, 1)]`; seven bins are reported -/
example (fuel : Nat) : ∃ l : List (F64 × Rat),
    C06.exS.forEachList C12.envC = some l ∧
    Gen.SketchIter.DDSketch.ForEach fuel (toGen C12.envC C06.exS) [] recorder = .ok (liftL l) ∧
    (∀ p ∈ l, 0 < p.2) ∧ (l.map (·.2)).sum = 3 / 4 + C06.exCp.total + C06.exCn.total ∧ l.length = 7 := by
  obtain ⟨l, h1, h2, h3, h4⟩ := forEach_gen_bins C12.envC C06.exS C06.exCp C06.exCn (3 / 4) C06.exS_refines rfl
    exCp6_wf exCn6_wf (by norm_num) fuel
  refine ⟨l, h1, h2, h3, h4, ?_⟩
  have hc := Sketch.forEachList_congr C12.envC C06.exS_refines
  rw [h1] at hc
  have : ((Sketch.spec C06.exS.mapping C06.exCp C06.exCn C06.exS.zero).forEachList C12.envC).map List.length
      = some 7 := by decide +kernel
  rw [← hc] at this
  exact Option.some.inj this

/-- `forEach_gen_stops`: a visitor that stops on the first NEGATIVE value -/
example (fuel : Nat) : ∃ l : List (F64 × Rat), C06.exS.forEachList C12.envC = some l ∧
    Gen.SketchIter.DDSketch.ForEach fuel (toGen C12.envC C06.exS) ([] : List (F64 × F64))
      (fun log v c => .ok (log ++ [(v, c)], (fun v _ => F64.lt v (.fin 0)) v c))
        = .ok (takeThrough (fun v _ => F64.lt v (.fin 0)) (liftL l)) ∧
    takeThrough (fun v _ => F64.lt v (.fin 0)) (liftL l) <+: liftL l := by
  obtain ⟨l, h1, _⟩ := forEach_gen_bins C12.envC C06.exS C06.exCp C06.exCn (3 / 4) C06.exS_refines rfl
    exCp6_wf exCn6_wf (by norm_num) fuel
  exact ⟨l, h1, forEach_gen_stops C12.envC C06.exS l h1 rfl fuel _⟩

/-- non-negative inputs, two of them in the zero bucket -/
def nnXs : List Rat := [5, 1, 3, 0, 12]

theorem nnXs_ok : ∀ x ∈ nnXs, rabs x ≤ 12 := by
  intro x hx
  simp only [nnXs, List.mem_cons, List.not_mem_nil, or_false] at hx
  rcases hx with rfl | rfl | rfl | rfl | rfl <;> (unfold rabs; norm_num)

theorem nnXs_nonneg : ∀ x ∈ nnXs, 0 ≤ x := by
  intro x hx
  simp only [nnXs, List.mem_cons, List.not_mem_nil, or_false] at hx
  rcases hx with rfl | rfl | rfl | rfl | rfl <;> norm_num

def nnL : List (F64 × Rat) := [(.fin 0, 2), (.fin 2, 1), (.fin 6, 2)]

theorem nnL_exact : SumExact nnL := by
  constructor
  · intro p hp
    simp only [nnL, List.mem_cons, List.not_mem_nil, or_false] at hp
    rcases hp with rfl | rfl | rfl <;> exact ⟨_, rfl, by decide +kernel⟩
  · intro k hk
    simp only [nnL, List.length_cons, List.length_nil] at hk
    have hk' : k = 0 ∨ k = 1 ∨ k = 2 ∨ k = 3 := by omega
    rcases hk' with rfl | rfl | rfl | rfl <;> decide +kernel

/-- `getSum_gen_accuracy` (and `getSum_gen_exact`): all of its hypotheses hold of `nnXs` under `exEnv`; the regenerated
    `GetSum` returns `14`, the true sum of the inputs (1 counting as 0) is `20`, and `|14 - 20| ≤ 1/2 · 20` -/
example (fuel : Nat) : ∃ s,
    Sketch.addAll exEnv (Sketch.new (some exEnv.id) .sparse) (nnXs.map (fun x => (x, 1))) = some s ∧
    s.forEachList exEnv = some nnL ∧ s.zero.isFinite = true ∧
    Gen.SketchIter.DDSketch.GetSum fuel (toGen exEnv s) = .ok (.fin 14) ∧
    ∃ A : Rat, Gen.SketchIter.DDSketch.GetSum fuel (toGen exEnv s) = .ok (.fin A) ∧
      rabs (A - (sortedInputs (4 / 3) nnXs).sum) ≤ 1 / 2 * rabs (sortedInputs (4 / 3) nnXs).sum := by
  obtain ⟨s, hs⟩ := C01.addAll_ok exEnv _ _ _ exContract nnXs nnXs_ok
  have hspec := hs
  rw [DDS.new_sparse, addAll_units exEnv _ _ _ exContract nnXs nnXs_ok] at hspec
  have hl : s.forEachList exEnv = some nnL := by
    cases hspec; decide +kernel
  have hz : s.zero.isFinite = true := by
    cases hspec; decide +kernel
  have hsum := (getSum_gen_exact exEnv s nnL hl nnL_exact hz fuel).1
  have e14 : approxSumL nnL = 14 := by decide +kernel
  rw [e14] at hsum
  exact ⟨s, hs, hl, hz, hsum,
    getSum_gen_accuracy exEnv _ _ _ exContract nnXs nnXs_ok (by simp [nnXs]) s hs
      (Or.inl (sortedInputs_nonneg_of (4 / 3) nnXs nnXs_nonneg)) nnL hl nnL_exact hz fuel⟩

end C12

/-! ## C19GenProto: the theorems quantify over EVERY instance `[MOps F64]`, and the project declares none — so an
    instance is exhibited here (the exact-float operations of the model where they exist, the identity for the
    transcendental functions, which the conversions never call), together with a mapping that passes its guard -/
section C19
open DDS.GenProtoSketch DDS.Gen.MappingProto DDS.Gen.MappingFromProto DDS.Props.C19GenProto

/-- an instance of the float operations over the exact float model -/
@[reducible] def demoOps : MOps F64 where
  add := F64.add
  sub := F64.sub
  mul := F64.mul
  div := F64.div
  neg := F64.neg
  ofInt := fun i => .fin (i : Rat)
  ofRat := fun q => .fin q
  lt := F64.lt
  le := F64.le
  log := id
  exp := id
  log2 := id
  exp2 := id
  pow := fun a _ => a
  cbrt := id
  sqrt := id
  floor := id
  trunc := fun _ => 0
  exponentOf := id
  significandPlusOne := id
  buildFloat := fun _ a => a
  ln2 := .fin 1
  expOverflow := .fin 1
  minNormal := .fin 1

attribute [local instance] demoOps

/-- the instance meets `LeOne` (the only thing the `…_model` theorems ask of it) -/
theorem demoOps_leOne : LeOne := by
  intro x
  show F64.le x (.fin ((1 : Int) : Rat)) = F64.le x (.fin 1)
  rw [Int.cast_one]

/-- gamma = 1.02 (nearest float), offset 0; the other three fields are not read by the conversions -/
def g102 : F64 := F64.ofBits 0x3FF051EB851EB852

theorem g102_guard : MOps.le g102 (MOps.ofInt 1 : F64) = false := by
  rw [demoOps_leOne]; exact C19.m102_valid.gammaGtOne

def mLog : Gen.Mapping.LogarithmicMapping F64 := ⟨g102, .fin 0, .fin 1, .fin (1 / 1000), .fin 1000⟩
def mLin : Gen.Mapping.LinearlyInterpolatedMapping F64 := ⟨g102, .fin 0, .fin 1, .fin (1 / 1000), .fin 1000⟩
def mCub : Gen.Mapping.CubicallyInterpolatedMapping F64 := ⟨g102, .fin 0, .fin 1, .fin (1 / 1000), .fin 1000⟩

/-- `log_proto_roundtrip` -/
example (fuel : Nat) : ∃ m', FromProto fuel (some (LogarithmicMapping.ToProto mLog)) =
      .ok (IndexMapping.LogarithmicMapping m', GoErr.nil) ∧
    m'.gamma = g102 ∧ m'.indexOffset = .fin 0 ∧
    Gen.MapId.LogarithmicMapping.Equals (asIdLog m') (asIdLog mLog) = true ∧
    Gen.MapId.LogarithmicMapping.Equals (asIdLog mLog) (asIdLog m') = true :=
  log_proto_roundtrip fuel mLog _ 0 g102_guard C19.gamma102_eq rfl

/-- `lin_proto_roundtrip` -/
example (fuel : Nat) : ∃ m', FromProto fuel (some (LinearlyInterpolatedMapping.ToProto mLin)) =
      .ok (IndexMapping.LinearlyInterpolatedMapping m', GoErr.nil) ∧
    m'.gamma = g102 ∧ m'.indexOffset = .fin 0 ∧
    Gen.MapId.LinearlyInterpolatedMapping.Equals (asIdLin m') (asIdLin mLin) = true ∧
    Gen.MapId.LinearlyInterpolatedMapping.Equals (asIdLin mLin) (asIdLin m') = true :=
  lin_proto_roundtrip fuel mLin _ 0 g102_guard C19.gamma102_eq rfl

/-- `cub_proto_roundtrip` -/
example (fuel : Nat) : ∃ m', FromProto fuel (some (CubicallyInterpolatedMapping.ToProto mCub)) =
      .ok (IndexMapping.CubicallyInterpolatedMapping m', GoErr.nil) ∧
    m'.gamma = g102 ∧ m'.indexOffset = .fin 0 ∧
    Gen.MapId.CubicallyInterpolatedMapping.Equals (asIdCub m') (asIdCub mCub) = true ∧
    Gen.MapId.CubicallyInterpolatedMapping.Equals (asIdCub mCub) (asIdCub m') = true :=
  cub_proto_roundtrip fuel mCub _ 0 g102_guard C19.gamma102_eq rfl

/-- `log/lin/cub_proto_roundtrip_model`: `LeOne` and the bit-pattern hypotheses hold together -/
example (fuel : Nat) : ∃ r, FromProto fuel (some (LogarithmicMapping.ToProto mLog)) = .ok (r, GoErr.nil) ∧
    idOf r = some C19.m102 ∧
    Proto.mappingFromProto (some (pbOfGo (LogarithmicMapping.ToProto mLog))) = .ok C19.m102 :=
  log_proto_roundtrip_model demoOps_leOne fuel mLog C19.m102_valid.gammaBits C19.m102_valid.offsetBits
    C19.m102_valid.gammaGtOne

example (fuel : Nat) : ∃ r, FromProto fuel (some (LinearlyInterpolatedMapping.ToProto mLin)) = .ok (r, GoErr.nil) ∧
    idOf r = some (idLin mLin) ∧
    Proto.mappingFromProto (some (pbOfGo (LinearlyInterpolatedMapping.ToProto mLin))) = .ok (idLin mLin) :=
  lin_proto_roundtrip_model demoOps_leOne fuel mLin C19.m102_valid.gammaBits C19.m102_valid.offsetBits
    C19.m102_valid.gammaGtOne

example (fuel : Nat) : ∃ r, FromProto fuel (some (CubicallyInterpolatedMapping.ToProto mCub)) = .ok (r, GoErr.nil) ∧
    idOf r = some (idCub mCub) ∧
    Proto.mappingFromProto (some (pbOfGo (CubicallyInterpolatedMapping.ToProto mCub))) = .ok (idCub mCub) :=
  cub_proto_roundtrip_model demoOps_leOne fuel mCub C19.m102_valid.gammaBits C19.m102_valid.offsetBits
    C19.m102_valid.gammaGtOne

/-- `proto_roundtrip_inf_not_equals`, `proto_rejects_gamma_le_one` (gamma = 1/2 with the LINEAR tag),
    `proto_rejects_unknown_interpolation` (tag 7) under that instance -/
example (fuel : Nat) : ∃ m', FromProto fuel (some (LogarithmicMapping.ToProto ⟨.pinf, .fin 0, .fin 1, .fin 1, .fin 1⟩)) =
      .ok (IndexMapping.LogarithmicMapping m', GoErr.nil) ∧
    m'.gamma = .pinf ∧ m'.indexOffset = .fin 0 ∧
    Gen.MapId.LogarithmicMapping.Equals (asIdLog m') (asIdLog ⟨.pinf, .fin 0, .fin 1, .fin 1, .fin 1⟩) = false :=
  proto_roundtrip_inf_not_equals demoOps_leOne fuel _ _ _

example (fuel : Nat) : ∃ r, FromProto fuel
    (some { (LinearlyInterpolatedMapping.ToProto mLin) with Gamma := .fin (1 / 2) }) = .ok (r, errGamma) :=
  proto_rejects_gamma_le_one demoOps_leOne fuel _ (Or.inr (Or.inl rfl)) (by decide +kernel)

example (fuel : Nat) :
    FromProto fuel (some { (LogarithmicMapping.ToProto mLog) with Interpolation := 7#32 })
      = .ok (IndexMapping.nil, errInterpolation) ∧
    Proto.mappingFromProto (some (pbOfGo { (LogarithmicMapping.ToProto mLog) with Interpolation := 7#32 }))
      = .error .badInterpolation :=
  proto_rejects_unknown_interpolation fuel _ (Or.inr (by decide))

end C19

/-! ## C05GenLow / C05GenHigh (store-level C05 on the regenerated collapsing stores; no instance in their own
    files): limit `N = 2`, a history over five distinct indexes of both signs with a `Clear` in it -/
section C05Store
open DDS.DStore DDS.GenDense DDS.Props.C05

def lops : List C05GenLow.LOp := [.add 3 1, .add 10 (1 / 2), .clear, .add (-5) 2, .add 7 1, .add 8 1, .add 7 (1 / 4)]

theorem lops_ok : ∀ op ∈ lops, op.toOp.ok32 := by
  intro op hop
  simp only [lops, List.mem_cons, List.not_mem_nil, or_false] at hop
  rcases hop with rfl | rfl | rfl | rfl | rfl | rfl | rfl <;>
    first | trivial | exact ⟨by decide +kernel, by decide, by decide⟩

theorem lops_exact : exactContent (lops.map C05GenLow.LOp.toOp) = [(-5, 2), (7, 5 / 4), (8, 1)] := by
  decide +kernel

/-- `gen_low_never_panics`, `gen_low_content_after_history`, `gen_low_weight_conserved` at the fuel `2N + 2 = 6` -/
example : (∃ s, C05GenLow.genRunLow 6 2 lops = .ok (toLow ((2 : Nat) : Int) s) ∧ InvLow 2 s) ∧
    (∃ g, C05GenLow.genRunLow 6 2 lops = .ok g ∧
      content (ofLow g) = Content.specLow 2 [(-5, 2), (7, 5 / 4), (8, 1)]) ∧
    (∃ g, C05GenLow.genRunLow 6 2 lops = .ok g ∧
      Gen.Dense.DenseStore.TotalCount g.DenseStore = Content.total [(-5, 2), (7, 5 / 4), (8, 1)]) := by
  have h2 := C05GenLow.gen_low_content_after_history 6 2 (by omega) (by omega) lops lops_ok
  have h3 := C05GenLow.gen_low_weight_conserved 6 2 (by omega) (by omega) lops lops_ok
  rw [lops_exact] at h2 h3
  exact ⟨C05GenLow.gen_low_never_panics 6 2 (by omega) (by omega) lops lops_ok, h2, h3⟩

/-- `gen_low_merge_safe`: limits 2 and 3, fuel 9 -/
example : ∃ g o s', C05GenLow.genRunLow 9 2 lops = .ok g ∧ C05GenLow.genRunLow 9 3 lops = .ok o ∧
    Gen.Dense.CollapsingLowestDenseStore.MergeWith 9 g o = .ok (toLow ((2 : Nat) : Int) s') ∧
    InvLow 2 s' ∧ s'.bins.size ≤ 2 ∧
    s'.totalCount = Gen.Dense.DenseStore.TotalCount g.DenseStore
                      + Gen.Dense.DenseStore.TotalCount o.DenseStore ∧
    content s' = Content.specLow 2 ((exactContent (lops.map C05GenLow.LOp.toOp)).merge
      (Content.specLow 3 (exactContent (lops.map C05GenLow.LOp.toOp)))) :=
  C05GenLow.gen_low_merge_safe 9 2 3 (by omega) (by omega) (by omega) (by omega) lops lops lops_ok lops_ok

def hops : List Op := lops.map C05GenLow.LOp.toOp

theorem hops_ok : ∀ op ∈ hops, op.ok32 := C05GenLow.ok32_map lops lops_ok

/-- `gen_high_never_panics`, `gen_high_content_after_history`, `gen_high_merge_safe` -/
example : (∃ f0 s, (∀ fuel, f0 ≤ fuel → C05GenHigh.genRunHigh fuel 2 hops = .ok (toHigh ((2 : Nat) : Int) s)) ∧
      InvHigh 2 s) ∧
    (∃ f0 g, (∀ fuel, f0 ≤ fuel → C05GenHigh.genRunHigh fuel 2 hops = .ok g) ∧
      content (ofHigh g) = Content.specHigh 2 [(-5, 2), (7, 5 / 4), (8, 1)] ∧
      Gen.Dense.DenseStore.TotalCount g.DenseStore = Content.total [(-5, 2), (7, 5 / 4), (8, 1)]) := by
  have h2 := C05GenHigh.gen_high_content_after_history 2 (by omega) hops hops_ok
  rw [show exactContent hops = [(-5, 2), (7, 5 / 4), (8, 1)] from lops_exact] at h2
  exact ⟨C05GenHigh.gen_high_never_panics 2 (by omega) hops hops_ok, h2⟩

example : ∃ f0 g o g', ∀ fuel, f0 ≤ fuel →
    C05GenHigh.genRunHigh fuel 2 hops = .ok g ∧ C05GenHigh.genRunHigh fuel 3 hops = .ok o ∧
    Gen.Dense.CollapsingHighestDenseStore.MergeWith fuel g o = .ok g' ∧
    g'.DenseStore.bins.length ≤ 2 ∧
    g'.DenseStore.count = g.DenseStore.count + o.DenseStore.count ∧
    content (ofHigh g') = Content.specHigh 2
      ((exactContent hops).merge (Content.specHigh 3 (exactContent hops))) :=
  C05GenHigh.gen_high_merge_safe 2 3 (by omega) (by omega) hops hops hops_ok hops_ok

end C05Store

end DDS.Props.NonVacuityGen
