/-
  DDS.Props.C17 — "Changing mapping or unit conserves weight and stays within combined accuracy".

  `DDSketch.ChangeMapping` / `changeStoreMapping` (ddsketch.go) spread every source bin
  `[lb₁ i, lb₁ (i+1)) · scale` over the target bins that intersect it, proportionally to the length
  of the intersection.  Two strata:

  * Part 1 — the IDEAL re-binning over any linear ordered field `K` (`ℚ`, `ℝ`): definitions
    `Rebin.prop` (ideal proportion), `Rebin.rebin` (target histogram), `Rebin.srcCdf`
    (piecewise-linear CDF of the scaled source, weight uniformly spread inside each bin).
    A grid is a strictly increasing `b : ℤ → K` (bin `i` is `[b i, b (i+1))`); a source histogram is a
    finite list of `(index, weight)`.
  * Part 2 — the transcribed float loop `ChangeMapping.spreadBin` (exact binary64 model `F64`,
    oracle mapping `MapEnv`): sign of the weights and real overlap for ALL floats, and equality
    with the ideal proportions when the float operations of the loop are exact.
    `Summary.rescale` (exact statistics).

  Statements that needed a correction with respect to the informal claim (each one is witnessed by a
  machine-checked counterexample below):
  * "every weight is `> 0` for ALL floats" is FALSE: a NaN bound gives a NaN weight
    (`nan_bound_gives_nan_weight`), and the quotient `inter / size` can underflow to `0`
    (`underflow_gives_zero_weight`: `inter = 2^-1074`, `size = 2^1000`).  What holds for ALL floats is
    "no weight is `< 0`" (`spreadBin_weights_not_neg`); with finite inputs and a non-NaN oracle every
    weight is `≥ 0` (`spreadBin_weights_nonneg`) and `> 0` when the product does not underflow
    (`spreadBin_weights_pos`).
  * "every produced index satisfies `inLow < lowerBound (j+1)` for ALL floats" is FALSE when that bound
    is NaN (`nan_bound_breaks_overlap`).  What holds for ALL floats: `lowerBound j < inHigh`, and
    `inLow < lowerBound (j+1)` unless the weight is NaN (`spreadBin_indexes_overlap`); with finite
    inputs and a non-NaN oracle both hold (`spreadBin_indexes_overlap_fin`).
  * `rebin_quantile_bin` is proved with the half-open cumulative interval `C_{i-1} ≤ r < C_i`
    (stronger than the closed one of the informal statement).
-/
import DDS.Proofs.Rebin
import DDS.Proofs.MappingReal

namespace DDS.Props.C17

open DDS DDS.Rebin DDS.ChangeMapping

/-! ## Part 1 — the ideal re-binning -/

section Ideal

variable {K : Type*} [Field K] [LinearOrder K] [IsStrictOrderedRing K]

/-! ### the vocabulary, restated -/

example (b₂ : ℤ → K) (lo hi : K) (j : ℤ) :
    prop b₂ lo hi j = max 0 (min (b₂ (j + 1)) hi - max (b₂ j) lo) / (hi - lo) := rfl

example (b₁ b₂ : ℤ → K) (scale : K) (src : List (ℤ × K)) (j : ℤ) :
    rebin b₁ b₂ scale src j =
      (src.map fun p => prop b₂ (b₁ p.1 * scale) (b₁ (p.1 + 1) * scale) j * p.2).sum := rfl

example (b₁ : ℤ → K) (scale : K) (src : List (ℤ × K)) (x : K) :
    srcCdf b₁ scale src x =
      (src.map fun p =>
        p.2 * ((max (b₁ p.1 * scale) (min x (b₁ (p.1 + 1) * scale)) - b₁ p.1 * scale) /
          (b₁ (p.1 + 1) * scale - b₁ p.1 * scale))).sum := rfl

example (src : List (ℤ × K)) : total src = (src.map Prod.snd).sum := rfl

example (src : List (ℤ × K)) (j : ℤ) :
    weightAt src j = (src.map fun p => if p.1 = j then p.2 else 0).sum := rfl

/-! ### one source bin `[lo, hi)` -/

theorem prop_nonneg (b₂ : ℤ → K) {lo hi : K} (h : lo < hi) (j : ℤ) : 0 ≤ prop b₂ lo hi j :=
  Rebin.prop_nonneg b₂ h j

theorem prop_le_one (b₂ : ℤ → K) {lo hi : K} (h : lo < hi) (j : ℤ) : prop b₂ lo hi j ≤ 1 :=
  Rebin.prop_le_one b₂ h j

/-- weight only goes to overlapping bins -/
theorem prop_pos_iff_overlap (b₂ : ℤ → K) {lo hi : K} (h : lo < hi) (j : ℤ) :
    0 < prop b₂ lo hi j ↔ ∃ x, (b₂ j < x ∧ x < b₂ (j + 1)) ∧ (lo < x ∧ x < hi) :=
  Rebin.prop_pos_iff_overlap b₂ h j

/-- the same for a non-degenerate target bin, as two inequalities on the bounds -/
theorem prop_pos_iff_lt (b₂ : ℤ → K) {lo hi : K} (h : lo < hi) (j : ℤ)
    (hb : b₂ j < b₂ (j + 1)) :
    0 < prop b₂ lo hi j ↔ b₂ j < hi ∧ lo < b₂ (j + 1) :=
  Rebin.prop_pos_iff_lt b₂ h j hb

/-- the loop `for j := m; b₂ j < hi; j++` visits exactly `m..J`, `J` the last bin that starts below
    `hi`; such a `J` exists as soon as some bound reaches `hi` -/
theorem visited_range {b₂ : ℤ → K} (hb : StrictMono b₂) {hi : K} {m : ℤ} (hm : b₂ m < hi)
    (hex : ∃ J', hi ≤ b₂ (J' + 1)) :
    ∃ J, m ≤ J ∧ b₂ J < hi ∧ hi ≤ b₂ (J + 1) ∧
      ∀ j, (m ≤ j ∧ b₂ j < hi) ↔ j ∈ Finset.Icc m J := by
  obtain ⟨J, h1, h2, h3⟩ := exists_last_bin hb hm hex
  exact ⟨J, h1, h2, h3, visited_iff hb h2 h3 m⟩

/-- conservation for one source bin: the proportions over the visited range add up to `1` -/
theorem prop_sum_eq_one {b₂ : ℤ → K} (hb : Monotone b₂) {lo hi : K} (h : lo < hi) {m J : ℤ}
    (hm : b₂ m ≤ lo) (hJ : hi ≤ b₂ (J + 1)) :
    ∑ j ∈ Finset.Icc m J, prop b₂ lo hi j = 1 :=
  Rebin.prop_sum_eq_one hb h hm hJ

/-- … with the start of the loop given by the index function of a grid -/
theorem prop_sum_eq_one_grid (G : Grid K) {lo hi : K} (hlo : 0 < lo) (h : lo < hi) {J : ℤ}
    (hJ : hi ≤ G.b (J + 1)) :
    ∑ j ∈ Finset.Icc (G.idx lo) J, prop G.b lo hi j = 1 :=
  G.prop_sum_eq_one hlo h hJ

/-! ### a finite source histogram -/

/-- conservation: total weight of the target = total weight of the source (`m..J` is any range of
    target bins that covers the scaled source; outside of it the target is empty) -/
theorem rebin_total {b₁ b₂ : ℤ → K} (hb₁ : StrictMono b₁) (hb₂ : Monotone b₂) {scale : K}
    (hs : 0 < scale) (src : List (ℤ × K)) {m J : ℤ} (hmJ : m ≤ J + 1)
    (hm : ∀ p ∈ src, b₂ m ≤ sLo b₁ scale p.1) (hJ : ∀ p ∈ src, sHi b₁ scale p.1 ≤ b₂ (J + 1)) :
    ∑ j ∈ Finset.Icc m J, rebin b₁ b₂ scale src j = total src :=
  Rebin.rebin_total hb₁ hb₂ hs src hmJ hm hJ

theorem rebin_eq_zero_outside {b₁ b₂ : ℤ → K} (hb₁ : StrictMono b₁) (hb₂ : Monotone b₂)
    {scale : K} (hs : 0 < scale) {src : List (ℤ × K)} {m J : ℤ}
    (hm : ∀ p ∈ src, b₂ m ≤ sLo b₁ scale p.1) (hJ : ∀ p ∈ src, sHi b₁ scale p.1 ≤ b₂ (J + 1))
    {j : ℤ} (hj : j ∉ Finset.Icc m J) : rebin b₁ b₂ scale src j = 0 :=
  Rebin.rebin_eq_zero hb₁ hb₂ hs hm hJ hj

/-- a covering range exists for every finite source on a grid with unbounded bounds -/
theorem cover_exists (b₁ : ℤ → K) (hpos₁ : ∀ i, 0 < b₁ i) (G : Grid K)
    (hunb : ∀ x : K, ∃ J, x ≤ G.b (J + 1)) {scale : K} (hs : 0 < scale) (src : List (ℤ × K)) :
    ∃ m J : ℤ, m ≤ J + 1 ∧ (∀ p ∈ src, G.b m ≤ sLo b₁ scale p.1) ∧
      (∀ p ∈ src, sHi b₁ scale p.1 ≤ G.b (J + 1)) :=
  Rebin.exists_cover b₁ hpos₁ G hunb hs src

theorem rebin_nonneg {b₁ b₂ : ℤ → K} (hb₁ : StrictMono b₁) {scale : K} (hs : 0 < scale)
    {src : List (ℤ × K)} (hc : ∀ p ∈ src, 0 ≤ p.2) (j : ℤ) : 0 ≤ rebin b₁ b₂ scale src j :=
  Rebin.rebin_nonneg hb₁ hs hc j

/-- the key lemma for quantiles: cumulated target weight below the edge `b₂ j` = source CDF there -/
theorem rebin_cdf {b₁ b₂ : ℤ → K} (hb₁ : StrictMono b₁) (hb₂ : Monotone b₂) {scale : K}
    (hs : 0 < scale) (src : List (ℤ × K)) {m j : ℤ}
    (hm : ∀ p ∈ src, b₂ m ≤ sLo b₁ scale p.1) (hmj : m ≤ j) :
    ∑ k ∈ Finset.Ico m j, rebin b₁ b₂ scale src k = srcCdf b₁ scale src (b₂ j) :=
  Rebin.rebin_cdf hb₁ hb₂ hs src hm hmj

/-- if target bin `j` is the first whose cumulated weight exceeds `r`, the source bin that answers
    rank `r` (`src = pre ++ p :: post`, `total pre ≤ r < total pre + p.2`) overlaps target bin `j` -/
theorem rebin_quantile_bin {b₁ b₂ : ℤ → K} (hb₁ : StrictMono b₁) (hb₂ : Monotone b₂) {scale : K}
    (hs : 0 < scale) {src : List (ℤ × K)} (hsorted : src.Pairwise (fun u v => u.1 < v.1))
    (hc : ∀ q ∈ src, 0 ≤ q.2) {m j : ℤ} (hm : ∀ p ∈ src, b₂ m ≤ sLo b₁ scale p.1) (hmj : m ≤ j)
    {r : K} (h0 : 0 ≤ r)
    (hbelow : ∑ k ∈ Finset.Ico m j, rebin b₁ b₂ scale src k ≤ r)
    (habove : r < ∑ k ∈ Finset.Icc m j, rebin b₁ b₂ scale src k) :
    ∃ pre p post, src = pre ++ p :: post ∧ total pre ≤ r ∧ r < total pre + p.2 ∧
      b₂ j < sHi b₁ scale p.1 ∧ sLo b₁ scale p.1 < b₂ (j + 1) :=
  Rebin.rebin_quantile_bin hb₁ hb₂ hs hsorted hc hm hmj h0 hbelow habove

/-- hence the two answers for rank `r` are within the product of the grid ratios
    (`ρ = (1+α)/(1−α)` for a mapping of relative accuracy `α`) -/
theorem rebin_quantile_accuracy {b₁ b₂ : ℤ → K} (hb₁ : StrictMono b₁) (hb₂ : Monotone b₂)
    (hpos₁ : ∀ i, 0 < b₁ i) (hpos₂ : ∀ j, 0 < b₂ j) {scale ρ₁ ρ₂ : K} (hs : 0 < scale)
    (hρ₁ : ∀ i, b₁ (i + 1) ≤ ρ₁ * b₁ i) (hρ₂ : ∀ j, b₂ (j + 1) ≤ ρ₂ * b₂ j)
    {rep₁ rep₂ : ℤ → K}
    (hrep₁ : ∀ i, b₁ i ≤ rep₁ i ∧ rep₁ i ≤ b₁ (i + 1))
    (hrep₂ : ∀ j, b₂ j ≤ rep₂ j ∧ rep₂ j ≤ b₂ (j + 1))
    {src : List (ℤ × K)} (hsorted : src.Pairwise (fun u v => u.1 < v.1))
    (hc : ∀ q ∈ src, 0 ≤ q.2) {m j : ℤ} (hm : ∀ p ∈ src, b₂ m ≤ sLo b₁ scale p.1) (hmj : m ≤ j)
    {r : K} (h0 : 0 ≤ r)
    (hbelow : ∑ k ∈ Finset.Ico m j, rebin b₁ b₂ scale src k ≤ r)
    (habove : r < ∑ k ∈ Finset.Icc m j, rebin b₁ b₂ scale src k) :
    ∃ pre p post, src = pre ++ p :: post ∧ total pre ≤ r ∧ r < total pre + p.2 ∧
      1 / (ρ₁ * ρ₂) < rep₂ j / (scale * rep₁ p.1) ∧ rep₂ j / (scale * rep₁ p.1) < ρ₁ * ρ₂ :=
  Rebin.rebin_quantile_accuracy hb₁ hb₂ hpos₁ hpos₂ hs hρ₁ hρ₂ hrep₁ hrep₂ hsorted hc hm hmj h0
    hbelow habove

/-- the same in terms of accuracies: representatives that are `α`-accurate for the points inside
    their bin (as `Value(index)` of a mapping is, see `mapping_value_accurate`) give
    `(1−α₂)/(1+α₁) ≤ rep₂ j / (scale · rep₁ i) ≤ (1+α₂)/(1−α₁)`, stated without division -/
theorem rebin_quantile_accuracy_alpha {b₁ b₂ : ℤ → K} (hb₁ : StrictMono b₁)
    (hb₂ : StrictMono b₂) {scale α₁ α₂ : K} (hs : 0 < scale)
    (hα₁ : 0 ≤ α₁) (hα₁' : α₁ ≤ 1) (hα₂ : 0 ≤ α₂) (hα₂' : α₂ ≤ 1) {rep₁ rep₂ : ℤ → K}
    (hacc₁ : ∀ i v, b₁ i < v → v < b₁ (i + 1) → |rep₁ i - v| ≤ α₁ * v)
    (hacc₂ : ∀ j v, b₂ j < v → v < b₂ (j + 1) → |rep₂ j - v| ≤ α₂ * v)
    {src : List (ℤ × K)} (hsorted : src.Pairwise (fun u v => u.1 < v.1))
    (hc : ∀ q ∈ src, 0 ≤ q.2) {m j : ℤ} (hm : ∀ p ∈ src, b₂ m ≤ sLo b₁ scale p.1) (hmj : m ≤ j)
    {r : K} (h0 : 0 ≤ r)
    (hbelow : ∑ k ∈ Finset.Ico m j, rebin b₁ b₂ scale src k ≤ r)
    (habove : r < ∑ k ∈ Finset.Icc m j, rebin b₁ b₂ scale src k) :
    ∃ pre p post, src = pre ++ p :: post ∧ total pre ≤ r ∧ r < total pre + p.2 ∧
      (1 - α₂) * (scale * rep₁ p.1) ≤ (1 + α₁) * rep₂ j ∧
      (1 - α₁) * rep₂ j ≤ (1 + α₂) * (scale * rep₁ p.1) :=
  Rebin.rebin_quantile_accuracy_alpha hb₁ hb₂ hs hα₁ hα₁' hα₂ hα₂' hacc₁ hacc₂ hsorted hc hm hmj h0
    hbelow habove

/-- re-binning onto the same grid with scale `1` returns the source histogram -/
theorem identity_rebin {b : ℤ → K} (hb : StrictMono b) (src : List (ℤ × K)) (j : ℤ) :
    rebin b b 1 src j = weightAt src j :=
  Rebin.identity_rebin hb src j

/-- each bin gets proportion `1` on itself and `0` elsewhere -/
theorem identity_prop {b : ℤ → K} (hb : StrictMono b) (i j : ℤ) :
    prop b (b i) (b (i + 1)) j = if j = i then 1 else 0 :=
  Rebin.prop_self hb i j

end Ideal

/-! ### the three concrete mappings over `ℝ` (property C03) fit the hypotheses -/

section RealMappings

variable (p : Mapping.Params ℝ)

theorem mapping_lowerBound_strictMono (hγ : 1 < p.gamma) : StrictMono (Mapping.lowerBound p) :=
  fun _ _ h => RealMap.lowerBound_strictMono p hγ h

/-- `Value(i)` is `α`-accurate for every point inside bin `i` -/
theorem mapping_value_accurate (hγ : 1 < p.gamma) (i : ℤ) (v : ℝ)
    (h1 : Mapping.lowerBound p i < v) (h2 : v < Mapping.lowerBound p (i + 1)) :
    |Mapping.value p i - v| ≤ Mapping.relativeAccuracy p * v := by
  have hv : 0 < v := lt_trans (RealMap.lowerBound_pos p i) h1
  have hsm := mapping_lowerBound_strictMono p hγ
  have a := RealMap.lowerBound_le p hγ hv
  have b := RealMap.le_lowerBound_succ p hγ hv
  have e1 : Mapping.index p v < i + 1 := hsm.lt_iff_lt.mp (lt_of_le_of_lt a h2)
  have e2 : i < Mapping.index p v + 1 := hsm.lt_iff_lt.mp (lt_of_lt_of_le h1 b)
  have e : Mapping.index p v = i := by omega
  have := RealMap.accuracy p hγ hv
  rwa [e] at this

/-- **C17, quantiles**: converting from mapping `p₁` to mapping `p₂` with a positive scale: the value
    the ideal target answers for rank `r` and `scale ·` the value the source answers for the same
    rank are within the combined relative accuracy of the two mappings -/
theorem mapping_quantile_accuracy (p₁ p₂ : Mapping.Params ℝ) (hγ₁ : 1 < p₁.gamma)
    (hγ₂ : 1 < p₂.gamma) {scale : ℝ} (hs : 0 < scale)
    {src : List (ℤ × ℝ)} (hsorted : src.Pairwise (fun u v => u.1 < v.1))
    (hc : ∀ q ∈ src, 0 ≤ q.2) {m j : ℤ}
    (hm : ∀ q ∈ src, Mapping.lowerBound p₂ m ≤ sLo (Mapping.lowerBound p₁) scale q.1)
    (hmj : m ≤ j) {r : ℝ} (h0 : 0 ≤ r)
    (hbelow : ∑ k ∈ Finset.Ico m j,
        rebin (Mapping.lowerBound p₁) (Mapping.lowerBound p₂) scale src k ≤ r)
    (habove : r < ∑ k ∈ Finset.Icc m j,
        rebin (Mapping.lowerBound p₁) (Mapping.lowerBound p₂) scale src k) :
    ∃ pre q post, src = pre ++ q :: post ∧ total pre ≤ r ∧ r < total pre + q.2 ∧
      (1 - Mapping.relativeAccuracy p₂) * (scale * Mapping.value p₁ q.1)
        ≤ (1 + Mapping.relativeAccuracy p₁) * Mapping.value p₂ j ∧
      (1 - Mapping.relativeAccuracy p₁) * Mapping.value p₂ j
        ≤ (1 + Mapping.relativeAccuracy p₂) * (scale * Mapping.value p₁ q.1) := by
  obtain ⟨a1, a2⟩ := RealMap.relativeAccuracy_pos_lt_one p₁ hγ₁
  obtain ⟨b1, b2⟩ := RealMap.relativeAccuracy_pos_lt_one p₂ hγ₂
  exact Rebin.rebin_quantile_accuracy_alpha (mapping_lowerBound_strictMono p₁ hγ₁)
    (mapping_lowerBound_strictMono p₂ hγ₂) hs a1.le a2.le b1.le b2.le
    (mapping_value_accurate p₁ hγ₁) (mapping_value_accurate p₂ hγ₂) hsorted hc hm hmj h0
    hbelow habove

end RealMappings

/-! ## Part 2 — the transcribed float loop -/

/-! ### the vocabulary, restated -/

example (new : MapEnv) (inLow inHigh : F64) (j : Int) :
    fInter new inLow inHigh j =
      F64.sub (fminG (new.lowerBound (j + 1)) inHigh) (fmaxG (new.lowerBound j) inLow) := rfl

example (new : MapEnv) (inLow inHigh count : F64) (j : Int) :
    fWeight new inLow inHigh count j =
      F64.mul (F64.div (fInter new inLow inHigh j) (F64.sub inHigh inLow)) count := rfl

example (x : ℚ) : Exact x ↔ F64.roundF64 x = .fin x := Iff.rfl

example (j0 J : ℤ) : visited j0 J = (List.range (J + 1 - j0).toNat).map fun (k : ℕ) => j0 + (k : ℤ) :=
  rfl

/-- the structure of the output, ALL floats, any oracle: indexes are visited in increasing order
    from `j0`, under the loop guard, with the weight the loop computes, and skipped when the float
    intersection is `≤ 0` -/
theorem spreadBin_mem (new : MapEnv) (inLow inHigh count : F64) (fuel : Nat) (j0 j : Int) (w : F64)
    (hmem : (j, w) ∈ spreadBin new inLow inHigh count fuel j0) :
    j0 ≤ j ∧ j < j0 + fuel ∧ F64.lt (new.lowerBound j) inHigh = true ∧
      F64.le (fInter new inLow inHigh j) (.fin 0) = false ∧
      w = fWeight new inLow inHigh count j :=
  Rebin.spreadBin_mem new inLow inHigh count fuel j0 j w hmem

/-- **never a bin of negative weight** — ALL floats (NaN, ±∞ included), any oracle, any count that
    is not negative -/
theorem spreadBin_weights_not_neg (new : MapEnv) (inLow inHigh count : F64)
    (hc : F64.lt count (.fin 0) = false) (fuel : Nat) (j0 j : Int) (w : F64)
    (hmem : (j, w) ∈ spreadBin new inLow inHigh count fuel j0) :
    F64.lt w (.fin 0) = false :=
  Rebin.spreadBin_weights_not_neg new inLow inHigh count hc fuel j0 j w hmem

/-- finite bounds, finite float size, non-NaN oracle, count `≥ 0`: every weight is `≥ 0` -/
theorem spreadBin_weights_nonneg (new : MapEnv) (a b s c : Rat)
    (hnan : ∀ j, (new.lowerBound j).isNaN = false)
    (hs : F64.sub (.fin b) (.fin a) = .fin s) (hc : 0 ≤ c)
    (fuel : Nat) (j0 j : Int) (w : F64)
    (hmem : (j, w) ∈ spreadBin new (.fin a) (.fin b) (.fin c) fuel j0) :
    F64.le (.fin 0) w = true :=
  Rebin.spreadBin_weights_nonneg new a b s c hnan hs hc fuel j0 j w hmem

/-- … and `> 0` when the product `fl(inter/size) · count` does not underflow on the visited bins -/
theorem spreadBin_weights_pos (new : MapEnv) (a b s c : Rat)
    (hnan : ∀ j, (new.lowerBound j).isNaN = false)
    (hs : F64.sub (.fin b) (.fin a) = .fin s)
    (fuel : Nat) (j0 : Int)
    (hmul : ∀ j x, j0 ≤ j → j < j0 + fuel → fInter new (.fin a) (.fin b) j = .fin x → 0 < x →
      pow2 (-1075) < F64.rv (x / s) * c)
    (j : Int) (w : F64)
    (hmem : (j, w) ∈ spreadBin new (.fin a) (.fin b) (.fin c) fuel j0) :
    F64.lt (.fin 0) w = true :=
  Rebin.spreadBin_weights_pos new a b s c hnan hs fuel j0 hmul j w hmem

/-- **only to overlapping bins** — ALL floats -/
theorem spreadBin_indexes_overlap (new : MapEnv) (inLow inHigh count : F64)
    (fuel : Nat) (j0 j : Int) (w : F64)
    (hmem : (j, w) ∈ spreadBin new inLow inHigh count fuel j0) :
    F64.lt (new.lowerBound j) inHigh = true ∧
      (w = .nan ∨ F64.lt inLow (new.lowerBound (j + 1)) = true) :=
  Rebin.spreadBin_indexes_overlap new inLow inHigh count fuel j0 j w hmem

theorem spreadBin_indexes_overlap_fin (new : MapEnv) (a b s c : Rat)
    (hnan : ∀ j, (new.lowerBound j).isNaN = false)
    (hs : F64.sub (.fin b) (.fin a) = .fin s)
    (fuel : Nat) (j0 j : Int) (w : F64)
    (hmem : (j, w) ∈ spreadBin new (.fin a) (.fin b) (.fin c) fuel j0) :
    F64.lt (new.lowerBound j) (.fin b) = true ∧
      F64.lt (.fin a) (new.lowerBound (j + 1)) = true :=
  Rebin.spreadBin_indexes_overlap_fin new a b s c hnan hs fuel j0 j w hmem

/-- **the float loop computes the ideal proportions** when its operations are exact -/
theorem spreadBin_spec (new : MapEnv) (b : ℤ → ℚ) (hlb : ∀ j, new.lowerBound j = .fin (b j))
    (hb : StrictMono b) {lo hi c : ℚ} (h : lo < hi) {J : ℤ}
    (hJ1 : ∀ j, j ≤ J → b j < hi) (hJ2 : hi ≤ b (J + 1))
    (hsize : Exact (hi - lo)) {m : ℤ}
    (hinter : ∀ j, m ≤ j → j ≤ J → Exact (min (b (j + 1)) hi - max (b j) lo))
    (hdiv : ∀ j, m ≤ j → j ≤ J → 0 < prop b lo hi j → Exact (prop b lo hi j))
    (hmul : ∀ j, m ≤ j → j ≤ J → 0 < prop b lo hi j → Exact (prop b lo hi j * c))
    (fuel : ℕ) (j0 : ℤ) (hm0 : m ≤ j0) (hj0 : j0 ≤ J + 1) (hfuel : (J + 1 - j0).toNat ≤ fuel) :
    spreadBin new (.fin lo) (.fin hi) (.fin c) fuel j0 =
      (visited j0 J).filterMap fun j =>
        if 0 < prop b lo hi j then some (j, F64.fin (prop b lo hi j * c)) else none :=
  Rebin.spreadBin_spec new b hlb hb h hJ1 hJ2 hsize hinter hdiv hmul fuel j0 hm0 hj0 hfuel

/-- … hence, started at a bin whose lower bound is `≤ inLow` (what a consistent `index` returns),
    the float weights add up to the count exactly -/
theorem spreadBin_spec_total (new : MapEnv) (b : ℤ → ℚ)
    (hlb : ∀ j, new.lowerBound j = .fin (b j))
    (hb : StrictMono b) {lo hi c : ℚ} (h : lo < hi) {J : ℤ}
    (hJ1 : ∀ j, j ≤ J → b j < hi) (hJ2 : hi ≤ b (J + 1))
    (hsize : Exact (hi - lo))
    (hinter : ∀ j, new.index (.fin lo) ≤ j → j ≤ J → Exact (min (b (j + 1)) hi - max (b j) lo))
    (hdiv : ∀ j, new.index (.fin lo) ≤ j → j ≤ J → 0 < prop b lo hi j → Exact (prop b lo hi j))
    (hmul : ∀ j, new.index (.fin lo) ≤ j → j ≤ J → 0 < prop b lo hi j →
      Exact (prop b lo hi j * c))
    (hidx : b (new.index (.fin lo)) ≤ lo)
    (fuel : ℕ) (hfuel : (J + 1 - new.index (.fin lo)).toNat ≤ fuel) :
    ((spreadBin new (.fin lo) (.fin hi) (.fin c) fuel (new.index (.fin lo))).map
        fun p => ratOfF p.2).sum = c :=
  Rebin.spreadBin_spec_total new b hlb hb h hJ1 hJ2 hsize hinter hdiv hmul hidx fuel hfuel

/-- per-bin conservation lifts to `spreadStore` (all bins of a store) -/
theorem spreadStore_total (old new : MapEnv) (scale : F64) (bins : List (Int × Rat)) (fuel : ℕ)
    (hbin : ∀ p ∈ bins,
      ((spreadBin new (F64.mul (old.lowerBound p.1) scale)
          (F64.mul (old.lowerBound (p.1 + 1)) scale)
          (.fin p.2) fuel (new.index (F64.mul (old.lowerBound p.1) scale))).map
        fun q => ratOfF q.2).sum = p.2) :
    ((spreadStore old new scale bins fuel).map fun q => ratOfF q.2).sum
      = (bins.map Prod.snd).sum :=
  Rebin.spreadStore_total old new scale bins fuel hbin

/-- **exact statistics are rescaled by the factor**: `count` is kept, the three sums are multiplied,
    `min`/`max` are multiplied (`f > 0`) or swapped and multiplied (`f < 0`) -/
theorem rescale_stats (s : Summary) (f : F64) :
    (s.rescale f).count = s.count ∧
    (s.rescale f).sum = F64.mul s.sum f ∧
    (s.rescale f).sumCompensation = F64.mul s.sumCompensation f ∧
    (s.rescale f).simpleSum = F64.mul s.simpleSum f ∧
    (F64.lt (.fin 0) f = true →
      (s.rescale f).min = F64.mul s.min f ∧ (s.rescale f).max = F64.mul s.max f) ∧
    (F64.lt f (.fin 0) = true →
      (s.rescale f).min = F64.mul s.max f ∧ (s.rescale f).max = F64.mul s.min f) :=
  ⟨rescale_count s f, (rescale_sum s f).1, (rescale_sum s f).2.1, (rescale_sum s f).2.2,
    rescale_pos s f, rescale_neg s f⟩

end DDS.Props.C17
