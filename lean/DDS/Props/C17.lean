/-
  DDS.Props.C17 — "Changing mapping or unit conserves weight and stays within combined accuracy".

  `DDSketch.ChangeMapping` / `changeStoreMapping` (ddsketch.go) spread every source bin
  `[lb₁ i, lb₁ (i+1)) · scale` over the target bins that intersect it, proportionally to the length
  of the intersection.  Two strata:

  * Part 1 — the IDEAL re-binning over any linear ordered field `K` (`ℚ`, `ℝ`): definitions
    `Rebin.prop` (ideal proportion), `Rebin.rebin` (target histogram), `Rebin.srcCdf`
    (piecewise-linear CDF of the scaled source, weight uniformly spread inside each bin).
    A grid is a strictly increasing `b : ℤ → K` (bin `i` is `[b i, b (i+1))`); a source histogram is a
    finite list of `(index, weight)`.
  * Part 2 — the transcribed float loop `ChangeMapping.spreadBin` (exact binary64 model `F64`,
    oracle mapping `MapEnv`): sign of the weights and real overlap for ALL floats, and equality
    with the ideal proportions when the float operations of the loop are exact.
    `Summary.rescale` (exact statistics).

  Statements that needed a correction with respect to the informal claim (each one is witnessed by a
  machine-checked counterexample below):
  * "every weight is `> 0` for ALL floats" is FALSE: a NaN bound gives a NaN weight
    (`nan_bound_gives_nan_weight`), and the quotient `inter / size` can underflow to `0`
    (`underflow_gives_zero_weight`: `inter = 2^-1074`, `size = 2^1000`).  What holds for ALL floats is
    "no weight is `< 0`" (`spreadBin_weights_not_neg`); with finite inputs and a non-NaN oracle every
    weight is `≥ 0` (`spreadBin_weights_nonneg`) and `> 0` when the product does not underflow
    (`spreadBin_weights_pos`).
  * "every produced index satisfies `inLow < lowerBound (j+1)` for ALL floats" is FALSE when that bound
    is NaN (`nan_bound_breaks_overlap`).  What holds for ALL floats: `lowerBound j < inHigh`, and
    `inLow < lowerBound (j+1)` unless the weight is NaN (`spreadBin_indexes_overlap`); with finite
    inputs and a non-NaN oracle both hold (`spreadBin_indexes_overlap_fin`).
  * `rebin_quantile_bin` is proved with the half-open cumulative interval `C_{i-1} ≤ r < C_i`
    (stronger than the closed one of the informal statement).
-/
import DDS.Proofs.Rebin
import DDS.Proofs.MappingReal

namespace DDS.Props.C17

open DDS DDS.Rebin DDS.ChangeMapping

/-! ## Part 1 — the ideal re-binning -/

section Ideal

variable {K : Type*} [Field K] [LinearOrder K] [IsStrictOrderedRing K]

/-! ### the vocabulary, restated -/

example (b₂ : ℤ → K) (lo hi : K) (j : ℤ) :
    prop b₂ lo hi j = max 0 (min (b₂ (j + 1)) hi - max (b₂ j) lo) / (hi - lo) := rfl

example (b₁ b₂ : ℤ → K) (scale : K) (src : List (ℤ × K)) (j : ℤ) :
    rebin b₁ b₂ scale src j =
      (src.map fun p => prop b₂ (b₁ p.1 * scale) (b₁ (p.1 + 1) * scale) j * p.2).sum := rfl

example (b₁ : ℤ → K) (scale : K) (src : List (ℤ × K)) (x : K) :
    srcCdf b₁ scale src x =
      (src.map fun p =>
        p.2 * ((max (b₁ p.1 * scale) (min x (b₁ (p.1 + 1) * scale)) - b₁ p.1 * scale) /
          (b₁ (p.1 + 1) * scale - b₁ p.1 * scale))).sum := rfl

example (src : List (ℤ × K)) : total src = (src.map Prod.snd).sum := rfl

example (src : List (ℤ × K)) (j : ℤ) :
    weightAt src j = (src.map fun p => if p.1 = j then p.2 else 0).sum := rfl

/-! ### one source bin `[lo, hi)` -/

theorem prop_nonneg (b₂ : ℤ → K) {lo hi : K} (h : lo < hi) (j : ℤ) : 0 ≤ prop b₂ lo hi j :=
  Rebin.prop_nonneg b₂ h j

theorem prop_le_one (b₂ : ℤ → K) {lo hi : K} (h : lo < hi) (j : ℤ) : prop b₂ lo hi j ≤ 1 :=
  Rebin.prop_le_one b₂ h j

/-- weight only goes to overlapping bins -/
theorem prop_pos_iff_overlap (b₂ : ℤ → K) {lo hi : K} (h : lo < hi) (j : ℤ) :
    0 < prop b₂ lo hi j ↔ ∃ x, (b₂ j < x ∧ x < b₂ (j + 1)) ∧ (lo < x ∧ x < hi) :=
  Rebin.prop_pos_iff_overlap b₂ h j

/-- the same for a non-degenerate target bin, as two inequalities on the bounds -/
theorem prop_pos_iff_lt (b₂ : ℤ → K) {lo hi : K} (h : lo < hi) (j : ℤ)
    (hb : b₂ j < b₂ (j + 1)) :
    0 < prop b₂ lo hi j ↔ b₂ j < hi ∧ lo < b₂ (j + 1) :=
  Rebin.prop_pos_iff_lt b₂ h j hb

/-- the loop `for j := m; b₂ j < hi; j++` visits exactly `m..J`, `J` the last bin that starts below
    `hi`; such a `J` exists as soon as some bound reaches `hi` -/
theorem visited_range {b₂ : ℤ → K} (hb : StrictMono b₂) {hi : K} {m : ℤ} (hm : b₂ m < hi)
    (hex : ∃ J', hi ≤ b₂ (J' + 1)) :
    ∃ J, m ≤ J ∧ b₂ J < hi ∧ hi ≤ b₂ (J + 1) ∧
      ∀ j, (m ≤ j ∧ b₂ j < hi) ↔ j ∈ Finset.Icc m J := by
  obtain ⟨J, h1, h2, h3⟩ := exists_last_bin hb hm hex
  exact ⟨J, h1, h2, h3, visited_iff hb h2 h3 m⟩

/-- conservation for one source bin: the proportions over the visited range add up to `1` -/
theorem prop_sum_eq_one {b₂ : ℤ → K} (hb : Monotone b₂) {lo hi : K} (h : lo < hi) {m J : ℤ}
    (hm : b₂ m ≤ lo) (hJ : hi ≤ b₂ (J + 1)) :
    ∑ j ∈ Finset.Icc m J, prop b₂ lo hi j = 1 :=
  Rebin.prop_sum_eq_one hb h hm hJ

/-- … with the start of the loop given by the index function of a grid -/
theorem prop_sum_eq_one_grid (G : Grid K) {lo hi : K} (hlo : 0 < lo) (h : lo < hi) {J : ℤ}
    (hJ : hi ≤ G.b (J + 1)) :
    ∑ j ∈ Finset.Icc (G.idx lo) J, prop G.b lo hi j = 1 :=
  G.prop_sum_eq_one hlo h hJ

/-! ### a finite source histogram -/

/-- conservation: total weight of the target = total weight of the source (`m..J` is any range of
    target bins that covers the scaled source; outside of it the target is empty) -/
theorem rebin_total {b₁ b₂ : ℤ → K} (hb₁ : StrictMono b₁) (hb₂ : Monotone b₂) {scale : K}
    (hs : 0 < scale) (src : List (ℤ × K)) {m J : ℤ} (hmJ : m ≤ J + 1)
    (hm : ∀ p ∈ src, b₂ m ≤ sLo b₁ scale p.1) (hJ : ∀ p ∈ src, sHi b₁ scale p.1 ≤ b₂ (J + 1)) :
    ∑ j ∈ Finset.Icc m J, rebin b₁ b₂ scale src j = total src :=
  Rebin.rebin_total hb₁ hb₂ hs src hmJ hm hJ

theorem rebin_eq_zero_outside {b₁ b₂ : ℤ → K} (hb₁ : StrictMono b₁) (hb₂ : Monotone b₂)
    {scale : K} (hs : 0 < scale) {src : List (ℤ × K)} {m J : ℤ}
    (hm : ∀ p ∈ src, b₂ m ≤ sLo b₁ scale p.1) (hJ : ∀ p ∈ src, sHi b₁ scale p.1 ≤ b₂ (J + 1))
    {j : ℤ} (hj : j ∉ Finset.Icc m J) : rebin b₁ b₂ scale src j = 0 :=
  Rebin.rebin_eq_zero hb₁ hb₂ hs hm hJ hj

/-- a covering range exists for every finite source on a grid with unbounded bounds -/
theorem cover_exists (b₁ : ℤ → K) (hpos₁ : ∀ i, 0 < b₁ i) (G : Grid K)
    (hunb : ∀ x : K, ∃ J, x ≤ G.b (J + 1)) {scale : K} (hs : 0 < scale) (src : List (ℤ × K)) :
    ∃ m J : ℤ, m ≤ J + 1 ∧ (∀ p ∈ src, G.b m ≤ sLo b₁ scale p.1) ∧
      (∀ p ∈ src, sHi b₁ scale p.1 ≤ G.b (J + 1)) :=
  Rebin.exists_cover b₁ hpos₁ G hunb hs src

theorem rebin_nonneg {b₁ b₂ : ℤ → K} (hb₁ : StrictMono b₁) {scale : K} (hs : 0 < scale)
    {src : List (ℤ × K)} (hc : ∀ p ∈ src, 0 ≤ p.2) (j : ℤ) : 0 ≤ rebin b₁ b₂ scale src j :=
  Rebin.rebin_nonneg hb₁ hs hc j

/-- the key lemma for quantiles: cumulated target weight below the edge `b₂ j` = source CDF there -/
theorem rebin_cdf {b₁ b₂ : ℤ → K} (hb₁ : StrictMono b₁) (hb₂ : Monotone b₂) {scale : K}
    (hs : 0 < scale) (src : List (ℤ × K)) {m j : ℤ}
    (hm : ∀ p ∈ src, b₂ m ≤ sLo b₁ scale p.1) (hmj : m ≤ j) :
    ∑ k ∈ Finset.Ico m j, rebin b₁ b₂ scale src k = srcCdf b₁ scale src (b₂ j) :=
  Rebin.rebin_cdf hb₁ hb₂ hs src hm hmj

/-- if target bin `j` is the first whose cumulated weight exceeds `r`, the source bin that answers
    rank `r` (`src = pre ++ p :: post`, `total pre ≤ r < total pre + p.2`) overlaps target bin `j` -/
theorem rebin_quantile_bin {b₁ b₂ : ℤ → K} (hb₁ : StrictMono b₁) (hb₂ : Monotone b₂) {scale : K}
    (hs : 0 < scale) {src : List (ℤ × K)} (hsorted : src.Pairwise (fun u v => u.1 < v.1))
    (hc : ∀ q ∈ src, 0 ≤ q.2) {m j : ℤ} (hm : ∀ p ∈ src, b₂ m ≤ sLo b₁ scale p.1) (hmj : m ≤ j)
    {r : K} (h0 : 0 ≤ r)
    (hbelow : ∑ k ∈ Finset.Ico m j, rebin b₁ b₂ scale src k ≤ r)
    (habove : r < ∑ k ∈ Finset.Icc m j, rebin b₁ b₂ scale src k) :
    ∃ pre p post, src = pre ++ p :: post ∧ total pre ≤ r ∧ r < total pre + p.2 ∧
      b₂ j < sHi b₁ scale p.1 ∧ sLo b₁ scale p.1 < b₂ (j + 1) :=
  Rebin.rebin_quantile_bin hb₁ hb₂ hs hsorted hc hm hmj h0 hbelow habove

/-- hence the two answers for rank `r` are within the product of the grid ratios
    (`ρ = (1+α)/(1−α)` for a mapping of relative accuracy `α`) -/
theorem rebin_quantile_accuracy {b₁ b₂ : ℤ → K} (hb₁ : StrictMono b₁) (hb₂ : Monotone b₂)
    (hpos₁ : ∀ i, 0 < b₁ i) (hpos₂ : ∀ j, 0 < b₂ j) {scale ρ₁ ρ₂ : K} (hs : 0 < scale)
    (hρ₁ : ∀ i, b₁ (i + 1) ≤ ρ₁ * b₁ i) (hρ₂ : ∀ j, b₂ (j + 1) ≤ ρ₂ * b₂ j)
    {rep₁ rep₂ : ℤ → K}
    (hrep₁ : ∀ i, b₁ i ≤ rep₁ i ∧ rep₁ i ≤ b₁ (i + 1))
    (hrep₂ : ∀ j, b₂ j ≤ rep₂ j ∧ rep₂ j ≤ b₂ (j + 1))
    {src : List (ℤ × K)} (hsorted : src.Pairwise (fun u v => u.1 < v.1))
    (hc : ∀ q ∈ src, 0 ≤ q.2) {m j : ℤ} (hm : ∀ p ∈ src, b₂ m ≤ sLo b₁ scale p.1) (hmj : m ≤ j)
    {r : K} (h0 : 0 ≤ r)
    (hbelow : ∑ k ∈ Finset.Ico m j, rebin b₁ b₂ scale src k ≤ r)
    (habove : r < ∑ k ∈ Finset.Icc m j, rebin b₁ b₂ scale src k) :
    ∃ pre p post, src = pre ++ p :: post ∧ total pre ≤ r ∧ r < total pre + p.2 ∧
      1 / (ρ₁ * ρ₂) < rep₂ j / (scale * rep₁ p.1) ∧ rep₂ j / (scale * rep₁ p.1) < ρ₁ * ρ₂ :=
  Rebin.rebin_quantile_accuracy hb₁ hb₂ hpos₁ hpos₂ hs hρ₁ hρ₂ hrep₁ hrep₂ hsorted hc hm hmj h0
    hbelow habove

/-- the same in terms of accuracies: representatives that are `α`-accurate for the points inside
    their bin (as `Value(index)` of a mapping is, see `mapping_value_accurate`) give
    `(1−α₂)/(1+α₁) ≤ rep₂ j / (scale · rep₁ i) ≤ (1+α₂)/(1−α₁)`, stated without division -/
theorem rebin_quantile_accuracy_alpha {b₁ b₂ : ℤ → K} (hb₁ : StrictMono b₁)
    (hb₂ : StrictMono b₂) {scale α₁ α₂ : K} (hs : 0 < scale)
    (hα₁ : 0 ≤ α₁) (hα₁' : α₁ ≤ 1) (hα₂ : 0 ≤ α₂) (hα₂' : α₂ ≤ 1) {rep₁ rep₂ : ℤ → K}
    (hacc₁ : ∀ i v, b₁ i < v → v < b₁ (i + 1) → |rep₁ i - v| ≤ α₁ * v)
    (hacc₂ : ∀ j v, b₂ j < v → v < b₂ (j + 1) → |rep₂ j - v| ≤ α₂ * v)
    {src : List (ℤ × K)} (hsorted : src.Pairwise (fun u v => u.1 < v.1))
    (hc : ∀ q ∈ src, 0 ≤ q.2) {m j : ℤ} (hm : ∀ p ∈ src, b₂ m ≤ sLo b₁ scale p.1) (hmj : m ≤ j)
    {r : K} (h0 : 0 ≤ r)
    (hbelow : ∑ k ∈ Finset.Ico m j, rebin b₁ b₂ scale src k ≤ r)
    (habove : r < ∑ k ∈ Finset.Icc m j, rebin b₁ b₂ scale src k) :
    ∃ pre p post, src = pre ++ p :: post ∧ total pre ≤ r ∧ r < total pre + p.2 ∧
      (1 - α₂) * (scale * rep₁ p.1) ≤ (1 + α₁) * rep₂ j ∧
      (1 - α₁) * rep₂ j ≤ (1 + α₂) * (scale * rep₁ p.1) :=
  Rebin.rebin_quantile_accuracy_alpha hb₁ hb₂ hs hα₁ hα₁' hα₂ hα₂' hacc₁ hacc₂ hsorted hc hm hmj h0
    hbelow habove

/-- re-binning onto the same grid with scale `1` returns the source histogram -/
theorem identity_rebin {b : ℤ → K} (hb : StrictMono b) (src : List (ℤ × K)) (j : ℤ) :
    rebin b b 1 src j = weightAt src j :=
  Rebin.identity_rebin hb src j

/-- each bin gets proportion `1` on itself and `0` elsewhere -/
theorem identity_prop {b : ℤ → K} (hb : StrictMono b) (i j : ℤ) :
    prop b (b i) (b (i + 1)) j = if j = i then 1 else 0 :=
  Rebin.prop_self hb i j

end Ideal

/-! ### the three concrete mappings over `ℝ` (property C03) fit the hypotheses -/

section RealMappings

variable (p : Mapping.Params ℝ)

theorem mapping_lowerBound_strictMono (hγ : 1 < p.gamma) : StrictMono (Mapping.lowerBound p) :=
  fun _ _ h => RealMap.lowerBound_strictMono p hγ h

/-- `Value(i)` is `α`-accurate for every point inside bin `i` -/
theorem mapping_value_accurate (hγ : 1 < p.gamma) (i : ℤ) (v : ℝ)
    (h1 : Mapping.lowerBound p i < v) (h2 : v < Mapping.lowerBound p (i + 1)) :
    |Mapping.value p i - v| ≤ Mapping.relativeAccuracy p * v := by
  have hv : 0 < v := lt_trans (RealMap.lowerBound_pos p i) h1
  have hsm := mapping_lowerBound_strictMono p hγ
  have a := RealMap.lowerBound_le p hγ hv
  have b := RealMap.le_lowerBound_succ p hγ hv
  have e1 : Mapping.index p v < i + 1 := hsm.lt_iff_lt.mp (lt_of_le_of_lt a h2)
  have e2 : i < Mapping.index p v + 1 := hsm.lt_iff_lt.mp (lt_of_lt_of_le h1 b)
  have e : Mapping.index p v = i := by omega
  have := RealMap.accuracy p hγ hv
  rwa [e] at this

/-- **C17, quantiles**: converting from mapping `p₁` to mapping `p₂` with a positive scale: the value
    the ideal target answers for rank `r` and `scale ·` the value the source answers for the same
    rank are within the combined relative accuracy of the two mappings -/
theorem mapping_quantile_accuracy (p₁ p₂ : Mapping.Params ℝ) (hγ₁ : 1 < p₁.gamma)
    (hγ₂ : 1 < p₂.gamma) {scale : ℝ} (hs : 0 < scale)
    {src : List (ℤ × ℝ)} (hsorted : src.Pairwise (fun u v => u.1 < v.1))
    (hc : ∀ q ∈ src, 0 ≤ q.2) {m j : ℤ}
    (hm : ∀ q ∈ src, Mapping.lowerBound p₂ m ≤ sLo (Mapping.lowerBound p₁) scale q.1)
    (hmj : m ≤ j) {r : ℝ} (h0 : 0 ≤ r)
    (hbelow : ∑ k ∈ Finset.Ico m j,
        rebin (Mapping.lowerBound p₁) (Mapping.lowerBound p₂) scale src k ≤ r)
    (habove : r < ∑ k ∈ Finset.Icc m j,
        rebin (Mapping.lowerBound p₁) (Mapping.lowerBound p₂) scale src k) :
    ∃ pre q post, src = pre ++ q :: post ∧ total pre ≤ r ∧ r < total pre + q.2 ∧
      (1 - Mapping.relativeAccuracy p₂) * (scale * Mapping.value p₁ q.1)
        ≤ (1 + Mapping.relativeAccuracy p₁) * Mapping.value p₂ j ∧
      (1 - Mapping.relativeAccuracy p₁) * Mapping.value p₂ j
        ≤ (1 + Mapping.relativeAccuracy p₂) * (scale * Mapping.value p₁ q.1) := by
  obtain ⟨a1, a2⟩ := RealMap.relativeAccuracy_pos_lt_one p₁ hγ₁
  obtain ⟨b1, b2⟩ := RealMap.relativeAccuracy_pos_lt_one p₂ hγ₂
  exact Rebin.rebin_quantile_accuracy_alpha (mapping_lowerBound_strictMono p₁ hγ₁)
    (mapping_lowerBound_strictMono p₂ hγ₂) hs a1.le a2.le b1.le b2.le
    (mapping_value_accurate p₁ hγ₁) (mapping_value_accurate p₂ hγ₂) hsorted hc hm hmj h0
    hbelow habove

end RealMappings

/-! ## Part 2 — the transcribed float loop -/

/-! ### the vocabulary, restated -/

example (new : MapEnv) (inLow inHigh : F64) (j : Int) :
    fInter new inLow inHigh j =
      F64.sub (fminG (new.lowerBound (j + 1)) inHigh) (fmaxG (new.lowerBound j) inLow) := rfl

example (new : MapEnv) (inLow inHigh count : F64) (j : Int) :
    fWeight new inLow inHigh count j =
      F64.mul (F64.div (fInter new inLow inHigh j) (F64.sub inHigh inLow)) count := rfl

example (x : ℚ) : Exact x ↔ F64.roundF64 x = .fin x := Iff.rfl

example (j0 J : ℤ) : visited j0 J = (List.range (J + 1 - j0).toNat).map fun (k : ℕ) => j0 + (k : ℤ) :=
  rfl

/-- the structure of the output, ALL floats, any oracle: indexes are visited in increasing order
    from `j0`, under the loop guard, with the weight the loop computes, and skipped when the float
    intersection is `≤ 0` -/
theorem spreadBin_mem (new : MapEnv) (inLow inHigh count : F64) (fuel : Nat) (j0 j : Int) (w : F64)
    (hmem : (j, w) ∈ spreadBin new inLow inHigh count fuel j0) :
    j0 ≤ j ∧ j < j0 + fuel ∧ F64.lt (new.lowerBound j) inHigh = true ∧
      F64.le (fInter new inLow inHigh j) (.fin 0) = false ∧
      w = fWeight new inLow inHigh count j :=
  Rebin.spreadBin_mem new inLow inHigh count fuel j0 j w hmem

/-- **never a bin of negative weight** — ALL floats (NaN, ±∞ included), any oracle, any count that
    is not negative -/
theorem spreadBin_weights_not_neg (new : MapEnv) (inLow inHigh count : F64)
    (hc : F64.lt count (.fin 0) = false) (fuel : Nat) (j0 j : Int) (w : F64)
    (hmem : (j, w) ∈ spreadBin new inLow inHigh count fuel j0) :
    F64.lt w (.fin 0) = false :=
  Rebin.spreadBin_weights_not_neg new inLow inHigh count hc fuel j0 j w hmem

/-- finite bounds, finite float size, non-NaN oracle, count `≥ 0`: every weight is `≥ 0` -/
theorem spreadBin_weights_nonneg (new : MapEnv) (a b s c : Rat)
    (hnan : ∀ j, (new.lowerBound j).isNaN = false)
    (hs : F64.sub (.fin b) (.fin a) = .fin s) (hc : 0 ≤ c)
    (fuel : Nat) (j0 j : Int) (w : F64)
    (hmem : (j, w) ∈ spreadBin new (.fin a) (.fin b) (.fin c) fuel j0) :
    F64.le (.fin 0) w = true :=
  Rebin.spreadBin_weights_nonneg new a b s c hnan hs hc fuel j0 j w hmem

/-- … and `> 0` when the product `fl(inter/size) · count` does not underflow on the visited bins -/
theorem spreadBin_weights_pos (new : MapEnv) (a b s c : Rat)
    (hnan : ∀ j, (new.lowerBound j).isNaN = false)
    (hs : F64.sub (.fin b) (.fin a) = .fin s)
    (fuel : Nat) (j0 : Int)
    (hmul : ∀ j x, j0 ≤ j → j < j0 + fuel → fInter new (.fin a) (.fin b) j = .fin x → 0 < x →
      pow2 (-1075) < F64.rv (x / s) * c)
    (j : Int) (w : F64)
    (hmem : (j, w) ∈ spreadBin new (.fin a) (.fin b) (.fin c) fuel j0) :
    F64.lt (.fin 0) w = true :=
  Rebin.spreadBin_weights_pos new a b s c hnan hs fuel j0 hmul j w hmem

/-- **only to overlapping bins** — ALL floats -/
theorem spreadBin_indexes_overlap (new : MapEnv) (inLow inHigh count : F64)
    (fuel : Nat) (j0 j : Int) (w : F64)
    (hmem : (j, w) ∈ spreadBin new inLow inHigh count fuel j0) :
    F64.lt (new.lowerBound j) inHigh = true ∧
      (w = .nan ∨ F64.lt inLow (new.lowerBound (j + 1)) = true) :=
  Rebin.spreadBin_indexes_overlap new inLow inHigh count fuel j0 j w hmem

theorem spreadBin_indexes_overlap_fin (new : MapEnv) (a b s c : Rat)
    (hnan : ∀ j, (new.lowerBound j).isNaN = false)
    (hs : F64.sub (.fin b) (.fin a) = .fin s)
    (fuel : Nat) (j0 j : Int) (w : F64)
    (hmem : (j, w) ∈ spreadBin new (.fin a) (.fin b) (.fin c) fuel j0) :
    F64.lt (new.lowerBound j) (.fin b) = true ∧
      F64.lt (.fin a) (new.lowerBound (j + 1)) = true :=
  Rebin.spreadBin_indexes_overlap_fin new a b s c hnan hs fuel j0 j w hmem

/-- **the float loop computes the ideal proportions** when its operations are exact -/
theorem spreadBin_spec (new : MapEnv) (b : ℤ → ℚ) (hlb : ∀ j, new.lowerBound j = .fin (b j))
    (hb : StrictMono b) {lo hi c : ℚ} (h : lo < hi) {J : ℤ}
    (hJ1 : ∀ j, j ≤ J → b j < hi) (hJ2 : hi ≤ b (J + 1))
    (hsize : Exact (hi - lo)) {m : ℤ}
    (hinter : ∀ j, m ≤ j → j ≤ J → Exact (min (b (j + 1)) hi - max (b j) lo))
    (hdiv : ∀ j, m ≤ j → j ≤ J → 0 < prop b lo hi j → Exact (prop b lo hi j))
    (hmul : ∀ j, m ≤ j → j ≤ J → 0 < prop b lo hi j → Exact (prop b lo hi j * c))
    (fuel : ℕ) (j0 : ℤ) (hm0 : m ≤ j0) (hj0 : j0 ≤ J + 1) (hfuel : (J + 1 - j0).toNat ≤ fuel) :
    spreadBin new (.fin lo) (.fin hi) (.fin c) fuel j0 =
      (visited j0 J).filterMap fun j =>
        if 0 < prop b lo hi j then some (j, F64.fin (prop b lo hi j * c)) else none :=
  Rebin.spreadBin_spec new b hlb hb h hJ1 hJ2 hsize hinter hdiv hmul fuel j0 hm0 hj0 hfuel

/-- … hence, started at a bin whose lower bound is `≤ inLow` (what a consistent `index` returns),
    the float weights add up to the count exactly -/
theorem spreadBin_spec_total (new : MapEnv) (b : ℤ → ℚ)
    (hlb : ∀ j, new.lowerBound j = .fin (b j))
    (hb : StrictMono b) {lo hi c : ℚ} (h : lo < hi) {J : ℤ}
    (hJ1 : ∀ j, j ≤ J → b j < hi) (hJ2 : hi ≤ b (J + 1))
    (hsize : Exact (hi - lo))
    (hinter : ∀ j, new.index (.fin lo) ≤ j → j ≤ J → Exact (min (b (j + 1)) hi - max (b j) lo))
    (hdiv : ∀ j, new.index (.fin lo) ≤ j → j ≤ J → 0 < prop b lo hi j → Exact (prop b lo hi j))
    (hmul : ∀ j, new.index (.fin lo) ≤ j → j ≤ J → 0 < prop b lo hi j →
      Exact (prop b lo hi j * c))
    (hidx : b (new.index (.fin lo)) ≤ lo)
    (fuel : ℕ) (hfuel : (J + 1 - new.index (.fin lo)).toNat ≤ fuel) :
    ((spreadBin new (.fin lo) (.fin hi) (.fin c) fuel (new.index (.fin lo))).map
        fun p => ratOfF p.2).sum = c :=
  Rebin.spreadBin_spec_total new b hlb hb h hJ1 hJ2 hsize hinter hdiv hmul hidx fuel hfuel

/-- per-bin conservation lifts to `spreadStore` (all bins of a store) -/
theorem spreadStore_total (old new : MapEnv) (scale : F64) (bins : List (Int × Rat)) (fuel : ℕ)
    (hbin : ∀ p ∈ bins,
      ((spreadBin new (F64.mul (old.lowerBound p.1) scale)
          (F64.mul (old.lowerBound (p.1 + 1)) scale)
          (.fin p.2) fuel (new.index (F64.mul (old.lowerBound p.1) scale))).map
        fun q => ratOfF q.2).sum = p.2) :
    ((spreadStore old new scale bins fuel).map fun q => ratOfF q.2).sum
      = (bins.map Prod.snd).sum :=
  Rebin.spreadStore_total old new scale bins fuel hbin

/-- **exact statistics are rescaled by the factor**: `count` is kept, the three sums are multiplied,
    `min`/`max` are multiplied (`f > 0`) or swapped and multiplied (`f < 0`) -/
theorem rescale_stats (s : Summary) (f : F64) :
    (s.rescale f).count = s.count ∧
    (s.rescale f).sum = F64.mul s.sum f ∧
    (s.rescale f).sumCompensation = F64.mul s.sumCompensation f ∧
    (s.rescale f).simpleSum = F64.mul s.simpleSum f ∧
    (F64.lt (.fin 0) f = true →
      (s.rescale f).min = F64.mul s.min f ∧ (s.rescale f).max = F64.mul s.max f) ∧
    (F64.lt f (.fin 0) = true →
      (s.rescale f).min = F64.mul s.max f ∧ (s.rescale f).max = F64.mul s.min f) :=
  ⟨rescale_count s f, (rescale_sum s f).1, (rescale_sum s f).2.1, (rescale_sum s f).2.2,
    rescale_pos s f, rescale_neg s f⟩

/-! ## counterexamples to the uncorrected statements (closed computations on the exact model) -/

/-- oracle with `lowerBound j = 2^j` (exactly), `index` constant -/
def envPow2 (idx : Int) : MapEnv :=
  { id := default, minIndexable := .fin 0, maxIndexable := .pinf, relAcc := .fin 0,
    value := fun j => .fin (pow2 j), lowerBound := fun j => .fin (pow2 j), index := fun _ => idx }

def envNaN : MapEnv :=
  { id := default, minIndexable := .fin 0, maxIndexable := .pinf, relAcc := .fin 0,
    value := fun j => .fin (pow2 j),
    lowerBound := fun j => if j = 1 then .nan else .fin (pow2 j), index := fun _ => 0 }

/-- finite positive bounds `2^-1074 < 2^1000`, finite non-NaN oracle, count `1 > 0`: the only
    visited bin gets the weight `fl(fl(2^-1074 / 2^1000) · 1) = 0`, which is not `> 0` -/
theorem underflow_gives_zero_weight :
    spreadBin (envPow2 0) (.fin (pow2 (-1074))) (.fin (pow2 1000)) (.fin 1) 1 (-1074)
      = [(-1074, .fin 0)] ∧ F64.lt (.fin 0) (.fin 0) = false := by decide +kernel

/-- a NaN bound of the target bin: the intersection is NaN, hence not `≤ 0`, and the bin receives a
    NaN weight (which is neither `> 0` nor `< 0`) -/
theorem nan_bound_gives_nan_weight :
    spreadBin envNaN (.fin 1) (.fin 5) (.fin 8) 1 0 = [(0, .nan)] := by decide +kernel

/-- … and `inLow < lowerBound (j+1)` fails for that produced index -/
theorem nan_bound_breaks_overlap :
    (0, F64.nan) ∈ spreadBin envNaN (.fin 1) (.fin 5) (.fin 8) 1 0 ∧
      F64.lt (.fin 1) (envNaN.lowerBound (0 + 1)) = false := by decide +kernel

/-- and a run where everything is exact: `[1,5)` of weight `8` over the bins of `2^j` -/
example : spreadBin (envPow2 0) (.fin 1) (.fin 5) (.fin 8) 3 0
    = [(0, .fin 2), (1, .fin 4), (2, .fin 2)] := by decide +kernel


/-! ## the hypotheses are satisfiable — Part 1

source grid `3^i`, target grid `2^j` over `ℚ`, scale `1`, source histogram `[1,3) ↦ 6`, `[3,9) ↦ 12`;
rank `r = 7` is answered by source bin `1 = [3,9)` and by target bin `1 = [2,4)` (cumulated target
weights `3, 8, …`) -/

def G2 : Grid ℚ := natGrid 2 (by norm_num)
def G3 : Grid ℚ := natGrid 3 (by norm_num)
def src0 : List (ℤ × ℚ) := [(0, 6), (1, 12)]

theorem G2_b (j : ℤ) : G2.b j = (2:ℚ) ^ j := by simp [G2, natGrid]
theorem G3_b (j : ℤ) : G3.b j = (3:ℚ) ^ j := by simp [G3, natGrid]
theorem src0_sorted : src0.Pairwise (fun u v => u.1 < v.1) := by simp [src0]
theorem src0_nonneg : ∀ q ∈ src0, 0 ≤ q.2 := by
  intro q hq; simp [src0] at hq; rcases hq with rfl | rfl <;> norm_num
theorem src0_low : ∀ p ∈ src0, G2.b 0 ≤ sLo G3.b 1 p.1 := by
  intro q hq; simp [src0] at hq; rcases hq with rfl | rfl <;> norm_num [sLo, G2_b, G3_b]
theorem src0_high : ∀ p ∈ src0, sHi G3.b 1 p.1 ≤ G2.b (3 + 1) := by
  intro q hq; simp [src0] at hq; rcases hq with rfl | rfl <;> norm_num [sHi, G2_b, G3_b]
theorem rebin0 : rebin G3.b G2.b 1 src0 0 = 3 := by
  norm_num [rebin, src0, prop, sLo, sHi, G2_b, G3_b]
theorem rebin1 : rebin G3.b G2.b 1 src0 1 = 5 := by
  norm_num [rebin, src0, prop, sLo, sHi, G2_b, G3_b]
theorem below0 : ∑ k ∈ Finset.Ico (0:ℤ) 1, rebin G3.b G2.b 1 src0 k ≤ 7 := by
  rw [show Finset.Ico (0:ℤ) 1 = {0} by decide, Finset.sum_singleton, rebin0]; norm_num
theorem above0 : (7:ℚ) < ∑ k ∈ Finset.Icc (0:ℤ) 1, rebin G3.b G2.b 1 src0 k := by
  rw [show Finset.Icc (0:ℤ) 1 = {0, 1} by decide, Finset.sum_pair (by norm_num), rebin0, rebin1]
  norm_num

example (j : ℤ) : 0 ≤ prop G2.b 1 3 j ∧ prop G2.b 1 3 j ≤ 1 :=
  ⟨prop_nonneg _ (by norm_num) j, prop_le_one _ (by norm_num) j⟩

example : 0 < prop G2.b 1 3 1 :=
  (prop_pos_iff_lt G2.b (by norm_num) 1 (G2.strictMono (by norm_num))).mpr
    (by norm_num [G2_b])

example : ∃ x : ℚ, (G2.b 1 < x ∧ x < G2.b (1 + 1)) ∧ (1 < x ∧ x < 3) :=
  (prop_pos_iff_overlap G2.b (by norm_num) 1).mp
    ((prop_pos_iff_lt G2.b (by norm_num) 1 (G2.strictMono (by norm_num))).mpr (by norm_num [G2_b]))

example : ∃ J, (0:ℤ) ≤ J ∧ G2.b J < 3 ∧ 3 ≤ G2.b (J + 1) ∧
    ∀ j, (0 ≤ j ∧ G2.b j < 3) ↔ j ∈ Finset.Icc 0 J :=
  visited_range G2.strictMono (by norm_num [G2_b]) (natGrid_unbounded 2 (by norm_num) 3)

example : ∑ j ∈ Finset.Icc (G2.idx 1) 1, prop G2.b 1 3 j = 1 :=
  prop_sum_eq_one_grid G2 (by norm_num) (by norm_num) (by norm_num [G2_b])

example : rebin G3.b G2.b 1 src0 7 = 0 :=
  rebin_eq_zero_outside G3.strictMono G2.strictMono.monotone one_pos src0_low src0_high (by decide)

example : ∃ m J : ℤ, m ≤ J + 1 ∧ (∀ p ∈ src0, G2.b m ≤ sLo G3.b 1 p.1) ∧
    (∀ p ∈ src0, sHi G3.b 1 p.1 ≤ G2.b (J + 1)) :=
  cover_exists G3.b G3.pos G2 (natGrid_unbounded 2 (by norm_num)) one_pos src0

example (j : ℤ) : 0 ≤ rebin G3.b G2.b 1 src0 j :=
  rebin_nonneg G3.strictMono one_pos src0_nonneg j

example : ∑ k ∈ Finset.Ico 0 2, rebin G3.b G2.b 1 src0 k = srcCdf G3.b 1 src0 (G2.b 2) :=
  rebin_cdf G3.strictMono G2.strictMono.monotone one_pos src0 src0_low (by norm_num)

theorem G3_ratio : ∀ i, G3.b (i + 1) ≤ 3 * G3.b i := by
  intro i; rw [G3_b, G3_b, zpow_add_one₀ (by norm_num)]; linarith
theorem G2_ratio : ∀ i, G2.b (i + 1) ≤ 2 * G2.b i := by
  intro i; rw [G2_b, G2_b, zpow_add_one₀ (by norm_num)]; linarith

example : ∃ pre p post, src0 = pre ++ p :: post ∧ total pre ≤ 7 ∧ 7 < total pre + p.2 ∧
    1 / (3 * 2) < G2.b 1 / (1 * G3.b p.1) ∧ G2.b 1 / (1 * G3.b p.1) < 3 * 2 :=
  rebin_quantile_accuracy G3.strictMono G2.strictMono.monotone G3.pos G2.pos one_pos
    G3_ratio G2_ratio
    (fun i => ⟨le_rfl, G3.strictMono.monotone (by omega)⟩)
    (fun i => ⟨le_rfl, G2.strictMono.monotone (by omega)⟩)
    src0_sorted src0_nonneg src0_low (by norm_num) (by norm_num) below0 above0

theorem G3_acc : ∀ i v, G3.b i < v → v < G3.b (i + 1) → |G3.b i - v| ≤ 2 / 3 * v := by
  intro i v h1 h2
  have := G3_ratio i
  rw [abs_le]; constructor <;> linarith [G3.pos i]
theorem G2_acc : ∀ i v, G2.b i < v → v < G2.b (i + 1) → |G2.b i - v| ≤ 1 / 2 * v := by
  intro i v h1 h2
  have := G2_ratio i
  rw [abs_le]; constructor <;> linarith [G2.pos i]

example : ∃ pre p post, src0 = pre ++ p :: post ∧ total pre ≤ 7 ∧ 7 < total pre + p.2 ∧
    (1 - 1 / 2) * (1 * G3.b p.1) ≤ (1 + 2 / 3) * G2.b 1 ∧
    (1 - 2 / 3) * G2.b 1 ≤ (1 + 1 / 2) * (1 * G3.b p.1) :=
  rebin_quantile_accuracy_alpha G3.strictMono G2.strictMono one_pos
    (by norm_num) (by norm_num) (by norm_num) (by norm_num) G3_acc G2_acc
    src0_sorted src0_nonneg src0_low (by norm_num) (by norm_num) below0 above0

example (j : ℤ) : rebin G2.b G2.b 1 src0 j = weightAt src0 j := identity_rebin G2.strictMono src0 j

/-- all three kinds, `gamma = 2`: the hypotheses of `mapping_quantile_accuracy` are satisfiable
    (identity conversion of a one-bin histogram, rank `0`) -/
example (k : MKind) (off : ℝ) :
    ∃ pre q post, [((0:ℤ), (1:ℝ))] = pre ++ q :: post ∧ total pre ≤ 0 ∧ 0 < total pre + q.2 ∧
      (1 - Mapping.relativeAccuracy ⟨k, 2, off⟩) * (1 * Mapping.value ⟨k, 2, off⟩ q.1)
        ≤ (1 + Mapping.relativeAccuracy ⟨k, 2, off⟩) * Mapping.value ⟨k, 2, off⟩ 0 ∧
      (1 - Mapping.relativeAccuracy ⟨k, 2, off⟩) * Mapping.value ⟨k, 2, off⟩ 0
        ≤ (1 + Mapping.relativeAccuracy ⟨k, 2, off⟩) * (1 * Mapping.value ⟨k, 2, off⟩ q.1) := by
  have hγ : 1 < (⟨k, 2, off⟩ : Mapping.Params ℝ).gamma := by norm_num
  have hsm := mapping_lowerBound_strictMono _ hγ
  refine mapping_quantile_accuracy ⟨k, 2, off⟩ ⟨k, 2, off⟩ hγ hγ one_pos (by simp) (by simp)
    (m := 0) (j := 0) ?_ le_rfl le_rfl ?_ ?_
  · intro q hq; simp only [List.mem_singleton] at hq; subst hq; simp [sLo]
  · simp
  · rw [show Finset.Icc (0:ℤ) 0 = {0} by decide, Finset.sum_singleton, Rebin.identity_rebin hsm]
    simp [weightAt]


/-! ## the hypotheses are satisfiable — Part 2

target oracle `lowerBound j = 2^j`, one source bin `[1, 5)` of weight `8`: the loop visits the bins
`0, 1, 2` and every operation is exact (`1/4, 1/2, 1/4` of the weight) -/


def envOf (lb : Int → Rat) (idx : Int) : MapEnv :=
  { id := default, minIndexable := .fin 0, maxIndexable := .pinf, relAcc := .fin 0,
    value := fun j => .fin (lb j), lowerBound := fun j => .fin (lb j), index := fun _ => idx }

theorem pow2_sm : StrictMono pow2 := fun _ _ h => pow2_strictMono h

theorem ex_hJ1 : ∀ j : ℤ, j ≤ 2 → pow2 j < 5 := fun j hj =>
  lt_of_le_of_lt (pow2_mono hj) (by decide +kernel)
theorem ex_hJ2 : (5:ℚ) ≤ pow2 (2 + 1) := by decide +kernel
theorem ex_hsize : Exact (5 - 1) := by unfold Exact; decide +kernel
theorem ex_hinter : ∀ j : ℤ, 0 ≤ j → j ≤ 2 → Exact (min (pow2 (j + 1)) 5 - max (pow2 j) 1) := by
  intro j h1 h2
  unfold Exact
  interval_cases j <;> decide +kernel
theorem ex_hdiv : ∀ j : ℤ, 0 ≤ j → j ≤ 2 → 0 < prop pow2 1 5 j → Exact (prop pow2 1 5 j) := by
  intro j h1 h2 _
  unfold Exact prop
  interval_cases j <;> decide +kernel
theorem ex_hmul : ∀ j : ℤ, 0 ≤ j → j ≤ 2 → 0 < prop pow2 1 5 j → Exact (prop pow2 1 5 j * 8) := by
  intro j h1 h2 _
  unfold Exact prop
  interval_cases j <;> decide +kernel

example : spreadBin (envPow2 0) (.fin 1) (.fin 5) (.fin 8) 3 0 =
    (visited 0 2).filterMap fun j =>
      if 0 < prop pow2 1 5 j then some (j, F64.fin (prop pow2 1 5 j * 8)) else none :=
  spreadBin_spec (envPow2 0) pow2 (fun _ => rfl) pow2_sm (by norm_num) ex_hJ1 ex_hJ2 ex_hsize
    ex_hinter ex_hdiv ex_hmul 3 0 le_rfl (by norm_num) (by norm_num)

example : ((spreadBin (envPow2 0) (.fin 1) (.fin 5) (.fin 8) 3 ((envPow2 0).index (.fin 1))).map
    fun p => ratOfF p.2).sum = 8 :=
  spreadBin_spec_total (envPow2 0) pow2 (fun _ => rfl) pow2_sm (by norm_num) ex_hJ1 ex_hJ2 ex_hsize
    ex_hinter ex_hdiv ex_hmul (by decide +kernel) 3 (by decide)

theorem ex_hs : F64.sub (.fin 5) (.fin 1) = .fin 4 := by decide +kernel
theorem ex_mem : (1, F64.fin 4) ∈ spreadBin (envPow2 0) (.fin 1) (.fin 5) (.fin 8) 3 0 := by
  decide +kernel

example : F64.lt (.fin 4) (.fin 0) = false :=
  spreadBin_weights_not_neg (envPow2 0) (.fin 1) (.fin 5) (.fin 8) (by decide +kernel) 3 0 1 _ ex_mem

example : F64.le (.fin 0) (.fin 4) = true :=
  spreadBin_weights_nonneg (envPow2 0) 1 5 4 8 (fun _ => rfl) ex_hs (by norm_num) 3 0 1 _ ex_mem

theorem ex_nounderflow : ∀ (j : ℤ) (x : ℚ), 0 ≤ j → j < 0 + (3 : ℕ) →
    fInter (envPow2 0) (.fin 1) (.fin 5) j = .fin x → 0 < x →
      pow2 (-1075) < F64.rv (x / 4) * 8 := by
  intro j x h1 h2 hx _
  have h3 : j < 3 := by simpa using h2
  interval_cases j
  · have : fInter (envPow2 0) (.fin 1) (.fin 5) 0 = .fin 1 := by decide +kernel
    rw [this] at hx; cases hx; decide +kernel
  · have : fInter (envPow2 0) (.fin 1) (.fin 5) 1 = .fin 2 := by decide +kernel
    rw [this] at hx; cases hx; decide +kernel
  · have : fInter (envPow2 0) (.fin 1) (.fin 5) 2 = .fin 1 := by decide +kernel
    rw [this] at hx; cases hx; decide +kernel

example : F64.lt (.fin 0) (.fin 4) = true :=
  spreadBin_weights_pos (envPow2 0) 1 5 4 8 (fun _ => rfl) ex_hs 3 0 ex_nounderflow 1 _ ex_mem

example : F64.lt ((envPow2 0).lowerBound 1) (.fin 5) = true ∧
    (F64.fin 4 = .nan ∨ F64.lt (.fin 1) ((envPow2 0).lowerBound (1 + 1)) = true) :=
  spreadBin_indexes_overlap (envPow2 0) (.fin 1) (.fin 5) (.fin 8) 3 0 1 _ ex_mem

example : F64.lt ((envPow2 0).lowerBound 1) (.fin 5) = true ∧
    F64.lt (.fin 1) ((envPow2 0).lowerBound (1 + 1)) = true :=
  spreadBin_indexes_overlap_fin (envPow2 0) 1 5 4 8 (fun _ => rfl) ex_hs 3 0 1 _ ex_mem

/-- source grid `5^i`, target grid `2^j`, scale `1`, one bin `[1, 5)` of weight `8` -/
example : ((spreadStore (envOf (fun i => if i = 0 then 1 else 5) 0) (envPow2 0) (.fin 1) [(0, 8)] 3).map
    fun q => ratOfF q.2).sum = ([((0:Int), (8:Rat))].map Prod.snd).sum :=
  spreadStore_total _ _ _ _ _ (by
    intro p hp
    simp only [List.mem_singleton] at hp
    subst hp
    decide +kernel)

/-- `rescale_stats`: both sign hypotheses are satisfiable (`f = 2`, `f = -2`) -/
example (s : Summary) :
    (s.rescale (.fin 2)).min = F64.mul s.min (.fin 2) ∧
      (s.rescale (.fin 2)).max = F64.mul s.max (.fin 2) :=
  (rescale_stats s (.fin 2)).2.2.2.2.1 (by decide +kernel)

example (s : Summary) :
    (s.rescale (.fin (-2))).min = F64.mul s.max (.fin (-2)) ∧
      (s.rescale (.fin (-2))).max = F64.mul s.min (.fin (-2)) :=
  (rescale_stats s (.fin (-2))).2.2.2.2.2 (by decide +kernel)


end DDS.Props.C17
