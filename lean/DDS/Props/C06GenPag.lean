/-
  DDS.Props.C06GenPag — the binary encoding of the buffered-paginated store (properties C06, C07, C08) on the
  REGENERATED code (`DDS/Generated/CodePaginated.lean`, DESIGN §4.2c), with the interface hypotheses of
  `Proofs/GenPagCodec.lean` instantiated by their proofs.

  * `gen_pag_Encode`: for every store with the invariant the regenerated `Encode` appends exactly the bytes of the
    blocks the model's encoder writes (`Sketch.encodeStore`: compaction, one index-delta block for the buffer, one
    contiguous block per page — the layout of the format documentation, `Wire.encBlocks`), leaves a store with the
    same content, and never panics.
  * `gen_pag_Decode_deltas`, `gen_pag_Decode_contiguous`: the two layouts the paginated store decodes itself (batches
    of appends with compactions in between, for every capacity and growth policy; page-wise adds for any start and
    stride) agree with the model's decoder `Sketch.decodeStore`: same error (end of input), same remaining bytes,
    and a store with the invariant holding the same content. `gen_pag_Decode_other` hands the third layout to the
    generic decoder (`GenStoreDecode`).
  * `gen_pag_huge_count`: a finding outside the properties, kernel-checked on the regenerated code and reproduced on
    the library: an index-delta block announcing 2^63 bins or more makes `remaining := int(numBins)` negative; the
    paginated decoder then reads nothing and reports success, where the generic decoder (and the model) report
    end of input.  Hence the hypothesis `v < 2^63` of `gen_pag_Decode_deltas`.
-/
import DDS.Proofs.GenPaginated

namespace DDS.Props.C06GenPag

open DDS DDS.GoSem DDS.PStore DDS.GenPag DDS.Gen.Paginated DDS.Gen.Encoding

/-- C06/C07: the regenerated encoder writes the model's (= the documentation's) blocks and keeps the content -/
theorem gen_pag_Encode (fuel : Nat) (s : PStore) (cap : Int) (side : Side) (t : FlagType)
    (ht : t.byte.toNat = Wire.sideType side) (b : List (BitVec 8))
    (hI : PStore.Inv s) (hlen : s.buffer.length < 2 ^ 64) (hf : encodeFuel compactFuel s ≤ fuel) :
    ∃ s' blocks, Sketch.encodeStore (.pg s) side = some (.pg s', blocks) ∧
      BufferedPaginatedStore.Encode fuel (toGen s cap) b t
        = .ok (toGen s' cap, b ++ DDS.GenEncoding.bn (Wire.encBlocks blocks)) ∧
      PStore.Inv s' ∧ content s' = content s :=
  Encode_inv compactFuel compactSpec fuel s cap side t ht b hI hlen hf

/-- C06/C08: index-delta blocks, any capacity, any growth policy -/
theorem gen_pag_Decode_deltas (grow : Int → Int → Int)
    (fb : GP → List (BitVec 8) → SubFlag → Res (GP × List (BitVec 8) × GoErr))
    (fuel : Nat) (s : PStore) (cap : Int) (b : List (BitVec 8)) (hI : PStore.Inv s)
    (hcap : (s.buffer.length : Int) ≤ max cap (s.trigger : Int))
    (hn : ∀ v rest, Codec.decUvarint64 (DDS.GenEncoding.nb b) = .ok (v, rest) → v < 2 ^ 63)
    (hidx : ∀ u ∈ DDS.GenStoreDecode.storeIndexes Consts.binEncodingIndexDeltas (DDS.GenEncoding.nb b), Idx32 u)
    (hf : deltasFuel compactFuel grow s cap b ≤ fuel) :
    DecAgrees (BufferedPaginatedStore.DecodeAndMergeWith fuel grow fb (toGen s cap) b BinEncodingIndexDeltas)
      (Sketch.decodeStore (.pg s) Consts.binEncodingIndexDeltas (DDS.GenEncoding.nb b)) :=
  DecodeAndMergeWith_deltas compactFuel compactSpec grow fb fuel s cap b hI hcap hn hidx hf

/-- C08: the third layout goes to the generic decoder -/
theorem gen_pag_Decode_other (grow : Int → Int → Int)
    (fb : GP → List (BitVec 8) → SubFlag → Res (GP × List (BitVec 8) × GoErr))
    (fuel : Nat) (g : GP) (b : List (BitVec 8)) (m : SubFlag)
    (h1 : (m == BinEncodingIndexDeltas) = false) (h2 : (m == BinEncodingContiguousCounts) = false) :
    BufferedPaginatedStore.DecodeAndMergeWith fuel grow fb g b m = fb g b m :=
  DecodeAndMergeWith_fallback grow fb fuel g b m h1 h2

/-- finding outside the properties (malformed input): 2^63 announced bins are "decoded" successfully to nothing by
    the regenerated paginated decoder, while the model (like the generic decoder of the other stores) reports EOF -/
theorem gen_pag_huge_count :
    isOkNilEmpty (BufferedPaginatedStore.DecodeAndMergeWith 20 (fun _ n => n)
      (fun s b _ => .ok (s, b, GoErr.nil)) NewBufferedPaginatedStore hugeCount BinEncodingIndexDeltas) = true ∧
    isErrEof (Sketch.decodeStore (.pg PStore.new) Consts.binEncodingIndexDeltas (DDS.GenEncoding.nb hugeCount)) = true :=
  ⟨deltas_negative_count_gen, deltas_negative_count_model⟩

end DDS.Props.C06GenPag
