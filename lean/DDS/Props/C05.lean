/-
  DDS.Props.C05 — "Collapsing stores stay bounded, conserve weight and clamp correctly".

  Statements about the Lean transcription (`DDS.Model.Dense`, `kind = .low N` / `.high N`) of
  `ddsketch/store/collapsing_lowest_dense_store.go` and `collapsing_highest_dense_store.go`,
  proved in `DDS.Proofs.Collapsing`.

  * No assumption is left on the float computation `denseNewLength`: `DStore.growthOK`
    (`DDS.Proofs.Growth`) proves that it covers every span below `2^33`.
  * A history is a list of `DStore.Op` (`add i w`, `clear`, `reweight w`); `Op.ok32` asks for
    non-negative weights on int32 indexes (the mapping only produces int32 indexes).  Outside
    that range (a) the sentinels `MaxInt32`/`MinInt32` of the empty store break the exact
    clamping relation (`low_below_int32_discrepancy`), and (b) safety itself fails: for spans
    from about `2^60` on `getNewLength` under-allocates or overflows
    (`DStore.denseNewLength_underallocates`, `DStore.not_growthOK_unbounded`).  All theorems
    are therefore stated for int32 indexes.
  * `DStore.exactContent ops` is the content an unbounded store would hold after `ops`.
-/
import DDS.Proofs.Collapsing
import DDS.Proofs.Growth

namespace DDS.Props.C05

open DDS DStore

/-- the history run on a fresh lowest-collapsing store with limit `N` -/
def runLow (N : Nat) (ops : List Op) : Option DStore :=
  ops.foldlM applyOp (DStore.new (.low N))

/-- non-negative weights, arbitrary `Int` indexes (kept for reference; the theorems need `Op.ok32`) -/
def Op.nonneg : Op → Prop
  | .add _ w => 0 ≤ w
  | _ => True

theorem nonneg_iff (op : Op) : Op.nonneg op ↔ (match op with | .add _ w => 0 ≤ w | _ => True) := by
  cases op <;> rfl

/-! ### lowest-collapsing store -/

/-- no history panics (int32 indexes) and the invariant holds afterwards -/
theorem low_never_panics (N : Nat) (hN : 1 ≤ N) (ops : List Op)
    (hops : ∀ op ∈ ops, op.ok32) :
    ∃ s, runLow N ops = some s ∧ InvLow N s :=
  low_run_ok growthOK N hN ops hops

/-- never more than `N` array slots, never more than `N` bins reported, never a span of more
    than `N` consecutive indexes -/
theorem low_bounded_after_history (N : Nat) (hN : 1 ≤ N) (ops : List Op)
    (hops : ∀ op ∈ ops, op.ok32) :
    ∃ s, runLow N ops = some s ∧ s.bins.size ≤ N ∧
      (∃ l, s.binsList = some l ∧ l.length ≤ N) ∧
      (∀ mn mx, s.minIndex? = some mn → s.maxIndex? = some mx → mx - mn + 1 ≤ N) := by
  obtain ⟨s, hs, hinv⟩ := low_never_panics N hN ops hops
  obtain ⟨b1, b2, b3⟩ := low_bounded N s hinv
  refine ⟨s, hs, b1, ⟨content s, (low_binsList_spec N s hinv).1, b2⟩, ?_⟩
  intro mn mx hmn hmx
  obtain ⟨h0, rfl⟩ := minIndex?_eq s mn hmn
  obtain ⟨_, rfl⟩ := maxIndex?_eq s mx hmx
  exact b3 h0

/-- the total count is the total of the reported bins -/
theorem low_total_is_sum_of_bins (N : Nat) (hN : 1 ≤ N) (ops : List Op)
    (hops : ∀ op ∈ ops, op.ok32) :
    ∃ s, runLow N ops = some s ∧ s.totalCount = (content s).total := by
  obtain ⟨s, hs, hinv⟩ := low_never_panics N hN ops hops
  exact ⟨s, hs, low_total N s hinv⟩

/-- after ANY history the content is the exact content with every index below
    `max − N + 1` folded into that edge bin -/
theorem low_content_after_history (N : Nat) (hN : 1 ≤ N) (ops : List Op)
    (hops : ∀ op ∈ ops, op.ok32) :
    ∃ s, runLow N ops = some s ∧ s.binsList = some (content s) ∧
      content s = Content.specLow N (exactContent ops) := by
  obtain ⟨s, hs, hinv, _, hc⟩ := low_history growthOK N hN ops hops
  exact ⟨s, hs, (low_binsList_spec N s hinv).1, hc⟩

/-- no weight is ever lost: the total count is the total weight of the exact content -/
theorem low_weight_conserved (N : Nat) (hN : 1 ≤ N) (ops : List Op)
    (hops : ∀ op ∈ ops, op.ok32) :
    ∃ s, runLow N ops = some s ∧ s.totalCount = (exactContent ops).total := by
  obtain ⟨s, hs, hinv, _, hc⟩ := low_history growthOK N hN ops hops
  refine ⟨s, hs, ?_⟩
  rw [low_total N s hinv, hc, Content.total_specLow]

/-- the observers agree with the clamped exact content -/
theorem low_observers_after_history (N : Nat) (hN : 1 ≤ N) (ops : List Op)
    (hops : ∀ op ∈ ops, op.ok32) :
    ∃ s, runLow N ops = some s ∧
      s.isEmpty = (Content.specLow N (exactContent ops)).isEmpty ∧
      s.minIndex? = (Content.specLow N (exactContent ops)).minIndex? ∧
      s.maxIndex? = (Content.specLow N (exactContent ops)).maxIndex? := by
  obtain ⟨s, hs, hinv, ht, hc⟩ := low_history growthOK N hN ops hops
  refine ⟨s, hs, ?_, ?_, ?_⟩
  · rw [low_isEmpty N s hinv, hc]
  · rw [low_minIndex? N s hinv ht, hc]
  · rw [low_maxIndex? N s hinv ht, hc]

/-- EVERY merge of two lowest-collapsing stores is safe — whatever the two bin limits `N`, `M`,
    the two histories (in particular: empty or cleared receiver, argument wider than `N`).
    The result holds the receiver's exact content merged with the argument's (already clamped,
    limit `M`) content, folded at `max − N + 1`; no weight is lost. -/
theorem low_merge_safe (N M : Nat) (hN : 1 ≤ N) (hM : 1 ≤ M)
    (ops₁ ops₂ : List Op) (h₁ : ∀ op ∈ ops₁, op.ok32) (h₂ : ∀ op ∈ ops₂, op.ok32) :
    ∃ s o s', runLow N ops₁ = some s ∧ runLow M ops₂ = some o ∧ s.mergeSame o = some s' ∧
      InvLow N s' ∧ s'.bins.size ≤ N ∧ s'.totalCount = s.totalCount + o.totalCount ∧
      content s' = Content.specLow N
        ((exactContent ops₁).merge (Content.specLow M (exactContent ops₂))) := by
  obtain ⟨s, hs, hinv, ht, hc⟩ := low_history growthOK N hN ops₁ h₁
  obtain ⟨o, ho, hinvo, hto, hco⟩ := low_history growthOK M hM ops₂ h₂
  obtain ⟨s', hm, hinv', _, hcnt, hc'⟩ := low_mergeSame_ok growthOK N M s o hinv hinvo ht hto
  refine ⟨s, o, s', hs, ho, hm, hinv', hinv'.lenLe, hcnt, ?_⟩
  have hE₁ := wf_exactContent ops₁ h₁
  have hE₂ := wf_exactContent ops₂ h₂
  have hw₂ := Content.wf_specLow M _ hE₂
  rw [hc', hc, hco, Content.specLow_merge_specLow N hN _ _ hE₁ hw₂]

/-- merging into an EMPTY (fresh or cleared) receiver a store wider than the receiver's limit —
    the case that panicked before the repair -/
theorem low_merge_into_empty_safe (N M : Nat) (hN : 1 ≤ N) (hM : 1 ≤ M)
    (ops₁ ops₂ : List Op) (h₁ : ∀ op ∈ ops₁, op.ok32) (h₂ : ∀ op ∈ ops₂, op.ok32) :
    ∃ s o s', runLow N (ops₁ ++ [Op.clear]) = some s ∧ runLow M ops₂ = some o ∧
      s.mergeSame o = some s' ∧
      content s' = Content.specLow N (Content.specLow M (exactContent ops₂)) := by
  have h₁' : ∀ op ∈ ops₁ ++ [Op.clear], op.ok32 := by
    intro op hop
    rcases List.mem_append.1 hop with h | h
    · exact h₁ op h
    · simp at h; subst h; trivial
  obtain ⟨s, o, s', a1, a2, a3, _, _, _, a7⟩ :=
    low_merge_safe N M hN hM (ops₁ ++ [Op.clear]) ops₂ h₁' h₂
  refine ⟨s, o, s', a1, a2, a3, ?_⟩
  have hE : exactContent (ops₁ ++ [Op.clear]) = [] := by
    unfold exactContent; rw [List.foldl_append]; rfl
  have hw := Content.wf_specLow M _ (wf_exactContent ops₂ h₂)
  rw [a7, hE, Content.merge_nil_left _ hw]

/-- `KeyAtRank` of a non-empty store is the rank lookup of the clamped exact content -/
theorem low_keyAtRank_after_history (N : Nat) (hN : 1 ≤ N) (ops : List Op)
    (hops : ∀ op ∈ ops, op.ok32) :
    ∃ s, runLow N ops = some s ∧ (s.isEmpty = false → ∀ r,
      s.keyAtRank r = (Content.specLow N (exactContent ops)).keyAtRank r) := by
  obtain ⟨s, hs, hinv, ht, hc⟩ := low_history growthOK N hN ops hops
  refine ⟨s, hs, fun hne r => ?_⟩
  have h0 : s.count ≠ 0 := fun h0 => by
    rw [(isEmpty_iff_count s).2 h0] at hne; cases hne
  rw [low_keyAtRank_eq N s hinv ht h0 r, hc]

/-! ### highest-collapsing store -/

/-- the history run on a fresh highest-collapsing store with limit `N` -/
def runHigh (N : Nat) (ops : List Op) : Option DStore :=
  ops.foldlM applyOp (DStore.new (.high N))

theorem high_never_panics (N : Nat) (hN : 1 ≤ N) (ops : List Op)
    (hops : ∀ op ∈ ops, op.ok32) :
    ∃ s, runHigh N ops = some s ∧ InvHigh N s :=
  high_run_ok growthOK N hN ops hops

theorem high_bounded_after_history (N : Nat) (hN : 1 ≤ N) (ops : List Op)
    (hops : ∀ op ∈ ops, op.ok32) :
    ∃ s, runHigh N ops = some s ∧ s.bins.size ≤ N ∧
      (∃ l, s.binsList = some l ∧ l.length ≤ N) ∧
      (∀ mn mx, s.minIndex? = some mn → s.maxIndex? = some mx → mx - mn + 1 ≤ N) := by
  obtain ⟨s, hs, hinv⟩ := high_never_panics N hN ops hops
  obtain ⟨b1, b2, b3⟩ := high_bounded N s hinv
  refine ⟨s, hs, b1, ⟨content s, (high_binsList_spec N s hinv).1, b2⟩, ?_⟩
  intro mn mx hmn hmx
  obtain ⟨h0, rfl⟩ := minIndex?_eq s mn hmn
  obtain ⟨_, rfl⟩ := maxIndex?_eq s mx hmx
  exact b3 h0

theorem high_total_is_sum_of_bins (N : Nat) (hN : 1 ≤ N) (ops : List Op)
    (hops : ∀ op ∈ ops, op.ok32) :
    ∃ s, runHigh N ops = some s ∧ s.totalCount = (content s).total := by
  obtain ⟨s, hs, hinv⟩ := high_never_panics N hN ops hops
  exact ⟨s, hs, high_total N s hinv⟩

/-- after ANY history the content is the exact content with every index above
    `min + N − 1` folded into that edge bin -/
theorem high_content_after_history (N : Nat) (hN : 1 ≤ N) (ops : List Op)
    (hops : ∀ op ∈ ops, op.ok32) :
    ∃ s, runHigh N ops = some s ∧ s.binsList = some (content s) ∧
      content s = Content.specHigh N (exactContent ops) := by
  obtain ⟨s, hs, hinv, _, hc⟩ := high_history growthOK N hN ops hops
  exact ⟨s, hs, (high_binsList_spec N s hinv).1, hc⟩

theorem high_weight_conserved (N : Nat) (hN : 1 ≤ N) (ops : List Op)
    (hops : ∀ op ∈ ops, op.ok32) :
    ∃ s, runHigh N ops = some s ∧ s.totalCount = (exactContent ops).total := by
  obtain ⟨s, hs, hinv, _, hc⟩ := high_history growthOK N hN ops hops
  refine ⟨s, hs, ?_⟩
  rw [high_total N s hinv, hc, Content.total_specHigh]

theorem high_observers_after_history (N : Nat) (hN : 1 ≤ N) (ops : List Op)
    (hops : ∀ op ∈ ops, op.ok32) :
    ∃ s, runHigh N ops = some s ∧
      s.isEmpty = (Content.specHigh N (exactContent ops)).isEmpty ∧
      s.minIndex? = (Content.specHigh N (exactContent ops)).minIndex? ∧
      s.maxIndex? = (Content.specHigh N (exactContent ops)).maxIndex? ∧
      (s.isEmpty = false → ∀ r,
        s.keyAtRank r = (Content.specHigh N (exactContent ops)).keyAtRank r) := by
  obtain ⟨s, hs, hinv, ht, hc⟩ := high_history growthOK N hN ops hops
  refine ⟨s, hs, ?_, ?_, ?_, fun hne r => ?_⟩
  · rw [high_isEmpty N s hinv, hc]
  · rw [high_minIndex? N s hinv ht, hc]
  · rw [high_maxIndex? N s hinv ht, hc]
  · have h0 : s.count ≠ 0 := fun h0 => by
      rw [(isEmpty_iff_count s).2 h0] at hne; cases hne
    rw [high_keyAtRank_eq N s hinv ht h0 r, hc]

/-- EVERY merge of two highest-collapsing stores is safe, whatever the two limits and histories -/
theorem high_merge_safe (N M : Nat) (hN : 1 ≤ N) (hM : 1 ≤ M)
    (ops₁ ops₂ : List Op) (h₁ : ∀ op ∈ ops₁, op.ok32) (h₂ : ∀ op ∈ ops₂, op.ok32) :
    ∃ s o s', runHigh N ops₁ = some s ∧ runHigh M ops₂ = some o ∧ s.mergeSame o = some s' ∧
      InvHigh N s' ∧ s'.bins.size ≤ N ∧ s'.totalCount = s.totalCount + o.totalCount ∧
      content s' = Content.specHigh N
        ((exactContent ops₁).merge (Content.specHigh M (exactContent ops₂))) := by
  obtain ⟨s, hs, hinv, ht, hc⟩ := high_history growthOK N hN ops₁ h₁
  obtain ⟨o, ho, hinvo, hto, hco⟩ := high_history growthOK M hM ops₂ h₂
  obtain ⟨s', hm, hinv', _, hcnt, hc'⟩ := high_mergeSame_ok growthOK N M s o hinv hinvo ht hto
  refine ⟨s, o, s', hs, ho, hm, hinv', hinv'.lenLe, hcnt, ?_⟩
  have hE₁ := wf_exactContent ops₁ h₁
  have hE₂ := wf_exactContent ops₂ h₂
  have hw₂ := Content.wf_specHigh M _ hE₂
  rw [hc', hc, hco, Content.specHigh_merge_specHigh N hN _ _ hE₁ hw₂]

theorem high_merge_into_empty_safe (N M : Nat) (hN : 1 ≤ N) (hM : 1 ≤ M)
    (ops₁ ops₂ : List Op) (h₁ : ∀ op ∈ ops₁, op.ok32) (h₂ : ∀ op ∈ ops₂, op.ok32) :
    ∃ s o s', runHigh N (ops₁ ++ [Op.clear]) = some s ∧ runHigh M ops₂ = some o ∧
      s.mergeSame o = some s' ∧
      content s' = Content.specHigh N (Content.specHigh M (exactContent ops₂)) := by
  have h₁' : ∀ op ∈ ops₁ ++ [Op.clear], op.ok32 := by
    intro op hop
    rcases List.mem_append.1 hop with h | h
    · exact h₁ op h
    · simp at h; subst h; trivial
  obtain ⟨s, o, s', a1, a2, a3, _, _, _, a7⟩ :=
    high_merge_safe N M hN hM (ops₁ ++ [Op.clear]) ops₂ h₁' h₂
  refine ⟨s, o, s', a1, a2, a3, ?_⟩
  have hE : exactContent (ops₁ ++ [Op.clear]) = [] := by
    unfold exactContent; rw [List.foldl_append]; rfl
  have hw := Content.wf_specHigh M _ (wf_exactContent ops₂ h₂)
  rw [a7, hE, Content.merge_nil_left _ hw]

/-- the fallback merge (`other.ForEach(s.AddWithCount)`, used across kinds) is safe as well -/
theorem low_mergeBins_safe (N : Nat) (hN : 1 ≤ N) (ops : List Op)
    (hops : ∀ op ∈ ops, op.ok32) (l : List (Int × Rat)) (hl : ∀ p ∈ l, 0 ≤ p.2)
    (hl32 : ∀ p ∈ l, minInt32 ≤ p.1 ∧ p.1 ≤ maxInt32) :
    ∃ s s', runLow N ops = some s ∧ s.mergeBins l = some s' ∧ InvLow N s' ∧
      content s' = Content.specLow N ((exactContent ops).merge (Content.ofList l)) := by
  obtain ⟨s, hs, hinv, ht, hc⟩ := low_history growthOK N hN ops hops
  obtain ⟨s', h1, h2, _, _, h5⟩ := low_mergeBins_ok growthOK N s hinv ht l hl hl32
  refine ⟨s, s', hs, h1, h2, ?_⟩
  rw [h5, hc, Content.specLow_merge_specLow N hN _ _ (wf_exactContent ops hops) (wf_ofList l hl)]

theorem high_mergeBins_safe (N : Nat) (hN : 1 ≤ N) (ops : List Op)
    (hops : ∀ op ∈ ops, op.ok32) (l : List (Int × Rat)) (hl : ∀ p ∈ l, 0 ≤ p.2)
    (hl32 : ∀ p ∈ l, minInt32 ≤ p.1 ∧ p.1 ≤ maxInt32) :
    ∃ s s', runHigh N ops = some s ∧ s.mergeBins l = some s' ∧ InvHigh N s' ∧
      content s' = Content.specHigh N ((exactContent ops).merge (Content.ofList l)) := by
  obtain ⟨s, hs, hinv, ht, hc⟩ := high_history growthOK N hN ops hops
  obtain ⟨s', h1, h2, _, _, h5⟩ := high_mergeBins_ok growthOK N s hinv ht l hl hl32
  refine ⟨s, s', hs, h1, h2, ?_⟩
  rw [h5, hc, Content.specHigh_merge_specHigh N hN _ _ (wf_exactContent ops hops) (wf_ofList l hl)]

/-! ### examples -/

/-- three adds into a lowest-collapsing store with 2 bins: index 1 and 3 end up on the edge 4 -/
example :
    ∃ s, runLow 2 [.add 1 1, .add 5 1, .add 3 1] = some s ∧
      s.binsList = some [(4, 2), (5, 1)] ∧ s.totalCount = 3 := by
  obtain ⟨s, h1, h2, h3⟩ := low_content_after_history 2 (by omega)
    [.add 1 1, .add 5 1, .add 3 1] (by
      intro op hop
      simp only [List.mem_cons, List.not_mem_nil, or_false] at hop
      rcases hop with rfl | rfl | rfl <;> exact ⟨by decide, by decide, by decide⟩)
  have he : Content.specLow 2 (exactContent [.add 1 1, .add 5 1, .add 3 1]) = [(4, 2), (5, 1)] := by
    decide +kernel
  obtain ⟨s', h1', hinv⟩ := low_never_panics 2 (by omega) [.add 1 1, .add 5 1, .add 3 1] (by
      intro op hop
      simp only [List.mem_cons, List.not_mem_nil, or_false] at hop
      rcases hop with rfl | rfl | rfl <;> exact ⟨by decide, by decide, by decide⟩)
  rw [h1] at h1'; cases h1'
  refine ⟨s, h1, by rw [h2, h3, he], ?_⟩
  rw [low_total 2 s hinv, h3, he]
  decide +kernel

/-- the same history in a highest-collapsing store with 2 bins: 3 and 5 end up on the edge 2 -/
example :
    ∃ s, runHigh 2 [.add 1 1, .add 5 1, .add 3 1] = some s ∧
      s.binsList = some [(1, 1), (2, 2)] := by
  obtain ⟨s, h1, h2, h3⟩ := high_content_after_history 2 (by omega)
    [.add 1 1, .add 5 1, .add 3 1] (by
      intro op hop
      simp only [List.mem_cons, List.not_mem_nil, or_false] at hop
      rcases hop with rfl | rfl | rfl <;> exact ⟨by decide, by decide, by decide⟩)
  have he : Content.specHigh 2 (exactContent [.add 1 1, .add 5 1, .add 3 1]) = [(1, 1), (2, 2)] := by
    decide +kernel
  exact ⟨s, h1, by rw [h2, h3, he]⟩

/-- merging a store spanning 11 indexes into a FRESH lowest-collapsing store with 3 bins
    (this panicked before the repair): safe, everything below 8 is folded into 8 -/
example :
    ∃ s o s', runLow 3 [] = some s ∧ runLow 16 [.add 0 1, .add 4 2, .add 9 1, .add 10 1] = some o ∧
      s.mergeSame o = some s' ∧ content s' = [(8, 3), (9, 1), (10, 1)] := by
  obtain ⟨s, o, s', a1, a2, a3, _, _, _, a7⟩ := low_merge_safe 3 16 (by omega) (by omega) []
    [.add 0 1, .add 4 2, .add 9 1, .add 10 1] (by simp) (by
      intro op hop
      simp only [List.mem_cons, List.not_mem_nil, or_false] at hop
      rcases hop with rfl | rfl | rfl | rfl <;> exact ⟨by decide, by decide, by decide⟩)
  refine ⟨s, o, s', a1, a2, a3, ?_⟩
  rw [a7]
  decide +kernel

end DDS.Props.C05
