/-
  DDS.Props.C06GenSketchPag — C06 (decode ∘ encode) for the DEFAULT sketch on fully regenerated code: the regenerated
  sketch (`DDS/Generated/CodeSketch.lean`, `CodeSketchIter.lean`) over the regenerated buffered-paginated store
  (`GPS grow`, `DDS/Proofs/GenPagSketch.lean`).

  STATE: the DECODE HALF of the chain is here; the final round-trip statement is NOT (see "missing").

  `decode_regenerated_observers` — for EVERY input `b`, mapping object `m`, fuel and growth oracle: if every store block
  the regenerated decoder meets on the regenerated side satisfies the side conditions `DecodeOK` (`GoodRun`; int32
  indexes, finite counts `≥ 0`, announced counts `< 2^63` / backed by bytes, `CapOK` at a deltas block), then
  `DecodeDDSketch(b, NewBufferedPaginatedStore, m)` over the regenerated stores and over the model's stores
  (`Store.new .pag`) return the same error and, when it is nil, sketches answering `GetCount`, `IsEmpty`, `GetZeroCount`,
  `GetValueAtQuantile q` (all `q`), `GetMinValue`, `GetMaxValue` alike.
  `decodeAndMergeWith_regenerated_observers` — the same for `DecodeAndMergeWith` into any `SkSim`-related receivers.

  MISSING for `decode_encode_regenerated` (encode with the regenerated `Encode`, decode the bytes with the regenerated
  decoder, same answers):
    (a) `GoodRun` for the bytes `b0 ++ bn (encBlocks pbl) ++ bn (encBlocks nbl)` of `GenPagSketch.Encode_param`
        (`pbl = pagBlocks s1 .pos`, …): symbolic execution of the flag decoder and of the codecs on encoded blocks
        (the facts are in `Proofs/Wire.lean`: `decodeStore_encPayload`, `sreads_*`; `Encode_param` must first be
        strengthened to expose `b0` as the zero-count block and the mapping block).  `CapOK` holds where needed: each
        store receives at most one deltas block, as its first block, on a fresh store (`capOK_new`).
    (b) the model side: `GenSketch5` / `GenSketch7.DecodeDDSketch_relE` (regenerated decoder over the model stores =
        `Sketch.decodeLoop`) and `RoundTrip.EncodesTo.decode` / `Lift3.decode_encode_plain_consumer_same_answers` on
        the SAME bytes (blocks denoting the contents `cp`, `cn` — `Encode_param` provides `Denotes`).
  Then: regenerated decode over `GPS`  ≈ (this file)  regenerated decode over `Store`  = (b)  a sketch with contents
  `cp`, `cn`, the mapping and the zero count of the original  ≈ (`GetCount_param` … on `SkSim a b`)  the original.
-/
import DDS.Proofs.GenPagSketch3

namespace DDS.Props.C06GenSketchPag

open DDS DDS.GoSem DDS.GenPagSketch DDS.Gen.Sketch DDS.Gen.Paginated DDS.Gen.Encoding

variable {grow : Int → Int → Int} {M : Type} [MapI M] [Inhabited M]

/-- related sketches answer every query alike -/
theorem observers_of_skSim {a : DDSketch M (GPS grow)} {a' : DDSketch M Store} (h : SkSim a a') :
    DDSketch.GetCount a = DDSketch.GetCount a' ∧ DDSketch.IsEmpty a = DDSketch.IsEmpty a' ∧
    DDSketch.GetZeroCount a = DDSketch.GetZeroCount a' ∧
    (∀ q, DDSketch.GetValueAtQuantile a q = DDSketch.GetValueAtQuantile a' q) ∧
    DDSketch.GetMinValue a = DDSketch.GetMinValue a' ∧ DDSketch.GetMaxValue a = DDSketch.GetMaxValue a' :=
  ⟨GetCount_param h, IsEmpty_param h, GetZeroCount_param h, fun q => GetValueAtQuantile_param h q,
    GetMinValue_param h, GetMaxValue_param h⟩

/-- **`DecodeAndMergeWith` into related receivers**: same outcome, same error; when nil, the same answers -/
theorem decodeAndMergeWith_regenerated_observers (fuel : Nat) (b : List (BitVec 8))
    {a : DDSketch M (GPS grow)} {a' : DDSketch M Store} (h : SkSim a a')
    (hg : GoodRun DecodeOK (DDSketch.DecodeAndMergeWith.lit1 (M := M) (S := Store) fuel) fuel b a) :
    (∃ r r' e, DDSketch.DecodeAndMergeWith fuel a b = .ok (r, e) ∧ DDSketch.DecodeAndMergeWith fuel a' b = .ok (r', e) ∧
      (e = GoErr.nil → SkSim r r' ∧
        DDSketch.GetCount r = DDSketch.GetCount r' ∧ DDSketch.IsEmpty r = DDSketch.IsEmpty r' ∧
        DDSketch.GetZeroCount r = DDSketch.GetZeroCount r' ∧
        (∀ q, DDSketch.GetValueAtQuantile r q = DDSketch.GetValueAtQuantile r' q) ∧
        DDSketch.GetMinValue r = DDSketch.GetMinValue r' ∧ DDSketch.GetMaxValue r = DDSketch.GetMaxValue r')) ∨
    (DDSketch.DecodeAndMergeWith fuel a b = .panic ∧ DDSketch.DecodeAndMergeWith fuel a' b = .panic) ∨
    (DDSketch.DecodeAndMergeWith fuel a b = .nofuel ∧ DDSketch.DecodeAndMergeWith fuel a' b = .nofuel) := by
  have hR := DecodeAndMergeWith_param DecodeOK (fun _ _ b sub hs hok => sim_decode hs b sub hok) fuel b h hg
  revert hR
  cases DDSketch.DecodeAndMergeWith fuel a b with
  | ok p =>
    cases DDSketch.DecodeAndMergeWith fuel a' b with
    | ok p' =>
      obtain ⟨r, e⟩ := p
      obtain ⟨r', e'⟩ := p'
      rintro ⟨h1, h2⟩
      simp only at h1 h2
      subst h1
      exact Or.inl ⟨r, r', e, rfl, rfl, fun he => ⟨h2 he, observers_of_skSim (h2 he)⟩⟩
    | panic => exact fun h => h.elim
    | nofuel => exact fun h => h.elim
  | panic =>
    cases DDSketch.DecodeAndMergeWith fuel a' b with
    | panic => exact fun _ => Or.inr (Or.inl ⟨rfl, rfl⟩)
    | ok _ => exact fun h => h.elim
    | nofuel => exact fun h => h.elim
  | nofuel =>
    cases DDSketch.DecodeAndMergeWith fuel a' b with
    | nofuel => exact fun _ => Or.inr (Or.inr ⟨rfl, rfl⟩)
    | ok _ => exact fun h => h.elim
    | panic => exact fun h => h.elim

/-- **`DecodeDDSketch(b, NewBufferedPaginatedStore, m)`** over the regenerated stores and over the model stores -/
theorem decode_regenerated_observers (fuel : Nat) (b : List (BitVec 8)) (m : M)
    (hg : GoodRun DecodeOK (DDSketch.DecodeAndMergeWith.lit1 (M := M) (S := Store) fuel) fuel b
      (NewDDSketch m (⟨NewBufferedPaginatedStore⟩ : GPS grow) ⟨NewBufferedPaginatedStore⟩)) :
    SkResRel
      (Gen.SketchIter.DecodeDDSketch fuel b (fun _ => .ok (⟨NewBufferedPaginatedStore⟩ : GPS grow)) m)
      (Gen.SketchIter.DecodeDDSketch fuel b (fun _ => .ok (Store.new .pag)) m) :=
  DecodeDDSketch_param DecodeOK (fun _ _ b sub hs hok => sim_decode hs b sub hok) fuel b m hg

end DDS.Props.C06GenSketchPag
