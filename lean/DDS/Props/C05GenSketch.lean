/-
  DDS.Props.C05GenSketch — the sketch-level C05 statements (`DDS/Props/Lift.lean`: `collapsing_sketch_contents`,
  `collapsing_quantile_retained`) for the sketch ENTIRELY ON REGENERATED CODE: the regenerated `DDSketch`
  (`DDS/Generated/CodeSketch.lean`) whose two stores are the regenerated `CollapsingLowestDenseStore`
  (`DDS/Generated/CodeDense.lean`), through `instance : StoreI (GLS N)` of `DDS/Proofs/GenDenseSketch.lean`
  (every method runs the regenerated function with a fuel the instance computes), and the dense analogue of
  `C01GenPag.adds_then_quantile_eq_model` for the regenerated plain `DenseStore`.

  * `low_adds_eq_model`: the regenerated sketch built by
    `NewDDSketch env (NewCollapsingLowestDenseStore N) (NewCollapsingLowestDenseStore N)` and fed the unit adds `xs`
    returns no error and ends RELATED (`SkSimG (lowStoreSim N)`: same mapping, same zero count, each store the
    exact image `toLow N d` of the model's store `.d d`) to the model sketch `Sketch.addAll` builds — NO int32
    condition here (the simulation of the dense stores is exact, every index is admissible); the int32 hypotheses
    below are those of the model theorems in `Props/Lift`.
  * `collapsing_sketch_contents_regenerated`: … hence the two regenerated stores are `toLow N dp`, `toLow N dn` of
    model stores holding `specLow N` of the EXACT contents `cp`, `cn` of the spec sketch built from the same
    values; mapping and zero count are the spec sketch's.
  * `collapsing_quantile_retained_regenerated`: … and `GetValueAtQuantile(q)` of the regenerated sketch answers what
    the un-collapsed spec sketch answers (`QRel`: the value with a nil error, or NaN with the documented error), for
    every `q` whose selected bin is at or above the edge `max − N + 1` of its side.
  * `high_adds_eq_model`, `collapsing_sketch_contents_regenerated_high`: the same for the regenerated
    `CollapsingHighestDenseStore` (`specHigh N`).
  * `dense_adds_then_quantile_eq_model`, `dense_quantile_accuracy_regenerated`: C01 for the regenerated sketch over
    the regenerated plain `DenseStore`.
  Hypotheses: exactly those of the `Props/Lift` theorems.  The mapping stays the model's oracle `MapEnv`.
-/
import DDS.Proofs.GenDenseSketch
import DDS.Props.C01GenPag

namespace DDS.Props.C05GenSketch

open DDS DDS.GoSem DDS.Gen.Sketch DDS.Gen.Dense DDS.GenSketch DDS.GenStoreSim DDS.GenLowSketch
open DDS.GenPagSketch (runAdds)
open DDS.Props.C01GenPag (unitAdds model_runAdds)
open DDS.Lift (I32 contentOf)

/-- the regenerated sketch on fresh regenerated lowest-collapsing stores with limit `N` -/
abbrev newLow (env : MapEnv) (N : Nat) : DDSketch MapEnv (GLS N) :=
  NewDDSketch env (⟨NewCollapsingLowestDenseStore (N : Int)⟩ : GLS N) ⟨NewCollapsingLowestDenseStore (N : Int)⟩

/-- unit adds on the regenerated sketch over the regenerated stores end related to the model sketch -/
theorem low_adds_eq_model (N : Nat) (env : MapEnv) (mn : Rat) (hmin : env.minIndexable = .fin mn) (hmn : 0 ≤ mn)
    (xs : List Rat) (s : Sketch)
    (hs : Sketch.addAll env (Sketch.new (some env.id) (.low N)) (xs.map (fun x => (x, 1))) = some s) :
    let g := runAdds (newLow env N) (unitAdds xs)
    g.2 = List.replicate xs.length GoErr.nil ∧ SkSimG (lowStoreSim N) g.1 (toGen env s) := by
  intro g
  obtain ⟨he, hsim⟩ := low_runAdds N env (unitAdds xs)
  have hm := model_runAdds env mn hmin hmn xs (Sketch.new (some env.id) (.low N)) s hs
  rw [← GenSketch.NewDDSketch_eq env (some env.id) (.low N)] at hm
  refine ⟨?_, ?_⟩
  · exact he.trans (by rw [hm])
  · have := hsim
    rw [hm] at this
    exact this

/-- **`Lift.collapsing_sketch_contents` on regenerated code** (lowest-collapsing stores) -/
theorem collapsing_sketch_contents_regenerated (N : Nat) (hN : 1 ≤ N)
    (env : MapEnv) (α mn mx : Rat) (C : Contract env α mn mx)
    (xs : List Rat) (hx : ∀ x ∈ xs, rabs x ≤ mx)
    (hx32 : ∀ x ∈ xs, mn < rabs x → I32 (env.index (.fin (rabs x)))) :
    let g := runAdds (newLow env N) (unitAdds xs)
    g.2 = List.replicate xs.length GoErr.nil ∧
    ∃ (s₀ : Sketch) (cp cn : Content) (dp dn : DStore),
      Sketch.addAll env (Sketch.new (some env.id) .sparse) (xs.map (fun x => (x, 1))) = some s₀ ∧
      s₀ = Sketch.spec (some env.id) cp cn g.1.zeroCount ∧ g.1.IndexMapping = env ∧ cp.WF ∧ cn.WF ∧
      g.1.positiveValueStore.g = GenDense.toLow (N : Int) dp ∧ dp.kind = .low N ∧
      g.1.negativeValueStore.g = GenDense.toLow (N : Int) dn ∧ dn.kind = .low N ∧
      contentOf (.d dp) = Content.specLow N cp ∧ contentOf (.d dn) = Content.specLow N cn := by
  intro g
  obtain ⟨s, s₀, cp, cn, h1, h2, h3, _, wp, wn, _, _, ep, en, _⟩ :=
    Lift.collapsing_sketch_contents (.low N) hN env α mn mx C xs hx hx32
  obtain ⟨he, hsim⟩ := low_adds_eq_model N env mn C.minEq (Rat.le_of_lt C.minPos) xs s h1
  obtain ⟨dp, hgp, hsp, hkp⟩ := hsim.pos
  obtain ⟨dn, hgn, hsn, hkn⟩ := hsim.neg
  simp only [toGen_pos, toGen_neg] at hsp hsn
  refine ⟨he, s₀, cp, cn, dp, dn, h2, ?_, hsim.map, wp, wn, hgp, hkp, hgn, hkn, ?_, ?_⟩
  · rw [h3]; congr 1; exact hsim.zero.symm
  · rw [← hsp]; exact ep
  · rw [← hsn]; exact en

/-- **`Lift.collapsing_quantile_retained` on regenerated code**: quantiles at or above the edge survive the
    collapsing, on the regenerated sketch over the regenerated lowest-collapsing stores -/
theorem collapsing_quantile_retained_regenerated (N : Nat) (hN : 1 ≤ N)
    (env : MapEnv) (α mn mx : Rat) (C : Contract env α mn mx)
    (xs : List Rat) (hx : ∀ x ∈ xs, rabs x ≤ mx)
    (hx32 : ∀ x ∈ xs, mn < rabs x → I32 (env.index (.fin (rabs x))))
    (hne : xs ≠ []) (hn : xs.length ≤ 2 ^ 53) :
    let g := runAdds (newLow env N) (unitAdds xs)
    g.2 = List.replicate xs.length GoErr.nil ∧
    ∃ (s₀ : Sketch) (cp cn : Content),
      Sketch.addAll env (Sketch.new (some env.id) .sparse) (xs.map (fun x => (x, 1))) = some s₀ ∧
      s₀ = Sketch.spec (some env.id) cp cn g.1.zeroCount ∧
      ∀ q : F64,
        (∀ side k, Lift.selKey s₀ q = some (side, k) → Lift.edgeLow N (if side then cp else cn) ≤ k) →
        QRel (s₀.quantile env q) (DDSketch.GetValueAtQuantile g.1 q) := by
  intro g
  obtain ⟨s, s₀, cp, cn, h1, h2, h3, _, _, hq⟩ :=
    Lift.collapsing_quantile_retained N hN env α mn mx C xs hx hx32 hne hn
  obtain ⟨he, hsim⟩ := low_adds_eq_model N env mn C.minEq (Rat.le_of_lt C.minPos) xs s h1
  refine ⟨he, s₀, cp, cn, h2, ?_, fun q hsel => ?_⟩
  · rw [h3]; congr 1; exact hsim.zero.symm
  · show QRel _ (DDSketch.GetValueAtQuantile (runAdds _ (unitAdds xs)).1 q)
    rw [GetValueAtQuantile_paramG (lowStoreSim N) hsim q, ← hq q hsel]
    exact GetValueAtQuantile_rel env s q

/-! ### C01 for the regenerated sketch over the regenerated plain `DenseStore` -/

open DDS.GenDenseSketch in
/-- unit adds then a quantile query: no add is refused, `GetValueAtQuantile` returns the model's answer -/
theorem dense_adds_then_quantile_eq_model
    (env : MapEnv) (mn : Rat) (hmin : env.minIndexable = .fin mn) (hmn : 0 ≤ mn) (xs : List Rat)
    (s : Sketch) (hs : Sketch.addAll env (Sketch.new (some env.id) .dense) (xs.map (fun x => (x, 1))) = some s)
    (q : F64) (v : F64) (hq : Sketch.quantile env s q = .ok v) :
    let g := runAdds (NewDDSketch env (⟨NewDenseStore⟩ : GDS) ⟨NewDenseStore⟩) (unitAdds xs)
    g.2 = List.replicate xs.length GoErr.nil ∧ DDSketch.GetValueAtQuantile g.1 q = (v, GoErr.nil) := by
  intro g
  obtain ⟨he, _, _, hqv, _, _⟩ := dense_history_observers env (unitAdds xs)
  have hm := model_runAdds env mn hmin hmn xs (Sketch.new (some env.id) .dense) s hs
  rw [← GenSketch.NewDDSketch_eq env (some env.id) .dense] at hm
  refine ⟨?_, ?_⟩
  · show (runAdds _ (unitAdds xs)).2 = _
    rw [he, hm]
  · show DDSketch.GetValueAtQuantile (runAdds _ (unitAdds xs)).1 q = _
    rw [hqv q, hm]
    exact (GetValueAtQuantile_rel env s q).ok hq

open DDS.GenDenseSketch in
/-- **C01 on regenerated code, sketch and dense store** -/
theorem dense_quantile_accuracy_regenerated
    (env : MapEnv) (α mn mx : Rat) (C : Contract env α mn mx)
    (xs : List Rat) (hx : ∀ x ∈ xs, rabs x ≤ mx)
    (hx32 : ∀ x ∈ xs, mn < rabs x → I32 (env.index (.fin (rabs x))))
    (hne : xs ≠ []) (hn : xs.length ≤ 2 ^ 53)
    (q : Rat) (hq0 : 0 ≤ q) (hq1 : q ≤ 1) :
    let g := runAdds (NewDDSketch env (⟨NewDenseStore⟩ : GDS) ⟨NewDenseStore⟩) (unitAdds xs)
    g.2 = List.replicate xs.length GoErr.nil ∧
    ∃ a : Rat, DDSketch.GetValueAtQuantile g.1 (.fin q) = (.fin a, GoErr.nil) ∧
      ∃ k : Nat, k < xs.length ∧
        ((k : Int) = ⌊q * ((xs.length : Rat) - 1)⌋ ∨ (k : Int) = ⌈q * ((xs.length : Rat) - 1)⌉) ∧
        rabs (a - (sortedInputs mn xs)[k]!) ≤ α * rabs ((sortedInputs mn xs)[k]!) := by
  intro g
  obtain ⟨s, hs⟩ := Lift.addAll_ok_any_store .dense trivial env α mn mx C xs hx hx32
  obtain ⟨a, ha, hacc⟩ :=
    Lift.quantile_accuracy_any_store .dense trivial env α mn mx C xs hx hx32 hne hn s hs q hq0 hq1
  obtain ⟨h1, h2⟩ := dense_adds_then_quantile_eq_model env mn C.minEq (Rat.le_of_lt C.minPos) xs s hs
    (.fin q) (.fin a) ha
  exact ⟨h1, a, h2, hacc⟩

/-! ### the highest-collapsing stores -/

open DDS.GenHighSketch in
/-- the regenerated sketch on fresh regenerated highest-collapsing stores with limit `N` -/
abbrev newHigh (env : MapEnv) (N : Nat) : DDSketch MapEnv (GHS N) :=
  NewDDSketch env (⟨NewCollapsingHighestDenseStore (N : Int)⟩ : GHS N) ⟨NewCollapsingHighestDenseStore (N : Int)⟩

open DDS.GenHighSketch in
/-- unit adds on the regenerated sketch over the regenerated highest-collapsing stores end related to the model
    sketch -/
theorem high_adds_eq_model (N : Nat) (env : MapEnv) (mn : Rat) (hmin : env.minIndexable = .fin mn) (hmn : 0 ≤ mn)
    (xs : List Rat) (s : Sketch)
    (hs : Sketch.addAll env (Sketch.new (some env.id) (.high N)) (xs.map (fun x => (x, 1))) = some s) :
    let g := runAdds (newHigh env N) (unitAdds xs)
    g.2 = List.replicate xs.length GoErr.nil ∧ SkSimG (highStoreSim N) g.1 (toGen env s) := by
  intro g
  obtain ⟨he, hsim⟩ := high_runAdds N env (unitAdds xs)
  have hm := model_runAdds env mn hmin hmn xs (Sketch.new (some env.id) (.high N)) s hs
  rw [← GenSketch.NewDDSketch_eq env (some env.id) (.high N)] at hm
  refine ⟨?_, ?_⟩
  · exact he.trans (by rw [hm])
  · have := hsim
    rw [hm] at this
    exact this

open DDS.GenHighSketch in
/-- **`Lift.collapsing_sketch_contents` on regenerated code** (highest-collapsing stores) -/
theorem collapsing_sketch_contents_regenerated_high (N : Nat) (hN : 1 ≤ N)
    (env : MapEnv) (α mn mx : Rat) (C : Contract env α mn mx)
    (xs : List Rat) (hx : ∀ x ∈ xs, rabs x ≤ mx)
    (hx32 : ∀ x ∈ xs, mn < rabs x → I32 (env.index (.fin (rabs x)))) :
    let g := runAdds (newHigh env N) (unitAdds xs)
    g.2 = List.replicate xs.length GoErr.nil ∧
    ∃ (s₀ : Sketch) (cp cn : Content) (dp dn : DStore),
      Sketch.addAll env (Sketch.new (some env.id) .sparse) (xs.map (fun x => (x, 1))) = some s₀ ∧
      s₀ = Sketch.spec (some env.id) cp cn g.1.zeroCount ∧ g.1.IndexMapping = env ∧ cp.WF ∧ cn.WF ∧
      g.1.positiveValueStore.g = GenDense.toHigh (N : Int) dp ∧ dp.kind = .high N ∧
      g.1.negativeValueStore.g = GenDense.toHigh (N : Int) dn ∧ dn.kind = .high N ∧
      contentOf (.d dp) = Content.specHigh N cp ∧ contentOf (.d dn) = Content.specHigh N cn := by
  intro g
  obtain ⟨s, s₀, cp, cn, h1, h2, h3, _, wp, wn, _, _, ep, en, _⟩ :=
    Lift.collapsing_sketch_contents (.high N) hN env α mn mx C xs hx hx32
  obtain ⟨he, hsim⟩ := high_adds_eq_model N env mn C.minEq (Rat.le_of_lt C.minPos) xs s h1
  obtain ⟨dp, hgp, hsp, hkp⟩ := hsim.pos
  obtain ⟨dn, hgn, hsn, hkn⟩ := hsim.neg
  simp only [toGen_pos, toGen_neg] at hsp hsn
  refine ⟨he, s₀, cp, cn, dp, dn, h2, ?_, hsim.map, wp, wn, hgp, hkp, hgn, hkn, ?_, ?_⟩
  · rw [h3]; congr 1; exact hsim.zero.symm
  · rw [← hsp]; exact ep
  · rw [← hsn]; exact en

end DDS.Props.C05GenSketch
