/-
  DDS.Props.C07Gen — theorems of C07 / C08 about the store-level bin decoder, transported from the
  hand-written model (`Sketch.decodeStore`) to the REGENERATED Go code
  (`DDS.Gen.StoreDecode.DecodeAndMergeWith`, from /repo/ddsketch/store/store.go:90) through the equivalence
  of `DDS/Proofs/GenStoreDecode.lean`.

  * `storeIndexes_encPayload` — on an encoded payload, the indexes handed to the store are the indexes of
    the bins the payload denotes (`Wire.payloadBins`), so the no-wrap hypothesis of the equivalence becomes
    a condition on the payload: every bin index is an `int64`.
  * `gen_decode_payload` (from `decodeStore_encPayload`, C07) — the generated decoder, run on
    `encPayload p ++ rest`, adds exactly the bins of `p` to the store and leaves `rest`.
  * `gen_decode_payload_cut` (from `decodeStore_take`, C08) — run on a strict prefix of `encPayload p` it
    returns `io.EOF`: no panic, no fuel exhaustion, no success.
  * `gen_decode_sparse_total` (from `decodeStore_good`, C08) — on the sparse store and an input whose
    varfloats are finite, whatever the bytes are: the generated decoder either succeeds with the model's
    store (when no index wraps) or fails with a non-nil error.
-/
import DDS.Proofs.GenStoreDecode

namespace DDS.Props.C07Gen

open DDS DDS.GoSem DDS.Gen.Encoding DDS.Gen.StoreDecode DDS.Codec DDS.GenEncoding DDS.Wire DDS.Sketch
  DDS.GenStoreDecode

/-! ### the indexes handed to the store, on an encoded payload -/

theorem dcTrace_succ_ok (n : Nat) (idx : Int) (bs bs1 bs2 : Bytes) (d : Int) (c : F64)
    (h1 : decVarint64 bs = .ok (d, bs1)) (h2 : decVarfloat64 bs1 = .ok (c, bs2)) :
    dcTrace (n + 1) idx bs = (idx + d) :: dcTrace n (idx + d) bs2 := by
  simp only [dcTrace, h1, h2]

theorem dcBins_fst_cons (idx : Int) (p : Int × Nat) (items : List (Int × Nat)) :
    (dcBins idx (p :: items)).map Prod.fst = (idx + p.1) :: (dcBins (idx + p.1) items).map Prod.fst := rfl

-- (proved by `rw` with the count kept abstract: letting `simp` see `vfValue c` makes Lean evaluate the
--  float decoding symbolically)
theorem dcTrace_enc (items : List (Int × Nat)) (h : ∀ p ∈ items, I64 p.1 ∧ p.2 < W64) (idx : Int)
    (rest : Bytes) :
    dcTrace items.length idx
        (items.flatMap (fun p => encVarint64 p.1 ++ encVarfloatBits p.2) ++ rest)
      = (dcBins idx items).map Prod.fst := by
  induction items generalizing idx with
  | nil => rfl
  | cons p items ih =>
    obtain ⟨h1, h2⟩ := h p (List.mem_cons_self ..)
    rw [List.length_cons, List.flatMap_cons, List.append_assoc, List.append_assoc,
      dcTrace_succ_ok _ _ _ _ _ _ _ (decVarint64_encVarint64 p.1 h1.1 h1.2 _)
        (decVarfloat64_of_ok _ _ _ (decVarfloatBits_encVarfloatBits p.2 h2 _)),
      dcBins_fst_cons, ih (fun q hq => h q (List.mem_cons_of_mem _ hq))]

theorem dTrace_enc (items : List Int) (h : ∀ d ∈ items, I64 d) (idx : Int) (rest : Bytes) :
    dTrace items.length idx (items.flatMap encVarint64 ++ rest) = (dBins idx items).map Prod.fst := by
  induction items generalizing idx with
  | nil => rfl
  | cons d items ih =>
    obtain ⟨h1, h2⟩ := h d (List.mem_cons_self ..)
    simp only [List.length_cons, List.flatMap_cons, List.append_assoc, dTrace,
      decVarint64_encVarint64 d h1 h2, dBins, List.map_cons]
    rw [ih (fun q hq => h q (List.mem_cons_of_mem _ hq))]

theorem ccTrace_succ_ok (stride : Int) (n : Nat) (idx : Int) (bs bs1 : Bytes) (c : F64)
    (h1 : decVarfloat64 bs = .ok (c, bs1)) :
    ccTrace stride (n + 1) idx bs = idx :: ccTrace stride n (idx + stride) bs1 := by
  simp only [ccTrace, h1]

theorem ccBins_fst_cons (stride idx : Int) (c : Nat) (counts : List Nat) :
    (ccBins stride idx (c :: counts)).map Prod.fst
      = idx :: (ccBins stride (idx + stride) counts).map Prod.fst := rfl

theorem ccTrace_enc (stride : Int) (counts : List Nat) (h : ∀ c ∈ counts, c < W64) (idx : Int)
    (rest : Bytes) :
    ccTrace stride counts.length idx (counts.flatMap encVarfloatBits ++ rest)
      = (ccBins stride idx counts).map Prod.fst := by
  induction counts generalizing idx with
  | nil => rfl
  | cons c counts ih =>
    have h1 := h c (List.mem_cons_self ..)
    rw [List.length_cons, List.flatMap_cons, List.append_assoc,
      ccTrace_succ_ok _ _ _ _ _ _ (decVarfloat64_of_ok _ _ _ (decVarfloatBits_encVarfloatBits c h1 _)),
      ccBins_fst_cons, ih (fun q hq => h q (List.mem_cons_of_mem _ hq))]

/-- on an encoded payload the store receives the indexes of the payload's bins, in order -/
theorem storeIndexes_encPayload (p : BinsPayload) (hp : p.WF) (rest : Bytes) :
    storeIndexes (payloadSub p) (encPayload p ++ rest) = (payloadBins p).map Prod.fst := by
  cases p with
  | deltasCounts items =>
    obtain ⟨h, hi⟩ := hp
    simp only [payloadSub, encPayload, List.append_assoc, storeIndexes, if_true,
      decUvarint64_encUvarint64 _ h]
    rw [dcTrace_enc items hi, payloadBins_dc]
  | deltas items =>
    obtain ⟨h, hi⟩ := hp
    simp only [payloadSub, encPayload, List.append_assoc, storeIndexes, if_neg subs_ne.1, if_true,
      decUvarint64_encUvarint64 _ h]
    rw [dTrace_enc items hi, payloadBins_d]
  | contiguous start stride counts =>
    obtain ⟨h, hs, ht, hi⟩ := hp
    simp only [payloadSub, encPayload, List.append_assoc, storeIndexes, if_neg subs_ne.2.1,
      if_neg subs_ne.2.2, if_true, decUvarint64_encUvarint64 _ h,
      decVarint64_encVarint64 start hs.1 hs.2, decVarint64_encVarint64 stride ht.1 ht.2]
    rw [ccTrace_enc stride counts hi, payloadBins_cc]

/-- the no-wrap hypothesis on an encoded payload: every bin index of the payload is an `int64` -/
theorem noWrap_encPayload (p : BinsPayload) (hp : p.WF) (rest : Bytes)
    (hi : ∀ q ∈ payloadBins p, I64 q.1) : NoWrap (payloadSub p) (encPayload p ++ rest) := by
  unfold NoWrap
  rw [storeIndexes_encPayload p hp rest]
  intro u hu
  obtain ⟨q, hq, rfl⟩ := List.mem_map.mp hu
  exact hi q hq

theorem payloadSub_known (p : BinsPayload) : KnownSub (payloadSub p) := by
  cases p
  · exact Or.inl rfl
  · exact Or.inr (Or.inl rfl)
  · exact Or.inr (Or.inr rfl)

/-! ### transported theorems -/

/-- **C07 on the generated decoder.**  `b` holds an encoded, well-formed bins payload `p` followed by `r`;
    every bin index of `p` is an `int64`; the model's store accepts the bins (`addBins … = some st'`).
    Then the regenerated `DecodeAndMergeWith` returns exactly `st'`, the untouched remainder `r` and a nil
    error. -/
theorem gen_decode_payload (st st' : Store) (p : BinsPayload) (hp : p.WF) (b r : List (BitVec 8))
    (hb : nb b = encPayload p ++ nb r) (hi : ∀ q ∈ payloadBins p, I64 q.1)
    (hadd : addBins st (payloadBins p) = some st') (fuel : Nat) (hf : b.length + 9 ≤ fuel) :
    DecodeAndMergeWith fuel st b (subflag (payloadSub p)) = .ok (st', r, GoErr.nil) := by
  have hm := decodeStore_encPayload st p hp (nb r)
  rw [hadd] at hm
  have h := DecodeAndMergeWith_ok st st' (payloadSub p) b (nb r) fuel hf
    (by rw [hb]; exact noWrap_encPayload p hp (nb r) hi) (by rw [hb]; exact hm)
  rw [h, bn_nb]

/-- **C08 on the generated decoder.**  A payload cut strictly inside (`b` holds the first `k` bytes of
    `encPayload p`): the regenerated decoder returns `io.EOF` — it neither panics, nor runs out of fuel, nor
    succeeds.  (No hypothesis on the indexes: control flow does not depend on the store.) -/
theorem gen_decode_payload_cut (st : Store) (p : BinsPayload) (hp : p.WF)
    (hs : addBins st (payloadBins p) ≠ none) (k : Nat) (hk : k < (encPayload p).length)
    (b : List (BitVec 8)) (hb : nb b = (encPayload p).take k) (fuel : Nat) (hf : b.length + 9 ≤ fuel) :
    ∃ s' b', DecodeAndMergeWith fuel st b (subflag (payloadSub p)) = .ok (s', b', GoErr.eof) := by
  have hm := decodeStore_take st p hp hs k hk
  rw [← hb] at hm
  exact ((DecodeAndMergeWith_agrees st (payloadSub p) (payloadSub_known p) b fuel hf).1 _ hm).2

/-- **C08 (totality) on the generated decoder, sparse store.**  For ANY bytes whose varfloats are finite
    and any sub-flag `< 64`, decoding into a sparse store: the model never panics, and the regenerated
    decoder returns either the model's store with the model's remaining bytes (when no index wraps) or a
    non-nil error exactly when the model refuses. -/
theorem gen_decode_sparse_total (c : Content) (sub : Nat) (hsub : sub < 64) (b : List (BitVec 8))
    (hfin : FiniteVarfloats (nb b)) (hw : NoWrap sub (nb b)) (fuel : Nat) (hf : b.length + 9 ≤ fuel) :
    (∃ c' rest, decodeStore (.sp c) sub (nb b) = some (.ok (.sp c', rest)) ∧
        DecodeAndMergeWith fuel (Store.sp c) b (subflag sub) = .ok (.sp c', bn rest, GoErr.nil)) ∨
    (∃ e s' b' err, decodeStore (.sp c) sub (nb b) = some (.error e) ∧
        DecodeAndMergeWith fuel (Store.sp c) b (subflag sub) = .ok (s', b', err) ∧ err ≠ GoErr.nil) := by
  obtain ⟨hne, hgood⟩ := decodeStore_good c sub (nb b) hfin
  cases hd : decodeStore (.sp c) sub (nb b) with
  | none => exact absurd hd hne
  | some r =>
    cases r with
    | error e =>
      obtain ⟨s', b', err, h1, h2⟩ := DecodeAndMergeWith_error_ne_nil (.sp c) sub hsub b e fuel hf hd
      exact Or.inr ⟨e, s', b', err, rfl, h1, h2⟩
    | ok q =>
      obtain ⟨st', rest⟩ := q
      obtain ⟨⟨c', rfl⟩, _⟩ := hgood st' rest hd
      exact Or.inl ⟨c', rest, rfl, DecodeAndMergeWith_ok (.sp c) (.sp c') sub b rest fuel hf hw hd⟩

end DDS.Props.C07Gen
