/-
  DDS.Props.C17Gen — C17 ("changing mapping or unit conserves weight …") on the REGENERATED
  `changeStoreMapping` / `DDSketch.ChangeMapping` (`DDS/Generated/CodeSketch.lean`, translated from
  ddsketch.go on every run), transported from the model's theorems (`Props/C17.lean`, `Props/C17Sketch.lean`)
  through `Proofs/GenSketch6.lean` (`changeStoreMapping_eq`: the target store receives exactly the calls
  `AddWithCount(i, w)` for `(i, w)` in the model's `spreadStore`, in order).

  "What the regenerated code hands to the new store" is made observable in two ways:
  * for ANY store type, the result is `addAll newStore l` with `l` the list the theorems talk about;
  * with the RECORDING store `Rec` (a `StoreI` instance whose `AddWithCount` only logs the call and whose
    `ForEach` enumerates a given list of bins) the log IS that list: `gen_calls_eq`.

  * `gen_weights_not_neg`      : no weight handed to the new store is negative — ALL floats (NaN, ±∞ bounds
                                 included), any two mappings, any scale factor, whenever no source count is negative;
  * `gen_indexes_overlap`      : every call goes to a target bin whose lower bound is below the scaled upper
                                 bound of some source bin (and, unless the weight is NaN, whose upper bound is above its
                                 scaled lower bound);
  * `gen_total`                : when each source bin's contributions add up to its weight
                                 (`C17.spreadBin_spec_total`), the logged weights add up to the source's total;
  * `gen_changeMapping_identity` : scale exactly 1 and an `Equals` mapping: a copy of the receiver, target
                                 stores untouched;
  * `gen_changeMapping_pure`   : the source is not modified — BY CONSTRUCTION: the generated function takes
                                 the receiver as a value and returns (targets, new sketch) only; what can be said is
                                 that the returned sketch is a `Copy` of the receiver or a sketch on the new mapping
                                 with the receiver's zero count, and on the model's stores the receiver read back
                                 (`ofGen`) is the same model sketch before and after.
-/
import DDS.Props.C17Sketch
import DDS.Proofs.GenSketch6

namespace DDS.Props.C17Gen

open DDS DDS.GoSem DDS.Gen.Sketch DDS.ChangeMapping DDS.GenSketch

/-! ### where a contribution comes from -/

theorem mem_spreadStoreF {old new : MapEnv} {scale : F64} {bins : List (Int × F64)} {fuel : Nat}
    {q : Int × F64} (h : q ∈ spreadStoreF old new scale bins fuel) :
    ∃ b ∈ bins, q ∈ spreadBin new (F64.mul (old.lowerBound b.1) scale)
      (F64.mul (old.lowerBound (b.1 + 1)) scale) b.2 fuel (new.index (F64.mul (old.lowerBound b.1) scale)) := by
  simp only [spreadStoreF, List.mem_flatMap] at h
  obtain ⟨b, hb, hq⟩ := h
  exact ⟨b, hb, hq⟩

theorem spreadStoreF_not_neg (old new : MapEnv) (scale : F64) (bins : List (Int × F64)) (fuel : Nat)
    (hc : ∀ b ∈ bins, F64.lt b.2 (.fin 0) = false) :
    ∀ q ∈ spreadStoreF old new scale bins fuel, F64.lt q.2 (.fin 0) = false := by
  intro q hq
  obtain ⟨b, hb, hmem⟩ := mem_spreadStoreF hq
  exact C17.spreadBin_weights_not_neg new _ _ b.2 (hc b hb) fuel _ q.1 q.2 hmem

/-! ### any store -/

/-- **never a negative weight**, regenerated code, any mapping and store types, all floats: the target
    store has received a list of calls none of whose weights is negative -/
theorem gen_weights_not_neg_any {M S : Type} [MapI M] [StoreI S] [Inhabited M] [Inhabited S] (oldM newM : M)
    (old new : MapEnv) (hold : MapAgrees oldM old) (hnew : MapAgrees newM new) (scale : F64) (fuel : Nat)
    (oldStore newStore r : S)
    (hc : ∀ b ∈ StoreI.ForEachList oldStore, F64.lt b.2 (.fin 0) = false)
    (h : changeStoreMapping fuel oldM newM oldStore newStore scale = .ok r) :
    ∃ l, r = addAll newStore l ∧ ∀ q ∈ l, F64.lt q.2 (.fin 0) = false := by
  rw [changeStoreMapping_eq oldM newM old new hold hnew] at h
  split at h
  · cases h
    exact ⟨_, rfl, spreadStoreF_not_neg old new scale _ fuel hc⟩
  · cases h

/-! ### the recording store -/

/-- a store that only records: `ForEach` enumerates `bins`, `AddWithCount` appends the call to `calls` -/
structure Rec where
  bins : List (Int × F64)
  calls : List (Int × F64)
deriving Inhabited

instance : StoreI Rec where
  Add st i := { st with calls := st.calls ++ [(i, .fin 1)] }
  AddWithCount st i c := { st with calls := st.calls ++ [(i, c)] }
  Copy st := st
  Clear st := { st with bins := [] }
  IsEmpty st := st.bins.isEmpty
  MaxIndex _ := (0, GoErr.nil)
  MinIndex _ := (0, GoErr.nil)
  TotalCount _ := .fin 0
  KeyAtRank _ _ := 0
  MergeWith st _ := st
  Reweight st _ := (st, GoErr.nil)
  Encode st b _ := (st, b)
  ForEachList st := st.bins
  DecodeAndMergeWith st b _ := (st, b, GoErr.nil)

theorem addAll_rec (st : Rec) (l : List (Int × F64)) :
    addAll st l = { st with calls := st.calls ++ l } := by
  induction l generalizing st with
  | nil => simp
  | cons p rest ih =>
    rw [addAll_cons, ih]
    show ({ bins := st.bins, calls := (st.calls ++ [(p.1, p.2)]) ++ rest } : Rec) = _
    simp

/-- the calls the regenerated `changeStoreMapping` makes on the new store are exactly the model's
    contributions, in order -/
theorem gen_calls_eq {M : Type} [MapI M] [Inhabited M] (oldM newM : M) (old new : MapEnv)
    (hold : MapAgrees oldM old) (hnew : MapAgrees newM new) (scale : F64) (fuel : Nat)
    (bins : List (Int × F64)) (r : Rec)
    (h : changeStoreMapping fuel oldM newM ({ bins := bins, calls := [] } : Rec) { bins := [], calls := [] } scale
      = .ok r) :
    r.calls = spreadStoreF old new scale bins fuel := by
  rw [changeStoreMapping_eq oldM newM old new hold hnew] at h
  split at h
  · cases h
    rw [addAll_rec]
    show [] ++ spreadStoreF old new scale bins fuel = _
    simp
  · cases h

/-- **never a negative weight**: no call `AddWithCount(i, w)` made by the regenerated code has `w < 0` -/
theorem gen_weights_not_neg {M : Type} [MapI M] [Inhabited M] (oldM newM : M) (old new : MapEnv)
    (hold : MapAgrees oldM old) (hnew : MapAgrees newM new) (scale : F64) (fuel : Nat)
    (bins : List (Int × F64)) (hc : ∀ b ∈ bins, F64.lt b.2 (.fin 0) = false) (r : Rec)
    (h : changeStoreMapping fuel oldM newM ({ bins := bins, calls := [] } : Rec) { bins := [], calls := [] } scale
      = .ok r) :
    ∀ q ∈ r.calls, F64.lt q.2 (.fin 0) = false := by
  rw [gen_calls_eq oldM newM old new hold hnew scale fuel bins r h]
  exact spreadStoreF_not_neg old new scale bins fuel hc

/-- **only to overlapping bins**: every call comes from a source bin `b` whose scaled range the target bin
    meets -/
theorem gen_indexes_overlap {M : Type} [MapI M] [Inhabited M] (oldM newM : M) (old new : MapEnv)
    (hold : MapAgrees oldM old) (hnew : MapAgrees newM new) (scale : F64) (fuel : Nat)
    (bins : List (Int × F64)) (r : Rec)
    (h : changeStoreMapping fuel oldM newM ({ bins := bins, calls := [] } : Rec) { bins := [], calls := [] } scale
      = .ok r) :
    ∀ q ∈ r.calls, ∃ b ∈ bins,
      F64.lt (new.lowerBound q.1) (F64.mul (old.lowerBound (b.1 + 1)) scale) = true ∧
      (q.2 = .nan ∨ F64.lt (F64.mul (old.lowerBound b.1) scale) (new.lowerBound (q.1 + 1)) = true) := by
  rw [gen_calls_eq oldM newM old new hold hnew scale fuel bins r h]
  intro q hq
  obtain ⟨b, hb, hmem⟩ := mem_spreadStoreF hq
  exact ⟨b, hb, C17.spreadBin_indexes_overlap new _ _ b.2 fuel _ q.1 q.2 hmem⟩

/-- **weight conservation**: when every source bin's contributions add up to its weight (the hypothesis
    `C17.spreadBin_spec_total` discharges), the weights handed to the new store add up to the source's total -/
theorem gen_total (old new : MapEnv) (scale : F64) (fuel : Nat) (bins : List (Int × Rat)) (r : Rec)
    (hbin : ∀ p ∈ bins,
      ((spreadBin new (F64.mul (old.lowerBound p.1) scale) (F64.mul (old.lowerBound (p.1 + 1)) scale)
          (.fin p.2) fuel (new.index (F64.mul (old.lowerBound p.1) scale))).map
        fun q => Rebin.ratOfF q.2).sum = p.2)
    (h : changeStoreMapping fuel old new
      ({ bins := bins.map fun p => (p.1, F64.fin p.2), calls := [] } : Rec) { bins := [], calls := [] } scale
      = .ok r) :
    (r.calls.map fun q => Rebin.ratOfF q.2).sum = (bins.map Prod.snd).sum := by
  rw [gen_calls_eq old new old new (MapAgrees.refl old) (MapAgrees.refl new) scale fuel _ r h,
    spreadStoreF_fin]
  exact C17.spreadStore_total old new scale bins fuel hbin

/-! ### the whole sketch -/

/-- identity shortcut on the regenerated code (and on the model: `C17Sketch.changeMapping_identity`) -/
theorem gen_changeMapping_identity (old new : MapEnv) (s : Sketch) (scale : F64) (fuel : Nat) (pos neg : Store)
    (hs : F64.eq scale F64.one = true) (hm : old.id.equals new.id = true) :
    DDSketch.ChangeMapping fuel (toGen old s) new pos neg scale = .ok (pos, neg, toGen old s) ∧
    ofGen (toGen old s) = { s with mapping := some old.id } ∧
    changeMapping old new s scale fuel = some s :=
  ⟨(ChangeMapping_identity old new s scale fuel pos neg hs hm).1, rfl,
    C17Sketch.changeMapping_identity old new s scale fuel hs hm⟩

/-- the source is not modified.  BY CONSTRUCTION in the regenerated code: the receiver is a value, the
    function returns the two target stores and the new sketch, nothing else (the translator would return a
    new receiver in front of the results if the Go code assigned through `s`).  What remains to be said:
    the returned sketch is a `Copy` of the receiver, or carries the new mapping and the receiver's zero count. -/
theorem gen_changeMapping_pure {M S : Type} [MapI M] [StoreI S] [Inhabited M] [Inhabited S] (g : DDSketch M S)
    (newM : M) (scale : F64) (fuel : Nat) (pos neg : S) (r : S × S × DDSketch M S)
    (h : DDSketch.ChangeMapping fuel g newM pos neg scale = .ok r) :
    r.2.2 = DDSketch.Copy g ∨ (r.2.2.IndexMapping = newM ∧ r.2.2.zeroCount = g.zeroCount) := by
  unfold DDSketch.ChangeMapping at h
  split at h
  · cases h; exact Or.inl rfl
  · right
    cases hp : changeStoreMapping fuel g.IndexMapping newM g.positiveValueStore pos scale with
    | ok p =>
      cases hn : changeStoreMapping fuel g.IndexMapping newM g.negativeValueStore neg scale with
      | ok n =>
        rw [hp, hn] at h
        simp only [Res.bind_ok, Res.ok.injEq] at h
        subst h
        exact ⟨rfl, rfl⟩
      | panic => rw [hp, hn] at h; cases h
      | nofuel => rw [hp, hn] at h; cases h
    | panic => rw [hp] at h; cases h
    | nofuel => rw [hp] at h; cases h

/-- … and against the model (`C17Sketch.changeMapping_pure`), empty sparse targets: the returned sketch,
    read back, is the model's `t`, which is the source itself or a sketch on the new mapping with the
    source's zero weight -/
theorem gen_changeMapping_pure_model (old new : MapEnv) (s t : Sketch) (scale : F64) (fuel : Nat)
    (p n : List (Int × Rat)) (hp : s.pos.binsList = some p) (hn : s.neg.binsList = some n)
    (hne : (F64.eq scale F64.one && old.id.equals new.id) = false)
    (hexp : allExit old new scale fuel (p.map (·.1)) = true)
    (hexn : allExit old new scale fuel (n.map (·.1)) = true)
    (hm : changeMapping old new s scale fuel = some t) :
    DDSketch.ChangeMapping fuel (toGen old s) new (Store.sp []) (Store.sp []) scale
        = .ok (t.pos, t.neg, toGen new t) ∧
      (t = s ∨ (t.mapping = some new.id ∧ t.zero = s.zero)) :=
  ⟨ChangeMapping_rel old new s t scale fuel p n hp hn hne hexp hexn hm,
    C17Sketch.changeMapping_pure old new s t scale fuel hm⟩

/-- non-vacuity: the regenerated code run on a concrete source (one bin `[1, 2)·5 = [5, 10)` of weight 8,
    target bins `[2^j, 2^(j+1))`, loop started at `j = 0`): bins 0 and 1 only touch or miss the range
    (`continue`), bin 2 `[4,8)` and bin 3 `[8,16)` receive a weight, the loop exits at `j = 4` (5 units of
    fuel); with 4 units it reports `nofuel` -/
example : (match changeStoreMapping 5 (C17.envPow2 0) (C17.envPow2 0)
    ({ bins := [(0, .fin 8)], calls := [] } : Rec) { bins := [], calls := [] } (.fin 5) with
    | .ok r => r.calls.map (·.1) == [2, 3] && r.calls.all (fun q => F64.lt (.fin 0) q.2)
    | _ => false) = true := by decide +kernel

example : (match changeStoreMapping 4 (C17.envPow2 0) (C17.envPow2 0)
    ({ bins := [(0, .fin 8)], calls := [] } : Rec) { bins := [], calls := [] } (.fin 5) with
    | .nofuel => true
    | _ => false) = true := by decide +kernel

/-- … whereas the model's list is already complete with 4 (it needs one unit per visited bin, the generated
    loop one more for the failing test of the loop condition) and silently truncated with 3 -/
example : (spreadStoreF (C17.envPow2 0) (C17.envPow2 0) (.fin 5) [(0, .fin 8)] 4).map (·.1) = [2, 3] ∧
    (spreadStoreF (C17.envPow2 0) (C17.envPow2 0) (.fin 5) [(0, .fin 8)] 3).map (·.1) = [2] := by
  decide +kernel

end DDS.Props.C17Gen
