/-
  DDS.Props.C16 — reweighting a sketch ≡ having added every input with its weight multiplied.

  On spec sketches, for `0 < w`:  `reweight w (addAll l) = addAll (l.map (v, c) ↦ (v, c * w))`
  as equality of the positive store, the negative store, the zero weight and the mapping.  The two
  contents agree unconditionally (rational arithmetic); the zero bucket is a float, so the
  statement assumes its arithmetic is exact on both sides (`ExactSums`, see C02).
  `Summary.reweight` multiplies count and the three sums, and keeps min / max when `w ≠ 0`.
-/
import DDS.Props.C02

namespace DDS.Props.C16
open DDS DDS.Sketch DDS.Props.C02

/-- every weight multiplied by `w` -/
def scaleInputs (w : Rat) (l : List (Rat × Rat)) : List (Rat × Rat) := l.map (fun p => (p.1, p.2 * w))

section
variable (env : MapEnv) (mn mx : Rat)

theorem posPart_scaleInputs (w : Rat) (l : List (Rat × Rat)) :
    posPart env mn (scaleInputs w l) = Content.scale (posPart env mn l) w := by
  simp [Sketch.posPart, Sketch.keyOf, scaleInputs, Content.scale, List.filter_map, Function.comp_def]

theorem negPart_scaleInputs (w : Rat) (l : List (Rat × Rat)) :
    negPart env mn (scaleInputs w l) = Content.scale (negPart env mn l) w := by
  simp [Sketch.negPart, Sketch.keyOf, scaleInputs, Content.scale, List.filter_map, Function.comp_def]

theorem zeroPart_scaleInputs (w : Rat) (l : List (Rat × Rat)) :
    zeroPart mn (scaleInputs w l) = (zeroPart mn l).map (· * w) := by
  simp [Sketch.zeroPart, scaleInputs, List.filter_map, Function.comp_def]

theorem sum_map_mul (ws : List Rat) (w : Rat) : (ws.map (· * w)).sum = ws.sum * w := by
  induction ws with
  | nil => simp
  | cons a ws ih => simp [ih]; ring

theorem accepted_scaleInputs {w : Rat} (hw : 0 < w) {l : List (Rat × Rat)} (h : Accepted mx l) :
    Accepted mx (scaleInputs w l) := by
  intro p hp
  simp only [scaleInputs, List.mem_map] at hp
  obtain ⟨q, hq, rfl⟩ := hp
  exact ⟨(h q hq).1, mul_nonneg (h q hq).2 hw.le⟩

/-- canonicalisation commutes with scaling -/
theorem canon_scale (m : List (Int × Rat)) (hm : ∀ p ∈ m, 0 ≤ p.2) (w : Rat) (hw : 0 < w) :
    Content.merge [] (Content.scale m w) = Content.scale (Content.merge [] m) w := by
  have hm' : ∀ p ∈ Content.scale m w, 0 ≤ p.2 := by
    intro q hq
    obtain ⟨p, hp, rfl⟩ := Content.mem_scale hq
    exact mul_nonneg (hm p hp) hw.le
  apply Content.ext _ _ (Content.wf_merge_of_nonneg [] _ Content.wf_nil hm')
    (Content.wf_scale _ w (Content.wf_merge_of_nonneg [] _ Content.wf_nil hm) hw)
  intro j
  simp only [Content.lookup_merge, Content.lookup_scale, Content.lookup_nil]
  ring

/-- the closed forms: reweighting the target of `l` gives the target of the scaled inputs -/
theorem reweight_target (l : List (Rat × Rat)) (hacc : Accepted mx l) (w : Rat) (hw : 0 < w)
    (hrep : F64.isRep ((zeroPart mn l).sum * w) = true) :
    (target env mn l).reweight (.fin w) = some (.ok (target env mn (scaleInputs w l))) := by
  by_cases hw1 : w = 1
  · subst hw1
    have : scaleInputs 1 l = l := by simp [scaleInputs]
    rw [this]
    exact reweight_spec_one _ _ _ _
  · unfold target
    rw [reweight_spec _ _ _ _ w hw hw1, posPart_scaleInputs, negPart_scaleInputs,
      zeroPart_scaleInputs, sum_map_mul,
      canon_scale _ (posPart_nonneg env mn l (fun p hp => (hacc p hp).2)) w hw,
      canon_scale _ (negPart_nonneg env mn l (fun p hp => (hacc p hp).2)) w hw,
      F64.mul_exact _ _ hrep]

/-- **Reweight ≡ scaled adds.** -/
theorem reweight_addAll (hmn : env.minIndexable = .fin mn) (hmx : env.maxIndexable = .fin mx)
    (hmn0 : 0 ≤ mn) (l : List (Rat × Rat)) (w : Rat) (hw : 0 < w)
    (hacc : ∀ p ∈ l, rabs p.1 ≤ mx ∧ 0 ≤ p.2)
    (hexact : ExactSums (zeroPart mn l)) (hexact' : ExactSums (zeroPart mn (scaleInputs w l))) :
    ∃ s r s', Sketch.addAll env (Sketch.new (some env.id) .sparse) l = some s ∧
      s.reweight (.fin w) = some (.ok r) ∧
      Sketch.addAll env (Sketch.new (some env.id) .sparse) (scaleInputs w l) = some s' ∧
      r.pos = s'.pos ∧ r.neg = s'.neg ∧ r.zero = s'.zero ∧ r.mapping = s'.mapping := by
  have hrep : F64.isRep ((zeroPart mn l).sum * w) = true := by
    have := hexact'.whole
    rwa [zeroPart_scaleInputs, sum_map_mul] at this
  exact ⟨_, _, _, addAll_new env mn mx hmn hmx hmn0 l hacc hexact,
    reweight_target env mn mx l hacc w hw hrep,
    addAll_new env mn mx hmn hmx hmn0 _ (accepted_scaleInputs mx hw hacc) hexact',
    rfl, rfl, rfl, rfl⟩

/-- the store contents agree without any exactness hypothesis (the weights in the stores are
    rationals): reweighting any spec sketch scales both canonical contents -/
theorem reweight_contents (m : Option MapId) (a b : Content) (z : F64) (w : Rat) (hw : 0 < w) :
    ∃ r, (spec m a b z).reweight (.fin w) = some (.ok r) ∧
      r.pos = .sp (a.scale w) ∧ r.neg = .sp (b.scale w) ∧ r.mapping = m := by
  by_cases hw1 : w = 1
  · subst hw1
    refine ⟨_, reweight_spec_one m a b z, ?_, ?_, rfl⟩ <;> simp [Content.scale]
  · exact ⟨_, reweight_spec m a b z w hw hw1, rfl, rfl, rfl⟩

end

/-! ## the exact summary statistics -/

theorem summary_reweight_count (st : Summary) (f : F64) :
    (st.reweight f).count = F64.mul st.count f := by
  unfold Summary.reweight; split <;> rfl

theorem summary_reweight_sum (st : Summary) (f : F64) :
    (st.reweight f).sum = F64.mul st.sum f ∧
      (st.reweight f).sumCompensation = F64.mul st.sumCompensation f ∧
      (st.reweight f).simpleSum = F64.mul st.simpleSum f := by
  unfold Summary.reweight; split <;> exact ⟨rfl, rfl, rfl⟩

/-- min and max are kept by every factor that does not compare equal to zero -/
theorem summary_reweight_minmax (st : Summary) (f : F64) (hf : F64.eq f (.fin 0) = false) :
    (st.reweight f).min = st.min ∧ (st.reweight f).max = st.max := by
  unfold Summary.reweight; simp [hf]

theorem summary_reweight_minmax_fin (st : Summary) (w : Rat) (hw : w ≠ 0) :
    (st.reweight (.fin w)).min = st.min ∧ (st.reweight (.fin w)).max = st.max :=
  summary_reweight_minmax st _ (by simp [F64.eq, hw])

/-- a zero factor resets min and max to the empty values -/
theorem summary_reweight_zero (st : Summary) :
    (st.reweight (.fin 0)).min = .pinf ∧ (st.reweight (.fin 0)).max = .ninf := by
  unfold Summary.reweight; simp [F64.eq]

/-- the exact-summary sketch reweights its statistics with the same factor -/
theorem xsketch_reweight (x x' : XSketch) (w : F64) (h : x.reweight w = some (.ok x')) :
    x.sk.reweight w = some (.ok x'.sk) ∧ x'.st = x.st.reweight w := by
  unfold XSketch.reweight at h
  split at h
  · simp at h
  · simp at h
  · rename_i sk hsk
    simp only [Option.some.injEq, Except.ok.injEq] at h
    subst h
    exact ⟨hsk, rfl⟩

/-! ## the hypotheses are satisfiable -/

theorem demo_acc' : ∀ p ∈ demoTree.flat, rabs p.1 ≤ 1000 ∧ 0 ≤ p.2 := demo_acc

theorem demo_exact3 : ExactSums (zeroPart (1 / 1000) (scaleInputs 3 demoTree.flat)) := by
  rw [zeroPart_scaleInputs, demo_zero]
  apply exactSums_of_nat
  · intro w hw
    simp at hw
    rcases hw with rfl | rfl
    · exact ⟨3, by norm_num⟩
    · exact ⟨6, by norm_num⟩
  · norm_num

example : ∃ s r s', Sketch.addAll demoEnv (Sketch.new (some demoEnv.id) .sparse) demoTree.flat = some s ∧
    s.reweight (.fin 3) = some (.ok r) ∧
    Sketch.addAll demoEnv (Sketch.new (some demoEnv.id) .sparse) (scaleInputs 3 demoTree.flat) = some s' ∧
    r.pos = s'.pos ∧ r.neg = s'.neg ∧ r.zero = s'.zero ∧ r.mapping = s'.mapping :=
  reweight_addAll demoEnv (1 / 1000) 1000 rfl rfl (by norm_num) _ 3 (by norm_num) demo_acc
    demo_exact demo_exact3

example : ((Summary.new.add (.fin 2) (.fin 1)).reweight (.fin 3)).min = (Summary.new.add (.fin 2) (.fin 1)).min ∧
    ((Summary.new.add (.fin 2) (.fin 1)).reweight (.fin 3)).max = (Summary.new.add (.fin 2) (.fin 1)).max :=
  summary_reweight_minmax_fin _ 3 (by norm_num)

example : ∃ x', (XSketch.new none .sparse).reweight (.fin 3) = some (.ok x') ∧
    x'.st = (XSketch.new none .sparse).st.reweight (.fin 3) := by
  have h := reweight_spec none [] [] (.fin 0) 3 (by norm_num) (by norm_num)
  have h' : (XSketch.new none .sparse).sk.reweight (.fin 3) = _ := h
  refine ⟨_, by simp only [XSketch.reweight, h']; rfl, rfl⟩

example : ∃ r, (spec none [(1, 2)] [(3, 1)] (.fin 5)).reweight (.fin (1 / 2)) = some (.ok r) ∧
    r.pos = .sp (Content.scale [(1, 2)] (1 / 2)) ∧ r.neg = .sp (Content.scale [(3, 1)] (1 / 2)) ∧
    r.mapping = none :=
  reweight_contents none _ _ _ (1 / 2) (by norm_num)

end DDS.Props.C16
