/-
  DDS.Props.C01GenPag — property C01 (quantile accuracy) for the DEFAULT sketch ENTIRELY ON REGENERATED CODE:
  the regenerated `DDSketch` (`DDS/Generated/CodeSketch.lean`, from `/repo/ddsketch/ddsketch.go`) whose two stores
  are the regenerated buffered-paginated store (`DDS/Generated/CodePaginated.lean`, from
  `/repo/ddsketch/store/buffered_paginated.go`), through `instance : StoreI (GPS grow)` of
  `DDS/Proofs/GenPagSketch.lean` (every method runs the regenerated function with a fuel the instance computes).

  * `model_runAdds`: on the model-store instance, a history of `AddWithCount(x, 1)` calls run by the regenerated
    sketch code is the model's `Sketch.addAll` (no error, final receiver `toGen env s`) — `GenSketch2.AddV_rel`
    iterated.
  * `adds_then_quantile_eq_model`: for every growth policy `grow` of the Go runtime, the regenerated sketch over
    the regenerated stores, built by `NewDDSketch env (NewBufferedPaginatedStore) (NewBufferedPaginatedStore)`
    and fed the unit adds `xs`, returns no error on any add, and `GetValueAtQuantile q` returns
    `(v, nil)` where `.ok v` is the model's `Sketch.quantile` on the model sketch built by `Sketch.addAll`.
  * `quantile_accuracy_regenerated`: … hence C01's conclusion (`Lift.quantile_accuracy_any_store` with kind `.pag`,
    itself `C01.quantile_accuracy` transported): the value returned is within relative error `α` of the
    lower or the upper quantile of the inputs.  Hypotheses exactly those of `quantile_accuracy_any_store`
    (mapping contract for the oracle `env`, magnitudes at most the maximum indexable value, int32 indexes,
    `1 ≤ n ≤ 2^53` inputs, `0 ≤ q ≤ 1`).
  The mapping stays the model's oracle `MapEnv` (`instance : MapI MapEnv`), as in `GenSketch2`.
-/
import DDS.Proofs.GenPagSketch
import DDS.Proofs.GenSketch2
import DDS.Props.Lift

namespace DDS.Props.C01GenPag

open DDS DDS.GoSem DDS.Gen.Sketch DDS.Gen.Paginated DDS.GenSketch DDS.GenPagSketch

/-- the history `Add(x)` for `x ∈ xs` as `AddWithCount(x, 1)` calls (`Add` is `AddWithCount(·, 1)`:
    `GenPagSketch.Add_eq_AddWithCount`) -/
def unitAdds (xs : List Rat) : List (F64 × F64) := xs.map (fun x => (F64.fin x, F64.fin 1))

/-- on the model-store instance the regenerated sketch code runs the model's `addAll` -/
theorem model_runAdds (env : MapEnv) (mn : Rat) (hmin : env.minIndexable = .fin mn) (hmn : 0 ≤ mn)
    (xs : List Rat) : ∀ (s0 s : Sketch), Sketch.addAll env s0 (xs.map (fun x => (x, 1))) = some s →
      runAdds (toGen env s0) (unitAdds xs) = (toGen env s, List.replicate xs.length GoErr.nil) := by
  induction xs with
  | nil =>
    intro s0 s h
    simp only [List.map_nil, Sketch.addAll, Option.some.injEq] at h
    subst h; rfl
  | cons x rest ih =>
    intro s0 s h
    simp only [List.map_cons, Sketch.addAll] at h
    have hrel := AddV_rel env s0 mn x 1 hmin hmn
    cases hstep : s0.addV env x 1 with
    | none => rw [hstep] at h; cases h
    | some r =>
      cases r with
      | error e => rw [hstep] at h; cases h
      | ok s1 =>
        rw [hstep] at h hrel
        have h1 : DDSketch.AddWithCount (toGen env s0) (.fin x) (.fin 1) = (toGen env s1, GoErr.nil) := hrel
        have h2 := ih s1 s h
        show ((runAdds (DDSketch.AddWithCount (toGen env s0) (.fin x) (.fin 1)).1 (unitAdds rest)).1,
          (DDSketch.AddWithCount (toGen env s0) (.fin x) (.fin 1)).2 ::
            (runAdds (DDSketch.AddWithCount (toGen env s0) (.fin x) (.fin 1)).1 (unitAdds rest)).2) = _
        rw [h1]
        simp only [h2, List.length_cons, List.replicate_succ]

/-- the int32 hypothesis of `Lift.quantile_accuracy_any_store` gives the routing condition of
    `GenPagSketch.AddWithCount_param` -/
theorem routed32_of (env : MapEnv) (mn : Rat) (hmin : env.minIndexable = .fin mn) (hmn : 0 ≤ mn) (x : Rat)
    (h32 : mn < rabs x → Lift.I32 (env.index (.fin (rabs x)))) : Routed32 env (F64.fin x) := by
  constructor
  · intro h
    simp only [map_min, hmin, F64.lt, decide_eq_true_eq] at h
    have hx : ¬ x < 0 := by grind
    have hr : rabs x = x := by unfold rabs; rw [if_neg hx]
    rw [hr] at h32
    exact h32 h
  · intro h
    simp only [map_min, hmin, F64.neg, F64.lt, decide_eq_true_eq] at h
    have hx : x < 0 := by grind
    have hr : rabs x = -x := by unfold rabs; rw [if_pos hx]
    rw [hr] at h32
    have hlt : mn < -x := by grind
    exact h32 hlt

/-- **the regenerated sketch over the regenerated paginated stores = the model**, for unit adds followed by a
    quantile query: no add is refused, and `GetValueAtQuantile` returns the model's answer with a nil error -/
theorem adds_then_quantile_eq_model (grow : Int → Int → Int)
    (env : MapEnv) (mn : Rat) (hmin : env.minIndexable = .fin mn) (hmn : 0 ≤ mn)
    (xs : List Rat) (hx32 : ∀ x ∈ xs, mn < rabs x → Lift.I32 (env.index (.fin (rabs x))))
    (s : Sketch) (hs : Sketch.addAll env (Sketch.new (some env.id) .pag) (xs.map (fun x => (x, 1))) = some s)
    (q : F64) (v : F64) (hq : Sketch.quantile env s q = .ok v) :
    let g := runAdds (NewDDSketch env (⟨NewBufferedPaginatedStore⟩ : GPS grow) ⟨NewBufferedPaginatedStore⟩)
      (unitAdds xs)
    g.2 = List.replicate xs.length GoErr.nil ∧ DDSketch.GetValueAtQuantile g.1 q = (v, GoErr.nil) := by
  intro g
  have hl : ∀ p ∈ unitAdds xs, Routed32 env p.1 := by
    intro p hp
    simp only [unitAdds, List.mem_map] at hp
    obtain ⟨x, hx, rfl⟩ := hp
    exact routed32_of env mn hmin hmn x (hx32 x hx)
  obtain ⟨he, _, _, hqv, _, _⟩ := history_observers_param (grow := grow) env (unitAdds xs) hl
  have hm := model_runAdds env mn hmin hmn xs (Sketch.new (some env.id) .pag) s hs
  rw [← NewDDSketch_eq env (some env.id) .pag] at hm
  refine ⟨?_, ?_⟩
  · show (runAdds _ (unitAdds xs)).2 = _
    rw [he, hm]
  · show DDSketch.GetValueAtQuantile (runAdds _ (unitAdds xs)).1 q = _
    rw [hqv q, hm]
    exact (GetValueAtQuantile_rel env s q).ok hq

/-- **C01 on regenerated code, sketch and store**: DDSketch accuracy for the default sketch
    (`NewDDSketch(mapping, NewBufferedPaginatedStore(), NewBufferedPaginatedStore())`), for every growth policy
    of the runtime.  Hypotheses: those of `Lift.quantile_accuracy_any_store`. -/
theorem quantile_accuracy_regenerated (grow : Int → Int → Int)
    (env : MapEnv) (α mn mx : Rat) (C : Contract env α mn mx)
    (xs : List Rat) (hx : ∀ x ∈ xs, rabs x ≤ mx)
    (hx32 : ∀ x ∈ xs, mn < rabs x → Lift.I32 (env.index (.fin (rabs x))))
    (hne : xs ≠ []) (hn : xs.length ≤ 2 ^ 53)
    (q : Rat) (hq0 : 0 ≤ q) (hq1 : q ≤ 1) :
    let g := runAdds (NewDDSketch env (⟨NewBufferedPaginatedStore⟩ : GPS grow) ⟨NewBufferedPaginatedStore⟩)
      (unitAdds xs)
    g.2 = List.replicate xs.length GoErr.nil ∧
    ∃ a : Rat, DDSketch.GetValueAtQuantile g.1 (.fin q) = (.fin a, GoErr.nil) ∧
      ∃ k : Nat, k < xs.length ∧
        ((k : Int) = ⌊q * ((xs.length : Rat) - 1)⌋ ∨ (k : Int) = ⌈q * ((xs.length : Rat) - 1)⌉) ∧
        rabs (a - (sortedInputs mn xs)[k]!) ≤ α * rabs ((sortedInputs mn xs)[k]!) := by
  intro g
  obtain ⟨s, hs⟩ := Lift.addAll_ok_any_store .pag trivial env α mn mx C xs hx hx32
  obtain ⟨a, ha, hacc⟩ :=
    Lift.quantile_accuracy_any_store .pag trivial env α mn mx C xs hx hx32 hne hn s hs q hq0 hq1
  obtain ⟨h1, h2⟩ := adds_then_quantile_eq_model grow env mn C.minEq (Rat.le_of_lt C.minPos) xs hx32 s hs
    (.fin q) (.fin a) ha
  exact ⟨h1, a, h2, hacc⟩

end DDS.Props.C01GenPag
