/-
  DDS.Props.C03 — the index mappings (`DDS.Model.Mapping`, transcribing
  `ddsketch/mapping/{logarithmic,linearly_interpolated,cubically_interpolated}_mapping.go`)
  read over the real numbers (`DDS.Proofs.RealInst`) guarantee the relative accuracy they report.

  Every theorem is stated once for an arbitrary `p : Mapping.Params ℝ`, i.e. for ALL THREE kinds
  (`p.kind ∈ {log, linear, cubic}`), arbitrary `p.indexOffset`, and `1 < p.gamma`.
  The cubic constants are the generated `Consts.cubicA/B/C`; nothing about them is assumed.
-/
import DDS.Proofs.MappingReal

namespace DDS.Props.C03

open DDS

variable (p : Mapping.Params ℝ)

/-! ### T1 — the two approximate logarithms are mutually inverse increasing bijections
`(0,∞) ↔ ℝ` (no hypothesis on `gamma` is needed here) -/

theorem approxInvLog_approxLog (v : ℝ) (hv : 0 < v) :
    Mapping.approxInvLog p (Mapping.approxLog p v) = v :=
  RealMap.approxInvLog_approxLog p hv

theorem approxLog_approxInvLog (x : ℝ) :
    Mapping.approxLog p (Mapping.approxInvLog p x) = x :=
  RealMap.approxLog_approxInvLog p x

theorem approxLog_strictMono (v w : ℝ) (hv : 0 < v) (hvw : v < w) :
    Mapping.approxLog p v < Mapping.approxLog p w :=
  RealMap.approxLog_strictMono p hv hvw

theorem approxInvLog_pos (x : ℝ) : 0 < Mapping.approxInvLog p x :=
  RealMap.approxInvLog_pos p x

/-! ### T2 — bin consistency and monotonicity -/

theorem index_mono (hγ : 1 < p.gamma) (v w : ℝ) (hv : 0 < v) (hvw : v ≤ w) :
    Mapping.index p v ≤ Mapping.index p w :=
  RealMap.index_mono p hγ hv hvw

theorem lowerBound_le (hγ : 1 < p.gamma) (v : ℝ) (hv : 0 < v) :
    Mapping.lowerBound p (Mapping.index p v) ≤ v :=
  RealMap.lowerBound_le p hγ hv

theorem le_lowerBound_succ (hγ : 1 < p.gamma) (v : ℝ) (hv : 0 < v) :
    v ≤ Mapping.lowerBound p (Mapping.index p v + 1) :=
  RealMap.le_lowerBound_succ p hγ hv

theorem lowerBound_strictMono (hγ : 1 < p.gamma) (i j : ℤ) (h : i < j) :
    Mapping.lowerBound p i < Mapping.lowerBound p j :=
  RealMap.lowerBound_strictMono p hγ h

/-! ### T3 — accuracy reported = accuracy requested -/

theorem relativeAccuracy_ofAlpha (k : MKind) (a : ℝ) (h0 : 0 < a) (h1 : a < 1) :
    Mapping.relativeAccuracy (Mapping.ofAlpha k a) = a :=
  RealMap.relativeAccuracy_ofAlpha k h0 h1

theorem gamma_ofAlpha_gt_one (k : MKind) (a : ℝ) (h0 : 0 < a) (h1 : a < 1) :
    1 < (Mapping.ofAlpha k a).gamma :=
  RealMap.gamma_ofAlpha_gt_one k h0 h1

theorem relativeAccuracy_pos_lt_one (hγ : 1 < p.gamma) :
    0 < Mapping.relativeAccuracy p ∧ Mapping.relativeAccuracy p < 1 :=
  RealMap.relativeAccuracy_pos_lt_one p hγ

/-! ### T4 — consecutive bin bounds are within the factor `(1+α)/(1−α)` -/

theorem lowerBound_ratio (hγ : 1 < p.gamma) (i : ℤ) :
    Mapping.lowerBound p (i + 1) ≤
      Mapping.lowerBound p i *
        ((1 + Mapping.relativeAccuracy p) / (1 - Mapping.relativeAccuracy p)) :=
  RealMap.lowerBound_ratio p hγ i

/-! ### T5 — THE accuracy guarantee -/

theorem accuracy (hγ : 1 < p.gamma) (v : ℝ) (hv : 0 < v) :
    |Mapping.value p (Mapping.index p v) - v| ≤ Mapping.relativeAccuracy p * v :=
  RealMap.accuracy p hγ hv

/-! ### T6 — indexes fit in 32 bits on the indexable range -/

theorem index_int32 (hγ : 1 < p.gamma) (v : ℝ)
    (hmin : Mapping.minIndexable p ≤ v) (hmax : v ≤ Mapping.maxIndexable p) :
    -2147483648 ≤ Mapping.index p v ∧ Mapping.index p v ≤ 2147483647 :=
  RealMap.index_int32 p hγ hmin hmax

/-! ### the hypotheses are satisfiable -/

/-- `gamma = 2`, any kind, any offset -/
example (k : MKind) (off : ℝ) : 1 < (⟨k, 2, off⟩ : Mapping.Params ℝ).gamma := by norm_num

/-- hence e.g. the accuracy guarantee holds unconditionally for these parameters -/
example (k : MKind) (off : ℝ) (v : ℝ) (hv : 0 < v) :
    |Mapping.value ⟨k, 2, off⟩ (Mapping.index ⟨k, 2, off⟩ v) - v|
      ≤ Mapping.relativeAccuracy ⟨k, 2, off⟩ * v :=
  accuracy ⟨k, 2, off⟩ (by norm_num) v hv

/-- the constructors taking a relative accuracy produce admissible parameters -/
example (k : MKind) : 1 < (Mapping.ofAlpha k (1 / 100 : ℝ)).gamma :=
  gamma_ofAlpha_gt_one k _ (by norm_num) (by norm_num)

/-- the hypotheses of `index_int32` are satisfiable for every kind: with `gamma = 2` and offset
`0`, the value `1` lies in the indexable range -/
example (k : MKind) :
    Mapping.minIndexable (⟨k, 2, 0⟩ : Mapping.Params ℝ) ≤ 1 ∧
      1 ≤ Mapping.maxIndexable (⟨k, 2, 0⟩ : Mapping.Params ℝ) :=
  RealMap.one_indexable k

end DDS.Props.C03
