/-
  DDS.Props.C15 — a cleared sketch is indistinguishable from a new one.

  * sparse store: `clear` IS `new`.
  * dense stores: `clear` resets everything but `offset`; the stale `offset` is never read before it
    is overwritten (`extendRange` on an empty store sets it first), so every operation gives the
    same result on `s.clear` and on `DStore.new s.kind`.
  * paginated store: `clear` keeps the page SLOTS (all empty) — the store observes like a new one.
  * every store kind: `st.clear.Refines []`, exactly as `(Store.new k).Refines []`.
-/
import DDS.Proofs.SpecSketch

namespace DDS.Props.C15
open DDS

/-! ## sparse -/

theorem store_clear_sparse (c : Content) : (Store.sp c).clear = Store.new .sparse := rfl

theorem sketch_clear_spec (m : Option MapId) (a b : Content) (z : F64) :
    (Sketch.spec m a b z).clear = Sketch.spec m [] [] (.fin 0) ∧
      (Sketch.spec m a b z).clear = Sketch.new m .sparse := ⟨rfl, rfl⟩

/-- clearing a new sketch of any store kind changes nothing -/
theorem sketch_clear_new (m : Option MapId) (k : StoreKind) :
    (Sketch.new m k).clear = Sketch.new m k := by
  cases k <;> first | rfl | simp [Sketch.new, Sketch.clear, Store.new, Store.clear, PStore.clear, PStore.new]

/-! ## dense -/

/-- the new store of kind `k` with a (stale) offset `o` -/
def cleared (k : DKind) (o : Int) : DStore := { DStore.new k with offset := o }

theorem dstore_clear_eq (s : DStore) : s.clear = cleared s.kind s.offset := rfl

theorem cleared_zero (k : DKind) : cleared k 0 = DStore.new k := rfl

theorem dstore_clear_observes_like_new (s : DStore) :
    let t := s.clear
    t.count = 0 ∧ t.bins = #[] ∧ t.minIndex = maxInt32 ∧ t.maxIndex = minInt32 ∧
      t.isCollapsed = false ∧ t.kind = s.kind :=
  ⟨rfl, rfl, rfl, rfl, rfl, rfl⟩

theorem idxRange_cleared : DStore.idxRange maxInt32 minInt32 = [] := by decide

/-- **the offset of an empty dense store is dead**: `extendRange` overwrites it before any read -/
theorem extendRange_offset (s : DStore) (hc : s.count = 0) (o' a b : Int) :
    ({ s with offset := o' } : DStore).extendRange a b = s.extendRange a b := by
  unfold DStore.extendRange
  simp only [hc, if_true, DStore.getNewLength, DStore.grow, Option.pure_def, Option.bind_eq_bind]
  cases DStore.denseNewLength (min a s.minIndex) (max b s.maxIndex) with
  | none => rfl
  | some d =>
    simp only [Option.bind_some]
    cases hk : s.kind with
    | plain =>
      simp only [Option.bind_some]
      split <;> rfl
    | low n =>
      simp only [Option.bind_some]
      split <;> rfl
    | high n =>
      simp only [Option.bind_some]
      split <;> rfl

theorem extendRange_cleared (k : DKind) (o a b : Int) :
    (cleared k o).extendRange a b = (DStore.new k).extendRange a b :=
  extendRange_offset (DStore.new k) rfl o a b

@[simp] theorem cleared_kind (k : DKind) (o : Int) : (cleared k o).kind = k := rfl
@[simp] theorem cleared_minIndex (k : DKind) (o : Int) : (cleared k o).minIndex = maxInt32 := rfl
@[simp] theorem cleared_maxIndex (k : DKind) (o : Int) : (cleared k o).maxIndex = minInt32 := rfl
@[simp] theorem cleared_isCollapsed (k : DKind) (o : Int) : (cleared k o).isCollapsed = false := rfl
@[simp] theorem cleared_bins (k : DKind) (o : Int) : (cleared k o).bins = #[] := rfl
@[simp] theorem cleared_count (k : DKind) (o : Int) : (cleared k o).count = 0 := rfl

theorem normalize_cleared (k : DKind) (o i : Int) :
    (cleared k o).normalize i = (DStore.new k).normalize i := by
  have h : i < maxInt32 ∨ i > minInt32 := by unfold maxInt32 minInt32; omega
  rw [← cleared_zero]
  unfold DStore.normalize
  simp only [cleared_kind, cleared_minIndex, cleared_maxIndex, cleared_isCollapsed,
    extendRange_cleared k o, extendRange_cleared k 0]
  cases k <;> simp only [Bool.false_eq_true, if_false] <;> (repeat' split) <;>
    first | rfl | (exfalso; simp only [maxInt32, minInt32] at *; omega)

/-- **`AddWithCount` on a cleared store = on a new store** (for a non-zero weight; a zero weight
    returns the receiver unchanged, stale offset included — see `addWithCount_cleared_zero`) -/
theorem dstore_clear_addWithCount (s : DStore) (i : Int) (w : Rat) (hw : w ≠ 0) :
    s.clear.addWithCount i w = (DStore.new s.kind).addWithCount i w := by
  rw [dstore_clear_eq]
  unfold DStore.addWithCount
  simp only [if_neg hw, normalize_cleared]

theorem addWithCount_cleared_zero (k : DKind) (o i : Int) :
    (cleared k o).addWithCount i 0 = some (cleared k o) := by
  simp [DStore.addWithCount]

/-- merging a list of bins: equal as soon as one weight is non-zero; otherwise nothing happens -/
theorem mergeBins_cleared (k : DKind) (o : Int) (l : List (Int × Rat)) :
    (∃ p ∈ l, p.2 ≠ 0) → (cleared k o).mergeBins l = (DStore.new k).mergeBins l := by
  induction l with
  | nil => rintro ⟨p, hp, _⟩; simp at hp
  | cons q l ih =>
    intro h
    unfold DStore.mergeBins at ih ⊢
    by_cases hq : q.2 = 0
    · have h' : ∃ p ∈ l, p.2 ≠ 0 := by
        obtain ⟨p, hp, hp0⟩ := h
        rcases List.mem_cons.1 hp with rfl | hp
        · exact absurd hq hp0
        · exact ⟨p, hp, hp0⟩
      have e1 : (cleared k o).addWithCount q.1 q.2 = some (cleared k o) := by
        rw [hq]; exact addWithCount_cleared_zero k o q.1
      have e2 : (DStore.new k).addWithCount q.1 q.2 = some (DStore.new k) := by
        rw [hq, ← cleared_zero]; exact addWithCount_cleared_zero k 0 q.1
      simp only [List.foldlM_cons, e1, e2, Option.bind_eq_bind, Option.bind_some]
      exact ih h'
    · have := dstore_clear_addWithCount (cleared k o) q.1 q.2 hq
      rw [dstore_clear_eq] at this
      simp only [List.foldlM_cons]
      rw [show (cleared (cleared k o).kind (cleared k o).offset) = cleared k o from rfl] at this
      rw [this]
      rfl

theorem mergeBins_cleared_zero (k : DKind) (o : Int) (l : List (Int × Rat)) (h : ∀ p ∈ l, p.2 = 0) :
    (cleared k o).mergeBins l = some (cleared k o) := by
  induction l with
  | nil => rfl
  | cons q l ih =>
    unfold DStore.mergeBins at ih ⊢
    have e1 : (cleared k o).addWithCount q.1 q.2 = some (cleared k o) := by
      rw [h q (List.mem_cons_self ..)]; exact addWithCount_cleared_zero k o q.1
    simp only [List.foldlM_cons, e1, Option.bind_eq_bind, Option.bind_some]
    exact ih (fun p hp => h p (List.mem_cons_of_mem _ hp))

/-- the same-kind fast path of `MergeWith`, for a non-empty argument with a non-empty window
    (an empty argument returns the receiver unchanged: `mergeSame_cleared_empty`) -/
theorem mergeSame_cleared (k : DKind) (o : Int) (b : DStore) (he : b.isEmpty = false)
    (hb : b.minIndex ≤ b.maxIndex) :
    (cleared k o).mergeSame b = (DStore.new k).mergeSame b := by
  have h : b.minIndex < maxInt32 ∨ b.maxIndex > minInt32 := by
    unfold maxInt32 minInt32; omega
  have h1 : b.minIndex < (cleared k o).minIndex ∨ b.maxIndex > (cleared k o).maxIndex := h
  have h2 : b.minIndex < (DStore.new k).minIndex ∨ b.maxIndex > (DStore.new k).maxIndex := h
  unfold DStore.mergeSame
  simp only [he, Bool.false_eq_true, if_false, if_pos h1, if_pos h2, extendRange_cleared]

theorem mergeSame_cleared_empty (k : DKind) (o : Int) (b : DStore) (he : b.isEmpty = true) :
    (cleared k o).mergeSame b = some (cleared k o) := by
  unfold DStore.mergeSame
  simp only [he, if_true]

/-- the observers of a cleared store: those of a new one, whatever the stale offset -/
theorem observers_cleared (k : DKind) (o : Int) :
    (cleared k o).isEmpty = true ∧ (cleared k o).totalCount = 0 ∧
      (cleared k o).minIndex? = none ∧ (cleared k o).maxIndex? = none ∧
      (cleared k o).binsList = some [] ∧ (∀ r, (cleared k o).keyAtRank r = minInt32) ∧
      (cleared k o).abs = [] := by
  refine ⟨rfl, rfl, rfl, rfl, ?_, ?_, rfl⟩
  · unfold DStore.binsList
    show (DStore.idxRange maxInt32 minInt32).foldrM _ _ = _
    rw [idxRange_cleared]; rfl
  · intro r; rfl

/-- `Reweight` of a cleared store returns it (the stale offset stays, still unread) -/
theorem reweight_cleared (k : DKind) (o : Int) (w : Rat) :
    (cleared k o).reweight w = some (cleared k o) := by
  unfold DStore.reweight
  simp only [cleared_minIndex, cleared_maxIndex, idxRange_cleared]
  simp [cleared, DStore.new]


/-- every dense store, cleared, refines the empty content — as a new one does -/
theorem cleared_refines (k : DKind) (o : Int) : (Store.d (cleared k o)).Refines [] where
  wf := Content.wf_nil
  total := rfl
  empty := rfl
  min := rfl
  max := rfl
  bins := (observers_cleared k o).2.2.2.2.1
  kar := fun h => absurd rfl h

/-! ## paginated -/

theorem pstore_clear_abs (s : PStore) :
    s.clear.buffer = [] ∧ (∀ pg ∈ s.clear.pages, pg.size = 0) ∧ s.clear.minPageIndex = maxInt := by
  refine ⟨rfl, ?_, rfl⟩
  intro pg hpg
  simp only [PStore.clear, Array.mem_map] at hpg
  obtain ⟨_, _, rfl⟩ := hpg
  rfl

/-- a paginated store without buffered entries whose page slots are all empty -/
structure PEmpty (s : PStore) : Prop where
  buf : s.buffer = []
  pages : ∀ pg ∈ s.pages, pg.size = 0

theorem pempty_clear (s : PStore) : PEmpty s.clear :=
  ⟨(pstore_clear_abs s).1, (pstore_clear_abs s).2.1⟩

theorem pempty_new : PEmpty PStore.new := ⟨rfl, by intro pg h; simp [PStore.new] at h⟩

theorem getD_size_zero (s : PStore) (h : PEmpty s) (k : Nat) : (s.pages.getD k #[]).size = 0 := by
  rw [Array.getD_eq_getD_getElem?]
  by_cases hk : k < s.pages.size
  · rw [Array.getElem?_eq_getElem hk]
    exact h.pages _ (Array.getElem_mem hk)
  · rw [Array.getElem?_eq_none (by omega)]
    rfl

theorem pageLines_pempty (s : PStore) (h : PEmpty s) : s.pageLines = [] := by
  unfold PStore.pageLines
  rw [List.flatMap_eq_nil_iff]
  rintro ⟨pg, off⟩ hmem
  have hm := List.mem_zipIdx hmem
  have hpg : pg ∈ s.pages := by
    rw [hm.2.2]
    exact Array.mem_def.2 (List.getElem_mem _)
  have : pg = #[] := Array.size_eq_zero_iff.1 (h.pages pg hpg)
  subst this
  rfl

theorem abs_pempty (s : PStore) (h : PEmpty s) : s.abs = [] := by
  unfold PStore.abs
  rw [pageLines_pempty s h, h.buf]
  rfl

theorem isEmpty_pempty (s : PStore) (h : PEmpty s) : s.isEmpty = true := by
  unfold PStore.isEmpty
  rw [h.buf]
  simp only [List.isEmpty_nil, Bool.true_and]
  rw [Array.all_eq_true]
  intro i hi
  have : s.pages[i] = #[] := Array.size_eq_zero_iff.1 (h.pages _ (Array.getElem_mem hi))
  rw [this]
  simp

theorem totalCount_pempty (s : PStore) (h : PEmpty s) : s.totalCount = 0 := by
  unfold PStore.totalCount
  rw [h.buf, ← Array.foldl_toList]
  have hl : ∀ pg ∈ s.pages.toList, pg = #[] := fun pg hpg =>
    Array.size_eq_zero_iff.1 (h.pages pg (Array.mem_def.2 hpg))
  generalize s.pages.toList = l at hl
  show List.foldl _ (((0 : Nat) : Int) : Rat) l = 0
  induction l with
  | nil => rfl
  | cons pg l ih =>
    have : pg = #[] := hl pg (List.mem_cons_self ..)
    subst this
    exact ih (fun q hq => hl q (List.mem_cons_of_mem _ hq))

theorem minScan_pempty (s : PStore) (h : PEmpty s) (offs : List Nat) :
    PStore.minIndex?.scan s none offs = none := by
  induction offs with
  | nil => rfl
  | cons off rest ih =>
    unfold PStore.minIndex?.scan
    simp only [getD_size_zero s h off, if_true, ih]
    rfl

theorem maxScan_pempty (s : PStore) (h : PEmpty s) (offs : List Nat) :
    PStore.maxIndex?.scan s none offs = none := by
  induction offs with
  | nil => rfl
  | cons off rest ih =>
    unfold PStore.maxIndex?.scan
    simp only [getD_size_zero s h off, if_true, ih]
    rfl

theorem minIndex?_pempty (s : PStore) (h : PEmpty s) : s.minIndex? = none := by
  unfold PStore.minIndex?
  rw [h.buf]
  exact minScan_pempty s h _

theorem maxIndex?_pempty (s : PStore) (h : PEmpty s) : s.maxIndex? = none := by
  unfold PStore.maxIndex?
  rw [h.buf]
  exact maxScan_pempty s h _

theorem binsList_pempty (s : PStore) (h : PEmpty s) : s.binsList = [] := by
  unfold PStore.binsList
  rw [pageLines_pempty s h, h.buf]
  simp [PStore.sortInts, PStore.runs, PStore.mergeIter]

/-- a paginated store with only empty page slots refines the empty content -/
theorem pempty_refines (s : PStore) (h : PEmpty s) : (Store.pg s).Refines [] where
  wf := Content.wf_nil
  total := totalCount_pempty s h
  empty := isEmpty_pempty s h
  min := minIndex?_pempty s h
  max := maxIndex?_pempty s h
  bins := by show some s.binsList = some []; rw [binsList_pempty s h]
  kar := fun hne => absurd rfl hne

/-! ## every store kind, and the sketch -/

/-- **cleared ≡ new, for every store kind**: both observe exactly like the empty content -/
theorem store_clear_refines_nil (st : Store) : st.clear.Refines [] := by
  cases st with
  | d s => exact cleared_refines s.kind s.offset
  | sp c => exact Store.sp_refines [] Content.wf_nil
  | pg s => exact pempty_refines _ (pempty_clear s)

theorem store_new_refines_nil (k : StoreKind) : (Store.new k).Refines [] := by
  cases k with
  | dense => exact cleared_refines .plain 0
  | sparse => exact Store.sp_refines [] Content.wf_nil
  | pag => exact pempty_refines _ pempty_new
  | low n => exact cleared_refines (.low n) 0
  | high n => exact cleared_refines (.high n) 0

theorem store_clear_kind (st : Store) : st.clear.kind = st.kind := by
  cases st <;> rfl

/-- a cleared sketch observes like a new one: both stores refine the empty content, the zero
    weight is 0, the mapping and the store kinds are kept -/
theorem sketch_clear_refines (s : Sketch) :
    s.clear.Refines [] [] ∧ s.clear.zero = .fin 0 ∧ s.clear.mapping = s.mapping ∧
      s.clear.pos.kind = s.pos.kind ∧ s.clear.neg.kind = s.neg.kind :=
  ⟨⟨store_clear_refines_nil s.pos, store_clear_refines_nil s.neg⟩, rfl, rfl,
    store_clear_kind s.pos, store_clear_kind s.neg⟩

theorem sketch_new_refines (m : Option MapId) (k : StoreKind) :
    (Sketch.new m k).Refines [] [] ∧ (Sketch.new m k).zero = .fin 0 ∧ (Sketch.new m k).mapping = m :=
  ⟨⟨store_new_refines_nil k, store_new_refines_nil k⟩, rfl, rfl⟩

/-- the derived observers of a cleared sketch -/
theorem sketch_clear_observers (env : MapEnv) (s : Sketch) :
    s.clear.isEmpty = true ∧ s.clear.getCount = .fin 0 ∧
      s.clear.forEachList env = some [] ∧ s.clear.getMin env = .error .empty ∧
      s.clear.getMax env = .error .empty := by
  obtain ⟨⟨hp, hn⟩, hz, _⟩ := sketch_clear_refines s
  have hpe : s.clear.pos.isEmpty = true := hp.empty
  have hne : s.clear.neg.isEmpty = true := hn.empty
  refine ⟨?_, ?_, ?_, ?_, ?_⟩
  · simp [Sketch.isEmpty, hz, hpe, hne, F64.eq]
  · simp only [Sketch.getCount, Sketch.posTotal, Sketch.negTotal, hz, hp.total, hn.total]
    have h0 : (0 : Rat) + 0 = 0 := by grind
    have h00 : F64.add (.fin 0) (.fin 0) = .fin 0 := by simp [F64.add, F64.roundF64, h0]
    simp only [Content.total_nil, h00]
  · simp [Sketch.forEachList, hp.bins, hn.bins, hz]
  · simp [Sketch.getMin, hne, hz, F64.gt, F64.lt, hp.min]
  · simp [Sketch.getMax, hpe, hz, F64.gt, F64.lt, hn.min]

/-- the exact-summary sketch: `clear` resets the statistics to those of a new sketch -/
theorem xsketch_clear (x : XSketch) : x.clear.st = Summary.new ∧ x.clear.sk = x.sk.clear := ⟨rfl, rfl⟩

theorem xsketch_clear_spec (m : Option MapId) (a b : Content) (z : F64) (st : Summary) :
    (XSketch.mk (Sketch.spec m a b z) st).clear = XSketch.new m .sparse := rfl

/-! ## instances -/

/-- a dense store that has seen data, cleared, then used again: same as a fresh one -/
example (s : DStore) : s.clear.addWithCount 7 2 = (DStore.new s.kind).addWithCount 7 2 :=
  dstore_clear_addWithCount s 7 2 (by decide)

example : (cleared (.low 4) 12).mergeBins [(3, 0), (5, 2), (1, 1)]
    = (DStore.new (.low 4)).mergeBins [(3, 0), (5, 2), (1, 1)] :=
  mergeBins_cleared _ _ _ ⟨(5, 2), by simp, by decide⟩

example (k : DKind) (o : Int) :
    (cleared k o).mergeSame { DStore.new .plain with bins := #[1, 2], count := 3, minIndex := 0, maxIndex := 1 }
      = (DStore.new k).mergeSame { DStore.new .plain with bins := #[1, 2], count := 3, minIndex := 0, maxIndex := 1 } :=
  mergeSame_cleared k o _ (by decide) (by decide)

example : (cleared (.high 8) (-3)).mergeBins [(3, 0), (5, 0)] = some (cleared (.high 8) (-3)) :=
  mergeBins_cleared_zero _ _ _ (by simp)

example (k : DKind) (o : Int) : (cleared k o).mergeSame (DStore.new .plain) = some (cleared k o) :=
  mergeSame_cleared_empty k o _ rfl

/-- a paginated store that has pages, cleared: the slots stay, empty; it observes like a new one -/
example (s : PStore) : (Store.pg s.clear).Refines [] := pempty_refines _ (pempty_clear s)

end DDS.Props.C15
