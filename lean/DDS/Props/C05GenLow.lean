/-
  DDS.Props.C05GenLow — the main C05 theorems about the lowest-collapsing store, transported to the
  REGENERATED code (`DDS/Generated/CodeDense.lean`, `CollapsingLowestDenseStore.*`, translated from
  `ddsketch/store/collapsing_lowest_dense_store.go` on every run) through the method-by-method
  equalities of `DDS.Proofs.GenCollapsingLow`.

  A history is a list of `LOp` (`add i w` = generated `AddWithCount`, `clear` = generated `Clear`;
  `Reweight` is not re-declared by the collapsing stores and is left out here), run from
  `NewCollapsingLowestDenseStore N` by `genRunLow fuel N`.

  FUEL.  Every reachable state satisfies `InvLow N` (array never longer than `N`), so ONE explicit
  bound works for a whole history, whatever its length:  `2 * N + 2 ≤ fuel`
  (`DDS.GenLow.lowFuel N s = s.bins.size + N + 2`).  For the merge of a store of limit `M` into a store
  of limit `N`:  `2 * N + M + 2 ≤ fuel`.

  With that fuel the generated run returns `.ok (toLow N s)` where `s` is the model's result
  (`genRunLow_eq`), hence never panics, never runs out of fuel, and inherits the model's theorems.
-/
import DDS.Props.C05
import DDS.Proofs.GenCollapsingLow

namespace DDS.Props.C05GenLow

open DDS DDS.GoSem DDS.DStore DDS.GenDense DDS.Props.C05

/-- the operations the lowest-collapsing store declares itself -/
inductive LOp where
  | add (i : Int) (w : Rat)
  | clear

/-- the corresponding model operation -/
def LOp.toOp : LOp → Op
  | .add i w => .add i w
  | .clear => .clear

/-- one operation on the generated store -/
def genApply (fuel : Nat) (g : GLow) : LOp → Res GLow
  | .add i w => Gen.Dense.CollapsingLowestDenseStore.AddWithCount fuel g i w
  | .clear => Gen.Dense.CollapsingLowestDenseStore.Clear fuel g

/-- a history on the generated store -/
def genRun (fuel : Nat) : List LOp → GLow → Res GLow
  | [], g => .ok g
  | op :: ops, g => (genApply fuel g op).bind (genRun fuel ops)

/-- a history run on `NewCollapsingLowestDenseStore N` -/
def genRunLow (fuel : Nat) (N : Nat) (ops : List LOp) : Res GLow :=
  genRun fuel ops (Gen.Dense.NewCollapsingLowestDenseStore (N : Int))

/-- one step: generated = model, fuel `2N + 2` -/
theorem genApply_eq (fuel N : Nat) (s : DStore) (h : InvLow N s) (op : LOp) (hf : 2 * N + 2 ≤ fuel) :
    genApply fuel (toLow (N : Int) s) op = GenDense.toRes (toLow (N : Int)) (applyOp s op.toOp) := by
  cases op with
  | add i w =>
    exact GenLow.addWithCount_rel fuel N s i w h.kind (by have := h.lenLe; unfold GenLow.lowFuel; omega)
  | clear => exact GenLow.clear_rel fuel _ s

/-- a history from any state satisfying the invariant: generated = model, fuel `2N + 2` -/
theorem genRun_from (fuel N : Nat) (hf : 2 * N + 2 ≤ fuel) (ops : List LOp) :
    ∀ (s : DStore), InvLow N s → Tight32 s → (∀ op ∈ ops, op.toOp.ok32) →
      genRun fuel ops (toLow (N : Int) s)
        = GenDense.toRes (toLow (N : Int)) ((ops.map LOp.toOp).foldlM applyOp s) := by
  induction ops with
  | nil => intro s _ _ _; rfl
  | cons op ops ih =>
    intro s h ht hops
    obtain ⟨s1, h1, hi1, ht1⟩ := low_applyOp_ok growthOK N s h ht op.toOp (hops op (by simp))
    simp only [genRun, genApply_eq fuel N s h op hf, List.map_cons, List.foldlM_cons, h1,
      GenDense.toRes_some, Res.bind_ok, Option.bind_eq_bind, Option.bind_some]
    exact ih s1 hi1 ht1 (fun q hq => hops q (by simp [hq]))

/-- the generated run from the generated constructor is the model's run -/
theorem genRunLow_eq (fuel N : Nat) (hN : 1 ≤ N) (hf : 2 * N + 2 ≤ fuel) (ops : List LOp)
    (hops : ∀ op ∈ ops, op.toOp.ok32) :
    genRunLow fuel N ops = GenDense.toRes (toLow (N : Int)) (runLow N (ops.map LOp.toOp)) := by
  unfold genRunLow runLow
  rw [GenLow.new_eq]
  exact genRun_from fuel N hf ops _ (invLow_new N hN) (tight32_new _) hops

theorem ok32_map (ops : List LOp) (hops : ∀ op ∈ ops, op.toOp.ok32) :
    ∀ op ∈ ops.map LOp.toOp, op.ok32 := by
  intro op hop
  obtain ⟨q, hq, rfl⟩ := List.mem_map.1 hop
  exact hops q hq

/-- the generated code never panics and never runs out of fuel (int32 indexes, non-negative
    weights), and the result is the image of a model store satisfying the invariant -/
theorem gen_low_never_panics (fuel N : Nat) (hN : 1 ≤ N) (hf : 2 * N + 2 ≤ fuel) (ops : List LOp)
    (hops : ∀ op ∈ ops, op.toOp.ok32) :
    ∃ s, genRunLow fuel N ops = .ok (toLow (N : Int) s) ∧ InvLow N s := by
  obtain ⟨s, hs, hinv⟩ := low_never_panics N hN _ (ok32_map ops hops)
  exact ⟨s, by rw [genRunLow_eq fuel N hN hf ops hops, hs]; rfl, hinv⟩

/-- the generated store never holds more than `N` array slots, and its window never spans more
    than `N` indexes -/
theorem gen_low_bounded_after_history (fuel N : Nat) (hN : 1 ≤ N) (hf : 2 * N + 2 ≤ fuel)
    (ops : List LOp) (hops : ∀ op ∈ ops, op.toOp.ok32) :
    ∃ g, genRunLow fuel N ops = .ok g ∧ g.DenseStore.bins.length ≤ N ∧ g.maxNumBins = N ∧
      (Gen.Dense.DenseStore.IsEmpty g.DenseStore = false →
        g.DenseStore.maxIndex - g.DenseStore.minIndex + 1 ≤ N) := by
  obtain ⟨s, hs, hinv⟩ := gen_low_never_panics fuel N hN hf ops hops
  refine ⟨_, hs, ?_, rfl, ?_⟩
  · simpa [toLow, toGen] using hinv.lenLe
  · intro he
    have h0 : s.count ≠ 0 := fun h0 => by
      rw [toLow_DenseStore, isEmpty_eq, (isEmpty_iff_count s).2 h0] at he; cases he
    exact hinv.span_le h0

/-- after ANY history the content of the generated store is the exact content with every index
    below `max − N + 1` folded into that edge bin -/
theorem gen_low_content_after_history (fuel N : Nat) (hN : 1 ≤ N) (hf : 2 * N + 2 ≤ fuel)
    (ops : List LOp) (hops : ∀ op ∈ ops, op.toOp.ok32) :
    ∃ g, genRunLow fuel N ops = .ok g ∧
      content (ofLow g) = Content.specLow N (exactContent (ops.map LOp.toOp)) := by
  obtain ⟨s, hs, hinv, _, hc⟩ := low_history growthOK N hN _ (ok32_map ops hops)
  refine ⟨toLow (N : Int) s, ?_, ?_⟩
  · rw [genRunLow_eq fuel N hN hf ops hops]; unfold runLow; rw [hs]; rfl
  · rw [ofLow_toLow N s hinv.kind, hc]

/-- no weight is lost: `TotalCount` of the generated store is the total weight of the history -/
theorem gen_low_weight_conserved (fuel N : Nat) (hN : 1 ≤ N) (hf : 2 * N + 2 ≤ fuel)
    (ops : List LOp) (hops : ∀ op ∈ ops, op.toOp.ok32) :
    ∃ g, genRunLow fuel N ops = .ok g ∧
      Gen.Dense.DenseStore.TotalCount g.DenseStore = (exactContent (ops.map LOp.toOp)).total := by
  obtain ⟨s, hs, hc⟩ := low_weight_conserved N hN _ (ok32_map ops hops)
  refine ⟨toLow (N : Int) s, ?_, hc⟩
  rw [genRunLow_eq fuel N hN hf ops hops, hs]; rfl

/-- EVERY merge of two generated lowest-collapsing stores (any limits `N`, `M`, any histories) is
    safe: the generated `MergeWith` returns the image of the model's merge, which satisfies the
    invariant, keeps at most `N` slots, loses no weight, and holds the clamped merged content -/
theorem gen_low_merge_safe (fuel N M : Nat) (hN : 1 ≤ N) (hM : 1 ≤ M) (hf : 2 * N + M + 2 ≤ fuel)
    (hfM : 2 * M + 2 ≤ fuel)
    (ops₁ ops₂ : List LOp) (h₁ : ∀ op ∈ ops₁, op.toOp.ok32) (h₂ : ∀ op ∈ ops₂, op.toOp.ok32) :
    ∃ g o s', genRunLow fuel N ops₁ = .ok g ∧ genRunLow fuel M ops₂ = .ok o ∧
      Gen.Dense.CollapsingLowestDenseStore.MergeWith fuel g o = .ok (toLow (N : Int) s') ∧
      InvLow N s' ∧ s'.bins.size ≤ N ∧
      s'.totalCount = Gen.Dense.DenseStore.TotalCount g.DenseStore
                        + Gen.Dense.DenseStore.TotalCount o.DenseStore ∧
      content s' = Content.specLow N ((exactContent (ops₁.map LOp.toOp)).merge
        (Content.specLow M (exactContent (ops₂.map LOp.toOp)))) := by
  obtain ⟨s, hs, hinv, ht, _⟩ := low_history growthOK N hN _ (ok32_map ops₁ h₁)
  obtain ⟨o, ho, hinvo, hto, _⟩ := low_history growthOK M hM _ (ok32_map ops₂ h₂)
  obtain ⟨s1, o1, s', a1, a2, a3, a4, a5, a6, a7⟩ :=
    low_merge_safe N M hN hM _ _ (ok32_map ops₁ h₁) (ok32_map ops₂ h₂)
  have e1 : s1 = s := by unfold runLow at a1; rw [hs] at a1; cases a1; rfl
  have e2 : o1 = o := by unfold runLow at a2; rw [ho] at a2; cases a2; rfl
  subst e1 e2
  refine ⟨toLow (N : Int) s1, toLow (M : Int) o1, s', ?_, ?_, ?_, a4, a5, a6, a7⟩
  · rw [genRunLow_eq fuel N hN (by omega) ops₁ h₁]; unfold runLow; rw [hs]; rfl
  · rw [genRunLow_eq fuel M hM hfM ops₂ h₂]; unfold runLow; rw [ho]; rfl
  · rw [GenLow.mergeWith_rel fuel N (M : Int) s1 o1 hinv.kind ?_, a3]; rfl
    unfold GenLow.mergeFuel GenLow.lowFuel
    have hl := hinv.lenLe
    by_cases h0 : o1.count = 0
    · obtain ⟨_, e1, e2, _⟩ := hinvo.empty h0
      rw [e1, e2]; simp only [maxInt32, minInt32]; omega
    · have := hinvo.span_le h0; omega

end DDS.Props.C05GenLow
