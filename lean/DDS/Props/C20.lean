/-
  DDS.Props.C20 — "The in-memory dataset helper computes exact order statistics".

  Statements about the Lean transcription `DDS.Dataset` (`DDS/Model/Dataset.lean`) of
  `dataset/dataset.go`, proved with the lemmas of `DDS.Proofs.Dataset`.

  * `ofList xs` is a fresh dataset after `Add(x)` for every `x` of `xs`, in order.
  * `Inv d`: `Count` is (exactly) the number of values and the private `sorted` flag is honest.
    Every dataset built through the API with at most `2^53` values satisfies it; beyond `2^53`
    additions `Count++` no longer changes `Count` (`count_sticks_at_2_53`).
  * `sortedVals l` is `l.mergeSort (· ≤ ·)`: what `sort.Float64s` leaves in the slice
    (values are finite floats, i.e. rationals; NaN values are outside the model).
  * A query returns the new state too, because `sort()` mutates the receiver.
  * `QRes.panic` models the Go run-time panic (index out of range); `QRes.nan` the documented NaN.
  * `⌊·⌋ / ⌈·⌉` are Mathlib's floor and ceiling on `ℚ` (definitionally core's `Rat.floor`; for the
    ceiling see `DDS.F64.rat_ceil_eq`).

  Statements that needed a correction with respect to the informal claim:
  * `sort_perm` needs the honest-flag hypothesis (`sort_perm_needs_honest_flag`).
  * the quantile theorems need `length ≤ 2^53` even under `Inv` (`inv_alone_does_not_prevent_panic`).
  * `Min()`/`Max()` of an empty dataset panic in Go (`min_max_empty_panic`).
  * `Sum()` depends on the insertion order (`sum_is_order_dependent`); every other answer does not.
  * the lower quantile is the element of rank `⌊fl(q·(n−1))⌋` where `fl` is the FLOAT product, which can
    be the next integer above the exact product: `lower_rank_can_round_up` (q = fl(1/3), n = 4).
-/
import DDS.Proofs.Dataset

namespace DDS.Props.C20

open DDS DDS.Dataset

/-! ### the vocabulary, restated -/

example (xs : List Rat) : ofList xs = xs.foldl Dataset.add Dataset.new := rfl

example (d : Dataset) : Inv d ↔
    (d.count = .fin (d.values.length : Rat) ∧ (d.sorted = true → d.values.Pairwise (· ≤ ·))) := Iff.rfl

example (l : List Rat) : sortedVals l = l.mergeSort (fun a b => decide (a ≤ b)) := rfl

example (a b : Dataset) : ObsEq a b ↔
    (a.values.Perm b.values ∧ a.count = b.count ∧
      (a.sorted = true → a.values.Pairwise (· ≤ ·)) ∧ (b.sorted = true → b.values.Pairwise (· ≤ ·))) :=
  Iff.rfl

/-- the running example -/
def ex : Dataset := ofList [3, -1, 2, 2, 7]

theorem ex_values : ex.values = [3, -1, 2, 2, 7] := ofList_values _
theorem ex_inv : Inv ex := Dataset.inv_ofList _ (by decide)
theorem ex_len : ex.values.length = 5 := by rw [ex_values]; rfl
theorem ex_sorted : sortedVals ex.values = [-1, 2, 2, 3, 7] :=
  sortedVals_eq_of (by decide) (by rw [ex_values]; decide)

/-! ### the invariant -/

theorem inv_ofList (xs : List Rat) (h : xs.length ≤ 2 ^ 53) : Inv (ofList xs) :=
  Dataset.inv_ofList xs h

example : Inv (ofList [3, -1, 2, 2, 7]) := inv_ofList _ (by decide)

/-- every call of the API preserves the invariant (additions: as long as the length stays
    `≤ 2^53`) -/
theorem inv_preserved (d : Dataset) (h : Inv d) :
    (∀ v, d.values.length + 1 ≤ 2 ^ 53 → Inv (d.add v)) ∧
    Inv d.sort ∧
    (∀ q, Inv (d.lowerQuantile q).1) ∧
    (∀ q, Inv (d.upperQuantile q).1) ∧
    Inv d.min.1 ∧
    Inv d.max.1 ∧
    (∀ o : Dataset, d.values.length + o.values.length ≤ 2 ^ 53 → Inv (d.merge o)) := by
  refine ⟨fun v hv => inv_add h v hv, inv_sort h, ?_, ?_, inv_sort h, inv_sort h,
    fun o ho => inv_merge h o ho⟩
  · intro q
    rcases lowerQuantile_fst_cases d q with e | e <;> rw [e]
    · exact h
    · exact inv_sort h
  · intro q
    rcases upperQuantile_fst_cases d q with e | e <;> rw [e]
    · exact h
    · exact inv_sort h

example : Inv (ex.add 4) ∧ Inv (ex.lowerQuantile (.fin (1/2))).1 ∧ Inv (ex.merge ex) := by
  obtain ⟨h1, _, h3, _, _, _, h7⟩ := inv_preserved ex ex_inv
  exact ⟨h1 4 (by rw [ex_len]; decide), h3 _, h7 ex (by rw [ex_len]; decide)⟩

/-- `Count++` stops counting at `2^53` (round to nearest even): `Inv` cannot be maintained by
    longer datasets -/
theorem count_sticks_at_2_53 :
    F64.add (.fin ((2 ^ 53 : Nat) : Rat)) F64.one = .fin ((2 ^ 53 : Nat) : Rat) := by
  decide +kernel

/-! ### sorting -/

/-- `sort()` permutes the values, leaves them ascending, and does not touch `Count` — provided
    the flag is honest (it is private in Go, so always) -/
theorem sort_perm (d : Dataset) (h : d.sorted = true → d.values.Pairwise (· ≤ ·)) :
    d.sort.values.Perm d.values ∧ d.sort.values.Pairwise (· ≤ ·) ∧ d.sort.count = d.count ∧
      d.sort.sorted = true :=
  ⟨sort_values_perm d, sort_values_pairwise d h, sort_count d, sort_sorted d⟩

/-- without any hypothesis: permutation and count -/
theorem sort_perm_unconditional (d : Dataset) :
    d.sort.values.Perm d.values ∧ d.sort.count = d.count ∧ d.sort.sorted = true :=
  ⟨sort_values_perm d, sort_count d, sort_sorted d⟩

/-- with a lying flag `sort()` does nothing: the hypothesis of `sort_perm` is needed -/
theorem sort_perm_needs_honest_flag :
    ∃ d : Dataset, ¬ d.sort.values.Pairwise (· ≤ ·) :=
  ⟨{ values := [2, 1], count := .fin 2, sorted := true }, by decide⟩

example : ex.sort.values.Perm ex.values ∧ ex.sort.values.Pairwise (· ≤ ·) ∧
    ex.sort.count = ex.count ∧ ex.sort.sorted = true :=
  sort_perm ex ex_inv.2

example : ex.sort.values = [-1, 2, 2, 3, 7] := by
  rw [sort_values_of_honest ex_inv.2, ex_sorted]

/-! ### quantiles -/

/-- `LowerQuantile(q)` is the element of rank `k` of the ascending values where `k` is the floor
    or (when the float product rounds up to an integer) the ceiling of `q·(n−1)` -/
theorem lowerQuantile_spec (d : Dataset) (h : Inv d) (hn : 0 < d.values.length)
    (hlen : d.values.length ≤ 2 ^ 53) (q : Rat) (hq0 : 0 ≤ q) (hq1 : q ≤ 1) :
    ∃ k : Nat, k < d.values.length ∧
      (d.lowerQuantile (.fin q)).2 =
        .val ((d.values.mergeSort (fun a b => decide (a ≤ b)))[k]!) ∧
      ((k : Int) = ⌊q * ((d.values.length : Rat) - 1)⌋ ∨
       (k : Int) = ⌈q * ((d.values.length : Rat) - 1)⌉) := by
  obtain ⟨r, hr, h1, h2, b1, b2, b3, hl, hu⟩ := quantile_core d h hn hlen q hq0 hq1
  have hnr : (1 : Rat) ≤ (d.values.length : Rat) := by exact_mod_cast hn
  have ht0 : 0 ≤ q * ((d.values.length : Rat) - 1) := mul_nonneg hq0 (by linarith)
  have htm : q * ((d.values.length : Rat) - 1) ≤ (((d.values.length : Int) - 1 : Int) : Rat) := by
    push_cast
    calc q * ((d.values.length : Rat) - 1) ≤ 1 * ((d.values.length : Rat) - 1) :=
          mul_le_mul_of_nonneg_right hq1 (by linarith)
      _ = _ := one_mul _
  obtain ⟨_, _, _, c4, _⟩ := squeeze_floor_ceil _ r _ ht0 htm h1 h2
  refine ⟨⌊r⌋.toNat, by omega, by rw [hl]; rfl, ?_⟩
  rw [Int.toNat_of_nonneg b1]; exact c4

/-- the exact version: `k = ⌊fl⌋` where `fl = q ⊗ (n − 1)` is the float product, which lies between
    the neighbouring integers of the exact product -/
theorem lowerQuantile_spec_exact (d : Dataset) (h : Inv d) (hn : 0 < d.values.length)
    (hlen : d.values.length ≤ 2 ^ 53) (q : Rat) (hq0 : 0 ≤ q) (hq1 : q ≤ 1) :
    ∃ fl : Rat, F64.mul (.fin q) (.fin ((d.values.length : Rat) - 1)) = .fin fl ∧
      ((⌊q * ((d.values.length : Rat) - 1)⌋ : Int) : Rat) ≤ fl ∧
      fl ≤ ((⌈q * ((d.values.length : Rat) - 1)⌉ : Int) : Rat) ∧
      0 ≤ ⌊fl⌋ ∧ ⌊fl⌋.toNat < d.values.length ∧
      d.lowerQuantile (.fin q) =
        (d.sort, .val ((d.values.mergeSort (fun a b => decide (a ≤ b)))[⌊fl⌋.toNat]!)) := by
  obtain ⟨r, hr, h1, h2, b1, b2, b3, hl, hu⟩ := quantile_core d h hn hlen q hq0 hq1
  rw [rank_eq_mul d _ h.1 hn hlen] at hr
  exact ⟨r, hr, h1, h2, b1, by omega, hl⟩

/-- when the product is representable there is no rounding: `k = ⌊q·(n−1)⌋` -/
theorem lowerQuantile_spec_of_rep (d : Dataset) (h : Inv d) (hn : 0 < d.values.length)
    (hlen : d.values.length ≤ 2 ^ 53) (q : Rat) (hq0 : 0 ≤ q) (hq1 : q ≤ 1)
    (hrep : F64.isRep (q * ((d.values.length : Rat) - 1)) = true) :
    (d.lowerQuantile (.fin q)).2 =
      .val ((d.values.mergeSort (fun a b => decide (a ≤ b)))[⌊q * ((d.values.length : Rat) - 1)⌋.toNat]!) := by
  obtain ⟨fl, hfl, _, _, _, _, hl⟩ := lowerQuantile_spec_exact d h hn hlen q hq0 hq1
  rw [F64.mul_exact _ _ hrep] at hfl
  injection hfl with hfl
  rw [hl, ← hfl]

theorem upperQuantile_spec (d : Dataset) (h : Inv d) (hn : 0 < d.values.length)
    (hlen : d.values.length ≤ 2 ^ 53) (q : Rat) (hq0 : 0 ≤ q) (hq1 : q ≤ 1) :
    ∃ k : Nat, k < d.values.length ∧
      (d.upperQuantile (.fin q)).2 =
        .val ((d.values.mergeSort (fun a b => decide (a ≤ b)))[k]!) ∧
      ((k : Int) = ⌊q * ((d.values.length : Rat) - 1)⌋ ∨
       (k : Int) = ⌈q * ((d.values.length : Rat) - 1)⌉) := by
  obtain ⟨r, hr, h1, h2, b1, b2, b3, hl, hu⟩ := quantile_core d h hn hlen q hq0 hq1
  have hnr : (1 : Rat) ≤ (d.values.length : Rat) := by exact_mod_cast hn
  have ht0 : 0 ≤ q * ((d.values.length : Rat) - 1) := mul_nonneg hq0 (by linarith)
  have htm : q * ((d.values.length : Rat) - 1) ≤ (((d.values.length : Int) - 1 : Int) : Rat) := by
    push_cast
    calc q * ((d.values.length : Rat) - 1) ≤ 1 * ((d.values.length : Rat) - 1) :=
          mul_le_mul_of_nonneg_right hq1 (by linarith)
      _ = _ := one_mul _
  obtain ⟨_, _, _, _, c5⟩ := squeeze_floor_ceil _ r _ ht0 htm h1 h2
  refine ⟨⌈r⌉.toNat, b3, by rw [hu]; rfl, ?_⟩
  rw [Int.toNat_of_nonneg (by omega)]; exact c5

theorem upperQuantile_spec_exact (d : Dataset) (h : Inv d) (hn : 0 < d.values.length)
    (hlen : d.values.length ≤ 2 ^ 53) (q : Rat) (hq0 : 0 ≤ q) (hq1 : q ≤ 1) :
    ∃ fl : Rat, F64.mul (.fin q) (.fin ((d.values.length : Rat) - 1)) = .fin fl ∧
      ((⌊q * ((d.values.length : Rat) - 1)⌋ : Int) : Rat) ≤ fl ∧
      fl ≤ ((⌈q * ((d.values.length : Rat) - 1)⌉ : Int) : Rat) ∧
      0 ≤ ⌈fl⌉ ∧ ⌈fl⌉.toNat < d.values.length ∧
      d.upperQuantile (.fin q) =
        (d.sort, .val ((d.values.mergeSort (fun a b => decide (a ≤ b)))[⌈fl⌉.toNat]!)) := by
  obtain ⟨r, hr, h1, h2, b1, b2, b3, hl, hu⟩ := quantile_core d h hn hlen q hq0 hq1
  rw [rank_eq_mul d _ h.1 hn hlen] at hr
  exact ⟨r, hr, h1, h2, by omega, b3, hu⟩

theorem upperQuantile_spec_of_rep (d : Dataset) (h : Inv d) (hn : 0 < d.values.length)
    (hlen : d.values.length ≤ 2 ^ 53) (q : Rat) (hq0 : 0 ≤ q) (hq1 : q ≤ 1)
    (hrep : F64.isRep (q * ((d.values.length : Rat) - 1)) = true) :
    (d.upperQuantile (.fin q)).2 =
      .val ((d.values.mergeSort (fun a b => decide (a ≤ b)))[⌈q * ((d.values.length : Rat) - 1)⌉.toNat]!) := by
  obtain ⟨fl, hfl, _, _, _, _, hl⟩ := upperQuantile_spec_exact d h hn hlen q hq0 hq1
  rw [F64.mul_exact _ _ hrep] at hfl
  injection hfl with hfl
  rw [hl, ← hfl]

/-- the lower quantile is at most the upper quantile -/
theorem lower_le_upper (d : Dataset) (h : Inv d) (hn : 0 < d.values.length)
    (hlen : d.values.length ≤ 2 ^ 53) (q : Rat) (hq0 : 0 ≤ q) (hq1 : q ≤ 1) :
    ∃ a b : Rat, (d.lowerQuantile (.fin q)).2 = .val a ∧ (d.upperQuantile (.fin q)).2 = .val b ∧
      a ≤ b := by
  obtain ⟨r, hr, h1, h2, b1, b2, b3, hl, hu⟩ := quantile_core d h hn hlen q hq0 hq1
  refine ⟨_, _, by rw [hl], by rw [hu], ?_⟩
  have hlen' := sortedVals_length d.values
  have hj : ⌈r⌉.toNat < (sortedVals d.values).length := by omega
  have hi : ⌊r⌋.toNat ≤ ⌈r⌉.toNat := by omega
  rw [getElem!_pos (sortedVals d.values) ⌈r⌉.toNat hj,
    getElem!_pos (sortedVals d.values) ⌊r⌋.toNat (by omega)]
  exact pairwise_getElem_le (sortedVals_pairwise _) hi hj

/-- no quantile query panics, whatever `q` is (NaN, ±∞, out of range, …) -/
theorem quantile_never_panics (d : Dataset) (h : Inv d) (hlen : d.values.length ≤ 2 ^ 53)
    (q : F64) : (d.lowerQuantile q).2 ≠ .panic ∧ (d.upperQuantile q).2 ≠ .panic := by
  cases hrej : d.rejects q with
  | true =>
    rw [lowerQuantile_rejected d q hrej, upperQuantile_rejected d q hrej]
    exact ⟨by simp, by simp⟩
  | false =>
    cases q with
    | fin r =>
      obtain ⟨hq0, hq1, hn⟩ := (rejects_fin d _ h.1 r).mp hrej
      obtain ⟨_, _, _, _, _, _, _, hl, hu⟩ := quantile_core d h hn hlen r hq0 hq1
      rw [hl, hu]
      exact ⟨by simp, by simp⟩
    | pinf => rw [rejects_nonfin d .pinf (by intro r hc; cases hc)] at hrej; cases hrej
    | ninf => rw [rejects_nonfin d .ninf (by intro r hc; cases hc)] at hrej; cases hrej
    | nan => rw [rejects_nonfin d .nan (by intro r hc; cases hc)] at hrej; cases hrej

/-- a rank equal to the length indexes one past the end -/
theorem panic_of_rank_eq_length (l : List Rat) (c : F64) (N : Nat) (hl : l.length = N)
    (hrej : Dataset.rejects (Dataset.mk l c true) (.fin 1) = false)
    (hr : Dataset.rank (Dataset.mk l c true) (.fin 1) = .fin (N : Rat)) :
    (Dataset.lowerQuantile (Dataset.mk l c true) (.fin 1)).2 = .panic := by
  rw [lowerQuantile_of_rank _ _ _ hrej hr, sort_of_sorted rfl]
  have : at? l ((N : Rat)).floor = none := by
    unfold at?
    rw [F64.floor_natCast, if_pos (by omega), Int.toNat_natCast, List.getElem?_eq_none (by omega)]
  simp only [this]

/-- `Inv` alone (without the length bound) does not exclude the panic: with `2^53 + 4` values the
    float `Count − 1` rounds up to `Count` and `q = 1` indexes one past the end -/
theorem inv_alone_does_not_prevent_panic :
    ∃ d : Dataset, Inv d ∧ (d.lowerQuantile (.fin 1)).2 = .panic := by
  refine ⟨Dataset.mk (List.replicate (2 ^ 53 + 4) 0) (.fin ((2 ^ 53 + 4 : Nat) : Rat)) true, ⟨?_, ?_⟩, ?_⟩
  · show F64.fin _ = F64.fin _
    rw [List.length_replicate]
  · intro _
    show List.Pairwise _ (List.replicate _ _)
    rw [List.pairwise_replicate]; right; exact le_refl _
  · apply panic_of_rank_eq_length _ _ (2 ^ 53 + 4) List.length_replicate
    · unfold Dataset.rejects; decide +kernel
    · unfold Dataset.rank; decide +kernel

/-- the guard: NaN, negative, above one, or an empty dataset: the answer is NaN and the dataset
    is not touched (not even sorted) -/
theorem quantile_rejects (d : Dataset) (q : F64)
    (h : q.isNaN = true ∨ F64.lt q (.fin 0) = true ∨ F64.gt q (.fin 1) = true ∨
      F64.eq d.count (.fin 0) = true) :
    d.lowerQuantile q = (d, .nan) ∧ d.upperQuantile q = (d, .nan) := by
  have hrej : d.rejects q = true := by
    unfold rejects
    rcases h with h | h | h | h <;> simp [h]
  exact ⟨lowerQuantile_rejected d q hrej, upperQuantile_rejected d q hrej⟩

/-- the empty dataset (under `Inv`) rejects every `q` -/
theorem quantile_rejects_empty (d : Dataset) (h : Inv d) (he : d.values = []) (q : F64) :
    d.lowerQuantile q = (d, .nan) ∧ d.upperQuantile q = (d, .nan) := by
  apply quantile_rejects
  right; right; right
  rw [h.1, he]; rfl

/-- conversely a finite `q ∈ [0,1]` on a non-empty dataset is never rejected -/
theorem quantile_accepts (d : Dataset) (h : Inv d) (hn : 0 < d.values.length) (q : Rat)
    (hq0 : 0 ≤ q) (hq1 : q ≤ 1) : d.rejects (.fin q) = false :=
  (rejects_fin d _ h.1 q).mpr ⟨hq0, hq1, hn⟩

/-! #### on the example -/

example : ∃ k : Nat, k < ex.values.length ∧
    (ex.lowerQuantile (.fin (1/2))).2 =
      .val ((ex.values.mergeSort (fun a b => decide (a ≤ b)))[k]!) ∧
    ((k : Int) = ⌊(1/2 : Rat) * ((ex.values.length : Rat) - 1)⌋ ∨
     (k : Int) = ⌈(1/2 : Rat) * ((ex.values.length : Rat) - 1)⌉) :=
  lowerQuantile_spec ex ex_inv (by rw [ex_len]; decide) (by rw [ex_len]; decide) _
    (by norm_num) (by norm_num)

example : ∃ k : Nat, k < ex.values.length ∧
    (ex.upperQuantile (.fin (3/10))).2 =
      .val ((ex.values.mergeSort (fun a b => decide (a ≤ b)))[k]!) ∧
    ((k : Int) = ⌊(3/10 : Rat) * ((ex.values.length : Rat) - 1)⌋ ∨
     (k : Int) = ⌈(3/10 : Rat) * ((ex.values.length : Rat) - 1)⌉) :=
  upperQuantile_spec ex ex_inv (by rw [ex_len]; decide) (by rw [ex_len]; decide) _
    (by norm_num) (by norm_num)

example : ∃ a b : Rat, (ex.lowerQuantile (.fin (3/10))).2 = .val a ∧
    (ex.upperQuantile (.fin (3/10))).2 = .val b ∧ a ≤ b :=
  lower_le_upper ex ex_inv (by rw [ex_len]; decide) (by rw [ex_len]; decide) _
    (by norm_num) (by norm_num)

example (q : F64) : (ex.lowerQuantile q).2 ≠ .panic ∧ (ex.upperQuantile q).2 ≠ .panic :=
  quantile_never_panics ex ex_inv (by rw [ex_len]; decide) q

example : ex.lowerQuantile .nan = (ex, .nan) ∧ ex.upperQuantile .nan = (ex, .nan) :=
  quantile_rejects ex .nan (Or.inl rfl)

example : ex.lowerQuantile (.fin (-1/10)) = (ex, .nan) :=
  (quantile_rejects ex _ (Or.inr (Or.inl (by decide +kernel)))).1

example : ex.upperQuantile .pinf = (ex, .nan) :=
  (quantile_rejects ex _ (Or.inr (Or.inr (Or.inl (by decide +kernel))))).2

/-- concrete values: ranks 0.5·4 = 2 and 0.3·4 = 1.2 (float 1.2000000000000002) -/
example : (ex.lowerQuantile (.fin (1/2))).2 = .val 2 :=
  lowerQuantile_eval ex ex_inv.2 [-1, 2, 2, 3, 7] (by decide) (by rw [ex_values]; decide) _ 2 2
    (by decide +kernel) (by decide +kernel) (by decide +kernel)

example : (ex.upperQuantile (.fin 1)).2 = .val 7 :=
  upperQuantile_eval ex ex_inv.2 [-1, 2, 2, 3, 7] (by decide) (by rw [ex_values]; decide) _ 4 7
    (by decide +kernel) (by decide +kernel) (by decide +kernel)

example : (ex.lowerQuantile (.fin 0)).2 = .val (-1) :=
  lowerQuantile_eval ex ex_inv.2 [-1, 2, 2, 3, 7] (by decide) (by rw [ex_values]; decide) _ 0 (-1)
    (by decide +kernel) (by decide +kernel) (by decide +kernel)

/-- The disjunct "or the ceiling" of `lowerQuantile_spec` is needed: for `q = fl(1/3)` (the double
    nearest to 1/3, slightly below it) and four values, the exact product `3q = 1 − 2⁻⁵⁴` has floor 0
    but the float product is exactly 1, so `LowerQuantile` returns the SECOND smallest value. -/
theorem lower_rank_can_round_up :
    let q : Rat := 6004799503160661 / 18014398509481984
    let d := ofList [3, -1, 2, 7]
    F64.isRep q = true ∧ ⌊q * ((d.values.length : Rat) - 1)⌋ = 0 ∧
      d.rank (.fin q) = .fin 1 ∧ (d.lowerQuantile (.fin q)).2 = .val 2 := by
  intro q d
  have hv : d.values = [3, -1, 2, 7] := ofList_values _
  have hinv : Inv d := Dataset.inv_ofList _ (by decide)
  refine ⟨by decide +kernel, ?_, by decide +kernel, ?_⟩
  · rw [hv]; simp only [q]; norm_num [Int.floor_eq_iff]
  · exact lowerQuantile_eval d hinv.2 [-1, 2, 3, 7] (by decide) (by rw [hv]; decide) _ 1 2
      (by decide +kernel) (by decide +kernel) (by decide +kernel)

/-! ### minimum, maximum, count -/

theorem min_spec (d : Dataset) (h : Inv d) (hn : 0 < d.values.length) :
    ∃ m, d.min.2 = .val m ∧ m ∈ d.values ∧ ∀ x ∈ d.values, m ≤ x := by
  obtain ⟨m, h1, h2, h3⟩ := min_core d h.2 hn
  exact ⟨m, by rw [h1], h2, h3⟩

theorem max_spec (d : Dataset) (h : Inv d) (hn : 0 < d.values.length) :
    ∃ m, d.max.2 = .val m ∧ m ∈ d.values ∧ ∀ x ∈ d.values, x ≤ m := by
  obtain ⟨m, h1, h2, h3⟩ := max_core d h.2 hn
  exact ⟨m, by rw [h1], h2, h3⟩

/-- `Min()` / `Max()` of an empty dataset: index out of range in Go -/
theorem min_max_empty_panic (d : Dataset) (he : d.values = []) :
    d.min.2 = .panic ∧ d.max.2 = .panic := ⟨min_empty d he, max_empty d he⟩

example : ∃ m, ex.min.2 = .val m ∧ m ∈ ex.values ∧ ∀ x ∈ ex.values, m ≤ x :=
  min_spec ex ex_inv (by rw [ex_len]; decide)

example : ∃ m, ex.max.2 = .val m ∧ m ∈ ex.values ∧ ∀ x ∈ ex.values, x ≤ m :=
  max_spec ex ex_inv (by rw [ex_len]; decide)

example : ex.min.2 = .val (-1) ∧ ex.max.2 = .val 7 := by
  rw [min_eq, max_eq, sort_values_of_honest ex_inv.2, ex_sorted]; exact ⟨rfl, rfl⟩

theorem count_spec (xs : List Rat) (h : xs.length ≤ 2 ^ 53) :
    (ofList xs).count = .fin (xs.length : Rat) ∧ (ofList xs).values = xs := by
  refine ⟨?_, ofList_values xs⟩
  have := (Dataset.inv_ofList xs h).1
  rwa [ofList_values] at this

example : ex.count = .fin 5 ∧ ex.values = [3, -1, 2, 2, 7] := by
  have := count_spec [3, -1, 2, 2, 7] (by decide)
  simpa [ex] using this

/-! ### merging -/

theorem merge_eq_adds (d o : Dataset) :
    d.merge o = o.values.foldl Dataset.add d ∧
    (d.merge o).values = d.values ++ o.values ∧
    (d.merge d).values = d.values ++ d.values ∧
    (Inv d → 2 * d.values.length ≤ 2 ^ 53 →
      (d.merge d).count = .fin ((2 * d.values.length : Nat) : Rat)) := by
  refine ⟨rfl, merge_values d o, merge_values d d, ?_⟩
  intro h hlen
  have := (inv_merge h d (by omega)).1
  rw [this, merge_values, List.length_append]
  congr 2; omega

example : (ex.merge ex).values = [3, -1, 2, 2, 7, 3, -1, 2, 2, 7] ∧ (ex.merge ex).count = .fin 10 := by
  obtain ⟨_, _, h3, h4⟩ := merge_eq_adds ex ex
  refine ⟨by rw [h3, ex_values]; rfl, ?_⟩
  rw [h4 ex_inv (by rw [ex_len]; decide), ex_len]; norm_num

/-! ### order independence -/

/-- the answers depend on the multiset of added values only (any length: no `2^53` bound) -/
theorem order_independent (xs ys : List Rat) (h : xs.Perm ys) (q : F64) :
    ((ofList xs).lowerQuantile q).2 = ((ofList ys).lowerQuantile q).2 ∧
    ((ofList xs).upperQuantile q).2 = ((ofList ys).upperQuantile q).2 ∧
    (ofList xs).min.2 = (ofList ys).min.2 ∧
    (ofList xs).max.2 = (ofList ys).max.2 ∧
    (ofList xs).count = (ofList ys).count := by
  have ho := obsEq_ofList h
  exact ⟨(ho.lower q).1, (ho.upper q).1, ho.min.1, ho.max.1, ho.2.1⟩

/-- … and so do the answers to every later sequence of calls -/
theorem order_independent_run (xs ys : List Rat) (h : xs.Perm ys) (ops : List Op) :
    (run (ofList xs) ops).2 = (run (ofList ys) ops).2 :=
  ((obsEq_ofList h).run ops).1

/-- the reason: the ascending arrangement of a permutation is the same list -/
theorem mergeSort_perm_eq (xs ys : List Rat) (h : xs.Perm ys) :
    xs.mergeSort (fun a b => decide (a ≤ b)) = ys.mergeSort (fun a b => decide (a ≤ b)) :=
  sortedVals_congr h

example (q : F64) :
    (ex.lowerQuantile q).2 = ((ofList [7, 2, 3, 2, -1]).lowerQuantile q).2 :=
  (order_independent [3, -1, 2, 2, 7] [7, 2, 3, 2, -1] (by decide) q).1

/-- `Sum()` is NOT covered by `order_independent`: it is a (Kahan-compensated) float fold in insertion
    order, and the compensation does not always recover a lost unit -/
theorem sum_is_order_dependent :
    (ofList [2 ^ 54, 1, -2 ^ 54]).sum = .fin 0 ∧ (ofList [2 ^ 54, -2 ^ 54, 1]).sum = .fin 1 ∧
      List.Perm [(2 : Rat) ^ 54, 1, -2 ^ 54] [2 ^ 54, -2 ^ 54, 1] := by
  refine ⟨?_, ?_, by decide +kernel⟩
  · unfold Dataset.sum; rw [ofList_values]; decide +kernel
  · unfold Dataset.sum; rw [ofList_values]; decide +kernel

/-! ### queries are invisible -/

/-- a query leaves an observationally equal dataset behind -/
theorem query_invisible (d : Dataset) (h : Inv d) (q : F64) :
    ObsEq (d.lowerQuantile q).1 d ∧ ObsEq (d.upperQuantile q).1 d ∧ ObsEq d.min.1 d ∧
      ObsEq d.max.1 d := by
  refine ⟨?_, ?_, ObsEq.sort_left h.2, ObsEq.sort_left h.2⟩
  · rcases lowerQuantile_fst_cases d q with e | e <;> rw [e]
    · exact ObsEq.refl' h.2
    · exact ObsEq.sort_left h.2
  · rcases upperQuantile_fst_cases d q with e | e <;> rw [e]
    · exact ObsEq.refl' h.2
    · exact ObsEq.sort_left h.2

/-- observationally equal datasets answer every sequence of later calls (`Op`: add, lower, upper,
    min, max, merge) identically -/
theorem obsEq_same_answers (a b : Dataset) (h : ObsEq a b) (ops : List Op) :
    (run a ops).2 = (run b ops).2 := (h.run ops).1

/-- querying before an addition changes nothing that can be observed later (no hypothesis on `d`
    is needed: `Add` resets the flag) -/
theorem query_then_add (d : Dataset) (q : F64) (v : Rat) :
    ((d.lowerQuantile q).1.add v).values.Perm (d.add v).values ∧
    ((d.lowerQuantile q).1.add v).count = (d.add v).count ∧
    (∀ ops : List Op, (run ((d.lowerQuantile q).1.add v) ops).2 = (run (d.add v) ops).2) ∧
    (∀ q', (((d.lowerQuantile q).1.add v).lowerQuantile q').2 = ((d.add v).lowerQuantile q').2 ∧
           (((d.lowerQuantile q).1.add v).upperQuantile q').2 = ((d.add v).upperQuantile q').2) ∧
    ((d.lowerQuantile q).1.add v).min.2 = (d.add v).min.2 ∧
    ((d.lowerQuantile q).1.add v).max.2 = (d.add v).max.2 := by
  have ho : ObsEq ((d.lowerQuantile q).1.add v) (d.add v) := by
    refine ⟨?_, ?_, ?_, ?_⟩
    · show ((d.lowerQuantile q).1.values ++ [v]).Perm (d.values ++ [v])
      apply List.Perm.append_right
      rcases lowerQuantile_fst_cases d q with e | e <;> rw [e]
      exact sort_values_perm d
    · show F64.add (d.lowerQuantile q).1.count F64.one = F64.add d.count F64.one
      rcases lowerQuantile_fst_cases d q with e | e <;> rw [e]
      rw [sort_count]
    · intro hs; cases hs
    · intro hs; cases hs
  exact ⟨ho.1, ho.2.1, fun ops => (ho.run ops).1, fun q' => ⟨(ho.lower q').1, (ho.upper q').1⟩,
    ho.min.1, ho.max.1⟩

/-- the same for the other queries -/
theorem query_then_add' (d : Dataset) (q : F64) (v : Rat) (ops : List Op) :
    (run ((d.upperQuantile q).1.add v) ops).2 = (run (d.add v) ops).2 ∧
    (run (d.min.1.add v) ops).2 = (run (d.add v) ops).2 ∧
    (run (d.max.1.add v) ops).2 = (run (d.add v) ops).2 := by
  have key : ∀ d' : Dataset, (d' = d ∨ d' = d.sort) → ObsEq (d'.add v) (d.add v) := by
    intro d' hd'
    refine ⟨?_, ?_, ?_, ?_⟩
    · show (d'.values ++ [v]).Perm (d.values ++ [v])
      apply List.Perm.append_right
      rcases hd' with e | e <;> rw [e]
      exact sort_values_perm d
    · show F64.add d'.count F64.one = F64.add d.count F64.one
      rcases hd' with e | e <;> rw [e]
      rw [sort_count]
    · intro hs; cases hs
    · intro hs; cases hs
  exact ⟨((key _ (upperQuantile_fst_cases d q)).run ops).1, ((key _ (Or.inr rfl)).run ops).1,
    ((key _ (Or.inr rfl)).run ops).1⟩

example (q' : F64) :
    (((ex.lowerQuantile (.fin (1/2))).1.add 4).lowerQuantile q').2 = ((ex.add 4).lowerQuantile q').2 :=
  ((query_then_add ex _ 4).2.2.2.1 q').1

end DDS.Props.C20
