/-
  DDS.Props.C01GenSparse — property C01 (quantile accuracy) for the sketch ENTIRELY ON REGENERATED CODE over the
  SPARSE store: the regenerated `DDSketch` (`DDS/Generated/CodeSketch.lean`, from `/repo/ddsketch/ddsketch.go`)
  whose two stores are the regenerated `SparseStore` (`DDS/Generated/CodeSparse.lean`, from
  `/repo/ddsketch/store/sparse.go`), through `instance : StoreI (GSS ord)` of `DDS/Proofs/GenSparseSketch.lean`,
  FOR EVERY LAWFUL ITERATION ORDER `ord` of Go's `range` over the map (`GoSem.MapOrder.Lawful`: the oracle returns
  a permutation of the keys) — the answers do not depend on the order the runtime picks.

  * `sparse_adds_then_quantile_eq_model`: the regenerated sketch built by
    `NewDDSketch env (NewSparseStore) (NewSparseStore)` and fed the unit adds `xs` returns no error on any add, and
    `GetValueAtQuantile q` returns `(v, nil)` where `.ok v` is the model's `Sketch.quantile` on the model sketch
    built by `Sketch.addAll` (chain: `GenSparseSketch.sparse_history_observers`, `C01GenPag.model_runAdds`,
    `GenSketch2.GetValueAtQuantile_rel`).
  * `sparse_quantile_accuracy_regenerated`: … hence C01's conclusion (`Lift.quantile_accuracy_any_store` with kind
    `.sparse`): the value returned is within relative error `α` of the lower or the upper quantile of the inputs.
    Hypotheses exactly those of `quantile_accuracy_any_store` (mapping contract for the oracle `env`, magnitudes at
    most the maximum indexable value, int32 indexes — the simulation itself only needs `int64` —, `1 ≤ n ≤ 2^53`
    inputs, `0 ≤ q ≤ 1`) plus `ord.Lawful`.
  * `sparse_quantile_order_irrelevant`: two lawful orders give the same errors and the same answer to every
    quantile query, after any history with `int64` routed indexes (any mapping implementation).
  The mapping stays the model's oracle `MapEnv` (`instance : MapI MapEnv`), as in `C01GenPag`.
-/
import DDS.Proofs.GenSparseSketch
import DDS.Props.C01GenPag

namespace DDS.Props.C01GenSparse

open DDS DDS.GoSem DDS.Gen.Sketch DDS.Gen.Sparse DDS.GenSketch DDS.GenStoreSim DDS.GenSparseSketch
open DDS.GenPagSketch (runAdds)
open DDS.Props.C01GenPag (unitAdds model_runAdds routed32_of)

/-- unit adds then a quantile query: no add is refused, `GetValueAtQuantile` returns the model's answer -/
theorem sparse_adds_then_quantile_eq_model (ord : MapOrder) (hl : ord.Lawful)
    (env : MapEnv) (mn : Rat) (hmin : env.minIndexable = .fin mn) (hmn : 0 ≤ mn)
    (xs : List Rat) (hx32 : ∀ x ∈ xs, mn < rabs x → Lift.I32 (env.index (.fin (rabs x))))
    (s : Sketch) (hs : Sketch.addAll env (Sketch.new (some env.id) .sparse) (xs.map (fun x => (x, 1))) = some s)
    (q : F64) (v : F64) (hq : Sketch.quantile env s q = .ok v) :
    let g := runAdds (NewDDSketch env (⟨NewSparseStore⟩ : GSS ord) ⟨NewSparseStore⟩) (unitAdds xs)
    g.2 = List.replicate xs.length GoErr.nil ∧ DDSketch.GetValueAtQuantile g.1 q = (v, GoErr.nil) := by
  intro g
  have hr : ∀ p ∈ unitAdds xs, RoutedG (sparseStoreSim ord hl) env p.1 := by
    intro p hp
    simp only [unitAdds, List.mem_map] at hp
    obtain ⟨x, hx, rfl⟩ := hp
    exact sparse_routed_of_32 hl env _ (routed32_of env mn hmin hmn x (hx32 x hx))
  obtain ⟨he, _, _, hqv, _, _⟩ := sparse_history_observers ord hl env (unitAdds xs) hr
  have hm := model_runAdds env mn hmin hmn xs (Sketch.new (some env.id) .sparse) s hs
  rw [← GenSketch.NewDDSketch_eq env (some env.id) .sparse] at hm
  refine ⟨?_, ?_⟩
  · show (runAdds _ (unitAdds xs)).2 = _
    rw [he, hm]
  · show DDSketch.GetValueAtQuantile (runAdds _ (unitAdds xs)).1 q = _
    rw [hqv q, hm]
    exact (GetValueAtQuantile_rel env s q).ok hq

/-- **C01 on regenerated code, sketch and sparse store, for every lawful iteration order of the map** -/
theorem sparse_quantile_accuracy_regenerated (ord : MapOrder) (hl : ord.Lawful)
    (env : MapEnv) (α mn mx : Rat) (C : Contract env α mn mx)
    (xs : List Rat) (hx : ∀ x ∈ xs, rabs x ≤ mx)
    (hx32 : ∀ x ∈ xs, mn < rabs x → Lift.I32 (env.index (.fin (rabs x))))
    (hne : xs ≠ []) (hn : xs.length ≤ 2 ^ 53)
    (q : Rat) (hq0 : 0 ≤ q) (hq1 : q ≤ 1) :
    let g := runAdds (NewDDSketch env (⟨NewSparseStore⟩ : GSS ord) ⟨NewSparseStore⟩) (unitAdds xs)
    g.2 = List.replicate xs.length GoErr.nil ∧
    ∃ a : Rat, DDSketch.GetValueAtQuantile g.1 (.fin q) = (.fin a, GoErr.nil) ∧
      ∃ k : Nat, k < xs.length ∧
        ((k : Int) = ⌊q * ((xs.length : Rat) - 1)⌋ ∨ (k : Int) = ⌈q * ((xs.length : Rat) - 1)⌉) ∧
        rabs (a - (sortedInputs mn xs)[k]!) ≤ α * rabs ((sortedInputs mn xs)[k]!) := by
  intro g
  obtain ⟨s, hs⟩ := Lift.addAll_ok_any_store .sparse trivial env α mn mx C xs hx hx32
  obtain ⟨a, ha, hacc⟩ :=
    Lift.quantile_accuracy_any_store .sparse trivial env α mn mx C xs hx hx32 hne hn s hs q hq0 hq1
  obtain ⟨h1, h2⟩ := sparse_adds_then_quantile_eq_model ord hl env mn C.minEq (Rat.le_of_lt C.minPos) xs hx32 s hs
    (.fin q) (.fin a) ha
  exact ⟨h1, a, h2, hacc⟩

/-- **the iteration order of the map is unobservable at the sketch level**: for two lawful orders, any mapping
    implementation and any history of `AddWithCount` calls with `int64` routed indexes, the errors returned and
    every observer agree -/
theorem sparse_quantile_order_irrelevant {M : Type} [MapI M] [Inhabited M]
    (ord ord' : MapOrder) (hl : ord.Lawful) (hl' : ord'.Lawful) (m : M) (l : List (F64 × F64))
    (hr : ∀ p ∈ l, RoutedG (sparseStoreSim ord hl) m p.1) :
    let a := runAdds (NewDDSketch m (⟨NewSparseStore⟩ : GSS ord) ⟨NewSparseStore⟩) l
    let b := runAdds (NewDDSketch m (⟨NewSparseStore⟩ : GSS ord') ⟨NewSparseStore⟩) l
    a.2 = b.2 ∧ DDSketch.GetCount a.1 = DDSketch.GetCount b.1 ∧ DDSketch.IsEmpty a.1 = DDSketch.IsEmpty b.1 ∧
    (∀ q, DDSketch.GetValueAtQuantile a.1 q = DDSketch.GetValueAtQuantile b.1 q) ∧
    DDSketch.GetMinValue a.1 = DDSketch.GetMinValue b.1 ∧ DDSketch.GetMaxValue a.1 = DDSketch.GetMaxValue b.1 := by
  intro a b
  obtain ⟨e1, c1, i1, q1, mn1, mx1⟩ := sparse_history_observers ord hl m l hr
  obtain ⟨e2, c2, i2, q2, mn2, mx2⟩ := sparse_history_observers ord' hl' m l hr
  exact ⟨e1.trans e2.symm, c1.trans c2.symm, i1.trans i2.symm, fun q => (q1 q).trans (q2 q).symm,
    mn1.trans mn2.symm, mx1.trans mx2.symm⟩

end DDS.Props.C01GenSparse
