/-
  DDS.Props.C18 — properties of the byte-level codecs (`ddsketch/encoding/encoding.go`):
  uvarint64, zig-zag varint64/32, float64 little endian, varfloat64, and their size functions.
  Proofs are in `DDS.Proofs.Codec`.
-/
import DDS.Proofs.Codec

namespace DDS.Props.C18

open DDS DDS.Codec

/-! ### uvarint64 -/

theorem uvarint_roundtrip (v : Nat) (hv : v < W64) (rest : Bytes) :
    decUvarint64 (encUvarint64 v ++ rest) = .ok (v, rest) :=
  decUvarint64_encUvarint64 v hv rest

example : decUvarint64 (encUvarint64 300 ++ [7, 9]) = .ok (300, [7, 9]) :=
  uvarint_roundtrip 300 (by decide) [7, 9]
example : encUvarint64 300 = [172, 2] := by decide
example : decUvarint64 (encUvarint64 (W64 - 1) ++ [1]) = .ok (W64 - 1, [1]) :=
  uvarint_roundtrip (W64 - 1) (by decide) [1]

-- (`hv` is not needed: the encoder masks every byte; kept for the stated form)
set_option linter.unusedVariables false in
theorem uvarint_bytes (v : Nat) (hv : v < W64) : ∀ b ∈ encUvarint64 v, b < 256 :=
  encU_bytes _ v

example : ∀ b ∈ encUvarint64 (W64 - 1), b < 256 := uvarint_bytes _ (by decide)

theorem uvarint_length (v : Nat) :
    1 ≤ (encUvarint64 v).length ∧ (encUvarint64 v).length ≤ 9 := by
  rw [encUvarint64_eq]
  exact ⟨encU_length_pos 8 v, encU_length_le 8 v⟩

example : (encUvarint64 0).length = 1 := by decide
example : (encUvarint64 (W64 - 1)).length = 9 := by decide

theorem uvarint_size (v : Nat) (hv : v < W64) : uvarint64Size v = (encUvarint64 v).length :=
  uvarint64Size_eq v hv

example : uvarint64Size 16384 = 3 := by rw [uvarint_size _ (by decide)]; decide

theorem uvarint_prefix_eof (v : Nat) (k : Nat) (hk : k < (encUvarint64 v).length) :
    decUvarint64 ((encUvarint64 v).take k) = .error .eof :=
  decUvarint64_take v k hk

example : decUvarint64 ((encUvarint64 1000000).take 2) = .error .eof :=
  uvarint_prefix_eof 1000000 2 (by decide)

theorem uvarint_reads_at_most_9 (bs : Bytes) (v : Nat) (rest : Bytes)
    (h : decUvarint64 bs = .ok (v, rest)) :
    ∃ k, 1 ≤ k ∧ k ≤ 9 ∧ rest = bs.drop k ∧ v < W64 :=
  decUvarint64_ok bs v rest h

example : decUvarint64 [172, 2, 5] = .ok (300, [5]) := by rfl
example : ∃ k, 1 ≤ k ∧ k ≤ 9 ∧ [5] = [172, 2, 5].drop k ∧ 300 < W64 :=
  uvarint_reads_at_most_9 [172, 2, 5] 300 [5] (by rfl)

/-! ### zig-zag -/

theorem zigzag_roundtrip (v : Int) : unzigzag (zigzag v) = v :=
  unzigzag_zigzag' v

example : zigzag (-3) = 5 ∧ unzigzag 5 = -3 := by decide

theorem zigzag_range (v : Int) (h1 : -(2:Int)^63 ≤ v) (h2 : v < (2:Int)^63) : zigzag v < W64 :=
  zigzag_lt v h1 h2

example : zigzag (-(2:Int)^63) = W64 - 1 := by decide

theorem unzigzag_zigzag (u : Nat) : zigzag (unzigzag u) = u :=
  zigzag_unzigzag' u

theorem varint_roundtrip (v : Int) (h1 : -(2:Int)^63 ≤ v) (h2 : v < (2:Int)^63) (rest : Bytes) :
    decVarint64 (encVarint64 v ++ rest) = .ok (v, rest) :=
  decVarint64_encVarint64 v h1 h2 rest

example : decVarint64 (encVarint64 (-123456789) ++ [1]) = .ok (-123456789, [1]) :=
  varint_roundtrip _ (by decide) (by decide) _

theorem varint_size (v : Int) (h1 : -(2:Int)^63 ≤ v) (h2 : v < (2:Int)^63) :
    varint64Size v = (encVarint64 v).length :=
  uvarint64Size_eq _ (zigzag_lt v h1 h2)

example : varint64Size (-65) = 2 := by rw [varint_size _ (by decide) (by decide)]; decide

theorem varint32_accepts_iff (v : Int) (h1 : -(2:Int)^63 ≤ v) (h2 : v < (2:Int)^63)
    (rest : Bytes) :
    decVarint32 (encVarint64 v ++ rest) =
      (if v > 2147483647 ∨ v < -2147483648 then .error .overflow32 else .ok (v, rest)) :=
  decVarint32_encVarint64 v h1 h2 rest

example : decVarint32 (encVarint64 2147483648 ++ []) = .error .overflow32 := by
  rw [varint32_accepts_iff _ (by decide) (by decide)]; rfl
example : decVarint32 (encVarint64 (-2147483648) ++ [3]) = .ok (-2147483648, [3]) := by
  rw [varint32_accepts_iff _ (by decide) (by decide)]; rfl

/-! ### float64, little endian -/

theorem f64le_roundtrip (b : Nat) (hb : b < W64) (rest : Bytes) :
    decF64LE (encF64LE b ++ rest) = .ok (b, rest) :=
  decF64LE_encF64LE b hb rest

example : decF64LE (encF64LE 0x3ff8000000000000 ++ [1]) = .ok (0x3ff8000000000000, [1]) :=
  f64le_roundtrip _ (by decide) _
example : encF64LE 0x3ff8000000000000 = [0, 0, 0, 0, 0, 0, 0xf8, 0x3f] := by decide

theorem f64le_length (b : Nat) : (encF64LE b).length = 8 :=
  encF64LE_length b

theorem f64le_prefix_eof (b : Nat) (k : Nat) (hk : k < 8) :
    decF64LE ((encF64LE b).take k) = .error .eof :=
  decF64LE_take b k hk

example : decF64LE ((encF64LE 0x3ff8000000000000).take 7) = .error .eof :=
  f64le_prefix_eof _ 7 (by decide)

/-! ### varfloat64 -/

theorem vfword_roundtrip (b : Nat) (hb : b < W64) : vfUnword (vfWord b) = b :=
  vfUnword_vfWord b hb

example : vfWord 0x4000000000000000 = 2 ^ 58 := by decide
example : vfUnword (2 ^ 58) = 0x4000000000000000 := by decide

theorem varfloat_roundtrip (b : Nat) (hb : b < W64) (rest : Bytes) :
    decVarfloatBits (encVarfloatBits b ++ rest) = .ok (b, rest) :=
  decVarfloatBits_encVarfloatBits b hb rest

example : decVarfloatBits (encVarfloatBits 0x4059000000000000 ++ [9]) =
    .ok (0x4059000000000000, [9]) :=
  varfloat_roundtrip _ (by decide) _
example : encVarfloatBits 0x4059000000000000 = [141, 16] := by decide

-- (`hb` is not needed: `vfWord` always yields a 64-bit word; kept for the stated form)
set_option linter.unusedVariables false in
theorem varfloat_bytes (b : Nat) (hb : b < W64) : ∀ x ∈ encVarfloatBits b, x < 256 := by
  rw [encVarfloatBits_eq]
  exact encVF_bytes 8 _ (vfWord_lt b)

theorem varfloat_length (b : Nat) :
    1 ≤ (encVarfloatBits b).length ∧ (encVarfloatBits b).length ≤ 9 := by
  rw [encVarfloatBits_eq]
  exact ⟨encVF_length_pos 8 _, encVF_length_le 8 _⟩

example : (encVarfloatBits 0x3ff0000000000000).length = 1 := by decide
example : (encVarfloatBits 0x3ff0000000000001).length = 9 := by decide

-- (`hb` is not needed; kept for the stated form)
set_option linter.unusedVariables false in
theorem varfloat_size (b : Nat) (hb : b < W64) :
    varfloat64SizeBits b = (encVarfloatBits b).length :=
  varfloat64SizeBits_eq b

example : varfloat64SizeBits 0x4059000000000000 = 2 := by
  rw [varfloat_size _ (by decide)]; decide

theorem varfloat_prefix_eof (b : Nat) (k : Nat) (hk : k < (encVarfloatBits b).length) :
    decVarfloatBits ((encVarfloatBits b).take k) = .error .eof :=
  decVarfloatBits_take b k hk

example : decVarfloatBits ((encVarfloatBits 0x4059000000000000).take 1) = .error .eof :=
  varfloat_prefix_eof _ 1 (by decide)

theorem varfloat_reads_at_most_9 (bs : Bytes) (b : Nat) (rest : Bytes)
    (h : decVarfloatBits bs = .ok (b, rest)) : ∃ k, 1 ≤ k ∧ k ≤ 9 ∧ rest = bs.drop k :=
  decVarfloatBits_ok bs b rest h

example : decVarfloatBits [141, 16, 9] = .ok (0x4059000000000000, [9]) := by rfl
example : ∃ k, 1 ≤ k ∧ k ≤ 9 ∧ [9] = [141, 16, 9].drop k :=
  varfloat_reads_at_most_9 [141, 16, 9] 0x4059000000000000 [9] (by rfl)

end DDS.Props.C18
