/-
  DDS.Props.C03Gen — the theorems of property C03 (`DDS.Props.C03`, proved about the hand-written
  model `DDS.Model.Mapping` over ℝ) restated for the functions REGENERATED from the Go source
  (`DDS.Generated.CodeMapping`), by rewriting with the equivalences of `DDS.Proofs.GenMapping`.

  Two forms per kind `K ∈ {log, linear, cubic}`:
    * `gen_<name>_<kind>`     — about the methods on `toGenK p` for model parameters `p` of kind `K`,
      with exactly the hypotheses of `C03.<name>`;
    * `gen_<name>_<kind>_new` — about the methods on the struct RETURNED BY THE GENERATED
      CONSTRUCTOR `NewK…MappingWithGamma γ o` (`1 < γ`); these statements mention generated
      definitions only.
  `gen_relativeAccuracy_ofAlpha_<kind>`: the mapping returned by `NewK…Mapping α` reports `α`.
-/
import DDS.Proofs.GenMapping
import DDS.Props.C03

namespace DDS.Props.C03Gen

open DDS DDS.GoSem DDS.Gen.Mapping DDS.GenMapping

/-! ## the logarithmic mapping -/

section log

variable (p : Mapping.Params ℝ) (hk : p.kind = .log)
include hk

/-- T5, the accuracy guarantee, for the generated `Value`/`Index`/`RelativeAccuracy` -/
theorem gen_accuracy_log (hγ : 1 < p.gamma) (v : ℝ) (hv : 0 < v) :
    |LogarithmicMapping.Value (toGenLog p) (LogarithmicMapping.Index (toGenLog p) v) - v|
      ≤ LogarithmicMapping.RelativeAccuracy (toGenLog p) * v := by
  rw [log_index p hk, log_value p hk, log_relativeAccuracy p hk]
  exact C03.accuracy p hγ v hv

theorem gen_index_mono_log (hγ : 1 < p.gamma) (v w : ℝ) (hv : 0 < v) (hvw : v ≤ w) :
    LogarithmicMapping.Index (toGenLog p) v ≤ LogarithmicMapping.Index (toGenLog p) w := by
  rw [log_index p hk, log_index p hk]
  exact C03.index_mono p hγ v w hv hvw

theorem gen_lowerBound_le_log (hγ : 1 < p.gamma) (v : ℝ) (hv : 0 < v) :
    LogarithmicMapping.LowerBound (toGenLog p) (LogarithmicMapping.Index (toGenLog p) v) ≤ v := by
  rw [log_index p hk, log_lowerBound p hk]
  exact C03.lowerBound_le p hγ v hv

theorem gen_le_lowerBound_succ_log (hγ : 1 < p.gamma) (v : ℝ) (hv : 0 < v) :
    v ≤ LogarithmicMapping.LowerBound (toGenLog p) (LogarithmicMapping.Index (toGenLog p) v + 1) := by
  rw [log_index p hk, log_lowerBound p hk]
  exact C03.le_lowerBound_succ p hγ v hv

theorem gen_lowerBound_strictMono_log (hγ : 1 < p.gamma) (i j : ℤ) (h : i < j) :
    LogarithmicMapping.LowerBound (toGenLog p) i < LogarithmicMapping.LowerBound (toGenLog p) j := by
  rw [log_lowerBound p hk, log_lowerBound p hk]
  exact C03.lowerBound_strictMono p hγ i j h

theorem gen_lowerBound_ratio_log (hγ : 1 < p.gamma) (i : ℤ) :
    LogarithmicMapping.LowerBound (toGenLog p) (i + 1) ≤
      LogarithmicMapping.LowerBound (toGenLog p) i *
        ((1 + LogarithmicMapping.RelativeAccuracy (toGenLog p)) / (1 - LogarithmicMapping.RelativeAccuracy (toGenLog p))) := by
  rw [log_lowerBound p hk, log_lowerBound p hk, log_relativeAccuracy p hk]
  exact C03.lowerBound_ratio p hγ i

theorem gen_relativeAccuracy_pos_lt_one_log (hγ : 1 < p.gamma) :
    0 < LogarithmicMapping.RelativeAccuracy (toGenLog p) ∧ LogarithmicMapping.RelativeAccuracy (toGenLog p) < 1 := by
  rw [log_relativeAccuracy p hk]
  exact C03.relativeAccuracy_pos_lt_one p hγ

/-- T6, indexes fit in 32 bits between the generated `MinIndexableValue` and `MaxIndexableValue` -/
theorem gen_index_int32_log (hγ : 1 < p.gamma) (v : ℝ)
    (hmin : LogarithmicMapping.MinIndexableValue (toGenLog p) ≤ v) (hmax : v ≤ LogarithmicMapping.MaxIndexableValue (toGenLog p)) :
    -2147483648 ≤ LogarithmicMapping.Index (toGenLog p) v ∧ LogarithmicMapping.Index (toGenLog p) v ≤ 2147483647 := by
  rw [log_index p hk]
  rw [log_minIndexable p] at hmin
  rw [log_maxIndexable p] at hmax
  exact C03.index_int32 p hγ v hmin hmax

omit hk

/-! the same, for the struct returned by the generated constructor -/

variable (γ o : ℝ) (hγ : 1 < γ)
include hγ

theorem gen_accuracy_log_new (v : ℝ) (hv : 0 < v) :
    |LogarithmicMapping.Value (NewLogarithmicMappingWithGamma γ o).1 (LogarithmicMapping.Index (NewLogarithmicMappingWithGamma γ o).1 v) - v|
      ≤ LogarithmicMapping.RelativeAccuracy (NewLogarithmicMappingWithGamma γ o).1 * v := by
  rw [newLog_withGamma γ o hγ]
  exact gen_accuracy_log ⟨.log, γ, o⟩ rfl hγ v hv

theorem gen_index_mono_log_new (v w : ℝ) (hv : 0 < v) (hvw : v ≤ w) :
    LogarithmicMapping.Index (NewLogarithmicMappingWithGamma γ o).1 v ≤ LogarithmicMapping.Index (NewLogarithmicMappingWithGamma γ o).1 w := by
  rw [newLog_withGamma γ o hγ]
  exact gen_index_mono_log ⟨.log, γ, o⟩ rfl hγ v w hv hvw

theorem gen_lowerBound_le_log_new (v : ℝ) (hv : 0 < v) :
    LogarithmicMapping.LowerBound (NewLogarithmicMappingWithGamma γ o).1 (LogarithmicMapping.Index (NewLogarithmicMappingWithGamma γ o).1 v) ≤ v := by
  rw [newLog_withGamma γ o hγ]
  exact gen_lowerBound_le_log ⟨.log, γ, o⟩ rfl hγ v hv

theorem gen_le_lowerBound_succ_log_new (v : ℝ) (hv : 0 < v) :
    v ≤ LogarithmicMapping.LowerBound (NewLogarithmicMappingWithGamma γ o).1 (LogarithmicMapping.Index (NewLogarithmicMappingWithGamma γ o).1 v + 1) := by
  rw [newLog_withGamma γ o hγ]
  exact gen_le_lowerBound_succ_log ⟨.log, γ, o⟩ rfl hγ v hv

theorem gen_index_int32_log_new (v : ℝ)
    (hmin : LogarithmicMapping.MinIndexableValue (NewLogarithmicMappingWithGamma γ o).1 ≤ v)
    (hmax : v ≤ LogarithmicMapping.MaxIndexableValue (NewLogarithmicMappingWithGamma γ o).1) :
    -2147483648 ≤ LogarithmicMapping.Index (NewLogarithmicMappingWithGamma γ o).1 v ∧ LogarithmicMapping.Index (NewLogarithmicMappingWithGamma γ o).1 v ≤ 2147483647 := by
  rw [newLog_withGamma γ o hγ] at hmin hmax ⊢
  exact gen_index_int32_log ⟨.log, γ, o⟩ rfl hγ v hmin hmax

omit hγ

/-- T3: the mapping built by the generated `NewLogarithmicMapping α` reports the accuracy `α` (and the
constructor succeeds) -/
theorem gen_relativeAccuracy_ofAlpha_log (a : ℝ) (h0 : 0 < a) (h1 : a < 1) :
    (NewLogarithmicMapping a).2 = GoErr.nil ∧ LogarithmicMapping.RelativeAccuracy (NewLogarithmicMapping a).1 = a := by
  rw [newLog_ofAlpha a h0 h1]
  refine ⟨rfl, ?_⟩
  show LogarithmicMapping.RelativeAccuracy (toGenLog (Mapping.ofAlpha .log a)) = a
  rw [log_relativeAccuracy _ rfl]
  exact C03.relativeAccuracy_ofAlpha .log a h0 h1

/-- hence the mapping built by `NewLogarithmicMapping α` is `α`-accurate -/
theorem gen_accuracy_ofAlpha_log (a : ℝ) (h0 : 0 < a) (h1 : a < 1) (v : ℝ) (hv : 0 < v) :
    |LogarithmicMapping.Value (NewLogarithmicMapping a).1 (LogarithmicMapping.Index (NewLogarithmicMapping a).1 v) - v| ≤ a * v := by
  have hacc := (gen_relativeAccuracy_ofAlpha_log a h0 h1).2
  rw [newLog_ofAlpha a h0 h1] at hacc ⊢
  have := gen_accuracy_log (Mapping.ofAlpha .log a) rfl
    (C03.gamma_ofAlpha_gt_one .log a h0 h1) v hv
  rw [hacc] at this
  exact this

/-! the hypotheses are satisfiable -/

example (off : ℝ) (v : ℝ) (hv : 0 < v) :
    |LogarithmicMapping.Value (NewLogarithmicMappingWithGamma 2 off).1 (LogarithmicMapping.Index (NewLogarithmicMappingWithGamma 2 off).1 v) - v|
      ≤ LogarithmicMapping.RelativeAccuracy (NewLogarithmicMappingWithGamma 2 off).1 * v :=
  gen_accuracy_log_new 2 off (by norm_num) v hv

example : LogarithmicMapping.RelativeAccuracy (NewLogarithmicMapping (1 / 100 : ℝ)).1 = 1 / 100 :=
  (gen_relativeAccuracy_ofAlpha_log _ (by norm_num) (by norm_num)).2

/-- with `gamma = 2` and offset `0`, the value `1` lies in the generated indexable range -/
example :
    LogarithmicMapping.MinIndexableValue (NewLogarithmicMappingWithGamma (2:ℝ) 0).1 ≤ 1 ∧
      1 ≤ LogarithmicMapping.MaxIndexableValue (NewLogarithmicMappingWithGamma (2:ℝ) 0).1 := by
  rw [newLog_withGamma 2 0 (by norm_num)]
  exact RealMap.one_indexable .log

end log

/-! ## the linearly interpolated mapping -/

section linear

variable (p : Mapping.Params ℝ) (hk : p.kind = .linear)
include hk

/-- T5, the accuracy guarantee, for the generated `Value`/`Index`/`RelativeAccuracy` -/
theorem gen_accuracy_linear (hγ : 1 < p.gamma) (v : ℝ) (hv : 0 < v) :
    |LinearlyInterpolatedMapping.Value (toGenLinear p) (LinearlyInterpolatedMapping.Index (toGenLinear p) v) - v|
      ≤ LinearlyInterpolatedMapping.RelativeAccuracy (toGenLinear p) * v := by
  rw [linear_index p hk, linear_value p hk, linear_relativeAccuracy p hk]
  exact C03.accuracy p hγ v hv

theorem gen_index_mono_linear (hγ : 1 < p.gamma) (v w : ℝ) (hv : 0 < v) (hvw : v ≤ w) :
    LinearlyInterpolatedMapping.Index (toGenLinear p) v ≤ LinearlyInterpolatedMapping.Index (toGenLinear p) w := by
  rw [linear_index p hk, linear_index p hk]
  exact C03.index_mono p hγ v w hv hvw

theorem gen_lowerBound_le_linear (hγ : 1 < p.gamma) (v : ℝ) (hv : 0 < v) :
    LinearlyInterpolatedMapping.LowerBound (toGenLinear p) (LinearlyInterpolatedMapping.Index (toGenLinear p) v) ≤ v := by
  rw [linear_index p hk, linear_lowerBound p hk]
  exact C03.lowerBound_le p hγ v hv

theorem gen_le_lowerBound_succ_linear (hγ : 1 < p.gamma) (v : ℝ) (hv : 0 < v) :
    v ≤ LinearlyInterpolatedMapping.LowerBound (toGenLinear p) (LinearlyInterpolatedMapping.Index (toGenLinear p) v + 1) := by
  rw [linear_index p hk, linear_lowerBound p hk]
  exact C03.le_lowerBound_succ p hγ v hv

theorem gen_lowerBound_strictMono_linear (hγ : 1 < p.gamma) (i j : ℤ) (h : i < j) :
    LinearlyInterpolatedMapping.LowerBound (toGenLinear p) i < LinearlyInterpolatedMapping.LowerBound (toGenLinear p) j := by
  rw [linear_lowerBound p hk, linear_lowerBound p hk]
  exact C03.lowerBound_strictMono p hγ i j h

theorem gen_lowerBound_ratio_linear (hγ : 1 < p.gamma) (i : ℤ) :
    LinearlyInterpolatedMapping.LowerBound (toGenLinear p) (i + 1) ≤
      LinearlyInterpolatedMapping.LowerBound (toGenLinear p) i *
        ((1 + LinearlyInterpolatedMapping.RelativeAccuracy (toGenLinear p)) / (1 - LinearlyInterpolatedMapping.RelativeAccuracy (toGenLinear p))) := by
  rw [linear_lowerBound p hk, linear_lowerBound p hk, linear_relativeAccuracy p hk]
  exact C03.lowerBound_ratio p hγ i

theorem gen_relativeAccuracy_pos_lt_one_linear (hγ : 1 < p.gamma) :
    0 < LinearlyInterpolatedMapping.RelativeAccuracy (toGenLinear p) ∧ LinearlyInterpolatedMapping.RelativeAccuracy (toGenLinear p) < 1 := by
  rw [linear_relativeAccuracy p hk]
  exact C03.relativeAccuracy_pos_lt_one p hγ

/-- T6, indexes fit in 32 bits between the generated `MinIndexableValue` and `MaxIndexableValue` -/
theorem gen_index_int32_linear (hγ : 1 < p.gamma) (v : ℝ)
    (hmin : LinearlyInterpolatedMapping.MinIndexableValue (toGenLinear p) ≤ v) (hmax : v ≤ LinearlyInterpolatedMapping.MaxIndexableValue (toGenLinear p)) :
    -2147483648 ≤ LinearlyInterpolatedMapping.Index (toGenLinear p) v ∧ LinearlyInterpolatedMapping.Index (toGenLinear p) v ≤ 2147483647 := by
  rw [linear_index p hk]
  rw [linear_minIndexable p] at hmin
  rw [linear_maxIndexable p] at hmax
  exact C03.index_int32 p hγ v hmin hmax

omit hk

/-! the same, for the struct returned by the generated constructor -/

variable (γ o : ℝ) (hγ : 1 < γ)
include hγ

theorem gen_accuracy_linear_new (v : ℝ) (hv : 0 < v) :
    |LinearlyInterpolatedMapping.Value (NewLinearlyInterpolatedMappingWithGamma γ o).1 (LinearlyInterpolatedMapping.Index (NewLinearlyInterpolatedMappingWithGamma γ o).1 v) - v|
      ≤ LinearlyInterpolatedMapping.RelativeAccuracy (NewLinearlyInterpolatedMappingWithGamma γ o).1 * v := by
  rw [newLinear_withGamma γ o hγ]
  exact gen_accuracy_linear ⟨.linear, γ, o⟩ rfl hγ v hv

theorem gen_index_mono_linear_new (v w : ℝ) (hv : 0 < v) (hvw : v ≤ w) :
    LinearlyInterpolatedMapping.Index (NewLinearlyInterpolatedMappingWithGamma γ o).1 v ≤ LinearlyInterpolatedMapping.Index (NewLinearlyInterpolatedMappingWithGamma γ o).1 w := by
  rw [newLinear_withGamma γ o hγ]
  exact gen_index_mono_linear ⟨.linear, γ, o⟩ rfl hγ v w hv hvw

theorem gen_lowerBound_le_linear_new (v : ℝ) (hv : 0 < v) :
    LinearlyInterpolatedMapping.LowerBound (NewLinearlyInterpolatedMappingWithGamma γ o).1 (LinearlyInterpolatedMapping.Index (NewLinearlyInterpolatedMappingWithGamma γ o).1 v) ≤ v := by
  rw [newLinear_withGamma γ o hγ]
  exact gen_lowerBound_le_linear ⟨.linear, γ, o⟩ rfl hγ v hv

theorem gen_le_lowerBound_succ_linear_new (v : ℝ) (hv : 0 < v) :
    v ≤ LinearlyInterpolatedMapping.LowerBound (NewLinearlyInterpolatedMappingWithGamma γ o).1 (LinearlyInterpolatedMapping.Index (NewLinearlyInterpolatedMappingWithGamma γ o).1 v + 1) := by
  rw [newLinear_withGamma γ o hγ]
  exact gen_le_lowerBound_succ_linear ⟨.linear, γ, o⟩ rfl hγ v hv

theorem gen_index_int32_linear_new (v : ℝ)
    (hmin : LinearlyInterpolatedMapping.MinIndexableValue (NewLinearlyInterpolatedMappingWithGamma γ o).1 ≤ v)
    (hmax : v ≤ LinearlyInterpolatedMapping.MaxIndexableValue (NewLinearlyInterpolatedMappingWithGamma γ o).1) :
    -2147483648 ≤ LinearlyInterpolatedMapping.Index (NewLinearlyInterpolatedMappingWithGamma γ o).1 v ∧ LinearlyInterpolatedMapping.Index (NewLinearlyInterpolatedMappingWithGamma γ o).1 v ≤ 2147483647 := by
  rw [newLinear_withGamma γ o hγ] at hmin hmax ⊢
  exact gen_index_int32_linear ⟨.linear, γ, o⟩ rfl hγ v hmin hmax

omit hγ

/-- T3: the mapping built by the generated `NewLinearlyInterpolatedMapping α` reports the accuracy `α` (and the
constructor succeeds) -/
theorem gen_relativeAccuracy_ofAlpha_linear (a : ℝ) (h0 : 0 < a) (h1 : a < 1) :
    (NewLinearlyInterpolatedMapping a).2 = GoErr.nil ∧ LinearlyInterpolatedMapping.RelativeAccuracy (NewLinearlyInterpolatedMapping a).1 = a := by
  rw [newLinear_ofAlpha a h0 h1]
  refine ⟨rfl, ?_⟩
  show LinearlyInterpolatedMapping.RelativeAccuracy (toGenLinear (Mapping.ofAlpha .linear a)) = a
  rw [linear_relativeAccuracy _ rfl]
  exact C03.relativeAccuracy_ofAlpha .linear a h0 h1

/-- hence the mapping built by `NewLinearlyInterpolatedMapping α` is `α`-accurate -/
theorem gen_accuracy_ofAlpha_linear (a : ℝ) (h0 : 0 < a) (h1 : a < 1) (v : ℝ) (hv : 0 < v) :
    |LinearlyInterpolatedMapping.Value (NewLinearlyInterpolatedMapping a).1 (LinearlyInterpolatedMapping.Index (NewLinearlyInterpolatedMapping a).1 v) - v| ≤ a * v := by
  have hacc := (gen_relativeAccuracy_ofAlpha_linear a h0 h1).2
  rw [newLinear_ofAlpha a h0 h1] at hacc ⊢
  have := gen_accuracy_linear (Mapping.ofAlpha .linear a) rfl
    (C03.gamma_ofAlpha_gt_one .linear a h0 h1) v hv
  rw [hacc] at this
  exact this

/-! the hypotheses are satisfiable -/

example (off : ℝ) (v : ℝ) (hv : 0 < v) :
    |LinearlyInterpolatedMapping.Value (NewLinearlyInterpolatedMappingWithGamma 2 off).1 (LinearlyInterpolatedMapping.Index (NewLinearlyInterpolatedMappingWithGamma 2 off).1 v) - v|
      ≤ LinearlyInterpolatedMapping.RelativeAccuracy (NewLinearlyInterpolatedMappingWithGamma 2 off).1 * v :=
  gen_accuracy_linear_new 2 off (by norm_num) v hv

example : LinearlyInterpolatedMapping.RelativeAccuracy (NewLinearlyInterpolatedMapping (1 / 100 : ℝ)).1 = 1 / 100 :=
  (gen_relativeAccuracy_ofAlpha_linear _ (by norm_num) (by norm_num)).2

/-- with `gamma = 2` and offset `0`, the value `1` lies in the generated indexable range -/
example :
    LinearlyInterpolatedMapping.MinIndexableValue
        (NewLinearlyInterpolatedMappingWithGamma (2:ℝ) 0).1 ≤ 1 ∧
      1 ≤ LinearlyInterpolatedMapping.MaxIndexableValue
        (NewLinearlyInterpolatedMappingWithGamma (2:ℝ) 0).1 := by
  rw [newLinear_withGamma 2 0 (by norm_num)]
  exact RealMap.one_indexable .linear

end linear

/-! ## the cubically interpolated mapping -/

section cubic

variable (p : Mapping.Params ℝ) (hk : p.kind = .cubic)
include hk

/-- T5, the accuracy guarantee, for the generated `Value`/`Index`/`RelativeAccuracy` -/
theorem gen_accuracy_cubic (hγ : 1 < p.gamma) (v : ℝ) (hv : 0 < v) :
    |CubicallyInterpolatedMapping.Value (toGenCubic p) (CubicallyInterpolatedMapping.Index (toGenCubic p) v) - v|
      ≤ CubicallyInterpolatedMapping.RelativeAccuracy (toGenCubic p) * v := by
  rw [cubic_index p hk, cubic_value p hk, cubic_relativeAccuracy p hk]
  exact C03.accuracy p hγ v hv

theorem gen_index_mono_cubic (hγ : 1 < p.gamma) (v w : ℝ) (hv : 0 < v) (hvw : v ≤ w) :
    CubicallyInterpolatedMapping.Index (toGenCubic p) v ≤ CubicallyInterpolatedMapping.Index (toGenCubic p) w := by
  rw [cubic_index p hk, cubic_index p hk]
  exact C03.index_mono p hγ v w hv hvw

theorem gen_lowerBound_le_cubic (hγ : 1 < p.gamma) (v : ℝ) (hv : 0 < v) :
    CubicallyInterpolatedMapping.LowerBound (toGenCubic p) (CubicallyInterpolatedMapping.Index (toGenCubic p) v) ≤ v := by
  rw [cubic_index p hk, cubic_lowerBound p hk]
  exact C03.lowerBound_le p hγ v hv

theorem gen_le_lowerBound_succ_cubic (hγ : 1 < p.gamma) (v : ℝ) (hv : 0 < v) :
    v ≤ CubicallyInterpolatedMapping.LowerBound (toGenCubic p) (CubicallyInterpolatedMapping.Index (toGenCubic p) v + 1) := by
  rw [cubic_index p hk, cubic_lowerBound p hk]
  exact C03.le_lowerBound_succ p hγ v hv

theorem gen_lowerBound_strictMono_cubic (hγ : 1 < p.gamma) (i j : ℤ) (h : i < j) :
    CubicallyInterpolatedMapping.LowerBound (toGenCubic p) i < CubicallyInterpolatedMapping.LowerBound (toGenCubic p) j := by
  rw [cubic_lowerBound p hk, cubic_lowerBound p hk]
  exact C03.lowerBound_strictMono p hγ i j h

theorem gen_lowerBound_ratio_cubic (hγ : 1 < p.gamma) (i : ℤ) :
    CubicallyInterpolatedMapping.LowerBound (toGenCubic p) (i + 1) ≤
      CubicallyInterpolatedMapping.LowerBound (toGenCubic p) i *
        ((1 + CubicallyInterpolatedMapping.RelativeAccuracy (toGenCubic p)) / (1 - CubicallyInterpolatedMapping.RelativeAccuracy (toGenCubic p))) := by
  rw [cubic_lowerBound p hk, cubic_lowerBound p hk, cubic_relativeAccuracy p hk]
  exact C03.lowerBound_ratio p hγ i

theorem gen_relativeAccuracy_pos_lt_one_cubic (hγ : 1 < p.gamma) :
    0 < CubicallyInterpolatedMapping.RelativeAccuracy (toGenCubic p) ∧ CubicallyInterpolatedMapping.RelativeAccuracy (toGenCubic p) < 1 := by
  rw [cubic_relativeAccuracy p hk]
  exact C03.relativeAccuracy_pos_lt_one p hγ

/-- T6, indexes fit in 32 bits between the generated `MinIndexableValue` and `MaxIndexableValue` -/
theorem gen_index_int32_cubic (hγ : 1 < p.gamma) (v : ℝ)
    (hmin : CubicallyInterpolatedMapping.MinIndexableValue (toGenCubic p) ≤ v) (hmax : v ≤ CubicallyInterpolatedMapping.MaxIndexableValue (toGenCubic p)) :
    -2147483648 ≤ CubicallyInterpolatedMapping.Index (toGenCubic p) v ∧ CubicallyInterpolatedMapping.Index (toGenCubic p) v ≤ 2147483647 := by
  rw [cubic_index p hk]
  rw [cubic_minIndexable p] at hmin
  rw [cubic_maxIndexable p] at hmax
  exact C03.index_int32 p hγ v hmin hmax

omit hk

/-! the same, for the struct returned by the generated constructor -/

variable (γ o : ℝ) (hγ : 1 < γ)
include hγ

theorem gen_accuracy_cubic_new (v : ℝ) (hv : 0 < v) :
    |CubicallyInterpolatedMapping.Value (NewCubicallyInterpolatedMappingWithGamma γ o).1 (CubicallyInterpolatedMapping.Index (NewCubicallyInterpolatedMappingWithGamma γ o).1 v) - v|
      ≤ CubicallyInterpolatedMapping.RelativeAccuracy (NewCubicallyInterpolatedMappingWithGamma γ o).1 * v := by
  rw [newCubic_withGamma γ o hγ]
  exact gen_accuracy_cubic ⟨.cubic, γ, o⟩ rfl hγ v hv

theorem gen_index_mono_cubic_new (v w : ℝ) (hv : 0 < v) (hvw : v ≤ w) :
    CubicallyInterpolatedMapping.Index (NewCubicallyInterpolatedMappingWithGamma γ o).1 v ≤ CubicallyInterpolatedMapping.Index (NewCubicallyInterpolatedMappingWithGamma γ o).1 w := by
  rw [newCubic_withGamma γ o hγ]
  exact gen_index_mono_cubic ⟨.cubic, γ, o⟩ rfl hγ v w hv hvw

theorem gen_lowerBound_le_cubic_new (v : ℝ) (hv : 0 < v) :
    CubicallyInterpolatedMapping.LowerBound (NewCubicallyInterpolatedMappingWithGamma γ o).1 (CubicallyInterpolatedMapping.Index (NewCubicallyInterpolatedMappingWithGamma γ o).1 v) ≤ v := by
  rw [newCubic_withGamma γ o hγ]
  exact gen_lowerBound_le_cubic ⟨.cubic, γ, o⟩ rfl hγ v hv

theorem gen_le_lowerBound_succ_cubic_new (v : ℝ) (hv : 0 < v) :
    v ≤ CubicallyInterpolatedMapping.LowerBound (NewCubicallyInterpolatedMappingWithGamma γ o).1 (CubicallyInterpolatedMapping.Index (NewCubicallyInterpolatedMappingWithGamma γ o).1 v + 1) := by
  rw [newCubic_withGamma γ o hγ]
  exact gen_le_lowerBound_succ_cubic ⟨.cubic, γ, o⟩ rfl hγ v hv

theorem gen_index_int32_cubic_new (v : ℝ)
    (hmin : CubicallyInterpolatedMapping.MinIndexableValue (NewCubicallyInterpolatedMappingWithGamma γ o).1 ≤ v)
    (hmax : v ≤ CubicallyInterpolatedMapping.MaxIndexableValue (NewCubicallyInterpolatedMappingWithGamma γ o).1) :
    -2147483648 ≤ CubicallyInterpolatedMapping.Index (NewCubicallyInterpolatedMappingWithGamma γ o).1 v ∧ CubicallyInterpolatedMapping.Index (NewCubicallyInterpolatedMappingWithGamma γ o).1 v ≤ 2147483647 := by
  rw [newCubic_withGamma γ o hγ] at hmin hmax ⊢
  exact gen_index_int32_cubic ⟨.cubic, γ, o⟩ rfl hγ v hmin hmax

omit hγ

/-- T3: the mapping built by the generated `NewCubicallyInterpolatedMapping α` reports the accuracy `α` (and the
constructor succeeds) -/
theorem gen_relativeAccuracy_ofAlpha_cubic (a : ℝ) (h0 : 0 < a) (h1 : a < 1) :
    (NewCubicallyInterpolatedMapping a).2 = GoErr.nil ∧ CubicallyInterpolatedMapping.RelativeAccuracy (NewCubicallyInterpolatedMapping a).1 = a := by
  rw [newCubic_ofAlpha a h0 h1]
  refine ⟨rfl, ?_⟩
  show CubicallyInterpolatedMapping.RelativeAccuracy (toGenCubic (Mapping.ofAlpha .cubic a)) = a
  rw [cubic_relativeAccuracy _ rfl]
  exact C03.relativeAccuracy_ofAlpha .cubic a h0 h1

/-- hence the mapping built by `NewCubicallyInterpolatedMapping α` is `α`-accurate -/
theorem gen_accuracy_ofAlpha_cubic (a : ℝ) (h0 : 0 < a) (h1 : a < 1) (v : ℝ) (hv : 0 < v) :
    |CubicallyInterpolatedMapping.Value (NewCubicallyInterpolatedMapping a).1 (CubicallyInterpolatedMapping.Index (NewCubicallyInterpolatedMapping a).1 v) - v| ≤ a * v := by
  have hacc := (gen_relativeAccuracy_ofAlpha_cubic a h0 h1).2
  rw [newCubic_ofAlpha a h0 h1] at hacc ⊢
  have := gen_accuracy_cubic (Mapping.ofAlpha .cubic a) rfl
    (C03.gamma_ofAlpha_gt_one .cubic a h0 h1) v hv
  rw [hacc] at this
  exact this

/-! the hypotheses are satisfiable -/

example (off : ℝ) (v : ℝ) (hv : 0 < v) :
    |CubicallyInterpolatedMapping.Value (NewCubicallyInterpolatedMappingWithGamma 2 off).1 (CubicallyInterpolatedMapping.Index (NewCubicallyInterpolatedMappingWithGamma 2 off).1 v) - v|
      ≤ CubicallyInterpolatedMapping.RelativeAccuracy (NewCubicallyInterpolatedMappingWithGamma 2 off).1 * v :=
  gen_accuracy_cubic_new 2 off (by norm_num) v hv

example : CubicallyInterpolatedMapping.RelativeAccuracy (NewCubicallyInterpolatedMapping (1 / 100 : ℝ)).1 = 1 / 100 :=
  (gen_relativeAccuracy_ofAlpha_cubic _ (by norm_num) (by norm_num)).2

/-- with `gamma = 2` and offset `0`, the value `1` lies in the generated indexable range -/
example :
    CubicallyInterpolatedMapping.MinIndexableValue
        (NewCubicallyInterpolatedMappingWithGamma (2:ℝ) 0).1 ≤ 1 ∧
      1 ≤ CubicallyInterpolatedMapping.MaxIndexableValue
        (NewCubicallyInterpolatedMappingWithGamma (2:ℝ) 0).1 := by
  rw [newCubic_withGamma 2 0 (by norm_num)]
  exact RealMap.one_indexable .cubic

end cubic

end DDS.Props.C03Gen
