/-
  DDS.Props.NonVacuity — AUDIT of the hypotheses of the property theorems (C01 … C20).

  One theorem of this development was found to be vacuous (a global hypothesis that was provably
  false).  This file guards against the same failure mode everywhere else:

  * every `Prop`-valued definition used as a hypothesis of a theorem of `DDS/Props/*.lean` gets a
    NON-TRIVIAL inhabitant (`<Pred>_inhabited`: a concrete, non-empty state) — see the index section;
  * every theorem with hypotheses that had no instantiating `example` in its own file is applied
    here to a concrete, non-trivial instance (`example : <conclusion instance> := thm …`), so that all
    its hypotheses are shown to be JOINTLY satisfiable.

  Not covered (files being refactored): `DDS/Proofs/{Dense,Collapsing,Refine}.lean`, `DDS/Props/C05.lean`.

  Only closed computations (`decide`, `decide +kernel`) and the theorems of the audited files are
  used; no axioms beyond `propext`, `Classical.choice`, `Quot.sound`.
-/
import DDS.Props.All

namespace DDS.Props.NonVacuity

section Index
open DDS DDS.RoundTrip

/-! ## Index: one non-trivial inhabitant per hypothesis predicate

Witnesses that already exist in the Props/Proofs files are re-exported here under a uniform name
(`<Pred>_inhabited`), together with a non-triviality clause; the new ones are proved in the sections
below (`PStoreInv_inhabited`, `PStoreInv_inhabited_page`, `PagOK_inhabited`, `PInv_inhabited`,
`PEmpty_inhabited`, `FiniteVarfloats_inhabited`, `ExactSums_inhabited`, `ZeroRep_inhabited`,
`RepOK_inhabited`, `RepFrom_inhabited`, `NZ_inhabited`, `DatasetInv_inhabited`, `ObsEq_inhabited`,
`qexact_noneg`, `qexact_nopos`; `Op.ok` / `HOp.ok`: `pagOps_ok`, `pagHOps_ok`; `Block.FiniteWeights`:
`bsW_fin`). -/

theorem Contract_inhabited : ∃ env α mn mx, Contract env α mn mx ∧
    env.index (.fin 3) ≠ env.index (.fin 5) ∧ env.value 0 ≠ env.value 1 :=
  ⟨QuantileEx.exEnv, _, _, _, QuantileEx.exContract, by decide +kernel, by decide +kernel⟩

theorem Accepted_inhabited : Sketch.Accepted 1000 C02.demoTree.flat ∧ C02.demoTree.flat.length = 6 :=
  ⟨C02.demo_acc, rfl⟩

theorem QExact_inhabited : QExact QuantileEx.exCp QuantileEx.exCn 0 (1 / 8) (1 / 4) ∧
    QuantileEx.exCp ≠ [] ∧ QuantileEx.exCn ≠ [] := ⟨QuantileEx.exExact, by decide, by decide⟩

/-- dense (`exD`) and paginated (`exP`) stores refining non-empty contents -/
theorem StoreRefines_inhabited : (Store.d C06.exD).Refines [(5, 2), (7, 1), (8, 3)] ∧
    (Store.pg C06.exP).Refines [(1, 2), (2, 1), (3, 1)] ∧ (Store.sp [(1, 2)]).Refines [(1, 2)] :=
  ⟨C06.exS_refines.pos, C06.exS_refines.neg, Store.sp_refines _ (wf_of_wfb _ (by decide +kernel))⟩

theorem SketchRefines_inhabited : C06.exS.Refines [(5, 2), (7, 1), (8, 3)] [(1, 2), (2, 1), (3, 1)] :=
  C06.exS_refines

theorem WOK_inhabited : WOK 12345 ∧ WOK (3 / 8) ∧ ¬ WOK (1 / 3) ∧ ¬ WOK (1 / 2 ^ 60) := by
  refine ⟨by decide +kernel, by decide +kernel, by decide +kernel, by decide +kernel⟩

theorem VfOK_inhabited : VfOK (3 / 8) ∧ ¬ VfOK (1 / 2 ^ 60) :=
  ⟨by unfold VfOK; decide +kernel, by unfold VfOK; decide +kernel⟩

theorem Keys32_inhabited : Keys32 [(-3, 2), (5, 1 / 2)] ∧ ¬ Keys32 [(2 ^ 31, 1)] := by
  constructor
  · decide +kernel
  · intro h
    have := h (2 ^ 31, 1) (by simp)
    revert this
    decide

theorem MapOK_inhabited : MapOK C06.exM ∧ MapFinite C06.exM := ⟨C06.exM_ok, C06.exM_fin⟩

theorem DenseOK_inhabited : DenseOK C06.exD ∧ DenseOK C06.exL ∧ DenseOK C06.exH ∧ C06.exD.bins = #[2, 0, 1, 3] :=
  ⟨C06.exS_pos, denseOK_of_invLow 4 _ (C06.exL_arr.invLow 4 rfl (by decide) rfl) C06.exL_arr.tight32 C06.exL_arr.wt_wok,
    denseOK_of_invHigh 4 _ (C06.exH_arr.invHigh 4 rfl (by decide) rfl) C06.exH_arr.tight32 C06.exH_arr.wt_wok, rfl⟩

theorem EncOK_inhabited : EncOK (.d C06.exD) ∧ EncOK (.pg C06.exP) ∧ EncOK (.sp [(-3, 2), (5, 1 / 2)]) :=
  ⟨C06.exS_pos, C06.exS_neg, by decide +kernel, by decide +kernel⟩

theorem StatsOK_inhabited : StatsOK C06.exX.st (43 / 4) 10 (-3) 9 := C06.exX_stats

theorem ArrayStore_inhabited : ArrayStore C06.exD ∧ ArrayStore C06.exD2 := ⟨C06.exD_arr, C06.exD2_arr⟩

theorem BlockWF_inhabited :
    Block.WF (.bins .neg (.deltasCounts [(-7, 0x4000000000000000)])) ∧
    Block.WF (.mapping 0 0x3ff051eb851eb852 0) ∧ ¬ Block.WF (.mapping 64 0 0) ∧
    ¬ Block.WF (.bins .pos (.deltas [2 ^ 63])) := by decide

theorem StoreKeys32_inhabited : Proto.StoreKeys32 C09.sp3 ∧ Proto.StoreKeys32 C09.d3 := ⟨C09.sp3_keys, C09.d3_keys⟩

theorem FitsLen_inhabited : C09.FitsLen C09.sp3 ∧ C09.FitsLen C09.d3 :=
  ⟨by unfold C09.FitsLen; decide, by unfold C09.FitsLen; decide⟩

theorem IsSpec_inhabited : ∃ s, C02.demoTree.eval C02.demoEnv = some s ∧ s.IsSpec :=
  (C02.merge_tree_eq C02.demoEnv (1 / 1000) 1000 rfl rfl (by norm_num) C02.demo_refl C02.demoTree C02.demo_acc
    C02.demo_exact).2

theorem Exact_inhabited : Rebin.Exact (5 - 1) ∧ ¬ Rebin.Exact (1 / 3) := by
  refine ⟨C17.ex_hsize, ?_⟩
  unfold Rebin.Exact
  decide +kernel

theorem Idx32_inhabited : PStore.Idx32 (-7) ∧ ¬ PStore.Idx32 (2 ^ 31) ∧ Proto.I32 (-7) ∧ ¬ Proto.I32 (2 ^ 31) ∧
    I64 (2 ^ 31) ∧ ¬ I64 (2 ^ 63) := by
  refine ⟨⟨by decide, by decide⟩, ?_, by decide, by decide, by decide, by decide⟩
  intro h
  exact absurd h.2 (by decide)

theorem Valid_inhabited : C19.Valid C19.m102 := C19.m102_valid

end Index

section SketchSpec
open DDS DDS.QuantileEx

/-! ## C01 -/
section C01
open DDS.Props.C01

theorem c01_inputs : exXs ≠ [] ∧ exXs.length ≤ 2 ^ 53 := ⟨by simp [exXs], by simp [exXs]⟩

example : ∃ s, Sketch.addAll exEnv (Sketch.new (some exEnv.id) .sparse) (exXs.map (fun x => (x, 1))) = some s ∧
    (∀ q : Rat, 0 ≤ q → q ≤ 1 → ∃ k : Nat, k < exXs.length ∧
      ((k : Int) = ⌊q * ((exXs.length : Rat) - 1)⌋ ∨ (k : Int) = ⌈q * ((exXs.length : Rat) - 1)⌉) ∧
      Sketch.quantile exEnv s (.fin q) = .ok (
        let x := (sortedInputs (4 / 3) exXs)[k]!
        if 0 < x then exEnv.value (exEnv.index (.fin (rabs x)))
        else if x < 0 then F64.neg (exEnv.value (exEnv.index (.fin (rabs x))))
        else .fin 0)) ∧
    ((∀ y ∈ sortedInputs (4 / 3) exXs, (sortedInputs (4 / 3) exXs)[0]! ≤ y) ∧
      Sketch.quantile exEnv s (.fin 0) = .ok (
        let x := (sortedInputs (4 / 3) exXs)[0]!
        if 0 < x then exEnv.value (exEnv.index (.fin (rabs x)))
        else if x < 0 then F64.neg (exEnv.value (exEnv.index (.fin (rabs x))))
        else .fin 0)) ∧
    ((∀ y ∈ sortedInputs (4 / 3) exXs, y ≤ (sortedInputs (4 / 3) exXs)[exXs.length - 1]!) ∧
      Sketch.quantile exEnv s (.fin 1) = .ok (
        let x := (sortedInputs (4 / 3) exXs)[exXs.length - 1]!
        if 0 < x then exEnv.value (exEnv.index (.fin (rabs x)))
        else if x < 0 then F64.neg (exEnv.value (exEnv.index (.fin (rabs x))))
        else .fin 0)) := by
  obtain ⟨s, hs⟩ := addAll_ok exEnv _ _ _ exContract exXs exXs_ok
  exact ⟨s, hs,
    fun q h0 h1 => quantile_bin exEnv _ _ _ exContract exXs exXs_ok c01_inputs.1 c01_inputs.2 s hs q h0 h1,
    quantile_zero exEnv _ _ _ exContract exXs exXs_ok c01_inputs.1 c01_inputs.2 s hs,
    quantile_one exEnv _ _ _ exContract exXs exXs_ok c01_inputs.1 c01_inputs.2 s hs⟩

end C01

/-! ## C02 -/
section C02
open DDS.Props.C02 DDS.Sketch

/-- `ExactSums` on a non-empty list -/
theorem ExactSums_inhabited : ∃ ws : List Rat, ExactSums ws ∧ ws ≠ [] ∧ ws.sum ≠ 0 :=
  ⟨[1, 2], by have := demo_exact; rwa [demo_zero] at this, by simp, by norm_num⟩

theorem ZeroRep_inhabited : ∃ q : Rat, q ≠ 0 ∧ ZeroRep (.fin q) :=
  ⟨5, by norm_num, by have := F64.isRep_int 5 (by norm_num); simpa [ZeroRep] using this⟩

theorem demo_flat_ne : demoTree.flat ≠ [] := by simp [demoTree, MergeTree.flat]

example : demoTree.eval demoEnv =
      Sketch.addAll demoEnv (Sketch.new (some demoEnv.id) .sparse) demoTree.flat ∧
    ∃ s, demoTree.eval demoEnv = some s ∧ s.IsSpec :=
  merge_tree_eq demoEnv (1 / 1000) 1000 rfl rfl (by norm_num) demo_refl demoTree demo_acc demo_exact

/-- a differently shaped tree over a permutation of the same inputs -/
def demoTree' : MergeTree :=
  .node (.node (.leaf [(5, 1), (1 / 2000, 2)]) (.leaf [(7, 3)])) (.leaf [(-3, 1), (0, 1), (5, 2)])

example : demoTree.eval demoEnv = demoTree'.eval demoEnv ∧ (demoTree.eval demoEnv).isSome :=
  merge_tree_perm demoEnv (1 / 1000) 1000 rfl rfl (by norm_num) demo_refl demoTree demoTree'
    (by simp only [demoTree, demoTree', MergeTree.flat]; decide +kernel) demo_acc demo_exact

example : fsum (.fin 0) (zeroPart (1 / 1000) demoTree.flat) = .fin (zeroPart (1 / 1000) demoTree.flat).sum :=
  fsum_exact _ demo_exact

/-- the spec sketch the demo tree evaluates to really holds data on all three sides -/
example : (target demoEnv (1 / 1000) demoTree.flat).IsSpec :=
  target_isSpec demoEnv (1 / 1000) 1000 _ demo_acc

/-- `merge_pure_argument` on NON-EMPTY arguments of different store kinds: a dense store holding
    `10 ↦ 1, 11 ↦ 2, 12 ↦ 3` and the sparse store with the same bins -/
def pureO : Sketch := { mapping := some demoId, pos := C09.d3, neg := .sp [(2, 1)], zero := .fin 1 }
def pureO' : Sketch := { mapping := some demoId, pos := .sp [(10, 1), (11, 2), (12, 3)], neg := .sp [(2, 1)], zero := .fin 1 }

example : pureO.pos.binsList = pureO'.pos.binsList ∧ pureO'.pos.binsList = some [(10, 1), (11, 2), (12, 3)] := by
  decide +kernel

example : (spec (some demoId) [(1, 2)] [] (.fin 0)).mergeWith pureO
      = (spec (some demoId) [(1, 2)] [] (.fin 0)).mergeWith pureO' :=
  merge_pure_argument _ _ _ _ pureO pureO' rfl (by decide +kernel) rfl rfl

end C02

end SketchSpec

section Paginated
open DDS

/-! ## C04Pag -/
section C04
open DDS.PStore DDS.Props.C04Pag

/-- a history that materialises a page (weight `5/2` goes straight to a page line), buffers an
    entry, reweights, and reads -/
def pagOps : List Op := [.add 3 (5 / 2) false, .add 40 1 false, .sortRead, .add 3 1 true, .reweight 2]

theorem pagOps_ok : ∀ op ∈ pagOps, op.ok := by
  intro op hop
  simp only [pagOps, List.mem_cons, List.not_mem_nil, or_false] at hop
  rcases hop with rfl | rfl | rfl | rfl | rfl
  · exact ⟨⟨by decide, by decide⟩, by decide +kernel⟩
  · exact ⟨⟨by decide, by decide⟩, by decide +kernel⟩
  · trivial
  · exact ⟨⟨by decide, by decide⟩, by decide +kernel⟩
  · show (0 : Rat) < 2; decide +kernel

theorem pagOps_spec : specRun [] pagOps = [(3, 7), (40, 2)] := by decide +kernel

/-- `PStore.Inv` has a non-trivial inhabitant: non-empty content, reached by a real history -/
theorem PStoreInv_inhabited :
    ∃ s, PStore.Inv s ∧ content s = [(3, 7), (40, 2)] ∧ s.totalCount = 9 ∧ s.isEmpty = false ∧
      s.minIndex? = some 3 ∧ s.maxIndex? = some 40 := by
  obtain ⟨s, _, h2, h3, h4, h5, h6, h7, _⟩ := history_observers pagOps pagOps_ok
  rw [pagOps_spec] at h3 h4 h5 h6 h7
  exact ⟨s, h2, h3, by rw [h4]; decide +kernel, by rw [h5]; decide +kernel,
    by rw [h6]; decide +kernel, by rw [h7]; decide +kernel⟩

/-- the two-step prefix is computable (no sorting involved): one materialised page of 32 lines among
    8 slots, one buffered entry -/
def pagOps2 : List Op := [.add 3 (5 / 2) false, .add 40 1 false]

theorem pagOps2_run : (run PStore.new pagOps2).map
      (fun s => (s.pages.size, (s.pages.getD 4 #[]).size, (s.pages.getD 4 #[]).getD 3 0, s.buffer, s.minPageIndex))
    = some (8, 32, 5 / 2, [40], -4) := by decide +kernel

theorem pagOps2_ok : ∀ op ∈ pagOps2, op.ok := by
  intro op hop
  simp only [pagOps2, List.mem_cons, List.not_mem_nil, or_false] at hop
  rcases hop with rfl | rfl
  · exact ⟨⟨by decide, by decide⟩, by decide +kernel⟩
  · exact ⟨⟨by decide, by decide⟩, by decide +kernel⟩

/-- `PStore.Inv` holds of a store with a materialised page AND a buffered entry -/
theorem PStoreInv_inhabited_page :
    ∃ s, PStore.Inv s ∧ s.pages.size = 8 ∧ (s.pages.getD 4 #[]).size = 32 ∧ s.buffer = [40] ∧
      content s = [(3, 5 / 2), (40, 1)] := by
  obtain ⟨s, h1, h2, h3⟩ := history_content pagOps2 pagOps2_ok
  have hr := pagOps2_run
  rw [h1] at hr
  simp only [Option.map_some, Option.some.injEq, Prod.mk.injEq] at hr
  exact ⟨s, h2, hr.1, hr.2.1, hr.2.2.2.1, by rw [h3]; decide +kernel⟩

/-! the per-operation theorems, applied to that store -/
example : ∃ s, PStore.Inv s ∧ content s = [(3, 7), (40, 2)] ∧
    (content s).WF ∧ (content s).lookup 3 = wt s 3 ∧
    (∃ s', s.addWithCount 5 (1 / 2) true = some s' ∧ Inv s' ∧ content s' = (content s).add 5 (1 / 2)) ∧
    (∃ s', s.addUnit 40 true = some s' ∧ Inv s' ∧ content s' = (content s).add 40 1) ∧
    (∃ s', s.compact = some s' ∧ Inv s' ∧ content s' = content s) ∧
    (Inv s.clear ∧ content s.clear = []) ∧
    (∃ s', s.reweight (1 / 4) = some s' ∧ Inv s' ∧ content s' = (content s).scale (1 / 4)) ∧
    (∃ s', s.mergeSame s = some s' ∧ Inv s' ∧ content s' = (content s).merge (content s)) ∧
    (∃ s', s.mergeBins [(3, 1), (-7, 2)] = some s' ∧ Inv s' ∧ content s' = (content s).merge [(3, 1), (-7, 2)]) := by
  obtain ⟨s, hI, hc, _⟩ := PStoreInv_inhabited
  exact ⟨s, hI, hc, C04Pag.content_wf s hI, C04Pag.lookup_content s hI 3,
    add_content s hI 5 ⟨by decide, by decide⟩ (1 / 2) (by decide +kernel) true,
    addUnit_content s hI 40 ⟨by decide, by decide⟩ true,
    compact_content s hI, clear_content s hI,
    reweight_content s hI (1 / 4) (by decide +kernel),
    mergeSame_content s s hI hI,
    mergeBins_content s hI _ (by
      intro p hp
      simp only [List.mem_cons, List.not_mem_nil, or_false] at hp
      rcases hp with rfl | rfl
      · exact ⟨⟨by decide, by decide⟩, by decide +kernel⟩
      · exact ⟨⟨by decide, by decide⟩, by decide +kernel⟩)⟩

example : ∃ s, PStore.Inv s ∧ s.binsList = content s ∧ s.totalCount = (content s).total ∧
    content s = [(3, 7), (40, 2)] := by
  obtain ⟨s, hI, hc, _⟩ := PStoreInv_inhabited
  obtain ⟨o1, o2, _⟩ := observers_eq s hI
  exact ⟨s, hI, o1, o2, hc⟩

example : ∃ s, PStore.Inv s ∧ content s = [(3, 7), (40, 2)] := by
  obtain ⟨s, hI, hc, _⟩ := PStoreInv_inhabited
  have := content_unique s hI [(3, 7), (40, 2)] (hc ▸ C04Pag.content_wf s hI)
    (fun j => by rw [← hc]; exact (C04Pag.lookup_content s hI j).symm)
  exact ⟨s, hI, this⟩

/-- add-only histories, two compaction schedules -/
def pagAdds : List (Int × Rat) := [(3, 1), (40, 1), (3, 1), (-100, 1 / 2), (40, 1)]

theorem pagAdds_ok : ∀ a ∈ pagAdds, Idx32 a.1 ∧ 0 ≤ a.2 := by
  intro a ha
  simp only [pagAdds, List.mem_cons, List.not_mem_nil, or_false] at ha
  rcases ha with rfl | rfl | rfl | rfl | rfl <;>
    exact ⟨⟨by decide, by decide⟩, by decide +kernel⟩

example : ∃ s₁ s₂,
    run PStore.new ((pagAdds.zip [true, true, true, true, true]).map fun a => Op.add a.1.1 a.1.2 a.2) = some s₁ ∧
    run PStore.new ((pagAdds.zip [false, true, false, false, true]).map fun a => Op.add a.1.1 a.1.2 a.2) = some s₂ ∧
    content s₁ = content s₂ :=
  compaction_schedule_irrelevant pagAdds _ _ rfl rfl pagAdds_ok

example : ∃ s, run PStore.new ([((3 : Int), (1 : Rat), true), (40, 1 / 2, false)].map fun a => Op.add a.1 a.2.1 a.2.2) = some s ∧
    Inv s ∧ content s = Content.ofList ([((3 : Int), (1 : Rat), true), (40, 1 / 2, false)].map fun a => (a.1, a.2.1)) :=
  adds_content _ (by
    intro a ha
    simp only [List.mem_cons, List.not_mem_nil, or_false] at ha
    rcases ha with rfl | rfl <;> exact ⟨⟨by decide, by decide⟩, by decide +kernel⟩)

/-- a history with a same-kind merge (whose argument is itself a non-trivial history) and a
    fallback merge -/
def pagHOps : List HOp :=
  [.base (.add 3 (5 / 2) false), .mergeSame pagOps, .mergeBins [(3, 1), (-7, 2)], .base (.reweight (1 / 2))]

theorem pagHOps_ok : ∀ op ∈ pagHOps, op.ok := by
  intro op hop
  simp only [pagHOps, List.mem_cons, List.not_mem_nil, or_false] at hop
  rcases hop with rfl | rfl | rfl | rfl
  · exact ⟨⟨by decide, by decide⟩, by decide +kernel⟩
  · exact pagOps_ok
  · intro p hp
    simp only [List.mem_cons, List.not_mem_nil, or_false] at hp
    rcases hp with rfl | rfl <;> exact ⟨⟨by decide, by decide⟩, by decide +kernel⟩
  · show (0 : Rat) < 1 / 2; decide +kernel

theorem pagHOps_spec : specHRun [] pagHOps = [(-7, 1), (3, 21 / 4), (40, 1)] := by decide +kernel

example : ∃ s, hrun PStore.new pagHOps = some s ∧ Inv s ∧ s.binsList = [(-7, 1), (3, 21 / 4), (40, 1)] ∧
    s.totalCount = 29 / 4 ∧ s.minIndex? = some (-7) := by
  obtain ⟨s, h1, h2, h3, h4, _, h6, _⟩ := hhistory_observers pagHOps pagHOps_ok
  rw [pagHOps_spec] at h3 h4 h6
  exact ⟨s, h1, h2, h3, by rw [h4]; decide +kernel, by rw [h6]; decide +kernel⟩

example : ∃ s, PStore.Inv s ∧ content s = [(3, 7), (40, 2)] ∧
    ∃ s₁ s₂, hrun s.clear pagHOps = some s₁ ∧ hrun PStore.new pagHOps = some s₂ ∧
      content s₁ = content s₂ := by
  obtain ⟨s, hI, hc, _⟩ := PStoreInv_inhabited
  exact ⟨s, hI, hc, clear_like_new s hI pagHOps pagHOps_ok⟩

end C04

end Paginated

section WireFormat
open DDS DDS.Codec DDS.Wire

def bsW : List Block :=
  [.mapping 0 0x3ff2000000000000 0, .zeroCount 0x4008000000000000,
   .bins .pos (.deltasCounts [(-7, 0x4000000000000000)]),
   .bins .neg (.contiguous 3 1 [0x4000000000000000, 0x3ff8000000000000])]

def finWB : Block → Bool
  | .bins _ p => (Wire.payloadBins p).all (fun q => q.2.isFinite)
  | _ => true

theorem finW_of_b (b : Block) (h : finWB b = true) : b.FiniteWeights := by
  cases b <;> try trivial
  rename_i side p
  intro q hq
  simp only [finWB, List.all_eq_true] at h
  exact h q hq

theorem finW_all (l : List Block) (h : l.all finWB = true) : ∀ b ∈ l, b.FiniteWeights :=
  fun b hb => finW_of_b b (List.all_eq_true.1 h b hb)

theorem bsW_wf : ∀ b ∈ bsW, b.WF := by decide
theorem bsW_fin : ∀ b ∈ bsW, b.FiniteWeights := finW_all _ (by decide +kernel)

/-- observable part of a decoder-loop result -/
def obsR (r : Option (Except SkErr (Sketch × Sketch.DecAux))) :
    Option (Option (Option MapId × Option Content × Option Content × F64)) :=
  r.map (fun e => e.toOption.map (fun p => (p.1.mapping, p.1.pos.binsList, p.1.neg.binsList, p.1.zero)))

set_option synthInstance.maxSize 1024 in
theorem bsW_apply : obsR (Sketch.applyBlocks (Sketch.spec none [] [] (.fin 0)) { stats := none } bsW) =
    some (some (some ⟨.log, .fin (9 / 8), .fin 0⟩, some [(-7, 1)], some [(3, 1), (4, 1 / 2)], .fin 2)) := by
  decide +kernel

theorem bsW_apply_ok : ∃ s' aux', Sketch.applyBlocks (Sketch.spec none [] [] (.fin 0)) { stats := none } bsW
    = some (.ok (s', aux')) := by
  have h := bsW_apply
  cases hr : Sketch.applyBlocks (Sketch.spec none [] [] (.fin 0)) { stats := none } bsW with
  | none => rw [hr] at h; cases h
  | some e =>
    cases e with
    | error e => rw [hr] at h; cases h
    | ok r => exact ⟨r.1, r.2, rfl⟩

/-! ## C07 -/
section C07
open DDS.Props.C07

example : flagType (mkFlag 3 5) = 3 ∧ flagSub (mkFlag 3 5) = 5 := C07.flag_fields 3 5 (by decide)

example : Wire.parseBlocks (Wire.encBlocks (bsW.take 2) ++ Wire.encBlocks (bsW.drop 2)) = .ok (bsW.take 2 ++ bsW.drop 2) :=
  C07.parseBlocks_concat _ _ (by decide) (by decide)

example (n : Nat) (s : Sketch) (aux : Sketch.DecAux) (tail : Bytes) :
    Sketch.decodeLoop (n + 1) s aux (Wire.encBlock (.bins .neg (.contiguous 3 1 [0x4000000000000000, 0x3ff8000000000000])) ++ tail) =
      Sketch.andThen (Sketch.applyBlock s aux (.bins .neg (.contiguous 3 1 [0x4000000000000000, 0x3ff8000000000000])))
        (fun s' aux' => Sketch.decodeLoop n s' aux' tail) :=
  C07.decodeLoop_encBlock _ (by decide) n s aux tail

/-- `C07.decodeLoop_eq_interp` on a four-block stream (mapping, zero count, both stores), and the
    fold it reduces to is a success with the expected content -/
example : Sketch.decodeLoop 4 (Sketch.spec none [] [] (.fin 0)) { stats := none } (Wire.encBlocks bsW)
      = Sketch.applyBlocks (Sketch.spec none [] [] (.fin 0)) { stats := none } bsW ∧
    obsR (Sketch.applyBlocks (Sketch.spec none [] [] (.fin 0)) { stats := none } bsW) =
      some (some (some ⟨.log, .fin (9 / 8), .fin 0⟩, some [(-7, 1)], some [(3, 1), (4, 1 / 2)], .fin 2)) :=
  ⟨C07.decodeLoop_eq_interp bsW bsW_wf 4 (by decide) _ _, bsW_apply⟩

example : Sketch.decodeLoop 30 (Sketch.spec none [] [] (.fin 0)) { stats := none } (Wire.encBlocks bsW)
      = Sketch.applyBlocks (Sketch.spec none [] [] (.fin 0)) { stats := none } bsW :=
  C07.decodeLoop_eq_interp_spec bsW bsW_wf 30 (by decide) none [] [] (.fin 0) _ rfl _

example : ∃ s' aux', Sketch.applyBlocks (Sketch.spec none [] [] (.fin 0)) { stats := none } bsW = some (.ok (s', aux')) ∧
    s'.zero = (zeroIncrements bsW).foldl F64.add (.fin 0) ∧
    Sketch.addBins (.sp []) (interp bsW).pos = some s'.pos ∧
    Sketch.addBins (.sp []) (interp bsW).neg = some s'.neg := by
  obtain ⟨s', aux', h⟩ := bsW_apply_ok
  exact ⟨s', aux', h, C07.applyBlocks_interp bsW _ s' _ aux' h⟩

example : ∃ s' aux', Sketch.decodeLoop 4 (Sketch.spec none [] [] (.fin 0)) { stats := none } (Wire.encBlocks bsW)
      = some (.ok (s', aux')) ∧
    s'.zero = (interp bsW).zero ∧
    (∃ cp, contentOf (interp bsW).pos = some cp ∧ s'.pos = .sp cp) ∧
    (∃ cn, contentOf (interp bsW).neg = some cn ∧ s'.neg = .sp cn) := by
  obtain ⟨s', aux', h⟩ := bsW_apply_ok
  have hd : Sketch.decodeLoop 4 (Sketch.spec none [] [] (.fin 0)) { stats := none } (Wire.encBlocks bsW)
      = some (.ok (s', aux')) := by
    rw [C07.decodeLoop_eq_interp bsW bsW_wf 4 (by decide)]; exact h
  exact ⟨s', aux', hd, C07.decode_empty_spec_eq_interp bsW bsW_wf 4 (by decide) none s' _ aux' hd⟩

end C07

/-! ## C08 -/
section C08
open DDS.Props.C08

/-- the bytes of `bsW` (blocks of 17, 2, 4 and 6 bytes) -/
def bytesW : Bytes :=
  [2, 0, 0, 0, 0, 0, 0, 242, 63, 0, 0, 0, 0, 0, 0, 0, 0, 4, 3, 5, 1, 13, 2, 15, 2, 6, 2, 2, 1]

theorem bytesW_eq : Wire.encBlocks bsW = bytesW := by decide

def fvfB (bytes : Bytes) : Bool :=
  bytes.tails.all fun suf =>
    match decVarfloat64 suf with
    | .ok (c, _) => c.isFinite
    | .error _ => true

theorem finiteVarfloats_of_b (bytes : Bytes) (h : fvfB bytes = true) : Sketch.FiniteVarfloats bytes := by
  intro suf c rest hs hd
  have hm : suf ∈ bytes.tails := (List.mem_tails _ _).2 hs
  have := List.all_eq_true.1 h suf hm
  rw [hd] at this
  exact this

theorem bytesW_fvf : Sketch.FiniteVarfloats bytesW := finiteVarfloats_of_b _ (by decide +kernel)

/-- `FiniteVarfloats` holds of a non-empty byte string in which varfloats CAN be read -/
theorem FiniteVarfloats_inhabited : ∃ bytes : Bytes, Sketch.FiniteVarfloats bytes ∧ bytes.length = 29 ∧
    ∃ suf c rest, suf <:+ bytes ∧ decVarfloat64 suf = .ok (c, rest) ∧ c = .fin 2 :=
  ⟨bytesW, bytesW_fvf, rfl, [3, 5, 1, 13, 2, 15, 2, 6, 2, 2, 1], .fin 2, [5, 1, 13, 2, 15, 2, 6, 2, 2, 1],
    ⟨[2, 0, 0, 0, 0, 0, 0, 242, 63, 0, 0, 0, 0, 0, 0, 0, 0, 4], rfl⟩, by decide +kernel, rfl⟩

/-- the predicate is not always true: a `+Inf` varfloat (`0x7ff0…` − 1 = +Inf) -/
example : ¬ Sketch.FiniteVarfloats (encVarfloatBits 0x7ff0000000000000) := by
  intro h
  have := h (encVarfloatBits 0x7ff0000000000000) .pinf [] (List.suffix_refl _) (by decide +kernel)
  cases this

example : (∃ j, 19 = (Wire.encBlocks (bsW.take j)).length ∧
        Wire.parseBlocks ((Wire.encBlocks bsW).take 19) = .ok (bsW.take j))
    ∨ Wire.parseBlocks ((Wire.encBlocks bsW).take 19) = .error .eof :=
  C08.parseBlocks_cut bsW bsW_wf 19 (by decide)

example : (∃ j, 21 = (Wire.encBlocks (bsW.take j)).length ∧
        Wire.parseBlocks ((Wire.encBlocks bsW).take 21) = .ok (bsW.take j))
    ∨ Wire.parseBlocks ((Wire.encBlocks bsW).take 21) = .error .eof :=
  C08.parseBlocks_cut bsW bsW_wf 21 (by decide)

example : ∃ j, j ≤ bsW.length ∧
      ((21 = (Wire.encBlocks (bsW.take j)).length ∧
          (Wire.encBlocks bsW).take 21 = Wire.encBlocks (bsW.take j)) ∨
       (∃ b k', b ∈ bsW ∧ 0 < k' ∧ k' < (Wire.encBlock b).length ∧
          (Wire.encBlocks bsW).take 21 = Wire.encBlocks (bsW.take j) ++ (Wire.encBlock b).take k')) :=
  C08.encBlocks_take bsW 21 (by decide)

example : Wire.parseBlocks (Wire.encBlocks (bsW.take 3) ++
      (Wire.encBlock (.bins .neg (.contiguous 3 1 [0x4000000000000000, 0x3ff8000000000000]))).take 4) = .error .eof :=
  C08.parseBlocks_cut_inside _ (by decide) _ (by decide) 4 (by decide) (by decide)

example (out : List Block) : Wire.parseBlocks (Wire.encBlocks (bsW.take 3) ++
      (Wire.encBlock (.bins .neg (.contiguous 3 1 [0x4000000000000000, 0x3ff8000000000000]))).take 4) ≠ .ok out :=
  C08.parseBlocks_never_ok_on_cut_block _ (by decide) _ (by decide) 4 (by decide) (by decide) out

example (rest : Bytes) : OkOrEof (Wire.parseBlock (5 :: rest)) := C08.parseBlock_defined_flag 5 rest (by decide)

example (rest : Bytes) :
    (13 ∈ definedFlagBytes ∧ OkOrEof (Wire.parseBlock (13 :: rest))) ∨
    (13 ∉ definedFlagBytes ∧ ∃ g, Wire.parseBlock (13 :: rest) = .error (.unknownFlag g)) :=
  C08.flag_byte_classification 13 (by decide) rest

example (m : Option MapId) (cp cn : Content) (z : F64) :
    ∃ e, Sketch.decodeAndMergeWith (Sketch.spec m cp cn z)
      (Wire.encBlocks (bsW.take 3) ++
        (Wire.encBlock (.bins .neg (.contiguous 3 1 [0x4000000000000000, 0x3ff8000000000000]))).take 4) = some (.error e) :=
  C08.decode_cut_inside_block_errors (bsW.take 3) (by decide) (finW_all _ (by decide +kernel)) _ (by decide)
    (finW_of_b _ (by decide +kernel)) 4 (by decide) (by decide) m cp cn z

example (n : Nat) (m : Option MapId) (cp cn : Content) (z : F64) (aux : Sketch.DecAux) :
    ∃ e, Sketch.decodeLoop (n + 1) (Sketch.spec m cp cn z) aux
      ((Wire.encBlock (.bins .pos (.deltasCounts [(-7, 0x4000000000000000)]))).take 3) = some (.error e) := by
  refine C08.decodeLoop_cut_block _ (by decide) n _ aux 3 (by decide) (by decide) ?_
  intro h
  have := (C08.applyBlocks_spec_total [.bins .pos (.deltasCounts [(-7, 0x4000000000000000)])]
    (finW_all _ (by decide +kernel)) m cp cn z aux).1
  apply this
  simp only [Sketch.applyBlocks, h]

example (m : Option MapId) (cp cn : Content) (z : F64) (aux : Sketch.DecAux) :
    (∃ j, 19 = (Wire.encBlocks (bsW.take j)).length ∧
        Sketch.decodeLoop 30 (Sketch.spec m cp cn z) aux ((Wire.encBlocks bsW).take 19)
          = Sketch.applyBlocks (Sketch.spec m cp cn z) aux (bsW.take j) ∧
        Sketch.applyBlocks (Sketch.spec m cp cn z) aux (bsW.take j) ≠ none)
    ∨ ∃ e, Sketch.decodeLoop 30 (Sketch.spec m cp cn z) aux ((Wire.encBlocks bsW).take 19)
        = some (.error e) :=
  C08.decode_cut bsW bsW_wf bsW_fin 19 (by decide) 30 (by decide) m cp cn z aux

example (m : Option MapId) (cp cn : Content) (z : F64) (aux : Sketch.DecAux) :
    Sketch.decodeLoop 29 (Sketch.spec m cp cn z) aux bytesW ≠ none :=
  C08.decode_total_spec 29 bytesW (by decide) m cp cn z aux bytesW_fvf

example (m : Option MapId) (cp cn : Content) (z : F64) :
    Sketch.decodeAndMergeWith (Sketch.spec m cp cn z) bytesW ≠ none :=
  C08.decodeAndMergeWith_total_spec bytesW m cp cn z bytesW_fvf

/-- … also on a truncated / garbage input -/
example (m : Option MapId) (cp cn : Content) (z : F64) :
    Sketch.decodeAndMergeWith (Sketch.spec m cp cn z) [13, 2, 15, 2, 6, 2, 255, 255] ≠ none :=
  C08.decodeAndMergeWith_total_spec _ m cp cn z (finiteVarfloats_of_b _ (by decide +kernel))

example (m : Option MapId) (cp cn : Content) (z : F64) (aux : Sketch.DecAux) :
    Sketch.applyBlocks (Sketch.spec m cp cn z) aux bsW ≠ none ∧
      ∀ s' aux', Sketch.applyBlocks (Sketch.spec m cp cn z) aux bsW = some (.ok (s', aux')) → s'.IsSparse :=
  C08.applyBlocks_spec_total bsW bsW_fin m cp cn z aux

example (m : Option MapId) (cp cn : Content) (z : F64) (aux : Sketch.DecAux) :
    Sketch.decodeLoop 4 (Sketch.spec m cp cn z) aux (Wire.encBlocks bsW) ≠ none :=
  C08.decode_encoded_total_spec bsW bsW_wf bsW_fin 4 (by decide) m cp cn z aux

end C08

end WireFormat

section SummaryWeighted
open DDS DDS.QuantileEx

/-! ## C10 -/
section C10
open DDS.Props.C10 DDS.Summary DDS.F64

theorem RepOK_inhabited : ∃ l : List (Rat × Rat), RepOK l ∧ l.length = 3 ∧ cnt l = 7 ∧ tot l = 15 :=
  ⟨exL, exL_ok, rfl, by decide +kernel, by decide +kernel⟩

/-- `RepFrom` from a non-zero state -/
theorem RepFrom_inhabited : RepFrom 2 6 [(-1, 1), (5 / 2, 4)] :=
  ⟨by decide +kernel, by decide +kernel, by decide +kernel, by decide +kernel, by decide +kernel,
    by decide +kernel, trivial⟩

example : ∃ m, minOf exL = .fin m ∧ (∃ p ∈ exL, p.1 = m) ∧ ∀ p ∈ exL, m ≤ p.1 :=
  min_is_least exL (by decide)
example : ∃ m, maxOf exL = .fin m ∧ (∃ p ∈ exL, p.1 = m) ∧ ∀ p ∈ exL, p.1 ≤ m :=
  max_is_greatest exL (by decide)

example : addAll (Summary.mk (.fin 2) (.fin 6) (.fin 0) (.fin 6) (.fin 3) (.fin 3)) [(-1, 1), (5 / 2, 4)] =
    Summary.mk (.fin (2 + cnt [(-1, 1), (5 / 2, 4)])) (.fin (6 + tot [(-1, 1), (5 / 2, 4)])) (.fin 0)
      (.fin (6 + tot [(-1, 1), (5 / 2, 4)]))
      (([(-1, 1), (5 / 2, 4)] : List (Rat × Rat)).foldl (fun m p => minStep (.fin p.1) m) (.fin 3))
      (([(-1, 1), (5 / 2, 4)] : List (Rat × Rat)).foldl (fun m p => maxStep (.fin p.1) m) (.fin 3)) :=
  fold_exact_from _ 2 6 _ _ RepFrom_inhabited

example : ((addAll Summary.new exL).count = .fin 0 ↔ ∀ p ∈ exL, p.2 = 0) ∧
    (F64.eq (addAll Summary.new exL).count (.fin 0) = true ↔ ∀ p ∈ exL, p.2 = 0) :=
  empty_iff exL exL_ok (by decide)

example : addAll Summary.new exL = exactOf exL := fold_exact_eq exL exL_ok

example : F64.lt (exactOf exL).max (exactOf exL).min = false := exact_stats_ordered exL (by decide)

/-- an exact-summary sketch whose statistics `[3/2, 3]` are tighter than the sketch's bins, so that
    the clamp acts (plain answer for `q = 1` is `4`) -/
def xC : XSketch :=
  { sk := C12.skC, st := { count := .fin 5, sum := .fin 10, sumCompensation := .fin 0, simpleSum := .fin 10,
                           min := .fin (3 / 2), max := .fin 3 } }

theorem xC_q1 : xC.quantile C12.envC (.fin 1) = .ok (.fin 3) := by decide +kernel
theorem xC_plain_q1 : xC.sk.quantile C12.envC (.fin 1) = .ok (.fin 4) := by decide +kernel

example : F64.lt (.fin 3) xC.st.min = false ∧ F64.gt (.fin 3) xC.st.max = false :=
  xsketch_quantile_clamped C12.envC xC (.fin 1) (.fin 3) (by decide +kernel) xC_q1

/-- a plain answer inside `[min, max]` is returned as is -/
def xC' : XSketch := { xC with st := { xC.st with min := .fin (-2), max := .fin 4 } }

example : xC'.quantile C12.envC (.fin 1) = .ok (.fin 4) :=
  xsketch_quantile_eq_plain C12.envC xC' (.fin 1) (.fin 4) (by decide +kernel) (by decide +kernel)
    (by decide +kernel)

example : xC.quantile C12.envC (.fin (3 / 2)) = .error .badQuantile :=
  xsketch_quantile_error C12.envC xC _ _ (C13.quantile_rejects _ _ _ (by decide +kernel))

/-- the additions of the exact variant, on `C13.skEx` -/
def xE : XSketch := { sk := C13.skEx, st := exactOf exL }

theorem xE_add_plain (c : Rat) (hc : 0 ≤ c) :
    xE.sk.addWithCount C13.envEx (.fin 5) (.fin c) 2 =
      some (.ok (if (1 : Rat) / 1000 < 5 then Sketch.spec (some C13.envEx.id) (Content.add [(0, 2), (3, 1)] 2 c) [(1, 1)] (.fin 1)
        else if (5 : Rat) < -(1 / 1000) then Sketch.spec (some C13.envEx.id) [(0, 2), (3, 1)] (Content.add [(1, 1)] 2 c) (.fin 1)
        else Sketch.spec (some C13.envEx.id) [(0, 2), (3, 1)] [(1, 1)] (F64.add (.fin 1) (.fin c)))) :=
  C13.add_accepts C13.envEx _ _ _ _ 5 c 2 (1 / 1000) 1000 rfl rfl (by decide +kernel) hc (by decide +kernel)

example : ∃ x', xE.addWithCount C13.envEx (.fin 5) (.fin 0) 2 = some (.ok x') ∧ x' = xE := by
  have h := C13.exact_add_zero_weight_noop C13.envEx xE (.fin 5) 2 _ (xE_add_plain 0 (by decide +kernel))
  exact ⟨xE, h, xsketch_add_zero_weight C13.envEx xE xE (.fin 5) (.fin 0) 2 (by decide +kernel) h⟩

example : ∃ x', xE.addWithCount C13.envEx (.fin 5) (.fin 1) 2 = some (.ok x') ∧
    x'.st = xE.st.add (.fin 5) (.fin 1) := by
  have h := C13.exact_add_accepted C13.envEx xE (.fin 5) (.fin 1) 2 _ (xE_add_plain 1 (by decide +kernel))
    (by decide +kernel)
  exact ⟨_, h, xsketch_add_accepted C13.envEx xE _ (.fin 5) (.fin 1) 2 (by decide +kernel) h⟩

example : ∃ x', xE.mergeWith xE = some (.ok x') ∧ x'.st = xE.st.mergeWith xE.st := by
  obtain ⟨sk', hm⟩ : ∃ sk', xE.sk.mergeWith xE.sk = some (.ok sk') :=
    ⟨_, C13.merge_accepts_spec (some C13.envEx.id) (some C13.envEx.id) [(0, 2), (3, 1)] [(1, 1)] [(0, 2), (3, 1)] [(1, 1)]
      (.fin 1) (.fin 1) (by decide +kernel)⟩
  have h : xE.mergeWith xE = some (.ok { sk := sk', st := xE.st.mergeWith xE.st }) := by
    simp only [XSketch.mergeWith, hm]
  exact ⟨_, h, (xsketch_stats_ops xE xE _ (.fin 1)).1 h⟩

example : ∃ x', xE.reweight (.fin 1) = some (.ok x') ∧ x'.st = xE.st.reweight (.fin 1) := by
  have h : xE.reweight (.fin 1) = some (.ok { sk := xE.sk, st := xE.st.reweight (.fin 1) }) := by
    simp only [XSketch.reweight, C13.reweight_one]
  exact ⟨_, h, (xsketch_stats_ops xE xE _ (.fin 1)).2.1 h⟩

end C10

/-! ## C11 -/
section C11
open DDS.Props.C11 Content

/-- weighted inputs with fractional weights on both sides and in the zero bucket -/
def wXs : List (Rat × Rat) := [(5, 1 / 2), (-2, 3 / 4), (1, 2), (12, 1 / 4), (-7, 1), (5, 3 / 2)]

theorem wXs_ok : ∀ p ∈ wXs, rabs p.1 ≤ 12 ∧ 0 ≤ p.2 := by decide +kernel

example : ∃ cp cn : Content, ∃ zf : F64,
      Sketch.addAll exEnv (Sketch.new (some exEnv.id) .sparse) wXs = some ⟨some exEnv.id, .sp cp, .sp cn, zf⟩ ∧
      cp.WF ∧ cn.WF ∧
      (∀ j, cp.lookup j =
        Content.lookup ((wXs.filter (fun p => decide ((4 : Rat) / 3 < p.1))).map
          (fun p => (exEnv.index (.fin (rabs p.1)), p.2))) j) ∧
      (∀ j, cn.lookup j =
        Content.lookup ((wXs.filter (fun p => decide (p.1 < -((4 : Rat) / 3)))).map
          (fun p => (exEnv.index (.fin (rabs p.1)), p.2))) j) :=
  addAll_weighted_state exEnv _ _ _ exContract wXs wXs_ok

theorem exCp_wf : exCp.WF := by simp [exCp, wf_cons]
theorem exCn_wf : exCn.WF := by simp [exCn, wf_cons]
theorem ex_W : (0 : Rat) < 0 + exCp.total + exCn.total := by rw [exCp_total, exCn_total]; norm_num

example (m : Option MapId) :
    (clampRank (1 / 4) < exCn.total ∧ ∃ j w, (j, w) ∈ exCn ∧
        Sketch.quantile exEnv ⟨m, .sp exCp, .sp exCn, .fin 0⟩ (.fin (1 / 8)) = .ok (F64.neg (exEnv.value j)) ∧
        exCn.total - cumul exCn j < min (clampRank (1 / 4) + 1) exCn.total ∧
        min (clampRank (1 / 4) + 1) exCn.total ≤ exCn.total - cumul exCn (j - 1)) ∨
    (exCn.total ≤ clampRank (1 / 4) ∧ clampRank (1 / 4) < 0 + exCn.total ∧
        Sketch.quantile exEnv ⟨m, .sp exCp, .sp exCn, .fin 0⟩ (.fin (1 / 8)) = .ok (.fin 0)) ∨
    (0 + exCn.total ≤ clampRank (1 / 4) ∧ ∃ j w, (j, w) ∈ exCp ∧
        Sketch.quantile exEnv ⟨m, .sp exCp, .sp exCn, .fin 0⟩ (.fin (1 / 8)) = .ok (exEnv.value j) ∧
        0 + exCn.total + cumul exCp (j - 1) ≤ clampRank (1 / 4) ∧
        clampRank (1 / 4) < 0 + exCn.total + cumul exCp j) :=
  quantile_weighted exEnv m exCp exCn 0 (1 / 8) (1 / 4) exCp_wf exCn_wf le_rfl (by norm_num) (by norm_num)
    ex_W exExact

example : 0 ≤ clampRank (1 / 4) ∧ clampRank (1 / 4) < 0 + exCp.total + exCn.total ∧
    (0 + exCp.total + exCn.total < 1 → clampRank (1 / 4) = 0) :=
  rank_clamped exCp exCn 0 (1 / 8) (1 / 4) (by norm_num) (by norm_num) ex_W exExact

end C11

end SummaryWeighted

section EmptySides
open DDS DDS.QuantileEx Content

/-- `QExact` with an EMPTY negative side and a zero bucket: `cp = [(0, 3/2), (1, 1/2)]`, `z = 1`,
    `W = 3`, `q = 1/2`, rank 1 -/
theorem qexact_noneg : QExact [(0, 3 / 2), (1, 1 / 2)] [] 1 (1 / 2) 1 :=
  ⟨by decide +kernel, by decide +kernel, by decide +kernel, by decide +kernel, by decide +kernel,
    by decide +kernel, by decide +kernel, by decide +kernel⟩

/-- … and with an EMPTY positive side -/
theorem qexact_nopos : QExact [] [(0, 3 / 2), (1, 1 / 2)] 1 (1 / 2) 1 :=
  ⟨by decide +kernel, by decide +kernel, by decide +kernel, by decide +kernel, by decide +kernel,
    by decide +kernel, by decide +kernel, by decide +kernel⟩

theorem wf_32 : Content.WF [(0, 3 / 2), (1, 1 / 2)] := RoundTrip.wf_of_wfb _ (by decide +kernel)

example (m : Option MapId) :
    ∃ a, Sketch.quantile exEnv ⟨m, .sp [(0, 3 / 2), (1, 1 / 2)], .sp [], .fin 1⟩ (.fin (1 / 2)) = .ok (.fin a) ∧ 0 ≤ a :=
  (C11.answer_from_nonempty_side exEnv _ _ _ exContract m _ [] 1 (1 / 2) 1 wf_32 wf_nil (by norm_num)
    (by norm_num) (by norm_num) (by decide +kernel) qexact_noneg).1 rfl

example (m : Option MapId) :
    ∃ a, Sketch.quantile exEnv ⟨m, .sp [], .sp [(0, 3 / 2), (1, 1 / 2)], .fin 1⟩ (.fin (1 / 2)) = .ok (.fin a) ∧ a ≤ 0 :=
  (C11.answer_from_nonempty_side exEnv _ _ _ exContract m [] _ 1 (1 / 2) 1 wf_nil wf_32 (by norm_num)
    (by norm_num) (by norm_num) (by decide +kernel) qexact_nopos).2 rfl

/-! small range / congruence hypotheses not exercised elsewhere -/
example : ∃ s', Sketch.addWithCount C13.envEx (Sketch.spec none [(1, 1)] [] (.fin 0)) (.fin 5) (.fin (1 / 2)) 2 = some (.ok s') :=
  C13.add_accepts_ok C13.envEx none _ _ _ 5 (1 / 2) 2 (1 / 1000) 1000 rfl rfl (by decide +kernel) (by decide +kernel)
    (by decide +kernel)
example : Sketch.quantile C13.envEx C13.skEx (.fin (-1 / 10)) = .error .badQuantile :=
  C13.quantile_negative _ _ _ (by decide +kernel)
example : Sketch.quantile C13.envEx C13.skEx (.fin (11 / 10)) = .error .badQuantile :=
  C13.quantile_above_one _ _ _ (by decide +kernel)
example : Codec.zigzag (-12345) < W64 := C18.zigzag_range _ (by decide) (by decide)
example : Codec.vfUnword (Codec.vfWord 0x4059000000000000) = 0x4059000000000000 := C18.vfword_roundtrip _ (by decide)
example : ∀ x ∈ Codec.encVarfloatBits 0x4059000000000000, x < 256 := C18.varfloat_bytes _ (by decide)
example : ((5#64) ||| (3#64) <<< 3).toNat = ((5#64).toNat + (3#64).toNat * 2 ^ 3) % W64 :=
  C18Bits.acc_or_bits _ _ 3 (by decide)
example : ((0x0123456789abcdef#64).rotateLeft 6).toNat = Codec.rotl64 (0x0123456789abcdef#64).toNat 6 :=
  C18Bits.rotl64_bits _ 6 (by decide)
example : ((0x0123456789abcdef#64).rotateRight 6).toNat = Codec.rotr64 (0x0123456789abcdef#64).toNat 6 :=
  C18Bits.rotr64_bits _ 6 (by decide)

end EmptySides

section Observers
open DDS

/-! ## C12 -/
section C12
open DDS.Props.C12

def cpC : Content := [(0, 2), (3, 1)]
def cnC : Content := [(1, 1)]

theorem cpC_wf : cpC.WF := RoundTrip.wf_of_wfb _ (by decide +kernel)
theorem cnC_wf : cnC.WF := RoundTrip.wf_of_wfb _ (by decide +kernel)

theorem hxC : F64.add (F64.add (.fin 1) (.fin cpC.total)) (.fin cnC.total) =
    .fin (1 + cpC.total + cnC.total) := by decide +kernel

example : (Sketch.spec (some envC.id) cpC cnC (.fin 1)).getCount = .fin (1 + cpC.total + cnC.total) :=
  count_eq_total _ cpC cnC 1 hxC

example : (Sketch.spec (some envC.id) cpC cnC (.fin 1)).isEmpty = true ↔ 1 + cpC.total + cnC.total = 0 :=
  isEmpty_iff_count_zero _ cpC cnC 1 cpC_wf cnC_wf (by norm_num)

example : (Sketch.spec (some envC.id) cpC cnC (.fin 1)).isEmpty = true ↔
    (Sketch.spec (some envC.id) cpC cnC (.fin 1)).getCount = .fin 0 :=
  isEmpty_iff_getCount_zero _ cpC cnC 1 cpC_wf cnC_wf (by norm_num) hxC

example : ∃ l, (Sketch.spec (some envC.id) cpC cnC (.fin 1)).forEachList envC = some l ∧ l.length = 4 ∧
    (∀ p ∈ l, 0 < p.2) ∧ (l.map (·.2)).sum = 1 + cpC.total + cnC.total := by
  obtain ⟨l, hl⟩ := forEach_total envC (some envC.id) cpC cnC 1
  refine ⟨l, hl, ?_, forEach_weights_positive envC _ cpC cnC 1 cpC_wf cnC_wf (by norm_num) l hl,
    forEach_weights_sum envC _ cpC cnC 1 l hl⟩
  rw [forEachList_spec] at hl
  cases hl
  decide +kernel

example : (0 : Int) ≤ 3 := min_le_max_index cpC cpC_wf 0 3 (by decide +kernel) (by decide +kernel)

theorem qrankC : (Sketch.spec (some envC.id) cpC cnC (.fin 1)).qrank (.fin (1 / 4)) =
    .fin (max 0 (F64.rv ((1 / 4) * F64.rv (1 + cpC.total + cnC.total - 1)))) :=
  qrank_spec _ cpC cnC 1 cpC_wf cnC_wf (by norm_num) hxC (1 / 4) (by norm_num) (by norm_num)

example : (Sketch.spec (some envC.id) cpC cnC (.fin 1)).quantile envC (.fin (1 / 4)) =
    .ok (res envC cpC cnC 1 (max 0 (F64.rv ((1 / 4) * F64.rv (1 + cpC.total + cnC.total - 1))))) :=
  quantile_eq_res envC _ cpC cnC 1 _ (by decide +kernel) (by decide +kernel) _ qrankC

example : F64.le (res envC cpC cnC 1 (1 / 2)) (res envC cpC cnC 1 (7 / 2)) = true :=
  res_mono envC _ _ _ envC_contract cpC cnC cpC_wf cnC_wf 1 _ _ (by norm_num)

/-! sketches with NON-sparse stores (`C06.exS`: dense positive store, paginated negative store) -/

theorem hxS : F64.add (F64.add (.fin (3 / 4)) (.fin C06.exCp.total)) (.fin C06.exCn.total) =
    .fin (3 / 4 + C06.exCp.total + C06.exCn.total) := by decide +kernel

theorem exS_ne : F64.eq C06.exS.getCount (.fin 0) = false := by decide +kernel

example : ∃ a b, C06.exS.quantile envC (.fin (1 / 4)) = .ok a ∧ C06.exS.quantile envC (.fin (3 / 4)) = .ok b ∧
    F64.le a b = true := by
  obtain ⟨a, ha⟩ := C13.quantile_ok envC C06.exS (.fin (1 / 4)) (by decide +kernel) exS_ne
  obtain ⟨b, hb⟩ := C13.quantile_ok envC C06.exS (.fin (3 / 4)) (by decide +kernel) exS_ne
  exact ⟨a, b, ha, hb, quantile_mono_refines envC _ _ _ envC_contract C06.exS C06.exCp C06.exCn (3 / 4)
    C06.exS_refines rfl (by norm_num) hxS _ _ a b (by decide +kernel)
    (fun h => absurd h (by decide)) ha hb⟩

/-- a sketch WITHOUT positive values: new dense positive store, paginated negative store -/
def exSn : Sketch := { mapping := some C06.exM, pos := Store.new .dense, neg := .pg C06.exP, zero := .fin (3 / 4) }

theorem exSn_refines : exSn.Refines [] C06.exCn := ⟨C15.store_new_refines_nil .dense, C06.exS_refines.neg⟩

theorem hxSn : F64.add (F64.add (.fin (3 / 4)) (.fin (Content.total []))) (.fin C06.exCn.total) =
    .fin (3 / 4 + Content.total [] + C06.exCn.total) := by decide +kernel

theorem hpredSn : F64.sub (.fin (3 / 4 + Content.total [] + C06.exCn.total)) F64.one ≠
    .fin (3 / 4 + Content.total [] + C06.exCn.total) := by decide +kernel

example : (Sketch.spec (some C06.exM) [] C06.exCn (.fin (3 / 4))).usesPos (.fin 1) = false :=
  usesPos_false_of_exact _ [] C06.exCn (3 / 4) Content.wf_nil C06.exS_refines.neg.wf (by norm_num) hxSn rfl
    (by decide +kernel) hpredSn 1 (by norm_num) (by norm_num)

example (q : F64) : exSn.quantile envC q = (Sketch.spec exSn.mapping [] C06.exCn exSn.zero).quantile envC q :=
  quantile_congr_exact envC exSn [] C06.exCn (3 / 4) exSn_refines rfl (by norm_num) hxSn hpredSn q

end C12

/-! ## C13 -/
section C13
open DDS.Props.C13

example : Sketch.addWithCount envEx skEx (.fin (-1001)) (.fin 1) 2 = some (.error .tooLow) :=
  add_too_low' envEx skEx _ _ 2 (1 / 1000) rfl (by decide +kernel) (by decide +kernel) (by decide +kernel)
    (by decide +kernel)

example : Sketch.addWithCount envEx skEx (.fin 5) (.fin 0) 2 = some (.ok skEx) :=
  add_zero_count_noop_spec envEx _ _ _ 1 5 2 (1 / 1000) 1000 rfl rfl (by decide +kernel) (by decide +kernel)
    (by decide +kernel)

theorem skEx_refused : Sketch.addWithCount envEx skEx (.fin 1001) (.fin 1) 2 = some (.error .tooHigh) :=
  add_too_high envEx skEx _ _ 2 (by decide +kernel) (by decide +kernel) (by decide +kernel)

example : SkErr.tooHigh = .negativeCount ∨ SkErr.tooHigh = .tooHigh ∨ SkErr.tooHigh = .tooLow ∨ SkErr.tooHigh = .nan :=
  add_error_cases envEx skEx _ _ 2 _ skEx_refused

example (s' : Sketch) : Sketch.addWithCount envEx s' (.fin 1001) (.fin 1) 2 = some (.error .tooHigh) ∨
    Sketch.addWithCount envEx s' (.fin 1001) (.fin 1) 2 = none :=
  add_error_state_independent envEx skEx s' _ _ 2 _ skEx_refused

theorem skEx_ne : F64.eq skEx.getCount (.fin 0) = false := by decide +kernel

example : ∃ v, Sketch.quantile envEx skEx (.fin (1 / 2)) = .ok v :=
  quantile_ok envEx skEx _ (by decide +kernel) skEx_ne

example : Sketch.quantiles envEx skEx [.fin (1 / 2), .fin 2, .fin 1] = .error .badQuantile :=
  quantiles_rejects envEx skEx _ (.fin 2) (by simp) (by decide +kernel) skEx_ne

example (e : SkErr) (h : Sketch.quantile envEx skEx (.fin 2) = .error e) : e = .badQuantile ∨ e = .empty :=
  quantile_error_cases envEx skEx _ e h

example : skEx.mergeWith (Sketch.new (some { envEx.id with kind := .cubic }) .dense) = some (.error .mismatch) :=
  merge_rejects_kind skEx _ envEx.id { envEx.id with kind := .cubic } rfl rfl (by decide)

example : skEx.mergeWith skEx = some (.ok (Sketch.spec (some envEx.id) (Content.merge [(0, 2), (3, 1)] [(0, 2), (3, 1)])
    (Content.merge [(1, 1)] [(1, 1)]) (F64.add (.fin 1) (.fin 1)))) :=
  merge_accepts_spec _ _ _ _ _ _ _ _ (by decide +kernel)

example : ∃ sk, XSketch.addWithCount envEx { sk := skEx, st := Summary.new } (.fin 5) (.fin 1) 2 =
    some (.ok { sk := sk, st := Summary.new.add (.fin 5) (.fin 1) }) :=
  ⟨_, exact_add_accepted envEx { sk := skEx, st := Summary.new } (.fin 5) (.fin 1) 2 _
    (add_accepts envEx _ _ _ _ 5 1 2 (1 / 1000) 1000 rfl rfl (by decide +kernel) (by decide +kernel)
      (by decide +kernel)) (by decide +kernel)⟩

example : XSketch.addWithCount envEx { sk := skEx, st := Summary.new } (.fin 5) (.fin 0) 2 =
    some (.ok { sk := skEx, st := Summary.new }) :=
  exact_add_zero_weight_noop envEx { sk := skEx, st := Summary.new } (.fin 5) 2 _
    (add_accepts envEx _ _ _ _ 5 0 2 (1 / 1000) 1000 rfl rfl (by decide +kernel) (by decide +kernel)
      (by decide +kernel))

example : XSketch.addWithCount envEx { sk := skEx, st := Summary.new } (.fin 1001) (.fin 1) 2 =
    some (.error .tooHigh) :=
  exact_add_validates_first envEx { sk := skEx, st := Summary.new } _ _ 2 _ skEx_refused

end C13

end Observers

section ReadsClearReweight
open DDS

/-! ## C14 -/
section C14
open DDS.Props.C14

example : ∃ st' b, Sketch.encodeStore (.sp [(1, 2)]) .pos = some (st', b) ∧ st' = .sp [(1, 2)] ∧
    (st' = .sp [(1, 2)] ∨ ∃ p t, Store.sp [(1, 2)] = .pg p ∧ p.compact = some t ∧ st' = .pg t) := by
  have h : ∃ b, Sketch.encodeStore (.sp [(1, 2)]) .pos = some (.sp [(1, 2)], b) := ⟨_, rfl⟩
  obtain ⟨b, hb⟩ := h
  exact ⟨_, b, hb, encodeStore_sp _ _ _ _ hb, encodeStore_store _ _ _ _ hb⟩

/-- a sketch with a dense positive store and a sparse negative store, both non-empty -/
def sdS : Sketch := { mapping := some C06.exM, pos := .d C06.exD, neg := .sp C06.exCn, zero := .fin (3 / 4) }

theorem sdS_refines : sdS.Refines C06.exCp C06.exCn :=
  ⟨C06.exS_refines.pos, Store.sp_refines _ C06.exS_refines.neg.wf⟩

theorem sdS_encodes : ∃ s' bl, sdS.encode false = some (s', bl) := by
  obtain ⟨s', bl, h, _⟩ := C06.encode_observably_pure sdS C06.exCp C06.exCn sdS_refines C06.exS_pos
    (show RoundTrip.EncOK (.sp C06.exCn) from ⟨by decide +kernel, by decide +kernel⟩)
    C06.exM rfl (3 / 4) rfl false
  exact ⟨s', bl, h⟩

example : ∃ s' bl, sdS.encode false = some (s', bl) ∧ s' = sdS ∧ s'.mapping = sdS.mapping ∧ s'.zero = sdS.zero := by
  obtain ⟨s', bl, h⟩ := sdS_encodes
  exact ⟨s', bl, h, encode_pure_sp_d sdS s' false bl (Or.inr ⟨_, rfl⟩) (Or.inl ⟨_, rfl⟩) h,
    (encode_pure sdS s' false bl h).1, (encode_pure sdS s' false bl h).2.1⟩

example : ∃ st' b, Sketch.encodeStore (.d C06.exD) .pos = some (st', b) ∧ st' = .d C06.exD := by
  obtain ⟨bl, c, h, _⟩ := C06.encodeStore_dense_denotes C06.exD (C06.exD_arr.inv rfl) C06.exD_arr.bounded32
    C06.exD_arr.wt_wok .pos
  exact ⟨_, bl, h, encodeStore_d _ _ _ _ h⟩

example : ∃ x' bl, C06.exX.encode false = some (x', bl) ∧ x'.st = C06.exX.st ∧
    ∃ bl', C06.exX.sk.encode false = some (x'.sk, bl') := by
  obtain ⟨x', bl, h, _⟩ := C06.xsketch_decode_encode C06.exX C06.exCp C06.exCn C06.exS_refines C06.exS_pos
    C06.exS_neg C06.exM rfl C06.exM_ok (3 / 4) rfl (by decide +kernel) (43 / 4) 10 (-3) 9 C06.exX_stats false
  exact ⟨x', bl, h, xencode_pure C06.exX x' false bl h⟩

theorem NZ_inhabited : Content.NZ [(1, -2), (4, 3)] := by
  refine ⟨⟨by decide, trivial⟩, ?_⟩
  intro p hp
  simp at hp
  rcases hp with rfl | rfl <;> simp

example : ([((1 : Int), (2 : Rat)), (4, -3), (2, 5)]).foldl (fun acc p => Content.add acc p.1 p.2) [(1, -2), (4, 3)] =
    ([((2 : Int), (5 : Rat)), (1, 2), (4, -3)]).foldl (fun acc p => Content.add acc p.1 p.2) [(1, -2), (4, 3)] :=
  foldl_add_perm _ NZ_inhabited (by decide +kernel)

example : (1 : Int) ∈ [3, 1, 2] ∧ ∀ y ∈ ([3, 1, 2] : List Int), 1 ≤ y := listMin?_spec [3, 1, 2] 1 rfl
example : (3 : Int) ∈ [3, 1, 2] ∧ ∀ y ∈ ([3, 1, 2] : List Int), y ≤ 3 := listMax?_spec [3, 1, 2] 3 rfl

/-- a store with an existing NON-EMPTY page (indexes 4, 5 ↦ 2, 0), pages of two lines, and four
    buffered entries, three of which lie on that page -/
def demoR : PStore := { C14.demoQ with pages := #[#[2, 0]], minPageIndex := 2 }

theorem PInv_inhabited : PagCompact.PInv demoR ∧ demoR.pages = #[#[2, 0]] ∧ demoR.buffer = [4, 9, 5, 4] :=
  ⟨PagCompact.pinv_of_lt _ (by decide), rfl, rfl⟩

theorem demoR_compact : ∃ t, demoR.compact = some t ∧ t.buffer = [9] ∧ t.pages = #[#[4, 1]] := by
  unfold PStore.compact
  rw [show demoR.buffer = C14.demoQ.buffer from rfl, C14.demoQ_sorted]
  refine ⟨_, rfl, ?_, ?_⟩
  · rfl
  · decide +kernel

example : ∃ t, demoR.compact = some t ∧ t.buffer = [9] ∧ t.pages = #[#[4, 1]] ∧ t.abs = demoR.abs := by
  obtain ⟨t, ht, hb, hp⟩ := demoR_compact
  refine ⟨t, ht, hb, hp, compact_preserves_abs demoR t PInv_inhabited.1 ?_ ht⟩
  intro i hi
  apply pageIndex_lt_maxInt demoR (by decide)
  simp only [demoR, C14.demoQ, List.mem_cons, List.not_mem_nil, or_false] at hi
  rcases hi with rfl | rfl | rfl | rfl <;> decide

/-- permuting the buffer of a store that HAS a non-empty page -/
example : (Store.pg (withBuffer demoR [9, 5, 4, 4])).abs = (Store.pg demoR).abs ∧
    (Store.pg (withBuffer demoR [9, 5, 4, 4])).binsList = (Store.pg demoR).binsList ∧
    ∀ r, (Store.pg (withBuffer demoR [9, 5, 4, 4])).keyAtRank r = (Store.pg demoR).keyAtRank r :=
  let h := pstore_observers_perm_buffer demoR [9, 5, 4, 4] (by decide)
  ⟨h.1, h.2.2.2.2.2.1, h.2.2.2.2.2.2⟩

end C14

/-! ## C15 -/
section C15
open DDS.Props.C15

/-- a store with a non-empty table of (empty) page slots and a stale `minPageIndex` -/
def pe3 : PStore := { PStore.new with pages := #[#[], #[], #[]], minPageIndex := -7 }

theorem pe3_empty : PEmpty pe3 := ⟨rfl, by intro pg h; simp [pe3] at h; subst h; rfl⟩

theorem PEmpty_inhabited : ∃ s : PStore, PEmpty s ∧ s.pages.size = 3 ∧ s.minPageIndex = -7 :=
  ⟨pe3, pe3_empty, rfl, rfl⟩

example : (Store.pg pe3).Refines [] := pempty_refines _ pe3_empty

/-- clearing a sketch that holds data (dense + paginated stores) -/
example : C06.exS.clear.Refines [] [] ∧ C06.exS.clear.zero = .fin 0 ∧ C06.exS.clear.mapping = C06.exS.mapping ∧
    C06.exS.clear.pos.kind = C06.exS.pos.kind ∧ C06.exS.clear.neg.kind = C06.exS.neg.kind :=
  sketch_clear_refines C06.exS

example (o' : Int) : ({ C06.exD.clear with offset := o' } : DStore).extendRange 3 9 = C06.exD.clear.extendRange 3 9 :=
  extendRange_offset C06.exD.clear rfl o' 3 9

end C15

/-! ## C16 -/
section C16
open DDS.Props.C16 DDS.Props.C02 DDS.Sketch

example : (target demoEnv (1 / 1000) demoTree.flat).reweight (.fin 3) =
    some (.ok (target demoEnv (1 / 1000) (scaleInputs 3 demoTree.flat))) :=
  reweight_target demoEnv (1 / 1000) 1000 demoTree.flat demo_acc 3 (by norm_num) (by
    have := demo_exact3.whole
    rwa [zeroPart_scaleInputs, sum_map_mul] at this)

example : Accepted 1000 (scaleInputs 3 demoTree.flat) := accepted_scaleInputs 1000 (by norm_num) demo_acc

example : Content.merge [] (Content.scale [(3, 2), (1, 0), (3, 1 / 2)] (1 / 4)) =
    Content.scale (Content.merge [] [(3, 2), (1, 0), (3, 1 / 2)]) (1 / 4) :=
  canon_scale _ (by decide +kernel) (1 / 4) (by norm_num)

/-- the exact-summary sketch with data, reweighted by 3 -/
def xR : XSketch := { sk := spec (some demoId) [(1, 2)] [(3, 1)] (.fin 5), st := Summary.exactOf C10.exL }

example : ∃ x', xR.reweight (.fin 3) = some (.ok x') ∧ xR.sk.reweight (.fin 3) = some (.ok x'.sk) ∧
    x'.st = xR.st.reweight (.fin 3) ∧ x'.sk.pos = .sp (Content.scale [(1, 2)] 3) := by
  obtain ⟨r, hr, hp, _⟩ := reweight_contents (some demoId) [(1, 2)] [(3, 1)] (.fin 5) 3 (by norm_num)
  have hr' : xR.sk.reweight (.fin 3) = some (.ok r) := hr
  have h : xR.reweight (.fin 3) = some (.ok { sk := r, st := xR.st.reweight (.fin 3) }) := by
    simp only [XSketch.reweight, hr']
  exact ⟨_, h, (xsketch_reweight xR _ (.fin 3) h).1, (xsketch_reweight xR _ (.fin 3) h).2, hp⟩

example : ((Summary.exactOf C10.exL).reweight .pinf).min = (Summary.exactOf C10.exL).min ∧
    ((Summary.exactOf C10.exL).reweight .pinf).max = (Summary.exactOf C10.exL).max :=
  summary_reweight_minmax _ .pinf rfl

end C16

end ReadsClearReweight

section MappingsRebinDataset
open DDS

/-! ## C03 -/
section C03
open DDS.Props.C03

example (k : MKind) :
    -2147483648 ≤ Mapping.index (⟨k, 2, 0⟩ : Mapping.Params ℝ) 1 ∧
      Mapping.index (⟨k, 2, 0⟩ : Mapping.Params ℝ) 1 ≤ 2147483647 :=
  index_int32 ⟨k, 2, 0⟩ (by norm_num) 1 (RealMap.one_indexable k).1 (RealMap.one_indexable k).2

example (k : MKind) (off : ℝ) :
    Mapping.index (⟨k, 2, off⟩ : Mapping.Params ℝ) 3 ≤ Mapping.index ⟨k, 2, off⟩ 5 ∧
    Mapping.lowerBound (⟨k, 2, off⟩ : Mapping.Params ℝ) (Mapping.index ⟨k, 2, off⟩ 3) ≤ 3 ∧
    (3 : ℝ) ≤ Mapping.lowerBound (⟨k, 2, off⟩ : Mapping.Params ℝ) (Mapping.index ⟨k, 2, off⟩ 3 + 1) ∧
    Mapping.lowerBound (⟨k, 2, off⟩ : Mapping.Params ℝ) 4 < Mapping.lowerBound ⟨k, 2, off⟩ 7 ∧
    (0 < Mapping.relativeAccuracy (⟨k, 2, off⟩ : Mapping.Params ℝ) ∧
      Mapping.relativeAccuracy (⟨k, 2, off⟩ : Mapping.Params ℝ) < 1) ∧
    Mapping.relativeAccuracy (Mapping.ofAlpha k (1 / 100 : ℝ)) = 1 / 100 :=
  ⟨index_mono _ (by norm_num) 3 5 (by norm_num) (by norm_num), lowerBound_le _ (by norm_num) 3 (by norm_num),
    le_lowerBound_succ _ (by norm_num) 3 (by norm_num), lowerBound_strictMono _ (by norm_num) 4 7 (by norm_num),
    relativeAccuracy_pos_lt_one _ (by norm_num), relativeAccuracy_ofAlpha k _ (by norm_num) (by norm_num)⟩

end C03

/-! ## C17 -/
section C17
open DDS.Props.C17 DDS.Rebin DDS.ChangeMapping

example : ∑ j ∈ Finset.Icc (0 : ℤ) 1, prop G2.b 1 3 j = 1 :=
  C17.prop_sum_eq_one G2.strictMono.monotone (by norm_num) (by norm_num [G2_b]) (by norm_num [G2_b])

example : ∑ j ∈ Finset.Icc (0 : ℤ) 3, rebin G3.b G2.b 1 src0 j = total src0 :=
  C17.rebin_total G3.strictMono G2.strictMono.monotone one_pos src0 (by norm_num) src0_low src0_high

example : total src0 = 18 := by norm_num [total, src0]

example : ∃ pre p post, src0 = pre ++ p :: post ∧ total pre ≤ 7 ∧ 7 < total pre + p.2 ∧
    G2.b 1 < sHi G3.b 1 p.1 ∧ sLo G3.b 1 p.1 < G2.b (1 + 1) :=
  C17.rebin_quantile_bin G3.strictMono G2.strictMono.monotone one_pos src0_sorted src0_nonneg src0_low
    (by norm_num) (by norm_num) below0 above0

example (i j : ℤ) : prop G2.b (G2.b i) (G2.b (i + 1)) j = if j = i then 1 else 0 :=
  C17.identity_prop G2.strictMono i j

example : (0 : Int) ≤ 1 ∧ (1 : Int) < 0 + (3 : Nat) ∧ F64.lt ((envPow2 0).lowerBound 1) (.fin 5) = true ∧
      F64.le (fInter (envPow2 0) (.fin 1) (.fin 5) 1) (.fin 0) = false ∧
      F64.fin 4 = fWeight (envPow2 0) (.fin 1) (.fin 5) (.fin 8) 1 :=
  C17.spreadBin_mem (envPow2 0) (.fin 1) (.fin 5) (.fin 8) 3 0 1 _ ex_mem

example (k : MKind) (off : ℝ) : StrictMono (Mapping.lowerBound (⟨k, 2, off⟩ : Mapping.Params ℝ)) :=
  mapping_lowerBound_strictMono _ (by norm_num)

/-- the grid `G2` concretely: bounds `1, 2`, and the bin of `3` is bin `1` -/
example : ∃ G : Grid ℚ, G.b 0 = 1 ∧ G.b 1 = 2 ∧ G.idx 3 = 1 := ⟨G2, by norm_num [G2_b], by norm_num [G2_b], by
  show Int.log 2 (3 : ℚ) = 1
  rw [show (3 : ℚ) = ((3 : ℕ) : ℚ) by norm_num, Int.log_natCast]
  norm_num [Nat.log]⟩

end C17

/-! ## C19 -/
section C19
open DDS.Props.C19

def m103 : MapId := { m102 with gamma := .fin (103 / 100) }

example : m102.equals m103 = m103.equals m102 :=
  equals_symm m102 m103 _ _ 0 0 gamma102_eq rfl rfl rfl

example : m102.equals { kind := .log, gamma := F64.ofBits 0x3FF051EB851EB852, indexOffset := .fin 0 } = true :=
  equals_of_identity m102 _ _ 0 rfl rfl rfl gamma102_eq rfl

example : Proto.mappingFromProto (some { (Proto.mappingToProto m102) with interpolation := 2 }) = .error .badInterpolation :=
  mappingFromProto_rejects_unknown_interpolation _ (Or.inl rfl)

example : Proto.mappingFromProto (some { (Proto.mappingToProto m102) with interpolation := 7 }) = .error .badInterpolation :=
  mappingFromProto_rejects_unknown_interpolation _ (Or.inr (by decide))

example (rest : Bytes) : match m102.toBlock with
    | .mapping sub g o => MapId.ofBlock sub g o = .ok m102
    | _ => False :=
  (binary_roundtrip m102 m102_valid.1 m102_valid.2 m102_valid.3 rest).2

end C19

/-! ## C20 -/
section C20
open DDS.Props.C20 DDS.Dataset

theorem DatasetInv_inhabited : Dataset.Inv ex ∧ ex.values.length = 5 := ⟨ex_inv, ex_len⟩

example : (ex.lowerQuantile (.fin (1 / 2))).2 =
    .val ((ex.values.mergeSort (fun a b => decide (a ≤ b)))[⌊(1 / 2 : Rat) * ((ex.values.length : Rat) - 1)⌋.toNat]!) :=
  lowerQuantile_spec_of_rep ex ex_inv (by rw [ex_len]; decide) (by rw [ex_len]; decide) _ (by norm_num) (by norm_num)
    (by rw [ex_len]; decide +kernel)

example : (ex.upperQuantile (.fin (1 / 2))).2 =
    .val ((ex.values.mergeSort (fun a b => decide (a ≤ b)))[⌈(1 / 2 : Rat) * ((ex.values.length : Rat) - 1)⌉.toNat]!) :=
  upperQuantile_spec_of_rep ex ex_inv (by rw [ex_len]; decide) (by rw [ex_len]; decide) _ (by norm_num) (by norm_num)
    (by rw [ex_len]; decide +kernel)

example : ∃ fl : Rat, F64.mul (.fin (3 / 10)) (.fin ((ex.values.length : Rat) - 1)) = .fin fl ∧
      ((⌊(3 / 10 : Rat) * ((ex.values.length : Rat) - 1)⌋ : Int) : Rat) ≤ fl ∧
      fl ≤ ((⌈(3 / 10 : Rat) * ((ex.values.length : Rat) - 1)⌉ : Int) : Rat) ∧
      0 ≤ ⌊fl⌋ ∧ ⌊fl⌋.toNat < ex.values.length ∧
      ex.lowerQuantile (.fin (3 / 10)) =
        (ex.sort, .val ((ex.values.mergeSort (fun a b => decide (a ≤ b)))[⌊fl⌋.toNat]!)) :=
  lowerQuantile_spec_exact ex ex_inv (by rw [ex_len]; decide) (by rw [ex_len]; decide) _ (by norm_num) (by norm_num)

example : ∃ fl : Rat, F64.mul (.fin (3 / 10)) (.fin ((ex.values.length : Rat) - 1)) = .fin fl ∧
      ((⌊(3 / 10 : Rat) * ((ex.values.length : Rat) - 1)⌋ : Int) : Rat) ≤ fl ∧
      fl ≤ ((⌈(3 / 10 : Rat) * ((ex.values.length : Rat) - 1)⌉ : Int) : Rat) ∧
      0 ≤ ⌈fl⌉ ∧ ⌈fl⌉.toNat < ex.values.length ∧
      ex.upperQuantile (.fin (3 / 10)) =
        (ex.sort, .val ((ex.values.mergeSort (fun a b => decide (a ≤ b)))[⌈fl⌉.toNat]!)) :=
  upperQuantile_spec_exact ex ex_inv (by rw [ex_len]; decide) (by rw [ex_len]; decide) _ (by norm_num) (by norm_num)

example : ex.rejects (.fin (3 / 10)) = false :=
  quantile_accepts ex ex_inv (by rw [ex_len]; decide) _ (by norm_num) (by norm_num)

example (q : F64) : Dataset.new.lowerQuantile q = (Dataset.new, .nan) ∧ Dataset.new.upperQuantile q = (Dataset.new, .nan) :=
  quantile_rejects_empty Dataset.new (Dataset.inv_ofList [] (by decide)) rfl q

example (q : F64) : ObsEq (ex.lowerQuantile q).1 ex ∧ ObsEq (ex.upperQuantile q).1 ex ∧ ObsEq ex.min.1 ex ∧
    ObsEq ex.max.1 ex := query_invisible ex ex_inv q

/-- `ObsEq` between two DIFFERENT datasets (different order of the values) -/
theorem ObsEq_inhabited : ObsEq (ofList [3, -1, 2, 2, 7]) (ofList [7, 2, 3, 2, -1]) ∧
    (ofList [3, -1, 2, 2, 7]).values ≠ (ofList [7, 2, 3, 2, -1]).values := by
  refine ⟨obsEq_ofList (by decide), ?_⟩
  rw [ofList_values, ofList_values]
  decide

example (ops : List Op) : (run (ofList [3, -1, 2, 2, 7]) ops).2 = (run (ofList [7, 2, 3, 2, -1]) ops).2 :=
  obsEq_same_answers _ _ ObsEq_inhabited.1 ops

example (ops : List Op) : (run (ofList [3, -1, 2, 2, 7]) ops).2 = (run (ofList [7, 2, 3, 2, -1]) ops).2 :=
  order_independent_run _ _ (by decide) ops

example : ([3, -1, 2, 2, 7] : List Rat).mergeSort (fun a b => decide (a ≤ b)) =
    ([7, 2, 3, 2, -1] : List Rat).mergeSort (fun a b => decide (a ≤ b)) :=
  mergeSort_perm_eq _ _ (by decide)

end C20

end MappingsRebinDataset

section PagOKPage
open DDS DDS.RoundTrip

deriving instance DecidableEq for PStore

/-- a paginated store with a materialised page (index 3 ↦ 5/2 on page 0, slot 4 of 8) and a buffered
    entry (index 40) -/
def pagS : PStore :=
  { buffer := [40], trigger := 64,
    pages := (Array.replicate 8 #[]).setIfInBounds 4 ((Array.replicate 32 (0 : Rat)).setIfInBounds 3 (5 / 2)),
    minPageIndex := -4, pageLenLog2 := 5 }

theorem pagS_run : PStore.run PStore.new [.add 3 (5 / 2) false, .add 40 1 false] = some pagS := by
  decide +kernel

theorem pagS_inv : PStore.Inv pagS := by
  obtain ⟨s, h1, h2, _⟩ := PStore.run_ok [.add 3 (5 / 2) false, .add 40 1 false] (by
    intro op hop
    simp only [List.mem_cons, List.not_mem_nil, or_false] at hop
    rcases hop with rfl | rfl <;> exact ⟨⟨by decide, by decide⟩, by decide +kernel⟩)
  rw [pagS_run] at h1
  cases h1
  exact h2

theorem pagS_cells : ∀ k < 8, ∀ l < 32, (pagS.pages.getD k #[]).getD l 0 = 0 ∨
    (pagS.pages.getD k #[]).getD l 0 = 5 / 2 := by decide +kernel

theorem pagS_line (j : Int) : pagS.line j = 0 ∨ pagS.line j = 5 / 2 := by
  unfold PStore.line PStore.pageAt
  have hl : pagS.lineIndex j < 32 := by
    have := PStore.lineIndex_lt pagS rfl j
    simpa [PStore.pageLen, pagS] using this
  cases hs : pagS.slot? (pagS.pageIndex j) with
  | none => left; simp
  | some k =>
    simp only
    have hk : k < 8 := by
      unfold PStore.slot? at hs
      split at hs
      · rename_i hc
        have hsz : (pagS.pages.size : Int) = 8 := by decide
        have hm : pagS.minPageIndex = -4 := rfl
        injection hs with hs
        omega
      · cases hs
    exact pagS_cells k hk _ hl

theorem pagS_line40 : pagS.line 40 = 0 := by decide +kernel

theorem pagS_ok : PagOK pagS where
  inv := pagS_inv
  bufLen := by decide
  wok := fun j k hk => by
    have hk' : k ≤ List.count j [40] := hk
    by_cases hj : j = 40
    · subst hj
      rw [pagS_line40, zero_add]
      have h1 : List.count (40 : Int) [40] = 1 := by decide
      exact wOK_nat k (by omega)
    · have : List.count j [40] = 0 := by simp [Ne.symm hj]
      have hk0 : k = 0 := by omega
      subst hk0
      rcases pagS_line j with h | h <;> rw [h]
      · simpa using wOK_zero
      · show WOK (5 / 2 + ((0 : Nat) : Rat))
        decide +kernel

/-- `PagOK` (whose `wok` field quantifies over ALL integers) holds of a store with a materialised
    page and a buffered entry -/
theorem PagOK_inhabited : ∃ s : PStore, PagOK s ∧ s.buffer = [40] ∧ (s.pages.getD 4 #[]).size = 32 ∧
    s.line 3 = 5 / 2 := ⟨pagS, pagS_ok, rfl, by decide, by decide +kernel⟩

theorem pagS_content : PStore.content pagS = [(3, 5 / 2), (40, 1)] := by
  obtain ⟨s, h1, _, h3⟩ := C04Pag.history_content [.add 3 (5 / 2) false, .add 40 1 false] (by
    intro op hop
    simp only [List.mem_cons, List.not_mem_nil, or_false] at hop
    rcases hop with rfl | rfl <;> exact ⟨⟨by decide, by decide⟩, by decide +kernel⟩)
  rw [pagS_run] at h1
  cases h1
  rw [h3]; decide +kernel

example : ∃ s' bl, Sketch.encodeStore (.pg pagS) .pos = some (.pg s', bl) ∧ PStore.Inv s' ∧
    PStore.content s' = PStore.content pagS ∧ (∀ b ∈ bl, b.WF ∧ b.FiniteWeights) ∧
    Wire.contentOf (sideBins (Wire.interp bl) .pos) = some (PStore.content pagS) :=
  C06.encodeStore_pag_denotes pagS pagS_ok .pos

/-- the round trip with that store on the positive side and a dense store on the negative side -/
def exS2 : Sketch := { mapping := some C06.exM, pos := .pg pagS, neg := .d C06.exD, zero := .fin (3 / 4) }

example (om : Bool) : ∃ s' bl, exS2.encode om = some (s', bl) ∧ (∀ b ∈ bl, b.WF ∧ b.FiniteWeights) ∧
    Sketch.decodeAndMergeWith (Sketch.new (if om then some C06.exM else none) .sparse) (Wire.encBlocks bl)
      = some (.ok (Sketch.spec (some C06.exM) [(3, 5 / 2), (40, 1)] C06.exCp (.fin (3 / 4)))) :=
  C06.decode_encode exS2 _ _
    ⟨by have := RoundTrip.refines_pag pagS pagS_inv; rwa [pagS_content] at this, C06.exS_refines.pos⟩
    pagS_ok C06.exS_pos C06.exM rfl C06.exM_ok (3 / 4) rfl (by decide +kernel) om

end PagOKPage

section Proto
open DDS DDS.Proto

/-! ## C09 -/
section C09
open DDS.Props.C09

theorem sp3_some : (storeToProto sp3).isSome = true ∧ (streamStore sp3).isSome = true := by decide +kernel

example : ∃ pb bs, storeToProto sp3 = some pb ∧ streamStore sp3 = some bs ∧ parseStore {} bs = .ok pb ∧
    pb.binCounts.length = 3 := by
  obtain ⟨pb, hpb⟩ := Option.isSome_iff_exists.mp sp3_some.1
  obtain ⟨bs, hbs⟩ := Option.isSome_iff_exists.mp sp3_some.2
  refine ⟨pb, bs, hpb, hbs, parseStore_stream_exact sp3 sp3_keys pb bs hpb hbs, ?_⟩
  have : (storeToProto sp3).map (fun p => p.binCounts.length) = some 3 := by decide +kernel
  rw [hpb] at this
  exact Option.some.inj this

example : ∃ pb bs, storeToProto d3 = some pb ∧ streamStore d3 = some bs ∧
    (parseStore {} bs).map (fun p => normStore (some p)) = .ok (normStore (some pb)) := by
  obtain ⟨bs, hbs⟩ := Option.isSome_iff_exists.mp d3_stream_some
  exact ⟨_, bs, d3_toProto, hbs, parseStore_stream d3 d3_keys _ bs d3_toProto hbs⟩

theorem sk_some : ∃ msg bs, toProto sk = some msg ∧ streamBytes sk = some bs := by
  have h : (toProto sk).isSome = true ∧ (streamBytes sk).isSome = true := by decide +kernel
  obtain ⟨msg, hm⟩ := Option.isSome_iff_exists.mp h.1
  obtain ⟨bs, hb⟩ := Option.isSome_iff_exists.mp h.2
  exact ⟨msg, bs, hm, hb⟩

example : ∃ msg bs, toProto sk = some msg ∧ streamBytes sk = some bs ∧ pbParse bs = .ok msg ∧
    (pbParse bs).map norm = .ok (norm msg) := by
  obtain ⟨msg, bs, hm, hb⟩ := sk_some
  have k1 := sp3_keys
  have k2 := d3_keys
  exact ⟨msg, bs, hm, hb,
    pbParse_stream_exact sk m102 rfl k1 k2 (by unfold FitsLen; decide) (by unfold FitsLen; decide) msg bs hm hb,
    pbParse_stream sk m102 rfl k1 k2 (by unfold FitsLen; decide) (by unfold FitsLen; decide) msg bs hm hb⟩

example : streamBytes { sk with mapping := none } = none := streamBytes_none_of_no_mapping _ rfl

end C09

end Proto

end DDS.Props.NonVacuity
