/-
  DDS.Props.C05GenHigh — the main C05 statements about the highest-collapsing store, transported
  from the hand-written model (`DDS.Props.C05`, `DDS.Proofs.Collapsing`) to the REGENERATED Go code
  (`DDS/Generated/CodeDense.lean`, `CollapsingHighestDenseStore`) through the method-by-method
  equalities of `DDS.Proofs.GenCollapsingHigh` (`AddWithCount`, `Clear`, `MergeWith`) and
  `DDS.Proofs.GenDense` (`Reweight`, a promoted method of the embedded `DenseStore`).

  A history is a list of `DStore.Op`; `genRunHigh fuel N ops` runs it on
  `NewCollapsingHighestDenseStore N` with the generated methods.  Every statement has the form
  "there is a fuel `f0` such that for every `fuel ≥ f0` the generated run returns `.ok g`" — so the
  generated code neither panics nor runs out of fuel — "and `g = toHigh N s` for a model store `s`
  with the property proved in C05".
-/
import DDS.Props.C05
import DDS.Proofs.GenCollapsingHigh
import DDS.Proofs.GenDense

namespace DDS.Props.C05GenHigh

open DDS DStore DDS.GoSem DDS.GenDense DDS.GenHigh DDS.Props.C05

abbrev GH := DDS.Gen.Dense.CollapsingHighestDenseStore

/-- one operation on the generated store; `Reweight` is the embedded `DenseStore`'s method (its error
    value is dropped, as `applyOp` does) -/
def genApplyOp (fuel : Nat) (g : GH) : Op → Res GH
  | .add i w => Gen.Dense.CollapsingHighestDenseStore.AddWithCount fuel g i w
  | .clear => Gen.Dense.CollapsingHighestDenseStore.Clear fuel g
  | .reweight w => (Gen.Dense.DenseStore.Reweight fuel g.DenseStore w).bind fun p =>
      .ok { g with DenseStore := p.1 }

/-- a history of operations on the generated store -/
def genRun (fuel : Nat) : List Op → GH → Res GH
  | [], g => .ok g
  | op :: ops, g => (genApplyOp fuel g op).bind (genRun fuel ops)

/-- the history run on a fresh generated highest-collapsing store with limit `N` -/
def genRunHigh (fuel : Nat) (N : Nat) (ops : List Op) : Res GH :=
  genRun fuel ops (Gen.Dense.NewCollapsingHighestDenseStore (N : Int))

/-- fuel for one operation -/
def opFuel (s : DStore) : Op → Nat
  | .add i _ => extendFuel s i i
  | .clear => 0
  | .reweight _ => reweightFuel s

theorem reweight_isCollapsed (s t : DStore) (w : Rat) (h : s.reweight w = some t) :
    t.isCollapsed = s.isCollapsed := by
  unfold DStore.reweight at h
  simp only [Option.bind_eq_bind, Option.bind_eq_some_iff, Option.pure_def, Option.some.injEq] at h
  obtain ⟨_, _, rfl⟩ := h
  rfl

theorem applyOp_kind (n : Nat) (s t : DStore) (op : Op) (hk : s.kind = .high n)
    (h : applyOp s op = some t) : t.kind = .high n := by
  cases op with
  | add i w => exact addWithCount_kind n s t i w hk h
  | clear => simp only [applyOp, Option.some.injEq] at h; subst h; exact hk
  | reweight w =>
    simp only [applyOp] at h
    split at h
    · cases h; exact hk
    · rw [reweight_kind s t w h, hk]

theorem genApplyOp_rel (fuel : Nat) (n : Nat) (s : DStore) (op : Op) (hk : s.kind = .high n)
    (hf : opFuel s op ≤ fuel) :
    genApplyOp fuel (toHigh (n : Int) s) op = toRes (toHigh (n : Int)) (applyOp s op) := by
  cases op with
  | add i w => exact addWithCount_rel fuel n s i w hk hf
  | clear => exact GenHigh.clear_rel fuel n s
  | reweight w =>
    simp only [genApplyOp, applyOp, toHigh_DenseStore]
    by_cases h0 : w ≤ 0
    · rw [reweight_nonpos fuel s w h0, if_pos (Or.inl h0)]; rfl
    · by_cases h1 : w = 1
      · subst h1
        rw [reweight_one, if_pos (Or.inr rfl)]; rfl
      · rw [if_neg (by intro h; cases h <;> contradiction),
          reweight_rel fuel s w (Rat.not_le.mp h0) h1 hf]
        cases hr : s.reweight w with
        | none => rfl
        | some t =>
          simp only [toRes_some, Res.bind_ok, toHigh, reweight_isCollapsed s t w hr]

/-- a whole history: some fuel suffices for all its steps, and the generated run is the model run -/
theorem genRun_rel (n : Nat) (ops : List Op) : ∀ (s : DStore), s.kind = .high n →
    ∃ f0, ∀ fuel, f0 ≤ fuel →
      genRun fuel ops (toHigh (n : Int) s) = toRes (toHigh (n : Int)) (ops.foldlM applyOp s) := by
  induction ops with
  | nil => intro s _; exact ⟨0, fun _ _ => rfl⟩
  | cons op ops ih =>
    intro s hk
    cases hop : applyOp s op with
    | none =>
      refine ⟨opFuel s op, fun fuel hf => ?_⟩
      simp only [genRun, genApplyOp_rel fuel n s op hk hf, List.foldlM_cons, hop]
      rfl
    | some t =>
      obtain ⟨f1, h1⟩ := ih t (applyOp_kind n s t op hk hop)
      refine ⟨max (opFuel s op) f1, fun fuel hf => ?_⟩
      simp only [genRun, genApplyOp_rel fuel n s op hk (by omega), List.foldlM_cons, hop, toRes_some,
        Res.bind_ok, Option.bind_eq_bind, Option.bind_some]
      exact h1 fuel (by omega)

/-- the generated run from the generated constructor is the model's `runHigh` -/
theorem genRunHigh_rel (N : Nat) (ops : List Op) :
    ∃ f0, ∀ fuel, f0 ≤ fuel → genRunHigh fuel N ops = toRes (toHigh (N : Int)) (runHigh N ops) := by
  obtain ⟨f0, h⟩ := genRun_rel N ops (DStore.new (.high N)) rfl
  exact ⟨f0, fun fuel hf => by unfold genRunHigh runHigh; rw [new_eq]; exact h fuel hf⟩

/-! ### the C05 statements on the generated code -/

/-- no history on int32 indexes panics or runs out of fuel; the result is the image of a model store
    satisfying the invariant -/
theorem gen_high_never_panics (N : Nat) (hN : 1 ≤ N) (ops : List Op) (hops : ∀ op ∈ ops, op.ok32) :
    ∃ f0 s, (∀ fuel, f0 ≤ fuel → genRunHigh fuel N ops = .ok (toHigh (N : Int) s)) ∧ InvHigh N s := by
  obtain ⟨s, hs, hinv⟩ := high_never_panics N hN ops hops
  obtain ⟨f0, h⟩ := genRunHigh_rel N ops
  exact ⟨f0, s, fun fuel hf => by rw [h fuel hf, hs]; rfl, hinv⟩

/-- never more than `N` array slots in the generated store, never a span of more than `N` indexes -/
theorem gen_high_bounded_after_history (N : Nat) (hN : 1 ≤ N) (ops : List Op)
    (hops : ∀ op ∈ ops, op.ok32) :
    ∃ f0 g, (∀ fuel, f0 ≤ fuel → genRunHigh fuel N ops = .ok g) ∧ g.maxNumBins = N ∧
      g.DenseStore.bins.length ≤ N ∧
      (Gen.Dense.DenseStore.IsEmpty g.DenseStore = false →
        g.DenseStore.maxIndex - g.DenseStore.minIndex + 1 ≤ N) := by
  obtain ⟨s, hs, b1, _, b3⟩ := high_bounded_after_history N hN ops hops
  obtain ⟨f0, h⟩ := genRunHigh_rel N ops
  refine ⟨f0, toHigh (N : Int) s, fun fuel hf => by rw [h fuel hf, hs]; rfl, rfl, by simpa [toHigh, toGen] using b1, ?_⟩
  intro he
  have he' : s.isEmpty = false := he
  exact b3 s.minIndex s.maxIndex (by simp [DStore.minIndex?, he']) (by simp [DStore.maxIndex?, he'])

/-- after ANY history the generated store holds the exact content with every index above
    `min + N − 1` folded into that edge bin, and the total weight is conserved -/
theorem gen_high_content_after_history (N : Nat) (hN : 1 ≤ N) (ops : List Op)
    (hops : ∀ op ∈ ops, op.ok32) :
    ∃ f0 g, (∀ fuel, f0 ≤ fuel → genRunHigh fuel N ops = .ok g) ∧
      content (ofHigh g) = Content.specHigh N (exactContent ops) ∧
      Gen.Dense.DenseStore.TotalCount g.DenseStore = (exactContent ops).total := by
  obtain ⟨s, hs, _, hc⟩ := high_content_after_history N hN ops hops
  obtain ⟨s', hs', hw⟩ := high_weight_conserved N hN ops hops
  have hss : s' = s := by rw [hs] at hs'; cases hs'; rfl
  subst hss
  obtain ⟨f0, h⟩ := genRunHigh_rel N ops
  have hk : s'.kind = .high N := by
    obtain ⟨t, ht, hi⟩ := high_never_panics N hN ops hops
    rw [hs] at ht; cases ht; exact hi.kind
  refine ⟨f0, toHigh (N : Int) s', fun fuel hf => by rw [h fuel hf, hs]; rfl, ?_, hw⟩
  rw [ofHigh_toHigh N s' hk]
  exact hc

/-- EVERY merge of two generated highest-collapsing stores (any two limits, any two histories) is safe:
    it neither panics nor runs out of fuel, stays within `N` slots and holds the folded union -/
theorem gen_high_merge_safe (N M : Nat) (hN : 1 ≤ N) (hM : 1 ≤ M)
    (ops₁ ops₂ : List Op) (h₁ : ∀ op ∈ ops₁, op.ok32) (h₂ : ∀ op ∈ ops₂, op.ok32) :
    ∃ f0 g o g', ∀ fuel, f0 ≤ fuel →
      genRunHigh fuel N ops₁ = .ok g ∧ genRunHigh fuel M ops₂ = .ok o ∧
      Gen.Dense.CollapsingHighestDenseStore.MergeWith fuel g o = .ok g' ∧
      g'.DenseStore.bins.length ≤ N ∧
      g'.DenseStore.count = g.DenseStore.count + o.DenseStore.count ∧
      content (ofHigh g') = Content.specHigh N
        ((exactContent ops₁).merge (Content.specHigh M (exactContent ops₂))) := by
  obtain ⟨s, o, s', hs, ho, hm, hinv', hsz, hcnt, hc⟩ := high_merge_safe N M hN hM ops₁ ops₂ h₁ h₂
  obtain ⟨t, ht, hit⟩ := high_never_panics N hN ops₁ h₁
  have hk : s.kind = .high N := by rw [hs] at ht; cases ht; exact hit.kind
  obtain ⟨f1, r1⟩ := genRunHigh_rel N ops₁
  obtain ⟨f2, r2⟩ := genRunHigh_rel M ops₂
  obtain ⟨f3, r3⟩ := mergeWith_ex N (M : Int) s o hk
  refine ⟨max f1 (max f2 f3), toHigh (N : Int) s, toHigh (M : Int) o, toHigh (N : Int) s', fun fuel hf => ?_⟩
  refine ⟨by rw [r1 fuel (by omega), hs]; rfl, by rw [r2 fuel (by omega), ho]; rfl,
    by rw [r3 fuel (by omega), hm]; rfl, by simpa [toHigh, toGen] using hsz, hcnt, ?_⟩
  rw [ofHigh_toHigh N s' hinv'.kind]
  exact hc

end DDS.Props.C05GenHigh
