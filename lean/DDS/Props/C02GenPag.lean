/-
  DDS.Props.C02GenPag — property C02 (full mergeability) and the weighted histories of C11 for the DEFAULT sketch
  ENTIRELY ON REGENERATED CODE: the regenerated `DDSketch` (`DDS/Generated/CodeSketch.lean`) over the regenerated
  buffered-paginated store (`DDS/Generated/CodePaginated.lean`) through `instance : StoreI (GPS grow)`
  (`DDS/Proofs/GenPagSketch.lean`), for every growth policy `grow` of the Go runtime.  The mapping stays the
  model's oracle `MapEnv`, as in `GenSketch2` / `C01GenPag`.

  * `model_runAdds_w`: on the model-store instance a history of `AddWithCount(v, c)` calls with rational arguments
    run by the regenerated sketch code is the model's `Sketch.addAll` (`GenSketch2.AddV_rel` iterated; the
    weighted generalisation of `C01GenPag.model_runAdds`).
  * `model_eval`: on the model-store instance the regenerated sketch code evaluates a merge tree to the model's
    `Lift.KTree.eval` with paginated leaves, no call returning an error (`GenSketch2.MergeWith_rel` at the nodes).
  * `merge_tree_regenerated` (**C02 on regenerated code**): for every merge tree `t`, the tree evaluated by the
    regenerated code over the regenerated stores and the SINGLE regenerated sketch fed the concatenated input
    `t.flat` return no error anywhere and answer EVERY observer alike: `GetCount`, `IsEmpty`, `GetZeroCount`,
    `GetValueAtQuantile q` for all `q` (no guard), `GetMinValue`, `GetMaxValue`.  Hypotheses: those of
    `Lift.merge_tree_any_stores` (magnitudes at most the maximum indexable value, weights `≥ 0`, exact zero-bucket
    sums, int32 indexes, reflexive `Equals` of the mapping identity).
  * `merge_tree_regenerated_spec`: … and both answer like the spec sketch `s₀` built from `t.flat`
    (`Lift.merge_tree_any_stores` transported through `GenSketch2`'s `QRel` / `ExtRel`; the quantile with that
    theorem's guard).
  * `weighted_history_regenerated` (**C11 on regenerated code**): after a weighted history (`|v| ≤ max`, `c ≥ 0`, int32
    indexes) no add is refused and the three-way description of `Lift.quantile_weighted_history_any_store` holds
    for the answer of the regenerated `GetValueAtQuantile` (value and nil error).
-/
import DDS.Proofs.GenPagSketch2
import DDS.Proofs.GenSketch2
import DDS.Props.Lift2
import DDS.Props.C01GenPag

namespace DDS.Props.C02GenPag

open DDS DDS.GoSem DDS.Gen.Sketch DDS.Gen.Paginated DDS.GenSketch DDS.GenPagSketch

/-- a history of `AddWithCount(v, c)` calls with rational (finite float) arguments -/
def ratAdds (l : List (Rat × Rat)) : List (F64 × F64) := l.map (fun p => (F64.fin p.1, F64.fin p.2))

/-! ### the model keeps the mapping -/

theorem addV_mapping (env : MapEnv) (s s' : Sketch) (v c : Rat) (h : s.addV env v c = some (.ok s')) :
    s'.mapping = s.mapping := by
  unfold Sketch.addV Sketch.addWithCount at h
  simp only [Sketch.ratOf?, Option.bind_eq_bind, Option.bind_some, Option.pure_def] at h
  split at h
  · cases h
  · split at h
    · split at h
      · cases h
      · cases hp : s.pos.addWithCount (env.index (.fin (rabs v))) c with
        | none => rw [hp] at h; cases h
        | some p =>
          rw [hp] at h
          simp only [Option.bind_some, Option.some.injEq, Except.ok.injEq] at h
          rw [← h]
    · split at h
      · split at h
        · cases h
        · cases hn : s.neg.addWithCount (env.index (.fin (rabs v))) c with
          | none => rw [hn] at h; cases h
          | some n =>
            rw [hn] at h
            simp only [Option.bind_some, Option.some.injEq, Except.ok.injEq] at h
            rw [← h]
      · split at h
        · cases h
        · simp only [Option.some.injEq, Except.ok.injEq] at h
          rw [← h]

theorem addAll_mapping (env : MapEnv) (l : List (Rat × Rat)) :
    ∀ s s' : Sketch, Sketch.addAll env s l = some s' → s'.mapping = s.mapping := by
  induction l with
  | nil =>
    intro s s' h
    simp only [Sketch.addAll, Option.some.injEq] at h
    rw [h]
  | cons p rest ih =>
    intro s s' h
    obtain ⟨v, c⟩ := p
    simp only [Sketch.addAll] at h
    cases hstep : s.addV env v c with
    | none => rw [hstep] at h; cases h
    | some r =>
      cases r with
      | error e => rw [hstep] at h; cases h
      | ok s1 =>
        rw [hstep] at h
        rw [ih s1 s' h, addV_mapping env s s1 v c hstep]

theorem mergeWith_mapping (s o s' : Sketch) (h : s.mergeWith o = some (.ok s')) : s'.mapping = s.mapping := by
  unfold Sketch.mergeWith at h
  split at h
  · cases h
  · cases hp : s.pos.mergeWith o.pos with
    | none => simp [hp] at h
    | some p =>
      cases hn : s.neg.mergeWith o.neg with
      | none => simp [hp, hn] at h
      | some n =>
        simp only [hp, hn, Option.bind_eq_bind, Option.bind_some, Option.pure_def, Option.some.injEq,
          Except.ok.injEq] at h
        rw [← h]

/-! ### the regenerated sketch code over the model stores runs the model -/

/-- a weighted history on the model-store instance is the model's `addAll` -/
theorem model_runAdds_w (env : MapEnv) (mn : Rat) (hmin : env.minIndexable = .fin mn) (hmn : 0 ≤ mn)
    (l : List (Rat × Rat)) : ∀ (s0 s : Sketch), Sketch.addAll env s0 l = some s →
      runAdds (toGen env s0) (ratAdds l) = (toGen env s, List.replicate l.length GoErr.nil) := by
  induction l with
  | nil =>
    intro s0 s h
    simp only [Sketch.addAll, Option.some.injEq] at h
    subst h; rfl
  | cons p rest ih =>
    intro s0 s h
    obtain ⟨x, c⟩ := p
    simp only [Sketch.addAll] at h
    have hrel := AddV_rel env s0 mn x c hmin hmn
    cases hstep : s0.addV env x c with
    | none => rw [hstep] at h; cases h
    | some r =>
      cases r with
      | error e => rw [hstep] at h; cases h
      | ok s1 =>
        rw [hstep] at h hrel
        have h1 : DDSketch.AddWithCount (toGen env s0) (.fin x) (.fin c) = (toGen env s1, GoErr.nil) := hrel
        have h2 := ih s1 s h
        show ((runAdds (DDSketch.AddWithCount (toGen env s0) (.fin x) (.fin c)).1 (ratAdds rest)).1,
          (DDSketch.AddWithCount (toGen env s0) (.fin x) (.fin c)).2 ::
            (runAdds (DDSketch.AddWithCount (toGen env s0) (.fin x) (.fin c)).1 (ratAdds rest)).2) = _
        rw [h1]
        simp only [h2, List.length_cons, List.replicate_succ]

/-- the model's merge tree as a tree of regenerated calls -/
def toG : C02.MergeTree → GTree
  | .leaf l => .leaf (ratAdds l)
  | .node l r => .node (toG l) (toG r)

/-- the model's merge tree with paginated stores at every leaf -/
def toK : C02.MergeTree → DDS.Lift.KTree
  | .leaf l => .leaf .pag l
  | .node l r => .node (toK l) (toK r)

theorem toK_erase (t : C02.MergeTree) : (toK t).erase = t := by
  induction t with
  | leaf l => rfl
  | node l r ihl ihr => simp only [toK, DDS.Lift.KTree.erase, ihl, ihr]

theorem toK_flat (t : C02.MergeTree) : (toK t).flat = t.flat := by
  unfold DDS.Lift.KTree.flat; rw [toK_erase]

theorem toK_plain (t : C02.MergeTree) : (toK t).AllPlain := by
  induction t with
  | leaf l => trivial
  | node l r ihl ihr => exact ⟨ihl, ihr⟩

theorem toG_flat (t : C02.MergeTree) : (toG t).flat = ratAdds t.flat := by
  induction t with
  | leaf l => rfl
  | node l r ihl ihr => simp only [toG, GTree.flat, C02.MergeTree.flat, ihl, ihr, ratAdds, List.map_append]

/-- on the model-store instance the regenerated sketch code evaluates a merge tree to the model's result; no call
    returns an error -/
theorem model_eval (env : MapEnv) (mn : Rat) (hmin : env.minIndexable = .fin mn) (hmn : 0 ≤ mn)
    (t : C02.MergeTree) : ∀ s, (toK t).eval env = some s →
      s.mapping = some env.id ∧
      (GTree.eval (toGen env (Sketch.new (some env.id) .pag)) (toG t)).1 = toGen env s ∧
      ∀ e ∈ (GTree.eval (toGen env (Sketch.new (some env.id) .pag)) (toG t)).2, e = GoErr.nil := by
  induction t with
  | leaf l =>
    intro s h
    have h' : Sketch.addAll env (Sketch.new (some env.id) .pag) l = some s := h
    have hr := model_runAdds_w env mn hmin hmn l _ s h'
    refine ⟨addAll_mapping env l _ s h', ?_, ?_⟩
    · show (runAdds _ (ratAdds l)).1 = _
      rw [hr]
    · show ∀ e ∈ (runAdds _ (ratAdds l)).2, e = GoErr.nil
      rw [hr]
      intro e he
      exact (List.mem_replicate.1 he).2
  | node l r ihl ihr =>
    intro s h
    simp only [toK, DDS.Lift.KTree.eval] at h
    cases hl : (toK l).eval env with
    | none => rw [hl] at h; cases h
    | some a =>
      cases hr : (toK r).eval env with
      | none => rw [hl, hr] at h; cases h
      | some b =>
        rw [hl, hr] at h
        simp only at h
        obtain ⟨ma, ga, ea⟩ := ihl a hl
        obtain ⟨mb, gb, eb⟩ := ihr b hr
        cases hm : a.mergeWith b with
        | none => rw [hm] at h; cases h
        | some res =>
          cases res with
          | error e => rw [hm] at h; cases h
          | ok s1 =>
            rw [hm] at h
            simp only [Option.some.injEq] at h
            subst h
            have hrel := (MergeWith_rel env env a b ma mb).ok hm
            refine ⟨(mergeWith_mapping a b s1 hm).trans ma, ?_, ?_⟩
            · show (DDSketch.MergeWith (GTree.eval _ (toG l)).1 (GTree.eval _ (toG r)).1).1 = _
              rw [ga, gb, hrel]
            · show ∀ e ∈ (GTree.eval _ (toG l)).2 ++ (GTree.eval _ (toG r)).2 ++
                [(DDSketch.MergeWith (GTree.eval _ (toG l)).1 (GTree.eval _ (toG r)).1).2], e = GoErr.nil
              intro e he
              rw [ga, gb, hrel] at he
              simp only [List.mem_append, List.mem_singleton] at he
              rcases he with (he | he) | he
              · exact ea e he
              · exact eb e he
              · exact he

/-- the routing condition of `GenPagSketch.AddWithCount_param` for a rational history -/
theorem routed32_ratAdds (env : MapEnv) (mn : Rat) (hmin : env.minIndexable = .fin mn) (hmn : 0 ≤ mn)
    (l : List (Rat × Rat)) (h32 : ∀ p ∈ l, mn < rabs p.1 → Lift.I32 (env.index (.fin (rabs p.1)))) :
    ∀ p ∈ ratAdds l, Routed32 env p.1 := by
  intro p hp
  simp only [ratAdds, List.mem_map] at hp
  obtain ⟨x, hx, rfl⟩ := hp
  exact C01GenPag.routed32_of env mn hmin hmn x.1 (h32 x hx)

/-! ### C02 on regenerated code -/

/-- the facts shared by the two statements below: the tree result and the single sketch are both related to the
    model's single paginated sketch `s1`, which observes like the spec sketch `s₀` -/
theorem merge_tree_core (grow : Int → Int → Int) (env : MapEnv) (mn mx : Rat)
    (hmn : env.minIndexable = .fin mn) (hmx : env.maxIndexable = .fin mx)
    (hmn0 : 0 ≤ mn) (hrefl : env.id.equals env.id = true) (t : C02.MergeTree)
    (hacc : ∀ p ∈ t.flat, rabs p.1 ≤ mx ∧ 0 ≤ p.2)
    (hexact : C02.ExactSums (Sketch.zeroPart mn t.flat))
    (h32 : ∀ p ∈ t.flat, mn < rabs p.1 → Lift.I32 (env.index (.fin (rabs p.1)))) :
    let mk := NewDDSketch env (⟨NewBufferedPaginatedStore⟩ : GPS grow) ⟨NewBufferedPaginatedStore⟩
    let g := GTree.eval mk (toG t)
    let g1 := runAdds mk (ratAdds t.flat)
    (∀ e ∈ g.2, e = GoErr.nil) ∧ (∀ e ∈ g1.2, e = GoErr.nil) ∧
    ∃ s1 s₀ cp cn,
      Sketch.addAll env (Sketch.new (some env.id) .pag) t.flat = some s1 ∧
      Sketch.addAll env (Sketch.new (some env.id) .sparse) t.flat = some s₀ ∧
      s₀ = Sketch.spec (some env.id) cp cn s1.zero ∧ s1.Refines cp cn ∧
      SkSim g.1 (toGen env s1) ∧ SkSim g1.1 (toGen env s1) ∧
      s1.getCount = s₀.getCount ∧ s1.isEmpty = s₀.isEmpty ∧
      s1.getMin env = s₀.getMin env ∧ s1.getMax env = s₀.getMax env ∧
      ∀ q : F64, (cp = [] → s₀.usesPos q = false) → s1.quantile env q = s₀.quantile env q := by
  intro mk g g1
  obtain ⟨s, s₀, cp, cn, he, h0, hsp, _, R, _⟩ :=
    Lift.merge_tree_any_stores env mn mx hmn hmx hmn0 hrefl (toK t) (toK_plain t)
      (by rw [toK_flat]; exact hacc) (by rw [toK_flat]; exact hexact) (by rw [toK_flat]; exact h32)
  obtain ⟨s1, s₀', cp', cn', he1, h0', hsp', _, R1, c1, c2, _, _, c5, c6, c7⟩ :=
    Lift.merge_tree_any_stores env mn mx hmn hmx hmn0 hrefl (.leaf .pag t.flat) trivial hacc hexact h32
  rw [toK_flat] at h0
  have h0'' : Sketch.addAll env (Sketch.new (some env.id) .sparse) t.flat = some s₀' := h0'
  have he1' : Sketch.addAll env (Sketch.new (some env.id) .pag) t.flat = some s1 := he1
  have es : s₀ = s₀' := Option.some.inj (h0.symm.trans h0'')
  subst es
  have hinj := hsp.symm.trans hsp'
  simp only [Sketch.spec, Sketch.mk.injEq, Store.sp.injEq, true_and] at hinj
  obtain ⟨ecp, ecn, ez⟩ := hinj
  subst ecp ecn
  -- the model side
  obtain ⟨_, hg, herr⟩ := model_eval env mn hmn hmn0 t s he
  have hr1 := model_runAdds_w env mn hmn hmn0 t.flat _ s1 he1'
  -- parametricity
  have hlG : ∀ p ∈ (toG t).flat, Routed32 env p.1 := by
    rw [toG_flat]; exact routed32_ratAdds env mn hmn hmn0 t.flat h32
  obtain ⟨eG, sG⟩ := evalTree_param (grow := grow) (skSim_new env) (toG t) hlG
  obtain ⟨e1, sS⟩ := runAdds_param (grow := grow) (ratAdds t.flat) (skSim_new env)
    (routed32_ratAdds env mn hmn hmn0 t.flat h32)
  rw [NewDDSketch_eq env (some env.id) .pag] at eG sG e1 sS
  rw [hg] at sG
  rw [hr1] at sS e1
  have hS : SkSim g1.1 (toGen env s1) := sS
  -- retarget the tree result to the single model sketch
  have hcont : ∀ (st st' : Store) (c : Content) (p p' : PStore), st.Refines c → st'.Refines c →
      st = .pg p → st' = .pg p' → PStore.content p = PStore.content p' := by
    intro st st' c p p' r r' e e'
    have b := r.bins
    have b' := r'.bins
    rw [e] at b
    rw [e'] at b'
    have b1 : some (PStore.content p) = some c := b
    have b2 : some (PStore.content p') = some c := b'
    exact (Option.some.inj b1).trans (Option.some.inj b2).symm
  have hG : SkSim g.1 (toGen env s1) :=
    skSim_retarget (b := toGen env s) (b' := toGen env s1) sG rfl ez
      (fun p p' e e' => hcont _ _ _ p p' R.pos R1.pos e e')
      (fun p p' e e' => hcont _ _ _ p p' R.neg R1.neg e e')
      (sim_model_pg hS.pos) (sim_model_pg hS.neg)
  refine ⟨?_, ?_, s1, s₀, cp, cn, he1', h0, hsp', R1, hG, hS, c1, c2, c5, c6, c7⟩
  · intro e hin
    have : g.2 = _ := eG
    rw [this] at hin
    exact herr e hin
  · intro e hin
    have : g1.2 = _ := e1
    rw [this] at hin
    exact (List.mem_replicate.1 hin).2

/-- **C02 on regenerated code, sketch and store**: a tree of merges over default sketches
    (`NewDDSketch(mapping, NewBufferedPaginatedStore(), NewBufferedPaginatedStore())`) built from the pieces of the
    input and the single default sketch that received the whole input `t.flat` return no error on any call and
    answer every observer alike, for every growth policy of the runtime.  Hypotheses: those of
    `Lift.merge_tree_any_stores`. -/
theorem merge_tree_regenerated (grow : Int → Int → Int) (env : MapEnv) (mn mx : Rat)
    (hmn : env.minIndexable = .fin mn) (hmx : env.maxIndexable = .fin mx)
    (hmn0 : 0 ≤ mn) (hrefl : env.id.equals env.id = true) (t : C02.MergeTree)
    (hacc : ∀ p ∈ t.flat, rabs p.1 ≤ mx ∧ 0 ≤ p.2)
    (hexact : C02.ExactSums (Sketch.zeroPart mn t.flat))
    (h32 : ∀ p ∈ t.flat, mn < rabs p.1 → Lift.I32 (env.index (.fin (rabs p.1)))) :
    let mk := NewDDSketch env (⟨NewBufferedPaginatedStore⟩ : GPS grow) ⟨NewBufferedPaginatedStore⟩
    let g := GTree.eval mk (toG t)
    let g1 := runAdds mk (ratAdds t.flat)
    (∀ e ∈ g.2, e = GoErr.nil) ∧ (∀ e ∈ g1.2, e = GoErr.nil) ∧
    DDSketch.GetCount g.1 = DDSketch.GetCount g1.1 ∧ DDSketch.IsEmpty g.1 = DDSketch.IsEmpty g1.1 ∧
    DDSketch.GetZeroCount g.1 = DDSketch.GetZeroCount g1.1 ∧
    (∀ q, DDSketch.GetValueAtQuantile g.1 q = DDSketch.GetValueAtQuantile g1.1 q) ∧
    DDSketch.GetMinValue g.1 = DDSketch.GetMinValue g1.1 ∧
    DDSketch.GetMaxValue g.1 = DDSketch.GetMaxValue g1.1 := by
  intro mk g g1
  obtain ⟨a, b, _, _, _, _, _, _, _, _, hG, hS, _⟩ :=
    merge_tree_core grow env mn mx hmn hmx hmn0 hrefl t hacc hexact h32
  exact ⟨a, b, observers_of_common_target hG hS⟩

/-- … and both answer like the spec sketch `s₀` that received `t.flat`: `GetCount`, `IsEmpty` equal; the extreme
    getters and `GetValueAtQuantile` in the value/error correspondence of `GenSketch2` (`ExtRel`, `QRel`), the
    quantile under the guard of `Lift.merge_tree_any_stores` (the positive store is consulted only if it is
    non-empty) -/
theorem merge_tree_regenerated_spec (grow : Int → Int → Int) (env : MapEnv) (mn mx : Rat)
    (hmn : env.minIndexable = .fin mn) (hmx : env.maxIndexable = .fin mx)
    (hmn0 : 0 ≤ mn) (hrefl : env.id.equals env.id = true) (t : C02.MergeTree)
    (hacc : ∀ p ∈ t.flat, rabs p.1 ≤ mx ∧ 0 ≤ p.2)
    (hexact : C02.ExactSums (Sketch.zeroPart mn t.flat))
    (h32 : ∀ p ∈ t.flat, mn < rabs p.1 → Lift.I32 (env.index (.fin (rabs p.1)))) :
    let mk := NewDDSketch env (⟨NewBufferedPaginatedStore⟩ : GPS grow) ⟨NewBufferedPaginatedStore⟩
    let g := GTree.eval mk (toG t)
    ∃ s₀ cp cn, Sketch.addAll env (Sketch.new (some env.id) .sparse) t.flat = some s₀ ∧
      s₀ = Sketch.spec (some env.id) cp cn (DDSketch.GetZeroCount g.1) ∧
      DDSketch.GetCount g.1 = s₀.getCount ∧ DDSketch.IsEmpty g.1 = s₀.isEmpty ∧
      ExtRel (s₀.getMin env) (DDSketch.GetMinValue g.1) ∧ ExtRel (s₀.getMax env) (DDSketch.GetMaxValue g.1) ∧
      ∀ q : F64, (cp = [] → s₀.usesPos q = false) →
        QRel (s₀.quantile env q) (DDSketch.GetValueAtQuantile g.1 q) := by
  intro mk g
  obtain ⟨_, _, s1, s₀, cp, cn, _, h0, hsp, _, hG, _, c1, c2, c5, c6, c7⟩ :=
    merge_tree_core grow env mn mx hmn hmx hmn0 hrefl t hacc hexact h32
  refine ⟨s₀, cp, cn, h0, ?_, ?_, ?_, ?_, ?_, ?_⟩
  · rw [GetZeroCount_param hG]; exact hsp
  · rw [GetCount_param hG, GetCount_eq, c1]
  · rw [IsEmpty_param hG, IsEmpty_eq, c2]
  · rw [GetMinValue_param hG, ← c5]; exact GetMinValue_rel env s1
  · rw [GetMaxValue_param hG, ← c6]; exact GetMaxValue_rel env s1
  · intro q hq
    rw [GetValueAtQuantile_param hG q, ← c7 q hq]
    exact GetValueAtQuantile_rel env s1 q

/-! ### weighted histories (C11) on regenerated code -/

section weighted
open Content

/-- a quantile answer of the model sketch related to the regenerated one is the regenerated answer -/
theorem quantile_transport {grow : Int → Int → Int} {env : MapEnv} {a : DDSketch MapEnv (GPS grow)} {s : Sketch}
    (h : SkSim a (toGen env s)) (q v : F64) (hq : Sketch.quantile env s q = .ok v) :
    DDSketch.GetValueAtQuantile a q = (v, GoErr.nil) := by
  rw [GetValueAtQuantile_param h q]
  exact (GetValueAtQuantile_rel env s q).ok hq

/-- **C11 on regenerated code, sketch and store**: after any weighted insertion history (`|v| ≤ maxIndexable`,
    `c ≥ 0`, int32 indexes) into the default sketch, for every growth policy of the runtime: no `AddWithCount` is
    refused, and there are canonical contents `cp`, `cn` holding at every index the total weight the mapping
    sends there such that `GetCount`, `IsEmpty` are those of `cp`, `cn` and the zero count, and
    `GetValueAtQuantile(q)` returns (with a nil error) the bin described by the three-way statement of
    `Lift.quantile_weighted_history_any_store` (`C11.quantile_weighted`), under its exactness hypothesis `QExact`. -/
theorem weighted_history_regenerated (grow : Int → Int → Int)
    (env : MapEnv) (α mn mx : Rat) (C : Contract env α mn mx)
    (xs : List (Rat × Rat)) (hx : ∀ p ∈ xs, rabs p.1 ≤ mx ∧ 0 ≤ p.2)
    (hx32 : ∀ p ∈ xs, mn < rabs p.1 → Lift.I32 (env.index (.fin (rabs p.1)))) :
    let g := runAdds (NewDDSketch env (⟨NewBufferedPaginatedStore⟩ : GPS grow) ⟨NewBufferedPaginatedStore⟩)
      (ratAdds xs)
    g.2 = List.replicate xs.length GoErr.nil ∧
    ∃ cp cn : Content, cp.WF ∧ cn.WF ∧
      (∀ j, cp.lookup j =
        Content.lookup ((xs.filter (fun p => decide (mn < p.1))).map
          (fun p => (env.index (.fin (rabs p.1)), p.2))) j) ∧
      (∀ j, cn.lookup j =
        Content.lookup ((xs.filter (fun p => decide (p.1 < -mn))).map
          (fun p => (env.index (.fin (rabs p.1)), p.2))) j) ∧
      DDSketch.GetCount g.1 =
        F64.add (F64.add (DDSketch.GetZeroCount g.1) (.fin cp.total)) (.fin cn.total) ∧
      ∀ z q r0 : Rat, DDSketch.GetZeroCount g.1 = .fin z → 0 ≤ z → 0 ≤ q → q ≤ 1 →
        0 < z + cp.total + cn.total → QExact cp cn z q r0 →
        (clampRank r0 < cn.total ∧ ∃ j w, (j, w) ∈ cn ∧
            DDSketch.GetValueAtQuantile g.1 (.fin q) = (F64.neg (env.value j), GoErr.nil) ∧
            cn.total - cumul cn j < min (clampRank r0 + 1) cn.total ∧
            min (clampRank r0 + 1) cn.total ≤ cn.total - cumul cn (j - 1)) ∨
        (cn.total ≤ clampRank r0 ∧ clampRank r0 < z + cn.total ∧
            DDSketch.GetValueAtQuantile g.1 (.fin q) = (.fin 0, GoErr.nil)) ∨
        (z + cn.total ≤ clampRank r0 ∧ ∃ j w, (j, w) ∈ cp ∧
            DDSketch.GetValueAtQuantile g.1 (.fin q) = (env.value j, GoErr.nil) ∧
            z + cn.total + cumul cp (j - 1) ≤ clampRank r0 ∧
            clampRank r0 < z + cn.total + cumul cp j) := by
  intro g
  obtain ⟨s, cp, cn, h1, R, lp, ln, hq⟩ :=
    DDS.Lift.quantile_weighted_history_any_store .pag trivial env α mn mx C xs hx hx32
  have hmn0 : 0 ≤ mn := Rat.le_of_lt C.minPos
  have hm := model_runAdds_w env mn C.minEq hmn0 xs _ s h1
  obtain ⟨e1, sS⟩ := runAdds_param (grow := grow) (ratAdds xs) (skSim_new env)
    (routed32_ratAdds env mn C.minEq hmn0 xs hx32)
  rw [NewDDSketch_eq env (some env.id) .pag, hm] at e1 sS
  have hS : SkSim g.1 (toGen env s) := sS
  refine ⟨e1, cp, cn, R.pos.wf, R.neg.wf, lp, ln, ?_, ?_⟩
  · rw [GetCount_param hS, GetZeroCount_param hS, GetCount_eq, GetZeroCount_eq]
    show F64.add (F64.add s.zero (.fin s.pos.totalCount)) (.fin s.neg.totalCount) = _
    rw [R.pos.total, R.neg.total]
  · intro z q r0 hz0 hz hq0 hq1 hW hE
    have hz0' : s.zero = .fin z := by
      rw [GetZeroCount_param hS, GetZeroCount_eq] at hz0; exact hz0
    rcases hq z q r0 hz0' hz hq0 hq1 hW hE with ⟨a, j, w, hj, hv, b, c⟩ | ⟨a, b, hv⟩ | ⟨a, j, w, hj, hv, b, c⟩
    · exact Or.inl ⟨a, j, w, hj, quantile_transport hS _ _ hv, b, c⟩
    · exact Or.inr (Or.inl ⟨a, b, quantile_transport hS _ _ hv⟩)
    · exact Or.inr (Or.inr ⟨a, j, w, hj, quantile_transport hS _ _ hv, b, c⟩)

end weighted

end DDS.Props.C02GenPag
