/-
  DDS.Props.C12x — the clauses of property C12 that `DDS.Props.C12` leaves open:

    "… the reported minimum and maximum are within alpha of the true extremes (0 when the extreme
     is in the zero bucket; the clamped extremes of C05 for collapsing stores), quantile answers …
     stay between the reported minimum and maximum, …, the approximate sum is within alpha of the
     true sum for same-signed data, …"

  Vocabulary (`DDS.Proofs.SketchDefs`, `DDS.Proofs.Quantile`, `DDS.Proofs.Extremes`):
  `Contract env α mn mx` is the mapping contract (`mn`/`mx` = min/max indexable magnitude);
  `sortedInputs mn xs` is the ground truth: the inputs with magnitudes `≤ mn` replaced by 0, sorted
  ascending, so `(sortedInputs mn xs)[0]!` is the true minimum and `[xs.length - 1]!` the true
  maximum; `rabs` is `|·|` on `ℚ`.  "Unit-add history" = `Sketch.addAll` of the pairs `(x, 1)`.
  Proofs are in `DDS.Proofs.Extremes`.

  T1 — the reported extremes are α-accurate (sparse = spec stores, at most `2^53` unit adds)
  * `getMin_bin`, `getMax_bin`: `GetMinValue()` / `GetMaxValue()` IS the signed representative of
    the bin of the smallest / largest input: `value(index x)` for `x > 0`, `−value(index |x|)` for
    `x < 0`, and exactly `0` when that input is in the zero bucket.
  * `min_accuracy`, `max_accuracy`: hence within relative error `α` of the true extreme.
  * `min_eq_quantile_zero`, `max_eq_quantile_one`: they coincide with the answers at `q = 0`, `q = 1`.

  T2 — quantile answers stay between the reported minimum and maximum
  * `quantile_between`: on ANY spec sketch with canonical contents and non-negative zero count,
    under the contract, `min ≤ GetValueAtQuantile(q) ≤ max` (float comparisons), assuming only
    (`hpos`) that the positive store is not consulted while it is empty and (`hrep`) that, when
    the sketch holds negative values only, their total weight is a float (automatic in Go, where
    the total is a float64; needed here because a `Content` may hold any rational weights).
  * `quantile_above_max_of_empty_store`: `hpos` is NECESSARY — whenever it fails the answer is
    `value 0 > 0`, strictly above the reported maximum.  THE UNRESTRICTED STATEMENT IS THEREFORE
    FALSE; the `example` after it is the absorbed-count instance of C11 (one negative value with
    count `2^54`: `q = 1` answers `+2` while `GetMaxValue() = −6`).
  * `quantile_between_exact`: the hypotheses of `C12.quantile_mono` suffice (exact counting, and
    `count − 1 ≠ count` when there is no positive value).
  * `quantile_between_units`, `quantile_between_units_rat`: after at most `2^53` unit adds no
    extra hypothesis is needed.

  T3 — the approximate sum
  * `Extremes.approxSumQ env s` is the exact-arithmetic version of `GetSum()`: the same
    `Σ value·weight` over the same `ForEach` enumeration, without rounding.  `approxSumQ_spec`:
    the zero bucket contributes 0, a positive bin `r_k·w_k`, a negative bin `−r_k·w_k`.
  * `sum_accuracy_abs`: after unit adds `|approxSum − Σxᵢ| ≤ α·Σ|xᵢ|` (always).
  * `sum_accuracy`, `sum_accuracy_nonneg`, `sum_accuracy_nonpos`: for same-signed data
    `|approxSum − Σxᵢ| ≤ α·|Σxᵢ|`.
  * the `example` after them: with mixed signs the bound FAILS (`[3, −5]`: true sum −2,
    approximate sum −4).
  * `getSum_of_exact`: the float fold of `GetSum()` returns exactly `approxSumQ` when no product
    and no partial sum is rounded (`Extremes.SumExact`); an `example` shows `SumExact` on the
    sketch of `exXs`.

  T4 — every store kind
  * `getMin_congr`, `getMax_congr`, `getSum_congr`, `approxSumQ_congr`: a sketch refining contents
    `cp`, `cn` (any store kinds) answers like `Sketch.spec s.mapping cp cn s.zero`.
  * `min_accuracy_any_store`, `max_accuracy_any_store`, `quantile_between_any_store`,
    `sum_accuracy_any_store`: T1–T3 for dense / sparse / paginated stores (`Lift.Plain k`), with
    the int32 hypothesis `hx32` of `Lift.quantile_accuracy_any_store`.

  T5 — collapsing stores ("the clamped extremes of C05")
  * `minIndex_specLow`, `maxIndex_specHigh`: the minimum index of a lowest-collapsing content is
    `max(minIndex, maxIndex − N + 1)`, the maximum index of a highest-collapsing content is
    `min(maxIndex, minIndex + N − 1)`; the other extreme index is unchanged.
  * `low_extremes`, `high_extremes`: what `GetMinValue()` / `GetMaxValue()` report on collapsing
    stores after unit adds, in terms of the exact contents: the un-collapsed answer, or the
    representative of the clamped bin.
  * `low_min_accuracy`, `low_max_accuracy`, `high_min_accuracy`, `high_max_accuracy`: the extreme
    on the side a store kind does not collapse is still α-accurate.
-/
import DDS.Proofs.Extremes

namespace DDS.Props.C12x

open DDS DDS.Extremes DDS.Lift DDS.QuantileEx

/-! ## T1. the reported extremes are α-accurate -/

/-- **`GetMinValue()` is the representative of the bin of the true minimum** (sign included; 0 if
    the minimum is in the zero bucket) -/
theorem getMin_bin
    (env : MapEnv) (α mn mx : Rat) (C : Contract env α mn mx)
    (xs : List Rat) (hx : ∀ x ∈ xs, rabs x ≤ mx) (hne : xs ≠ []) (hn : xs.length ≤ 2 ^ 53)
    (s : Sketch)
    (hs : Sketch.addAll env (Sketch.new (some env.id) .sparse) (xs.map (fun x => (x, 1))) = some s) :
    Sketch.getMin env s = .ok (
      let x := (sortedInputs mn xs)[0]!
      if 0 < x then env.value (env.index (.fin (rabs x)))
      else if x < 0 then F64.neg (env.value (env.index (.fin (rabs x))))
      else .fin 0) :=
  getMin_bin' env α mn mx C xs hx hne hn s hs

/-- **`GetMaxValue()` is the representative of the bin of the true maximum** -/
theorem getMax_bin
    (env : MapEnv) (α mn mx : Rat) (C : Contract env α mn mx)
    (xs : List Rat) (hx : ∀ x ∈ xs, rabs x ≤ mx) (hne : xs ≠ []) (hn : xs.length ≤ 2 ^ 53)
    (s : Sketch)
    (hs : Sketch.addAll env (Sketch.new (some env.id) .sparse) (xs.map (fun x => (x, 1))) = some s) :
    Sketch.getMax env s = .ok (
      let x := (sortedInputs mn xs)[xs.length - 1]!
      if 0 < x then env.value (env.index (.fin (rabs x)))
      else if x < 0 then F64.neg (env.value (env.index (.fin (rabs x))))
      else .fin 0) :=
  getMax_bin' env α mn mx C xs hx hne hn s hs

/-- **the reported minimum is within `α` of the true minimum** (exactly 0 when the minimum is in
    the zero bucket: the bound is then `α·0`) -/
theorem min_accuracy
    (env : MapEnv) (α mn mx : Rat) (C : Contract env α mn mx)
    (xs : List Rat) (hx : ∀ x ∈ xs, rabs x ≤ mx) (hne : xs ≠ []) (hn : xs.length ≤ 2 ^ 53)
    (s₀ : Sketch)
    (hs : Sketch.addAll env (Sketch.new (some env.id) .sparse) (xs.map (fun x => (x, 1))) = some s₀) :
    ∃ a : Rat, s₀.getMin env = .ok (.fin a) ∧
      rabs (a - (sortedInputs mn xs)[0]!) ≤ α * rabs ((sortedInputs mn xs)[0]!) :=
  min_accuracy' env α mn mx C xs hx hne hn s₀ hs

/-- **the reported maximum is within `α` of the true maximum** -/
theorem max_accuracy
    (env : MapEnv) (α mn mx : Rat) (C : Contract env α mn mx)
    (xs : List Rat) (hx : ∀ x ∈ xs, rabs x ≤ mx) (hne : xs ≠ []) (hn : xs.length ≤ 2 ^ 53)
    (s₀ : Sketch)
    (hs : Sketch.addAll env (Sketch.new (some env.id) .sparse) (xs.map (fun x => (x, 1))) = some s₀) :
    ∃ b : Rat, s₀.getMax env = .ok (.fin b) ∧
      rabs (b - (sortedInputs mn xs)[xs.length - 1]!) ≤
        α * rabs ((sortedInputs mn xs)[xs.length - 1]!) :=
  max_accuracy' env α mn mx C xs hx hne hn s₀ hs

/-- the reported minimum is the answer at `q = 0` -/
theorem min_eq_quantile_zero
    (env : MapEnv) (α mn mx : Rat) (C : Contract env α mn mx)
    (xs : List Rat) (hx : ∀ x ∈ xs, rabs x ≤ mx) (hne : xs ≠ []) (hn : xs.length ≤ 2 ^ 53)
    (s : Sketch)
    (hs : Sketch.addAll env (Sketch.new (some env.id) .sparse) (xs.map (fun x => (x, 1))) = some s) :
    s.getMin env = s.quantile env (.fin 0) := by
  rw [getMin_bin' env α mn mx C xs hx hne hn s hs, quantile_zero' env α mn mx C xs hx hne hn s hs]

/-- the reported maximum is the answer at `q = 1` -/
theorem max_eq_quantile_one
    (env : MapEnv) (α mn mx : Rat) (C : Contract env α mn mx)
    (xs : List Rat) (hx : ∀ x ∈ xs, rabs x ≤ mx) (hne : xs ≠ []) (hn : xs.length ≤ 2 ^ 53)
    (s : Sketch)
    (hs : Sketch.addAll env (Sketch.new (some env.id) .sparse) (xs.map (fun x => (x, 1))) = some s) :
    s.getMax env = s.quantile env (.fin 1) := by
  rw [getMax_bin' env α mn mx C xs hx hne hn s hs, quantile_one' env α mn mx C xs hx hne hn s hs]

/-- `exXs = [5, -2, 1, 3, -7, 0, 12]` under `exEnv` (`α = 1/2`; bins `(4/3, 4] ↦ 2`,
    `(4, 12] ↦ 6`): the true extremes are −7 and 12, the reported ones −6 and 6, both within
    `α` -/
example : ∃ s, Sketch.addAll exEnv (Sketch.new (some exEnv.id) .sparse) (exXs.map (fun x => (x, 1))) = some s ∧
    s.getMin exEnv = .ok (.fin (-6)) ∧ s.getMax exEnv = .ok (.fin 6) ∧
    rabs (-6 - (sortedInputs (4 / 3) exXs)[0]!) ≤ 1 / 2 * rabs ((sortedInputs (4 / 3) exXs)[0]!) ∧
    rabs (6 - (sortedInputs (4 / 3) exXs)[exXs.length - 1]!) ≤
      1 / 2 * rabs ((sortedInputs (4 / 3) exXs)[exXs.length - 1]!) := by
  obtain ⟨s, hs⟩ := C01.addAll_ok exEnv _ _ _ exContract exXs exXs_ok
  have hne : exXs ≠ [] := by simp [exXs]
  have hn : exXs.length ≤ 2 ^ 53 := by simp [exXs]
  obtain ⟨a, ha, hacc⟩ := min_accuracy exEnv _ _ _ exContract exXs exXs_ok hne hn s hs
  obtain ⟨b, hb, hbcc⟩ := max_accuracy exEnv _ _ _ exContract exXs exXs_ok hne hn s hs
  have h1 := getMin_bin' exEnv _ _ _ exContract exXs exXs_ok hne hn s hs
  have h2 := getMax_bin' exEnv _ _ _ exContract exXs exXs_ok hne hn s hs
  have e1 : (sortedInputs (4 / 3) exXs)[0]! = -7 := by rw [exXs_sorted]; rfl
  have e2 : (sortedInputs (4 / 3) exXs)[exXs.length - 1]! = 12 := by rw [exXs_sorted]; rfl
  have v1 : binRep exEnv (-7) = .fin (-6) := by decide +kernel
  have v2 : binRep exEnv 12 = .fin 6 := by decide +kernel
  rw [e1, v1] at h1
  rw [e2, v2] at h2
  rw [h1] at ha
  rw [h2] at hb
  cases ha
  cases hb
  exact ⟨s, hs, h1, h2, hacc, hbcc⟩

/-! ## T2. quantile answers stay between the reported minimum and maximum -/

/-- **min ≤ quantile ≤ max on a spec sketch**, with the weakest hypotheses: `hpos` — the positive
    store is not consulted while empty (`Sketch.usesPos`, see `DDS.Proofs.SketchObs`); `hrep` —
    when only negative values are held their total weight is a float. -/
theorem quantile_between (env : MapEnv) (α mn mx : Rat) (C : Contract env α mn mx)
    (m : Option MapId) (cp cn : Content) (zq : Rat) (hcp : cp.WF) (hcn : cn.WF) (hz : 0 ≤ zq)
    (hrep : cp = [] → zq = 0 → F64.roundF64 cn.total = .fin cn.total)
    (q v a b : F64)
    (hpos : cp = [] → (Sketch.spec m cp cn (.fin zq)).usesPos q = false)
    (hq : (Sketch.spec m cp cn (.fin zq)).quantile env q = .ok v)
    (ha : (Sketch.spec m cp cn (.fin zq)).getMin env = .ok a)
    (hb : (Sketch.spec m cp cn (.fin zq)).getMax env = .ok b) :
    F64.le a v = true ∧ F64.le v b = true :=
  between_core C m cp cn zq hcp hcn hz hrep q v a b hpos hq ha hb

/-- **`hpos` is necessary**: if a sketch without positive values consults its (empty) positive
    store, the answer is `value 0`, strictly ABOVE the reported maximum.  (So "quantile answers stay
    between the reported minimum and maximum" is FALSE without a hypothesis excluding this.) -/
theorem quantile_above_max_of_empty_store (env : MapEnv) (α mn mx : Rat) (C : Contract env α mn mx)
    (m : Option MapId) (cn : Content) (zq : Rat) (hcn : cn.WF) (q v b : F64)
    (hu : (Sketch.spec m [] cn (.fin zq)).usesPos q = true)
    (hq : (Sketch.spec m [] cn (.fin zq)).quantile env q = .ok v)
    (hb : (Sketch.spec m [] cn (.fin zq)).getMax env = .ok b) :
    v = env.value 0 ∧ F64.lt b v = true :=
  above_max_of_usesPos C m [] cn zq Content.wf_nil hcn q v b hu hq hb

/-- the counterexample, concretely (the absorbed count of `C11`): one negative value in bin 1 with
    count `2^54` under `exEnv`; `count − 1` rounds back to `count`, `q = 1` reads the empty
    positive store and answers `+2`, while the reported maximum (= minimum) is `−6` -/
example :
    Sketch.quantile exEnv (Sketch.spec (some exEnv.id) [] [(1, (2 : Rat) ^ 54)] (.fin 0)) (.fin 1)
      = .ok (.fin 2) ∧
    Sketch.getMax exEnv (Sketch.spec (some exEnv.id) [] [(1, (2 : Rat) ^ 54)] (.fin 0))
      = .ok (.fin (-6)) ∧
    Sketch.getMin exEnv (Sketch.spec (some exEnv.id) [] [(1, (2 : Rat) ^ 54)] (.fin 0))
      = .ok (.fin (-6)) ∧
    F64.lt (.fin (-6)) (.fin 2) = true := by
  have ht : Content.total [((1 : Int), (2 : Rat) ^ 54)] = (2 : Rat) ^ 54 := by
    simp [Content.total]
  refine ⟨?_, by decide +kernel, by decide +kernel, by decide +kernel⟩
  have := C11.absorbed_count_answers_from_empty_store exEnv (some exEnv.id)
    [(1, (2 : Rat) ^ 54)] (by rw [ht]; norm_num) (by rw [ht]; exact round_pow54)
    (by rw [ht]; exact sub_one_absorbed)
  exact this

/-- **min ≤ quantile ≤ max under exact counting** (the hypotheses of `C12.quantile_mono`;
    `count − 1 ≠ count` — true below `2^53` — is only needed when there is no positive value) -/
theorem quantile_between_exact (env : MapEnv) (α mn mx : Rat) (C : Contract env α mn mx)
    (m : Option MapId) (cp cn : Content) (zq : Rat) (hcp : cp.WF) (hcn : cn.WF) (hz : 0 ≤ zq)
    (hx : F64.add (F64.add (.fin zq) (.fin cp.total)) (.fin cn.total) =
      .fin (zq + cp.total + cn.total))
    (hpred : cp = [] →
      F64.sub (.fin (zq + cp.total + cn.total)) F64.one ≠ .fin (zq + cp.total + cn.total))
    (q v a b : F64)
    (hq : (Sketch.spec m cp cn (.fin zq)).quantile env q = .ok v)
    (ha : (Sketch.spec m cp cn (.fin zq)).getMin env = .ok a)
    (hb : (Sketch.spec m cp cn (.fin zq)).getMax env = .ok b) :
    F64.le a v = true ∧ F64.le v b = true :=
  between_exact C m cp cn zq hcp hcn hz hx hpred q v a b hq ha hb

/-- **min ≤ quantile ≤ max after at most `2^53` unit adds**: no extra hypothesis -/
theorem quantile_between_units
    (env : MapEnv) (α mn mx : Rat) (C : Contract env α mn mx)
    (xs : List Rat) (hx : ∀ x ∈ xs, rabs x ≤ mx) (hne : xs ≠ []) (hn : xs.length ≤ 2 ^ 53)
    (s : Sketch)
    (hs : Sketch.addAll env (Sketch.new (some env.id) .sparse) (xs.map (fun x => (x, 1))) = some s)
    (q v a b : F64) (hq : s.quantile env q = .ok v)
    (ha : s.getMin env = .ok a) (hb : s.getMax env = .ok b) :
    F64.le a v = true ∧ F64.le v b = true :=
  between_units env α mn mx C xs hx hne hn s hs q v a b hq ha hb

/-- the same with everything made explicit: the extremes and every valid quantile are answered,
    with finite values, and `min ≤ quantile ≤ max` as rationals -/
theorem quantile_between_units_rat
    (env : MapEnv) (α mn mx : Rat) (C : Contract env α mn mx)
    (xs : List Rat) (hx : ∀ x ∈ xs, rabs x ≤ mx) (hne : xs ≠ []) (hn : xs.length ≤ 2 ^ 53)
    (s : Sketch)
    (hs : Sketch.addAll env (Sketch.new (some env.id) .sparse) (xs.map (fun x => (x, 1))) = some s) :
    ∃ a b : Rat, s.getMin env = .ok (.fin a) ∧ s.getMax env = .ok (.fin b) ∧
      ∀ q : Rat, 0 ≤ q → q ≤ 1 →
        ∃ v : Rat, s.quantile env (.fin q) = .ok (.fin v) ∧ a ≤ v ∧ v ≤ b := by
  obtain ⟨a, ha, _⟩ := min_accuracy env α mn mx C xs hx hne hn s hs
  obtain ⟨b, hb, _⟩ := max_accuracy env α mn mx C xs hx hne hn s hs
  refine ⟨a, b, ha, hb, fun q h0 h1 => ?_⟩
  obtain ⟨v, hv, _⟩ := C01.quantile_accuracy env α mn mx C xs hx hne hn s hs q h0 h1
  obtain ⟨l1, l2⟩ := between_units env α mn mx C xs hx hne hn s hs _ _ _ _ hv ha hb
  exact ⟨v, hv, by simpa using l1, by simpa using l2⟩

/-- `quantile_between_units_rat` on `exXs` -/
example : ∃ s, Sketch.addAll exEnv (Sketch.new (some exEnv.id) .sparse) (exXs.map (fun x => (x, 1))) = some s ∧
    ∃ a b : Rat, s.getMin exEnv = .ok (.fin a) ∧ s.getMax exEnv = .ok (.fin b) ∧
      ∀ q : Rat, 0 ≤ q → q ≤ 1 →
        ∃ v : Rat, s.quantile exEnv (.fin q) = .ok (.fin v) ∧ a ≤ v ∧ v ≤ b := by
  obtain ⟨s, hs⟩ := C01.addAll_ok exEnv _ _ _ exContract exXs exXs_ok
  exact ⟨s, hs, quantile_between_units_rat exEnv _ _ _ exContract exXs exXs_ok (by simp [exXs])
    (by simp [exXs]) s hs⟩

/-- `quantile_between_exact` on the weighted spec sketch `C12.skC` (fractional ranks) -/
example (q v a b : F64) (hq : C12.skC.quantile C12.envC q = .ok v)
    (ha : C12.skC.getMin C12.envC = .ok a) (hb : C12.skC.getMax C12.envC = .ok b) :
    F64.le a v = true ∧ F64.le v b = true :=
  quantile_between_exact C12.envC _ _ _ C12.envC_contract (some C12.envC.id) [(0, 2), (3, 1)]
    [(1, 1)] 1
    ((Content.wf_cons _ _).2 ⟨by norm_num, by simp,
      (Content.wf_cons _ _).2 ⟨by norm_num, by simp, Content.wf_nil⟩⟩)
    ((Content.wf_cons _ _).2 ⟨by norm_num, by simp, Content.wf_nil⟩)
    (by norm_num) (by decide +kernel) (fun h => by simp at h) q v a b hq ha hb

/-! ## T3. the approximate sum -/

/-- the exact approximate sum of a spec sketch: the zero bucket contributes 0, a positive bin
    `value(k)·w`, a negative bin `−value(k)·w` (`Extremes.valQ env k` is the rational `r` with
    `env.value k = .fin r`, `Extremes.fsumC f c = Σ_{(k,w) ∈ c} f k · w`) -/
theorem approxSumQ_spec (env : MapEnv) (m : Option MapId) (cp cn : Content) (zq : Rat) :
    approxSumQ env (Sketch.spec m cp cn (.fin zq)) =
      some (fsumC (valQ env) cp - fsumC (valQ env) cn) :=
  Extremes.approxSumQ_spec env m cp cn zq

/-- under the contract `valQ` is the representative value -/
theorem value_eq_valQ (env : MapEnv) (α mn mx : Rat) (C : Contract env α mn mx) (k : Int) :
    env.value k = .fin (valQ env k) ∧ 0 < valQ env k :=
  ⟨value_eq C k, valQ_pos C k⟩

/-- **accuracy of the approximate sum, any signs**: the error is at most `α · Σ|xᵢ|` -/
theorem sum_accuracy_abs
    (env : MapEnv) (α mn mx : Rat) (C : Contract env α mn mx)
    (xs : List Rat) (hx : ∀ x ∈ xs, rabs x ≤ mx) (hn : xs.length ≤ 2 ^ 53)
    (s : Sketch)
    (hs : Sketch.addAll env (Sketch.new (some env.id) .sparse) (xs.map (fun x => (x, 1))) = some s) :
    ∃ A : Rat, approxSumQ env s = some A ∧
      rabs (A - (sortedInputs mn xs).sum) ≤ α * ((sortedInputs mn xs).map rabs).sum :=
  sum_accuracy_abs' env α mn mx C xs hx hn s hs

/-- **the approximate sum is within `α` of the true sum for same-signed data** (values of
    sub-minimum magnitude count as 0 — on both sides of the comparison) -/
theorem sum_accuracy
    (env : MapEnv) (α mn mx : Rat) (C : Contract env α mn mx)
    (xs : List Rat) (hx : ∀ x ∈ xs, rabs x ≤ mx) (hn : xs.length ≤ 2 ^ 53)
    (s : Sketch)
    (hs : Sketch.addAll env (Sketch.new (some env.id) .sparse) (xs.map (fun x => (x, 1))) = some s)
    (hsign : (∀ y ∈ sortedInputs mn xs, 0 ≤ y) ∨ (∀ y ∈ sortedInputs mn xs, y ≤ 0)) :
    ∃ A : Rat, approxSumQ env s = some A ∧
      rabs (A - (sortedInputs mn xs).sum) ≤ α * rabs (sortedInputs mn xs).sum :=
  sum_accuracy' env α mn mx C xs hx hn s hs hsign

/-- all inputs non-negative; the true sum is spelled out as the sum of the zero-collapsed inputs -/
theorem sum_accuracy_nonneg
    (env : MapEnv) (α mn mx : Rat) (C : Contract env α mn mx)
    (xs : List Rat) (hx : ∀ x ∈ xs, rabs x ≤ mx) (hn : xs.length ≤ 2 ^ 53)
    (s : Sketch)
    (hs : Sketch.addAll env (Sketch.new (some env.id) .sparse) (xs.map (fun x => (x, 1))) = some s)
    (h0 : ∀ x ∈ xs, 0 ≤ x) :
    ∃ A : Rat, approxSumQ env s = some A ∧
      rabs (A - (xs.map (zeroSmall mn)).sum) ≤ α * rabs (xs.map (zeroSmall mn)).sum := by
  rw [← sum_sortedInputs]
  exact sum_accuracy env α mn mx C xs hx hn s hs (Or.inl (sortedInputs_nonneg_of mn xs h0))

/-- all inputs non-positive -/
theorem sum_accuracy_nonpos
    (env : MapEnv) (α mn mx : Rat) (C : Contract env α mn mx)
    (xs : List Rat) (hx : ∀ x ∈ xs, rabs x ≤ mx) (hn : xs.length ≤ 2 ^ 53)
    (s : Sketch)
    (hs : Sketch.addAll env (Sketch.new (some env.id) .sparse) (xs.map (fun x => (x, 1))) = some s)
    (h0 : ∀ x ∈ xs, x ≤ 0) :
    ∃ A : Rat, approxSumQ env s = some A ∧
      rabs (A - (xs.map (zeroSmall mn)).sum) ≤ α * rabs (xs.map (zeroSmall mn)).sum := by
  rw [← sum_sortedInputs]
  exact sum_accuracy env α mn mx C xs hx hn s hs (Or.inr (sortedInputs_nonpos_of mn xs h0))

/-- the non-negative inputs `[5, 1, 3, 0, 12]` under `exEnv`: true sum (1 counts as 0) 20,
    approximate sum `6 + 2 + 6 = 14`, within `α = 1/2` -/
example : ∃ s, Sketch.addAll exEnv (Sketch.new (some exEnv.id) .sparse)
      (([5, 1, 3, 0, 12] : List Rat).map (fun x => (x, 1))) = some s ∧
    approxSumQ exEnv s = some 14 ∧
    (([5, 1, 3, 0, 12] : List Rat).map (zeroSmall (4 / 3))).sum = 20 ∧
    rabs (14 - 20) ≤ 1 / 2 * rabs (20 : Rat) := by
  have hok : ∀ x ∈ ([5, 1, 3, 0, 12] : List Rat), rabs x ≤ 12 := by
    intro x hx
    simp only [List.mem_cons, List.not_mem_nil, or_false] at hx
    rcases hx with rfl | rfl | rfl | rfl | rfl <;> (unfold rabs; norm_num)
  obtain ⟨s, hs⟩ := C01.addAll_ok exEnv _ _ _ exContract _ hok
  obtain ⟨A, hA, hacc⟩ := sum_accuracy_nonneg exEnv _ _ _ exContract _ hok (by simp) s hs (by
    intro x hx
    simp only [List.mem_cons, List.not_mem_nil, or_false] at hx
    rcases hx with rfl | rfl | rfl | rfl | rfl <;> norm_num)
  have hsum : (([5, 1, 3, 0, 12] : List Rat).map (zeroSmall (4 / 3))).sum = 20 := by decide +kernel
  have hval : approxSumQ exEnv s = some 14 := by
    have h := hs
    rw [DDS.new_sparse, addAll_units exEnv _ _ _ exContract _ hok] at h
    cases h
    decide +kernel
  rw [hval] at hA
  cases hA
  rw [hsum] at hacc
  exact ⟨s, hs, hval, hsum, hacc⟩

/-- **mixed signs: the bound fails.**  Inputs `3` (bin 0 ↦ 2) and `−5` (bin 1 ↦ 6) under `exEnv`:
    true sum `−2`, approximate sum `2 − 6 = −4`, error `2 > α·|−2| = 1`
    (only `sum_accuracy_abs` holds: `2 ≤ α·(3 + 5) = 4`). -/
example : ∃ s, Sketch.addAll exEnv (Sketch.new (some exEnv.id) .sparse)
      (([3, -5] : List Rat).map (fun x => (x, 1))) = some s ∧
    approxSumQ exEnv s = some (-4) ∧ (sortedInputs (4 / 3) [3, -5]).sum = -2 ∧
    ¬ (rabs (-4 - -2) ≤ 1 / 2 * rabs (-2 : Rat)) := by
  have hok : ∀ x ∈ ([3, -5] : List Rat), rabs x ≤ 12 := by
    intro x hx
    simp only [List.mem_cons, List.not_mem_nil, or_false] at hx
    rcases hx with rfl | rfl <;> (unfold rabs; norm_num)
  obtain ⟨s, hs⟩ := C01.addAll_ok exEnv _ _ _ exContract _ hok
  refine ⟨s, hs, ?_, ?_, by unfold rabs; norm_num⟩
  · have h := hs
    rw [DDS.new_sparse, addAll_units exEnv _ _ _ exContract _ hok] at h
    cases h
    decide +kernel
  · rw [sum_sortedInputs]; decide +kernel

/-- **the float `GetSum()` equals the exact approximate sum when nothing is rounded**
    (`SumExact l`: every enumerated value is finite, every product `value·weight` and every partial
    sum is a float) -/
theorem getSum_of_exact (env : MapEnv) (s : Sketch) (l : List (F64 × Rat))
    (hl : s.forEachList env = some l) (hE : SumExact l) :
    s.getSum env = some (.fin (approxSumL l)) ∧ approxSumQ env s = some (approxSumL l) :=
  Extremes.getSum_of_exact env s l hl hE

/-- `GetSum()` is by definition the float fold over the `ForEach` enumeration -/
theorem getSum_eq_fold (env : MapEnv) (s : Sketch) :
    s.getSum env = (s.forEachList env).map (sumFold (.fin 0)) :=
  Extremes.getSum_eq_fold env s

/-- `SumExact` holds on the sketch of `exXs` (two zeros, positive bins `0 ↦ 1`, `1 ↦ 2`, negative
    bins `0 ↦ 1`, `1 ↦ 1`): partial sums `0, 2, 14, 12, 6`; `GetSum() = 6` (true sum 11) -/
example : ∃ s, Sketch.addAll exEnv (Sketch.new (some exEnv.id) .sparse) (exXs.map (fun x => (x, 1))) = some s ∧
    s.forEachList exEnv =
      some [(.fin 0, 2), (.fin 2, 1), (.fin 6, 2), (.fin (-2), 1), (.fin (-6), 1)] ∧
    SumExact [(.fin 0, 2), (.fin 2, 1), (.fin 6, 2), (.fin (-2), 1), (.fin (-6), 1)] ∧
    s.getSum exEnv = some (.fin 6) := by
  obtain ⟨s, hs⟩ := C01.addAll_ok exEnv _ _ _ exContract exXs exXs_ok
  have hl : s.forEachList exEnv =
      some [(.fin 0, 2), (.fin 2, 1), (.fin 6, 2), (.fin (-2), 1), (.fin (-6), 1)] := by
    have h := hs
    rw [DDS.new_sparse, addAll_units exEnv _ _ _ exContract exXs exXs_ok] at h
    cases h
    decide +kernel
  have hE : SumExact [(.fin 0, 2), (.fin 2, 1), (.fin 6, 2), (.fin (-2), 1), (.fin (-6), 1)] := by
    constructor
    · intro p hp
      simp only [List.mem_cons, List.not_mem_nil, or_false] at hp
      rcases hp with rfl | rfl | rfl | rfl | rfl <;> exact ⟨_, rfl, by decide +kernel⟩
    · intro k hk
      simp only [List.length_cons, List.length_nil] at hk
      have hk' : k = 0 ∨ k = 1 ∨ k = 2 ∨ k = 3 ∨ k = 4 ∨ k = 5 := by omega
      rcases hk' with rfl | rfl | rfl | rfl | rfl | rfl <;> decide +kernel
  refine ⟨s, hs, hl, hE, ?_⟩
  rw [(getSum_of_exact exEnv s _ hl hE).1]
  decide +kernel

/-! ## T4. every store kind -/

/-- `GetMinValue()` only depends on the contents the stores refine -/
theorem getMin_congr (env : MapEnv) (s : Sketch) (cp cn : Content) (h : s.Refines cp cn) :
    s.getMin env = (Sketch.spec s.mapping cp cn s.zero).getMin env :=
  Sketch.getMin_congr env h

/-- `GetMaxValue()` only depends on the contents the stores refine -/
theorem getMax_congr (env : MapEnv) (s : Sketch) (cp cn : Content) (h : s.Refines cp cn) :
    s.getMax env = (Sketch.spec s.mapping cp cn s.zero).getMax env :=
  Sketch.getMax_congr env h

/-- `GetSum()` only depends on the contents the stores refine -/
theorem getSum_congr (env : MapEnv) (s : Sketch) (cp cn : Content) (h : s.Refines cp cn) :
    s.getSum env = (Sketch.spec s.mapping cp cn s.zero).getSum env :=
  Sketch.getSum_congr env h

/-- … and so does its exact version -/
theorem approxSumQ_congr (env : MapEnv) (s : Sketch) (cp cn : Content) (h : s.Refines cp cn) :
    approxSumQ env s = approxSumQ env (Sketch.spec s.mapping cp cn s.zero) :=
  Extremes.approxSumQ_congr env h

/-- **the reported minimum is α-accurate for every non-collapsing store kind** -/
theorem min_accuracy_any_store (k : StoreKind) (hk : Plain k)
    (env : MapEnv) (α mn mx : Rat) (C : Contract env α mn mx)
    (xs : List Rat) (hx : ∀ x ∈ xs, rabs x ≤ mx)
    (hx32 : ∀ x ∈ xs, mn < rabs x → I32 (env.index (.fin (rabs x))))
    (hne : xs ≠ []) (hn : xs.length ≤ 2 ^ 53) (s : Sketch)
    (hs : Sketch.addAll env (Sketch.new (some env.id) k) (xs.map (fun x => (x, 1))) = some s) :
    ∃ a : Rat, s.getMin env = .ok (.fin a) ∧
      rabs (a - (sortedInputs mn xs)[0]!) ≤ α * rabs ((sortedInputs mn xs)[0]!) := by
  obtain ⟨s₀, h0, e1, _⟩ := obs_eq_spec k hk env α mn mx C xs hx hx32 s hs
  rw [e1]
  exact min_accuracy env α mn mx C xs hx hne hn s₀ h0

/-- **the reported maximum is α-accurate for every non-collapsing store kind** -/
theorem max_accuracy_any_store (k : StoreKind) (hk : Plain k)
    (env : MapEnv) (α mn mx : Rat) (C : Contract env α mn mx)
    (xs : List Rat) (hx : ∀ x ∈ xs, rabs x ≤ mx)
    (hx32 : ∀ x ∈ xs, mn < rabs x → I32 (env.index (.fin (rabs x))))
    (hne : xs ≠ []) (hn : xs.length ≤ 2 ^ 53) (s : Sketch)
    (hs : Sketch.addAll env (Sketch.new (some env.id) k) (xs.map (fun x => (x, 1))) = some s) :
    ∃ b : Rat, s.getMax env = .ok (.fin b) ∧
      rabs (b - (sortedInputs mn xs)[xs.length - 1]!) ≤
        α * rabs ((sortedInputs mn xs)[xs.length - 1]!) := by
  obtain ⟨s₀, h0, _, e2, _⟩ := obs_eq_spec k hk env α mn mx C xs hx hx32 s hs
  rw [e2]
  exact max_accuracy env α mn mx C xs hx hne hn s₀ h0

/-- **min ≤ quantile ≤ max for every non-collapsing store kind** -/
theorem quantile_between_any_store (k : StoreKind) (hk : Plain k)
    (env : MapEnv) (α mn mx : Rat) (C : Contract env α mn mx)
    (xs : List Rat) (hx : ∀ x ∈ xs, rabs x ≤ mx)
    (hx32 : ∀ x ∈ xs, mn < rabs x → I32 (env.index (.fin (rabs x))))
    (hne : xs ≠ []) (hn : xs.length ≤ 2 ^ 53) (s : Sketch)
    (hs : Sketch.addAll env (Sketch.new (some env.id) k) (xs.map (fun x => (x, 1))) = some s)
    (q v a b : F64) (hq : s.quantile env q = .ok v)
    (ha : s.getMin env = .ok a) (hb : s.getMax env = .ok b) :
    F64.le a v = true ∧ F64.le v b = true := by
  obtain ⟨s₀, h0, e1, e2, _⟩ := obs_eq_spec k hk env α mn mx C xs hx hx32 s hs
  obtain ⟨s₀', h0', eq⟩ := Props.Lift.quantile_eq_spec k hk env α mn mx C xs hx hx32 hne hn s hs
  rw [h0] at h0'
  cases h0'
  rw [eq] at hq
  rw [e1] at ha
  rw [e2] at hb
  exact quantile_between_units env α mn mx C xs hx hne hn s₀ h0 q v a b hq ha hb

/-- **the approximate sum is α-accurate on same-signed data for every non-collapsing store
    kind**; and `GetSum()`, `ForEach` agree with the spec sketch built from the same values -/
theorem sum_accuracy_any_store (k : StoreKind) (hk : Plain k)
    (env : MapEnv) (α mn mx : Rat) (C : Contract env α mn mx)
    (xs : List Rat) (hx : ∀ x ∈ xs, rabs x ≤ mx)
    (hx32 : ∀ x ∈ xs, mn < rabs x → I32 (env.index (.fin (rabs x))))
    (hn : xs.length ≤ 2 ^ 53) (s : Sketch)
    (hs : Sketch.addAll env (Sketch.new (some env.id) k) (xs.map (fun x => (x, 1))) = some s)
    (hsign : (∀ y ∈ sortedInputs mn xs, 0 ≤ y) ∨ (∀ y ∈ sortedInputs mn xs, y ≤ 0)) :
    (∃ A : Rat, approxSumQ env s = some A ∧
      rabs (A - (sortedInputs mn xs).sum) ≤ α * rabs (sortedInputs mn xs).sum) ∧
    ∃ s₀, Sketch.addAll env (Sketch.new (some env.id) .sparse) (xs.map (fun x => (x, 1))) = some s₀ ∧
      s.getSum env = s₀.getSum env ∧ s.forEachList env = s₀.forEachList env := by
  obtain ⟨s₀, h0, _, _, e3, e4, e5⟩ := obs_eq_spec k hk env α mn mx C xs hx hx32 s hs
  refine ⟨?_, s₀, h0, e4, e3⟩
  rw [e5]
  exact sum_accuracy env α mn mx C xs hx hn s₀ h0 hsign

/-- T1/T2 on dense and on paginated stores, `exXs` -/
example (k : StoreKind) (hk : k = .dense ∨ k = .pag) :
    ∃ s, Sketch.addAll exEnv (Sketch.new (some exEnv.id) k) (exXs.map (fun x => (x, 1))) = some s ∧
    (∃ a : Rat, s.getMin exEnv = .ok (.fin a) ∧
      rabs (a - (sortedInputs (4 / 3) exXs)[0]!) ≤ 1 / 2 * rabs ((sortedInputs (4 / 3) exXs)[0]!)) ∧
    (∃ b : Rat, s.getMax exEnv = .ok (.fin b) ∧
      rabs (b - (sortedInputs (4 / 3) exXs)[exXs.length - 1]!) ≤
        1 / 2 * rabs ((sortedInputs (4 / 3) exXs)[exXs.length - 1]!)) ∧
    ∀ q v a b : F64, s.quantile exEnv q = .ok v → s.getMin exEnv = .ok a →
      s.getMax exEnv = .ok b → F64.le a v = true ∧ F64.le v b = true := by
  have hp : Plain k := by rcases hk with rfl | rfl <;> trivial
  have h32 : ∀ x ∈ exXs, (4 / 3 : Rat) < rabs x → I32 (exEnv.index (.fin (rabs x))) :=
    fun x _ _ => Props.Lift.exEnv_index32 _
  obtain ⟨s, hs⟩ := Props.Lift.addAll_ok_any_store k hp exEnv _ _ _ exContract exXs exXs_ok h32
  have hne : exXs ≠ [] := by simp [exXs]
  have hn : exXs.length ≤ 2 ^ 53 := by simp [exXs]
  exact ⟨s, hs,
    min_accuracy_any_store k hp exEnv _ _ _ exContract exXs exXs_ok h32 hne hn s hs,
    max_accuracy_any_store k hp exEnv _ _ _ exContract exXs exXs_ok h32 hne hn s hs,
    fun q v a b => quantile_between_any_store k hp exEnv _ _ _ exContract exXs exXs_ok h32 hne hn
      s hs q v a b⟩

/-! ## T5. collapsing stores: the clamped extremes of C05 -/

/-- the minimum index of a lowest-collapsing content (limit `N`) is `max(minIndex, maxIndex−N+1)`;
    its maximum index and emptiness are those of the exact content -/
theorem minIndex_specLow (N : Nat) (hN : 1 ≤ N) (c : Content) (h : c.WF) :
    (Content.specLow N c).maxIndex? = c.maxIndex? ∧
    (Content.specLow N c).isEmpty = c.isEmpty ∧
    ∀ mn mx, c.minIndex? = some mn → c.maxIndex? = some mx →
      (Content.specLow N c).minIndex? = some (max mn (mx - (N : Int) + 1)) :=
  ⟨maxIndex_specLow N hN c h, isEmpty_specLow N c h,
    fun mn mx => Extremes.minIndex_specLow N c h mn mx⟩

/-- the maximum index of a highest-collapsing content (limit `N`) is `min(maxIndex, minIndex+N−1)`;
    its minimum index and emptiness are those of the exact content -/
theorem maxIndex_specHigh (N : Nat) (hN : 1 ≤ N) (c : Content) (h : c.WF) :
    (Content.specHigh N c).minIndex? = c.minIndex? ∧
    (Content.specHigh N c).isEmpty = c.isEmpty ∧
    ∀ mn mx, c.minIndex? = some mn → c.maxIndex? = some mx →
      (Content.specHigh N c).maxIndex? = some (min mx (mn + (N : Int) - 1)) :=
  ⟨minIndex_specHigh N hN c h, isEmpty_specHigh N c h,
    fun mn mx => Extremes.maxIndex_specHigh N c h mn mx⟩

/-- **extremes reported on lowest-collapsing stores** (`N ≥ 1` bins per store), after unit adds,
    in terms of the spec sketch `s₀ = spec cp cn zero` built from the same values:
    * `GetMinValue()` is `s₀`'s whenever a negative value or a zero was added (the negative store
      keeps its highest index = the most negative value); otherwise it is the representative of
      the clamped bin `max(minIndex cp, maxIndex cp − N + 1)`;
    * `GetMaxValue()` is `s₀`'s whenever a positive value or a zero was added; otherwise it is
      minus the representative of the clamped bin of the negative store. -/
theorem low_extremes (N : Nat) (hN : 1 ≤ N)
    (env : MapEnv) (α mn mx : Rat) (C : Contract env α mn mx)
    (xs : List Rat) (hx : ∀ x ∈ xs, rabs x ≤ mx)
    (hx32 : ∀ x ∈ xs, mn < rabs x → I32 (env.index (.fin (rabs x)))) (s : Sketch)
    (hs : Sketch.addAll env (Sketch.new (some env.id) (.low N)) (xs.map (fun x => (x, 1))) = some s) :
    ∃ s₀ cp cn,
      Sketch.addAll env (Sketch.new (some env.id) .sparse) (xs.map (fun x => (x, 1))) = some s₀ ∧
      s₀ = Sketch.spec (some env.id) cp cn s.zero ∧ cp.WF ∧ cn.WF ∧
      s.getMin env =
        (if (!cn.isEmpty || F64.gt s.zero (.fin 0)) = true then s₀.getMin env
         else match cp.minIndex?, cp.maxIndex? with
          | some a, some b => .ok (env.value (max a (b - (N : Int) + 1)))
          | _, _ => .error .empty) ∧
      s.getMax env =
        (if (!cp.isEmpty || F64.gt s.zero (.fin 0)) = true then s₀.getMax env
         else match cn.minIndex?, cn.maxIndex? with
          | some a, some b => .ok (F64.neg (env.value (max a (b - (N : Int) + 1))))
          | _, _ => .error .empty) :=
  low_extremes' N hN env α mn mx C xs hx hx32 s hs

/-- **extremes reported on highest-collapsing stores**: with negative values `GetMinValue()` is
    minus the representative of the clamped bin `min(maxIndex cn, minIndex cn + N − 1)`, otherwise
    `s₀`'s; with positive values `GetMaxValue()` is the representative of the clamped bin
    `min(maxIndex cp, minIndex cp + N − 1)`, otherwise `s₀`'s. -/
theorem high_extremes (N : Nat) (hN : 1 ≤ N)
    (env : MapEnv) (α mn mx : Rat) (C : Contract env α mn mx)
    (xs : List Rat) (hx : ∀ x ∈ xs, rabs x ≤ mx)
    (hx32 : ∀ x ∈ xs, mn < rabs x → I32 (env.index (.fin (rabs x)))) (s : Sketch)
    (hs : Sketch.addAll env (Sketch.new (some env.id) (.high N)) (xs.map (fun x => (x, 1))) = some s) :
    ∃ s₀ cp cn,
      Sketch.addAll env (Sketch.new (some env.id) .sparse) (xs.map (fun x => (x, 1))) = some s₀ ∧
      s₀ = Sketch.spec (some env.id) cp cn s.zero ∧ cp.WF ∧ cn.WF ∧
      s.getMin env =
        (if (!cn.isEmpty) = true then
          match cn.minIndex?, cn.maxIndex? with
          | some a, some b => .ok (F64.neg (env.value (min b (a + (N : Int) - 1))))
          | _, _ => .ok (F64.neg (env.value 0))
         else s₀.getMin env) ∧
      s.getMax env =
        (if (!cp.isEmpty) = true then
          match cp.minIndex?, cp.maxIndex? with
          | some a, some b => .ok (env.value (min b (a + (N : Int) - 1)))
          | _, _ => .ok (env.value 0)
         else s₀.getMax env) :=
  high_extremes' N hN env α mn mx C xs hx hx32 s hs

/-- lowest-collapsing stores: the reported minimum is α-accurate as soon as some input is
    negative or in the zero bucket (`x ≤ minIndexable`) -/
theorem low_min_accuracy (N : Nat) (hN : 1 ≤ N)
    (env : MapEnv) (α mn mx : Rat) (C : Contract env α mn mx)
    (xs : List Rat) (hx : ∀ x ∈ xs, rabs x ≤ mx)
    (hx32 : ∀ x ∈ xs, mn < rabs x → I32 (env.index (.fin (rabs x))))
    (hne : xs ≠ []) (hn : xs.length ≤ 2 ^ 53) (s : Sketch)
    (hs : Sketch.addAll env (Sketch.new (some env.id) (.low N)) (xs.map (fun x => (x, 1))) = some s)
    (hlow : ∃ x ∈ xs, x ≤ mn) :
    ∃ a : Rat, s.getMin env = .ok (.fin a) ∧
      rabs (a - (sortedInputs mn xs)[0]!) ≤ α * rabs ((sortedInputs mn xs)[0]!) := by
  obtain ⟨s₀, h0, e⟩ := low_min_eq N hN env α mn mx C xs hx hx32 hn s hlow hs
  rw [e]
  exact min_accuracy env α mn mx C xs hx hne hn s₀ h0

/-- lowest-collapsing stores: the reported maximum is α-accurate as soon as some input is
    positive or in the zero bucket (`x ≥ −minIndexable`) -/
theorem low_max_accuracy (N : Nat) (hN : 1 ≤ N)
    (env : MapEnv) (α mn mx : Rat) (C : Contract env α mn mx)
    (xs : List Rat) (hx : ∀ x ∈ xs, rabs x ≤ mx)
    (hx32 : ∀ x ∈ xs, mn < rabs x → I32 (env.index (.fin (rabs x))))
    (hne : xs ≠ []) (hn : xs.length ≤ 2 ^ 53) (s : Sketch)
    (hs : Sketch.addAll env (Sketch.new (some env.id) (.low N)) (xs.map (fun x => (x, 1))) = some s)
    (hhigh : ∃ x ∈ xs, -mn ≤ x) :
    ∃ b : Rat, s.getMax env = .ok (.fin b) ∧
      rabs (b - (sortedInputs mn xs)[xs.length - 1]!) ≤
        α * rabs ((sortedInputs mn xs)[xs.length - 1]!) := by
  obtain ⟨s₀, h0, e⟩ := low_max_eq N hN env α mn mx C xs hx hx32 hn s hhigh hs
  rw [e]
  exact max_accuracy env α mn mx C xs hx hne hn s₀ h0

/-- highest-collapsing stores: the reported minimum is α-accurate when no input is negative -/
theorem high_min_accuracy (N : Nat) (hN : 1 ≤ N)
    (env : MapEnv) (α mn mx : Rat) (C : Contract env α mn mx)
    (xs : List Rat) (hx : ∀ x ∈ xs, rabs x ≤ mx)
    (hx32 : ∀ x ∈ xs, mn < rabs x → I32 (env.index (.fin (rabs x))))
    (hne : xs ≠ []) (hn : xs.length ≤ 2 ^ 53) (s : Sketch)
    (hs : Sketch.addAll env (Sketch.new (some env.id) (.high N)) (xs.map (fun x => (x, 1))) = some s)
    (hnn : ∀ x ∈ xs, -mn ≤ x) :
    ∃ a : Rat, s.getMin env = .ok (.fin a) ∧
      rabs (a - (sortedInputs mn xs)[0]!) ≤ α * rabs ((sortedInputs mn xs)[0]!) := by
  obtain ⟨s₀, h0, e⟩ := high_min_eq N hN env α mn mx C xs hx hx32 hn s hnn hs
  rw [e]
  exact min_accuracy env α mn mx C xs hx hne hn s₀ h0

/-- highest-collapsing stores: the reported maximum is α-accurate when no input is positive -/
theorem high_max_accuracy (N : Nat) (hN : 1 ≤ N)
    (env : MapEnv) (α mn mx : Rat) (C : Contract env α mn mx)
    (xs : List Rat) (hx : ∀ x ∈ xs, rabs x ≤ mx)
    (hx32 : ∀ x ∈ xs, mn < rabs x → I32 (env.index (.fin (rabs x))))
    (hne : xs ≠ []) (hn : xs.length ≤ 2 ^ 53) (s : Sketch)
    (hs : Sketch.addAll env (Sketch.new (some env.id) (.high N)) (xs.map (fun x => (x, 1))) = some s)
    (hnp : ∀ x ∈ xs, x ≤ mn) :
    ∃ b : Rat, s.getMax env = .ok (.fin b) ∧
      rabs (b - (sortedInputs mn xs)[xs.length - 1]!) ≤
        α * rabs ((sortedInputs mn xs)[xs.length - 1]!) := by
  obtain ⟨s₀, h0, e⟩ := high_max_eq N hN env α mn mx C xs hx hx32 hn s hnp hs
  rw [e]
  exact max_accuracy env α mn mx C xs hx hne hn s₀ h0

/-- the clamped minimum, concretely: bins 1, 3, 5 collapsed to two bins: `max(1, 5 − 2 + 1) = 4` -/
example : (Content.specLow 2 [(1, 1), (3, 1), (5, 1)]).minIndex? = some 4 ∧
    (Content.specLow 2 [(1, 1), (3, 1), (5, 1)]).maxIndex? = some 5 ∧
    (Content.specHigh 2 [(1, 1), (3, 1), (5, 1)]).maxIndex? = some 2 ∧
    (Content.specHigh 2 [(1, 1), (3, 1), (5, 1)]).minIndex? = some 1 := by
  have wf : Content.WF [((1 : Int), (1 : Rat)), (3, 1), (5, 1)] := by simp [Content.wf_cons]
  obtain ⟨a1, _, a3⟩ := minIndex_specLow 2 (by omega) _ wf
  obtain ⟨b1, _, b3⟩ := maxIndex_specHigh 2 (by omega) _ wf
  exact ⟨a3 1 5 rfl rfl, a1, b3 1 5 rfl rfl, b1⟩

/-- `exXs` into lowest-collapsing stores with ONE bin: both extremes are still α-accurate (there
    are negative, zero and positive inputs) -/
example : ∃ s,
    Sketch.addAll exEnv (Sketch.new (some exEnv.id) (.low 1)) (exXs.map (fun x => (x, 1))) = some s ∧
    (∃ a : Rat, s.getMin exEnv = .ok (.fin a) ∧
      rabs (a - (sortedInputs (4 / 3) exXs)[0]!) ≤ 1 / 2 * rabs ((sortedInputs (4 / 3) exXs)[0]!)) ∧
    (∃ b : Rat, s.getMax exEnv = .ok (.fin b) ∧
      rabs (b - (sortedInputs (4 / 3) exXs)[exXs.length - 1]!) ≤
        1 / 2 * rabs ((sortedInputs (4 / 3) exXs)[exXs.length - 1]!)) := by
  have h32 : ∀ x ∈ exXs, (4 / 3 : Rat) < rabs x → I32 (exEnv.index (.fin (rabs x))) :=
    fun x _ _ => Props.Lift.exEnv_index32 _
  obtain ⟨s, _, _, _, hs, _⟩ := Props.Lift.collapsing_sketch_contents (.low 1) (by decide) exEnv _ _ _
    exContract exXs exXs_ok h32
  have hne : exXs ≠ [] := by simp [exXs]
  have hn : exXs.length ≤ 2 ^ 53 := by simp [exXs]
  exact ⟨s, hs,
    low_min_accuracy 1 (by omega) exEnv _ _ _ exContract exXs exXs_ok h32 hne hn s hs
      ⟨0, by simp [exXs], by norm_num⟩,
    low_max_accuracy 1 (by omega) exEnv _ _ _ exContract exXs exXs_ok h32 hne hn s hs
      ⟨0, by simp [exXs], by norm_num⟩⟩

/-- positive inputs only, `[3, 5, 12]`, into a lowest-collapsing store with ONE bin: bin 0 (of the
    value 3) is folded into bin 1, the reported minimum is `value 1 = 6` — the clamped extreme —
    which is NOT within `α = 1/2` of the true minimum 3 -/
example : ∃ s, Sketch.addAll exEnv (Sketch.new (some exEnv.id) (.low 1))
      (([3, 5, 12] : List Rat).map (fun x => (x, 1))) = some s ∧
    s.getMin exEnv = .ok (.fin 6) ∧ ¬ (rabs (6 - 3) ≤ 1 / 2 * rabs (3 : Rat)) := by
  have hok : ∀ x ∈ ([3, 5, 12] : List Rat), rabs x ≤ 12 := by
    intro x hx
    simp only [List.mem_cons, List.not_mem_nil, or_false] at hx
    rcases hx with rfl | rfl | rfl <;> (unfold rabs; norm_num)
  have h32 : ∀ x ∈ ([3, 5, 12] : List Rat), (4 / 3 : Rat) < rabs x →
      I32 (exEnv.index (.fin (rabs x))) := fun x _ _ => Props.Lift.exEnv_index32 _
  obtain ⟨s, _, _, _, hs, _⟩ := Props.Lift.collapsing_sketch_contents (.low 1) (by decide) exEnv _ _ _
    exContract _ hok h32
  refine ⟨s, hs, ?_, by unfold rabs; norm_num⟩
  obtain ⟨s₀, cp, cn, h2, h3, _, _, hmin, _⟩ :=
    low_extremes 1 (by omega) exEnv _ _ _ exContract _ hok h32 s hs
  obtain ⟨e1, e2, e3⟩ := spec_contents 1 (by omega) exEnv _ _ _ exContract _ hok h32 (by simp)
    s₀ cp cn s.zero h2 h3
  have eP : unitsOf ((Psorted (4 / 3) ([3, 5, 12] : List Rat)).map (idxOf exEnv)) =
      unitsOf ((posPart (4 / 3) ([3, 5, 12] : List Rat)).map (idxOf exEnv)) :=
    unitsOf_perm ((sortAsc_perm _).map _)
  have eM : unitsOf ((Msorted (4 / 3) ([3, 5, 12] : List Rat)).map (idxOf exEnv)) =
      unitsOf (((negPart (4 / 3) ([3, 5, 12] : List Rat)).map (fun x => -x)).map (idxOf exEnv)) :=
    unitsOf_perm ((sortAsc_perm _).map _)
  rw [hmin, e1, e2, e3, eP, eM, if_neg (by decide +kernel)]
  decide +kernel

end DDS.Props.C12x
