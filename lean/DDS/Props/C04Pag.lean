/-
  DDS.Props.C04Pag — property C04 for the buffered paginated store:
  "non-collapsing stores behave as exact index→count maps".

  `PStore.content s` (the merged iteration `binsList`) is canonical (`content_wf`) and holds
  pointwise the weights `wt` (`lookup_content`).  After ANY history of operations
  (adds with arbitrary compaction bits, clears, reweightings, buffer-sorting reads, same-kind and
  fallback merges) started from `PStore.new`, with int32 indexes and non-negative weights, the
  model never panics, keeps `PStore.Inv`, and every observer (`totalCount`, `isEmpty`, `minIndex?`,
  `maxIndex?`, `binsList`, `keyAtRank`) equals the observer of the spec `Content` accumulated by
  the same operations.
-/
import DDS.Proofs.Paginated

namespace DDS.Props.C04Pag

open DDS DDS.PStore

/-! ### the abstraction is canonical and pointwise exact -/

theorem content_wf (s : PStore) (h : Inv s) : (content s).WF := PStore.content_wf s h

theorem lookup_content (s : PStore) (h : Inv s) (j : Int) : (content s).lookup j = wt s j :=
  PStore.lookup_content s h j

/-- all observers of a store satisfying the invariant are those of its abstract content -/
theorem observers_eq (s : PStore) (h : Inv s) :
    s.binsList = content s ∧ s.totalCount = (content s).total ∧
    s.isEmpty = (content s).isEmpty ∧ s.minIndex? = (content s).minIndex? ∧
    s.maxIndex? = (content s).maxIndex? ∧ ∀ r, s.keyAtRank r = (content s).keyAtRank r :=
  ⟨rfl, totalCount_eq s h, isEmpty_eq s h, minIndex?_eq s h, maxIndex?_eq s h, keyAtRank_spec s h⟩

/-- the content is determined by the pointwise weights -/
theorem content_unique (s : PStore) (h : Inv s) (c : Content) (hc : c.WF)
    (hl : ∀ j, wt s j = c.lookup j) : content s = c := content_eq_of_lookup s h c hc hl

/-! ### single operations at content level -/

theorem add_content (s : PStore) (h : Inv s) (i : Int) (hi : Idx32 i) (w : Rat) (hw : 0 ≤ w)
    (b : Bool) :
    ∃ s', s.addWithCount i w b = some s' ∧ Inv s' ∧ content s' = (content s).add i w := by
  obtain ⟨s', h1, h2, h3⟩ := addWithCount_ok s h i hi w hw b
  refine ⟨s', h1, h2, ?_⟩
  apply content_eq_of_lookup s' h2 _ (Content.wf_add _ i w (PStore.content_wf s h) hw)
  intro j; rw [h3, Content.lookup_add, PStore.lookup_content s h]

theorem addUnit_content (s : PStore) (h : Inv s) (i : Int) (hi : Idx32 i) (b : Bool) :
    ∃ s', s.addUnit i b = some s' ∧ Inv s' ∧ content s' = (content s).add i 1 := by
  obtain ⟨s', h1, h2, h3⟩ := addUnit_ok s h i hi b
  refine ⟨s', h1, h2, ?_⟩
  apply content_eq_of_lookup s' h2 _ (Content.wf_add _ i 1 (PStore.content_wf s h) (by decide))
  intro j; rw [h3, Content.lookup_add, PStore.lookup_content s h]

/-- compaction (whenever the allocator triggers it) is invisible -/
theorem compact_content (s : PStore) (h : Inv s) :
    ∃ s', s.compact = some s' ∧ Inv s' ∧ content s' = content s := by
  obtain ⟨s', h1, h2, h3⟩ := compact_ok s h
  refine ⟨s', h1, h2, ?_⟩
  apply content_eq_of_lookup s' h2 _ (PStore.content_wf s h)
  intro j; rw [h3, PStore.lookup_content s h]

theorem clear_content (s : PStore) (h : Inv s) : Inv s.clear ∧ content s.clear = [] := by
  obtain ⟨h1, h2⟩ := clear_spec s h
  exact ⟨h1, (content_eq_nil_iff _ h1).2 h2⟩

theorem reweight_content (s : PStore) (h : Inv s) (w : Rat) (hw : 0 < w) :
    ∃ s', s.reweight w = some s' ∧ Inv s' ∧ content s' = (content s).scale w := by
  obtain ⟨s', h1, h2, h3⟩ := reweight_ok s h w hw
  refine ⟨s', h1, h2, ?_⟩
  apply content_eq_of_lookup s' h2 _ (Content.wf_scale _ w (PStore.content_wf s h) hw)
  intro j; rw [h3, Content.lookup_scale, PStore.lookup_content s h]

theorem mergeSame_content (s o : PStore) (hs : Inv s) (ho : Inv o) :
    ∃ s', s.mergeSame o = some s' ∧ Inv s' ∧ content s' = (content s).merge (content o) := by
  obtain ⟨s', h1, h2, h3⟩ := mergeSame_ok s o hs ho
  refine ⟨s', h1, h2, ?_⟩
  apply content_eq_of_lookup s' h2 _
    (Content.wf_merge _ _ (PStore.content_wf s hs) (PStore.content_wf o ho))
  intro j; rw [h3, Content.lookup_merge, PStore.lookup_content s hs, PStore.lookup_content o ho]

theorem mergeBins_content (s : PStore) (h : Inv s) (l : List (Int × Rat))
    (hl : ∀ p ∈ l, Idx32 p.1 ∧ 0 ≤ p.2) :
    ∃ s', s.mergeBins l = some s' ∧ Inv s' ∧ content s' = (content s).merge l := by
  obtain ⟨s', h1, h2, h3⟩ := mergeBins_ok s h l hl
  refine ⟨s', h1, h2, ?_⟩
  apply content_eq_of_lookup s' h2 _
    (Content.wf_merge_of_nonneg _ _ (PStore.content_wf s h) (fun p hp => (hl p hp).2))
  intro j; rw [h3, Content.lookup_merge, PStore.lookup_content s h]

/-! ### histories (`PStore.Op`: add with compaction bit / clear / reweight / sorting read) -/

/-- every admissible history succeeds, keeps the invariant, and the store's content is the spec
    content accumulated by the same operations -/
theorem history_content (ops : List Op) (hops : ∀ op ∈ ops, op.ok) :
    ∃ s, run PStore.new ops = some s ∧ Inv s ∧ content s = specRun [] ops := by
  obtain ⟨s, h1, h2, h3⟩ := run_ok ops hops
  exact ⟨s, h1, h2, content_eq_of_lookup s h2 _ (specRun_wf ops hops [] Content.wf_nil) h3⟩

/-- C04 for the paginated store: after any history all observers are those of the exact map -/
theorem history_observers (ops : List Op) (hops : ∀ op ∈ ops, op.ok) :
    ∃ s, run PStore.new ops = some s ∧ Inv s ∧
      s.binsList = specRun [] ops ∧
      s.totalCount = (specRun [] ops).total ∧
      s.isEmpty = (specRun [] ops).isEmpty ∧
      s.minIndex? = (specRun [] ops).minIndex? ∧
      s.maxIndex? = (specRun [] ops).maxIndex? ∧
      ∀ r, s.keyAtRank r = (specRun [] ops).keyAtRank r := by
  obtain ⟨s, h1, h2, h3⟩ := history_content ops hops
  obtain ⟨o1, o2, o3, o4, o5, o6⟩ := observers_eq s h2
  rw [h3] at o1 o2 o3 o4 o5 o6
  exact ⟨s, h1, h2, o1, o2, o3, o4, o5, o6⟩

/-- add-only histories: the content is `Content.ofList` of the added bins, whatever the
    compaction schedule -/
theorem adds_content (adds : List (Int × Rat × Bool)) (h : ∀ a ∈ adds, Idx32 a.1 ∧ 0 ≤ a.2.1) :
    ∃ s, run PStore.new (adds.map fun a => Op.add a.1 a.2.1 a.2.2) = some s ∧ Inv s ∧
      content s = Content.ofList (adds.map fun a => (a.1, a.2.1)) := by
  obtain ⟨s, h1, h2, h3⟩ := history_content (adds.map fun a => Op.add a.1 a.2.1 a.2.2) (by
    intro op hop
    obtain ⟨a, ha, rfl⟩ := List.mem_map.1 hop
    exact h a ha)
  refine ⟨s, h1, h2, ?_⟩
  rw [h3]
  unfold specRun Content.ofList
  rw [List.foldl_map, List.foldl_map]
  rfl

/-- the result does not depend on the allocator: two runs of the same operations with different
    compaction bits end in stores with the same content (hence the same observers) -/
theorem compaction_schedule_irrelevant (adds : List (Int × Rat)) (bits₁ bits₂ : List Bool)
    (hlen₁ : bits₁.length = adds.length) (hlen₂ : bits₂.length = adds.length)
    (h : ∀ a ∈ adds, Idx32 a.1 ∧ 0 ≤ a.2) :
    ∃ s₁ s₂,
      run PStore.new ((adds.zip bits₁).map fun a => Op.add a.1.1 a.1.2 a.2) = some s₁ ∧
      run PStore.new ((adds.zip bits₂).map fun a => Op.add a.1.1 a.1.2 a.2) = some s₂ ∧
      content s₁ = content s₂ := by
  have key : ∀ bits : List Bool, bits.length = adds.length →
      ∃ s, run PStore.new ((adds.zip bits).map fun a => Op.add a.1.1 a.1.2 a.2) = some s ∧
        content s = Content.ofList adds := by
    intro bits hlen
    obtain ⟨s, h1, _, h3⟩ := history_content ((adds.zip bits).map fun a => Op.add a.1.1 a.1.2 a.2) (by
      intro op hop
      obtain ⟨a, ha, rfl⟩ := List.mem_map.1 hop
      exact h a.1 (List.of_mem_zip ha).1)
    refine ⟨s, h1, ?_⟩
    rw [h3]
    unfold specRun Content.ofList
    rw [List.foldl_map]
    have : adds = (adds.zip bits).map Prod.fst := by
      rw [List.map_fst_zip]; omega
    conv => rhs; rw [this, List.foldl_map]
    rfl
  obtain ⟨s₁, h1, c1⟩ := key bits₁ hlen₁
  obtain ⟨s₂, h2, c2⟩ := key bits₂ hlen₂
  exact ⟨s₁, s₂, h1, h2, c1.trans c2.symm⟩

/-! ### histories with merges -/

/-- operations including merges: the argument of a same-kind merge is itself the result of a
    history; a fallback merge receives the bins of any other store -/
inductive HOp where
  | base (op : Op)
  | mergeSame (other : List Op)
  | mergeBins (l : List (Int × Rat))

def HOp.ok : HOp → Prop
  | .base op => op.ok
  | .mergeSame other => ∀ op ∈ other, op.ok
  | .mergeBins l => ∀ p ∈ l, Idx32 p.1 ∧ 0 ≤ p.2

def hstep (s : PStore) : HOp → Option PStore
  | .base op => step s op
  | .mergeSame other => do
    let o ← run PStore.new other
    s.mergeSame o
  | .mergeBins l => s.mergeBins l

def hrun (s : PStore) (ops : List HOp) : Option PStore := ops.foldlM hstep s

def specHStep (c : Content) : HOp → Content
  | .base op => specStep c op
  | .mergeSame other => c.merge (specRun [] other)
  | .mergeBins l => c.merge l

def specHRun (c : Content) (ops : List HOp) : Content := ops.foldl specHStep c

theorem hstep_ok (s : PStore) (h : Inv s) (op : HOp) (hop : op.ok) :
    ∃ s', hstep s op = some s' ∧ Inv s' ∧ content s' = specHStep (content s) op := by
  cases op with
  | base op =>
    obtain ⟨s', h1, h2, h3⟩ := step_ok s h (content s) (fun j => (PStore.lookup_content s h j).symm)
      op hop
    refine ⟨s', h1, h2, content_eq_of_lookup s' h2 _ ?_ h3⟩
    exact specRun_wf [op] (by intro o ho; simp at ho; subst ho; exact hop) _ (PStore.content_wf s h)
  | mergeSame other =>
    obtain ⟨o, ho1, ho2, ho3⟩ := history_content other hop
    obtain ⟨s', h1, h2, h3⟩ := mergeSame_content s o h ho2
    refine ⟨s', ?_, h2, ?_⟩
    · simp only [hstep, ho1, Option.bind_eq_bind, Option.bind_some]; exact h1
    · rw [h3, ho3]; rfl
  | mergeBins l =>
    obtain ⟨s', h1, h2, h3⟩ := mergeBins_content s h l hop
    exact ⟨s', h1, h2, h3⟩

theorem hrun_ok_from (ops : List HOp) (hops : ∀ op ∈ ops, op.ok) (s : PStore) (h : Inv s) :
    ∃ s', hrun s ops = some s' ∧ Inv s' ∧ content s' = specHRun (content s) ops := by
  induction ops generalizing s with
  | nil => exact ⟨s, rfl, h, rfl⟩
  | cons op ops ih =>
    obtain ⟨s₁, h1, hI₁, hc₁⟩ := hstep_ok s h op (hops op (List.mem_cons_self ..))
    obtain ⟨s', h2, hI, hc'⟩ := ih (fun o ho => hops o (List.mem_cons_of_mem _ ho)) s₁ hI₁
    refine ⟨s', ?_, hI, ?_⟩
    · unfold hrun
      simp only [List.foldlM_cons, h1]
      exact h2
    · rw [hc', hc₁]; rfl

/-- C04 with merges: every history over adds (any compaction bits), clears, reweightings,
    sorting reads, same-kind merges and fallback merges succeeds from `PStore.new`, and all
    observers equal those of the spec content accumulated by the same operations -/
theorem hhistory_observers (ops : List HOp) (hops : ∀ op ∈ ops, op.ok) :
    ∃ s, hrun PStore.new ops = some s ∧ Inv s ∧
      s.binsList = specHRun [] ops ∧
      s.totalCount = (specHRun [] ops).total ∧
      s.isEmpty = (specHRun [] ops).isEmpty ∧
      s.minIndex? = (specHRun [] ops).minIndex? ∧
      s.maxIndex? = (specHRun [] ops).maxIndex? ∧
      ∀ r, s.keyAtRank r = (specHRun [] ops).keyAtRank r := by
  obtain ⟨s, h1, h2, h3⟩ := hrun_ok_from ops hops PStore.new inv_new
  have hnew : content PStore.new = [] := (content_eq_nil_iff _ inv_new).2 wt_new
  rw [hnew] at h3
  obtain ⟨o1, o2, o3, o4, o5, o6⟩ := observers_eq s h2
  rw [h3] at o1 o2 o3 o4 o5 o6
  exact ⟨s, h1, h2, o1, o2, o3, o4, o5, o6⟩

/-- a cleared store behaves like a new one: same (empty) content, and by `hrun_ok_from` every
    later history yields the content a fresh store would hold -/
theorem clear_like_new (s : PStore) (h : Inv s) (ops : List HOp) (hops : ∀ op ∈ ops, op.ok) :
    ∃ s₁ s₂, hrun s.clear ops = some s₁ ∧ hrun PStore.new ops = some s₂ ∧
      content s₁ = content s₂ := by
  obtain ⟨hI, hc⟩ := clear_content s h
  obtain ⟨s₁, h1, _, c1⟩ := hrun_ok_from ops hops s.clear hI
  obtain ⟨s₂, h2, _, c2⟩ := hrun_ok_from ops hops PStore.new inv_new
  have hnew : content PStore.new = [] := (content_eq_nil_iff _ inv_new).2 wt_new
  rw [hc] at c1; rw [hnew] at c2
  exact ⟨s₁, s₂, h1, h2, c1.trans c2.symm⟩

end DDS.Props.C04Pag
