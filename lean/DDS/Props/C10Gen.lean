/-
  DDS.Props.C10Gen — the C10 theorems ("summary statistics are exact whenever the float operations
  are") restated for the REGENERATED code `DDS.Gen.Stat.*` (`DDS/Generated/CodeStat.lean`, translated
  from `ddsketch/stat/summary.go` on every run) and proved by rewriting with the equivalences of
  `DDS.Proofs.GenStat` into the model theorems of `DDS.Props.C10`.

  Vocabulary: `genAddAll s l` / `genAddAllF s l` fold the generated `SummaryStatistics.Add` over a
  list of (value, weight) pairs; `genExactOf l` is THE exact summary of `l` as a generated struct.
  Every theorem `gen_X` is theorem `C10.X` with the generated function in place of the model one.
-/
import DDS.Proofs.GenStat
import DDS.Props.C10

namespace DDS.Props.C10Gen

open DDS DDS.Summary DDS.F64 DDS.GoSem DDS.Gen.Stat DDS.GenStat

/-- the exact summary of `l` as a generated struct -/
def genExactOf (l : List (Rat × Rat)) : SummaryStatistics := ofModel (exactOf l)

example (l : List (Rat × Rat)) : genExactOf l =
    { count := .fin (cnt l), sum := .fin (tot l), sumCompensation := .fin 0,
      simpleSum := .fin (tot l), min := minOf l, max := maxOf l } := rfl

theorem toModel_genExactOf (l : List (Rat × Rat)) : toModel (genExactOf l) = exactOf l := rfl

theorem genExactOf_nil : genExactOf [] = NewSummaryStatistics := by
  apply toModel_injective
  rw [new_eq]; rfl

/-- the generated folds are the model folds -/
theorem toModel_genAddAll (s : SummaryStatistics) (l : List (Rat × Rat)) :
    toModel (genAddAll s l) = addAll (toModel s) l := genAddAll_eq s l

theorem toModel_genAddAllF (s : SummaryStatistics) (l : List (F64 × F64)) :
    toModel (genAddAllF s l) = addAllF (toModel s) l := genAddAllF_eq s l

theorem toModel_genAddAll_new (l : List (Rat × Rat)) :
    toModel (genAddAll NewSummaryStatistics l) = addAll Summary.new l := by
  rw [toModel_genAddAll, new_eq]

/-! ### one addition -/

theorem gen_add_exact_state (c sm v w : Rat) (mn mx : F64) (h1 : isRep (c + w) = true)
    (h2 : isRep (v * w) = true) (h3 : isRep (sm + v * w) = true) :
    SummaryStatistics.Add ⟨.fin c, .fin sm, .fin 0, .fin sm, mn, mx⟩ (.fin v) (.fin w) =
      ⟨.fin (c + w), .fin (sm + v * w), .fin 0, .fin (sm + v * w),
        if F64.lt (.fin v) mn then .fin v else mn, if F64.lt mx (.fin v) then .fin v else mx⟩ := by
  apply toModel_injective
  rw [add_eq]
  exact C10.add_exact_state c sm v w mn mx h1 h2 h3

/-! ### a history of additions -/

/-- after absorbing `l` with the generated `Add`, starting from the generated
    `NewSummaryStatistics`, the state is the exact one -/
theorem gen_fold_exact_eq (l : List (Rat × Rat)) (h : RepOK l) :
    genAddAll NewSummaryStatistics l = genExactOf l := by
  apply toModel_injective
  rw [toModel_genAddAll_new, C10.fold_exact_eq l h]; rfl

/-- … field by field, through the generated getters `Count / Sum / Min / Max` -/
theorem gen_fold_exact (l : List (Rat × Rat)) (h : RepOK l) :
    SummaryStatistics.Count (genAddAll NewSummaryStatistics l) = .fin (cnt l) ∧
    SummaryStatistics.Sum (genAddAll NewSummaryStatistics l) = .fin (tot l) ∧
    (genAddAll NewSummaryStatistics l).sumCompensation = .fin 0 ∧
    (genAddAll NewSummaryStatistics l).sum = .fin (tot l) ∧
    (genAddAll NewSummaryStatistics l).simpleSum = .fin (tot l) ∧
    SummaryStatistics.Min (genAddAll NewSummaryStatistics l) = minOf l ∧
    SummaryStatistics.Max (genAddAll NewSummaryStatistics l) = maxOf l := by
  have hm := C10.fold_exact l h
  rw [← toModel_genAddAll_new] at hm
  rw [count_eq, sum_eq, min_eq, max_eq]
  exact hm

/-- the reported minimum of a non-empty exact history is its least value -/
theorem gen_min_is_least (l : List (Rat × Rat)) (h : RepOK l) (hl : l ≠ []) :
    ∃ m, SummaryStatistics.Min (genAddAll NewSummaryStatistics l) = .fin m ∧
      (∃ p ∈ l, p.1 = m) ∧ ∀ p ∈ l, m ≤ p.1 := by
  rw [(gen_fold_exact l h).2.2.2.2.2.1]
  exact C10.min_is_least l hl

theorem gen_max_is_greatest (l : List (Rat × Rat)) (h : RepOK l) (hl : l ≠ []) :
    ∃ m, SummaryStatistics.Max (genAddAll NewSummaryStatistics l) = .fin m ∧
      (∃ p ∈ l, p.1 = m) ∧ ∀ p ∈ l, p.1 ≤ m := by
  rw [(gen_fold_exact l h).2.2.2.2.2.2]
  exact C10.max_is_greatest l hl

/-- the same starting from any exact state -/
theorem gen_fold_exact_from (l : List (Rat × Rat)) (c sm : Rat) (mn mx : F64) (h : RepFrom c sm l) :
    genAddAll ⟨.fin c, .fin sm, .fin 0, .fin sm, mn, mx⟩ l =
      ⟨.fin (c + cnt l), .fin (sm + tot l), .fin 0, .fin (sm + tot l),
        l.foldl (fun m p => minStep (.fin p.1) m) mn, l.foldl (fun m p => maxStep (.fin p.1) m) mx⟩ := by
  apply toModel_injective
  rw [toModel_genAddAll]
  exact C10.fold_exact_from l c sm mn mx h

/-- the running example of C10 (values 3, −1, 5/2 with weights 2, 1, 4), on the generated code -/
example : SummaryStatistics.Count (genAddAll NewSummaryStatistics C10.exL) = .fin 7 ∧
    SummaryStatistics.Sum (genAddAll NewSummaryStatistics C10.exL) = .fin 15 := by
  obtain ⟨h1, h2, _⟩ := gen_fold_exact C10.exL C10.exL_ok
  exact ⟨by rw [h1]; decide +kernel, by rw [h2]; decide +kernel⟩

/-! ### emptiness -/

theorem gen_empty_iff (l : List (Rat × Rat)) (h : RepOK l) (hw : ∀ p ∈ l, 0 ≤ p.2) :
    (SummaryStatistics.Count (genAddAll NewSummaryStatistics l) = .fin 0 ↔ ∀ p ∈ l, p.2 = 0) ∧
    (F64.eq (SummaryStatistics.Count (genAddAll NewSummaryStatistics l)) (.fin 0) = true ↔
      ∀ p ∈ l, p.2 = 0) := by
  rw [count_eq, toModel_genAddAll_new]
  exact C10.empty_iff l h hw

theorem gen_empty_iff_pos (l : List (Rat × Rat)) (h : RepOK l) (hw : ∀ p ∈ l, 0 < p.2) :
    F64.eq (SummaryStatistics.Count (genAddAll NewSummaryStatistics l)) (.fin 0) = true ↔ l = [] := by
  rw [count_eq, toModel_genAddAll_new]
  exact C10.empty_iff_pos l h hw

/-! ### merging, reweighting, rescaling, clearing -/

theorem gen_mergeWith_exact (l₁ l₂ : List (Rat × Rat)) (hc : isRep (cnt l₁ + cnt l₂) = true)
    (hs2 : isRep (tot l₂) = true) (hs : isRep (tot l₁ + tot l₂) = true) :
    SummaryStatistics.MergeWith (genExactOf l₁) (genExactOf l₂) = genExactOf (l₁ ++ l₂) := by
  apply toModel_injective
  rw [mergeWith_eq]
  exact C10.mergeWith_exact l₁ l₂ hc hs2 hs

/-- … for two histories absorbed by the generated `Add` -/
theorem gen_mergeWith_exact_folds (l₁ l₂ : List (Rat × Rat)) (h1 : RepOK l₁) (h2 : RepOK l₂)
    (hc : isRep (cnt l₁ + cnt l₂) = true) (hs : isRep (tot l₁ + tot l₂) = true) :
    SummaryStatistics.MergeWith (genAddAll NewSummaryStatistics l₁) (genAddAll NewSummaryStatistics l₂)
      = genExactOf (l₁ ++ l₂) := by
  rw [gen_fold_exact_eq l₁ h1, gen_fold_exact_eq l₂ h2]
  have hs2 : isRep (tot l₂) = true := by
    have := repFrom_isRep_sum l₂ 0 0 h2 isRep_zero
    rwa [zero_add] at this
  exact gen_mergeWith_exact l₁ l₂ hc hs2 hs

theorem gen_mergeWith_exact_state (c1 s1 c2 s2 : Rat) (mn1 mx1 mn2 mx2 : F64)
    (hc : isRep (c1 + c2) = true) (hs2 : isRep s2 = true) (hs : isRep (s1 + s2) = true) :
    SummaryStatistics.MergeWith ⟨.fin c1, .fin s1, .fin 0, .fin s1, mn1, mx1⟩
        ⟨.fin c2, .fin s2, .fin 0, .fin s2, mn2, mx2⟩ =
      ⟨.fin (c1 + c2), .fin (s1 + s2), .fin 0, .fin (s1 + s2),
        if F64.lt mn2 mn1 then mn2 else mn1, if F64.lt mx1 mx2 then mx2 else mx1⟩ := by
  apply toModel_injective
  rw [mergeWith_eq]
  exact C10.mergeWith_exact_state c1 s1 c2 s2 mn1 mx1 mn2 mx2 hc hs2 hs

theorem gen_reweight_exact (l : List (Rat × Rat)) (w : Rat) (hw : w ≠ 0)
    (hc : isRep (cnt l * w) = true) (hs : isRep (tot l * w) = true) :
    SummaryStatistics.Reweight (genExactOf l) (.fin w) = genExactOf (scaleWts w l) := by
  apply toModel_injective
  rw [reweight_eq]
  exact C10.reweight_exact l w hw hc hs

theorem gen_reweight_zero (l : List (Rat × Rat)) :
    SummaryStatistics.Reweight (genExactOf l) (.fin 0) = NewSummaryStatistics := by
  apply toModel_injective
  rw [reweight_eq, new_eq]
  exact C10.reweight_zero l

theorem gen_rescale_exact_state (c : F64) (sm f : Rat) (mn mx : F64) (hs : isRep (sm * f) = true) :
    SummaryStatistics.Rescale ⟨c, .fin sm, .fin 0, .fin sm, mn, mx⟩ (.fin f) =
      if 0 < f then
        ⟨c, .fin (sm * f), .fin 0, .fin (sm * f), F64.mul mn (.fin f), F64.mul mx (.fin f)⟩
      else if f < 0 then
        ⟨c, .fin (sm * f), .fin 0, .fin (sm * f), F64.mul mx (.fin f), F64.mul mn (.fin f)⟩
      else if F64.ne c (.fin 0) = true then
        ⟨c, .fin 0, .fin 0, .fin 0, .fin 0, .fin 0⟩
      else ⟨c, .fin 0, .fin 0, .fin 0, mn, mx⟩ := by
  apply toModel_injective
  rw [rescale_eq]
  have := C10.rescale_exact_state c sm f mn mx hs
  simp only [toModel_ite]
  exact this

theorem gen_rescale_exact (l : List (Rat × Rat)) (f : Rat) (hs : isRep (tot l * f) = true)
    (hmn : ∀ a, minOf l = .fin a → isRep (a * f) = true)
    (hmx : ∀ b, maxOf l = .fin b → isRep (b * f) = true)
    (hw : ∀ p ∈ l, 0 < p.2) :
    SummaryStatistics.Rescale (genExactOf l) (.fin f) = genExactOf (scaleVals f l) := by
  apply toModel_injective
  rw [rescale_eq]
  exact C10.rescale_exact l f hs hmn hmx hw

theorem gen_clear_is_new (s : SummaryStatistics) :
    SummaryStatistics.Clear s = NewSummaryStatistics ∧ NewSummaryStatistics = genExactOf [] := by
  refine ⟨?_, genExactOf_nil.symm⟩
  apply toModel_injective
  rw [clear_eq, new_eq]; rfl

example : SummaryStatistics.MergeWith (genExactOf C10.exL) (genExactOf [(7, 1)]) =
    genExactOf (C10.exL ++ [(7, 1)]) :=
  gen_mergeWith_exact _ _ (by decide +kernel) (by decide +kernel) (by decide +kernel)

/-! ### min and max never round -/

theorem gen_minmax_no_rounding (s : SummaryStatistics) (v w : F64) :
    SummaryStatistics.Min (SummaryStatistics.Add s v w) = (if F64.lt v s.min then v else s.min) ∧
    SummaryStatistics.Max (SummaryStatistics.Add s v w) = (if F64.lt s.max v then v else s.max) := by
  rw [min_eq, max_eq, add_eq]
  exact C10.minmax_no_rounding (toModel s) v w

theorem gen_extremes_are_absorbed_values (l : List (F64 × F64)) :
    let s := genAddAllF NewSummaryStatistics l
    (SummaryStatistics.Min s = .pinf ∨ ∃ p ∈ l, SummaryStatistics.Min s = p.1) ∧
    (SummaryStatistics.Max s = .ninf ∨ ∃ p ∈ l, SummaryStatistics.Max s = p.1) := by
  intro s
  have h := C10.extremes_are_absorbed_values l
  have e : toModel s = l.foldl (fun s p => s.add p.1 p.2) Summary.new := by
    show toModel (genAddAllF NewSummaryStatistics l) = _
    rw [genAddAllF_eq, new_eq]
  rw [min_eq, max_eq, e]
  exact h

theorem gen_merge_minmax_no_rounding (s o : SummaryStatistics) :
    SummaryStatistics.Min (SummaryStatistics.MergeWith s o) =
      (if F64.lt o.min s.min then o.min else s.min) ∧
    SummaryStatistics.Max (SummaryStatistics.MergeWith s o) =
      (if F64.lt s.max o.max then o.max else s.max) := by
  rw [min_eq, max_eq, mergeWith_eq]
  exact C10.merge_minmax_no_rounding (toModel s) (toModel o)

theorem gen_exact_stats_ordered (l : List (Rat × Rat)) (hl : l ≠ []) :
    F64.lt (SummaryStatistics.Max (genExactOf l)) (SummaryStatistics.Min (genExactOf l)) = false :=
  C10.exact_stats_ordered l hl

end DDS.Props.C10Gen
