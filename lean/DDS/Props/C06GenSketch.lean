/-
  DDS.Props.C06GenSketch — the sketch-level statements of C06 (round trip of the binary encoding,
  "encoding only appends", "encoding is observably pure") restated on the REGENERATED encoders
  `DDS.Gen.Sketch.DDSketch.Encode` / `DDSketchWithExactSummaryStatistics.Encode`
  (`DDS/Generated/CodeSketch.lean`, translated from `/repo/ddsketch/ddsketch.go` on every run).

  `DDS.GenSketch.Encode_rel` / `XEncode_rel` (`DDS/Proofs/GenSketch4.lean`) say that the regenerated
  encoders, instantiated with the model's mapping object and stores, append exactly the bytes of
  the blocks of the hand-written `Sketch.encode` / `XSketch.encode`; `DDS.Props.C06.decode_encode`,
  `xsketch_decode_encode`, `encode_observably_pure` say what those blocks decode to.  Combined: the
  BYTES THE REGENERATED ENCODER APPENDED to any prefix `b` decode (model decoder, fresh spec
  sketch) to the sketch that was encoded.

  Same hypotheses as the model theorems, plus: `env.id = m` (the mapping object of the generated
  structure is the sketch's mapping) and `9 ≤ fuel` (the varfloat64 loop of the zero count / count).
-/
import DDS.Proofs.GenSketch4
import DDS.Props.C06

namespace DDS.Props.C06GenSketch

open DDS DDS.GoSem DDS.Gen.Sketch DDS.GenEncoding DDS.GenSketch DDS.RoundTrip

/-- well-formed blocks encode to bytes -/
theorem encBlocks_bytes (bl : List Block) (h : ∀ b ∈ bl, b.WF) : ∀ x ∈ Wire.encBlocks bl, x < 256 := by
  intro x hx
  unfold Wire.encBlocks at hx
  rw [List.mem_flatMap] at hx
  obtain ⟨b, hb, hx⟩ := hx
  exact Wire.encBlock_bytes b (h b hb) x hx

theorem nb_bn_encBlocks (bl : List Block) (h : ∀ b ∈ bl, b.WF) :
    nb (bn (Wire.encBlocks bl)) = Wire.encBlocks bl :=
  nb_bn _ (encBlocks_bytes bl h)

/-- **C06 round trip on the regenerated encoder.**  Producer of any store kinds: the bytes
    `DDSketch.Encode` appends to the caller's buffer decode, into a fresh spec sketch, to the
    producer's mapping, zero bucket and contents. -/
theorem Encode_decode (s : Sketch) (cp cn : Content) (hs : s.Refines cp cn)
    (hp : EncOK s.pos) (hn : EncOK s.neg)
    (env : MapEnv) (hm : s.mapping = some env.id) (hmk : MapOK env.id)
    (z : Rat) (hz : s.zero = .fin z) (hzw : WOK z) (omitMapping : Bool)
    (fuel : Nat) (hf : 9 ≤ fuel) (b : List (BitVec 8)) :
    ∃ s' out, DDSketch.Encode fuel (toGen env s) b omitMapping = .ok (toGen env s', b ++ out) ∧
      Sketch.decodeAndMergeWith (Sketch.new (if omitMapping then some env.id else none) .sparse)
        (nb out) = some (.ok (Sketch.spec (some env.id) cp cn (.fin z))) := by
  obtain ⟨s', bl, he, hwf, hd⟩ :=
    C06.decode_encode s cp cn hs hp hn env.id hm hmk z hz hzw omitMapping
  refine ⟨s', bn (Wire.encBlocks bl),
    Encode_rel fuel hf env s b omitMapping (fun _ => hm) s' bl he, ?_⟩
  rw [nb_bn_encBlocks bl (fun x hx => (hwf x hx).1)]
  exact hd

/-- **C06 on the regenerated encoder: observably pure and appending.**  The call returns (no panic,
    no fuel exhaustion), the caller's bytes are kept in front, and the returned sketch observes like
    the same contents with the same mapping and zero bucket. -/
theorem Encode_observably_pure (s : Sketch) (cp cn : Content) (hs : s.Refines cp cn)
    (hp : EncOK s.pos) (hn : EncOK s.neg)
    (env : MapEnv) (hm : s.mapping = some env.id) (z : Rat) (hz : s.zero = .fin z)
    (omitMapping : Bool) (fuel : Nat) (hf : 9 ≤ fuel) (b : List (BitVec 8)) :
    ∃ s' out, DDSketch.Encode fuel (toGen env s) b omitMapping = .ok (toGen env s', b ++ out) ∧
      s'.Refines cp cn ∧ s'.mapping = s.mapping ∧ s'.zero = s.zero := by
  obtain ⟨s', bl, he, hr, h1, h2⟩ :=
    C06.encode_observably_pure s cp cn hs hp hn env.id hm z hz omitMapping
  exact ⟨s', _, Encode_rel fuel hf env s b omitMapping (fun _ => hm) s' bl he, hr, h1, h2⟩

/-- **C06 round trip of the exact-summary variant on the regenerated encoder**: the appended bytes
    decode into a fresh exact-summary sketch to the same sketch with count, sum, min and max
    restored. -/
theorem XEncode_decode (x : XSketch) (cp cn : Content) (hs : x.sk.Refines cp cn)
    (hp : EncOK x.sk.pos) (hn : EncOK x.sk.neg)
    (env : MapEnv) (hm : x.sk.mapping = some env.id) (hmk : MapOK env.id)
    (z : Rat) (hz : x.sk.zero = .fin z) (hzw : WOK z)
    (c S mn mx : Rat) (hst : StatsOK x.st c S mn mx) (omitMapping : Bool)
    (fuel : Nat) (hf : 9 ≤ fuel) (b : List (BitVec 8)) :
    ∃ x' out, DDSketchWithExactSummaryStatistics.Encode fuel (toGenX env x) b omitMapping
        = .ok (toGenX env x', b ++ out) ∧
      XSketch.decodeAndMergeWith (XSketch.new (if omitMapping then some env.id else none) .sparse)
        (nb out) =
        some (.ok { sk := Sketch.spec (some env.id) cp cn (.fin z), st := restored c S mn mx }) := by
  obtain ⟨x', xbl, he, hd⟩ :=
    C06.xsketch_decode_encode x cp cn hs hp hn env.id hm hmk z hz hzw c S mn mx hst omitMapping
  obtain ⟨s', bl, hes, hwf, _⟩ :=
    C06.decode_encode x.sk cp cn hs hp hn env.id hm hmk z hz hzw omitMapping
  have hxbl : xbl = statBlocks x.st ++ bl := by
    rw [RoundTrip.xencode_eq, hes] at he
    simp only [Option.map_some, Option.some.injEq, Prod.mk.injEq] at he
    exact he.2.symm
  have hwfx : ∀ y ∈ xbl, y.WF := by
    intro y hy
    rw [hxbl, List.mem_append] at hy
    rcases hy with hy | hy
    · exact RoundTrip.statBlocks_wf x.st y hy
    · exact (hwf y hy).1
  refine ⟨x', bn (Wire.encBlocks xbl),
    XEncode_rel fuel hf env x b omitMapping (fun _ => hm) x' xbl he, ?_⟩
  rw [nb_bn_encBlocks xbl hwfx]
  exact hd

/-! ### concrete instances (the hypotheses are satisfiable) -/

section Examples
open DDS.Props.C06

/-- a mapping object whose identity is `C06.exM` (logarithmic, gamma 1.125) -/
def exEnv : MapEnv := { (default : MapEnv) with id := exM }

-- dense positive store, paginated negative store, zero bucket 3/4; any prefix, any fuel ≥ 9
example (om : Bool) (fuel : Nat) (hf : 9 ≤ fuel) (b : List (BitVec 8)) :
    ∃ s' out, DDSketch.Encode fuel (toGen exEnv exS) b om = .ok (toGen exEnv s', b ++ out) ∧
      Sketch.decodeAndMergeWith (Sketch.new (if om then some exM else none) .sparse) (nb out)
        = some (.ok (Sketch.spec (some exM) exCp exCn (.fin (3 / 4)))) :=
  Encode_decode exS exCp exCn exS_refines exS_pos exS_neg exEnv rfl exM_ok (3 / 4) rfl
    (by decide +kernel) om fuel hf b

example (fuel : Nat) (hf : 9 ≤ fuel) (b : List (BitVec 8)) :
    ∃ x' out, DDSketchWithExactSummaryStatistics.Encode fuel (toGenX exEnv exX) b false
        = .ok (toGenX exEnv x', b ++ out) ∧
      XSketch.decodeAndMergeWith (XSketch.new none .sparse) (nb out) =
        some (.ok { sk := Sketch.spec (some exM) exCp exCn (.fin (3 / 4)),
                    st := restored (43 / 4) 10 (-3) 9 }) :=
  XEncode_decode exX exCp exCn exS_refines exS_pos exS_neg exEnv rfl exM_ok (3 / 4) rfl
    (by decide +kernel) (43 / 4) 10 (-3) 9 exX_stats false fuel hf b

end Examples

end DDS.Props.C06GenSketch
