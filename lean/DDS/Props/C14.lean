/-
  DDS.Props.C14 — reads are pure.

  In the model every read (`getCount`, `isEmpty`, `quantile`, `getMin`, `getMax`, `getSum`,
  `forEachList`, …) is a function returning a value only: there is no state to modify.  The two
  exceptions are `encode`, which returns the sketch because the PAGINATED store sorts and compacts
  its buffer when it is enumerated, and the paginated observers, which sort the buffer.  This file
  shows that none of this is observable:
  * `encode` returns the same mapping, the same zero weight and — for sparse and dense stores —
    the very same stores; a paginated store is replaced by its `compact`;
  * sorting the buffer is a permutation, and EVERY observer of the paginated store
    (`abs`, `totalCount`, `isEmpty`, `binsList`, `keyAtRank`, `minIndex?`, `maxIndex?`) is invariant
    under permutations of the buffer.
-/
import DDS.Proofs.SpecSketch
import DDS.Proofs.PagCompact

namespace DDS.Props.C14
open DDS

/-! ## `encode` -/

/-- what `encodeStore` does to the store: nothing, or `compact` for a paginated store -/
theorem encodeStore_store (st st' : Store) (side : Side) (b : List Block)
    (h : Sketch.encodeStore st side = some (st', b)) :
    st' = st ∨ ∃ p t, st = .pg p ∧ p.compact = some t ∧ st' = .pg t := by
  cases st with
  | d s =>
    left
    simp only [Sketch.encodeStore, Option.map_eq_some_iff] at h
    obtain ⟨_, _, h⟩ := h
    exact (Prod.mk.inj h).1.symm
  | sp c =>
    left
    simp only [Sketch.encodeStore] at h
    split at h <;> simp only [Option.some.injEq] at h <;> exact (Prod.mk.inj h).1.symm
  | pg p =>
    right
    simp only [Sketch.encodeStore, Option.bind_eq_bind, Option.bind_eq_some_iff] at h
    obtain ⟨t, ht, h⟩ := h
    simp only [Option.pure_def, Option.some.injEq] at h
    exact ⟨p, t, rfl, ht, (Prod.mk.inj h).1.symm⟩

theorem encodeStore_sp (c : Content) (side : Side) (st' : Store) (b : List Block)
    (h : Sketch.encodeStore (.sp c) side = some (st', b)) : st' = .sp c := by
  rcases encodeStore_store _ _ _ _ h with h | ⟨p, t, h, _⟩
  · exact h
  · cases h

theorem encodeStore_d (s : DStore) (side : Side) (st' : Store) (b : List Block)
    (h : Sketch.encodeStore (.d s) side = some (st', b)) : st' = .d s := by
  rcases encodeStore_store _ _ _ _ h with h | ⟨p, t, h, _⟩
  · exact h
  · cases h

/-- **`Encode` is a read**: same mapping, same zero weight; each store is unchanged unless it is
    paginated, in which case it is replaced by its compacted form -/
theorem encode_pure (s s' : Sketch) (om : Bool) (bl : List Block)
    (h : s.encode om = some (s', bl)) :
    s'.mapping = s.mapping ∧ s'.zero = s.zero ∧
      (s'.pos = s.pos ∨ ∃ p t, s.pos = .pg p ∧ p.compact = some t ∧ s'.pos = .pg t) ∧
      (s'.neg = s.neg ∨ ∃ p t, s.neg = .pg p ∧ p.compact = some t ∧ s'.neg = .pg t) := by
  simp only [Sketch.encode, Option.bind_eq_bind, Option.bind_eq_some_iff] at h
  obtain ⟨⟨p, pb⟩, hp, ⟨n, nb⟩, hn, h⟩ := h
  simp only [Option.pure_def, Option.some.injEq] at h
  have := (Prod.mk.inj h).1
  subst this
  exact ⟨rfl, rfl, encodeStore_store _ _ _ _ hp, encodeStore_store _ _ _ _ hn⟩

/-- sparse and dense stores: `encode` returns the receiver itself -/
theorem encode_pure_sp_d (s s' : Sketch) (om : Bool) (bl : List Block)
    (hpos : (∃ c, s.pos = .sp c) ∨ (∃ d, s.pos = .d d))
    (hneg : (∃ c, s.neg = .sp c) ∨ (∃ d, s.neg = .d d))
    (h : s.encode om = some (s', bl)) : s' = s := by
  obtain ⟨hm, hz, hp, hn⟩ := encode_pure s s' om bl h
  have hp' : s'.pos = s.pos := by
    rcases hp with hp | ⟨p, t, hp, _⟩
    · exact hp
    · rcases hpos with ⟨c, hc⟩ | ⟨d, hd⟩
      · rw [hc] at hp; cases hp
      · rw [hd] at hp; cases hp
  have hn' : s'.neg = s.neg := by
    rcases hn with hn | ⟨p, t, hn, _⟩
    · exact hn
    · rcases hneg with ⟨c, hc⟩ | ⟨d, hd⟩
      · rw [hc] at hn; cases hn
      · rw [hd] at hn; cases hn
  cases s; cases s'; simp_all

/-- a spec sketch always encodes, and is returned unchanged -/
theorem encode_spec (m : Option MapId) (a b : Content) (z : F64) (om : Bool) :
    ∃ bl, (Sketch.spec m a b z).encode om = some (Sketch.spec m a b z, bl) := by
  have hs : ∀ (c : Content) (side : Side), ∃ bl, Sketch.encodeStore (.sp c) side = some (.sp c, bl) := by
    intro c side
    simp only [Sketch.encodeStore]
    split
    · exact ⟨_, rfl⟩
    · exact ⟨_, rfl⟩
  obtain ⟨pb, hp⟩ := hs a .pos
  obtain ⟨nb, hn⟩ := hs b .neg
  refine ⟨(if F64.ne z (.fin 0) then [Block.zeroCount (Sketch.vfBitsF z)] else []) ++
    (if om then [] else match m with | some id => [id.toBlock] | none => []) ++ pb ++ nb, ?_⟩
  simp only [Sketch.encode, Sketch.spec, hp, hn, Option.bind_eq_bind, Option.bind_some, Option.pure_def]
  rfl

/-- the exact-summary sketch: `encode` keeps the statistics -/
theorem xencode_pure (x x' : XSketch) (om : Bool) (bl : List Block)
    (h : x.encode om = some (x', bl)) :
    x'.st = x.st ∧ ∃ bl', x.sk.encode om = some (x'.sk, bl') := by
  simp only [XSketch.encode, Option.bind_eq_bind, Option.bind_eq_some_iff] at h
  obtain ⟨⟨sk, b⟩, hsk, h⟩ := h
  simp only [Option.pure_def, Option.some.injEq] at h
  have := (Prod.mk.inj h).1
  subst this
  exact ⟨rfl, b, hsk⟩

/-! ## adding in any order

  `Content.ext` needs positive weights; the abstraction of a paginated store is built by `add`
  from arbitrary page contents, so `DDS.Proofs.PagCompact` works with what `add` guarantees —
  `Content.NZ`: strictly increasing keys and non-zero weights — which is extensional too
  (`Content.ext_nz`). -/

/-- adding the same multiset of `(index, weight)` pairs — of ANY sign — in a different order yields
    the same content, from any start in weak canonical form -/
theorem foldl_add_perm (a : Content) (ha : Content.NZ a) {l₁ l₂ : List (Int × Rat)}
    (h : l₁.Perm l₂) :
    l₁.foldl (fun acc p => acc.add p.1 p.2) a = l₂.foldl (fun acc p => acc.add p.1 p.2) a :=
  Content.foldl_add_perm_nz a ha h

/-! ## the paginated store: permuting the buffer is unobservable -/

/-- the store with its buffer replaced -/
def withBuffer (s : PStore) (b : List Int) : PStore := { s with buffer := b }

theorem sortInts_perm (l : List Int) : (PStore.sortInts l).Perm l := List.mergeSort_perm _ _

theorem sortInts_sorted (l : List Int) : (PStore.sortInts l).Pairwise (fun a b => a ≤ b) := by
  have := List.pairwise_mergeSort (le := fun (a b : Int) => decide (a ≤ b))
    (by intro a b c; simp only [decide_eq_true_eq]; omega)
    (by intro a b; simp only [Bool.or_eq_true, decide_eq_true_eq]; omega) l
  simpa [PStore.sortInts] using this

/-- sorting forgets the order of the buffer -/
theorem sortInts_eq_of_perm {l₁ l₂ : List Int} (h : l₁.Perm l₂) :
    PStore.sortInts l₁ = PStore.sortInts l₂ := by
  apply List.Perm.eq_of_pairwise (le := fun (a b : Int) => a ≤ b)
  · intro a b _ _ h1 h2; omega
  · exact sortInts_sorted l₁
  · exact sortInts_sorted l₂
  · exact (sortInts_perm l₁).trans (h.trans (sortInts_perm l₂).symm)

theorem abs_perm_buffer (s : PStore) (b : List Int) (h : s.buffer.Perm b) :
    (withBuffer s b).abs = s.abs := by
  rw [PagCompact.abs_eq_merge, PagCompact.abs_eq_merge]
  exact (foldl_add_perm _ (Content.nz_merge _ _ Content.nz_nil) (h.map _)).symm

theorem totalCount_perm_buffer (s : PStore) (b : List Int) (h : s.buffer.Perm b) :
    (withBuffer s b).totalCount = s.totalCount := by
  unfold PStore.totalCount withBuffer
  rw [h.length_eq]

theorem isEmpty_perm_buffer (s : PStore) (b : List Int) (h : s.buffer.Perm b) :
    (withBuffer s b).isEmpty = s.isEmpty := by
  unfold PStore.isEmpty withBuffer
  rw [h.isEmpty_eq]

theorem binsList_perm_buffer (s : PStore) (b : List Int) (h : s.buffer.Perm b) :
    (withBuffer s b).binsList = s.binsList := by
  unfold PStore.binsList withBuffer
  simp only [sortInts_eq_of_perm h]
  rfl

theorem foldl_min_spec (xs : List Int) (x : Int) :
    (xs.foldl min x = x ∨ xs.foldl min x ∈ xs) ∧ xs.foldl min x ≤ x ∧ ∀ y ∈ xs, xs.foldl min x ≤ y := by
  induction xs generalizing x with
  | nil => simp
  | cons a xs ih =>
    obtain ⟨h1, h2, h3⟩ := ih (min x a)
    simp only [List.foldl_cons, List.mem_cons, forall_eq_or_imp]
    refine ⟨?_, by omega, by omega, h3⟩
    rcases h1 with h1 | h1
    · rw [h1]; omega
    · exact Or.inr (Or.inr h1)

theorem foldl_max_spec (xs : List Int) (x : Int) :
    (xs.foldl max x = x ∨ xs.foldl max x ∈ xs) ∧ x ≤ xs.foldl max x ∧ ∀ y ∈ xs, y ≤ xs.foldl max x := by
  induction xs generalizing x with
  | nil => simp
  | cons a xs ih =>
    obtain ⟨h1, h2, h3⟩ := ih (max x a)
    simp only [List.foldl_cons, List.mem_cons, forall_eq_or_imp]
    refine ⟨?_, by omega, by omega, h3⟩
    rcases h1 with h1 | h1
    · rw [h1]; omega
    · exact Or.inr (Or.inr h1)

theorem listMin?_spec (l : List Int) (m : Int) (h : PStore.listMin? l = some m) :
    m ∈ l ∧ ∀ y ∈ l, m ≤ y := by
  cases l with
  | nil => simp [PStore.listMin?] at h
  | cons x xs =>
    simp only [PStore.listMin?, Option.some.injEq] at h
    obtain ⟨h1, h2, h3⟩ := foldl_min_spec xs x
    rw [h] at h1 h2 h3
    refine ⟨?_, ?_⟩
    · rcases h1 with h1 | h1
      · rw [h1]; exact List.mem_cons_self ..
      · exact List.mem_cons_of_mem _ h1
    · intro y hy
      rcases List.mem_cons.1 hy with rfl | hy
      · exact h2
      · exact h3 y hy

theorem listMax?_spec (l : List Int) (m : Int) (h : PStore.listMax? l = some m) :
    m ∈ l ∧ ∀ y ∈ l, y ≤ m := by
  cases l with
  | nil => simp [PStore.listMax?] at h
  | cons x xs =>
    simp only [PStore.listMax?, Option.some.injEq] at h
    obtain ⟨h1, h2, h3⟩ := foldl_max_spec xs x
    rw [h] at h1 h2 h3
    refine ⟨?_, ?_⟩
    · rcases h1 with h1 | h1
      · rw [h1]; exact List.mem_cons_self ..
      · exact List.mem_cons_of_mem _ h1
    · intro y hy
      rcases List.mem_cons.1 hy with rfl | hy
      · exact h2
      · exact h3 y hy

theorem listMin?_perm {l₁ l₂ : List Int} (h : l₁.Perm l₂) :
    PStore.listMin? l₁ = PStore.listMin? l₂ := by
  cases h1 : PStore.listMin? l₁ with
  | none =>
    cases l₁ with
    | nil => rw [← h.nil_eq]; rfl
    | cons x xs => simp [PStore.listMin?] at h1
  | some m =>
    cases h2 : PStore.listMin? l₂ with
    | none =>
      cases l₂ with
      | nil => rw [h.eq_nil] at h1; simp [PStore.listMin?] at h1
      | cons x xs => simp [PStore.listMin?] at h2
    | some m' =>
      obtain ⟨a1, a2⟩ := listMin?_spec l₁ m h1
      obtain ⟨b1, b2⟩ := listMin?_spec l₂ m' h2
      have := a2 m' (h.mem_iff.2 b1)
      have := b2 m (h.mem_iff.1 a1)
      congr 1; omega

theorem listMax?_perm {l₁ l₂ : List Int} (h : l₁.Perm l₂) :
    PStore.listMax? l₁ = PStore.listMax? l₂ := by
  cases h1 : PStore.listMax? l₁ with
  | none =>
    cases l₁ with
    | nil => rw [← h.nil_eq]; rfl
    | cons x xs => simp [PStore.listMax?] at h1
  | some m =>
    cases h2 : PStore.listMax? l₂ with
    | none =>
      cases l₂ with
      | nil => rw [h.eq_nil] at h1; simp [PStore.listMax?] at h1
      | cons x xs => simp [PStore.listMax?] at h2
    | some m' =>
      obtain ⟨a1, a2⟩ := listMax?_spec l₁ m h1
      obtain ⟨b1, b2⟩ := listMax?_spec l₂ m' h2
      have := a2 m' (h.mem_iff.2 b1)
      have := b2 m (h.mem_iff.1 a1)
      congr 1; omega

theorem minScan_withBuffer (s : PStore) (b : List Int) (bmin : Option Int) (offs : List Nat) :
    PStore.minIndex?.scan (withBuffer s b) bmin offs = PStore.minIndex?.scan s bmin offs := by
  induction offs with
  | nil => rfl
  | cons off rest ih =>
    unfold PStore.minIndex?.scan
    rw [ih]
    rfl

theorem maxScan_withBuffer (s : PStore) (b : List Int) (bmax : Option Int) (offs : List Nat) :
    PStore.maxIndex?.scan (withBuffer s b) bmax offs = PStore.maxIndex?.scan s bmax offs := by
  induction offs with
  | nil => rfl
  | cons off rest ih =>
    unfold PStore.maxIndex?.scan
    rw [ih]
    rfl

theorem minIndex?_perm_buffer (s : PStore) (b : List Int) (h : s.buffer.Perm b) :
    (withBuffer s b).minIndex? = s.minIndex? := by
  unfold PStore.minIndex?
  rw [minScan_withBuffer]
  show PStore.minIndex?.scan s (PStore.listMin? b) _ = _
  rw [← listMin?_perm h]
  rfl

theorem maxIndex?_perm_buffer (s : PStore) (b : List Int) (h : s.buffer.Perm b) :
    (withBuffer s b).maxIndex? = s.maxIndex? := by
  unfold PStore.maxIndex?
  rw [maxScan_withBuffer]
  show PStore.maxIndex?.scan s (PStore.listMax? b) _ = _
  rw [← listMax?_perm h]
  rfl

theorem keyAtRank_perm_buffer (s : PStore) (b : List Int) (h : s.buffer.Perm b) (r : Rat) :
    (withBuffer s b).keyAtRank r = s.keyAtRank r := by
  unfold PStore.keyAtRank
  rw [maxIndex?_perm_buffer s b h]
  show (match PStore.firstExceeding s.pageLines (PStore.sortInts b) 0 _ with
        | some k => k | none => _) = _
  rw [← sortInts_eq_of_perm h]
  rfl

/-- **no observer of the paginated store can tell in which order the buffer is kept** — in
    particular whether a previous read has sorted it -/
theorem pstore_observers_perm_buffer (s : PStore) (b : List Int) (h : s.buffer.Perm b) :
    (Store.pg (withBuffer s b)).abs = (Store.pg s).abs ∧
      (Store.pg (withBuffer s b)).totalCount = (Store.pg s).totalCount ∧
      (Store.pg (withBuffer s b)).isEmpty = (Store.pg s).isEmpty ∧
      (Store.pg (withBuffer s b)).minIndex? = (Store.pg s).minIndex? ∧
      (Store.pg (withBuffer s b)).maxIndex? = (Store.pg s).maxIndex? ∧
      (Store.pg (withBuffer s b)).binsList = (Store.pg s).binsList ∧
      ∀ r, (Store.pg (withBuffer s b)).keyAtRank r = (Store.pg s).keyAtRank r :=
  ⟨abs_perm_buffer s b h, totalCount_perm_buffer s b h, isEmpty_perm_buffer s b h,
    minIndex?_perm_buffer s b h, maxIndex?_perm_buffer s b h,
    congrArg some (binsList_perm_buffer s b h), keyAtRank_perm_buffer s b h⟩

/-- sorting the buffer, as the enumerating reads do, is unobservable -/
theorem pstore_sort_buffer_unobservable (s : PStore) :
    (Store.pg (withBuffer s (PStore.sortInts s.buffer))).abs = (Store.pg s).abs ∧
      (Store.pg (withBuffer s (PStore.sortInts s.buffer))).binsList = (Store.pg s).binsList :=
  let h := pstore_observers_perm_buffer s _ (sortInts_perm s.buffer).symm
  ⟨h.1, h.2.2.2.2.2.1⟩

/-! ## `compact` preserves the abstraction -/

/-- **the one read that changes the state changes nothing observable**: when `compact` succeeds,
    the abstraction is the same.  `PInv` is the sentinel convention of the store
    (`minPageIndex = maxInt` ⇒ no page in use; it holds of `new`, of `clear`, and of any store whose
    `minPageIndex` is below the sentinel); the bound says the buffered entries lie on pages below
    the sentinel (true of every Go `int` when a page has at least two lines). -/
theorem compact_preserves_abs (s s' : PStore) (hinv : PagCompact.PInv s)
    (hb : ∀ i ∈ s.buffer, s.pageIndex i < maxInt) (h : s.compact = some s') : s'.abs = s.abs :=
  PagCompact.compact_abs s s' hinv hb h

/-- the bound holds for every Go `int` as soon as pages have at least two lines -/
theorem pageIndex_lt_maxInt (s : PStore) (hlen : 1 ≤ s.pageLenLog2) (i : Int) (hi : i ≤ maxInt) :
    s.pageIndex i < maxInt := by
  unfold PStore.pageIndex
  have h2 : 2 ≤ s.pageLen := by
    unfold PStore.pageLen
    calc 2 = 2 ^ 1 := rfl
      _ ≤ 2 ^ s.pageLenLog2 := Nat.pow_le_pow_right (by decide) hlen
  apply Int.ediv_lt_of_lt_mul (by omega)
  have : maxInt * 2 ≤ maxInt * (s.pageLen : Int) :=
    Int.mul_le_mul_of_nonneg_left (by omega) (by unfold maxInt; omega)
  unfold maxInt at *
  omega

/-- `Encode` on a sketch with paginated stores: the stores are compacted, their abstraction is
    unchanged; with `encode_pure`, nothing observable changes -/
theorem encode_abs (s s' : Sketch) (om : Bool) (bl : List Block)
    (hpos : ∀ p, s.pos = .pg p → PagCompact.PInv p ∧ ∀ i ∈ p.buffer, p.pageIndex i < maxInt)
    (hneg : ∀ p, s.neg = .pg p → PagCompact.PInv p ∧ ∀ i ∈ p.buffer, p.pageIndex i < maxInt)
    (h : s.encode om = some (s', bl)) :
    s'.mapping = s.mapping ∧ s'.zero = s.zero ∧ s'.pos.abs = s.pos.abs ∧ s'.neg.abs = s.neg.abs := by
  obtain ⟨hm, hz, hp, hn⟩ := encode_pure s s' om bl h
  refine ⟨hm, hz, ?_, ?_⟩
  · rcases hp with hp | ⟨p, t, h1, h2, h3⟩
    · rw [hp]
    · rw [h1, h3]
      exact compact_preserves_abs p t (hpos p h1).1 (hpos p h1).2 h2
  · rcases hn with hn | ⟨p, t, h1, h2, h3⟩
    · rw [hn]
    · rw [h1, h3]
      exact compact_preserves_abs p t (hneg p h1).1 (hneg p h1).2 h2

/-! ## instances -/

def demoP : PStore := { PStore.new with buffer := [3, 1, 2, 1] }

example : (Store.pg (withBuffer demoP [1, 1, 2, 3])).abs = (Store.pg demoP).abs ∧
    (Store.pg (withBuffer demoP [1, 1, 2, 3])).binsList = (Store.pg demoP).binsList :=
  let h := pstore_observers_perm_buffer demoP [1, 1, 2, 3] (by decide)
  ⟨h.1, h.2.2.2.2.2.1⟩

example : ∃ bl, (Sketch.spec none [(1, 2)] [(3, 1)] (.fin 5)).encode true
    = some (Sketch.spec none [(1, 2)] [(3, 1)] (.fin 5), bl) := encode_spec _ _ _ _ _

example (s' : Sketch) (bl : List Block)
    (h : (Sketch.new none .dense).encode true = some (s', bl)) : s' = Sketch.new none .dense :=
  encode_pure_sp_d _ _ _ _ (Or.inr ⟨_, rfl⟩) (Or.inr ⟨_, rfl⟩) h

example : (Sketch.new none .dense).encode true = some (Sketch.new none .dense, []) := rfl

example : Content.NZ [(1, -2), (4, 3)] := by
  refine ⟨⟨by decide, trivial⟩, ?_⟩
  intro p hp
  simp at hp
  rcases hp with rfl | rfl <;> simp <;> decide

/-- a compaction that really moves entries: three of the four buffered indexes go to a page -/
def demoQ : PStore := { PStore.new with buffer := [4, 9, 5, 4], pageLenLog2 := 1 }

theorem demoQ_sorted : PStore.sortInts demoQ.buffer = [4, 4, 5, 9] := by
  have h1 := sortInts_eq_of_perm (l₁ := [4, 9, 5, 4]) (l₂ := [4, 4, 5, 9]) (by decide)
  have h2 : PStore.sortInts [4, 4, 5, 9] = [4, 4, 5, 9] := by
    unfold PStore.sortInts
    apply List.mergeSort_of_pairwise
    decide
  exact h1.trans h2

theorem demoQ_compact : ∃ t, demoQ.compact = some t ∧ t.buffer = [9] ∧ t.minPageIndex = -2 := by
  unfold PStore.compact
  rw [demoQ_sorted]
  refine ⟨_, rfl, ?_, ?_⟩ <;> rfl

theorem demoQ_inv : PagCompact.PInv demoQ :=
  ⟨Int.le_refl _, fun _ pg h => by simp [demoQ, PStore.new] at h⟩

theorem demoQ_bound : ∀ i ∈ demoQ.buffer, demoQ.pageIndex i < maxInt := by
  intro i hi
  apply pageIndex_lt_maxInt demoQ (by decide)
  simp only [demoQ, List.mem_cons, List.not_mem_nil, or_false] at hi
  rcases hi with rfl | rfl | rfl | rfl <;> decide

example : ∃ t, demoQ.compact = some t ∧ t.buffer = [9] ∧ t.abs = demoQ.abs := by
  obtain ⟨t, ht, hb, _⟩ := demoQ_compact
  exact ⟨t, ht, hb, compact_preserves_abs demoQ t demoQ_inv demoQ_bound ht⟩

/-- the sentinel convention is needed: `minPageIndex = maxInt` with a non-empty page -/
def badQ : PStore := { PStore.new with buffer := [0], pages := #[#[1]], pageLenLog2 := 0 }

/-- counterexample without `PInv`: `compact` re-bases the pages and the weight at index `maxInt`
    lands on index 0 -/
theorem compact_needs_inv : ∃ t, badQ.compact = some t ∧ t.abs ≠ badQ.abs := by
  have hs : PStore.sortInts badQ.buffer = [0] := by
    unfold PStore.sortInts
    apply List.mergeSort_of_pairwise
    decide
  unfold PStore.compact
  rw [hs]
  refine ⟨_, rfl, ?_⟩
  intro h
  have := congrArg List.length h
  revert this
  decide +kernel

def demoPS : Sketch := { mapping := none, pos := .pg demoQ, neg := .pg PStore.new, zero := .fin 0 }

theorem demoPS_encodes : (demoPS.encode true).isSome = true := by
  have hs : PStore.sortInts ([] : List Int) = [] := by simp [PStore.sortInts]
  have e1 : ∃ t b, Sketch.encodeStore (.pg demoQ) .pos = some (.pg t, b) := by
    obtain ⟨t, ht, _⟩ := demoQ_compact
    simp only [Sketch.encodeStore, ht, Option.bind_eq_bind, Option.bind_some, Option.pure_def]
    exact ⟨_, _, rfl⟩
  have e2 : ∃ t b, Sketch.encodeStore (.pg PStore.new) .neg = some (.pg t, b) := by
    have : PStore.new.compact = some { PStore.new with buffer := [], trigger := PStore.new.pageLen } := by
      unfold PStore.compact
      rw [show PStore.new.buffer = [] from rfl, hs]
      rfl
    simp only [Sketch.encodeStore, this, Option.bind_eq_bind, Option.bind_some, Option.pure_def]
    exact ⟨_, _, rfl⟩
  obtain ⟨t1, b1, h1⟩ := e1
  obtain ⟨t2, b2, h2⟩ := e2
  simp [Sketch.encode, demoPS, h1, h2]

/-- `encode_abs` on a sketch whose positive store is paginated and gets compacted -/
example : ∃ s' bl, demoPS.encode true = some (s', bl) ∧ s'.pos.abs = demoPS.pos.abs ∧
    s'.neg.abs = demoPS.neg.abs := by
  cases h : demoPS.encode true with
  | none => have := demoPS_encodes; rw [h] at this; simp at this
  | some r =>
    obtain ⟨s', bl⟩ := r
    have hq : ∀ p, demoPS.pos = .pg p → PagCompact.PInv p ∧ ∀ i ∈ p.buffer, p.pageIndex i < maxInt := by
      intro p hp
      have : p = demoQ := by simpa [demoPS] using hp.symm
      subst this
      exact ⟨demoQ_inv, demoQ_bound⟩
    have hn : ∀ p, demoPS.neg = .pg p → PagCompact.PInv p ∧ ∀ i ∈ p.buffer, p.pageIndex i < maxInt := by
      intro p hp
      have : p = PStore.new := by simpa [demoPS] using hp.symm
      subst this
      exact ⟨PagCompact.pinv_new, fun i hi => by simp [PStore.new] at hi⟩
    obtain ⟨_, _, h3, h4⟩ := encode_abs demoPS s' true bl hq hn h
    exact ⟨s', bl, rfl, h3, h4⟩

end DDS.Props.C14
