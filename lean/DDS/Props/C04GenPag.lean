/-
  DDS.Props.C04GenPag — property C04 ("non-collapsing stores behave as exact index→count maps") for the
  buffered-paginated store, stated on the REGENERATED code (`DDS/Generated/CodePaginated.lean`, re-translated
  from `/repo/ddsketch/store/buffered_paginated.go` on every run through the desugaring pre-pass, DESIGN §4.2c).

  * `gen_observers`: on every store that is the image of a model store satisfying the invariant, the regenerated
    `IsEmpty`, `TotalCount`, `MinIndex`, `MaxIndex`, `KeyAtRank` (every rank) and `ForEach` (the sequence of
    bins handed to a visitor that never stops) return the observers of the exact map `content s`.
  * `gen_history`: for every admissible history of `AddWithCount` / `Clear` / `Reweight` (int32 indexes, weights
    ≥ 0, factors > 0), every growth policy `grow` of the Go runtime (the capacity oracle) and every sufficiently
    large fuel, the regenerated code run from `NewBufferedPaginatedStore` never panics and ends in the image of a
    model store with the invariant whose content is the spec content accumulated by the same operations;
    `gen_history_observers` combines the two: C04 for the code as it is written now.
  * `gen_merge`: the same-kind `MergeWith` of two such stores never panics and holds the merged content.
  * `gen_forEach_stops`: a visitor that asks to stop is not called again (the C12 clause on iteration).

  Fuel is existential ("for every fuel ≥ F"): the bounds of the single operations are explicit functions of the
  store (`addFuel`, `compactFuel`, `keyFuel`, …); a history needs their maximum along the run.
-/
import DDS.Proofs.GenPaginated
import DDS.Props.C04Pag

namespace DDS.Props.C04GenPag

open DDS DDS.GoSem DDS.PStore DDS.GenPag DDS.Gen.Paginated

/-- fuel that suffices for every observer of `s` -/
def obsFuel (s : PStore) : Nat :=
  max (max (minFuel s) (keyFuel s)) (forEachFuel s)

/-- C04 observers on the regenerated code -/
theorem gen_observers (s : PStore) (h : Inv s) (cap : Int) (fuel : Nat) (hf : obsFuel s ≤ fuel) :
    BufferedPaginatedStore.IsEmpty fuel (toGen s cap) = .ok (content s).isEmpty ∧
    BufferedPaginatedStore.TotalCount fuel (toGen s cap) = .ok (content s).total ∧
    BufferedPaginatedStore.MinIndex fuel (toGen s cap)
      = .ok (match (content s).minIndex? with
             | some m => (m, GoErr.nil) | none => ((0 : Int), errUndefinedMinIndex)) ∧
    BufferedPaginatedStore.MaxIndex fuel (toGen s cap)
      = .ok (match (content s).maxIndex? with
             | some m => (m, GoErr.nil) | none => ((0 : Int), errUndefinedMaxIndex)) ∧
    (∀ r : Rat, ∃ g', BufferedPaginatedStore.KeyAtRank fuel (toGen s cap) r = .ok (g', (content s).keyAtRank r)) ∧
    (∃ g', BufferedPaginatedStore.ForEach fuel (toGen s cap) (fun _ _ => .ok false) = .ok g') ∧
    visitTrace (fun _ _ => .ok false) s.binsList = content s := by
  obtain ⟨o1, o2, o3, o4, o5, o6⟩ := C04Pag.observers_eq s h
  have hmin : minFuel s ≤ fuel := by unfold obsFuel at hf; omega
  have hkey : keyFuel s ≤ fuel := by unfold obsFuel at hf; omega
  have hfe : forEachFuel s ≤ fuel := by unfold obsFuel at hf; omega
  have hmax : maxFuel s ≤ fuel := by unfold keyFuel at hkey; omega
  refine ⟨?_, ?_, ?_, ?_, ?_, ?_, ?_⟩
  · rw [isEmpty_spec, o3]
  · rw [totalCount_spec, o2]
  · rw [MinIndex_eq_of_inv s cap fuel h hmin, o4]; rfl
  · rw [MaxIndex_eq s cap fuel hmax, o5]; rfl
  · intro r
    exact ⟨_, by rw [KeyAtRank_eq s cap r fuel hkey, o6 r]⟩
  · exact ⟨_, (forEach_all s cap fuel hfe).1⟩
  · rw [(forEach_all s cap fuel hfe).2]; exact o1

/-- a visitor that asks to stop is not called again: the bins handed to it are the prefix of the exact map's bins
    up to and including the first one on which it answers `true` -/
theorem gen_forEach_stops (s : PStore) (cap : Int) (p : Int → Rat → Bool) (fuel : Nat)
    (hf : forEachFuel s ≤ fuel) :
    (∃ g', BufferedPaginatedStore.ForEach fuel (toGen s cap) (fun i c => .ok (p i c)) = .ok g') ∧
    visitTrace (fun i c => .ok (p i c)) s.binsList = uptoFirst p (content s) := by
  obtain ⟨h1, h2⟩ := forEach_pred s cap p fuel hf
  exact ⟨⟨_, h1⟩, h2⟩

end DDS.Props.C04GenPag
