/-
  DDS.Props.C04GenPag — property C04 ("non-collapsing stores behave as exact index→count maps") for the
  buffered-paginated store, stated on the REGENERATED code (`DDS/Generated/CodePaginated.lean`, re-translated
  from `/repo/ddsketch/store/buffered_paginated.go` on every run through the desugaring pre-pass, DESIGN §4.2c).

  * `gen_observers`: on every store that is the image of a model store satisfying the invariant, the regenerated
    `IsEmpty`, `TotalCount`, `MinIndex`, `MaxIndex`, `KeyAtRank` (every rank) and `ForEach` (the sequence of
    bins handed to a visitor that never stops) return the observers of the exact map `content s`.
  * `gen_history`: for every admissible history of `AddWithCount` / `Clear` / `Reweight` (int32 indexes, weights
    ≥ 0, factors > 0), every growth policy `grow` of the Go runtime (the capacity oracle) and every sufficiently
    large fuel, the regenerated code run from `NewBufferedPaginatedStore` never panics and ends in the image of a
    model store with the invariant whose content is the spec content accumulated by the same operations;
    `gen_history_observers` combines the two: C04 for the code as it is written now.
  * `gen_merge`: the same-kind `MergeWith` of two such stores never panics and holds the merged content.
  * `gen_forEach_stops`: a visitor that asks to stop is not called again (the C12 clause on iteration).

  Fuel is existential ("for every fuel ≥ F"): the bounds of the single operations are explicit functions of the
  store (`addFuel`, `compactFuel`, `keyFuel`, …); a history needs their maximum along the run.
-/
import DDS.Proofs.GenPaginated
import DDS.Props.C04Pag

namespace DDS.Props.C04GenPag

open DDS DDS.GoSem DDS.PStore DDS.GenPag DDS.Gen.Paginated

/-- fuel that suffices for every observer of `s` -/
def obsFuel (s : PStore) : Nat :=
  max (max (minFuel s) (keyFuel s)) (forEachFuel s)

/-- C04 observers on the regenerated code -/
theorem gen_observers (s : PStore) (h : Inv s) (cap : Int) (fuel : Nat) (hf : obsFuel s ≤ fuel) :
    BufferedPaginatedStore.IsEmpty fuel (toGen s cap) = .ok (content s).isEmpty ∧
    BufferedPaginatedStore.TotalCount fuel (toGen s cap) = .ok (content s).total ∧
    BufferedPaginatedStore.MinIndex fuel (toGen s cap)
      = .ok (match (content s).minIndex? with
             | some m => (m, GoErr.nil) | none => ((0 : Int), errUndefinedMinIndex)) ∧
    BufferedPaginatedStore.MaxIndex fuel (toGen s cap)
      = .ok (match (content s).maxIndex? with
             | some m => (m, GoErr.nil) | none => ((0 : Int), errUndefinedMaxIndex)) ∧
    (∀ r : Rat, ∃ g', BufferedPaginatedStore.KeyAtRank fuel (toGen s cap) r = .ok (g', (content s).keyAtRank r)) ∧
    (∃ g', BufferedPaginatedStore.ForEach fuel (toGen s cap) (fun _ _ => .ok false) = .ok g') ∧
    visitTrace (fun _ _ => .ok false) s.binsList = content s := by
  obtain ⟨o1, o2, o3, o4, o5, o6⟩ := C04Pag.observers_eq s h
  have hmin : minFuel s ≤ fuel := by unfold obsFuel at hf; omega
  have hkey : keyFuel s ≤ fuel := by unfold obsFuel at hf; omega
  have hfe : forEachFuel s ≤ fuel := by unfold obsFuel at hf; omega
  have hmax : maxFuel s ≤ fuel := by unfold keyFuel at hkey; omega
  refine ⟨?_, ?_, ?_, ?_, ?_, ?_, ?_⟩
  · rw [isEmpty_spec, o3]
  · rw [totalCount_spec, o2]
  · rw [MinIndex_eq_of_inv s cap fuel h hmin, o4]; rfl
  · rw [MaxIndex_eq s cap fuel hmax, o5]; rfl
  · intro r
    exact ⟨_, by rw [KeyAtRank_eq s cap r fuel hkey, o6 r]⟩
  · exact ⟨_, (forEach_all s cap fuel hfe).1⟩
  · rw [(forEach_all s cap fuel hfe).2]; exact o1

/-- a visitor that asks to stop is not called again: the bins handed to it are the prefix of the exact map's bins
    up to and including the first one on which it answers `true` -/
theorem gen_forEach_stops (s : PStore) (cap : Int) (p : Int → Rat → Bool) (fuel : Nat)
    (hf : forEachFuel s ≤ fuel) :
    (∃ g', BufferedPaginatedStore.ForEach fuel (toGen s cap) (fun i c => .ok (p i c)) = .ok g') ∧
    visitTrace (fun i c => .ok (p i c)) s.binsList = uptoFirst p (content s) := by
  obtain ⟨h1, h2⟩ := forEach_pred s cap p fuel hf
  exact ⟨⟨_, h1⟩, h2⟩

/-! ### histories on the regenerated code -/

/-- an operation of a store history -/
inductive GOp where
  | add (i : Int) (w : Rat)
  | clear
  | reweight (w : Rat)
deriving Repr

/-- admissible: int32 index, non-negative weight; a positive reweighting factor -/
def GOp.ok : GOp → Prop
  | .add i w => Idx32 i ∧ 0 ≤ w
  | .clear => True
  | .reweight w => 0 < w

/-- one operation on the regenerated code (`Reweight` also returns Go's error value, which is dropped here) -/
def gstep (fuel : Nat) (grow : Int → Int → Int) (g : GP) : GOp → Res GP
  | .add i w => BufferedPaginatedStore.AddWithCount fuel grow g i w
  | .clear => BufferedPaginatedStore.Clear fuel g
  | .reweight w => (BufferedPaginatedStore.Reweight fuel grow g w).bind (fun r => .ok r.1)

/-- a history on the regenerated code -/
def grun (fuel : Nat) (grow : Int → Int → Int) : GP → List GOp → Res GP
  | g, [] => .ok g
  | g, op :: ops => (gstep fuel grow g op).bind (fun g' => grun fuel grow g' ops)

/-- the same operation on the exact map -/
def cstep (c : Content) : GOp → Content
  | .add i w => c.add i w
  | .clear => []
  | .reweight w => if w = 1 then c else c.scale w

def crun (c : Content) (ops : List GOp) : Content := ops.foldl cstep c

/-- from any store with the invariant: every admissible history runs to completion on the regenerated code for every
    capacity, growth policy and sufficiently large fuel, and ends in the image of a model store with the invariant
    that holds the spec content -/
theorem gen_history_from (ops : List GOp) (hops : ∀ op ∈ ops, op.ok) :
    ∀ (s : PStore), Inv s → ∃ F : Nat, ∀ (cap : Int) (grow : Int → Int → Int) (fuel : Nat), F ≤ fuel →
      ∃ (s' : PStore) (cap' : Int), grun fuel grow (toGen s cap) ops = .ok (toGen s' cap') ∧ Inv s' ∧
        content s' = crun (content s) ops := by
  induction ops with
  | nil => intro s h; exact ⟨0, fun cap _ _ _ => ⟨s, cap, rfl, h, rfl⟩⟩
  | cons op ops ih =>
    intro s h
    have hop : op.ok := hops op (List.mem_cons_self ..)
    have hrest : ∀ op' ∈ ops, op'.ok := fun op' h' => hops op' (List.mem_cons_of_mem _ h')
    cases op with
    | add i w =>
      obtain ⟨hi, hw⟩ := hop
      obtain ⟨st, ht1, ht2, ht3⟩ := C04Pag.add_content s h i hi w hw true
      obtain ⟨sf, hf1, hf2, hf3⟩ := C04Pag.add_content s h i hi w hw false
      obtain ⟨Ft, hFt⟩ := ih hrest st ht2
      obtain ⟨Ff, hFf⟩ := ih hrest sf hf2
      refine ⟨max (addFuel s i) (max Ft Ff), fun cap grow fuel hfu => ?_⟩
      have hspec := addWithCount_spec page_spec s cap grow i w fuel (by omega)
      cases hb : decide ((s.buffer.length : Int) = cap) with
      | true =>
        rw [hb, ht1] at hspec
        obtain ⟨g', hg', cap1, rfl⟩ := hspec
        obtain ⟨s', cap', hr, hinv, hc⟩ := hFt cap1 grow fuel (by omega)
        refine ⟨s', cap', ?_, hinv, ?_⟩
        · show (gstep fuel grow (toGen s cap) (.add i w)).bind _ = _
          simp only [gstep, hg', Res.bind_ok]; exact hr
        · rw [hc, ht3]; rfl
      | false =>
        rw [hb, hf1] at hspec
        obtain ⟨g', hg', cap1, rfl⟩ := hspec
        obtain ⟨s', cap', hr, hinv, hc⟩ := hFf cap1 grow fuel (by omega)
        refine ⟨s', cap', ?_, hinv, ?_⟩
        · show (gstep fuel grow (toGen s cap) (.add i w)).bind _ = _
          simp only [gstep, hg', Res.bind_ok]; exact hr
        · rw [hc, hf3]; rfl
    | clear =>
      obtain ⟨hc1, hc2⟩ := C04Pag.clear_content s h
      obtain ⟨F, hF⟩ := ih hrest s.clear hc1
      refine ⟨F, fun cap grow fuel hfu => ?_⟩
      obtain ⟨s', cap', hr, hinv, hc⟩ := hF cap grow fuel hfu
      refine ⟨s', cap', ?_, hinv, ?_⟩
      · show (gstep fuel grow (toGen s cap) .clear).bind _ = _
        simp only [gstep, GenPag.clear_spec, Res.bind_ok]; exact hr
      · rw [hc, hc2]; rfl
    | reweight w =>
      have hw : 0 < w := hop
      by_cases h1 : w = 1
      · subst h1
        obtain ⟨F, hF⟩ := ih hrest s h
        refine ⟨F, fun cap grow fuel hfu => ?_⟩
        obtain ⟨s', cap', hr, hinv, hc⟩ := hF cap grow fuel hfu
        refine ⟨s', cap', ?_, hinv, ?_⟩
        · show (gstep fuel grow (toGen s cap) (.reweight 1)).bind _ = _
          simp only [gstep, reweight_one, Res.bind_ok]; exact hr
        · rw [hc]; simp [crun, cstep]
      · obtain ⟨sr, hr1, hr2, hr3⟩ := C04Pag.reweight_content s h w hw
        obtain ⟨F, hF⟩ := ih hrest sr hr2
        refine ⟨max (reweightFuel s w) F, fun cap grow fuel hfu => ?_⟩
        have hspec := reweight_spec page_spec s cap grow w fuel hw h1 (by omega)
        rw [hr1] at hspec
        obtain ⟨s', cap', hr, hinv, hc⟩ := hF cap grow fuel (by omega)
        refine ⟨s', cap', ?_, hinv, ?_⟩
        · show (gstep fuel grow (toGen s cap) (.reweight w)).bind _ = _
          simp only [gstep, hspec, GenDense.toRes_some, Res.bind_ok]; exact hr
        · rw [hc, hr3]; simp [crun, cstep, h1]

/-- C04 for the regenerated paginated store: for every admissible history there is a fuel bound from which on,
    whatever the growth policy of the runtime, the regenerated code started from `NewBufferedPaginatedStore` runs to
    completion and every observer of the result is the observer of the exact map built by the same operations -/
theorem gen_history_observers (ops : List GOp) (hops : ∀ op ∈ ops, op.ok) :
    ∃ F : Nat, ∀ (grow : Int → Int → Int) (fuel : Nat), F ≤ fuel →
      ∃ g : GP, grun fuel grow NewBufferedPaginatedStore ops = .ok g ∧
        ∃ F' : Nat, ∀ fuel', F' ≤ fuel' →
          BufferedPaginatedStore.IsEmpty fuel' g = .ok (crun [] ops).isEmpty ∧
          BufferedPaginatedStore.TotalCount fuel' g = .ok (crun [] ops).total ∧
          BufferedPaginatedStore.MinIndex fuel' g
            = .ok (match (crun [] ops).minIndex? with
                   | some m => (m, GoErr.nil) | none => ((0 : Int), errUndefinedMinIndex)) ∧
          BufferedPaginatedStore.MaxIndex fuel' g
            = .ok (match (crun [] ops).maxIndex? with
                   | some m => (m, GoErr.nil) | none => ((0 : Int), errUndefinedMaxIndex)) ∧
          (∀ r : Rat, ∃ g', BufferedPaginatedStore.KeyAtRank fuel' g r = .ok (g', (crun [] ops).keyAtRank r)) ∧
          (∃ g', BufferedPaginatedStore.ForEach fuel' g (fun _ _ => .ok false) = .ok g') := by
  have hnew : Inv PStore.new := PStore.inv_new
  have hc0 : content PStore.new = [] := (PStore.content_eq_nil_iff _ hnew).2 PStore.wt_new
  obtain ⟨F, hF⟩ := gen_history_from ops hops PStore.new hnew
  refine ⟨F, fun grow fuel hfu => ?_⟩
  obtain ⟨s', cap', hr, hinv, hc⟩ := hF 4 grow fuel hfu
  rw [← new_spec] at hr
  refine ⟨toGen s' cap', hr, obsFuel s', fun fuel' hf' => ?_⟩
  obtain ⟨o1, o2, o3, o4, o5, o6, _⟩ := gen_observers s' hinv cap' fuel' hf'
  rw [hc, hc0] at o1 o2 o3 o4
  refine ⟨o1, o2, o3, o4, ?_, o6⟩
  intro r
  obtain ⟨g', hg'⟩ := o5 r
  exact ⟨g', by rw [hg', hc, hc0]⟩

/-- same-kind merge on the regenerated code: for any two stores with the invariant (any capacities, any growth policy,
    fuel from `mergeFuel` on) `MergeWith` never panics and the receiver ends holding the merged content; the
    argument is a value and is unchanged -/
theorem gen_merge (s o : PStore) (hs : Inv s) (ho : Inv o) (cap cap' : Int) (grow : Int → Int → Int)
    (mf : GP → GP → Res GP) (fuel : Nat) (hf : mergeFuel addFuel s o ≤ fuel) :
    ∃ (g' : GP) (s' : PStore),
      BufferedPaginatedStore.MergeWith fuel grow mf (toGen s cap) (toGen o cap') = .ok g' ∧ Rel g' s' ∧ Inv s' ∧
      content s' = (content s).merge (content o) := by
  obtain ⟨g', s', h1, h2, h3, h4, _⟩ :=
    mergeWith_same_content page_spec (add_spec page_spec) grow mf s o cap cap' fuel hs ho hf
  exact ⟨g', s', h1, h2, h3, h4⟩

/-- C14 on the regenerated code: the two reads that reorganise the store (`KeyAtRank`, `ForEach` sort the buffer)
    return a store that is the image of a model store with the invariant and the SAME content — no later answer
    can change -/
theorem gen_reads_preserve_content (s : PStore) (h : Inv s) (cap : Int) (r : Rat) (fuel : Nat)
    (hf : obsFuel s ≤ fuel) :
    ∃ s' : PStore, Inv s' ∧ content s' = content s ∧
      BufferedPaginatedStore.KeyAtRank fuel (toGen s cap) r = .ok (toGen s' cap, (content s).keyAtRank r) ∧
      BufferedPaginatedStore.ForEach fuel (toGen s cap) (fun _ _ => .ok false) = .ok (toGen s' cap) := by
  have hkey : keyFuel s ≤ fuel := by unfold obsFuel at hf; omega
  have hfe : forEachFuel s ≤ fuel := by unfold obsFuel at hf; omega
  obtain ⟨hi, hw⟩ := PStore.sortRead_spec s h
  refine ⟨s.sortRead, hi, ?_, ?_, ?_⟩
  · apply PStore.content_eq_of_lookup _ hi _ (PStore.content_wf s h)
    intro j; rw [hw j, PStore.lookup_content s h]
  · rw [KeyAtRank_eq s cap r fuel hkey, (C04Pag.observers_eq s h).2.2.2.2.2 r]; rfl
  · exact (forEach_all s cap fuel hfe).1

end DDS.Props.C04GenPag
