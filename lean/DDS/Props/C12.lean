/-
  DDS.Props.C12 — coherence of the observers of a sketch, on spec sketches
  `Sketch.spec m cp cn (.fin zq)` with canonical contents and a non-negative zero bucket.
  (`DDS.Proofs.SketchObs` transports every statement to any sketch refining `cp`, `cn`.)

  The exactness hypothesis `hx` says that the float sums of `GetCount()` are exact:
  `F64.add (F64.add z (.fin cp.total)) (.fin cn.total) = .fin (zq + cp.total + cn.total)`.
-/
import DDS.Proofs.SketchObs
import DDS.Proofs.Num
import DDS.Props.C13

namespace DDS.Props.C12

open DDS

/-! ### count, emptiness, enumeration -/

theorem count_eq_total (m : Option MapId) (cp cn : Content) (zq : Rat)
    (hx : F64.add (F64.add (.fin zq) (.fin cp.total)) (.fin cn.total) =
      .fin (zq + cp.total + cn.total)) :
    (Sketch.spec m cp cn (.fin zq)).getCount = .fin (zq + cp.total + cn.total) := hx

/-- `IsEmpty()` says exactly that the (real) total weight is zero; no exactness needed -/
theorem isEmpty_iff_count_zero (m : Option MapId) (cp cn : Content) (zq : Rat)
    (hcp : cp.WF) (hcn : cn.WF) (hz : 0 ≤ zq) :
    (Sketch.spec m cp cn (.fin zq)).isEmpty = true ↔ zq + cp.total + cn.total = 0 := by
  have h1 := Content.total_nonneg cp hcp.2
  have h2 := Content.total_nonneg cn hcn.2
  have e1 := Content.isEmpty_iff_total_zero cp hcp
  have e2 := Content.isEmpty_iff_total_zero cn hcn
  have : (Sketch.spec m cp cn (.fin zq)).isEmpty =
      (F64.eq (.fin zq) (.fin 0) && cp.isEmpty && cn.isEmpty) := rfl
  rw [this]
  simp only [F64.eq, Bool.and_eq_true, beq_iff_eq, e1, e2]
  constructor
  · rintro ⟨⟨a, b⟩, c⟩; rw [a, b, c]; norm_num
  · intro h; refine ⟨⟨?_, ?_⟩, ?_⟩ <;> linarith

/-- … and with exact sums, that `GetCount()` is zero -/
theorem isEmpty_iff_getCount_zero (m : Option MapId) (cp cn : Content) (zq : Rat)
    (hcp : cp.WF) (hcn : cn.WF) (hz : 0 ≤ zq)
    (hx : F64.add (F64.add (.fin zq) (.fin cp.total)) (.fin cn.total) =
      .fin (zq + cp.total + cn.total)) :
    (Sketch.spec m cp cn (.fin zq)).isEmpty = true ↔
      (Sketch.spec m cp cn (.fin zq)).getCount = .fin 0 := by
  rw [isEmpty_iff_count_zero m cp cn zq hcp hcn hz, count_eq_total m cp cn zq hx]
  constructor
  · intro h; rw [h]
  · intro h; exact F64.fin.inj h

/-- what `ForEach` enumerates on a spec sketch -/
theorem forEachList_spec (env : MapEnv) (m : Option MapId) (cp cn : Content) (zq : Rat) :
    (Sketch.spec m cp cn (.fin zq)).forEachList env =
      some ((if zq = 0 then [] else [(F64.fin 0, zq)]) ++
        cp.map (fun b => (env.value b.1, b.2)) ++
        cn.map (fun b => (F64.neg (env.value b.1), b.2))) := rfl

theorem sum_map_snd (c : Content) (f : Int → F64) :
    ((c.map (fun b => (f b.1, b.2))).map (·.2)).sum = c.total := by
  induction c with
  | nil => rfl
  | cons p rest ih =>
    simp only [List.map_cons, List.sum_cons, Content.total_cons, ih]

theorem forEach_weights_positive (env : MapEnv) (m : Option MapId) (cp cn : Content) (zq : Rat)
    (hcp : cp.WF) (hcn : cn.WF) (hz : 0 ≤ zq) (l : List (F64 × Rat))
    (hl : (Sketch.spec m cp cn (.fin zq)).forEachList env = some l) : ∀ p ∈ l, 0 < p.2 := by
  rw [forEachList_spec] at hl
  cases hl
  intro p hp
  simp only [List.mem_append, List.mem_map] at hp
  rcases hp with (hp | ⟨b, hb, rfl⟩) | ⟨b, hb, rfl⟩
  · by_cases h0 : zq = 0
    · simp [h0] at hp
    · simp only [if_neg h0, List.mem_singleton] at hp
      subst hp
      exact lt_of_le_of_ne hz (Ne.symm h0)
  · exact hcp.2 b hb
  · exact hcn.2 b hb

theorem forEach_weights_sum (env : MapEnv) (m : Option MapId) (cp cn : Content) (zq : Rat)
    (l : List (F64 × Rat))
    (hl : (Sketch.spec m cp cn (.fin zq)).forEachList env = some l) :
    (l.map (·.2)).sum = zq + cp.total + cn.total := by
  rw [forEachList_spec] at hl
  cases hl
  rw [List.map_append, List.map_append, List.sum_append, List.sum_append,
    sum_map_snd cp env.value, sum_map_snd cn (fun i => F64.neg (env.value i))]
  by_cases h0 : zq = 0
  · simp [h0]
  · simp [h0]

/-- `ForEach` never panics on a spec sketch -/
theorem forEach_total (env : MapEnv) (m : Option MapId) (cp cn : Content) (zq : Rat) :
    ∃ l, (Sketch.spec m cp cn (.fin zq)).forEachList env = some l := ⟨_, forEachList_spec env m cp cn zq⟩

/-! ### `GetValuesAtQuantiles` is the map of `GetValueAtQuantile` (first error wins) -/

theorem quantiles_eq_map (env : MapEnv) (s : Sketch) (qs : List F64) :
    Sketch.quantiles env s qs = qs.mapM (Sketch.quantile env s) := rfl

theorem quantiles_nil (env : MapEnv) (s : Sketch) : Sketch.quantiles env s [] = .ok [] := rfl

theorem quantiles_cons (env : MapEnv) (s : Sketch) (q : F64) (qs : List F64) :
    Sketch.quantiles env s (q :: qs) =
      match Sketch.quantile env s q with
      | .error e => .error e
      | .ok v => match Sketch.quantiles env s qs with
        | .error e => .error e
        | .ok vs => .ok (v :: vs) := by
  unfold Sketch.quantiles
  rw [List.mapM_cons]
  cases Sketch.quantile env s q with
  | error e => rfl
  | ok v =>
    cases List.mapM (Sketch.quantile env s) qs <;> rfl

/-! ### minimum ≤ maximum -/

theorem min_le_max_index (c : Content) (h : c.WF) (a b : Int) (ha : c.minIndex? = some a)
    (hb : c.maxIndex? = some b) : a ≤ b := by
  obtain ⟨w, hw⟩ := Content.maxIndex_mem c b hb
  exact Content.minIndex_le c h a ha _ hw

theorem min_le_max (env : MapEnv) (α mn mx : Rat) (hC : Contract env α mn mx)
    (m : Option MapId) (cp cn : Content) (zq : Rat) (hcp : cp.WF) (hcn : cn.WF)
    (a b : F64)
    (ha : (Sketch.spec m cp cn (.fin zq)).getMin env = .ok a)
    (hb : (Sketch.spec m cp cn (.fin zq)).getMax env = .ok b) : F64.le a b = true := by
  have hmin : (Sketch.spec m cp cn (.fin zq)).getMin env =
      (if !cn.isEmpty then
        match cn.maxIndex? with
        | some k => .ok (F64.neg (env.value k))
        | none => .ok (F64.neg (env.value 0))
      else if F64.gt (.fin zq) (.fin 0) then .ok (.fin 0)
      else match cp.minIndex? with
        | some k => .ok (env.value k)
        | none => .error .empty) := rfl
  have hmax : (Sketch.spec m cp cn (.fin zq)).getMax env =
      (if !cp.isEmpty then
        match cp.maxIndex? with
        | some k => .ok (env.value k)
        | none => .ok (env.value 0)
      else if F64.gt (.fin zq) (.fin 0) then .ok (.fin 0)
      else match cn.minIndex? with
        | some k => .ok (F64.neg (env.value k))
        | none => .error .empty) := rfl
  rw [hmin] at ha
  rw [hmax] at hb
  have hgt : F64.gt (.fin zq) (.fin 0) = decide (0 < zq) := rfl
  rw [hgt] at ha hb
  -- facts on representative values
  have vpos : ∀ i, ∃ r, env.value i = .fin r ∧ 0 < r := hC.valFin
  have le_fin : ∀ x y : Rat, x ≤ y → F64.le (.fin x) (.fin y) = true := by
    intro x y hxy
    simp only [F64.le, F64.lt, F64.eq, Bool.or_eq_true, decide_eq_true_eq, beq_iff_eq]
    exact lt_or_eq_of_le hxy
  cases hcn' : cn with
  | nil =>
    subst hcn'
    simp only [Content.isEmpty, List.isEmpty_nil, Bool.not_true, Bool.false_eq_true, if_false,
      Content.minIndex?_nil] at ha hb
    by_cases hz0 : 0 < zq
    · simp only [hz0, decide_true, if_true] at ha hb
      cases ha
      cases hcp' : cp with
      | nil =>
        subst hcp'
        simp only [List.isEmpty_nil, Bool.not_true, Bool.false_eq_true,
          if_false] at hb
        cases hb
        exact le_fin 0 0 le_rfl
      | cons p rest =>
        subst hcp'
        simp only [List.isEmpty_cons, Bool.not_false, if_true] at hb
        obtain ⟨k, hk⟩ := Content.maxIndex?_isSome (p :: rest) (by simp)
        rw [hk] at hb
        cases hb
        obtain ⟨r, hr, hr0⟩ := vpos k
        rw [hr]; exact le_fin 0 r hr0.le
    · simp only [hz0, decide_false, Bool.false_eq_true, if_false] at ha hb
      cases hcp' : cp with
      | nil => subst hcp'; simp at ha
      | cons p rest =>
        subst hcp'
        simp only [List.isEmpty_cons, Bool.not_false, if_true] at hb
        obtain ⟨k, hk⟩ := Content.maxIndex?_isSome (p :: rest) (by simp)
        rw [hk] at hb
        cases hb
        simp only [Content.minIndex?_cons] at ha
        cases ha
        obtain ⟨r1, hr1, _⟩ := vpos p.1
        obtain ⟨r2, hr2, _⟩ := vpos k
        have := hC.valMono p.1 k r1 r2 (min_le_max_index _ hcp _ _ (by simp) hk) hr1 hr2
        rw [hr1, hr2]; exact le_fin _ _ this
  | cons pn restn =>
    subst hcn'
    simp only [Content.isEmpty, List.isEmpty_cons, Bool.not_false, if_true] at ha
    obtain ⟨kn, hkn⟩ := Content.maxIndex?_isSome (pn :: restn) (by simp)
    rw [hkn] at ha
    cases ha
    obtain ⟨rn, hrn, hrn0⟩ := vpos kn
    rw [hrn]
    cases hcp' : cp with
    | cons p rest =>
      subst hcp'
      simp only [Content.isEmpty, List.isEmpty_cons, Bool.not_false, if_true] at hb
      obtain ⟨k, hk⟩ := Content.maxIndex?_isSome (p :: rest) (by simp)
      rw [hk] at hb
      cases hb
      obtain ⟨r, hr, hr0⟩ := vpos k
      rw [hr]; exact le_fin _ _ (by linarith)
    | nil =>
      subst hcp'
      simp only [Content.isEmpty, List.isEmpty_nil, Bool.not_true, Bool.false_eq_true,
        if_false] at hb
      by_cases hz0 : 0 < zq
      · simp only [hz0, decide_true, if_true] at hb
        cases hb
        exact le_fin _ _ (by linarith)
      · simp only [hz0, decide_false, Bool.false_eq_true, if_false, Content.minIndex?_cons] at hb
        cases hb
        obtain ⟨r1, hr1, _⟩ := vpos pn.1
        have := hC.valMono pn.1 kn r1 rn (min_le_max_index _ hcn _ _ (by simp) hkn) hr1 hrn
        rw [hr1]; exact le_fin _ _ (by linarith)

/-! ### monotonicity of `GetValueAtQuantile` in the quantile

The float pipeline `q ↦ rank ↦ (branch, key) ↦ value` is monotone step by step: rounding is monotone
(`F64.rv_mono`), `KeyAtRank` is monotone (`Content.keyAtRank_mono`), representative values are
monotone (`Contract.valMono`).  Infinite intermediate results (possible in principle in the two
subtractions) are handled through the extended order `leX`; no hypothesis excludes them. -/

open F64 in
/-- the order `−inf ≤ finite ≤ +inf` on the non-NaN floats -/
def leX : F64 → F64 → Prop
  | .ninf, .ninf => True
  | .ninf, .fin _ => True
  | .ninf, .pinf => True
  | .fin a, .fin b => a ≤ b
  | .fin _, .pinf => True
  | .pinf, .pinf => True
  | _, _ => False

theorem round_cases (x : Rat) :
    (F64.roundF64 x = .pinf ∧ pow2 1024 ≤ F64.rv x) ∨
    (F64.roundF64 x = .ninf ∧ F64.rv x ≤ -pow2 1024) ∨
    (F64.roundF64 x = .fin (F64.rv x) ∧ -pow2 1024 < F64.rv x ∧ F64.rv x < pow2 1024) := by
  rw [F64.roundF64_eq]
  split_ifs with h1 h2
  · exact Or.inl ⟨rfl, h1⟩
  · exact Or.inr (Or.inl ⟨rfl, h2⟩)
  · exact Or.inr (Or.inr ⟨rfl, not_le.mp h2, not_le.mp h1⟩)

theorem roundF64_leX {x y : Rat} (h : x ≤ y) : leX (F64.roundF64 x) (F64.roundF64 y) := by
  have := F64.rv_mono h
  have hp := pow2_pos 1024
  rcases round_cases x with ⟨hx, bx⟩ | ⟨hx, bx⟩ | ⟨hx, bx, bx'⟩ <;>
  rcases round_cases y with ⟨hy, bY⟩ | ⟨hy, bY⟩ | ⟨hy, bY, bY'⟩ <;>
  rw [hx, hy] <;> simp only [leX] <;> first | exact True.intro | linarith

theorem leX_round_pinf (x : Rat) : leX (F64.roundF64 x) .pinf := by
  rcases round_cases x with ⟨hx, _⟩ | ⟨hx, _⟩ | ⟨hx, _⟩ <;> rw [hx] <;> exact True.intro

theorem ninf_leX_round (x : Rat) : leX .ninf (F64.roundF64 x) := by
  rcases round_cases x with ⟨hx, _⟩ | ⟨hx, _⟩ | ⟨hx, _⟩ <;> rw [hx] <;> exact True.intro

theorem sub_fin_fin (a b : Rat) : F64.sub (.fin a) (.fin b) = F64.roundF64 (a - b) := by
  show F64.roundF64 (a + -b) = _
  rw [sub_eq_add_neg]

theorem sub_leX_left {x y : F64} (g : Rat) (h : leX x y) :
    leX (F64.sub x (.fin g)) (F64.sub y (.fin g)) := by
  cases x with
  | fin a =>
    cases y with
    | fin b => rw [sub_fin_fin, sub_fin_fin]; exact roundF64_leX (by simp only [leX] at h; linarith)
    | pinf => rw [sub_fin_fin]; exact leX_round_pinf _
    | ninf => exact h.elim
    | nan => exact h.elim
  | ninf =>
    cases y with
    | fin b => rw [sub_fin_fin]; exact ninf_leX_round _
    | pinf => trivial
    | ninf => trivial
    | nan => exact h.elim
  | pinf =>
    cases y with
    | pinf => trivial
    | fin b => exact h.elim
    | ninf => exact h.elim
    | nan => exact h.elim
  | nan => cases y <;> exact h.elim

theorem sub_leX_right (t : Rat) {a b : Rat} (h : a ≤ b) :
    leX (F64.sub (F64.roundF64 t) (.fin b)) (F64.sub (F64.roundF64 t) (.fin a)) := by
  rcases round_cases t with ⟨ht, _⟩ | ⟨ht, _⟩ | ⟨ht, _⟩ <;> rw [ht]
  · exact True.intro
  · exact True.intro
  · rw [sub_fin_fin, sub_fin_fin]; exact roundF64_leX (by linarith)

theorem keyAtRank_neg (c : Content) (r : Rat) (hr : r < 0) : c.keyAtRank r = c.keyAtRank 0 := by
  unfold Content.keyAtRank
  rw [if_pos hr, if_neg (lt_irrefl 0)]

theorem keyAtRank_le_max (c : Content) (hc : c.WF) (r : Rat) :
    c.keyAtRank r ≤ (c.maxIndex?).getD 0 := by
  cases hcc : c with
  | nil => exact le_refl _
  | cons p rest =>
    rw [← hcc]
    have hne : c ≠ [] := by rw [hcc]; simp
    obtain ⟨k, hk⟩ := Content.maxIndex?_isSome c hne
    obtain ⟨w, hw⟩ := Content.keyAtRank_mem c r hne
    rw [hk]
    exact Content.le_maxIndex c hc k hk _ hw

theorem skar_mono (c : Content) (hc : c.WF) {x y : F64} (h : leX x y) :
    Sketch.storeKeyAtRank (.sp c) x ≤ Sketch.storeKeyAtRank (.sp c) y := by
  have e1 : ∀ r, Sketch.storeKeyAtRank (.sp c) (.fin r) = c.keyAtRank r :=
    fun r => Store.sp_keyAtRank c hc r
  have e2 : Sketch.storeKeyAtRank (.sp c) .ninf = c.keyAtRank 0 := Store.sp_keyAtRank c hc 0
  have e3 : Sketch.storeKeyAtRank (.sp c) .pinf = (c.maxIndex?).getD 0 := rfl
  have h0 : ∀ r, c.keyAtRank 0 ≤ c.keyAtRank r := by
    intro r
    by_cases hr : r < 0
    · rw [keyAtRank_neg c r hr]
    · exact Content.keyAtRank_mono c hc 0 r (not_lt.mp hr)
  cases x with
  | fin a =>
    cases y with
    | fin b => rw [e1, e1]; exact Content.keyAtRank_mono c hc a b h
    | pinf => rw [e1, e3]; exact keyAtRank_le_max c hc a
    | ninf => exact h.elim
    | nan => exact h.elim
  | ninf =>
    cases y with
    | fin b => rw [e2, e1]; exact h0 b
    | pinf => rw [e2, e3]; exact keyAtRank_le_max c hc 0
    | ninf => exact le_refl _
    | nan => exact h.elim
  | pinf =>
    cases y with
    | pinf => exact le_refl _
    | fin b => exact h.elim
    | ninf => exact h.elim
    | nan => exact h.elim
  | nan => cases y <;> exact h.elim

theorem le_fin (x y : Rat) (hxy : x ≤ y) : F64.le (.fin x) (.fin y) = true := by
  simp only [F64.le, F64.lt, F64.eq, Bool.or_eq_true, decide_eq_true_eq, beq_iff_eq]
  exact lt_or_eq_of_le hxy

theorem lt_fin_mono {a b : Rat} (h : a ≤ b) (Z : F64) (hb : F64.lt (.fin b) Z = true) :
    F64.lt (.fin a) Z = true := by
  cases Z with
  | fin z => simp only [F64.lt, decide_eq_true_eq] at hb ⊢; linarith
  | pinf => rfl
  | ninf => exact hb
  | nan => exact hb

/-- the value `GetValueAtQuantile` returns on a spec sketch once the rank `ρ` is known -/
def res (env : MapEnv) (cp cn : Content) (zq : Rat) (ρ : Rat) : F64 :=
  if F64.lt (.fin ρ) (.fin cn.total) then
    F64.neg (env.value (Sketch.storeKeyAtRank (.sp cn)
      (F64.sub (F64.sub (.fin cn.total) F64.one) (.fin ρ))))
  else if F64.lt (.fin ρ) (F64.add (.fin zq) (.fin cn.total)) then .fin 0
  else env.value (Sketch.storeKeyAtRank (.sp cp) (F64.sub (F64.sub (.fin ρ) (.fin zq)) (.fin cn.total)))

theorem quantile_eq_res (env : MapEnv) (m : Option MapId) (cp cn : Content) (zq : Rat) (q : F64)
    (hq : (F64.le (.fin 0) q && F64.le q (.fin 1)) = true)
    (hne : F64.eq (Sketch.spec m cp cn (.fin zq)).getCount (.fin 0) = false)
    (ρ : Rat) (hρ : (Sketch.spec m cp cn (.fin zq)).qrank q = .fin ρ) :
    (Sketch.spec m cp cn (.fin zq)).quantile env q = .ok (res env cp cn zq ρ) := by
  rw [Sketch.quantile_unfold, hρ, hq, hne]
  simp only [Bool.not_true, Bool.false_eq_true, if_false]
  unfold res
  have e1 : (Sketch.spec m cp cn (.fin zq)).negTotal = .fin cn.total := rfl
  have e2 : (Sketch.spec m cp cn (.fin zq)).zero = .fin zq := rfl
  have e3 : (Sketch.spec m cp cn (.fin zq)).neg = .sp cn := rfl
  have e4 : (Sketch.spec m cp cn (.fin zq)).pos = .sp cp := rfl
  rw [e1, e2, e3, e4]
  split
  · rfl
  · split <;> rfl

theorem res_mono (env : MapEnv) (α mn mx : Rat) (hC : Contract env α mn mx)
    (cp cn : Content) (hcp : cp.WF) (hcn : cn.WF) (zq : Rat) (ρ₁ ρ₂ : Rat) (h : ρ₁ ≤ ρ₂) :
    F64.le (res env cp cn zq ρ₁) (res env cp cn zq ρ₂) = true := by
  have vpos := hC.valFin
  unfold res
  have g1 : F64.sub (.fin cn.total) F64.one = F64.roundF64 (cn.total - 1) := sub_fin_fin _ _
  by_cases hb2 : F64.lt (.fin ρ₂) (.fin cn.total) = true
  · -- both in the negative store
    have hb1 := lt_fin_mono h _ hb2
    rw [if_pos hb1, if_pos hb2, g1]
    have hk := skar_mono cn hcn (sub_leX_right (cn.total - 1) h)
    obtain ⟨r1, hr1, _⟩ := vpos (Sketch.storeKeyAtRank (.sp cn) (F64.sub (F64.roundF64 (cn.total - 1)) (.fin ρ₁)))
    obtain ⟨r2, hr2, _⟩ := vpos (Sketch.storeKeyAtRank (.sp cn) (F64.sub (F64.roundF64 (cn.total - 1)) (.fin ρ₂)))
    have := hC.valMono _ _ r2 r1 hk hr2 hr1
    rw [hr1, hr2]
    exact le_fin _ _ (by linarith)
  · rw [if_neg hb2]
    by_cases hb1 : F64.lt (.fin ρ₁) (.fin cn.total) = true
    · -- negative value vs zero or positive value
      rw [if_pos hb1]
      obtain ⟨r1, hr1, hr10⟩ := vpos (Sketch.storeKeyAtRank (.sp cn) (F64.sub (F64.sub (.fin cn.total) F64.one) (.fin ρ₁)))
      rw [hr1]
      split
      · exact le_fin _ _ (by linarith)
      · obtain ⟨r2, hr2, hr20⟩ := vpos (Sketch.storeKeyAtRank (.sp cp) (F64.sub (F64.sub (.fin ρ₂) (.fin zq)) (.fin cn.total)))
        rw [hr2]
        exact le_fin _ _ (by linarith)
    · rw [if_neg hb1]
      by_cases hz2 : F64.lt (.fin ρ₂) (F64.add (.fin zq) (.fin cn.total)) = true
      · have hz1 := lt_fin_mono h _ hz2
        rw [if_pos hz1, if_pos hz2]
        exact le_fin 0 0 le_rfl
      · rw [if_neg hz2]
        obtain ⟨r2, hr2, hr20⟩ := vpos (Sketch.storeKeyAtRank (.sp cp) (F64.sub (F64.sub (.fin ρ₂) (.fin zq)) (.fin cn.total)))
        by_cases hz1 : F64.lt (.fin ρ₁) (F64.add (.fin zq) (.fin cn.total)) = true
        · rw [if_pos hz1, hr2]
          exact le_fin _ _ hr20.le
        · rw [if_neg hz1]
          have hk := skar_mono cp hcp (sub_leX_left cn.total
            (show leX (F64.sub (.fin ρ₁) (.fin zq)) (F64.sub (.fin ρ₂) (.fin zq)) by
              rw [sub_fin_fin, sub_fin_fin]; exact roundF64_leX (by linarith)))
          obtain ⟨r1, hr1, _⟩ := vpos (Sketch.storeKeyAtRank (.sp cp) (F64.sub (F64.sub (.fin ρ₁) (.fin zq)) (.fin cn.total)))
          have := hC.valMono _ _ r1 r2 hk hr1 hr2
          rw [hr1, hr2]
          exact le_fin _ _ this

/-- a finite float sum is representable and in range -/
theorem fin_of_add_eq_fin (a : F64) (g n : Rat) (h : F64.add a (.fin g) = .fin n) :
    F64.rv n = n ∧ -pow2 1024 < n ∧ n < pow2 1024 := by
  cases a with
  | fin t =>
    have h' : F64.roundF64 (t + g) = .fin n := h
    obtain ⟨e, b1, b2⟩ := F64.roundF64_fin_iff.mp h'
    rw [e, F64.rv_idem]
    exact ⟨rfl, b1, b2⟩
  | pinf => cases h
  | ninf => cases h
  | nan => cases h

/-- the rank of a valid quantile, under exact counting: `max 0 (round (q · round (N − 1)))` -/
theorem qrank_spec (m : Option MapId) (cp cn : Content) (zq : Rat)
    (hcp : cp.WF) (hcn : cn.WF) (hz : 0 ≤ zq)
    (hx : F64.add (F64.add (.fin zq) (.fin cp.total)) (.fin cn.total) =
      .fin (zq + cp.total + cn.total)) (r : Rat) (hr0 : 0 ≤ r) (hr1 : r ≤ 1) :
    (Sketch.spec m cp cn (.fin zq)).qrank (.fin r) =
      .fin (max 0 (F64.rv (r * F64.rv (zq + cp.total + cn.total - 1)))) := by
  have hP := Content.total_nonneg cp hcp.2
  have hG := Content.total_nonneg cn hcn.2
  obtain ⟨hN, hNlo, hNhi⟩ := fin_of_add_eq_fin _ _ _ hx
  generalize hNdef : zq + cp.total + cn.total = N at *
  have hN0 : 0 ≤ N := by rw [← hNdef]; linarith
  have hp := pow2_pos 1024
  -- `count - 1` is finite
  have hc1lo : -1 ≤ F64.rv (N - 1) := by
    have := F64.rv_mono (show (-1 : Rat) ≤ N - 1 by linarith)
    have e : F64.rv (-1 : Rat) = -1 := by
      have := F64.rv_int (-1) (by norm_num)
      simpa using this
    rw [e] at this; exact this
  have hc1hi : F64.rv (N - 1) ≤ N := by
    have := F64.rv_mono (show N - 1 ≤ N by linarith)
    rw [hN] at this; exact this
  have h2 : (1 : Rat) < pow2 1024 := by
    have := pow2_strictMono (show (0 : Int) < 1024 by norm_num)
    rw [pow2_zero] at this; exact this
  have hsub : F64.sub (.fin N) F64.one = .fin (F64.rv (N - 1)) := by
    show F64.sub (.fin N) (.fin 1) = _
    rw [sub_fin_fin]
    exact F64.roundF64_of_bounds (by linarith) (by linarith)
  generalize hc1 : F64.rv (N - 1) = c1 at *
  have hc1rep : F64.rv c1 = c1 := by rw [← hc1, F64.rv_idem]
  -- the product is finite
  have hprod : F64.mul (.fin r) (.fin c1) = .fin (F64.rv (r * c1)) := by
    show F64.roundF64 (r * c1) = _
    apply F64.roundF64_of_bounds
    · by_cases hc : 0 ≤ c1
      · have := F64.rv_nonneg (mul_nonneg hr0 hc); linarith
      · have hc' : c1 ≤ 0 := le_of_lt (not_le.mp hc)
        have := F64.rv_mono (show c1 ≤ r * c1 by nlinarith)
        rw [hc1rep] at this; linarith
    · by_cases hc : 0 ≤ c1
      · have := F64.rv_mono (show r * c1 ≤ c1 by nlinarith)
        rw [hc1rep] at this; linarith
      · have hc' : c1 ≤ 0 := le_of_lt (not_le.mp hc)
        have := F64.rv_nonpos (show r * c1 ≤ 0 by nlinarith); linarith
  unfold Sketch.qrank
  rw [count_eq_total m cp cn zq (by rw [hNdef]; exact hx), hNdef, hsub, hprod]
  simp only [F64.lt]
  by_cases hneg : F64.rv (r * c1) < 0
  · simp [hneg, max_eq_left hneg.le]
  · simp [hneg, max_eq_right (not_lt.mp hneg)]

/-- the rank is monotone in the quantile -/
theorem rank_mono (c1 : Rat) (r₁ r₂ : Rat) (h0 : 0 ≤ r₁) (h : r₁ ≤ r₂) :
    max 0 (F64.rv (r₁ * c1)) ≤ max 0 (F64.rv (r₂ * c1)) := by
  by_cases hc : 0 ≤ c1
  · exact max_le_max le_rfl (F64.rv_mono (by nlinarith))
  · have hc' : c1 ≤ 0 := le_of_lt (not_le.mp hc)
    have h1 := F64.rv_nonpos (show r₁ * c1 ≤ 0 by nlinarith)
    rw [max_eq_left h1]
    exact le_max_left _ _

/-- **Quantiles are monotone**: on a spec sketch with exact counting, under the mapping contract,
    `q₁ ≤ q₂` implies `GetValueAtQuantile(q₁) ≤ GetValueAtQuantile(q₂)` — in float arithmetic,
    including the rounding of the rank and of the two subtractions. -/
theorem quantile_mono (env : MapEnv) (α mn mx : Rat) (hC : Contract env α mn mx)
    (m : Option MapId) (cp cn : Content) (zq : Rat) (hcp : cp.WF) (hcn : cn.WF) (hz : 0 ≤ zq)
    (hx : F64.add (F64.add (.fin zq) (.fin cp.total)) (.fin cn.total) =
      .fin (zq + cp.total + cn.total))
    (q₁ q₂ a b : F64) (hq : F64.le q₁ q₂ = true)
    (h1 : (Sketch.spec m cp cn (.fin zq)).quantile env q₁ = .ok a)
    (h2 : (Sketch.spec m cp cn (.fin zq)).quantile env q₂ = .ok b) : F64.le a b = true := by
  -- both quantiles are valid, the sketch is not empty
  have hv : ∀ q v, (Sketch.spec m cp cn (.fin zq)).quantile env q = .ok v →
      (F64.le (.fin 0) q && F64.le q (.fin 1)) = true := by
    intro q v hqv
    by_contra hc
    rw [C13.quantile_rejects env _ q (by simpa using hc)] at hqv
    cases hqv
  have hv1 := hv q₁ a h1
  have hv2 := hv q₂ b h2
  have hne : F64.eq (Sketch.spec m cp cn (.fin zq)).getCount (.fin 0) = false := by
    by_contra hc
    have hc' : F64.eq (Sketch.spec m cp cn (.fin zq)).getCount (.fin 0) = true := by simpa using hc
    rw [Sketch.quantile_unfold, hv1, hc'] at h1
    simp at h1
  obtain ⟨r1, rfl, h10, h11⟩ := (C13.quantile_valid_iff q₁).1 hv1
  obtain ⟨r2, rfl, h20, h21⟩ := (C13.quantile_valid_iff q₂).1 hv2
  have hr : r1 ≤ r2 := by
    simp only [F64.le, F64.lt, F64.eq, Bool.or_eq_true, decide_eq_true_eq, beq_iff_eq] at hq
    rcases hq with hq | hq
    · exact hq.le
    · exact hq.le
  have e1 := qrank_spec m cp cn zq hcp hcn hz hx r1 h10 h11
  have e2 := qrank_spec m cp cn zq hcp hcn hz hx r2 h20 h21
  rw [quantile_eq_res env m cp cn zq _ hv1 hne _ e1] at h1
  rw [quantile_eq_res env m cp cn zq _ hv2 hne _ e2] at h2
  cases h1
  cases h2
  exact res_mono env α mn mx hC cp cn hcp hcn zq _ _ (rank_mono _ r1 r2 h10 hr)

/-- the same for any sketch refining the contents (any store kinds), when the positive store is not
    consulted while empty (`Sketch.usesPos`, see `DDS.Proofs.SketchObs`) -/
theorem quantile_mono_refines (env : MapEnv) (α mn mx : Rat) (hC : Contract env α mn mx)
    (s : Sketch) (cp cn : Content) (zq : Rat) (hs : s.Refines cp cn) (hzero : s.zero = .fin zq)
    (hz : 0 ≤ zq)
    (hx : F64.add (F64.add (.fin zq) (.fin cp.total)) (.fin cn.total) =
      .fin (zq + cp.total + cn.total))
    (q₁ q₂ a b : F64) (hq : F64.le q₁ q₂ = true)
    (hp : cp = [] → s.usesPos q₁ = false ∧ s.usesPos q₂ = false)
    (h1 : s.quantile env q₁ = .ok a) (h2 : s.quantile env q₂ = .ok b) : F64.le a b = true := by
  rw [Sketch.quantile_congr' env hs q₁ (fun hc => (hp hc).1), hzero] at h1
  rw [Sketch.quantile_congr' env hs q₂ (fun hc => (hp hc).2), hzero] at h2
  exact quantile_mono env α mn mx hC s.mapping cp cn zq hs.pos.wf hs.neg.wf hz hx q₁ q₂ a b hq h1 h2

/-! ### discharging the guard of `Sketch.quantile_congr` under exact counting -/

/-- with exact counting and `count - 1 ≠ count` (true below `2^53`), a valid quantile of a sketch
    without positive values never consults the positive store -/
theorem usesPos_false_of_exact (m : Option MapId) (cp cn : Content) (zq : Rat)
    (hcp : cp.WF) (hcn : cn.WF) (hz : 0 ≤ zq)
    (hx : F64.add (F64.add (.fin zq) (.fin cp.total)) (.fin cn.total) =
      .fin (zq + cp.total + cn.total))
    (hcp0 : cp = []) (hN0 : zq + cp.total + cn.total ≠ 0)
    (hpred : F64.sub (.fin (zq + cp.total + cn.total)) F64.one ≠ .fin (zq + cp.total + cn.total))
    (r : Rat) (hr0 : 0 ≤ r) (hr1 : r ≤ 1) :
    (Sketch.spec m cp cn (.fin zq)).usesPos (.fin r) = false := by
  have hrank := qrank_spec m cp cn zq hcp hcn hz hx r hr0 hr1
  have hG := Content.total_nonneg cn hcn.2
  obtain ⟨hN, hNlo, hNhi⟩ := fin_of_add_eq_fin _ _ _ hx
  have hP : cp.total = 0 := by rw [hcp0]; rfl
  generalize hNdef : zq + cp.total + cn.total = N at *
  have hNpos : 0 < N := lt_of_le_of_ne (by rw [← hNdef]; linarith) (Ne.symm hN0)
  have hp := pow2_pos 1024
  have h2 : (1 : Rat) < pow2 1024 := by
    have := pow2_strictMono (show (0 : Int) < 1024 by norm_num)
    rw [pow2_zero] at this; exact this
  have hc1lo : -1 ≤ F64.rv (N - 1) := by
    have := F64.rv_mono (show (-1 : Rat) ≤ N - 1 by linarith)
    have e : F64.rv (-1 : Rat) = -1 := by
      have := F64.rv_int (-1) (by norm_num)
      simpa using this
    rw [e] at this; exact this
  have hc1hi : F64.rv (N - 1) ≤ N := by
    have := F64.rv_mono (show N - 1 ≤ N by linarith)
    rw [hN] at this; exact this
  have hsub : F64.sub (.fin N) F64.one = .fin (F64.rv (N - 1)) := by
    show F64.sub (.fin N) (.fin 1) = _
    rw [sub_fin_fin]
    exact F64.roundF64_of_bounds (by linarith) (by linarith)
  have hc1lt : F64.rv (N - 1) < N := by
    apply lt_of_le_of_ne hc1hi
    intro he
    rw [hsub, he] at hpred
    exact hpred rfl
  generalize hc1 : F64.rv (N - 1) = c1 at *
  have hc1rep : F64.rv c1 = c1 := by rw [← hc1, F64.rv_idem]
  have hρ : max 0 (F64.rv (r * c1)) < N := by
    apply max_lt hNpos
    by_cases hc : 0 ≤ c1
    · have := F64.rv_mono (show r * c1 ≤ c1 by nlinarith)
      rw [hc1rep] at this; linarith
    · have hc' : c1 ≤ 0 := le_of_lt (not_le.mp hc)
      have := F64.rv_nonpos (show r * c1 ≤ 0 by nlinarith); linarith
  have hZ : F64.add (.fin zq) (.fin cn.total) = .fin N := by
    show F64.roundF64 (zq + cn.total) = _
    have : zq + cn.total = N := by rw [← hNdef, hP]; ring
    rw [this]
    have := F64.roundF64_of_bounds (x := N) (by rw [hN]; exact hNlo) (by rw [hN]; exact hNhi)
    rw [this, hN]
  unfold Sketch.usesPos
  rw [hrank]
  have e1 : (Sketch.spec m cp cn (.fin zq)).negTotal = .fin cn.total := rfl
  have e2 : (Sketch.spec m cp cn (.fin zq)).zero = .fin zq := rfl
  rw [e1, e2, hZ]
  have : F64.lt (.fin (max 0 (F64.rv (r * c1)))) (.fin N) = true := by
    simp only [F64.lt, decide_eq_true_eq]; exact hρ
  rw [this]
  simp

/-- observational congruence of `GetValueAtQuantile` for ANY store kinds under exact counting:
    the guard of `Sketch.quantile_congr` is discharged either by a non-empty positive content or by
    `count - 1 ≠ count` -/
theorem quantile_congr_exact (env : MapEnv) (s : Sketch) (cp cn : Content) (zq : Rat)
    (hs : s.Refines cp cn) (hzero : s.zero = .fin zq) (hz : 0 ≤ zq)
    (hx : F64.add (F64.add (.fin zq) (.fin cp.total)) (.fin cn.total) =
      .fin (zq + cp.total + cn.total))
    (hpred : F64.sub (.fin (zq + cp.total + cn.total)) F64.one ≠ .fin (zq + cp.total + cn.total))
    (q : F64) :
    s.quantile env q = (Sketch.spec s.mapping cp cn s.zero).quantile env q := by
  apply Sketch.quantile_congr env hs q
  intro hcp0 hv hne
  rw [Sketch.usesPos_congr hs q, hzero]
  obtain ⟨r, rfl, hr0, hr1⟩ := (C13.quantile_valid_iff q).1 hv
  apply usesPos_false_of_exact s.mapping cp cn zq hs.pos.wf hs.neg.wf hz hx hcp0 _ hpred r hr0 hr1
  intro hN
  rw [Sketch.getCount_congr hs, hzero, count_eq_total s.mapping cp cn zq hx, hN] at hne
  simp [F64.eq] at hne

/-! ### the hypotheses are satisfiable -/

/-- a toy environment meeting the contract: one bin `(9/10, 11/10]` around 1, accuracy `1/2`;
    representative of index `i` is `max i 0 + 1` -/
def envC : MapEnv :=
  { id := { kind := .log, gamma := .fin 2, indexOffset := .fin 0 }
    minIndexable := .fin (9 / 10)
    maxIndexable := .fin (11 / 10)
    relAcc := .fin (1 / 2)
    value := fun i => .fin ((i.toNat : Rat) + 1)
    lowerBound := fun i => .fin (i.toNat : Rat)
    index := fun _ => 0 }

theorem envC_contract : Contract envC (1 / 2) (9 / 10) (11 / 10) where
  minEq := rfl
  maxEq := rfl
  minPos := by norm_num
  minLeMax := by norm_num
  alphaPos := by norm_num
  alphaLt := by norm_num
  valFin := fun i => ⟨_, rfl, by positivity⟩
  valMono := by
    intro i j ri rj hij hi hj
    have hi' : ((i.toNat : Rat) + 1) = ri := F64.fin.inj hi
    have hj' : ((j.toNat : Rat) + 1) = rj := F64.fin.inj hj
    rw [← hi', ← hj']
    have : i.toNat ≤ j.toNat := Int.toNat_le_toNat hij
    have : (i.toNat : Rat) ≤ (j.toNat : Rat) := by exact_mod_cast this
    linarith
  idxMono := fun _ _ _ _ _ => le_refl _
  acc := by
    intro v r h1 h2 hr
    have hr' : ((0 : Rat) + 1) = r := F64.fin.inj hr
    rw [← hr']
    unfold rabs
    split <;> linarith

def skC : Sketch := Sketch.spec (some envC.id) [(0, 2), (3, 1)] [(1, 1)] (.fin 1)

example : ∃ a b, skC.quantile envC (.fin (1 / 4)) = .ok a ∧ skC.quantile envC (.fin (3 / 4)) = .ok b ∧
    F64.le a b = true := by
  have hx : F64.add (F64.add (.fin 1) (.fin (Content.total [(0, 2), (3, 1)])))
      (.fin (Content.total [(1, 1)])) =
      .fin (1 + Content.total [(0, 2), (3, 1)] + Content.total [(1, 1)]) := by decide +kernel
  have hne : F64.eq skC.getCount (.fin 0) = false := by decide +kernel
  obtain ⟨a, ha⟩ := C13.quantile_ok envC skC (.fin (1 / 4)) (by decide +kernel) hne
  obtain ⟨b, hb⟩ := C13.quantile_ok envC skC (.fin (3 / 4)) (by decide +kernel) hne
  refine ⟨a, b, ha, hb, ?_⟩
  exact quantile_mono envC _ _ _ envC_contract (some envC.id) [(0, 2), (3, 1)] [(1, 1)] 1
    ((Content.wf_cons _ _).2 ⟨by norm_num, by simp,
      (Content.wf_cons _ _).2 ⟨by norm_num, by simp, Content.wf_nil⟩⟩)
    ((Content.wf_cons _ _).2 ⟨by norm_num, by simp, Content.wf_nil⟩)
    (by norm_num) hx _ _ a b (by decide +kernel) ha hb

example : ∃ a b, skC.getMin envC = .ok a ∧ skC.getMax envC = .ok b ∧ F64.le a b = true := by
  refine ⟨_, _, rfl, rfl, ?_⟩
  exact min_le_max envC _ _ _ envC_contract (some envC.id) [(0, 2), (3, 1)] [(1, 1)] 1
    ((Content.wf_cons _ _).2 ⟨by norm_num, by simp,
      (Content.wf_cons _ _).2 ⟨by norm_num, by simp, Content.wf_nil⟩⟩)
    ((Content.wf_cons _ _).2 ⟨by norm_num, by simp, Content.wf_nil⟩) _ _ rfl rfl

end DDS.Props.C12
