/-
  DDS.Props.C09 — the protobuf forms of a sketch.

  * wire primitives round-trip (`varint`, `fixed64`, length-delimited fields, `sint32`);
  * the bytes of the allocation-free streaming writer (`EncodeProto`,
    `ddsketch.proto_builder.go`) parse — with a parser written from the protobuf encoding rules —
    to the very message `ToProto` builds in memory, for the mapping, for one `binCounts` entry,
    for every store kind (sparse, paginated, dense) and for the whole sketch.  The theorems with
    `_exact` in their name state equality of the parsed message with the in-memory one field for
    field; the `norm`-ed statements (what `proto.Equal` compares) are corollaries;
  * `FromProto` of the message of a spec sketch rebuilds it bit for bit;
  * sparse and contiguous bins of one `Store` message add up in `MergeWithProto`.

  Proofs are in `DDS.Proofs.Proto`.
-/
import DDS.Proofs.Proto
import DDS.Proofs.SketchDefs
import DDS.Props.C04Pag

namespace DDS.Props.C09
open DDS DDS.Proto

/-! ### wire primitives -/

theorem varint_roundtrip (v : Nat) (hv : v < 2 ^ 64) (rest : Bytes) :
    rdVarint (varint v ++ rest) = .ok (v, rest) :=
  rdVarint_varint v hv rest

example : rdVarint (varint 300 ++ [7, 9]) = .ok (300, [7, 9]) :=
  varint_roundtrip 300 (by decide) [7, 9]
example : varint 300 = [172, 2] := by decide
example : rdVarint (varint (2 ^ 64 - 1) ++ [1]) = .ok (2 ^ 64 - 1, [1]) :=
  varint_roundtrip _ (by decide) [1]
example : (varint (2 ^ 64 - 1)).length = 10 := by decide

theorem fixed64_roundtrip (b : Nat) (hb : b < 2 ^ 64) (rest : Bytes) :
    rdFixed64 (fixed64 b ++ rest) = .ok (b, rest) :=
  rdFixed64_fixed64 b hb rest

example : rdFixed64 (fixed64 0x3ff8000000000000 ++ [1]) = .ok (0x3ff8000000000000, [1]) :=
  fixed64_roundtrip _ (by decide) _

/-- a length-delimited field (wire type 2) is read back with its payload, the tail untouched -/
theorem lenDelim_roundtrip (tag : Nat) (payload rest : Bytes) (ht : tag < 2 ^ 64)
    (ht2 : tag % 8 = 2) (hl : payload.length < 2 ^ 64) :
    rdField (lenDelim tag payload ++ rest) = .ok (.bytes (tag / 8) payload, rest) :=
  (fieldEnc_lenDelim tag payload ht ht2 hl).rd rest

example : rdField (lenDelim 0x1a [1, 2, 3] ++ [9]) = .ok (.bytes 3 [1, 2, 3], [9]) :=
  lenDelim_roundtrip 0x1a [1, 2, 3] [9] (by decide) (by decide) (by decide)

theorem sint32_roundtrip (k : Int) (hk : -(2:Int)^31 ≤ k ∧ k < (2:Int)^31) :
    unzz32 (pbZigzag k) = k :=
  unzz32_pbZigzag k hk

example : pbZigzag (-3) = 5 ∧ unzz32 5 = -3 := by decide
example : unzz32 (pbZigzag (-2147483648)) = -2147483648 := sint32_roundtrip _ (by decide)

/-- Outside the int32 range the `sint32` field does NOT round-trip (the model's writer, like
    `protowire.EncodeZigZag(int64(v))`, emits all 64 bits; a `sint32` reader truncates): this is
    why the index hypotheses below are needed. -/
example : unzz32 (pbZigzag (2 ^ 31)) = -2147483648 := by decide

/-! ### the mapping and one entry -/

/-- no hypothesis: the parameters travel as bit patterns -/
theorem parseMapping_stream (m : MapId) :
    parseMapping {} (streamMapping m) = .ok (mappingToProto m) :=
  parseMapping_streamMapping m

/-- payload of `streamEntry k v` (`streamEntry k v = lenDelim 0xa (entryPayload k v)`) -/
theorem parseEntry_stream (k : Int) (v : Nat) (hk : I32 k) (hv : v < 2 ^ 64) :
    streamEntry k v = lenDelim 0xa (entryPayload k v) ∧
    parseEntry (entryPayload k v) = .ok (k, v) :=
  ⟨rfl, parseEntry_entryPayload k v hk hv⟩

example : parseEntry (entryPayload (-7) 0x3ff0000000000000) = .ok (-7, 0x3ff0000000000000) :=
  (parseEntry_stream (-7) _ (by decide) (by decide)).2

/-! ### stores -/

/-- The heart of C09, exact form: for every store kind the bytes of `EncodeProto` parse to the
    message of `ToProto`, field for field.  `StoreKeys32 st`: the indexes written fit `sint32`
    (sparse / paginated: every bin index; dense: `minIndex`, the only index that travels). -/
theorem parseStore_stream_exact (st : Store) (hst : StoreKeys32 st) :
    ∀ pb bs, storeToProto st = some pb → streamStore st = some bs →
      parseStore {} bs = .ok pb :=
  fun pb bs => parseStore_streamStore st hst pb bs

/-- as compared by `proto.Equal` (map semantics of `binCounts`) -/
theorem parseStore_stream (st : Store) (hst : StoreKeys32 st) :
    ∀ pb bs, storeToProto st = some pb → streamStore st = some bs →
      (parseStore {} bs).map (fun p => normStore (some p)) = .ok (normStore (some pb)) := by
  intro pb bs h1 h2
  rw [parseStore_stream_exact st hst pb bs h1 h2]; rfl

/-- a sparse store with three bins -/
def sp3 : Store := .sp [(-2, 1), (0, 5 / 2), (7, 3)]

theorem sp3_keys : StoreKeys32 sp3 := by
  show ∀ p ∈ ([(-2, 1), (0, 5 / 2), (7, 3)] : Content), I32 p.1
  decide

/-- a dense store with three bins at indexes 10, 11, 12 -/
def d3 : Store :=
  .d { kind := .plain, bins := #[1, 2, 3], count := 6, offset := 10, minIndex := 10, maxIndex := 12,
       isCollapsed := false }

theorem d3_keys : StoreKeys32 d3 := fun _ => by decide

theorem d3_toProto : storeToProto d3 =
    some { contiguous := [ratBits 1, ratBits 2, ratBits 3], contiguousOffset := 10 } := by
  decide +kernel

theorem d3_stream_some : (streamStore d3).isSome = true := by decide +kernel

example : ∃ bs, streamStore d3 = some bs ∧ parseStore {} bs =
    .ok { contiguous := [ratBits 1, ratBits 2, ratBits 3], contiguousOffset := 10 } := by
  obtain ⟨bs, hbs⟩ := Option.isSome_iff_exists.mp d3_stream_some
  exact ⟨bs, hbs, parseStore_stream_exact d3 d3_keys _ _ d3_toProto hbs⟩

/-- a paginated store: the one reached from `PStore.new` by adding index 3, index 40 (with a
    compaction), index 3 again (C04Pag gives its bins: `{3 ↦ 2, 40 ↦ 1}`) -/
def pgOps : List PStore.Op := [.add 3 1 false, .add 40 1 true, .add 3 1 false]

example : ∃ s, PStore.run PStore.new pgOps = some s ∧ StoreKeys32 (.pg s) ∧
    storeToProto (.pg s) = some { binCounts := [(3, ratBits 2), (40, ratBits 1)] } ∧
    ∀ bs, streamStore (.pg s) = some bs →
      parseStore {} bs = .ok { binCounts := [(3, ratBits 2), (40, ratBits 1)] } := by
  obtain ⟨s, h1, _, h3, _, h5, _⟩ := C04Pag.history_observers pgOps (by
    intro op hop
    simp [pgOps] at hop
    rcases hop with rfl | rfl | rfl <;> exact ⟨⟨by decide, by decide⟩, by decide⟩)
  have hc : PStore.specRun [] pgOps = [(3, 2), (40, 1)] := by decide +kernel
  rw [hc] at h3 h5
  have hk : StoreKeys32 (.pg s) := by
    intro _ p hp
    rw [h3] at hp
    simp at hp
    rcases hp with rfl | rfl <;> decide
  have hp : storeToProto (.pg s) = some { binCounts := [(3, ratBits 2), (40, ratBits 1)] } := by
    simp only [storeToProto, h5, h3]
    rfl
  exact ⟨s, h1, hk, hp, fun bs hbs => parseStore_stream_exact _ hk _ bs hp hbs⟩

/-! ### the whole sketch -/

/-- size of the written stores: the length prefix of an embedded message is a 64-bit varint.
    `wireBins` is the number of bins the writer emits (sparse / paginated: bins; dense: the window
    `minIndex..maxIndex`); a written store takes at most `58·wireBins + 20` bytes
    (`streamStore_length_le`). -/
def FitsLen (st : Store) : Prop := 58 * wireBins st + 20 < 2 ^ 64

theorem pbParse_stream_exact (s : Sketch) (m : MapId) (hm : s.mapping = some m)
    (hpos : StoreKeys32 s.pos) (hneg : StoreKeys32 s.neg)
    (hlp : FitsLen s.pos) (hln : FitsLen s.neg) :
    ∀ msg bs, toProto s = some msg → streamBytes s = some bs → pbParse bs = .ok msg := by
  intro msg bs h1 h2
  refine pbParse_streamBytes s m hm hpos hneg msg bs h1 h2 (fun n p hn hp => ⟨?_, ?_⟩)
  · exact Nat.lt_of_le_of_lt (streamStore_length_le _ _ hn) hln
  · exact Nat.lt_of_le_of_lt (streamStore_length_le _ _ hp) hlp

theorem pbParse_stream (s : Sketch) (m : MapId) (hm : s.mapping = some m)
    (hpos : StoreKeys32 s.pos) (hneg : StoreKeys32 s.neg)
    (hlp : FitsLen s.pos) (hln : FitsLen s.neg) :
    ∀ msg bs, toProto s = some msg → streamBytes s = some bs →
      (pbParse bs).map norm = .ok (norm msg) := by
  intro msg bs h1 h2
  rw [pbParse_stream_exact s m hm hpos hneg hlp hln msg bs h1 h2]; rfl

/-- a sketch without mapping cannot be written by the streaming writer (Go dereferences the
    mapping), while `ToProto` happily builds a message without one -/
theorem streamBytes_none_of_no_mapping (s : Sketch) (h : s.mapping = none) :
    streamBytes s = none := by
  unfold streamBytes; rw [h]; rfl

/-- the logarithmic mapping with `gamma = 1.02` -/
def m102 : MapId := { kind := .log, gamma := F64.ofBits 0x3FF051EB851EB852, indexOffset := .fin 0 }

/-- a small sketch: sparse positive store, dense negative store, zero count 2 -/
def sk : Sketch := { mapping := some m102, pos := sp3, neg := d3, zero := .fin 2 }

example : ∀ msg bs, toProto sk = some msg → streamBytes sk = some bs → pbParse bs = .ok msg :=
  pbParse_stream_exact sk m102 rfl
    sp3_keys d3_keys (by unfold FitsLen; decide) (by unfold FitsLen; decide)

example : (toProto sk).isSome = true ∧ (streamBytes sk).isSome = true := by decide +kernel

/-! ### rebuilding -/

/-- `FromProto(ToProto(s))` for a spec sketch: same contents, same mapping identity, same zero
    weight, bit for bit.  Hypotheses: the weights are binary64 numbers (a `Content` is a list of
    rationals; in Go they are floats by construction), the mapping parameters and the zero weight
    are bit patterns that survive `toBits/ofBits` (idem), and `gamma > 1` as the constructors
    require (`¬ gamma <= 1`). -/
theorem fromProto_toProto_spec (m : MapId) (cp cn : Content) (z : F64) (hcp : cp.WF) (hcn : cn.WF)
    (hw : ∀ p ∈ cp ++ cn, F64.isRep p.2 = true)
    (hg : F64.ofBits (F64.toBits m.gamma) = m.gamma)
    (ho : F64.ofBits (F64.toBits m.indexOffset) = m.indexOffset)
    (h1 : F64.le m.gamma (.fin 1) = false)
    (hz : F64.ofBits (F64.toBits z) = z) :
    ∀ msg, toProto (Sketch.spec (some m) cp cn z) = some msg →
      fromProto .sparse msg = some (.ok (Sketch.spec (some m) cp cn z)) := by
  intro msg hmsg
  simp only [toProto, Sketch.spec, storeToProto, Option.bind_eq_bind, Option.bind_some,
    Option.pure_def, Option.some.injEq, Option.map_some] at hmsg
  subst hmsg
  exact fromProto_spec m cp cn z hcp hcn (fun p hp => hw p (by simp [hp]))
    (fun p hp => hw p (by simp [hp])) hg ho h1 hz

example : ∀ msg, toProto (Sketch.spec (some m102) [(-2, 1), (0, 5 / 2), (7, 3)] [(4, 1)] (.fin 2)) = some msg →
    fromProto .sparse msg =
      some (.ok (Sketch.spec (some m102) [(-2, 1), (0, 5 / 2), (7, 3)] [(4, 1)] (.fin 2))) := by
  have hγ : F64.ofBits 0x3FF051EB851EB852 = .fin (4593671619917906 / 4503599627370496) := by
    simp [F64.ofBits, pow2_eq_zpow]; norm_num
  refine fromProto_toProto_spec m102 _ _ _ ?_ ?_ ?_ ?_ ?_ ?_ ?_
  · refine ⟨⟨by decide, by decide, trivial⟩, ?_⟩
    intro p hp; simp at hp; rcases hp with rfl | rfl | rfl <;> norm_num
  · exact ⟨trivial, by intro p hp; simp at hp; subst hp; norm_num⟩
  · intro p hp
    simp at hp
    rcases hp with rfl | rfl | rfl | rfl <;> decide +kernel
  · show F64.ofBits (F64.toBits (F64.ofBits 0x3FF051EB851EB852)) = F64.ofBits 0x3FF051EB851EB852
    rw [F64.ofBits_toBits_fin _ (by rw [hγ]; simp) (by decide)]
  · exact F64.toBits_ofBits_rep 0 (by decide +kernel)
  · show F64.le (F64.ofBits 0x3FF051EB851EB852) (.fin 1) = false
    rw [hγ, MapId.le_fin]; norm_num
  · exact F64.toBits_ofBits_rep 2 (by decide +kernel)

/-- without representability of the weights the statement is false: the rational `1/3` is not a
    binary64 number, its bit pattern is that of the float below it, and that is what comes back -/
example : weightOf (ratBits (1 / 3)) ≠ some (1 / 3) := by decide +kernel

/-! ### sparse and contiguous bins of one message add up -/

/-- `MergeWithProto` into an empty sparse store: the weight at `j` is what the (canonical,
    last-entry-per-key) `binCounts` give to `j` plus what the contiguous counts give to `j`
    (entry number `i` sits at index `i + contiguousBinIndexOffset`). -/
theorem mergeWithProto_adds (pb : PbStore) (st : Store)
    (h : mergeWithProto (.sp []) pb = some st) :
    ∃ c, st = .sp c ∧ ∀ j, c.lookup j =
      binWeight (normBinCounts pb.binCounts) j +
        contigWeight pb.contiguous pb.contiguousOffset j := by
  obtain ⟨c, hc, hl⟩ := mergeWithProto_sp pb [] st h
  refine ⟨c, hc, fun j => ?_⟩
  rw [hl j]; simp

/-- the contiguous part, by position: entry number `j − offset`, when there is one -/
theorem contigWeight_at (l : List Nat) (off j : Int) :
    contigWeight l off j =
      if off ≤ j ∧ j - off < l.length then (weightOf (l.getD (j - off).toNat 0)).getD 0 else 0 :=
  contigWeight_eq l off j

/-- the merge succeeds (no panic) as soon as every weight of the message is a finite float -/
theorem mergeWithProto_defined (pb : PbStore)
    (hb : ∀ e ∈ pb.binCounts, (weightOf e.2).isSome = true)
    (hc : ∀ v ∈ pb.contiguous, (weightOf v).isSome = true) :
    ∃ c, mergeWithProto (.sp []) pb = some (.sp c) :=
  mergeWithProto_sp_some pb [] hb hc

/-- one message with both kinds of bins: sparse `{3 ↦ 1.0, 5 ↦ 2.0}`, contiguous `[1.0, 1.0, 4.0]`
    from index 4: index 5 receives `2.0 + 1.0` -/
def pbBoth : PbStore :=
  { binCounts := [(3, 0x3ff0000000000000), (5, 0x4000000000000000)],
    contiguous := [0x3ff0000000000000, 0x3ff0000000000000, 0x4010000000000000],
    contiguousOffset := 4 }

example : ∃ c, mergeWithProto (.sp []) pbBoth = some (.sp c) ∧ c.lookup 5 = 3 ∧ c.lookup 3 = 1 ∧
    c.lookup 6 = 4 ∧ c.lookup 7 = 0 := by
  obtain ⟨c, hc⟩ := mergeWithProto_defined pbBoth
    (by intro e he; simp [pbBoth] at he; rcases he with rfl | rfl <;> decide +kernel)
    (by intro v hv; simp [pbBoth] at hv; rcases hv with rfl | rfl <;> decide +kernel)
  obtain ⟨c', hc', hl⟩ := mergeWithProto_adds pbBoth _ hc
  cases hc'
  have hn : normBinCounts pbBoth.binCounts = pbBoth.binCounts :=
    normBinCounts_of_increasing _ (by simp [pbBoth])
  refine ⟨c, hc, ?_, ?_, ?_, ?_⟩ <;> rw [hl, hn, contigWeight_at] <;> decide +kernel

end DDS.Props.C09
