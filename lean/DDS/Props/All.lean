/- every property module, imported together (name clashes between modules would surface here) -/
import DDS.Props.C01
import DDS.Props.C02
import DDS.Props.C03
import DDS.Props.C04Pag
import DDS.Props.C05
import DDS.Props.C11
import DDS.Props.C12
import DDS.Props.C13
import DDS.Props.C14
import DDS.Props.C15
import DDS.Props.C16
import DDS.Props.C18
import DDS.Props.C18Bits
import DDS.Props.C10
import DDS.Props.C20
import DDS.Props.C07
import DDS.Props.C08
