/-
  DDS.Props.C07 — the documented binary format (`ddsketch/encoding/flag.go`) is self-delimiting,
  and the decoder written from the documentation (`Wire.parseBlocks`) inverts the encoder
  (`Wire.encBlocks`); the transcribed decoder loop (`Sketch.decodeLoop`, from
  `ddsketch.go: decodeAndMergeWith` + `store.go: DecodeAndMergeWith`) does to a sketch exactly what
  the documentation says each block means.

  Proofs are in `DDS.Proofs.Wire`.  Vocabulary defined there:
  * `Block.WF` — what an encoder can produce: every 64-bit payload `< 2^64`, mapping sub-flag `≤ 4`,
    list lengths `< 2^64`, every delta / start / stride in the int64 range (`I64`).
  * `Wire.allFlags` = `featureFlags ++ mappingFlags ++ binFlags` — the 5 + 5 + 2×3 (type, sub-flag)
    pairs the format defines, built from the GENERATED constants `Consts.*`;
    `Wire.definedFlagBytes` their `mkFlag` bytes.
  * `Wire.zeroIncrements bs` — the zero-count increments of a block list, in stream order.
  * `Sketch.applyBlock / applyBlocks` — "the obvious fold": what the documentation says a block does
    to the receiving sketch (`none` = a store panics or a bin weight is not a finite float).
  * `Sketch.addBins st l` — add `(index, weight)` pairs to a store with `Sketch.addF`, in order.

  Nothing about the flag constants is assumed: every fact is obtained by unfolding the generated
  definitions, so a change of the Go constants re-checks (or breaks) these proofs.
-/
import DDS.Proofs.Wire
import DDS.Proofs.SketchDefs

namespace DDS.Props.C07

open DDS DDS.Codec DDS.Wire

/-! ### flag bytes -/

/-- the 16 defined flag bytes are pairwise distinct, each is a byte, and
    `flagType` / `flagSub` recover the (type, sub-flag) pair -/
theorem flags_distinct :
    definedFlagBytes.Nodup ∧ definedFlagBytes.length = 16 ∧
    ∀ p ∈ allFlags, mkFlag p.1 p.2 < 256 ∧ flagType (mkFlag p.1 p.2) = p.1 ∧
      flagSub (mkFlag p.1 p.2) = p.2 :=
  Wire.flags_distinct

example : definedFlagBytes = [4, 160, 132, 136, 140, 2, 6, 10, 14, 18, 5, 9, 13, 7, 11, 15] := by
  decide
-- the generated `typeOfFlag*` constants (computed by the Go code from its own flags) agree
example : Consts.typeOfFlagZeroCountVarFloat = Consts.flagTypeSketchFeatures ∧
    Consts.typeOfFlagCount = Consts.flagTypeSketchFeatures ∧
    Consts.typeOfFlagSum = Consts.flagTypeSketchFeatures ∧
    Consts.typeOfFlagMin = Consts.flagTypeSketchFeatures ∧
    Consts.typeOfFlagMax = Consts.flagTypeSketchFeatures ∧
    Consts.typeOfFlagIndexMappingBaseLogarithmic = Consts.flagTypeIndexMapping ∧
    Consts.typeOfFlagIndexMappingBaseLinear = Consts.flagTypeIndexMapping ∧
    Consts.typeOfFlagIndexMappingBaseQuadratic = Consts.flagTypeIndexMapping ∧
    Consts.typeOfFlagIndexMappingBaseCubic = Consts.flagTypeIndexMapping ∧
    Consts.typeOfFlagIndexMappingBaseQuartic = Consts.flagTypeIndexMapping := by decide

/-- every flag byte splits back into its two fields, and any type `< 4` with any sub-flag
    round-trips (so sub-flags up to 63 fit a byte) -/
theorem flag_fields (t s : Nat) (ht : t < 2 ^ Consts.numBitsForType) :
    flagType (mkFlag t s) = t ∧ flagSub (mkFlag t s) = s :=
  Wire.flag_mk t s ht

theorem flag_of_fields (f : Nat) : mkFlag (flagType f) (flagSub f) = f :=
  Wire.mkFlag_type_sub f

/-! ### the documentation decoder inverts the encoder; blocks are self-delimiting -/

theorem parseBlock_encBlock (b : Block) (hb : b.WF) (rest : Bytes) :
    Wire.parseBlock (Wire.encBlock b ++ rest) = .ok (b, rest) :=
  Wire.parseBlock_encBlock b hb rest

example : Wire.parseBlock (Wire.encBlock (.bins .neg (.deltasCounts [(-7, 0x4000000000000000)])) ++ [1, 2])
    = .ok (.bins .neg (.deltasCounts [(-7, 0x4000000000000000)]), [1, 2]) :=
  parseBlock_encBlock _ (by decide) _
example : Wire.encBlock (.bins .neg (.deltasCounts [(-7, 0x4000000000000000)])) = [7, 1, 13, 2] := by
  decide

theorem parseBlocks_encBlocks (bs : List Block) (h : ∀ b ∈ bs, b.WF) :
    Wire.parseBlocks (Wire.encBlocks bs) = .ok bs :=
  Wire.parseBlocks_encBlocks bs h

example : Wire.parseBlocks (Wire.encBlocks
      [.mapping 0 0x3ff051eb851eb852 0, .zeroCount 0x4008000000000000,
       .bins .pos (.contiguous (-3) 1 [0x4000000000000000, 0x3ff0000000000000])])
    = .ok [.mapping 0 0x3ff051eb851eb852 0, .zeroCount 0x4008000000000000,
       .bins .pos (.contiguous (-3) 1 [0x4000000000000000, 0x3ff0000000000000])] :=
  parseBlocks_encBlocks _ (by decide)

theorem encBlock_bytes (b : Block) (hb : b.WF) : ∀ x ∈ Wire.encBlock b, x < 256 :=
  Wire.encBlock_bytes b hb

-- the hypothesis is needed: a mapping sub-flag `≥ 64` does not fit the flag byte
example : ¬ ∀ x ∈ Wire.encBlock (.mapping 64 0 0), x < 256 := by decide

theorem encBlock_nonempty (b : Block) : 1 ≤ (Wire.encBlock b).length :=
  Wire.encBlock_length_pos b

/-- an encoded stream is at least as long as its number of blocks -/
theorem encBlocks_length_ge (bs : List Block) : bs.length ≤ (Wire.encBlocks bs).length :=
  Wire.encBlocks_length_ge bs

/-- encodings concatenate -/
theorem encBlocks_append (a b : List Block) :
    Wire.encBlocks (a ++ b) = Wire.encBlocks a ++ Wire.encBlocks b :=
  Wire.encBlocks_append a b

/-! ### concatenation of encodings = merge of the documented contents -/

/-- `interp (a ++ b)` is the componentwise combination of `interp a` and `interp b`: lists are
    appended; the zero count continues `interp a`'s with `b`'s increments, added with `F64.add` in
    stream order (float addition is not associative, so this cannot be stated as one `F64.add`) -/
theorem interp_append (a b : List Block) :
    (interp (a ++ b)).zero = (zeroIncrements b).foldl F64.add (interp a).zero ∧
    (interp (a ++ b)).pos = (interp a).pos ++ (interp b).pos ∧
    (interp (a ++ b)).neg = (interp a).neg ++ (interp b).neg ∧
    (interp (a ++ b)).mappings = (interp a).mappings ++ (interp b).mappings ∧
    (interp (a ++ b)).count = (interp a).count ++ (interp b).count ∧
    (interp (a ++ b)).sum = (interp a).sum ++ (interp b).sum ∧
    (interp (a ++ b)).min = (interp a).min ++ (interp b).min ∧
    (interp (a ++ b)).max = (interp a).max ++ (interp b).max :=
  Wire.interp_append a b

theorem interp_zero (bs : List Block) :
    (interp bs).zero = (zeroIncrements bs).foldl F64.add (.fin 0) :=
  Wire.interp_zero bs

/-- parsing the concatenation of two encodings yields the concatenated block lists -/
theorem parseBlocks_concat (a b : List Block) (ha : ∀ x ∈ a, x.WF) (hb : ∀ x ∈ b, x.WF) :
    Wire.parseBlocks (Wire.encBlocks a ++ Wire.encBlocks b) = .ok (a ++ b) := by
  rw [← Wire.encBlocks_append]
  exact Wire.parseBlocks_encBlocks _ (fun x hx => (List.mem_append.mp hx).elim (ha x) (hb x))

/-! ### the transcribed decoder does what the documentation says (any store kind) -/

/-- One iteration of the transcribed loop on an encoded block followed by anything: exactly
    `applyBlock`, then the loop goes on with the rest.  Holds for EVERY store kind. -/
theorem decodeLoop_encBlock (b : Block) (hb : b.WF) (n : Nat) (s : Sketch) (aux : Sketch.DecAux)
    (tail : Bytes) :
    Sketch.decodeLoop (n + 1) s aux (Wire.encBlock b ++ tail) =
      Sketch.andThen (Sketch.applyBlock s aux b) (fun s' aux' => Sketch.decodeLoop n s' aux' tail) :=
  Sketch.decodeLoop_encBlock b hb n s aux tail

/-- The transcribed decoder on an encoded stream is the fold of `applyBlock` over the blocks; one
    unit of fuel per block suffices (`decodeAndMergeWith` supplies `bytes + 1 ≥ blocks`).
    Holds for EVERY store kind, hence in particular for `s = Sketch.spec m cp cn z`. -/
theorem decodeLoop_eq_interp (bs : List Block) (h : ∀ b ∈ bs, b.WF) (fuel : Nat)
    (hf : bs.length ≤ fuel) (s : Sketch) (aux : Sketch.DecAux) :
    Sketch.decodeLoop fuel s aux (Wire.encBlocks bs) = Sketch.applyBlocks s aux bs :=
  Sketch.decodeLoop_encBlocks bs h fuel hf s aux

/-- the stated form: fuel larger than the number of bytes, on a spec sketch -/
theorem decodeLoop_eq_interp_spec (bs : List Block) (h : ∀ b ∈ bs, b.WF) (fuel : Nat)
    (hf : (Wire.encBlocks bs).length < fuel) (m : Option MapId) (cp cn : Content) (z : F64)
    (s : Sketch) (hs : s = Sketch.spec m cp cn z) (aux : Sketch.DecAux) :
    Sketch.decodeLoop fuel s aux (Wire.encBlocks bs) = Sketch.applyBlocks (Sketch.spec m cp cn z) aux bs := by
  subst hs
  have := Wire.encBlocks_length_ge bs
  exact Sketch.decodeLoop_encBlocks bs h fuel (by omega) _ aux

/-- what the fold computes, in terms of the documentation content `interp`: the zero count continues
    with the stream's increments, and each store receives that side's bins in stream order -/
theorem applyBlocks_interp (bs : List Block) (s s' : Sketch) (aux aux' : Sketch.DecAux)
    (h : Sketch.applyBlocks s aux bs = some (.ok (s', aux'))) :
    s'.zero = (zeroIncrements bs).foldl F64.add s.zero ∧
    Sketch.addBins s.pos (interp bs).pos = some s'.pos ∧
    Sketch.addBins s.neg (interp bs).neg = some s'.neg :=
  Sketch.applyBlocks_interp bs s s' aux aux' h

/-- decoding an encoded stream into an EMPTY spec sketch that succeeds yields exactly the
    documentation content: `zero = (interp bs).zero`, stores = `contentOf` of the two bin lists -/
theorem decode_empty_spec_eq_interp (bs : List Block) (h : ∀ b ∈ bs, b.WF) (fuel : Nat)
    (hf : bs.length ≤ fuel) (m : Option MapId) (s' : Sketch) (aux aux' : Sketch.DecAux)
    (hd : Sketch.decodeLoop fuel (Sketch.spec m [] [] (.fin 0)) aux (Wire.encBlocks bs)
      = some (.ok (s', aux'))) :
    s'.zero = (interp bs).zero ∧
    (∃ cp, contentOf (interp bs).pos = some cp ∧ s'.pos = .sp cp) ∧
    (∃ cn, contentOf (interp bs).neg = some cn ∧ s'.neg = .sp cn) := by
  rw [Sketch.decodeLoop_encBlocks bs h fuel hf] at hd
  exact Sketch.applyBlocks_interp_empty bs m s' aux aux' hd

/-- on a spec store, adding decoded bins is `contentOf`-style accumulation into the content -/
theorem addBins_spec (c : Content) (l : List (Int × F64)) :
    Sketch.addBins (.sp c) l = (l.foldlM Sketch.addPair c).map Store.sp :=
  Sketch.addBins_sp c l

example : Sketch.applyBlocks (Sketch.spec none [] [] (.fin 0)) { stats := none }
      [.bins .pos (.deltas [3, 2])]
    = some (.ok (Sketch.spec none [(3, 1), (5, 1)] [] (.fin 0), { stats := none })) := by
  rfl

end DDS.Props.C07
