/-
  DDS.Props.C09GenStore — C09 on the REGENERATED protobuf conversions of the stores: what `ToProto` writes,
  `MergeWithProto` reads back.  Proofs in `DDS.Proofs.GenProtoStore`.
-/
import DDS.Proofs.GenProtoStore
import DDS.Props.C09

namespace DDS.Props.C09GenStore

open DDS DDS.GoSem DDS.Proto DDS.GenProtoStore DDS.GenPag DDS.PStore
open DDS.Gen.PaginatedProto

/-- **paginated → paginated, on regenerated code at both ends.**  A paginated store `s` with the invariant is
    turned into a message by the regenerated `ToProto`; the regenerated `MergeWithProto` of that message into a NEW
    paginated store, for EVERY lawful iteration order of the map, every capacity and `grow` oracle, yields a store
    with the invariant and the content of `s`.  Fuels: `len(buffer) + 1` for `ToProto`, `pagFuel` of the new store on
    the calls for the merge. -/
theorem pag_roundtrip (s : PStore) (hI : Inv s) (cap cap0 : Int) (grow : Int → Int → Int) (ord : MapOrder)
    (hl : ord.Lawful) (fuel : Nat) (hf : forEachFuel s ≤ fuel) :
    ∃ g1 m, BufferedPaginatedStore.ToProto fuel (toGen s cap) = .ok (g1, m) ∧
      some (pbOfGo m) = storeToProto (.pg s) ∧
      ∀ fuel2, pagFuel PStore.new (msgCalls ord m) ≤ fuel2 →
        ∃ s' cap', BufferedPaginatedStore.MergeWithProto fuel2 ord grow (toGen PStore.new cap0) m
            = .ok (toGen s' cap') ∧ Inv s' ∧ content s' = content s := by
  obtain ⟨hs, h32⟩ := pag_side_of_inv s hI
  obtain ⟨m, h1, h2, h3⟩ := pag_toProto_model s cap fuel hf hs h32
  refine ⟨_, m, h1, h3, fun fuel2 hf2 => ?_⟩
  have hwf : (content s).WF := C04Pag.content_wf s hI
  have hperm : (msgCalls ord m).Perm (content s) := by
    rw [h2]
    by_cases he : s.isEmpty = true
    · rw [if_pos he, msgCalls_emptyMsg]
      have : content s = [] := by
        have := isEmpty_eq s hI
        rw [he] at this
        cases hc : content s with
        | nil => rfl
        | cons p r => rw [hc] at this; cases this
      rw [this]
    · rw [if_neg he]
      exact msgCalls_sparseMsg ord hl s.binsList hs h32
  have hc : ∀ p ∈ msgCalls ord m, Idx32 p.1 ∧ 0 ≤ p.2 := by
    intro p hp
    have hp' : p ∈ content s := hperm.mem_iff.1 hp
    exact ⟨Lift.pag_keys32 s hI p hp', Rat.le_of_lt (hwf.2 p hp')⟩
  obtain ⟨s', cap', e1, e2, e3⟩ := pag_mergeWithProto PStore.new inv_new cap0 grow ord m hc fuel2 hf2
  refine ⟨s', cap', e1, e2, ?_⟩
  rw [e3]
  have : content PStore.new = [] := by decide +kernel
  rw [this]
  exact merge_nil_perm (content s) hwf _ hperm

/-- a message whose calls are a permutation of a canonical `int32` content satisfies the hypotheses of
    `consumer_roundtrip` -/
theorem perm_side (c : Content) (hc : c.WF) (h32 : ∀ p ∈ c, Lift.I32 p.1) (L : List (Int × Rat)) (hp : L.Perm c) :
    Lift.BinsOK L ∧ ∀ j, Content.lookup L j = c.lookup j :=
  ⟨fun p hp' => ⟨Rat.le_of_lt (hc.2 p (hp.mem_iff.1 hp')), fun _ => h32 p (hp.mem_iff.1 hp')⟩,
   fun j => GenSparse.perm_lookup hp j⟩

/-- **sparse → any kind.**  The regenerated sparse `ToProto` (any lawful order `o1`) of a store holding the canonical
    `int32` content `c`, as floats, merged by the regenerated generic `MergeWithProto` (any lawful order `o2`) into a
    new model store of kind `k`: a good store of kind `k` holding `c` clamped by the rule of `k` (`c` itself for the
    sparse, dense and paginated kinds) -/
theorem sparse_roundtrip {g : Gen.Sparse.SparseStore} {c : Content} (h : GenSparse.Rep g c)
    (h32 : ∀ p ∈ c, Lift.I32 p.1) (o1 o2 : MapOrder) (h1 : o1.Lawful) (h2 : o2.Lawful) (k : StoreKind)
    (hk : Lift.KindOK k) (fuel fuel2 : Nat) :
    ∃ m, Gen.SparseProto.SparseStore.ToProto fuel o1 g = .ok m ∧ some (pbOfGo m) = storeToProto (.sp c) ∧
      ∃ st', Gen.StoreProto.MergeWithProto fuel2 o2 (Store.new k) (toF64 m) = .ok st' ∧ Lift.Good st' ∧
        st'.kind = k ∧ Lift.contentOf st' = (Lift.clampOfKind k).apply c := by
  have h32' : ∀ p ∈ c, I32 p.1 := fun p hp => I32_of_Idx32 (h32 p hp)
  obtain ⟨e1, e2⟩ := sparse_toProto_model h.repS fuel o1 h1 h32'
  refine ⟨_, e1, e2, ?_⟩
  obtain ⟨b1, b2⟩ := perm_side c h.2 h32 _ (msgCalls_sparseMsg o2 h2 c h.2.1 h32')
  exact consumer_roundtrip k hk c h.2 o2 (sparseMsg c) b1 b2 fuel2

/-- **paginated → any kind**: the same with the regenerated paginated `ToProto` as the producer -/
theorem pag_roundtrip_any (s : PStore) (hI : Inv s) (cap : Int) (ord : MapOrder) (hl : ord.Lawful) (k : StoreKind)
    (hk : Lift.KindOK k) (fuel fuel2 : Nat) (hf : forEachFuel s ≤ fuel) :
    ∃ g1 m, BufferedPaginatedStore.ToProto fuel (toGen s cap) = .ok (g1, m) ∧
      some (pbOfGo m) = storeToProto (.pg s) ∧
      ∃ st', Gen.StoreProto.MergeWithProto fuel2 ord (Store.new k) (toF64 m) = .ok st' ∧ Lift.Good st' ∧
        st'.kind = k ∧ Lift.contentOf st' = (Lift.clampOfKind k).apply (content s) := by
  obtain ⟨hs, h32⟩ := pag_side_of_inv s hI
  obtain ⟨m, h1, h2, h3⟩ := pag_toProto_model s cap fuel hf hs h32
  refine ⟨_, m, h1, h3, ?_⟩
  have hwf : (content s).WF := C04Pag.content_wf s hI
  have hperm : (msgCalls ord m).Perm (content s) := by
    rw [h2]
    by_cases he : s.isEmpty = true
    · rw [if_pos he, msgCalls_emptyMsg]
      have : content s = [] := by
        have := isEmpty_eq s hI
        rw [he] at this
        cases hc : content s with
        | nil => rfl
        | cons p r => rw [hc] at this; cases this
      rw [this]
    · rw [if_neg he]
      exact msgCalls_sparseMsg ord hl s.binsList hs h32
  obtain ⟨b1, b2⟩ := perm_side (content s) hwf (Lift.pag_keys32 s hI) _ hperm
  exact consumer_roundtrip k hk (content s) hwf ord m b1 b2 fuel2

/-- the bins of one message add up, whatever the order (`C09.mergeWithProto_adds` on the regenerated code): into a
    good model store of any kind holding the clamped form of `E` -/
theorem mergeWithProto_adds_gen (fuel : Nat) (ord : MapOrder) (hl : ord.Lawful) (st : Store) (hg : Lift.Good st)
    (E : Content) (hE : E.WF) (hcE : Lift.contentOf st = st.clamp.apply E) (pb : GoPb.Store F64) (hwf : pb.WF)
    (hfin : Finite pb) (hok : Lift.BinsOK (msgBins ord pb)) :
    ∃ st' C, Gen.StoreProto.MergeWithProto fuel ord st pb = .ok st' ∧ Lift.Good st' ∧ st'.kind = st.kind ∧
      Lift.contentOf st' = st.clamp.apply C ∧
      ∀ j, C.lookup j = E.lookup j + Content.lookup (mapBins pb) j + Content.lookup (contigBins pb) j := by
  obtain ⟨st', a1, a2, a3, a4⟩ := mergeWithProto_good_store fuel ord st hg E hE hcE pb hfin hok
  exact ⟨st', _, a1, a2, a3, a4, fun j => lookup_merge_msgBins E ord hl pb hwf j⟩

/-- **sparse → regenerated dense, through `FromProto`**: the message of the regenerated sparse `ToProto`, as floats,
    rebuilt by the regenerated `FromProto` (instance running the regenerated dense `AddWithCount`, e.g.
    `GenDecodeWrap.denseI`): the image of a good plain dense model store holding `c` -/
theorem sparse_to_dense_fromProto {g : Gen.Sparse.SparseStore} {c : Content} (h : GenSparse.Rep g c)
    (h32 : ∀ p ∈ c, Lift.I32 p.1) (o1 o2 : MapOrder) (h1 : o1.Lawful) (h2 : o2.Lawful)
    (I : StoreI GenDense.GS) (hI : GenDecodeWrap.DenseAdds I) (fuel fuel2 : Nat) :
    ∃ m d, Gen.SparseProto.SparseStore.ToProto fuel o1 g = .ok m ∧
      @Gen.DenseFromProto.FromProto I fuel2 o2 (toF64 m) = .ok (GenDense.toGen d) ∧
      Lift.Good (.d d) ∧ Lift.contentOf (.d d) = c := by
  obtain ⟨m, e1, _, st', e3, e4, _, e6⟩ := sparse_roundtrip h h32 o1 o2 h1 h2 .dense trivial fuel fuel2
  obtain ⟨d, d1, _, d3⟩ := dense_fromProto_sim I hI fuel2 o2 (toF64 m)
  rw [d3] at e3
  cases e3
  exact ⟨m, d, e1, d1, e4, e6⟩

end DDS.Props.C09GenStore

