/-
  DDS.Props.C09GenStore — C09 on the REGENERATED protobuf conversions of the stores: what `ToProto` writes,
  `MergeWithProto` reads back.  Proofs in `DDS.Proofs.GenProtoStore`.
-/
import DDS.Proofs.GenProtoStore
import DDS.Props.C09

namespace DDS.Props.C09GenStore

open DDS DDS.GoSem DDS.Proto DDS.GenProtoStore DDS.GenPag DDS.PStore
open DDS.Gen.PaginatedProto

/-- **paginated → paginated, on regenerated code at both ends.**  A paginated store `s` with the invariant is
    turned into a message by the regenerated `ToProto`; the regenerated `MergeWithProto` of that message into a NEW
    paginated store, for EVERY lawful iteration order of the map, every capacity and `grow` oracle, yields a store
    with the invariant and the content of `s`.  Fuels: `len(buffer) + 1` for `ToProto`, `pagFuel` of the new store on
    the calls for the merge. -/
theorem pag_roundtrip (s : PStore) (hI : Inv s) (cap cap0 : Int) (grow : Int → Int → Int) (ord : MapOrder)
    (hl : ord.Lawful) (fuel : Nat) (hf : forEachFuel s ≤ fuel) :
    ∃ g1 m, BufferedPaginatedStore.ToProto fuel (toGen s cap) = .ok (g1, m) ∧
      some (pbOfGo m) = storeToProto (.pg s) ∧
      ∀ fuel2, pagFuel PStore.new (msgCalls ord m) ≤ fuel2 →
        ∃ s' cap', BufferedPaginatedStore.MergeWithProto fuel2 ord grow (toGen PStore.new cap0) m
            = .ok (toGen s' cap') ∧ Inv s' ∧ content s' = content s := by
  obtain ⟨hs, h32⟩ := pag_side_of_inv s hI
  obtain ⟨m, h1, h2, h3⟩ := pag_toProto_model s cap fuel hf hs h32
  refine ⟨_, m, h1, h3, fun fuel2 hf2 => ?_⟩
  have hwf : (content s).WF := C04Pag.content_wf s hI
  have hperm : (msgCalls ord m).Perm (content s) := by
    rw [h2]
    by_cases he : s.isEmpty = true
    · rw [if_pos he, msgCalls_emptyMsg]
      have : content s = [] := by
        have := isEmpty_eq s hI
        rw [he] at this
        cases hc : content s with
        | nil => rfl
        | cons p r => rw [hc] at this; cases this
      rw [this]
    · rw [if_neg he]
      exact msgCalls_sparseMsg ord hl s.binsList hs h32
  have hc : ∀ p ∈ msgCalls ord m, Idx32 p.1 ∧ 0 ≤ p.2 := by
    intro p hp
    have hp' : p ∈ content s := hperm.mem_iff.1 hp
    exact ⟨Lift.pag_keys32 s hI p hp', Rat.le_of_lt (hwf.2 p hp')⟩
  obtain ⟨s', cap', e1, e2, e3⟩ := pag_mergeWithProto PStore.new inv_new cap0 grow ord m hc fuel2 hf2
  refine ⟨s', cap', e1, e2, ?_⟩
  rw [e3]
  have : content PStore.new = [] := by decide +kernel
  rw [this]
  exact merge_nil_perm (content s) hwf _ hperm

end DDS.Props.C09GenStore
