/-
  DDS.Props.C13 — the documented decision table of the sketch API, stated outright over the IEEE
  classes (`F64`: finite / +inf / −inf / NaN), for EVERY sketch state and EVERY store kind.

  * `AddWithCount(value, count)`:
      count < 0                       ↦ refused (`negativeCount`), whatever the value
      value NaN                       ↦ refused (`nan`)
      value >  maxIndexable           ↦ refused (`tooHigh`)   (+inf included)
      value < −maxIndexable           ↦ refused (`tooLow`)    (−inf included)
      finite |value| ≤ maxIndexable, finite count ≥ 0 ↦ accepted; exactly one of pos / neg / zero
                                        is updated and the other two components are unchanged
  * `GetValueAtQuantile(q)`: refused (`badQuantile`) unless `0 ≤ q ≤ 1` (NaN, ±inf, negatives, > 1
      are refused); refused (`empty`) on a sketch of count 0; a value otherwise
  * `Reweight(w)` with `w ≤ 0` refused; `MergeWith` with a different mapping refused
  * the exact-summary variant validates first (also for a zero count) and a zero count is a no-op.

  Core Lean only.
-/
import DDS.Proofs.SketchDefs

namespace DDS.Props.C13

open DDS

/-! ### IEEE comparison facts used below -/

theorem lt_nan_right (x : F64) : F64.lt x .nan = false := by cases x <;> rfl
theorem lt_nan_left (x : F64) : F64.lt .nan x = false := by cases x <;> rfl
theorem le_nan_right (x : F64) : F64.le x .nan = false := by cases x <;> rfl
theorem le_nan_left (x : F64) : F64.le .nan x = false := by cases x <;> rfl
theorem gt_nan_left (x : F64) : F64.gt .nan x = false := lt_nan_right x

/-! ### `AddWithCount`: refusals (any sketch, any store kind, any environment) -/

/-- a negative count is refused before the value is looked at (NaN, ±inf values included) -/
theorem add_negative_count (env : MapEnv) (s : Sketch) (v c : F64) (idx : Int)
    (hc : F64.lt c (.fin 0) = true) :
    Sketch.addWithCount env s v c idx = some (.error .negativeCount) := by
  simp [Sketch.addWithCount, hc]

/-- a NaN value is refused (with any count that is not negative: zero, positive, +inf, NaN) -/
theorem add_nan (env : MapEnv) (s : Sketch) (c : F64) (idx : Int)
    (hc : F64.lt c (.fin 0) = false) :
    Sketch.addWithCount env s .nan c idx = some (.error .nan) := by
  simp [Sketch.addWithCount, hc, F64.gt, lt_nan_right, lt_nan_left, F64.isNaN]

theorem add_too_high (env : MapEnv) (s : Sketch) (v c : F64) (idx : Int)
    (hc : F64.lt c (.fin 0) = false)
    (h1 : F64.gt v env.minIndexable = true) (h2 : F64.gt v env.maxIndexable = true) :
    Sketch.addWithCount env s v c idx = some (.error .tooHigh) := by
  simp [Sketch.addWithCount, hc, h1, h2]

/-- symmetric refusal; `h0` says the value was not routed to the positive side (automatic when
    `minIndexable ≥ 0`, see `add_too_low'`) -/
theorem add_too_low (env : MapEnv) (s : Sketch) (v c : F64) (idx : Int)
    (hc : F64.lt c (.fin 0) = false)
    (h0 : F64.gt v env.minIndexable = false)
    (h1 : F64.lt v (F64.neg env.minIndexable) = true)
    (h2 : F64.lt v (F64.neg env.maxIndexable) = true) :
    Sketch.addWithCount env s v c idx = some (.error .tooLow) := by
  simp [Sketch.addWithCount, hc, h0, h1, h2]

/-- with a non-negative finite `minIndexable`, `v < −min` excludes `v > min` -/
theorem not_gt_of_lt_neg (v : F64) (mn : Rat) (hmn : 0 ≤ mn)
    (h1 : F64.lt v (F64.neg (.fin mn)) = true) : F64.gt v (.fin mn) = false := by
  cases v with
  | fin q =>
    simp only [F64.neg, F64.lt, F64.gt, decide_eq_true_eq, decide_eq_false_iff_not] at *
    grind
  | pinf => simp [F64.neg, F64.lt] at h1
  | ninf => rfl
  | nan => rfl

theorem add_too_low' (env : MapEnv) (s : Sketch) (v c : F64) (idx : Int) (mn : Rat)
    (hmin : env.minIndexable = .fin mn) (hmn : 0 ≤ mn)
    (hc : F64.lt c (.fin 0) = false)
    (h1 : F64.lt v (F64.neg env.minIndexable) = true)
    (h2 : F64.lt v (F64.neg env.maxIndexable) = true) :
    Sketch.addWithCount env s v c idx = some (.error .tooLow) := by
  apply add_too_low env s v c idx hc _ h1 h2
  rw [hmin] at h1 ⊢
  exact not_gt_of_lt_neg v mn hmn h1

/-- `+inf` is refused as too high whenever the bounds of the mapping are finite -/
theorem add_pos_inf (env : MapEnv) (s : Sketch) (c : F64) (idx : Int) (mn mx : Rat)
    (hmin : env.minIndexable = .fin mn) (hmax : env.maxIndexable = .fin mx)
    (hc : F64.lt c (.fin 0) = false) :
    Sketch.addWithCount env s .pinf c idx = some (.error .tooHigh) := by
  apply add_too_high env s .pinf c idx hc
  · rw [hmin]; rfl
  · rw [hmax]; rfl

/-- `−inf` is refused as too low whenever the bounds of the mapping are finite -/
theorem add_neg_inf (env : MapEnv) (s : Sketch) (c : F64) (idx : Int) (mn mx : Rat)
    (hmin : env.minIndexable = .fin mn) (hmax : env.maxIndexable = .fin mx)
    (hc : F64.lt c (.fin 0) = false) :
    Sketch.addWithCount env s .ninf c idx = some (.error .tooLow) := by
  apply add_too_low env s .ninf c idx hc
  · rw [hmin]; rfl
  · rw [hmin]; rfl
  · rw [hmax]; rfl

/-- every refusal of `AddWithCount` is one of the four documented ones -/
theorem add_error_cases (env : MapEnv) (s : Sketch) (v c : F64) (idx : Int) (e : SkErr)
    (h : Sketch.addWithCount env s v c idx = some (.error e)) :
    e = .negativeCount ∨ e = .tooHigh ∨ e = .tooLow ∨ e = .nan := by
  unfold Sketch.addWithCount at h
  split at h
  · simp at h; simp [← h]
  · split at h
    · split at h
      · simp at h; simp [← h]
      · cases hw : Sketch.ratOf? c with
        | none => simp [hw] at h
        | some w =>
          cases hp : s.pos.addWithCount idx w <;> simp [hw, hp] at h
    · split at h
      · split at h
        · simp at h; simp [← h]
        · cases hw : Sketch.ratOf? c with
          | none => simp [hw] at h
          | some w =>
            cases hp : s.neg.addWithCount idx w <;> simp [hw, hp] at h
      · split at h
        · simp at h; simp [← h]
        · cases hw : Sketch.ratOf? c <;> simp [hw] at h

/-- a refusal never depends on the state of the sketch -/
theorem add_error_state_independent (env : MapEnv) (s s' : Sketch) (v c : F64) (idx : Int)
    (e : SkErr) (h : Sketch.addWithCount env s v c idx = some (.error e)) :
    Sketch.addWithCount env s' v c idx = some (.error e) ∨
      Sketch.addWithCount env s' v c idx = none := by
  unfold Sketch.addWithCount at h ⊢
  split
  · simp_all
  · rename_i hc
    simp only [hc] at h
    split
    · rename_i h1
      simp only [h1, if_true] at h
      split
      · simp_all
      · rename_i h2
        simp only [h2] at h
        cases hw : Sketch.ratOf? c with
        | none => simp [hw] at h
        | some w =>
          cases hp : s.pos.addWithCount idx w <;> simp [hw, hp] at h
    · rename_i h1
      simp only [h1] at h
      split
      · rename_i h2
        simp only [h2, if_true] at h
        split
        · simp_all
        · rename_i h3
          simp only [h3] at h
          cases hw : Sketch.ratOf? c with
          | none => simp [hw] at h
          | some w =>
            cases hp : s.neg.addWithCount idx w <;> simp [hw, hp] at h
      · rename_i h2
        simp only [h2] at h
        split
        · simp_all
        · rename_i h3
          simp only [h3] at h
          cases hw : Sketch.ratOf? c <;> simp [hw] at h

/-! ### `AddWithCount`: acceptance on SPEC stores -/

/-- finite value above `minIndexable` and not above `maxIndexable`: the positive store gets the
    weight at the supplied index, nothing else changes -/
theorem add_accepts_pos (env : MapEnv) (s : Sketch) (cp : Content) (vq cq : Rat) (idx : Int)
    (mn mx : Rat) (hmin : env.minIndexable = .fin mn) (hmax : env.maxIndexable = .fin mx)
    (hs : s.pos = .sp cp) (hc : 0 ≤ cq) (hv1 : mn < vq) (hv2 : vq ≤ mx) :
    Sketch.addWithCount env s (.fin vq) (.fin cq) idx =
      some (.ok { s with pos := .sp (cp.add idx cq) }) := by
  have h1 : ¬ cq < 0 := by grind
  have h2 : ¬ mx < vq := by grind
  simp [Sketch.addWithCount, hmin, hmax, hs, F64.lt, F64.gt, h1, h2, hv1, Sketch.ratOf?,
    Store.addWithCount]

/-- finite value below `−minIndexable` and not below `−maxIndexable`: the negative store gets the
    weight at the supplied index, nothing else changes -/
theorem add_accepts_neg (env : MapEnv) (s : Sketch) (cn : Content) (vq cq : Rat) (idx : Int)
    (mn mx : Rat) (hmin : env.minIndexable = .fin mn) (hmax : env.maxIndexable = .fin mx)
    (hmn : 0 ≤ mn)
    (hs : s.neg = .sp cn) (hc : 0 ≤ cq) (hv1 : vq < -mn) (hv2 : -mx ≤ vq) :
    Sketch.addWithCount env s (.fin vq) (.fin cq) idx =
      some (.ok { s with neg := .sp (cn.add idx cq) }) := by
  have h1 : ¬ cq < 0 := by grind
  have h2 : ¬ vq < -mx := by grind
  have h3 : ¬ mn < vq := by grind
  simp [Sketch.addWithCount, hmin, hmax, hs, F64.lt, F64.gt, F64.neg, h1, h2, h3, hv1,
    Sketch.ratOf?, Store.addWithCount]

/-- finite value of magnitude at most `minIndexable`: the zero bucket gets the weight (float
    addition), the stores are untouched — for every store kind -/
theorem add_accepts_zero (env : MapEnv) (s : Sketch) (vq cq : Rat) (idx : Int)
    (mn : Rat) (hmin : env.minIndexable = .fin mn)
    (hc : 0 ≤ cq) (hv1 : -mn ≤ vq) (hv2 : vq ≤ mn) :
    Sketch.addWithCount env s (.fin vq) (.fin cq) idx =
      some (.ok { s with zero := F64.add s.zero (.fin cq) }) := by
  have h1 : ¬ cq < 0 := by grind
  have h2 : ¬ vq < -mn := by grind
  have h3 : ¬ mn < vq := by grind
  simp [Sketch.addWithCount, hmin, F64.lt, F64.gt, F64.neg, h1, h2, h3, F64.isNaN,
    Sketch.ratOf?]

/-- the acceptance row of the table in one statement, on a spec sketch: a finite value with
    `|v| ≤ maxIndexable` and a finite count `≥ 0` is accepted, and the new state is the old one with
    exactly one component updated -/
theorem add_accepts (env : MapEnv) (m : Option MapId) (cp cn : Content) (z : F64)
    (vq cq : Rat) (idx : Int) (mn mx : Rat)
    (hmin : env.minIndexable = .fin mn) (hmax : env.maxIndexable = .fin mx)
    (hmn : 0 ≤ mn) (hc : 0 ≤ cq) (hv : rabs vq ≤ mx) :
    Sketch.addWithCount env (Sketch.spec m cp cn z) (.fin vq) (.fin cq) idx =
      some (.ok (
        if mn < vq then Sketch.spec m (cp.add idx cq) cn z
        else if vq < -mn then Sketch.spec m cp (cn.add idx cq) z
        else Sketch.spec m cp cn (F64.add z (.fin cq)))) := by
  have hv' : -mx ≤ vq ∧ vq ≤ mx := by unfold rabs at hv; split at hv <;> grind
  by_cases h1 : mn < vq
  · rw [add_accepts_pos env _ cp vq cq idx mn mx hmin hmax rfl hc h1 hv'.2]
    simp [h1, Sketch.spec]
  · by_cases h2 : vq < -mn
    · rw [add_accepts_neg env _ cn vq cq idx mn mx hmin hmax hmn rfl hc h2 hv'.1]
      simp [h1, h2, Sketch.spec]
    · rw [add_accepts_zero env _ vq cq idx mn hmin hc (by grind) (by grind)]
      simp [h1, h2, Sketch.spec]

/-- … in particular it is accepted -/
theorem add_accepts_ok (env : MapEnv) (m : Option MapId) (cp cn : Content) (z : F64)
    (vq cq : Rat) (idx : Int) (mn mx : Rat)
    (hmin : env.minIndexable = .fin mn) (hmax : env.maxIndexable = .fin mx)
    (hmn : 0 ≤ mn) (hc : 0 ≤ cq) (hv : rabs vq ≤ mx) :
    ∃ s', Sketch.addWithCount env (Sketch.spec m cp cn z) (.fin vq) (.fin cq) idx = some (.ok s') :=
  ⟨_, add_accepts env m cp cn z vq cq idx mn mx hmin hmax hmn hc hv⟩

/-- a zero count is accepted like any other (the stores drop nothing and gain nothing) -/
theorem add_zero_count_noop_spec (env : MapEnv) (m : Option MapId) (cp cn : Content) (zq : Rat)
    (vq : Rat) (idx : Int) (mn mx : Rat)
    (hmin : env.minIndexable = .fin mn) (hmax : env.maxIndexable = .fin mx)
    (hmn : 0 ≤ mn) (hv : rabs vq ≤ mx) (hz : F64.isRep zq = true) :
    Sketch.addWithCount env (Sketch.spec m cp cn (.fin zq)) (.fin vq) (.fin 0) idx =
      some (.ok (Sketch.spec m cp cn (.fin zq))) := by
  rw [add_accepts env m cp cn (.fin zq) vq 0 idx mn mx hmin hmax hmn (by grind) hv]
  have hz' : F64.add (.fin zq) (.fin 0) = .fin zq := by
    simp only [F64.add, Rat.add_zero]
    simpa [F64.isRep] using hz
  simp [Content.add_zero_weight, hz']

/-! ### `GetValueAtQuantile` -/

theorem quantile_rejects (env : MapEnv) (s : Sketch) (q : F64)
    (h : (F64.le (.fin 0) q && F64.le q (.fin 1)) = false) :
    Sketch.quantile env s q = .error .badQuantile := by
  simp [Sketch.quantile, h]

theorem quantile_nan (env : MapEnv) (s : Sketch) : Sketch.quantile env s .nan = .error .badQuantile :=
  quantile_rejects env s .nan (by simp [le_nan_right])

theorem quantile_pinf (env : MapEnv) (s : Sketch) : Sketch.quantile env s .pinf = .error .badQuantile :=
  quantile_rejects env s .pinf (by decide)

theorem quantile_ninf (env : MapEnv) (s : Sketch) : Sketch.quantile env s .ninf = .error .badQuantile :=
  quantile_rejects env s .ninf (by decide)

theorem quantile_negative (env : MapEnv) (s : Sketch) (q : Rat) (hq : q < 0) :
    Sketch.quantile env s (.fin q) = .error .badQuantile := by
  apply quantile_rejects
  have : ¬ (0 : Rat) < q := by grind
  have : ¬ (0 : Rat) = q := by grind
  simp [F64.le, F64.lt, F64.eq, *]

theorem quantile_above_one (env : MapEnv) (s : Sketch) (q : Rat) (hq : 1 < q) :
    Sketch.quantile env s (.fin q) = .error .badQuantile := by
  apply quantile_rejects
  have : ¬ q < 1 := by grind
  have : ¬ q = 1 := by grind
  simp [F64.le, F64.lt, F64.eq, *]

/-- the valid quantiles are exactly the finite ones in `[0, 1]` -/
theorem quantile_valid_iff (q : F64) :
    (F64.le (.fin 0) q && F64.le q (.fin 1)) = true ↔ ∃ r : Rat, q = .fin r ∧ 0 ≤ r ∧ r ≤ 1 := by
  cases q with
  | fin r =>
    simp only [F64.le, F64.lt, F64.eq, Bool.and_eq_true, Bool.or_eq_true, decide_eq_true_eq,
      beq_iff_eq, F64.fin.injEq, exists_eq_left']
    grind
  | pinf => simp [F64.le, F64.lt, F64.eq]
  | ninf => simp [F64.le, F64.lt, F64.eq]
  | nan => simp [F64.le, F64.lt, F64.eq]

theorem quantile_empty (env : MapEnv) (s : Sketch) (q : F64)
    (hq : (F64.le (.fin 0) q && F64.le q (.fin 1)) = true) (he : s.getCount = .fin 0) :
    Sketch.quantile env s q = .error .empty := by
  simp [Sketch.quantile, hq, he, F64.eq]

theorem quantile_ok (env : MapEnv) (s : Sketch) (q : F64)
    (hq : (F64.le (.fin 0) q && F64.le q (.fin 1)) = true)
    (hne : F64.eq s.getCount (.fin 0) = false) :
    ∃ v, Sketch.quantile env s q = .ok v := by
  unfold Sketch.quantile
  simp only [hq, hne, Bool.not_true, Bool.false_eq_true, if_false]
  repeat' split
  all_goals exact ⟨_, rfl⟩

/-- the only refusals of `GetValueAtQuantile` are the two documented ones -/
theorem quantile_error_cases (env : MapEnv) (s : Sketch) (q : F64) (e : SkErr)
    (h : Sketch.quantile env s q = .error e) : e = .badQuantile ∨ e = .empty := by
  by_cases hq : (F64.le (.fin 0) q && F64.le q (.fin 1)) = true
  · by_cases hc : F64.eq s.getCount (.fin 0) = true
    · right
      simp [Sketch.quantile, hq, hc] at h
      exact h.symm
    · obtain ⟨v, hv⟩ := quantile_ok env s q hq (by simpa using hc)
      rw [hv] at h; cases h
  · left
    rw [quantile_rejects env s q (by simpa using hq)] at h
    cases h; rfl

/-- `GetValuesAtQuantiles` refuses as soon as one quantile is invalid -/
theorem quantiles_rejects (env : MapEnv) (s : Sketch) (qs : List F64) (q : F64) (hmem : q ∈ qs)
    (h : (F64.le (.fin 0) q && F64.le q (.fin 1)) = false)
    (hne : F64.eq s.getCount (.fin 0) = false) :
    Sketch.quantiles env s qs = .error .badQuantile := by
  unfold Sketch.quantiles
  induction qs with
  | nil => simp at hmem
  | cons a rest ih =>
    rw [List.mapM_cons]
    by_cases ha : (F64.le (.fin 0) a && F64.le a (.fin 1)) = true
    · obtain ⟨v, hv⟩ := quantile_ok env s a ha hne
      rcases List.mem_cons.1 hmem with rfl | hm
      · rw [h] at ha; cases ha
      · rw [hv, ih hm]; rfl
    · rw [quantile_rejects env s a (by simpa using ha)]; rfl

/-! ### `Reweight`, `MergeWith` -/

theorem reweight_rejects (s : Sketch) (w : F64) (h : F64.le w (.fin 0) = true) :
    s.reweight w = some (.error .nonPositiveFactor) := by
  simp [Sketch.reweight, h]

/-- a NaN factor is outside the model (Go: stores panic / propagate NaN); it is not accepted -/
theorem reweight_nan (s : Sketch) : s.reweight .nan = none := by
  simp [Sketch.reweight, le_nan_left, F64.eq, Sketch.ratOf?]

theorem reweight_one (s : Sketch) : s.reweight (.fin 1) = some (.ok s) := by
  have : ¬ (1 : Rat) < 0 := by decide +kernel
  simp [Sketch.reweight, F64.le, F64.lt, F64.eq, F64.one, this]

theorem merge_rejects (s o : Sketch) (h : Sketch.mappingEquals s.mapping o.mapping = false) :
    s.mergeWith o = some (.error .mismatch) := by
  simp [Sketch.mergeWith, h]

/-- different kinds of mapping never merge -/
theorem merge_rejects_kind (s o : Sketch) (a b : MapId) (ha : s.mapping = some a)
    (hb : o.mapping = some b) (hk : a.kind ≠ b.kind) :
    s.mergeWith o = some (.error .mismatch) := by
  apply merge_rejects
  simp [Sketch.mappingEquals, ha, hb, MapId.equals, hk]

/-- on spec sketches with equal mappings the merge is the pointwise sum -/
theorem merge_accepts_spec (m m' : Option MapId) (cp cn cp' cn' : Content) (z z' : F64)
    (h : Sketch.mappingEquals m m' = true) :
    (Sketch.spec m cp cn z).mergeWith (Sketch.spec m' cp' cn' z') =
      some (.ok (Sketch.spec m (cp.merge cp') (cn.merge cn') (F64.add z z'))) := by
  simp [Sketch.mergeWith, Sketch.spec, h, Store.mergeWith, Store.binsList]

/-! ### the variant with exact summary statistics -/

theorem exact_add_validates_first (env : MapEnv) (x : XSketch) (v c : F64) (idx : Int) (e : SkErr)
    (h : x.sk.addWithCount env v c idx = some (.error e)) :
    XSketch.addWithCount env x v c idx = some (.error e) := by
  simp [XSketch.addWithCount, h]

theorem exact_add_zero_weight_noop (env : MapEnv) (x : XSketch) (v : F64) (idx : Int) (sk : Sketch)
    (h : x.sk.addWithCount env v (.fin 0) idx = some (.ok sk)) :
    XSketch.addWithCount env x v (.fin 0) idx = some (.ok x) := by
  simp [XSketch.addWithCount, h, F64.eq]

/-- the zero-count corollaries of the refusals: the summary is NOT touched and the error is the
    plain sketch's -/
theorem exact_add_zero_weight_nan (env : MapEnv) (x : XSketch) (idx : Int) :
    XSketch.addWithCount env x .nan (.fin 0) idx = some (.error .nan) :=
  exact_add_validates_first env x .nan (.fin 0) idx .nan (add_nan env x.sk (.fin 0) idx (by decide))

theorem exact_add_accepted (env : MapEnv) (x : XSketch) (v c : F64) (idx : Int) (sk : Sketch)
    (h : x.sk.addWithCount env v c idx = some (.ok sk)) (hc : F64.eq c (.fin 0) = false) :
    XSketch.addWithCount env x v c idx = some (.ok { sk := sk, st := x.st.add v c }) := by
  simp [XSketch.addWithCount, h, hc]

/-! ### the hypotheses are satisfiable: a concrete environment and sketch -/

/-- a toy environment: bounds `1/1000` and `1000`, representative of bin `i` is `i + 1` for `i ≥ 0` -/
def envEx : MapEnv :=
  { id := { kind := .log, gamma := .fin 2, indexOffset := .fin 0 }
    minIndexable := .fin (1 / 1000)
    maxIndexable := .fin 1000
    relAcc := .fin (1 / 3)
    value := fun i => .fin ((i.toNat : Rat) + 1)
    lowerBound := fun i => .fin (i.toNat : Rat)
    index := fun _ => 0 }

def skEx : Sketch := Sketch.spec (some envEx.id) [(0, 2), (3, 1)] [(1, 1)] (.fin 1)

example : Sketch.addWithCount envEx skEx (.fin 5) (.fin (-1)) 2 = some (.error .negativeCount) :=
  add_negative_count envEx skEx _ _ 2 (by decide +kernel)
example : Sketch.addWithCount envEx skEx .nan (.fin (-1)) 2 = some (.error .negativeCount) :=
  add_negative_count envEx skEx _ _ 2 (by decide +kernel)
example : Sketch.addWithCount envEx skEx .nan (.fin 1) 2 = some (.error .nan) :=
  add_nan envEx skEx _ 2 (by decide +kernel)
example : Sketch.addWithCount envEx skEx .nan .nan 2 = some (.error .nan) :=
  add_nan envEx skEx _ 2 (by decide +kernel)
example : Sketch.addWithCount envEx skEx (.fin 1001) (.fin 1) 2 = some (.error .tooHigh) :=
  add_too_high envEx skEx _ _ 2 (by decide +kernel) (by decide +kernel) (by decide +kernel)
example : Sketch.addWithCount envEx skEx (.fin (-1001)) (.fin 1) 2 = some (.error .tooLow) :=
  add_too_low envEx skEx _ _ 2 (by decide +kernel) (by decide +kernel) (by decide +kernel) (by decide +kernel)
example : Sketch.addWithCount envEx skEx .pinf (.fin 1) 2 = some (.error .tooHigh) :=
  add_pos_inf envEx skEx _ 2 _ _ rfl rfl (by decide +kernel)
example : Sketch.addWithCount envEx skEx .ninf (.fin 1) 2 = some (.error .tooLow) :=
  add_neg_inf envEx skEx _ 2 _ _ rfl rfl (by decide +kernel)
example : Sketch.addWithCount envEx skEx (.fin 5) (.fin 1) 2 =
    some (.ok (Sketch.spec (some envEx.id) [(0, 2), (2, 1), (3, 1)] [(1, 1)] (.fin 1))) := by
  rw [skEx, add_accepts envEx _ _ _ _ 5 1 2 (1 / 1000) 1000 rfl rfl (by decide +kernel)
    (by decide +kernel) (by decide +kernel)]
  have h1 : ((1 : Rat) / 1000 < 5) := by decide +kernel
  have h2 : Content.add [(0, 2), (3, 1)] 2 1 = [(0, 2), (2, 1), (3, 1)] := by decide +kernel
  rw [if_pos h1, h2]
example : Sketch.addWithCount envEx skEx (.fin (-5)) (.fin 1) 1 =
    some (.ok (Sketch.spec (some envEx.id) [(0, 2), (3, 1)] [(1, 2)] (.fin 1))) := by
  rw [skEx, add_accepts envEx _ _ _ _ (-5) 1 1 (1 / 1000) 1000 rfl rfl (by decide +kernel)
    (by decide +kernel) (by decide +kernel)]
  have h1 : ¬ ((1 : Rat) / 1000 < -5) := by decide +kernel
  have h2 : ((-5 : Rat) < -(1 / 1000)) := by decide +kernel
  have h3 : Content.add [(1, 1)] 1 1 = [(1, 2)] := by decide +kernel
  rw [if_neg h1, if_pos h2, h3]
example : Sketch.addWithCount envEx skEx (.fin (1 / 2000)) (.fin 1) 7 =
    some (.ok (Sketch.spec (some envEx.id) [(0, 2), (3, 1)] [(1, 1)] (F64.add (.fin 1) (.fin 1)))) := by
  rw [skEx, add_accepts envEx _ _ _ _ (1 / 2000) 1 7 (1 / 1000) 1000 rfl rfl (by decide +kernel)
    (by decide +kernel) (by decide +kernel)]
  have h1 : ¬ ((1 : Rat) / 1000 < 1 / 2000) := by decide +kernel
  have h2 : ¬ ((1 : Rat) / 2000 < -(1 / 1000)) := by decide +kernel
  rw [if_neg h1, if_neg h2]
example : Sketch.quantile envEx skEx (.fin (3 / 2)) = .error .badQuantile :=
  quantile_rejects envEx skEx _ (by decide +kernel)
example : Sketch.quantile envEx (Sketch.new (some envEx.id) .sparse) (.fin (1 / 2)) = .error .empty :=
  quantile_empty envEx _ _ (by decide +kernel) (by decide +kernel)
example : Sketch.quantile envEx (Sketch.new (some envEx.id) .dense) (.fin (1 / 2)) = .error .empty :=
  quantile_empty envEx _ _ (by decide +kernel) (by decide +kernel)
example : skEx.reweight (.fin 0) = some (.error .nonPositiveFactor) :=
  reweight_rejects skEx _ (by decide +kernel)
example : skEx.reweight .ninf = some (.error .nonPositiveFactor) :=
  reweight_rejects skEx _ (by decide +kernel)
example : skEx.mergeWith (Sketch.new none .sparse) = some (.error .mismatch) :=
  merge_rejects skEx _ (by decide +kernel)
example : XSketch.addWithCount envEx { sk := skEx, st := Summary.new } .nan (.fin 0) 0 =
    some (.error .nan) := exact_add_zero_weight_nan envEx _ 0

end DDS.Props.C13
