/-
  DDS.Props.C06 — round trip of the binary encoding: `decode (encode s) = s`, for every store kind
  as producer (sparse, dense, lowest/highest-collapsing dense, buffered paginated), the consumer being
  the spec sketch (both stores plain finite maps); the refinement of the other consumers is the
  store-level `addWithCount` refinement proved per kind.

  Proofs are in `DDS.Proofs.RoundTrip`.  Vocabulary defined there:
  * `VfOK w` — `Codec.VarfloatExact w = true`: the weight survives the documented `+1 / −1` float
    transform.  `WOK w` — `F64.isRep w = true ∧ VfOK w`: a weight as the library holds it (a binary64)
    that survives it.  `VfOK` ALONE DOES NOT give the round trip of a weight, see `vfOK_not_enough`.
  * `Keys32 c` — every index of the content is an int32 (`PStore.Idx32`).
  * `sideBins d side` — `d.pos` or `d.neg` of a documentation content `Wire.Doc`.
  * `DenseOK s` — what the dense encoder uses of a dense store of any of the three kinds; follows
    from `DStore.Inv` + `Bounded32` (plain), `InvLow` / `InvHigh` + `Tight32` (collapsing), plus
    `WOK` of every weight.
  * `PagOK s` — `PStore.Inv s`, `s.buffer.length < 2^64`, and `WOK (s.line j + k)` for every
    `k ≤ s.buffer.count j` (compaction moves buffered unit entries onto their page line).
  * `EncOK st` — `Keys32` + `WOK` weights / `DenseOK` / `PagOK` according to the store kind.
  * `MapOK m` — gamma and offset survive their bit patterns and `¬ gamma ≤ 1`;
    `MapFinite m` — both are finite floats (then `m.Equals m`, `equals_self`).
  * `StatsOK st c S mn mx` — the summary exposes finite count / sum / min / max, `WOK c`, `0 < c`,
    `mn ≤ mx`.  `restored c S mn mx` — count `c`, sum `S`, compensation 0, simple sum `S`, min, max.
  * `statBlocks st` — the (up to four) statistics blocks `XSketch.encode` writes first.

  Scope notes.
  * The consumer is always a spec sketch.  For the collapsing dense kinds the caller supplies
    `Store.Refines` (no refinement theorem for them exists yet); the store-level statement
    `encodeStore_collapsing_denotes` needs only `InvLow`/`InvHigh` + `Tight32`.
  * `MapOK` does not ask for a finite gamma: the decoder (as the Go constructors) rejects only
    `gamma <= 1`, which is false for NaN.
  * FALSE as first stated, with the counterexample: "`VfOK w → vfValue (vfBits w) = fin w`"
    (`vfOK_not_enough`); the extra hypothesis is `F64.isRep w` (the weight is a float), bundled in `WOK`.
-/
import DDS.Proofs.RoundTrip

namespace DDS.Props.C06

open DDS DDS.Wire DDS.RoundTrip

/-! ### weights -/

/-- the float the decoder computes from the bits the encoder writes is the weight -/
theorem vfValue_vfBits (w : Rat) (h : WOK w) : Wire.vfValue (Sketch.vfBits w) = .fin w :=
  RoundTrip.vfValue_vfBits w h

/-- `VfOK` alone is not enough: the rational `2^53 + 1` is not a float; `w + 1 = 2^53 + 2` is one,
    and `(w + 1) − 1` rounds to `2^53` -/
theorem vfOK_not_enough :
    VfOK 9007199254740993 ∧
    Wire.vfValue (Sketch.vfBits 9007199254740993) = .fin 9007199254740992 := by
  constructor
  · unfold VfOK; decide +kernel
  · decide +kernel

/-- for a float weight, `VfOK` is "`w + 1` is a float" -/
theorem vfOK_iff (w : Rat) : VfOK w ↔ F64.isRep (w + 1) = true :=
  ⟨RoundTrip.vfOK_isRep_succ w, RoundTrip.vfOK_of_isRep_succ w⟩

theorem wOK_nat (n : Nat) (hn : n < 2 ^ 53) : WOK (n : Rat) := RoundTrip.wOK_nat n hn

theorem wOK_dyadic (k g : Nat) (hg : g ≤ 52) (hk : k < 2 ^ (53 - g)) : WOK ((k : Rat) / 2 ^ g) :=
  RoundTrip.wOK_dyadic k g hg hk

example : WOK 12345 := by have := wOK_nat 12345 (by norm_num); simpa using this
example : WOK (3 / 8) := by have := wOK_dyadic 3 3 (by norm_num) (by norm_num); norm_num at this; exact this
example : Wire.vfValue (Sketch.vfBits (3 / 8)) = .fin (3 / 8) := vfValue_vfBits _ (by decide +kernel)
-- a weight the transform does not preserve: `2^-60 + 1` rounds to 1
example : ¬ VfOK (1 / 2 ^ 60) := by unfold VfOK; decide +kernel

/-! ### what the encoder writes denotes the store's content -/

/-- sparse store -/
theorem encodeStore_sparse_denotes (c : Content) (hc : c.WF) (hw : ∀ p ∈ c, WOK p.2)
    (hk : Keys32 c) (side : Side) :
    ∃ bl, Sketch.encodeStore (.sp c) side = some (.sp c, bl) ∧
      (∀ b ∈ bl, b.WF ∧ b.FiniteWeights) ∧
      Wire.contentOf (sideBins (Wire.interp bl) side) = some c := by
  obtain ⟨bl, h1, h2, h3⟩ := RoundTrip.encodeStore_sparse c hc hw hk side
  exact ⟨bl, h1, fun b hb => ⟨(h2 b hb).1, (h2 b hb).2.1⟩, h3.contentOf hc⟩

/-- plain dense store, BOTH layouts (contiguous with the zero counts of the window, or index
    deltas of the non-zero counts): zero counts add nothing -/
theorem encodeStore_dense_denotes (s : DStore) (h : DStore.Inv s) (hb : DStore.Bounded32 s)
    (hw : ∀ j, WOK (DStore.wt s j)) (side : Side) :
    ∃ (bl : List Block) (c : Content), Sketch.encodeStore (.d s) side = some (.d s, bl) ∧
      (∀ b ∈ bl, b.WF ∧ b.FiniteWeights) ∧
      c.WF ∧ (∀ j, c.lookup j = DStore.wt s j) ∧ s.binsList = some c ∧
      Wire.contentOf (sideBins (Wire.interp bl) side) = some c := by
  have hd := RoundTrip.denseOK_of_inv s h hb hw
  obtain ⟨e1, e2, e3⟩ := hd.content_spec
  obtain ⟨bl, h1, h2, h3⟩ := RoundTrip.encodeDense_denotes s hd _ e3 side
  exact ⟨bl, _, h1, fun b hb => ⟨(h2 b hb).1, (h2 b hb).2.1⟩, e2, e3, e1, h3.contentOf e2⟩

/-- collapsing dense stores: the same encoder on a `.low N` / `.high N` store -/
theorem encodeStore_collapsing_denotes (s : DStore) (N : Nat)
    (h : DStore.InvLow N s ∨ DStore.InvHigh N s) (ht : DStore.Tight32 s)
    (hw : ∀ j, WOK (DStore.wt s j)) (side : Side) :
    ∃ (bl : List Block) (c : Content), Sketch.encodeStore (.d s) side = some (.d s, bl) ∧
      (∀ b ∈ bl, b.WF ∧ b.FiniteWeights) ∧
      c.WF ∧ (∀ j, c.lookup j = DStore.wt s j) ∧ s.binsList = some c ∧
      Wire.contentOf (sideBins (Wire.interp bl) side) = some c := by
  have hd : DenseOK s := h.elim (fun h => RoundTrip.denseOK_of_invLow N s h ht hw)
    (fun h => RoundTrip.denseOK_of_invHigh N s h ht hw)
  obtain ⟨e1, e2, e3⟩ := hd.content_spec
  obtain ⟨bl, h1, h2, h3⟩ := RoundTrip.encodeDense_denotes s hd _ e3 side
  exact ⟨bl, _, h1, fun b hb => ⟨(h2 b hb).1, (h2 b hb).2.1⟩, e2, e3, e1, h3.contentOf e2⟩

/-- paginated store: the encoder compacts first; the compacted store has the same content -/
theorem encodeStore_pag_denotes (s : PStore) (h : PagOK s) (side : Side) :
    ∃ s' bl, Sketch.encodeStore (.pg s) side = some (.pg s', bl) ∧ PStore.Inv s' ∧
      PStore.content s' = PStore.content s ∧ (∀ b ∈ bl, b.WF ∧ b.FiniteWeights) ∧
      Wire.contentOf (sideBins (Wire.interp bl) side) = some (PStore.content s) := by
  obtain ⟨s', _, h2, h3, bl, h4, h5, h6⟩ := RoundTrip.storeEncodes_pag s h side
  exact ⟨s', bl, h4, h2, h3, fun b hb => ⟨(h5 b hb).1, (h5 b hb).2.1⟩,
    h6.contentOf (PStore.content_wf s h.inv)⟩

/-! ### the sketch-level round trip -/

/-- Producer of any store kinds, consumer a fresh spec sketch: the decoded sketch has the
    producer's mapping, zero bucket and contents.  (`0 ≤ z` is not needed.) -/
theorem decode_encode (s : Sketch) (cp cn : Content) (hs : s.Refines cp cn)
    (hp : EncOK s.pos) (hn : EncOK s.neg)
    (m : MapId) (hm : s.mapping = some m) (hmk : MapOK m)
    (z : Rat) (hz : s.zero = .fin z) (hzw : WOK z) (omitMapping : Bool) :
    ∃ s' bl, s.encode omitMapping = some (s', bl) ∧ (∀ b ∈ bl, b.WF ∧ b.FiniteWeights) ∧
      Sketch.decodeAndMergeWith (Sketch.new (if omitMapping then some m else none) .sparse)
        (Wire.encBlocks bl) = some (.ok (Sketch.spec (some m) cp cn (.fin z))) := by
  obtain ⟨s', bl, he⟩ := RoundTrip.encode_ok s cp cn hs hp hn m hm z hz omitMapping
  have hd := he.decode hmk hzw (if omitMapping then some m else none)
    (by cases omitMapping <;> simp [Accepts]) [] [] Content.wf_nil Content.wf_nil (.fin 0)
  rw [Content.merge_nil_left cp hs.pos.wf, Content.merge_nil_left cn hs.neg.wf,
    RoundTrip.zeroAfter_zero z hzw] at hd
  obtain ⟨pb, nb, _, henc, _⟩ := id he
  exact ⟨s', bl, henc, fun b hb => ⟨he.wf b hb, he.finite b hb⟩, hd⟩

/-- Decoding into a NON-EMPTY spec sketch with the same mapping is a merge: contents add up
    pointwise, the zero buckets add (exactness of that float addition is the hypothesis `hadd`). -/
theorem decode_into_nonempty_is_merge (s : Sketch) (cp cn : Content) (hs : s.Refines cp cn)
    (hp : EncOK s.pos) (hn : EncOK s.neg)
    (m : MapId) (hm : s.mapping = some m) (hmk : MapOK m) (hmf : MapFinite m)
    (z : Rat) (hz : s.zero = .fin z) (hzw : WOK z) (omitMapping : Bool)
    (a b : Content) (ha : a.WF) (hb : b.WF) (z₀ : Rat)
    (hadd : F64.add (.fin z₀) (.fin z) = .fin (z₀ + z)) :
    ∃ s' bl, s.encode omitMapping = some (s', bl) ∧
      Sketch.decodeAndMergeWith (Sketch.spec (some m) a b (.fin z₀)) (Wire.encBlocks bl) =
        some (.ok (Sketch.spec (some m) (a.merge cp) (b.merge cn) (.fin (z₀ + z)))) := by
  obtain ⟨s', bl, he⟩ := RoundTrip.encode_ok s cp cn hs hp hn m hm z hz omitMapping
  have hd := he.decode hmk hzw (some m)
    (by cases omitMapping
        · simpa using RoundTrip.accepts_self m hmf
        · simp) a b ha hb (.fin z₀)
  rw [RoundTrip.zeroAfter_exact z₀ z hadd] at hd
  obtain ⟨pb, nb, _, henc, _⟩ := id he
  exact ⟨s', bl, henc, hd⟩

/-- decoding a concatenation of two encoded streams = decoding the second stream into the result of
    decoding the first (ANY store kind; block lists only need to be well formed) -/
theorem decode_concat (bl₁ bl₂ : List Block) (h₁ : ∀ b ∈ bl₁, b.WF) (h₂ : ∀ b ∈ bl₂, b.WF)
    (s s₁ : Sketch)
    (hd : Sketch.decodeAndMergeWith s (Wire.encBlocks bl₁) = some (.ok s₁)) :
    Sketch.decodeAndMergeWith s (Wire.encBlocks bl₁ ++ Wire.encBlocks bl₂) =
      Sketch.decodeAndMergeWith s₁ (Wire.encBlocks bl₂) :=
  RoundTrip.decode_concat bl₁ bl₂ h₁ h₂ s s₁ hd

/-- loop-level form, without the final "mapping present" check and for any statistics state -/
theorem decodeLoop_concat (bl₁ bl₂ : List Block) (h₁ : ∀ b ∈ bl₁, b.WF) (h₂ : ∀ b ∈ bl₂, b.WF)
    (fuel : Nat) (hf : bl₁.length + bl₂.length ≤ fuel) (s : Sketch) (aux : Sketch.DecAux) :
    Sketch.decodeLoop fuel s aux (Wire.encBlocks bl₁ ++ Wire.encBlocks bl₂) =
      Sketch.andThen (Sketch.applyBlocks s aux bl₁)
        (fun s' aux' => Sketch.applyBlocks s' aux' bl₂) :=
  RoundTrip.decodeLoop_concat bl₁ bl₂ h₁ h₂ fuel hf s aux

/-- `Encode(b, …)` appends: the model's `Sketch.encode` takes no buffer at all (its result is a
    function of the sketch and the flag), and the bytes of "what was there, then the sketch" are
    the bytes that were there followed by the bytes of the sketch -/
theorem encode_appends (s : Sketch) (omitMapping : Bool) (s' : Sketch) (bl : List Block)
    (_h : s.encode omitMapping = some (s', bl)) (pre : List Block) :
    Wire.encBlocks (pre ++ bl) = Wire.encBlocks pre ++ Wire.encBlocks bl :=
  Wire.encBlocks_append pre bl

/-- `Encode` is observably pure: the returned sketch observes like the same contents and has the
    same mapping and zero bucket (the paginated store compacts, nothing else changes) -/
theorem encode_observably_pure (s : Sketch) (cp cn : Content) (hs : s.Refines cp cn)
    (hp : EncOK s.pos) (hn : EncOK s.neg)
    (m : MapId) (hm : s.mapping = some m) (z : Rat) (hz : s.zero = .fin z) (omitMapping : Bool) :
    ∃ s' bl, s.encode omitMapping = some (s', bl) ∧ s'.Refines cp cn ∧
      s'.mapping = s.mapping ∧ s'.zero = s.zero := by
  obtain ⟨s', bl, pb, nb, _, henc, hr, h1, h2, _⟩ :=
    RoundTrip.encode_ok s cp cn hs hp hn m hm z hz omitMapping
  exact ⟨s', bl, henc, hr, by rw [h1, hm], by rw [h2, hz]⟩

/-! ### the variant with exact summary statistics -/

/-- `XSketch.encode` = the statistics blocks, then the blocks of the inner sketch -/
theorem xencode_eq (x : XSketch) (omitMapping : Bool) :
    x.encode omitMapping = (x.sk.encode omitMapping).map
      (fun r => ({ x with sk := r.1 }, statBlocks x.st ++ r.2)) :=
  RoundTrip.xencode_eq x omitMapping

/-- round trip of the exact-summary variant into a fresh one: the sketch as in `decode_encode`, and
    the four statistics blocks restore count, sum (added into a fresh summary: compensation 0),
    min and max -/
theorem xsketch_decode_encode (x : XSketch) (cp cn : Content) (hs : x.sk.Refines cp cn)
    (hp : EncOK x.sk.pos) (hn : EncOK x.sk.neg)
    (m : MapId) (hm : x.sk.mapping = some m) (hmk : MapOK m)
    (z : Rat) (hz : x.sk.zero = .fin z) (hzw : WOK z)
    (c S mn mx : Rat) (hst : StatsOK x.st c S mn mx) (omitMapping : Bool) :
    ∃ x' bl, x.encode omitMapping = some (x', bl) ∧
      XSketch.decodeAndMergeWith (XSketch.new (if omitMapping then some m else none) .sparse)
        (Wire.encBlocks bl) =
        some (.ok { sk := Sketch.spec (some m) cp cn (.fin z), st := restored c S mn mx }) := by
  obtain ⟨s', bl, he⟩ := RoundTrip.encode_ok x.sk cp cn hs hp hn m hm z hz omitMapping
  obtain ⟨pb, nb, _, henc, _⟩ := id he
  refine ⟨{ x with sk := s' }, statBlocks x.st ++ bl, by rw [xencode_eq, henc]; rfl, ?_⟩
  have hd := fun aux => he.applyBlocks hmk hzw (if omitMapping then some m else none)
    (by cases omitMapping <;> simp [Accepts]) [] [] Content.wf_nil Content.wf_nil (.fin 0) aux
  rw [Content.merge_nil_left cp hs.pos.wf, Content.merge_nil_left cn hs.neg.wf,
    RoundTrip.zeroAfter_zero z hzw] at hd
  exact RoundTrip.xdecode_encBlocks x.st c S mn mx hst _ _ bl he.wf hd rfl

/-- the plain decoder on the bytes of `XSketch.encode` behaves exactly as on the bytes of the inner
    `Sketch.encode`: the statistics blocks are skipped (ANY receiver, any store kinds) -/
theorem plain_decodes_exact (x x' : XSketch) (omitMapping : Bool) (xbl : List Block)
    (hx : x.encode omitMapping = some (x', xbl)) :
    ∃ sk' bl, x.sk.encode omitMapping = some (sk', bl) ∧ x'.sk = sk' ∧
      xbl = statBlocks x.st ++ bl ∧
      ∀ r : Sketch, (∀ b ∈ bl, b.WF) →
        Sketch.decodeAndMergeWith r (Wire.encBlocks xbl) =
          Sketch.decodeAndMergeWith r (Wire.encBlocks bl) := by
  rw [xencode_eq] at hx
  cases he : x.sk.encode omitMapping with
  | none => rw [he] at hx; simp at hx
  | some r =>
    obtain ⟨sk', bl⟩ := r
    rw [he] at hx
    simp only [Option.map_some, Option.some.injEq, Prod.mk.injEq] at hx
    obtain ⟨h1, h2⟩ := hx
    refine ⟨sk', bl, rfl, by rw [← h1], h2.symm, fun r hwf => ?_⟩
    rw [← h2]
    exact RoundTrip.plain_skips_stats x.st r bl hwf

/-! ### concrete instances -/

section Examples

/-- logarithmic mapping, gamma = 1.125 -/
def exM : MapId := { kind := .log, gamma := .fin (9 / 8), indexOffset := .fin 0 }

theorem exM_ok : MapOK exM := ⟨by decide +kernel, by decide +kernel, by decide +kernel⟩
theorem exM_fin : MapFinite exM := ⟨⟨_, rfl⟩, ⟨_, rfl⟩⟩

/-- a plain dense store holding weights 2, 0, 1, 3 at the indexes 5 … 8 (contiguous layout, with
    a zero count inside the window) -/
def exD : DStore :=
  { kind := .plain, bins := #[2, 0, 1, 3], count := 6, offset := 5, minIndex := 5, maxIndex := 8,
    isCollapsed := false }

theorem exD_arr : ArrayStore exD := arrayStore_of_b _ (by decide +kernel)

/-- a plain dense store with two far-apart bins (sparse layout) -/
def exD2 : DStore :=
  { kind := .plain, bins := #[1, 0, 0, 0, 0, 0, 0, 0, 0, 0, 0, 0, 0, 0, 0, 0, 0, 0, 0, 3], count := 4,
    offset := -9, minIndex := -9, maxIndex := 10, isCollapsed := false }

theorem exD2_arr : ArrayStore exD2 := arrayStore_of_b _ (by decide +kernel)

/-- a lowest-collapsing dense store (limit 4) -/
def exL : DStore := { exD with kind := .low 4 }
theorem exL_arr : ArrayStore exL := arrayStore_of_b _ (by decide +kernel)

/-- a highest-collapsing dense store (limit 4) -/
def exH : DStore := { exD with kind := .high 4 }
theorem exH_arr : ArrayStore exH := arrayStore_of_b _ (by decide +kernel)

/-- a paginated store with four buffered unit entries -/
def exP : PStore := { PStore.new with buffer := [3, 1, 2, 1], trigger := 64 }

theorem exP_ok : PagOK exP := pagOK_buffer_only _ _ (by decide) (by decide)

-- the two dense layouts are both exercised
example : Sketch.encodeDense exD .pos
    = some [.bins .pos (.contiguous 5 1
        [0x4008000000000000, 0x3ff0000000000000, 0x4000000000000000, 0x4010000000000000])] := by
  decide +kernel
example : Sketch.encodeDense exD2 .pos
    = some [.bins .pos (.deltasCounts [(-9, 0x4000000000000000), (19, 0x4010000000000000)])] := by
  decide +kernel

example : ∃ bl, Sketch.encodeStore (.sp [(-3, 2), (5, 1 / 2)]) .neg = some (.sp [(-3, 2), (5, 1 / 2)], bl) ∧
    (∀ b ∈ bl, b.WF ∧ b.FiniteWeights) ∧
    Wire.contentOf (sideBins (Wire.interp bl) .neg) = some [(-3, 2), (5, 1 / 2)] :=
  encodeStore_sparse_denotes _ (wf_of_wfb _ (by decide +kernel)) (by decide +kernel)
    (by decide +kernel) .neg

example : ∃ (bl : List Block) (c : Content), Sketch.encodeStore (.d exD) .pos = some (.d exD, bl) ∧
    (∀ b ∈ bl, b.WF ∧ b.FiniteWeights) ∧ c.WF ∧ (∀ j, c.lookup j = DStore.wt exD j) ∧
    exD.binsList = some c ∧ Wire.contentOf (sideBins (Wire.interp bl) .pos) = some c :=
  encodeStore_dense_denotes exD (exD_arr.inv rfl) exD_arr.bounded32 exD_arr.wt_wok .pos

example : ∃ (bl : List Block) (c : Content), Sketch.encodeStore (.d exD2) .neg = some (.d exD2, bl) ∧
    (∀ b ∈ bl, b.WF ∧ b.FiniteWeights) ∧ c.WF ∧ (∀ j, c.lookup j = DStore.wt exD2 j) ∧
    exD2.binsList = some c ∧ Wire.contentOf (sideBins (Wire.interp bl) .neg) = some c :=
  encodeStore_dense_denotes exD2 (exD2_arr.inv rfl) exD2_arr.bounded32 exD2_arr.wt_wok .neg

example : ∃ (bl : List Block) (c : Content), Sketch.encodeStore (.d exL) .pos = some (.d exL, bl) ∧
    (∀ b ∈ bl, b.WF ∧ b.FiniteWeights) ∧ c.WF ∧ (∀ j, c.lookup j = DStore.wt exL j) ∧
    exL.binsList = some c ∧ Wire.contentOf (sideBins (Wire.interp bl) .pos) = some c :=
  encodeStore_collapsing_denotes exL 4 (.inl (exL_arr.invLow 4 rfl (by decide) rfl)) exL_arr.tight32
    exL_arr.wt_wok .pos

example : ∃ (bl : List Block) (c : Content), Sketch.encodeStore (.d exH) .pos = some (.d exH, bl) ∧
    (∀ b ∈ bl, b.WF ∧ b.FiniteWeights) ∧ c.WF ∧ (∀ j, c.lookup j = DStore.wt exH j) ∧
    exH.binsList = some c ∧ Wire.contentOf (sideBins (Wire.interp bl) .pos) = some c :=
  encodeStore_collapsing_denotes exH 4 (.inr (exH_arr.invHigh 4 rfl (by decide) rfl)) exH_arr.tight32
    exH_arr.wt_wok .pos

theorem exP_content : PStore.content exP = [(1, 2), (2, 1), (3, 1)] := by
  rw [show exP = { PStore.new with buffer := [3, 1, 2, 1], trigger := 64 } from rfl,
    content_buffer_only _ _ (by decide)]
  decide +kernel

example : ∃ s' bl, Sketch.encodeStore (.pg exP) .pos = some (.pg s', bl) ∧ PStore.Inv s' ∧
    PStore.content s' = PStore.content exP ∧ (∀ b ∈ bl, b.WF ∧ b.FiniteWeights) ∧
    Wire.contentOf (sideBins (Wire.interp bl) .pos) = some (PStore.content exP) :=
  encodeStore_pag_denotes exP exP_ok .pos

/-- a sketch with a dense positive store, a paginated negative store and a zero bucket -/
def exS : Sketch := { mapping := some exM, pos := .d exD, neg := .pg exP, zero := .fin (3 / 4) }

def exCp : Content := [(5, 2), (7, 1), (8, 3)]
def exCn : Content := [(1, 2), (2, 1), (3, 1)]

theorem exD_lookup (j : Int) : exCp.lookup j = DStore.wt exD j := by
  have h : ∀ k : Nat, k < 4 → exCp.lookup (5 + (k : Int)) = DStore.wt exD (5 + (k : Int)) := by
    decide +kernel
  by_cases hj : 5 ≤ j ∧ j ≤ 8
  · have := h (j - 5).toNat (by omega)
    rwa [show (5 : Int) + ((j - 5).toNat : Int) = j by omega] at this
  · rw [exD_arr.outside j (by simp only [exD]; omega)]
    have : ¬ (5 = j) ∧ ¬ (7 = j) ∧ ¬ (8 = j) := by omega
    simp [exCp, Content.lookup, this.1, this.2.1, this.2.2]

theorem exS_refines : exS.Refines exCp exCn :=
  ⟨exD_arr.refines rfl exCp (wf_of_wfb _ (by decide +kernel)) exD_lookup, by
    have := RoundTrip.refines_pag exP exP_ok.inv
    rwa [exP_content] at this⟩

theorem exS_pos : EncOK exS.pos := denseOK_of_inv exD (exD_arr.inv rfl) exD_arr.bounded32 exD_arr.wt_wok
theorem exS_neg : EncOK exS.neg := exP_ok

example (om : Bool) : ∃ s' bl, exS.encode om = some (s', bl) ∧ (∀ b ∈ bl, b.WF ∧ b.FiniteWeights) ∧
    Sketch.decodeAndMergeWith (Sketch.new (if om then some exM else none) .sparse) (Wire.encBlocks bl)
      = some (.ok (Sketch.spec (some exM) exCp exCn (.fin (3 / 4)))) :=
  decode_encode exS exCp exCn exS_refines exS_pos exS_neg exM rfl exM_ok (3 / 4) rfl
    (by decide +kernel) om

-- merging into a receiver that already holds data
example : ∃ s' bl, exS.encode false = some (s', bl) ∧
    Sketch.decodeAndMergeWith (Sketch.spec (some exM) [(5, 1)] [(0, 4)] (.fin (1 / 4))) (Wire.encBlocks bl)
      = some (.ok (Sketch.spec (some exM) [(5, 3), (7, 1), (8, 3)] [(0, 4), (1, 2), (2, 1), (3, 1)] (.fin 1))) := by
  have := decode_into_nonempty_is_merge exS exCp exCn exS_refines exS_pos exS_neg exM rfl exM_ok
    exM_fin (3 / 4) rfl (by decide +kernel) false [(5, 1)] [(0, 4)] (wf_of_wfb _ (by decide +kernel))
    (wf_of_wfb _ (by decide +kernel)) (1 / 4) (by decide +kernel)
  rwa [show Content.merge [(5, 1)] exCp = [(5, 3), (7, 1), (8, 3)] by decide +kernel,
    show Content.merge [(0, 4)] exCn = [(0, 4), (1, 2), (2, 1), (3, 1)] by decide +kernel,
    show ((1 : Rat) / 4 + 3 / 4) = 1 by norm_num] at this

-- the sketch encoded twice into one stream decodes to the sketch merged with itself
example : ∃ s' bl, exS.encode false = some (s', bl) ∧
    Sketch.decodeAndMergeWith (Sketch.new none .sparse) (Wire.encBlocks bl ++ Wire.encBlocks bl)
      = some (.ok (Sketch.spec (some exM) [(5, 4), (7, 2), (8, 6)] [(1, 4), (2, 2), (3, 2)] (.fin (3 / 2)))) := by
  obtain ⟨s', bl, h1, h2, h3⟩ := decode_encode exS exCp exCn exS_refines exS_pos exS_neg exM rfl exM_ok
    (3 / 4) rfl (by decide +kernel) false
  obtain ⟨s'', bl', h1', h4⟩ := decode_into_nonempty_is_merge exS exCp exCn exS_refines exS_pos exS_neg
    exM rfl exM_ok exM_fin (3 / 4) rfl (by decide +kernel) false exCp exCn
    (wf_of_wfb _ (by decide +kernel)) (wf_of_wfb _ (by decide +kernel)) (3 / 4) (by decide +kernel)
  rw [h1] at h1'
  obtain ⟨rfl, rfl⟩ := Prod.mk.inj (Option.some.inj h1')
  simp only [Bool.false_eq_true, if_false] at h3
  refine ⟨s', bl, h1, ?_⟩
  rw [decode_concat bl bl (fun b hb => (h2 b hb).1) (fun b hb => (h2 b hb).1) _ _ h3, h4,
    show Content.merge exCp exCp = [(5, 4), (7, 2), (8, 6)] by decide +kernel,
    show Content.merge exCn exCn = [(1, 4), (2, 2), (3, 2)] by decide +kernel,
    show ((3 : Rat) / 4 + 3 / 4) = 3 / 2 by norm_num]

example : ∃ s' bl, exS.encode false = some (s', bl) ∧
    ∀ pre, Wire.encBlocks (pre ++ bl) = Wire.encBlocks pre ++ Wire.encBlocks bl := by
  obtain ⟨s', bl, h, _⟩ :=
    encode_observably_pure exS exCp exCn exS_refines exS_pos exS_neg exM rfl (3 / 4) rfl false
  exact ⟨s', bl, h, encode_appends exS false s' bl h⟩

example : Sketch.decodeLoop 2 (Sketch.new none .sparse) { stats := none }
      (Wire.encBlocks [exM.toBlock] ++ Wire.encBlocks [.zeroCount 0x3ffc000000000000]) =
    Sketch.andThen (Sketch.applyBlocks (Sketch.new none .sparse) { stats := none } [exM.toBlock])
      (fun s' aux' => Sketch.applyBlocks s' aux' [.zeroCount 0x3ffc000000000000]) :=
  decodeLoop_concat _ _ (by decide +kernel) (by decide +kernel) 2 (by decide) _ _

example : ∃ s' bl, exS.encode true = some (s', bl) ∧ s'.Refines exCp exCn ∧
    s'.mapping = exS.mapping ∧ s'.zero = exS.zero :=
  encode_observably_pure exS exCp exCn exS_refines exS_pos exS_neg exM rfl (3 / 4) rfl true

/-- the exact-summary variant around `exS`: total weight 43/4, sum 10, min −3, max 9 -/
def exX : XSketch :=
  { sk := exS, st := { count := .fin (43 / 4), sum := .fin 10, sumCompensation := .fin 0,
                       simpleSum := .fin 10, min := .fin (-3), max := .fin 9 } }

theorem exX_stats : StatsOK exX.st (43 / 4) 10 (-3) 9 :=
  ⟨rfl, by decide +kernel, by decide +kernel, by decide +kernel, by decide +kernel, rfl, rfl,
    by decide +kernel, by decide +kernel, by decide +kernel⟩

example : ∃ x' bl, exX.encode false = some (x', bl) ∧
    XSketch.decodeAndMergeWith (XSketch.new none .sparse) (Wire.encBlocks bl) =
      some (.ok { sk := Sketch.spec (some exM) exCp exCn (.fin (3 / 4)),
                  st := { count := .fin (43 / 4), sum := .fin 10, sumCompensation := .fin 0,
                          simpleSum := .fin 10, min := .fin (-3), max := .fin 9 } }) :=
  xsketch_decode_encode exX exCp exCn exS_refines exS_pos exS_neg exM rfl exM_ok (3 / 4) rfl
    (by decide +kernel) (43 / 4) 10 (-3) 9 exX_stats false

-- the plain decoder reads the exact-summary encoding: same sketch, statistics ignored
example : ∃ x' xbl, exX.encode false = some (x', xbl) ∧
    Sketch.decodeAndMergeWith (Sketch.new none .sparse) (Wire.encBlocks xbl) =
      some (.ok (Sketch.spec (some exM) exCp exCn (.fin (3 / 4)))) := by
  obtain ⟨s', bl, h1, h2, h3⟩ := decode_encode exS exCp exCn exS_refines exS_pos exS_neg exM rfl exM_ok
    (3 / 4) rfl (by decide +kernel) false
  have hx : exX.encode false = some ({ exX with sk := s' }, statBlocks exX.st ++ bl) := by
    rw [xencode_eq]
    show Option.map _ (exS.encode false) = _
    rw [h1]; rfl
  obtain ⟨sk', bl', e1, _, e3, e4⟩ := plain_decodes_exact exX _ false _ hx
  have : bl' = bl := by
    have e1' : exS.encode false = some (sk', bl') := e1
    rw [h1] at e1'
    exact (Prod.mk.inj (Option.some.inj e1')).2.symm
  subst this
  exact ⟨_, _, hx, by rw [e4 _ (fun b hb => (h2 b hb).1)]; exact h3⟩

end Examples

end DDS.Props.C06
