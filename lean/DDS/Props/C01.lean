/-
  DDS.Props.C01 — THE DDSketch guarantee, machine-checked on the model of
  `ddsketch/ddsketch.go` (`DDS.Model.Sketch`): after adding values with unit weights, the answer
  of `GetValueAtQuantile(q)` is within relative error `α` of an order statistic of rank
  `⌊q(n-1)⌋` or `⌈q(n-1)⌉` of the inputs.

  Scope: sparse stores (= the spec content, `Store.sp`), unit weights, `n ≤ 2^53` values of
  magnitude `≤ maxIndexable`; the mapping is the oracle `env` assumed to meet `Contract env α mn mx`
  (C03 proves the contract for the ideal formulas).  ALL the float arithmetic of
  `GetValueAtQuantile` is the exact binary64 model (`F64`): the counts add up exactly, the rank
  `q·(count-1)` is ROUNDED (it lands between the neighbouring integers), and so are the two
  subtractions `negCount-1-rank` and `rank-zero-negCount`; the theorem shows the rounding never
  moves the selected element outside `{⌊q(n-1)⌋, ⌈q(n-1)⌉}`.

  Ground truth: `sortedInputs mn xs` = the inputs with magnitudes `≤ minIndexable` replaced by 0,
  sorted ascending; `l[k]!` is list access (default 0, never used: `k < n`).
  `⌊·⌋ ⌈·⌉` are Mathlib's `Int.floor`/`Int.ceil` on `ℚ` (`⌊x⌋ = x.floor` by `rfl`,
  `⌈x⌉ = x.ceil` by `F64.rat_ceil_eq`).

  Proofs are in `DDS.Proofs.Quantile`.
-/
import DDS.Proofs.Quantile

namespace DDS.Props.C01

open DDS DDS.QuantileEx

/-! ### adding never fails -/

/-- `AddWithCount(x, 1)` for values of magnitude at most `maxIndexable` is never refused and never
    panics on sparse stores — for any number of values. -/
theorem addAll_ok (env : MapEnv) (α mn mx : Rat) (C : Contract env α mn mx)
    (xs : List Rat) (hx : ∀ x ∈ xs, rabs x ≤ mx) :
    ∃ s, Sketch.addAll env (Sketch.new (some env.id) .sparse) (xs.map (fun x => (x, 1))) = some s :=
  addAll_ok' env α mn mx C xs hx

/-! ### the accuracy theorem -/

/-- **DDSketch accuracy.** -/
theorem quantile_accuracy
    (env : MapEnv) (α mn mx : Rat) (C : Contract env α mn mx)
    (xs : List Rat) (hx : ∀ x ∈ xs, rabs x ≤ mx) (hne : xs ≠ []) (hn : xs.length ≤ 2 ^ 53)
    (s : Sketch)
    (hs : Sketch.addAll env (Sketch.new (some env.id) .sparse) (xs.map (fun x => (x, 1))) = some s)
    (q : Rat) (hq0 : 0 ≤ q) (hq1 : q ≤ 1) :
    ∃ a : Rat, Sketch.quantile env s (.fin q) = .ok (.fin a) ∧
      ∃ k : Nat, k < xs.length ∧
        ((k : Int) = ⌊q * ((xs.length : Rat) - 1)⌋ ∨ (k : Int) = ⌈q * ((xs.length : Rat) - 1)⌉) ∧
        rabs (a - (sortedInputs mn xs)[k]!) ≤ α * rabs ((sortedInputs mn xs)[k]!) :=
  quantile_accuracy' env α mn mx C xs hx hne hn s hs q hq0 hq1

/-- The sharper form the accuracy theorem is derived from: the answer IS the (signed)
    representative of the bin of that order statistic — `value(index x)` for `x > 0`,
    `-value(index |x|)` for `x < 0`, and `0` for the zero bucket. -/
theorem quantile_bin
    (env : MapEnv) (α mn mx : Rat) (C : Contract env α mn mx)
    (xs : List Rat) (hx : ∀ x ∈ xs, rabs x ≤ mx) (hne : xs ≠ []) (hn : xs.length ≤ 2 ^ 53)
    (s : Sketch)
    (hs : Sketch.addAll env (Sketch.new (some env.id) .sparse) (xs.map (fun x => (x, 1))) = some s)
    (q : Rat) (hq0 : 0 ≤ q) (hq1 : q ≤ 1) :
    ∃ k : Nat, k < xs.length ∧
      ((k : Int) = ⌊q * ((xs.length : Rat) - 1)⌋ ∨ (k : Int) = ⌈q * ((xs.length : Rat) - 1)⌉) ∧
      Sketch.quantile env s (.fin q) = .ok (
        let x := (sortedInputs mn xs)[k]!
        if 0 < x then env.value (env.index (.fin (rabs x)))
        else if x < 0 then F64.neg (env.value (env.index (.fin (rabs x))))
        else .fin 0) :=
  DDS.quantile_bin env α mn mx C xs hx hne hn s hs q hq0 hq1

/-! ### the extreme quantiles -/

/-- `q = 0` answers the representative of the bin of the smallest input (0 if it is in the zero
    bucket). -/
theorem quantile_zero
    (env : MapEnv) (α mn mx : Rat) (C : Contract env α mn mx)
    (xs : List Rat) (hx : ∀ x ∈ xs, rabs x ≤ mx) (hne : xs ≠ []) (hn : xs.length ≤ 2 ^ 53)
    (s : Sketch)
    (hs : Sketch.addAll env (Sketch.new (some env.id) .sparse) (xs.map (fun x => (x, 1))) = some s) :
    (∀ y ∈ sortedInputs mn xs, (sortedInputs mn xs)[0]! ≤ y) ∧
    Sketch.quantile env s (.fin 0) = .ok (
      let x := (sortedInputs mn xs)[0]!
      if 0 < x then env.value (env.index (.fin (rabs x)))
      else if x < 0 then F64.neg (env.value (env.index (.fin (rabs x))))
      else .fin 0) :=
  ⟨sortedInputs_min mn xs, quantile_zero' env α mn mx C xs hx hne hn s hs⟩

/-- `q = 1` answers the representative of the bin of the largest input. -/
theorem quantile_one
    (env : MapEnv) (α mn mx : Rat) (C : Contract env α mn mx)
    (xs : List Rat) (hx : ∀ x ∈ xs, rabs x ≤ mx) (hne : xs ≠ []) (hn : xs.length ≤ 2 ^ 53)
    (s : Sketch)
    (hs : Sketch.addAll env (Sketch.new (some env.id) .sparse) (xs.map (fun x => (x, 1))) = some s) :
    (∀ y ∈ sortedInputs mn xs, y ≤ (sortedInputs mn xs)[xs.length - 1]!) ∧
    Sketch.quantile env s (.fin 1) = .ok (
      let x := (sortedInputs mn xs)[xs.length - 1]!
      if 0 < x then env.value (env.index (.fin (rabs x)))
      else if x < 0 then F64.neg (env.value (env.index (.fin (rabs x))))
      else .fin 0) :=
  ⟨sortedInputs_max mn xs, quantile_one' env α mn mx C xs hx hne hn s hs⟩

/-! ### the hypotheses are satisfiable -/

/-- the contract is satisfiable (`QuantileEx.exEnv`: a two-bin mapping with `α = 1/2`, `γ = 3`:
    bin 0 = `(4/3, 4]` ↦ 2, bin 1 = `(4, 12]` ↦ 6) -/
example : Contract exEnv (1 / 2) (4 / 3) 12 := exContract

/-- `QuantileEx.exXs = [5, -2, 1, 3, -7, 0, 12]` is admissible -/
example : ∀ x ∈ exXs, rabs x ≤ 12 := exXs_ok

/-- all the hypotheses of `quantile_accuracy` hold together on a concrete instance (values on both
    sides and in the zero bucket), for every `q ∈ [0,1]` -/
example : ∃ s, Sketch.addAll exEnv (Sketch.new (some exEnv.id) .sparse) (exXs.map (fun x => (x, 1))) = some s ∧
    ∀ q : Rat, 0 ≤ q → q ≤ 1 →
      ∃ a : Rat, Sketch.quantile exEnv s (.fin q) = .ok (.fin a) ∧
        ∃ k : Nat, k < exXs.length ∧
          ((k : Int) = ⌊q * ((exXs.length : Rat) - 1)⌋ ∨ (k : Int) = ⌈q * ((exXs.length : Rat) - 1)⌉) ∧
          rabs (a - (sortedInputs (4 / 3) exXs)[k]!) ≤ 1 / 2 * rabs ((sortedInputs (4 / 3) exXs)[k]!) := by
  obtain ⟨s, hs⟩ := addAll_ok exEnv _ _ _ exContract exXs exXs_ok
  exact ⟨s, hs, fun q h0 h1 =>
    quantile_accuracy exEnv _ _ _ exContract exXs exXs_ok (by simp [exXs]) (by simp [exXs]) s hs q h0 h1⟩

example : ∃ s, Sketch.addAll exEnv (Sketch.new (some exEnv.id) .sparse) (exXs.map (fun x => (x, 1))) = some s :=
  addAll_ok exEnv _ _ _ exContract exXs exXs_ok

end DDS.Props.C01
