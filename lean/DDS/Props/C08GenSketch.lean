/-
  DDS.Props.C08GenSketch — the sketch-level statements of C08 / C07 (truncated and malformed input; the
  decoder does what the wire grammar says) restated on the REGENERATED plain decoder
  `DDS.Gen.Sketch.DDSketch.DecodeAndMergeWith` (`DDS/Generated/CodeSketch.lean`, translated from
  `/repo/ddsketch/ddsketch.go:418-470` on every run).

  `DDS.GenSketch.DecodeAndMergeWith_rel` / `DecodeAndMergeWith_relO` (`DDS/Proofs/GenSketch5.lean`) say that
  the regenerated decoder, instantiated with the model's stores and mapping objects, returns what the
  hand-written `Sketch.decodeAndMergeWith` returns: the same sketch on success, the Go error value `decErr e`
  of the model's refusal `e` otherwise, never `.panic` / `.nofuel` where the model does not panic.
  `DDS.Props.C08.decode_cut`, `decode_cut_inside_block_errors`, `DDS.Props.C07.decodeLoop_eq_interp` say what
  the model does on (cuts of) encoded streams.  Combined here, on SPEC stores (finite maps) and streams of
  finite weights (the hypotheses of the model theorems), receiver with ANY mapping state `m : Option MapEnv`
  (`none`: the nil mapping of `DecodeDDSketch(b, provider, nil)`):

  * `Decode_cut_inside`     a stream cut strictly inside a block: a non-nil Go error, never a panic;
  * `Decode_cut`            every cut: the decoder returns normally; if its error is nil, the cut lies between
                            two blocks and the result is the fold `applyBlocks` over the complete blocks;
  * `Decode_encoded`        a complete stream of well-formed blocks (ANY store kinds): if the fold of the
                            model succeeds with a mapping, the decoder returns exactly that sketch;
  * `Decode_cut_between`    … hence so does the stream cut after `j` complete blocks, with the first `j` blocks;
  * `Decode_unknown_flag`   an undefined feature flag byte: `errUnknownFlag`, receiver untouched, for ANY
                            instances of the two interfaces.

  Fuel: `len(input) + 9` (one unit per block; 9 for the varfloat64 loop).
-/
import DDS.Proofs.GenSketch5
import DDS.Props.C06GenSketch
import DDS.Props.C07
import DDS.Props.C08

namespace DDS.Props.C08GenSketch

open DDS DDS.GoSem DDS.Gen.Sketch DDS.GenEncoding DDS.GenSketch DDS.Wire DDS.RoundTrip

/-- a prefix of an encoded stream of well-formed blocks consists of bytes -/
theorem take_bytes (bs : List Block) (h : ∀ b ∈ bs, b.WF) (k : Nat) :
    nb (bn ((Wire.encBlocks bs).take k)) = (Wire.encBlocks bs).take k :=
  nb_bn _ (fun x hx => C06GenSketch.encBlocks_bytes bs h x (List.mem_of_mem_take hx))

/-- the model's plain decoder in terms of its loop with the fuel the theorems of C07 / C08 use -/
theorem decodeAndMergeWith_eq (s : Sketch) (bytes : Bytes) :
    s.decodeAndMergeWith bytes =
      match Sketch.decodeLoop (bytes.length + 1) s { stats := none } bytes with
      | none => none
      | some (.error e) => some (.error e)
      | some (.ok (s', _)) => if s'.mapping.isNone then some (.error .missingMapping) else some (.ok s') := rfl

/-- **C08 on the regenerated decoder: a cut strictly inside a block.**  After any number of complete blocks,
    a strict non-empty prefix of a block makes the regenerated decoder return normally with a NON-NIL error
    (`decErr e` for the model's refusal `e`) — never a panic, never out of fuel, never accepted. -/
theorem Decode_cut_inside (pre : List Block) (hpre : ∀ b ∈ pre, b.WF)
    (hfin : ∀ b ∈ pre, b.FiniteWeights) (b : Block) (hb : b.WF) (hbf : b.FiniteWeights)
    (k : Nat) (h0 : 0 < k) (hk : k < (Wire.encBlock b).length)
    (m : Option MapEnv) (cp cn : Content) (z : F64) (fuel : Nat)
    (hf : (Wire.encBlocks pre ++ (Wire.encBlock b).take k).length + 9 ≤ fuel) :
    ∃ e g', DDSketch.DecodeAndMergeWith fuel
        (toGenO m (Sketch.spec (m.map (fun e => e.id)) cp cn z))
        (bn (Wire.encBlocks pre ++ (Wire.encBlock b).take k)) = .ok (g', decErr e) ∧
      decErr e ≠ GoErr.nil := by
  obtain ⟨e, he⟩ := C08.decode_cut_inside_block_errors pre hpre hfin b hb hbf k h0 hk
    (m.map (fun e => e.id)) cp cn z
  have hbytes : nb (bn (Wire.encBlocks pre ++ (Wire.encBlock b).take k))
      = Wire.encBlocks pre ++ (Wire.encBlock b).take k := by
    apply nb_bn
    intro x hx
    rcases List.mem_append.mp hx with hx | hx
    · exact C06GenSketch.encBlocks_bytes pre hpre x hx
    · exact Wire.encBlock_bytes b hb x (List.mem_of_mem_take hx)
  have h := DecodeAndMergeWith_relO m (Sketch.spec (m.map (fun e => e.id)) cp cn z) rfl fuel
    (bn (Wire.encBlocks pre ++ (Wire.encBlock b).take k)) (by rw [bn_length]; exact hf)
  rw [hbytes, he] at h
  obtain ⟨g', hg⟩ := h
  exact ⟨e, g', hg, decErr_ne_nil' e⟩

/-- **C08 on the regenerated decoder: every cut of an encoded stream.**  The regenerated decoder returns
    normally (no panic, enough fuel) on EVERY prefix of an encoded stream of finite weights; if the returned
    error is nil, the cut falls between two blocks and the returned structure is the model's fold over the
    complete blocks. -/
theorem Decode_cut (bs : List Block) (h : ∀ b ∈ bs, b.WF) (hfin : ∀ b ∈ bs, b.FiniteWeights)
    (k : Nat) (hk : k ≤ (Wire.encBlocks bs).length)
    (m : Option MapEnv) (cp cn : Content) (z : F64) (fuel : Nat) (hf : k + 9 ≤ fuel) :
    ∃ g' err, DDSketch.DecodeAndMergeWith fuel
        (toGenO m (Sketch.spec (m.map (fun e => e.id)) cp cn z))
        (bn ((Wire.encBlocks bs).take k)) = .ok (g', err) ∧
      (err = GoErr.nil → ∃ j aux', k = (Wire.encBlocks (bs.take j)).length ∧
        Sketch.applyBlocks (Sketch.spec (m.map (fun e => e.id)) cp cn z) { stats := none } (bs.take j)
          = some (.ok (ofGenO g', aux'))) := by
  have hlen : ((Wire.encBlocks bs).take k).length = k := by rw [List.length_take]; omega
  have hrel := DecodeAndMergeWith_relO m (Sketch.spec (m.map (fun e => e.id)) cp cn z) rfl fuel
    (bn ((Wire.encBlocks bs).take k)) (by rw [bn_length, hlen]; exact hf)
  rw [take_bytes bs h k, decodeAndMergeWith_eq, hlen] at hrel
  rcases C08.decode_cut bs h hfin k hk (k + 1) (by omega) (m.map (fun e => e.id)) cp cn z
      { stats := none } with ⟨j, hj, hloop, hne⟩ | ⟨e, hloop⟩
  · rw [hloop] at hrel
    cases ha : Sketch.applyBlocks (Sketch.spec (m.map (fun e => e.id)) cp cn z) { stats := none }
        (bs.take j) with
    | none => exact absurd ha hne
    | some r =>
      rw [ha] at hrel
      cases r with
      | error e =>
        obtain ⟨g', hg⟩ := hrel
        exact ⟨g', _, hg, fun h0 => absurd h0 (decErr_ne_nil' e)⟩
      | ok r =>
        obtain ⟨s', aux'⟩ := r
        simp only at hrel
        split at hrel
        · obtain ⟨g', hg⟩ := hrel
          exact ⟨g', _, hg, fun h0 => absurd h0 (decErr_ne_nil' _)⟩
        · obtain ⟨g', hg, hs⟩ := hrel
          refine ⟨g', _, hg, fun _ => ⟨j, aux', hj, ?_⟩⟩
          rw [hs]; exact ha
  · rw [hloop] at hrel
    obtain ⟨g', hg⟩ := hrel
    exact ⟨g', _, hg, fun h0 => absurd h0 (decErr_ne_nil' e)⟩

/-- **C07 on the regenerated decoder: it does what the grammar says** (ANY store kinds).  On the bytes of
    well-formed blocks, if the model's fold `applyBlocks` over the blocks succeeds with a sketch that has a
    mapping, the regenerated decoder returns a nil error and exactly that sketch; if the fold refuses with
    `e`, the Go error `decErr e`. -/
theorem Decode_encoded (bs : List Block) (h : ∀ b ∈ bs, b.WF) (m : Option MapEnv) (s : Sketch)
    (hm : s.mapping = m.map (fun e => e.id)) (fuel : Nat) (hf : (Wire.encBlocks bs).length + 9 ≤ fuel) :
    (∀ s' aux', Sketch.applyBlocks s { stats := none } bs = some (.ok (s', aux')) → s'.mapping ≠ none →
      ∃ g', DDSketch.DecodeAndMergeWith fuel (toGenO m s) (bn (Wire.encBlocks bs)) = .ok (g', GoErr.nil) ∧
        ofGenO g' = s') ∧
    (∀ e, Sketch.applyBlocks s { stats := none } bs = some (.error e) →
      ∃ g', DDSketch.DecodeAndMergeWith fuel (toGenO m s) (bn (Wire.encBlocks bs)) = .ok (g', decErr e)) := by
  have hrel := DecodeAndMergeWith_relO m s hm fuel (bn (Wire.encBlocks bs)) (by rw [bn_length]; exact hf)
  rw [C06GenSketch.nb_bn_encBlocks bs h, decodeAndMergeWith_eq,
    C07.decodeLoop_eq_interp bs h _ (by have := Wire.encBlocks_length_ge bs; omega)] at hrel
  constructor
  · intro s' aux' ha hmap
    rw [ha] at hrel
    simp only at hrel
    have : s'.mapping.isNone = false := by
      cases hs : s'.mapping with
      | none => exact absurd hs hmap
      | some _ => rfl
    rw [this] at hrel
    exact hrel
  · intro e ha
    rw [ha] at hrel
    exact hrel

/-- … and a cut BETWEEN blocks decodes to the complete blocks: the stream cut after `j` blocks is the stream
    of the first `j` blocks -/
theorem Decode_cut_between (bs : List Block) (h : ∀ b ∈ bs, b.WF) (j : Nat) (m : Option MapEnv) (s : Sketch)
    (hm : s.mapping = m.map (fun e => e.id)) (fuel : Nat)
    (hf : (Wire.encBlocks (bs.take j)).length + 9 ≤ fuel) (s' : Sketch) (aux' : Sketch.DecAux)
    (ha : Sketch.applyBlocks s { stats := none } (bs.take j) = some (.ok (s', aux')))
    (hmap : s'.mapping ≠ none) :
    ∃ g', DDSketch.DecodeAndMergeWith fuel (toGenO m s)
        (bn ((Wire.encBlocks bs).take (Wire.encBlocks (bs.take j)).length)) = .ok (g', GoErr.nil) ∧
      ofGenO g' = s' := by
  have hcut : (Wire.encBlocks bs).take (Wire.encBlocks (bs.take j)).length = Wire.encBlocks (bs.take j) := by
    conv => lhs; arg 2; rw [← List.take_append_drop j bs, Wire.encBlocks_append]
    rw [List.take_left]
  rw [hcut]
  exact (Decode_encoded (bs.take j) (fun b hb => h b (List.mem_of_mem_take hb)) m s hm fuel hf).1
    s' aux' ha hmap

/-- **C08 on the regenerated decoder: undefined flag bytes.**  A flag byte of type "sketch features" that is
    none of the five defined ones (zero count `0x04`, count `0xA0`, sum `0x84`, min `0x88`, max `0x8C`), at
    the head of any input: `errUnknownFlag`, the receiver returned as it was — for ANY instances of
    `mapping.IndexMapping` and `store.Store`. -/
theorem Decode_unknown_flag {M S : Type} [MapI M] [StoreI S] [Inhabited M] [Inhabited S]
    (fuel : Nat) (g : DDSketch M S) (x : BitVec 8) (tl : List (BitVec 8))
    (ht : Wire.flagType x.toNat = Consts.flagTypeSketchFeatures)
    (hx : x.toNat ≠ 4 ∧ x.toNat ≠ 160 ∧ x.toNat ≠ 132 ∧ x.toNat ≠ 136 ∧ x.toNat ≠ 140) :
    DDSketch.DecodeAndMergeWith (fuel + 1) g (x :: tl) = .ok (g, errUnknownFlag) :=
  DecodeAndMergeWith_unknown_flag fuel g x tl ht hx

/-- e.g. the byte `0x14` (type 0, sub-flag 5) -/
example (g : DDSketch MapEnv Store) (tl : List (BitVec 8)) :
    DDSketch.DecodeAndMergeWith 1 g (20#8 :: tl) = .ok (g, errUnknownFlag) :=
  Decode_unknown_flag 0 g 20#8 tl (by decide) (by decide)

/-! ### both regenerated directions together (C06 round trip, encoder AND decoder regenerated) -/

/-- the bytes the REGENERATED encoder appends, fed to the REGENERATED decoder on a fresh sparse receiver
    (with the producer's mapping object when the mapping was omitted from the stream, with a nil mapping
    otherwise), give a nil error and the producer's mapping, zero bucket and contents -/
theorem Encode_Decode (s : Sketch) (cp cn : Content) (hs : s.Refines cp cn)
    (hp : EncOK s.pos) (hn : EncOK s.neg)
    (env : MapEnv) (hm : s.mapping = some env.id) (hmk : MapOK env.id)
    (z : Rat) (hz : s.zero = .fin z) (hzw : WOK z) (omitMapping : Bool)
    (fuel : Nat) (hf : 9 ≤ fuel) (b : List (BitVec 8)) :
    ∃ s' out g', DDSketch.Encode fuel (toGen env s) b omitMapping = .ok (toGen env s', b ++ out) ∧
      DDSketch.DecodeAndMergeWith (out.length + 9)
        (toGenO (if omitMapping then some env else none)
          (Sketch.new (if omitMapping then some env.id else none) .sparse)) out = .ok (g', GoErr.nil) ∧
      ofGenO g' = Sketch.spec (some env.id) cp cn (.fin z) := by
  obtain ⟨s', out, he, hd⟩ :=
    C06GenSketch.Encode_decode s cp cn hs hp hn env hm hmk z hz hzw omitMapping fuel hf b
  have hmap : (Sketch.new (if omitMapping then some env.id else none) .sparse).mapping
      = (if omitMapping then some env else none).map (fun e => e.id) := by
    cases omitMapping <;> rfl
  have hrel := DecodeAndMergeWith_relO (if omitMapping then some env else none) _ hmap
    (out.length + 9) out (Nat.le_refl _)
  rw [hd] at hrel
  obtain ⟨g', hg, hs'⟩ := hrel
  exact ⟨s', out, g', he, hg, hs'⟩

end DDS.Props.C08GenSketch
