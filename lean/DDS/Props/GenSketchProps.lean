/-
  DDS.Props.GenSketchProps — PROPERTY-LEVEL statements about the REGENERATED sketch code
  (`DDS/Generated/CodeSketch.lean`, re-translated from `/repo/ddsketch/ddsketch.go` on every run),
  obtained by transporting theorems of the hand-written model through the method-by-method
  equivalences of `DDS/Proofs/GenSketch2.lean`.

  * from `DDS/Props/C13.lean` (decision table): each refusal is restated for the generated method,
    which returns THE GO ERROR VALUE and THE UNCHANGED RECEIVER; same hypotheses as the model
    theorem.
  * from `DDS/Props/C12.lean` (coherence of the observers): `GetCount`, `IsEmpty` of the generated
    code on any sketch whose stores refine canonical contents.
  * two statements proved directly on the generated code, for ANY implementation of the two
    interfaces: the frame condition of `AddWithCount` and the list of its possible errors.
-/
import DDS.Proofs.GenSketch2
import DDS.Props.C13
import DDS.Props.C12

namespace DDS.Props.GenSketchProps

open DDS DDS.GoSem DDS.Gen.Sketch DDS.GenSketch

/-! ### transport -/

/-- a refusal of the model is the generated code returning the unchanged receiver and `g` -/
theorem step_refused {env : MapEnv} {s : Sketch} {m : Option (Except SkErr Sketch)}
    {r : DDSketch MapEnv Store × GoErr} {e : SkErr} {g : GoErr}
    (h : StepRel env s m r) (hm : m = some (.error e)) (hg : goErr? e = some g) :
    r = (toGen env s, g) := by
  obtain ⟨g', hg', hr⟩ := h.error hm
  rw [hg] at hg'
  cases hg'
  exact hr

theorem xstep_refused {env : MapEnv} {x : XSketch} {m : Option (Except SkErr XSketch)}
    {r : DDSketchWithExactSummaryStatistics MapEnv Store × GoErr} {e : SkErr} {g : GoErr}
    (h : XStepRel env x m r) (hm : m = some (.error e)) (hg : goErr? e = some g) :
    r = (toGenX env x, g) := by
  obtain ⟨g', hg', hr⟩ := h.error hm
  rw [hg] at hg'
  cases hg'
  exact hr

theorem q_refused {m : Except SkErr F64} {r : F64 × GoErr} {e : SkErr} {g : GoErr}
    (h : QRel m r) (hm : m = .error e) (hg : goErr? e = some g) : r = (F64.nan, g) := by
  obtain ⟨g', hg', hr⟩ := h.error hm
  rw [hg] at hg'
  cases hg'
  exact hr

/-! ### C13: `AddWithCount` refusals -/

/-- a negative count is refused before the value is looked at; the receiver is unchanged -/
theorem add_negative_count (env : MapEnv) (s : Sketch) (v c : F64)
    (hc : F64.lt c (.fin 0) = true) :
    DDSketch.AddWithCount (toGen env s) v c = (toGen env s, ErrNegativeCount) :=
  step_refused (AddWithCount_rel env s v c) (C13.add_negative_count env s v c _ hc) rfl

theorem add_nan (env : MapEnv) (s : Sketch) (c : F64) (hc : F64.lt c (.fin 0) = false) :
    DDSketch.AddWithCount (toGen env s) .nan c = (toGen env s, ErrUntrackableNaN) :=
  step_refused (AddWithCount_rel env s .nan c) (C13.add_nan env s c _ hc) rfl

theorem add_too_high (env : MapEnv) (s : Sketch) (v c : F64)
    (hc : F64.lt c (.fin 0) = false)
    (h1 : F64.gt v env.minIndexable = true) (h2 : F64.gt v env.maxIndexable = true) :
    DDSketch.AddWithCount (toGen env s) v c = (toGen env s, ErrUntrackableTooHigh) :=
  step_refused (AddWithCount_rel env s v c) (C13.add_too_high env s v c _ hc h1 h2) rfl

theorem add_too_low (env : MapEnv) (s : Sketch) (v c : F64)
    (hc : F64.lt c (.fin 0) = false)
    (h0 : F64.gt v env.minIndexable = false)
    (h1 : F64.lt v (F64.neg env.minIndexable) = true)
    (h2 : F64.lt v (F64.neg env.maxIndexable) = true) :
    DDSketch.AddWithCount (toGen env s) v c = (toGen env s, ErrUntrackableTooLow) :=
  step_refused (AddWithCount_rel env s v c) (C13.add_too_low env s v c _ hc h0 h1 h2) rfl

theorem add_too_low' (env : MapEnv) (s : Sketch) (v c : F64) (mn : Rat)
    (hmin : env.minIndexable = .fin mn) (hmn : 0 ≤ mn)
    (hc : F64.lt c (.fin 0) = false)
    (h1 : F64.lt v (F64.neg env.minIndexable) = true)
    (h2 : F64.lt v (F64.neg env.maxIndexable) = true) :
    DDSketch.AddWithCount (toGen env s) v c = (toGen env s, ErrUntrackableTooLow) :=
  step_refused (AddWithCount_rel env s v c) (C13.add_too_low' env s v c _ mn hmin hmn hc h1 h2) rfl

/-- `+Inf` is refused as too high whenever the bounds of the mapping are finite -/
theorem add_pos_inf (env : MapEnv) (s : Sketch) (c : F64) (mn mx : Rat)
    (hmin : env.minIndexable = .fin mn) (hmax : env.maxIndexable = .fin mx)
    (hc : F64.lt c (.fin 0) = false) :
    DDSketch.AddWithCount (toGen env s) .pinf c = (toGen env s, ErrUntrackableTooHigh) :=
  step_refused (AddWithCount_rel env s .pinf c) (C13.add_pos_inf env s c _ mn mx hmin hmax hc) rfl

/-- `-Inf` is refused as too low whenever the bounds of the mapping are finite -/
theorem add_neg_inf (env : MapEnv) (s : Sketch) (c : F64) (mn mx : Rat)
    (hmin : env.minIndexable = .fin mn) (hmax : env.maxIndexable = .fin mx)
    (hc : F64.lt c (.fin 0) = false) :
    DDSketch.AddWithCount (toGen env s) .ninf c = (toGen env s, ErrUntrackableTooLow) :=
  step_refused (AddWithCount_rel env s .ninf c) (C13.add_neg_inf env s c _ mn mx hmin hmax hc) rfl

/-- `Add(NaN)` -/
theorem add_nan_unit (env : MapEnv) (s : Sketch) :
    DDSketch.Add (toGen env s) .nan = (toGen env s, ErrUntrackableNaN) := by
  rw [Add_eq_AddWithCount]; exact add_nan env s (.fin 1) (by decide)

/-! ### C13: acceptance on spec stores -/

/-- the acceptance row of the table: a finite value with `|v| ≤ maxIndexable` and a finite count
    `≥ 0` is accepted by the generated code, error nil, exactly one component updated -/
theorem add_accepts (env : MapEnv) (m : Option MapId) (cp cn : Content) (z : F64)
    (vq cq : Rat) (mn mx : Rat)
    (hmin : env.minIndexable = .fin mn) (hmax : env.maxIndexable = .fin mx)
    (hmn : 0 ≤ mn) (hc : 0 ≤ cq) (hv : rabs vq ≤ mx) :
    DDSketch.AddWithCount (toGen env (Sketch.spec m cp cn z)) (.fin vq) (.fin cq) =
      (toGen env (
        if mn < vq then Sketch.spec m (cp.add (env.index (.fin vq)) cq) cn z
        else if vq < -mn then Sketch.spec m cp (cn.add (env.index (.fin (-vq))) cq) z
        else Sketch.spec m cp cn (F64.add z (.fin cq))), GoErr.nil) := by
  have h := AddWithCount_rel env (Sketch.spec m cp cn z) (.fin vq) (.fin cq)
  rw [C13.add_accepts env m cp cn z vq cq _ mn mx hmin hmax hmn hc hv] at h
  have hr := h.ok rfl
  rw [hr]
  by_cases h1 : mn < vq
  · simp [h1, goIdx, hmin, F64.lt]
  · by_cases h2 : vq < -mn
    · simp [h1, h2, goIdx, hmin, F64.lt, F64.neg]
    · simp [h1, h2]

/-! ### C13: `GetValueAtQuantile` -/

theorem quantile_rejects (env : MapEnv) (s : Sketch) (q : F64)
    (h : (F64.le (.fin 0) q && F64.le q (.fin 1)) = false) :
    DDSketch.GetValueAtQuantile (toGen env s) q = (F64.nan, errBadQuantile) :=
  q_refused (GetValueAtQuantile_rel env s q) (C13.quantile_rejects env s q h) rfl

theorem quantile_nan (env : MapEnv) (s : Sketch) :
    DDSketch.GetValueAtQuantile (toGen env s) .nan = (F64.nan, errBadQuantile) :=
  q_refused (GetValueAtQuantile_rel env s .nan) (C13.quantile_nan env s) rfl

theorem quantile_negative (env : MapEnv) (s : Sketch) (q : Rat) (hq : q < 0) :
    DDSketch.GetValueAtQuantile (toGen env s) (.fin q) = (F64.nan, errBadQuantile) :=
  q_refused (GetValueAtQuantile_rel env s (.fin q)) (C13.quantile_negative env s q hq) rfl

theorem quantile_above_one (env : MapEnv) (s : Sketch) (q : Rat) (hq : 1 < q) :
    DDSketch.GetValueAtQuantile (toGen env s) (.fin q) = (F64.nan, errBadQuantile) :=
  q_refused (GetValueAtQuantile_rel env s (.fin q)) (C13.quantile_above_one env s q hq) rfl

theorem quantile_empty (env : MapEnv) (s : Sketch) (q : F64)
    (hq : (F64.le (.fin 0) q && F64.le q (.fin 1)) = true) (he : s.getCount = .fin 0) :
    DDSketch.GetValueAtQuantile (toGen env s) q = (F64.nan, errEmptySketch) :=
  q_refused (GetValueAtQuantile_rel env s q) (C13.quantile_empty env s q hq he) rfl

/-- a valid quantile on a sketch of non-zero count is answered with a nil error -/
theorem quantile_ok (env : MapEnv) (s : Sketch) (q : F64)
    (hq : (F64.le (.fin 0) q && F64.le q (.fin 1)) = true)
    (hne : F64.eq s.getCount (.fin 0) = false) :
    ∃ v, DDSketch.GetValueAtQuantile (toGen env s) q = (v, GoErr.nil) := by
  obtain ⟨v, hv⟩ := C13.quantile_ok env s q hq hne
  exact ⟨v, (GetValueAtQuantile_rel env s q).ok hv⟩

/-- the error is nil exactly on valid quantiles of non-empty sketches -/
theorem quantile_nil_iff (env : MapEnv) (s : Sketch) (q : F64) :
    (DDSketch.GetValueAtQuantile (toGen env s) q).2 = GoErr.nil ↔
      ((F64.le (.fin 0) q && F64.le q (.fin 1)) = true ∧ F64.eq s.getCount (.fin 0) = false) := by
  rw [(GetValueAtQuantile_rel env s q).nil_iff]
  constructor
  · rintro ⟨v, hv⟩
    by_cases hq : (F64.le (.fin 0) q && F64.le q (.fin 1)) = true
    · refine ⟨hq, ?_⟩
      cases hc : F64.eq s.getCount (.fin 0) with
      | false => rfl
      | true =>
        simp [Sketch.quantile, hq, hc] at hv
    · rw [C13.quantile_rejects env s q (by simpa using hq)] at hv
      cases hv
  · rintro ⟨hq, hne⟩
    exact C13.quantile_ok env s q hq hne

/-! ### C13: `Reweight`, `MergeWith` -/

theorem reweight_rejects (env : MapEnv) (s : Sketch) (w : F64) (h : F64.le w (.fin 0) = true) :
    DDSketch.Reweight (toGen env s) w = (toGen env s, errReweight) :=
  step_refused (Reweight_rel env s w) (C13.reweight_rejects s w h) rfl

theorem reweight_one (env : MapEnv) (s : Sketch) :
    DDSketch.Reweight (toGen env s) (.fin 1) = (toGen env s, GoErr.nil) :=
  (Reweight_rel env s (.fin 1)).ok (C13.reweight_one s)

theorem merge_rejects (env env' : MapEnv) (s o : Sketch)
    (hs : s.mapping = some env.id) (ho : o.mapping = some env'.id)
    (h : Sketch.mappingEquals s.mapping o.mapping = false) :
    DDSketch.MergeWith (toGen env s) (toGen env' o) = (toGen env s, errMismatch) :=
  step_refused (MergeWith_rel env env' s o hs ho) (C13.merge_rejects s o h) rfl

/-- different kinds of mapping never merge -/
theorem merge_rejects_kind (g o : DDSketch MapEnv Store)
    (hk : g.IndexMapping.id.kind ≠ o.IndexMapping.id.kind) :
    DDSketch.MergeWith g o = (g, errMismatch) := by
  have h := MergeWith_rel_gen g o
  have hm := C13.merge_rejects_kind (ofGen g) (ofGen o) _ _ rfl rfl hk
  have := step_refused h hm rfl
  simpa using this

/-- on spec sketches with equal mappings the merge is the pointwise sum -/
theorem merge_accepts_spec (env env' : MapEnv) (cp cn cp' cn' : Content) (z z' : F64)
    (h : env.id.equals env'.id = true) :
    DDSketch.MergeWith (toGen env (Sketch.spec (some env.id) cp cn z))
        (toGen env' (Sketch.spec (some env'.id) cp' cn' z')) =
      (toGen env (Sketch.spec (some env.id) (cp.merge cp') (cn.merge cn') (F64.add z z')),
        GoErr.nil) :=
  (MergeWith_rel env env' _ _ rfl rfl).ok
    (C13.merge_accepts_spec (some env.id) (some env'.id) cp cn cp' cn' z z' h)

/-! ### C13: the exact-summary variant validates first -/

theorem exact_add_validates_first (env : MapEnv) (x : XSketch) (v c : F64) (e : SkErr) (g : GoErr)
    (h : x.sk.addWithCount env v c (goIdx env v) = some (.error e)) (hg : goErr? e = some g) :
    DDSketchWithExactSummaryStatistics.AddWithCount (toGenX env x) v c = (toGenX env x, g) := by
  have hr := XAddWithCount_rel_go env x v c
  have hm : xAddWithCountGo env x v c (goIdx env v) = some (.error e) := by
    simp [xAddWithCountGo, h]
  exact xstep_refused hr hm hg

/-- a NaN with a zero count: the summary is NOT touched and the error is the plain sketch's -/
theorem exact_add_zero_weight_nan (env : MapEnv) (x : XSketch) :
    DDSketchWithExactSummaryStatistics.AddWithCount (toGenX env x) .nan (.fin 0) =
      (toGenX env x, ErrUntrackableNaN) :=
  exact_add_validates_first env x .nan (.fin 0) .nan _
    (C13.add_nan env x.sk (.fin 0) _ (by decide)) rfl

theorem exact_add_negative_count (env : MapEnv) (x : XSketch) (v c : F64)
    (hc : F64.lt c (.fin 0) = true) :
    DDSketchWithExactSummaryStatistics.AddWithCount (toGenX env x) v c =
      (toGenX env x, ErrNegativeCount) :=
  exact_add_validates_first env x v c .negativeCount _
    (C13.add_negative_count env x.sk v c _ hc) rfl

/-- a zero count is a no-op on a sketch whose zero count is a float64 (model theorem
    `exact_add_zero_weight_noop`) -/
theorem exact_add_zero_weight_noop (env : MapEnv) (x : XSketch) (v : F64) (sk : Sketch)
    (hz : ∀ q, x.sk.zero = .fin q → F64.isRep q = true)
    (h : x.sk.addWithCount env v (.fin 0) (goIdx env v) = some (.ok sk)) :
    DDSketchWithExactSummaryStatistics.AddWithCount (toGenX env x) v (.fin 0) =
      (toGenX env x, GoErr.nil) :=
  (XAddWithCount_rel_rep env x v (.fin 0) hz).ok (C13.exact_add_zero_weight_noop env x v _ sk h)

theorem exact_add_accepted (env : MapEnv) (x : XSketch) (v c : F64) (sk : Sketch)
    (h : x.sk.addWithCount env v c (goIdx env v) = some (.ok sk))
    (hc : F64.eq c (.fin 0) = false) :
    DDSketchWithExactSummaryStatistics.AddWithCount (toGenX env x) v c =
      (toGenX env { sk := sk, st := x.st.add v c }, GoErr.nil) :=
  (XAddWithCount_rel_nonzero env x v c hc).ok (C13.exact_add_accepted env x v c _ sk h hc)

/-! ### C12: `GetCount`, `IsEmpty` on any sketch refining canonical contents -/

theorem count_eq_total (env : MapEnv) (s : Sketch) (cp cn : Content) (zq : Rat)
    (hr : s.Refines cp cn) (hzero : s.zero = .fin zq)
    (hx : F64.add (F64.add (.fin zq) (.fin cp.total)) (.fin cn.total) =
      .fin (zq + cp.total + cn.total)) :
    DDSketch.GetCount (toGen env s) = .fin (zq + cp.total + cn.total) := by
  rw [GetCount_eq, Sketch.getCount_congr hr, hzero]
  exact C12.count_eq_total s.mapping cp cn zq hx

/-- `IsEmpty()` of the generated code says exactly that the (real) total weight is zero -/
theorem isEmpty_iff_count_zero (env : MapEnv) (s : Sketch) (cp cn : Content) (zq : Rat)
    (hr : s.Refines cp cn) (hzero : s.zero = .fin zq)
    (hcp : cp.WF) (hcn : cn.WF) (hz : 0 ≤ zq) :
    DDSketch.IsEmpty (toGen env s) = true ↔ zq + cp.total + cn.total = 0 := by
  rw [IsEmpty_eq, Sketch.isEmpty_congr hr, hzero]
  exact C12.isEmpty_iff_count_zero s.mapping cp cn zq hcp hcn hz

/-- … and with exact sums, that `GetCount()` of the generated code is zero -/
theorem isEmpty_iff_getCount_zero (env : MapEnv) (s : Sketch) (cp cn : Content) (zq : Rat)
    (hr : s.Refines cp cn) (hzero : s.zero = .fin zq)
    (hcp : cp.WF) (hcn : cn.WF) (hz : 0 ≤ zq)
    (hx : F64.add (F64.add (.fin zq) (.fin cp.total)) (.fin cn.total) =
      .fin (zq + cp.total + cn.total)) :
    DDSketch.IsEmpty (toGen env s) = true ↔ DDSketch.GetCount (toGen env s) = .fin 0 := by
  rw [isEmpty_iff_count_zero env s cp cn zq hr hzero hcp hcn hz,
    count_eq_total env s cp cn zq hr hzero hx]
  constructor
  · intro h; rw [h]
  · intro h; exact F64.fin.inj h

/-! ### directly on the generated code, for ANY mapping and store implementation -/

section generic
variable {M S : Type} [MapI M] [StoreI S] [Inhabited M] [Inhabited S]

/-- frame condition of `AddWithCount`: a non-nil error comes with the receiver unchanged -/
theorem AddWithCount_frame (g : DDSketch M S) (v c : F64)
    (h : (DDSketch.AddWithCount g v c).2 ≠ GoErr.nil) : (DDSketch.AddWithCount g v c).1 = g := by
  unfold DDSketch.AddWithCount at h ⊢
  repeat' split
  all_goals first | rfl | (exfalso; revert h; simp_all)

/-- the only errors of `AddWithCount` are the four documented ones -/
theorem AddWithCount_err_cases (g : DDSketch M S) (v c : F64) :
    (DDSketch.AddWithCount g v c).2 = GoErr.nil ∨
    (DDSketch.AddWithCount g v c).2 = ErrNegativeCount ∨
    (DDSketch.AddWithCount g v c).2 = ErrUntrackableTooHigh ∨
    (DDSketch.AddWithCount g v c).2 = ErrUntrackableTooLow ∨
    (DDSketch.AddWithCount g v c).2 = ErrUntrackableNaN := by
  unfold DDSketch.AddWithCount
  repeat' split
  all_goals simp

/-- a negative count is refused whatever the mapping and the stores are -/
theorem AddWithCount_negative_generic (g : DDSketch M S) (v c : F64)
    (hc : F64.lt c (.fin 0) = true) : DDSketch.AddWithCount g v c = (g, ErrNegativeCount) := by
  unfold DDSketch.AddWithCount
  rw [if_pos hc]

end generic

end DDS.Props.GenSketchProps
