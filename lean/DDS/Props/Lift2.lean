/-
  DDS.Props.Lift2 — more guarantees transported to every store kind (continuation of
  `DDS.Props.Lift`; helper lemmas in `DDS.Proofs.Lift2`).

  HIGHEST-COLLAPSING STORES (mirror image of the lowest-collapsing results of `DDS.Props.Lift`)
  * `collapsing_quantile_retained_high` — a sketch on highest-collapsing stores with `N ≥ 1` bins,
    built by at most `2^53` unit adds, holds `specHigh N` of the exact contents, and
    `GetValueAtQuantile(q)` answers EXACTLY what the un-collapsed spec sketch answers for every
    `q` whose selected bin is at or below the edge `min + N − 1` of its side (`Lift.edgeHigh`),
    and for every `q` that is refused or answered by the zero bucket.
    Beyond the edge the edge bin answers: `Lift.storeKeyAtRank_specHigh` (in
    `DDS.Proofs.Lift2`, with `cumul_foldHigh`, `keyAtRank_foldHigh`, `keyAtRank_specHigh`,
    `quantile_specHigh_retained`).

  THE ACCURACY GUARANTEE ON COLLAPSING STORES (property C05: "sketches built on them keep the
  relative-accuracy guarantee for every quantile whose true value falls in a retained bin")
  * `collapsing_quantile_accuracy_low` / `collapsing_quantile_accuracy_high` — the conclusion of
    `C01.quantile_accuracy`, verbatim, for sketches on lowest- / highest-collapsing stores, for
    every `q ∈ [0,1]` such that the TRUE order statistics of ranks `⌊q(n-1)⌋` and `⌈q(n-1)⌉` lie
    in retained bins (`Lift.RetainedLow` / `Lift.RetainedHigh`: the bin index of the order
    statistic is less than `N` below the largest / above the smallest bin index among the inputs
    of the same sign; nothing is asked of the zero bucket).
  * `selected_bin_is_order_statistic_bin` — the bin (side and index) that `GetValueAtQuantile(q)`
    selects on the exact sketch is the bin of the order statistic of rank `⌊q(n-1)⌋` or
    `⌈q(n-1)⌉` (companion of `C01.quantile_bin`, which describes the answered value).
  * `collapsing_quantile_accuracy_all` — when the inputs of each sign span fewer than `N` bins,
    every quantile of a sketch on collapsing stores (either kind) is accurate.

  WEIGHTED QUANTILES (C11) ON EVERY STORE KIND
  * `quantile_weighted_any_store` — the three-way description of `C11.quantile_weighted`
    (which bin answers, in terms of cumulative weights) for ANY sketch whose stores refine the
    contents `cp`, `cn` (dense, sparse, paginated: `Lift.GoodSk.refines`; collapsing:
    `collapsing_sketch_contents`), under the same exactness hypothesis `QExact`.
  * `addAll_weighted_any_store`, `quantile_weighted_history_any_store` — weighted insertion
    histories into stores of any non-collapsing kind: never refused, never panic, the stores
    refine contents holding at every index the total weight the mapping sends there, and the
    three-way description applies.
  * `answer_from_nonempty_side_any_store` — the answer is never taken from an empty store, for
    any store kinds.
-/
import DDS.Proofs.Lift2

namespace DDS.Lift

open DDS DDS.Props DDS.Props.Lift Content

/-! ## T1: highest-collapsing stores -/

/-- **Quantiles below the edge survive the highest-collapsing.**  A sketch on highest-collapsing
    stores with `N ≥ 1` bins, built by at most `2^53` unit adds, holds `specHigh N` of the exact
    contents (`collapsing_sketch_contents`); consequently `GetValueAtQuantile(q)` answers EXACTLY
    what the un-collapsed spec sketch built from the same values answers, for every `q` whose
    selected bin (`selKey`) is at or below the edge `min + N − 1` of its side, and for every `q`
    that is refused or falls in the zero bucket.  (Above the edge the collapsed sketch answers the
    edge bin instead: `Lift.storeKeyAtRank_specHigh`.) -/
theorem collapsing_quantile_retained_high (N : Nat) (hN : 1 ≤ N)
    (env : MapEnv) (α mn mx : Rat) (C : Contract env α mn mx)
    (xs : List Rat) (hx : ∀ x ∈ xs, rabs x ≤ mx)
    (hx32 : ∀ x ∈ xs, mn < rabs x → I32 (env.index (.fin (rabs x))))
    (hne : xs ≠ []) (hn : xs.length ≤ 2 ^ 53) :
    ∃ s s₀ cp cn,
      Sketch.addAll env (Sketch.new (some env.id) (.high N)) (xs.map (fun x => (x, 1))) = some s ∧
      Sketch.addAll env (Sketch.new (some env.id) .sparse) (xs.map (fun x => (x, 1))) = some s₀ ∧
      s₀ = Sketch.spec (some env.id) cp cn s.zero ∧
      contentOf s.pos = Content.specHigh N cp ∧ contentOf s.neg = Content.specHigh N cn ∧
      ∀ q : F64,
        (∀ side k, selKey s₀ q = some (side, k) → k ≤ edgeHigh N (if side then cp else cn)) →
        s.quantile env q = s₀.quantile env q := by
  obtain ⟨s, s₀, cp, cn, h1, h2, h3, hmap, wp, wn, _, _, ep, en, R⟩ :=
    collapsing_sketch_contents (.high N) hN env α mn mx C xs hx hx32
  refine ⟨s, s₀, cp, cn, h1, h2, h3, ep, en, fun q hsel => ?_⟩
  change s.Refines (Content.specHigh N cp) (Content.specHigh N cn) at R
  have hst := addAll_state env α mn mx C xs hx hn s₀ h2
  rw [h3] at hst
  simp only [Sketch.spec, Sketch.mk.injEq, Store.sp.injEq, true_and] at hst
  obtain ⟨hp, hng, hz⟩ := hst
  have hlen := length_split mn C.minPos xs
  have hPl : ((Psorted mn xs).map (idxOf env)).length = (posPart mn xs).length := by
    rw [List.length_map]; exact (sortAsc_perm _).length_eq
  have hMl : ((Msorted mn xs).map (idxOf env)).length = (negPart mn xs).length := by
    rw [List.length_map, Msorted, (sortAsc_perm _).length_eq, List.length_map]
  have hP : (Content.specHigh N cp).total = ((posPart mn xs).length : Rat) := by
    rw [Content.total_specHigh, hp, total_unitsOf, hPl]
  have hM : (Content.specHigh N cn).total = ((negPart mn xs).length : Rat) := by
    rw [Content.total_specHigh, hng, total_unitsOf, hMl]
  have hpos : 0 < xs.length := List.length_pos_iff.2 hne
  obtain ⟨u1, u2⟩ := unit_counts_exact (zeroCnt mn xs) (posPart mn xs).length
    (negPart mn xs).length (by omega) (by omega)
  have hq := Props.C12.quantile_congr_exact env s _ _ (zeroCnt mn xs : Rat) R hz (by positivity)
    (by rw [hP, hM]; exact u1) (by rw [hP, hM]; exact u2) q
  rw [hq, hmap, h3]
  exact quantile_specHigh_retained env N (some env.id) cp cn wp wn s.zero q
    (by rw [← h3]; exact hsel)

/-! ## T2: the accuracy guarantee on collapsing stores -/

/-- **Which bin answers.**  On the exact (spec) sketch built by at most `2^53` unit adds, the bin
    `GetValueAtQuantile(q)` selects — `selKey`: the side and the bin index, `none` for the zero
    bucket — is the bin of the order statistic of rank `⌊q(n-1)⌋` or `⌈q(n-1)⌉` of the inputs
    (`selOf env x` = `(x > 0, index |x|)`, `none` for `x = 0`). -/
theorem selected_bin_is_order_statistic_bin
    (env : MapEnv) (α mn mx : Rat) (C : Contract env α mn mx)
    (xs : List Rat) (hx : ∀ x ∈ xs, rabs x ≤ mx) (hne : xs ≠ []) (hn : xs.length ≤ 2 ^ 53)
    (s₀ : Sketch)
    (hs : Sketch.addAll env (Sketch.new (some env.id) .sparse) (xs.map (fun x => (x, 1))) = some s₀)
    (q : Rat) (hq0 : 0 ≤ q) (hq1 : q ≤ 1) :
    ∃ k : Nat, k < xs.length ∧
      ((k : Int) = ⌊q * ((xs.length : Rat) - 1)⌋ ∨ (k : Int) = ⌈q * ((xs.length : Rat) - 1)⌉) ∧
      selKey s₀ (.fin q) = selOf env ((sortedInputs mn xs)[k]!) :=
  selKey_bin env α mn mx C xs hx hne hn s₀ hs q hq0 hq1

/-- **DDSketch accuracy on lowest-collapsing stores.**  A sketch on lowest-collapsing stores with
    `N ≥ 1` bins, built by at most `2^53` unit adds (never refused, never panics), keeps the
    guarantee of `C01.quantile_accuracy` for every `q ∈ [0,1]` whose true order statistics of
    ranks `⌊q(n-1)⌋` and `⌈q(n-1)⌉` fall in retained bins: the bin index of the order statistic
    is `≥ maxIndex − N + 1`, `maxIndex` being the largest bin index among the inputs of the same
    sign (`RetainedLow`; order statistics in the zero bucket are always fine). -/
theorem collapsing_quantile_accuracy_low (N : Nat) (hN : 1 ≤ N)
    (env : MapEnv) (α mn mx : Rat) (C : Contract env α mn mx)
    (xs : List Rat) (hx : ∀ x ∈ xs, rabs x ≤ mx)
    (hx32 : ∀ x ∈ xs, mn < rabs x → I32 (env.index (.fin (rabs x))))
    (hne : xs ≠ []) (hn : xs.length ≤ 2 ^ 53) :
    ∃ s, Sketch.addAll env (Sketch.new (some env.id) (.low N)) (xs.map (fun x => (x, 1))) = some s ∧
      ∀ q : Rat, 0 ≤ q → q ≤ 1 →
        (∀ k : Nat, k < xs.length →
          ((k : Int) = ⌊q * ((xs.length : Rat) - 1)⌋ ∨ (k : Int) = ⌈q * ((xs.length : Rat) - 1)⌉) →
          RetainedLow env mn N xs ((sortedInputs mn xs)[k]!)) →
        ∃ a : Rat, Sketch.quantile env s (.fin q) = .ok (.fin a) ∧
          ∃ k : Nat, k < xs.length ∧
            ((k : Int) = ⌊q * ((xs.length : Rat) - 1)⌋ ∨ (k : Int) = ⌈q * ((xs.length : Rat) - 1)⌉) ∧
            rabs (a - (sortedInputs mn xs)[k]!) ≤ α * rabs ((sortedInputs mn xs)[k]!) := by
  obtain ⟨s, s₀, cp, cn, h1, h2, h3, _, _, hq⟩ :=
    collapsing_quantile_retained N hN env α mn mx C xs hx hx32 hne hn
  refine ⟨s, h1, fun q hq0 hq1 hret => ?_⟩
  rw [hq (.fin q) (selKey_retained_low env α mn mx C xs hx hne hn s₀ h2 cp cn s.zero h3 N q
    hq0 hq1 hret)]
  exact C01.quantile_accuracy env α mn mx C xs hx hne hn s₀ h2 q hq0 hq1

/-- **DDSketch accuracy on highest-collapsing stores**: the same with the retained bins of a
    highest-collapsing store — the bin index of the order statistic is `≤ minIndex + N − 1`,
    `minIndex` being the smallest bin index among the inputs of the same sign (`RetainedHigh`). -/
theorem collapsing_quantile_accuracy_high (N : Nat) (hN : 1 ≤ N)
    (env : MapEnv) (α mn mx : Rat) (C : Contract env α mn mx)
    (xs : List Rat) (hx : ∀ x ∈ xs, rabs x ≤ mx)
    (hx32 : ∀ x ∈ xs, mn < rabs x → I32 (env.index (.fin (rabs x))))
    (hne : xs ≠ []) (hn : xs.length ≤ 2 ^ 53) :
    ∃ s, Sketch.addAll env (Sketch.new (some env.id) (.high N)) (xs.map (fun x => (x, 1))) = some s ∧
      ∀ q : Rat, 0 ≤ q → q ≤ 1 →
        (∀ k : Nat, k < xs.length →
          ((k : Int) = ⌊q * ((xs.length : Rat) - 1)⌋ ∨ (k : Int) = ⌈q * ((xs.length : Rat) - 1)⌉) →
          RetainedHigh env mn N xs ((sortedInputs mn xs)[k]!)) →
        ∃ a : Rat, Sketch.quantile env s (.fin q) = .ok (.fin a) ∧
          ∃ k : Nat, k < xs.length ∧
            ((k : Int) = ⌊q * ((xs.length : Rat) - 1)⌋ ∨ (k : Int) = ⌈q * ((xs.length : Rat) - 1)⌉) ∧
            rabs (a - (sortedInputs mn xs)[k]!) ≤ α * rabs ((sortedInputs mn xs)[k]!) := by
  obtain ⟨s, s₀, cp, cn, h1, h2, h3, _, _, hq⟩ :=
    collapsing_quantile_retained_high N hN env α mn mx C xs hx hx32 hne hn
  refine ⟨s, h1, fun q hq0 hq1 hret => ?_⟩
  rw [hq (.fin q) (selKey_retained_high env α mn mx C xs hx hne hn s₀ h2 cp cn s.zero h3 N q
    hq0 hq1 hret)]
  exact C01.quantile_accuracy env α mn mx C xs hx hne hn s₀ h2 q hq0 hq1

/-- **No collapse, no loss.**  When the inputs of each sign span fewer than `N` bins (any two
    inputs of the same sign have bin indexes less than `N` apart), EVERY quantile of the sketch on
    lowest-collapsing stores and of the sketch on highest-collapsing stores with `N` bins meets
    the guarantee of `C01.quantile_accuracy`. -/
theorem collapsing_quantile_accuracy_all (N : Nat) (hN : 1 ≤ N)
    (env : MapEnv) (α mn mx : Rat) (C : Contract env α mn mx)
    (xs : List Rat) (hx : ∀ x ∈ xs, rabs x ≤ mx)
    (hx32 : ∀ x ∈ xs, mn < rabs x → I32 (env.index (.fin (rabs x))))
    (hne : xs ≠ []) (hn : xs.length ≤ 2 ^ 53)
    (hspanP : ∀ x ∈ xs, ∀ y ∈ xs, mn < x → mn < y → idxOf env y < idxOf env x + (N : Int))
    (hspanN : ∀ x ∈ xs, ∀ y ∈ xs, x < -mn → y < -mn → idxOf env y < idxOf env x + (N : Int))
    (k : StoreKind) (hk : k = .low N ∨ k = .high N) :
    ∃ s, Sketch.addAll env (Sketch.new (some env.id) k) (xs.map (fun x => (x, 1))) = some s ∧
      ∀ q : Rat, 0 ≤ q → q ≤ 1 →
        ∃ a : Rat, Sketch.quantile env s (.fin q) = .ok (.fin a) ∧
          ∃ k : Nat, k < xs.length ∧
            ((k : Int) = ⌊q * ((xs.length : Rat) - 1)⌋ ∨ (k : Int) = ⌈q * ((xs.length : Rat) - 1)⌉) ∧
            rabs (a - (sortedInputs mn xs)[k]!) ≤ α * rabs ((sortedInputs mn xs)[k]!) := by
  have hmn := C.minPos
  -- every element of the ground truth is retained by both kinds
  have hmem : ∀ j : Nat, j < xs.length → (sortedInputs mn xs)[j]! ∈ sortedInputs mn xs := by
    intro j hj
    have hj' : j < (sortedInputs mn xs).length := by rw [length_sortedInputs]; exact hj
    rw [getElem!_pos _ j hj']; exact List.getElem_mem hj'
  have hposI : ∀ y, y ∈ sortedInputs mn xs → 0 < y → y ∈ xs ∧ mn < y := by
    intro y hy h0
    obtain ⟨a, b⟩ := sortedInputs_nonzero hy (ne_of_gt h0)
    rw [rabs_of_pos h0] at b
    exact ⟨a, b⟩
  have hnegI : ∀ y, y ∈ sortedInputs mn xs → y < 0 → y ∈ xs ∧ y < -mn := by
    intro y hy h0
    obtain ⟨a, b⟩ := sortedInputs_nonzero hy (ne_of_lt h0)
    rw [rabs_of_neg h0] at b
    exact ⟨a, by linarith⟩
  rcases hk with rfl | rfl
  · obtain ⟨s, h1, hq⟩ := collapsing_quantile_accuracy_low N hN env α mn mx C xs hx hx32 hne hn
    refine ⟨s, h1, fun q hq0 hq1 => hq q hq0 hq1 (fun j hj _ => ⟨?_, ?_⟩)⟩
    · intro h0 y hy hmy
      obtain ⟨a, b⟩ := hposI _ (hmem j hj) h0
      exact hspanP _ a y hy b hmy
    · intro h0 y hy hmy
      obtain ⟨a, b⟩ := hnegI _ (hmem j hj) h0
      exact hspanN _ a y hy b hmy
  · obtain ⟨s, h1, hq⟩ := collapsing_quantile_accuracy_high N hN env α mn mx C xs hx hx32 hne hn
    refine ⟨s, h1, fun q hq0 hq1 => hq q hq0 hq1 (fun j hj _ => ⟨?_, ?_⟩)⟩
    · intro h0 y hy hmy
      obtain ⟨a, b⟩ := hposI _ (hmem j hj) h0
      exact hspanP y hy _ a hmy b
    · intro h0 y hy hmy
      obtain ⟨a, b⟩ := hnegI _ (hmem j hj) h0
      exact hspanN y hy _ a hmy b

/-! ## T3: weighted quantiles on every store kind -/

/-- `count − 1 ≠ count` follows from the exactness hypothesis -/
theorem qexact_pred_ne {cp cn : Content} {z q r0 : Rat} (h : QExact cp cn z q r0) :
    F64.sub (.fin (z + cp.total + cn.total)) F64.one ≠ .fin (z + cp.total + cn.total) := by
  rw [h.countm1]
  intro hc
  have := F64.fin.inj hc
  linarith

/-- under `QExact`, `GetValueAtQuantile` of a sketch refining `cp`, `cn` is that of the spec
    sketch on `cp`, `cn` -/
theorem quantile_eq_spec_of_exact (env : MapEnv) (s : Sketch) (cp cn : Content) (z q r0 : Rat)
    (hs : s.Refines cp cn) (hzero : s.zero = .fin z) (hz : 0 ≤ z)
    (hexact : QExact cp cn z q r0) :
    Sketch.quantile env s (.fin q) =
      Sketch.quantile env ⟨s.mapping, .sp cp, .sp cn, .fin z⟩ (.fin q) := by
  rw [C12.quantile_congr_exact env s cp cn z hs hzero hz hexact.count (qexact_pred_ne hexact) (.fin q),
    hzero]
  rfl

/-- **Weighted quantile, any store kinds.**  The statement of `C11.quantile_weighted` for ANY
    sketch `s` whose stores refine the contents `cp`, `cn` (dense, sparse, paginated or
    collapsing stores alike) and whose zero count is `z`: with `rank' = clampRank r0`,
    * `rank' < negTotal`: the answer is `-value j` for a bin `j` of `cn` with
      `above(j) < min(rank'+1, negTotal) ≤ above(j-1)`;
    * `negTotal ≤ rank' < z + negTotal`: the answer is 0;
    * otherwise the answer is `value j` for a bin `j` of `cp` whose cumulative interval contains
      the rank. -/
theorem quantile_weighted_any_store (env : MapEnv) (s : Sketch) (cp cn : Content) (z q r0 : Rat)
    (hs : s.Refines cp cn) (hzero : s.zero = .fin z)
    (hz : 0 ≤ z) (hq0 : 0 ≤ q) (hq1 : q ≤ 1)
    (hW : 0 < z + cp.total + cn.total) (hexact : QExact cp cn z q r0) :
    (clampRank r0 < cn.total ∧ ∃ j w, (j, w) ∈ cn ∧
        Sketch.quantile env s (.fin q) = .ok (F64.neg (env.value j)) ∧
        cn.total - cumul cn j < min (clampRank r0 + 1) cn.total ∧
        min (clampRank r0 + 1) cn.total ≤ cn.total - cumul cn (j - 1)) ∨
    (cn.total ≤ clampRank r0 ∧ clampRank r0 < z + cn.total ∧
        Sketch.quantile env s (.fin q) = .ok (.fin 0)) ∨
    (z + cn.total ≤ clampRank r0 ∧ ∃ j w, (j, w) ∈ cp ∧
        Sketch.quantile env s (.fin q) = .ok (env.value j) ∧
        z + cn.total + cumul cp (j - 1) ≤ clampRank r0 ∧
        clampRank r0 < z + cn.total + cumul cp j) := by
  rw [quantile_eq_spec_of_exact env s cp cn z q r0 hs hzero hz hexact]
  exact C11.quantile_weighted env s.mapping cp cn z q r0 hs.pos.wf hs.neg.wf hz hq0 hq1 hW hexact

/-- **Weighted insertions into any non-collapsing store kind** (`|v| ≤ maxIndexable`, `c ≥ 0`,
    int32 indexes) are never refused and never panic; the resulting sketch has the mapping and the
    zero count of the spec sketch built from the same history, and its stores refine (observe
    exactly like) contents holding at every index the total weight of the inputs the mapping
    sends there — the characterisation of `C11.addAll_weighted_state`. -/
theorem addAll_weighted_any_store (k : StoreKind) (hk : Plain k)
    (env : MapEnv) (α mn mx : Rat) (C : Contract env α mn mx)
    (xs : List (Rat × Rat)) (hx : ∀ p ∈ xs, rabs p.1 ≤ mx ∧ 0 ≤ p.2)
    (hx32 : ∀ p ∈ xs, mn < rabs p.1 → I32 (env.index (.fin (rabs p.1)))) :
    ∃ s cp cn,
      Sketch.addAll env (Sketch.new (some env.id) k) xs = some s ∧
      Sketch.addAll env (Sketch.new (some env.id) .sparse) xs =
        some ⟨some env.id, .sp cp, .sp cn, s.zero⟩ ∧
      s.mapping = some env.id ∧ GoodSk s ∧ s.Refines cp cn ∧
      (∀ j, cp.lookup j =
        Content.lookup ((xs.filter (fun p => decide (mn < p.1))).map
          (fun p => (env.index (.fin (rabs p.1)), p.2))) j) ∧
      (∀ j, cn.lookup j =
        Content.lookup ((xs.filter (fun p => decide (p.1 < -mn))).map
          (fun p => (env.index (.fin (rabs p.1)), p.2))) j) := by
  obtain ⟨cp, cn, zf, h0, _, _, lp, ln⟩ := C11.addAll_weighted_state env α mn mx C xs hx
  obtain ⟨G, hspec⟩ := goodSk_new (some env.id) k hk
  obtain ⟨s, h1, G', h3⟩ := addAll_lift env xs (fun p hp hr =>
    hx32 p hp (routed_iff env α mn mx C p.1 hr)) _ G _ (by rw [hspec]; exact h0)
  simp only [specOf, Sketch.spec, Sketch.mk.injEq, Store.sp.injEq] at h3
  obtain ⟨hm, hp, hng, hz⟩ := h3
  have R := G'.refines
  rw [hp, hng] at R
  exact ⟨s, cp, cn, h1, by rw [hz]; exact h0, hm, G', R, lp, ln⟩

/-- **Weighted quantiles after a weighted insertion history, any non-collapsing store kind**:
    `addAll_weighted_any_store` combined with `quantile_weighted_any_store`. -/
theorem quantile_weighted_history_any_store (k : StoreKind) (hk : Plain k)
    (env : MapEnv) (α mn mx : Rat) (C : Contract env α mn mx)
    (xs : List (Rat × Rat)) (hx : ∀ p ∈ xs, rabs p.1 ≤ mx ∧ 0 ≤ p.2)
    (hx32 : ∀ p ∈ xs, mn < rabs p.1 → I32 (env.index (.fin (rabs p.1)))) :
    ∃ s cp cn,
      Sketch.addAll env (Sketch.new (some env.id) k) xs = some s ∧ s.Refines cp cn ∧
      (∀ j, cp.lookup j =
        Content.lookup ((xs.filter (fun p => decide (mn < p.1))).map
          (fun p => (env.index (.fin (rabs p.1)), p.2))) j) ∧
      (∀ j, cn.lookup j =
        Content.lookup ((xs.filter (fun p => decide (p.1 < -mn))).map
          (fun p => (env.index (.fin (rabs p.1)), p.2))) j) ∧
      ∀ z q r0 : Rat, s.zero = .fin z → 0 ≤ z → 0 ≤ q → q ≤ 1 →
        0 < z + cp.total + cn.total → QExact cp cn z q r0 →
        (clampRank r0 < cn.total ∧ ∃ j w, (j, w) ∈ cn ∧
            Sketch.quantile env s (.fin q) = .ok (F64.neg (env.value j)) ∧
            cn.total - cumul cn j < min (clampRank r0 + 1) cn.total ∧
            min (clampRank r0 + 1) cn.total ≤ cn.total - cumul cn (j - 1)) ∨
        (cn.total ≤ clampRank r0 ∧ clampRank r0 < z + cn.total ∧
            Sketch.quantile env s (.fin q) = .ok (.fin 0)) ∨
        (z + cn.total ≤ clampRank r0 ∧ ∃ j w, (j, w) ∈ cp ∧
            Sketch.quantile env s (.fin q) = .ok (env.value j) ∧
            z + cn.total + cumul cp (j - 1) ≤ clampRank r0 ∧
            clampRank r0 < z + cn.total + cumul cp j) := by
  obtain ⟨s, cp, cn, h1, _, _, _, R, lp, ln⟩ :=
    addAll_weighted_any_store k hk env α mn mx C xs hx hx32
  exact ⟨s, cp, cn, h1, R, lp, ln, fun z q r0 hzero hz hq0 hq1 hW hE =>
    quantile_weighted_any_store env s cp cn z q r0 R hzero hz hq0 hq1 hW hE⟩

/-! ## T4: the answer is never taken from an empty store, any store kinds -/

/-- **The answer is never taken from an empty store**, for any sketch refining `cp`, `cn`: with no
    negative values the answer is `≥ 0`, with no positive values it is `≤ 0`
    (`C11.answer_from_nonempty_side` for every store kind). -/
theorem answer_from_nonempty_side_any_store (env : MapEnv) (α mn mx : Rat)
    (C : Contract env α mn mx) (s : Sketch) (cp cn : Content) (z q r0 : Rat)
    (hs : s.Refines cp cn) (hzero : s.zero = .fin z)
    (hz : 0 ≤ z) (hq0 : 0 ≤ q) (hq1 : q ≤ 1)
    (hW : 0 < z + cp.total + cn.total) (hexact : QExact cp cn z q r0) :
    (cn = [] → ∃ a, Sketch.quantile env s (.fin q) = .ok (.fin a) ∧ 0 ≤ a) ∧
    (cp = [] → ∃ a, Sketch.quantile env s (.fin q) = .ok (.fin a) ∧ a ≤ 0) := by
  rw [quantile_eq_spec_of_exact env s cp cn z q r0 hs hzero hz hexact]
  exact C11.answer_from_nonempty_side env α mn mx C s.mapping cp cn z q r0 hs.pos.wf hs.neg.wf
    hz hq0 hq1 hW hexact

/-! ## the hypotheses are satisfiable: concrete instances -/

section examples
open DDS.QuantileEx

/-- `collapsing_quantile_retained_high`: `exXs = [5, -2, 1, 3, -7, 0, 12]` into
    highest-collapsing stores with ONE bin (on the positive side the bin 1 of the values 5 and 12
    is folded into bin 0) -/
example : ∃ s s₀ cp cn,
    Sketch.addAll exEnv (Sketch.new (some exEnv.id) (.high 1)) (exXs.map (fun x => (x, 1))) = some s ∧
    Sketch.addAll exEnv (Sketch.new (some exEnv.id) .sparse) (exXs.map (fun x => (x, 1))) = some s₀ ∧
    s₀ = Sketch.spec (some exEnv.id) cp cn s.zero ∧
    contentOf s.pos = Content.specHigh 1 cp ∧ contentOf s.neg = Content.specHigh 1 cn ∧
    ∀ q : F64,
      (∀ side k, selKey s₀ q = some (side, k) → k ≤ edgeHigh 1 (if side then cp else cn)) →
      s.quantile exEnv q = s₀.quantile exEnv q :=
  collapsing_quantile_retained_high 1 (by omega) exEnv _ _ _ exContract exXs exXs_ok
    (fun x _ _ => exEnv_index32 _) (by simp [exXs]) (by simp [exXs])

/-- `keyAtRank_specHigh`: three unit bins 1, 3, 5 collapsed to two bins (edge 2): rank 0 keeps
    its answer 1; rank 2 (exact answer 5, above the edge) now answers the edge 2 -/
example : (Content.specHigh 2 [(1, 1), (3, 1), (5, 1)]).keyAtRank 0 = 1 ∧
    (Content.specHigh 2 [(1, 1), (3, 1), (5, 1)]).keyAtRank 2 = 2 := by
  have wf : Content.WF [((1 : Int), (1 : Rat)), (3, 1), (5, 1)] := by simp [Content.wf_cons]
  rw [keyAtRank_specHigh 2 _ wf 1 rfl, keyAtRank_specHigh 2 _ wf 1 rfl]
  decide +kernel

/-- the two bins of `exEnv` -/
theorem exEnv_idx01 (y : Rat) : idxOf exEnv y = 0 ∨ idxOf exEnv y = 1 := by
  unfold idxOf
  simp only [exEnv]
  split <;> simp

/-- the ground truth of `exXs`: `1` is below `minIndexable = 4/3`, hence counted as 0 -/
theorem exXs_sorted : sortedInputs (4 / 3) exXs = [-7, -2, 0, 0, 3, 5, 12] := by
  have hmap : exXs.map (zeroSmall (4 / 3)) = [5, -2, 0, 3, -7, 0, 12] := by decide +kernel
  have hperm : (sortedInputs (4 / 3) exXs).Perm [-7, -2, 0, 0, 3, 5, 12] := by
    refine (sortAsc_perm _).trans ?_
    rw [hmap]
    decide +kernel
  exact List.Perm.eq_of_pairwise (le := (· ≤ ·)) (fun a b _ _ h1 h2 => le_antisymm h1 h2)
    (sortedInputs_pairwise _ _) (by decide +kernel) hperm

/-- `collapsing_quantile_accuracy_low` on `exXs` with ONE bin per store -/
example : ∃ s,
    Sketch.addAll exEnv (Sketch.new (some exEnv.id) (.low 1)) (exXs.map (fun x => (x, 1))) = some s ∧
    ∀ q : Rat, 0 ≤ q → q ≤ 1 →
      (∀ k : Nat, k < exXs.length →
        ((k : Int) = ⌊q * ((exXs.length : Rat) - 1)⌋ ∨ (k : Int) = ⌈q * ((exXs.length : Rat) - 1)⌉) →
        RetainedLow exEnv (4 / 3) 1 exXs ((sortedInputs (4 / 3) exXs)[k]!)) →
      ∃ a : Rat, Sketch.quantile exEnv s (.fin q) = .ok (.fin a) ∧
        ∃ k : Nat, k < exXs.length ∧
          ((k : Int) = ⌊q * ((exXs.length : Rat) - 1)⌋ ∨ (k : Int) = ⌈q * ((exXs.length : Rat) - 1)⌉) ∧
          rabs (a - (sortedInputs (4 / 3) exXs)[k]!) ≤ 1 / 2 * rabs ((sortedInputs (4 / 3) exXs)[k]!) :=
  collapsing_quantile_accuracy_low 1 (by omega) exEnv _ _ _ exContract exXs exXs_ok
    (fun x _ _ => exEnv_index32 _) (by simp [exXs]) (by simp [exXs])

/-- … and its retained-bin hypothesis is satisfiable where the collapse DID happen: with one bin
    per store the positive bin 0 (the value 3) was folded into bin 1, and `q = 1` (order
    statistic 12, bin 1 = the largest positive bin) is retained -/
example : ∀ k : Nat, k < exXs.length →
    ((k : Int) = ⌊(1 : Rat) * ((exXs.length : Rat) - 1)⌋ ∨
      (k : Int) = ⌈(1 : Rat) * ((exXs.length : Rat) - 1)⌉) →
    RetainedLow exEnv (4 / 3) 1 exXs ((sortedInputs (4 / 3) exXs)[k]!) := by
  intro k _ hk
  have e : (1 : Rat) * ((exXs.length : Rat) - 1) = ((6 : Int) : Rat) := by
    simp [exXs]; norm_num
  rw [e, Int.floor_intCast, Int.ceil_intCast] at hk
  have hk6 : k = 6 := by omega
  subst hk6
  have h12 : (sortedInputs (4 / 3) exXs)[6]! = 12 := by rw [exXs_sorted]; rfl
  rw [h12]
  refine ⟨fun _ y _ _ => ?_, fun h => absurd h (by norm_num)⟩
  have i12 : idxOf exEnv 12 = 1 := by decide +kernel
  rw [i12]
  rcases exEnv_idx01 y with h | h <;> rw [h] <;> decide

/-- `collapsing_quantile_accuracy_high` on `exXs` with ONE bin per store -/
example : ∃ s,
    Sketch.addAll exEnv (Sketch.new (some exEnv.id) (.high 1)) (exXs.map (fun x => (x, 1))) = some s ∧
    ∀ q : Rat, 0 ≤ q → q ≤ 1 →
      (∀ k : Nat, k < exXs.length →
        ((k : Int) = ⌊q * ((exXs.length : Rat) - 1)⌋ ∨ (k : Int) = ⌈q * ((exXs.length : Rat) - 1)⌉) →
        RetainedHigh exEnv (4 / 3) 1 exXs ((sortedInputs (4 / 3) exXs)[k]!)) →
      ∃ a : Rat, Sketch.quantile exEnv s (.fin q) = .ok (.fin a) ∧
        ∃ k : Nat, k < exXs.length ∧
          ((k : Int) = ⌊q * ((exXs.length : Rat) - 1)⌋ ∨ (k : Int) = ⌈q * ((exXs.length : Rat) - 1)⌉) ∧
          rabs (a - (sortedInputs (4 / 3) exXs)[k]!) ≤ 1 / 2 * rabs ((sortedInputs (4 / 3) exXs)[k]!) :=
  collapsing_quantile_accuracy_high 1 (by omega) exEnv _ _ _ exContract exXs exXs_ok
    (fun x _ _ => exEnv_index32 _) (by simp [exXs]) (by simp [exXs])

/-- … retained on highest-collapsing stores with one bin: `q = 2/3` (order statistic 3, bin 0 =
    the smallest positive bin; the bin 1 of 5 and 12 was folded into it) -/
example : ∀ k : Nat, k < exXs.length →
    ((k : Int) = ⌊(2 / 3 : Rat) * ((exXs.length : Rat) - 1)⌋ ∨
      (k : Int) = ⌈(2 / 3 : Rat) * ((exXs.length : Rat) - 1)⌉) →
    RetainedHigh exEnv (4 / 3) 1 exXs ((sortedInputs (4 / 3) exXs)[k]!) := by
  intro k _ hk
  have e : (2 / 3 : Rat) * ((exXs.length : Rat) - 1) = ((4 : Int) : Rat) := by
    simp [exXs]; norm_num
  rw [e, Int.floor_intCast, Int.ceil_intCast] at hk
  have hk4 : k = 4 := by omega
  subst hk4
  have h3 : (sortedInputs (4 / 3) exXs)[4]! = 3 := by rw [exXs_sorted]; rfl
  rw [h3]
  refine ⟨fun _ y _ _ => ?_, fun h => absurd h (by norm_num)⟩
  have i3 : idxOf exEnv 3 = 0 := by decide +kernel
  rw [i3]
  rcases exEnv_idx01 y with h | h <;> rw [h] <;> decide

/-- `collapsing_quantile_accuracy_all`: `exEnv` has two bins, so with `N = 2` every quantile of
    the sketches on lowest- and on highest-collapsing stores is accurate -/
example (k : StoreKind) (hk : k = .low 2 ∨ k = .high 2) : ∃ s,
    Sketch.addAll exEnv (Sketch.new (some exEnv.id) k) (exXs.map (fun x => (x, 1))) = some s ∧
    ∀ q : Rat, 0 ≤ q → q ≤ 1 →
      ∃ a : Rat, Sketch.quantile exEnv s (.fin q) = .ok (.fin a) ∧
        ∃ k : Nat, k < exXs.length ∧
          ((k : Int) = ⌊q * ((exXs.length : Rat) - 1)⌋ ∨ (k : Int) = ⌈q * ((exXs.length : Rat) - 1)⌉) ∧
          rabs (a - (sortedInputs (4 / 3) exXs)[k]!) ≤ 1 / 2 * rabs ((sortedInputs (4 / 3) exXs)[k]!) := by
  have hspan : ∀ x y : Rat, idxOf exEnv y < idxOf exEnv x + ((2 : Nat) : Int) := by
    intro x y
    rcases exEnv_idx01 x with h | h <;> rcases exEnv_idx01 y with h' | h' <;> rw [h, h'] <;> decide
  exact collapsing_quantile_accuracy_all 2 (by omega) exEnv _ _ _ exContract exXs exXs_ok
    (fun x _ _ => exEnv_index32 _) (by simp [exXs]) (by simp [exXs])
    (fun x _ y _ _ _ => hspan x y) (fun x _ y _ _ _ => hspan x y) k hk

/-- the exactness hypothesis only mentions the totals of the contents -/
theorem qexact_of_totals {cp cn cp' cn' : Content} {z q r0 : Rat} (h : QExact cp cn z q r0)
    (hp : cp'.total = cp.total) (hn : cn'.total = cn.total) : QExact cp' cn' z q r0 := by
  constructor
  · rw [hp, hn]; exact h.count
  · rw [hp, hn]; exact h.countm1
  · rw [hp, hn]; exact h.rank0
  · rw [hn]; exact h.negm1
  · rw [hn]; exact h.negRank
  · rw [hn]; exact h.zeroNeg
  · exact h.posRank1
  · rw [hn]; exact h.posRank2

/-- the weighted history of the examples: weight 1/2 on each of the negative bins 0 and 1, weight
    2 on the positive bin 1 (the instance F1 of `C11`, with the positive weight moved to bin 1) -/
def exWs : List (Rat × Rat) := [(-2, 1 / 2), (-7, 1 / 2), (5, 2)]

theorem exWs_ok : ∀ p ∈ exWs, rabs p.1 ≤ 12 ∧ 0 ≤ p.2 := by
  intro p hp
  simp only [exWs, List.mem_cons, List.not_mem_nil, or_false] at hp
  rcases hp with rfl | rfl | rfl <;> (unfold rabs; norm_num)

theorem exWs_spec :
    Sketch.addAll exEnv (Sketch.new (some exEnv.id) .sparse) exWs =
      some ⟨some exEnv.id, .sp [(1, 2)], .sp exCn, .fin 0⟩ := by
  rw [new_sparse, addAll_weighted exEnv _ _ _ exContract exWs exWs_ok]
  have e1 : Content.merge [] (posPairs exEnv (4 / 3) exWs) = [(1, 2)] := by decide +kernel
  have e2 : Content.merge [] (negPairs exEnv (4 / 3) exWs) = exCn := by decide +kernel
  have e3 : zeroSum (4 / 3) exWs (.fin 0) = .fin 0 := by decide +kernel
  rw [e1, e2, e3]

/-- `quantile_weighted_any_store` / `answer_from_nonempty_side_any_store` on DENSE and on
    PAGINATED stores with fractional weights: the history `exWs`, `q = 1/8`, `rank' = 1/4` — all
    the hypotheses hold together, and the first alternative is the one that holds (finding F1 of
    `C11` on dense stores: the bin 0 of the SMALLER magnitude answers) -/
example (k : StoreKind) (hk : k = .dense ∨ k = .pag) : ∃ s cp cn,
    Sketch.addAll exEnv (Sketch.new (some exEnv.id) k) exWs = some s ∧ s.Refines cp cn ∧
    s.zero = .fin 0 ∧ 0 < 0 + cp.total + cn.total ∧ QExact cp cn 0 (1 / 8) (1 / 4) ∧
    clampRank (1 / 4) < cn.total ∧
    Sketch.quantile exEnv s (.fin (1 / 8)) = .ok (F64.neg (exEnv.value 0)) := by
  have hp : Plain k := by rcases hk with rfl | rfl <;> trivial
  obtain ⟨s, cp, cn, h1, h2, _, _, R, _, _⟩ :=
    addAll_weighted_any_store k hp exEnv _ _ _ exContract exWs exWs_ok
      (fun p _ _ => exEnv_index32 _)
  rw [exWs_spec] at h2
  simp only [Option.some.injEq, Sketch.mk.injEq, Store.sp.injEq, true_and] at h2
  obtain ⟨e1, e2, e3⟩ := h2
  subst e1 e2
  have tp : Content.total [((1 : Int), (2 : Rat))] = exCp.total := by
    rw [exCp_total]; norm_num [Content.total]
  have hE : QExact [((1 : Int), (2 : Rat))] exCn 0 (1 / 8) (1 / 4) :=
    qexact_of_totals exExact tp rfl
  have hW : (0 : Rat) < 0 + Content.total [((1 : Int), (2 : Rat))] + exCn.total := by
    rw [tp, exCp_total, exCn_total]; norm_num
  refine ⟨s, _, _, h1, R, e3.symm, hW, hE, by rw [ex_clamp, exCn_total]; norm_num, ?_⟩
  rw [quantile_eq_spec_of_exact exEnv s _ _ 0 (1 / 8) (1 / 4) R e3.symm (le_refl _) hE,
    quantile_eval_exact exEnv s.mapping _ exCn 0 (1 / 8) (1 / 4) (by norm_num) (by norm_num) hW hE,
    ex_clamp, exCn_total, if_pos (by norm_num)]
  have : karAux exCn 0 (1 - 1 - 1 / 4) = 0 := by
    rw [exCn, karAux_cons_cons, if_pos (by norm_num)]
  rw [this]

end examples

end DDS.Lift
