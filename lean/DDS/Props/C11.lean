/-
  DDS.Props.C11 — `GetValueAtQuantile` with arbitrary non-negative rational weights
  (`AddWithCount(v, c)`, fractional counts included), on sparse (= spec) stores.

  The float sums are rounded in the model (`F64`); this file states what the answer is UNDER THE
  EXPLICIT HYPOTHESIS `QExact` that the additions/subtractions of the rank computation return the
  exact rational result (the product `q·(count-1)` may round: `r0` is whatever it rounds to):

      count    : (zero + posTotal) + negTotal        = W            (W := z + cp.total + cn.total)
      countm1  : W - 1                                = W - 1
      rank0    : q * (W - 1)                          = r0  (finite)
      negm1    : negTotal - 1                         = cn.total - 1
      negRank  : (negTotal - 1) - rank'               exact        (rank' := max 0 r0 = clampRank r0)
      zeroNeg  : zero + negTotal                      exact
      posRank1 : rank' - zero                         exact
      posRank2 : (rank' - zero) - negTotal            exact

  `cumul c k` is the weight `c` holds at indexes `≤ k`.

  FINDINGS (see the `example`s at the end)
  * F1. On the NEGATIVE side the bin is not the one whose cumulative-weight interval (in value
    order) contains `rank'`: because of the `- 1` in `negativeValueCount - 1 - rank`, the selected
    bin `j` satisfies   above(j) < min(rank'+1, negTotal) ≤ above(j) + w_j   (`above(j)` = weight at
    indexes `> j`), i.e. it contains `rank' + 1` under the closed-above convention.  For integer
    weights and integer ranks this is the same bin; for fractional weights it is not (counterexample
    below: weights 1/2, 1/2 on the negative side, rank' = 1/4 answers the bin of the SMALLER
    magnitude although the first 1/2 of the weight is the larger magnitude).  On the positive side
    the statement is the expected one:  below(j) ≤ rank' - z - negTotal < below(j) + w_j.
  * F2. Exactness of `count - 1` is NECESSARY for "never answers from an empty store": when the
    count is so large that `count - 1` rounds back to `count` (e.g. a single negative value added
    with count `2^54`), `q = 1` gives `rank = count`, both tests `rank < negCount` and
    `rank < zero + negCount` fail, and the answer is read from the EMPTY positive store
    (`absorbed_count_answers_from_empty_store`).

  Proofs are in `DDS.Proofs.Quantile` (section H).
-/
import DDS.Proofs.Quantile

namespace DDS.Props.C11

open DDS Content DDS.QuantileEx

/-! ### the state after weighted insertions -/

/-- Weighted insertions (`|v| ≤ maxIndexable`, `c ≥ 0`) into sparse stores are never refused and
    never panic; both stores are canonical (`WF`), and hold at every index exactly the total weight
    of the inputs the mapping sends there. -/
theorem addAll_weighted_state (env : MapEnv) (α mn mx : Rat) (C : Contract env α mn mx)
    (xs : List (Rat × Rat)) (hx : ∀ p ∈ xs, rabs p.1 ≤ mx ∧ 0 ≤ p.2) :
    ∃ cp cn : Content, ∃ zf : F64,
      Sketch.addAll env (Sketch.new (some env.id) .sparse) xs = some ⟨some env.id, .sp cp, .sp cn, zf⟩ ∧
      cp.WF ∧ cn.WF ∧
      (∀ j, cp.lookup j =
        Content.lookup ((xs.filter (fun p => decide (mn < p.1))).map
          (fun p => (env.index (.fin (rabs p.1)), p.2))) j) ∧
      (∀ j, cn.lookup j =
        Content.lookup ((xs.filter (fun p => decide (p.1 < -mn))).map
          (fun p => (env.index (.fin (rabs p.1)), p.2))) j) := by
  refine ⟨Content.merge [] (posPairs env mn xs), Content.merge [] (negPairs env mn xs),
    zeroSum mn xs (.fin 0), ?_, ?_, ?_, ?_, ?_⟩
  · rw [new_sparse]; exact addAll_weighted env α mn mx C xs hx (some env.id) [] [] (.fin 0)
  · exact wf_merge_of_nonneg _ _ wf_nil (posPairs_nonneg env mn xs (fun p hp => (hx p hp).2))
  · exact wf_merge_of_nonneg _ _ wf_nil (negPairs_nonneg env mn xs (fun p hp => (hx p hp).2))
  · intro j; rw [lookup_merge, lookup_nil, zero_add]; rfl
  · intro j; rw [lookup_merge, lookup_nil, zero_add]; rfl

/-! ### which bin answers -/

/-- **Weighted quantile.**  With `rank' = clampRank r0 = max 0 (fl(q·(W-1)))`:
    * `rank' < negTotal`: the answer is `-value j` for a bin `j` of the negative store, with
      `above(j) < min(rank'+1, negTotal) ≤ above(j-1)`  (`above(k) = negTotal - cumul cn k`);
    * `negTotal ≤ rank' < z + negTotal`: the answer is 0;
    * otherwise: the answer is `value j` for a bin `j` of the positive store whose cumulative
      interval contains the rank: `z + negTotal + cumul cp (j-1) ≤ rank' < z + negTotal + cumul cp j`
      (it is never "the last one by default": `rank' < W`). -/
theorem quantile_weighted (env : MapEnv) (m : Option MapId) (cp cn : Content) (z q r0 : Rat)
    (hcp : cp.WF) (hcn : cn.WF) (hz : 0 ≤ z) (hq0 : 0 ≤ q) (hq1 : q ≤ 1)
    (hW : 0 < z + cp.total + cn.total) (hexact : QExact cp cn z q r0) :
    (clampRank r0 < cn.total ∧ ∃ j w, (j, w) ∈ cn ∧
        Sketch.quantile env ⟨m, .sp cp, .sp cn, .fin z⟩ (.fin q) = .ok (F64.neg (env.value j)) ∧
        cn.total - cumul cn j < min (clampRank r0 + 1) cn.total ∧
        min (clampRank r0 + 1) cn.total ≤ cn.total - cumul cn (j - 1)) ∨
    (cn.total ≤ clampRank r0 ∧ clampRank r0 < z + cn.total ∧
        Sketch.quantile env ⟨m, .sp cp, .sp cn, .fin z⟩ (.fin q) = .ok (.fin 0)) ∨
    (z + cn.total ≤ clampRank r0 ∧ ∃ j w, (j, w) ∈ cp ∧
        Sketch.quantile env ⟨m, .sp cp, .sp cn, .fin z⟩ (.fin q) = .ok (env.value j) ∧
        z + cn.total + cumul cp (j - 1) ≤ clampRank r0 ∧
        clampRank r0 < z + cn.total + cumul cp j) :=
  DDS.quantile_weighted env m cp cn z q r0 hcp hcn hz hq0 hq1 hW hexact

/-- **The answer is never taken from an empty store**: with no negative values the answer is
    `≥ 0`, with no positive values it is `≤ 0` (representatives are positive: `Contract.valFin`). -/
theorem answer_from_nonempty_side (env : MapEnv) (α mn mx : Rat) (C : Contract env α mn mx)
    (m : Option MapId) (cp cn : Content) (z q r0 : Rat)
    (hcp : cp.WF) (hcn : cn.WF) (hz : 0 ≤ z) (hq0 : 0 ≤ q) (hq1 : q ≤ 1)
    (hW : 0 < z + cp.total + cn.total) (hexact : QExact cp cn z q r0) :
    (cn = [] → ∃ a, Sketch.quantile env ⟨m, .sp cp, .sp cn, .fin z⟩ (.fin q) = .ok (.fin a) ∧ 0 ≤ a) ∧
    (cp = [] → ∃ a, Sketch.quantile env ⟨m, .sp cp, .sp cn, .fin z⟩ (.fin q) = .ok (.fin a) ∧ a ≤ 0) :=
  answer_from_nonempty_side' env C.valFin m cp cn z q r0 hcp hcn hz hq0 hq1 hW hexact

/-- The rank is below the total weight, and the clamp makes it 0 when the total weight is below 1
    (where `q·(W-1)` is negative). -/
theorem rank_clamped (cp cn : Content) (z q r0 : Rat) (hq0 : 0 ≤ q) (hq1 : q ≤ 1)
    (hW : 0 < z + cp.total + cn.total) (hexact : QExact cp cn z q r0) :
    0 ≤ clampRank r0 ∧ clampRank r0 < z + cp.total + cn.total ∧
      (z + cp.total + cn.total < 1 → clampRank r0 = 0) :=
  ⟨clampRank_nonneg r0, (clampRank_lt cp cn z q r0 hq0 hq1 hW hexact).1,
    (clampRank_lt cp cn z q r0 hq0 hq1 hW hexact).2⟩

/-! ### F2: without exactness of `count - 1` the empty positive store answers -/

/-- If the (representable) count `W` absorbs the subtraction of 1, all the weight is negative and
    `q = 1`, the answer is read from the empty positive store: `+value 0`. -/
theorem absorbed_count_answers_from_empty_store (env : MapEnv) (m : Option MapId) (cn : Content)
    (hW : 0 < cn.total)
    (hrep : F64.roundF64 cn.total = .fin cn.total)
    (habs : F64.sub (.fin cn.total) F64.one = .fin cn.total) :
    Sketch.quantile env ⟨m, .sp [], .sp cn, .fin 0⟩ (.fin 1) = .ok (env.value 0) :=
  absorbed_count' env m cn hW hrep habs

/-- **F2, concretely**: one negative value (bin 1) added with count `2^54`; `q = 1` answers
    `+value 0` — read from the empty positive store — for every mapping.
    (`2^54 - 1` rounds to `2^54`: `sub_one_absorbed`.) -/
example (env : MapEnv) (m : Option MapId) :
    Sketch.quantile env ⟨m, .sp [], .sp [(1, (2 : Rat) ^ 54)], .fin 0⟩ (.fin 1) = .ok (env.value 0) := by
  have ht : Content.total [((1 : Int), (2 : Rat) ^ 54)] = (2 : Rat) ^ 54 := by
    simp [Content.total]
  apply absorbed_count_answers_from_empty_store
  · rw [ht]; norm_num
  · rw [ht]; exact round_pow54
  · rw [ht]; exact sub_one_absorbed

/-! ### the hypotheses are satisfiable; F1 (negative side, fractional weights) -/

/- `QuantileEx.exCn = [(0, 1/2), (1, 1/2)]` (negative side: weight 1/2 at index 0 = small magnitude,
   1/2 at index 1 = large magnitude), `QuantileEx.exCp = [(5, 2)]`, zero bucket 0: `W = 3`;
   `q = 1/8`, `rank' = 1/4`.  `QuantileEx.exExact : QExact exCp exCn 0 (1/8) (1/4)`. -/

example : ∃ cp cn z q r0, cp.WF ∧ cn.WF ∧ 0 ≤ z ∧ 0 ≤ q ∧ q ≤ 1 ∧ 0 < z + cp.total + cn.total ∧
    QExact cp cn z q r0 :=
  ⟨exCp, exCn, 0, 1 / 8, 1 / 4,
    by simp [exCp, wf_cons], by simp [exCn, wf_cons],
    le_refl _, by norm_num, by norm_num, by rw [exCp_total, exCn_total]; norm_num, exExact⟩

/-- **F1.**  In value order the negative weight is: 1/2 at index 1 (ranks `[0, 1/2)`), then 1/2 at
    index 0 (ranks `[1/2, 1)`).  The rank is `1/4`, yet the answer is the representative of
    index 0, for every mapping. -/
example (env : MapEnv) (m : Option MapId) :
    clampRank (1 / 4) = 1 / 4 ∧
    Sketch.quantile env ⟨m, .sp exCp, .sp exCn, .fin 0⟩ (.fin (1 / 8)) = .ok (F64.neg (env.value 0)) := by
  refine ⟨ex_clamp, ?_⟩
  rw [quantile_eval_exact env m exCp exCn 0 (1 / 8) (1 / 4) (by norm_num) (by norm_num)
    (by rw [exCp_total, exCn_total]; norm_num) exExact, ex_clamp, exCn_total, if_pos (by norm_num)]
  have : karAux exCn 0 (1 - 1 - 1 / 4) = 0 := by
    rw [exCn, karAux_cons_cons, if_pos (by norm_num)]
  rw [this]

end DDS.Props.C11
