/-
  DDS.Props.C13Stat — the constructor checks of `stat.NewSummaryStatisticsFromData`
  (property C13: "constructors refuse …"; anchor `stat/summary.go:37-55`), stated outright as a
  decision table over IEEE classes, and what an accepted construction holds.

  * `fromData_refuses_iff`      : refused exactly when `!(count ≥ 0)` (negative or NaN count), or
                                  `count > 0 ∧ min > max`, or `count = 0` without the `+Inf/−Inf` sentinels;
  * `fromData_negative_count`, `fromData_nan_count`, `fromData_min_gt_max`,
    `fromData_empty_needs_sentinels` : the rows of the table;
  * `fromData_accepts`          : an accepted construction reports exactly the data it was given
                                  (`Sum()` included) and a later `Clear` gives `new`;
  * `fromData_new`              : the data of a new summary (`0, 0, +Inf, −Inf`) is accepted and gives `new`.
-/
import DDS.Model.Summary
import DDS.Model.Ctor
import Mathlib.Tactic.Linarith

namespace DDS.Props.C13Stat
open DDS DDS.Summary

/-- the three reasons for refusing -/
def Refused (count min max : F64) : Prop :=
  F64.ge count (.fin 0) = false ∨
  (F64.gt count (.fin 0) = true ∧ F64.gt min max = true) ∨
  (F64.eq count (.fin 0) = true ∧ (min ≠ .pinf ∨ max ≠ .ninf))

theorem fromData_refuses_iff (count sum min max : F64) :
    fromData count sum min max = none ↔ Refused count min max := by
  unfold fromData Refused
  by_cases h1 : F64.ge count (.fin 0) = true
  · by_cases h2 : F64.gt count (.fin 0) = true
    · by_cases h3 : F64.gt min max = true
      · simp [h1, h2, h3]
      · by_cases h4 : F64.eq count (.fin 0) = true
        · by_cases h5 : min = .pinf <;> by_cases h6 : max = .ninf <;> simp [h1, h2, h3, h4, h5, h6]
        · simp [h1, h2, h3, h4]
    · by_cases h4 : F64.eq count (.fin 0) = true
      · by_cases h5 : min = .pinf <;> by_cases h6 : max = .ninf <;> simp [h1, h2, h4, h5, h6]
      · simp [h1, h2, h4]
  · simp [h1]

theorem fromData_negative_count (c : Rat) (hc : c < 0) (sum min max : F64) :
    fromData (.fin c) sum min max = none := by
  rw [fromData_refuses_iff]
  left
  have h1 : ¬ ((0 : Rat) < c) := by intro h; linarith
  have h2 : ¬ ((0 : Rat) = c) := by intro h; linarith
  simp [F64.ge, F64.le, F64.lt, F64.eq, h1, h2]

theorem fromData_nan_count (sum min max : F64) : fromData .nan sum min max = none := by
  rw [fromData_refuses_iff]; left; rfl

theorem fromData_neg_inf_count (sum min max : F64) : fromData .ninf sum min max = none := by
  rw [fromData_refuses_iff]; left; rfl

theorem fromData_min_gt_max (count sum min max : F64)
    (hc : F64.gt count (.fin 0) = true) (hm : F64.gt min max = true) :
    fromData count sum min max = none := by
  rw [fromData_refuses_iff]; exact Or.inr (Or.inl ⟨hc, hm⟩)

theorem fromData_empty_needs_sentinels (count sum min max : F64)
    (hc : F64.eq count (.fin 0) = true) (hm : min ≠ .pinf ∨ max ≠ .ninf) :
    fromData count sum min max = none := by
  rw [fromData_refuses_iff]; exact Or.inr (Or.inr ⟨hc, hm⟩)

/-- an accepted construction holds exactly what it was given -/
theorem fromData_accepts (count sum min max : F64) (s : Summary)
    (h : fromData count sum min max = some s) :
    s.count = count ∧ s.sum = sum ∧ s.sumCompensation = .fin 0 ∧ s.simpleSum = sum ∧
      s.min = min ∧ s.max = max := by
  unfold fromData at h
  split at h
  · exact absurd h (by simp)
  · split at h
    · exact absurd h (by simp)
    · split at h
      · exact absurd h (by simp)
      · cases h; exact ⟨rfl, rfl, rfl, rfl, rfl, rfl⟩

/-- everything that is not refused is accepted -/
theorem fromData_accepts_iff (count sum min max : F64) :
    (∃ s, fromData count sum min max = some s) ↔ ¬ Refused count min max := by
  rw [← fromData_refuses_iff count sum min max]
  cases h : fromData count sum min max <;> simp

theorem fromData_new : fromData (.fin 0) (.fin 0) .pinf .ninf = some Summary.new := by
  decide

/-- non-vacuity: a non-trivial accepted instance and one refused instance per row -/
example : ∃ s, fromData (.fin 3) (.fin 6) (.fin 1) (.fin 3) = some s ∧ s.min = .fin 1 :=
  ⟨{ count := .fin 3, sum := .fin 6, sumCompensation := .fin 0, simpleSum := .fin 6, min := .fin 1,
     max := .fin 3 }, by decide, rfl⟩
example : fromData (.fin 3) (.fin 6) (.fin 3) (.fin 1) = none := by decide
example : fromData (.fin 0) (.fin 0) (.fin 1) (.fin 3) = none := by decide
example : fromData (.fin (-1)) (.fin 0) .pinf .ninf = none :=
  fromData_negative_count (-1) (by decide) _ _ _

/-! ### the constructors of mappings and bins -/

open DDS.Ctor

/-- accuracies outside (0,1) are refused, those inside accepted -/
theorem alphaRefused_iff (a : Rat) : alphaRefused (.fin a) = true ↔ a ≤ 0 ∨ 1 ≤ a := by
  simp only [alphaRefused, F64.le, F64.ge, F64.lt, F64.eq, Bool.or_eq_true, decide_eq_true_eq, beq_iff_eq]
  constructor
  · rintro ((h | h) | (h | h))
    · left; linarith
    · left; linarith
    · right; linarith
    · right; linarith
  · rintro (h | h)
    · rcases lt_or_eq_of_le h with h | h
      · exact Or.inl (Or.inl h)
      · exact Or.inl (Or.inr h)
    · rcases lt_or_eq_of_le h with h | h
      · exact Or.inr (Or.inl h)
      · exact Or.inr (Or.inr h)

theorem alphaRefused_inf : alphaRefused .pinf = true ∧ alphaRefused .ninf = true := by decide

/-- bases not above one are refused -/
theorem gammaRefused_iff (g : Rat) : gammaRefused (.fin g) = true ↔ g ≤ 1 := by
  simp only [gammaRefused, F64.le, F64.lt, F64.eq, Bool.or_eq_true, decide_eq_true_eq, beq_iff_eq]
  constructor
  · rintro (h | h) <;> linarith
  · intro h
    rcases lt_or_eq_of_le h with h | h
    · exact Or.inl h
    · exact Or.inr h

theorem gammaRefused_ninf : gammaRefused .ninf = true := by decide

/-- a bin with a negative count is refused, every other finite count accepted -/
theorem binRefused_iff (c : Rat) : binRefused (.fin c) = true ↔ c < 0 := by
  simp [binRefused, F64.lt]

example : alphaRefused (.fin (1 / 100)) = false := by decide +kernel
example : alphaRefused (.fin 1) = true := by decide +kernel
example : gammaRefused (.fin (102 / 100)) = false := by decide +kernel

end DDS.Props.C13Stat
