/-
  DDS.Props.C19GenProto — the protobuf clause of C19 ("the identity `(kind, gamma, indexOffset)` of an index
  mapping survives the `IndexMapping` protobuf message", `DDS/Props/C19.lean: proto_roundtrip`) on the REGENERATED
  code: `ToProto` of the three mappings (`DDS/Generated/CodeMappingProto.lean`), `mapping.FromProto`
  (`CodeMappingFromProto.lean`) and `Equals` (`CodeMapId.lean`), all translated from `/repo/ddsketch/mapping/*.go`
  on every run.

  The conversions are translated generically over the float operations (`[MOps F]`), `Equals` in exact-float
  mode over a copy of the same Go structure with `F64` fields; `asIdLog / asIdLin / asIdCub` identify the two
  (same five fields).  The project has no instance `MOps F64`: every statement is for EVERY instance
  `[MOps F64]`, and asks of it only what it says about the mapping at hand — `¬ m.gamma <= 1` in the instance's own
  comparison, i.e. `m` passes the guard of its own constructor.  `fuel` is arbitrary (no loop).

    * `log/lin/cub_proto_roundtrip`: `FromProto (ToProto m)` succeeds (error nil), returns a mapping OF THE SAME
      KIND with IDENTICAL `gamma` and `indexOffset`, and — parameters finite — it is `Equals` to `m`, both ways round;
    * `log/lin/cub_proto_roundtrip_model`: with the model's guard (`GenProtoSketch.LeOne`) and floats surviving
      `toBits/ofBits`, the identity of that result is the one the model's round trip `C19.proto_roundtrip` returns;
    * `proto_roundtrip_inf_not_equals`: finiteness is needed, as in C19: `gamma = +Inf` passes the guard, goes
      through the message unchanged, and the result is NOT `Equals` to the original (`Inf - Inf` is NaN);
    * `proto_kinds_apart`: the messages of the three kinds carry three different tags, for all parameters;
    * `proto_rejects_*`: the decoder side of C19 (unknown kinds, `gamma ≤ 1`) on the regenerated `FromProto`.
-/
import DDS.Proofs.GenProtoSketch
import DDS.Props.C19Gen

set_option linter.unusedVariables false

namespace DDS.Props.C19GenProto

open DDS DDS.GoSem DDS.GenProtoSketch DDS.Gen.MappingProto DDS.Gen.MappingFromProto

/-- the structure of the identity unit (`Equals`, `Encode`) holding the same five fields -/
def asIdLog (m : Gen.Mapping.LogarithmicMapping F64) : Gen.MapId.LogarithmicMapping :=
  { gamma := m.gamma, indexOffset := m.indexOffset, multiplier := m.multiplier,
    minIndexableValue := m.minIndexableValue, maxIndexableValue := m.maxIndexableValue }
def asIdLin (m : Gen.Mapping.LinearlyInterpolatedMapping F64) : Gen.MapId.LinearlyInterpolatedMapping :=
  { gamma := m.gamma, indexOffset := m.indexOffset, multiplier := m.multiplier,
    minIndexableValue := m.minIndexableValue, maxIndexableValue := m.maxIndexableValue }
def asIdCub (m : Gen.Mapping.CubicallyInterpolatedMapping F64) : Gen.MapId.CubicallyInterpolatedMapping :=
  { gamma := m.gamma, indexOffset := m.indexOffset, multiplier := m.multiplier,
    minIndexableValue := m.minIndexableValue, maxIndexableValue := m.maxIndexableValue }

/-- the two readings of the identity agree -/
theorem toIdLog_asIdLog (m : Gen.Mapping.LogarithmicMapping F64) : GenMapId.toIdLog (asIdLog m) = idLog m := rfl
theorem toIdLin_asIdLin (m : Gen.Mapping.LinearlyInterpolatedMapping F64) :
    GenMapId.toIdLin (asIdLin m) = idLin m := rfl
theorem toIdCub_asIdCub (m : Gen.Mapping.CubicallyInterpolatedMapping F64) :
    GenMapId.toIdCub (asIdCub m) = idCub m := rfl

section
variable [MOps F64]

/-! ### `FromProto (ToProto m)`: same kind, identical parameters, `Equals` -/

theorem log_proto_roundtrip (fuel : Nat) (m : Gen.Mapping.LogarithmicMapping F64) (g o : Rat)
    (h1 : MOps.le m.gamma (MOps.ofInt 1 : F64) = false) (hg : m.gamma = .fin g) (ho : m.indexOffset = .fin o) :
    ∃ m', FromProto fuel (some (LogarithmicMapping.ToProto m)) =
        .ok (IndexMapping.LogarithmicMapping m', GoErr.nil) ∧
      m'.gamma = m.gamma ∧ m'.indexOffset = m.indexOffset ∧
      Gen.MapId.LogarithmicMapping.Equals (asIdLog m') (asIdLog m) = true ∧
      Gen.MapId.LogarithmicMapping.Equals (asIdLog m) (asIdLog m') = true := by
  obtain ⟨m', h, _, hg', ho'⟩ := log_roundtrip fuel m h1
  exact ⟨m', h, hg', ho',
    C19Gen.log_equals_of_identity (asIdLog m') (asIdLog m) g o hg' ho' (hg'.trans hg) (ho'.trans ho),
    C19Gen.log_equals_of_identity (asIdLog m) (asIdLog m') g o hg'.symm ho'.symm hg ho⟩

theorem lin_proto_roundtrip (fuel : Nat) (m : Gen.Mapping.LinearlyInterpolatedMapping F64) (g o : Rat)
    (h1 : MOps.le m.gamma (MOps.ofInt 1 : F64) = false) (hg : m.gamma = .fin g) (ho : m.indexOffset = .fin o) :
    ∃ m', FromProto fuel (some (LinearlyInterpolatedMapping.ToProto m)) =
        .ok (IndexMapping.LinearlyInterpolatedMapping m', GoErr.nil) ∧
      m'.gamma = m.gamma ∧ m'.indexOffset = m.indexOffset ∧
      Gen.MapId.LinearlyInterpolatedMapping.Equals (asIdLin m') (asIdLin m) = true ∧
      Gen.MapId.LinearlyInterpolatedMapping.Equals (asIdLin m) (asIdLin m') = true := by
  obtain ⟨m', h, _, hg', ho'⟩ := lin_roundtrip fuel m h1
  exact ⟨m', h, hg', ho',
    C19Gen.lin_equals_of_identity (asIdLin m') (asIdLin m) g o hg' ho' (hg'.trans hg) (ho'.trans ho),
    C19Gen.lin_equals_of_identity (asIdLin m) (asIdLin m') g o hg'.symm ho'.symm hg ho⟩

theorem cub_proto_roundtrip (fuel : Nat) (m : Gen.Mapping.CubicallyInterpolatedMapping F64) (g o : Rat)
    (h1 : MOps.le m.gamma (MOps.ofInt 1 : F64) = false) (hg : m.gamma = .fin g) (ho : m.indexOffset = .fin o) :
    ∃ m', FromProto fuel (some (CubicallyInterpolatedMapping.ToProto m)) =
        .ok (IndexMapping.CubicallyInterpolatedMapping m', GoErr.nil) ∧
      m'.gamma = m.gamma ∧ m'.indexOffset = m.indexOffset ∧
      Gen.MapId.CubicallyInterpolatedMapping.Equals (asIdCub m') (asIdCub m) = true ∧
      Gen.MapId.CubicallyInterpolatedMapping.Equals (asIdCub m) (asIdCub m') = true := by
  obtain ⟨m', h, _, hg', ho'⟩ := cub_roundtrip fuel m h1
  exact ⟨m', h, hg', ho',
    C19Gen.cub_equals_of_identity (asIdCub m') (asIdCub m) g o hg' ho' (hg'.trans hg) (ho'.trans ho),
    C19Gen.cub_equals_of_identity (asIdCub m) (asIdCub m') g o hg'.symm ho'.symm hg ho⟩

/-! ### … and it is the model's round trip -/

/-- the identity of the regenerated round trip is the `MapId` the model's `proto_roundtrip` returns (hypotheses
    of `C19.proto_roundtrip`, the guard read through `LeOne`) -/
theorem log_proto_roundtrip_model (hle : LeOne) (fuel : Nat) (m : Gen.Mapping.LogarithmicMapping F64)
    (hg : F64.ofBits (F64.toBits m.gamma) = m.gamma)
    (ho : F64.ofBits (F64.toBits m.indexOffset) = m.indexOffset)
    (h1 : F64.le m.gamma (.fin 1) = false) :
    ∃ r, FromProto fuel (some (LogarithmicMapping.ToProto m)) = .ok (r, GoErr.nil) ∧
      idOf r = some (idLog m) ∧
      Proto.mappingFromProto (some (pbOfGo (LogarithmicMapping.ToProto m))) = .ok (idLog m) := by
  obtain ⟨m', h, _, hg', ho'⟩ := log_roundtrip fuel m (by rw [hle, h1])
  refine ⟨_, h, ?_, ?_⟩
  · simp only [idOf, idLog, hg', ho']
  · rw [log_toProto_model]; exact C19.proto_roundtrip (idLog m) hg ho h1

theorem lin_proto_roundtrip_model (hle : LeOne) (fuel : Nat) (m : Gen.Mapping.LinearlyInterpolatedMapping F64)
    (hg : F64.ofBits (F64.toBits m.gamma) = m.gamma)
    (ho : F64.ofBits (F64.toBits m.indexOffset) = m.indexOffset)
    (h1 : F64.le m.gamma (.fin 1) = false) :
    ∃ r, FromProto fuel (some (LinearlyInterpolatedMapping.ToProto m)) = .ok (r, GoErr.nil) ∧
      idOf r = some (idLin m) ∧
      Proto.mappingFromProto (some (pbOfGo (LinearlyInterpolatedMapping.ToProto m))) = .ok (idLin m) := by
  obtain ⟨m', h, _, hg', ho'⟩ := lin_roundtrip fuel m (by rw [hle, h1])
  refine ⟨_, h, ?_, ?_⟩
  · simp only [idOf, idLin, hg', ho']
  · rw [lin_toProto_model]; exact C19.proto_roundtrip (idLin m) hg ho h1

theorem cub_proto_roundtrip_model (hle : LeOne) (fuel : Nat) (m : Gen.Mapping.CubicallyInterpolatedMapping F64)
    (hg : F64.ofBits (F64.toBits m.gamma) = m.gamma)
    (ho : F64.ofBits (F64.toBits m.indexOffset) = m.indexOffset)
    (h1 : F64.le m.gamma (.fin 1) = false) :
    ∃ r, FromProto fuel (some (CubicallyInterpolatedMapping.ToProto m)) = .ok (r, GoErr.nil) ∧
      idOf r = some (idCub m) ∧
      Proto.mappingFromProto (some (pbOfGo (CubicallyInterpolatedMapping.ToProto m))) = .ok (idCub m) := by
  obtain ⟨m', h, _, hg', ho'⟩ := cub_roundtrip fuel m (by rw [hle, h1])
  refine ⟨_, h, ?_, ?_⟩
  · simp only [idOf, idCub, hg', ho']
  · rw [cub_toProto_model]; exact C19.proto_roundtrip (idCub m) hg ho h1

/-! ### finiteness is needed for `Equals` -/

/-- `gamma = +Inf`: accepted by the guard (`¬ +Inf <= 1`), carried by the message unchanged, identical parameters
    after `FromProto` — and the result is not `Equals` to the original.  Same in Go. -/
theorem proto_roundtrip_inf_not_equals (hle : LeOne) (fuel : Nat) (mu lo hi : F64) :
    ∃ m', FromProto fuel (some (LogarithmicMapping.ToProto ⟨.pinf, .fin 0, mu, lo, hi⟩)) =
        .ok (IndexMapping.LogarithmicMapping m', GoErr.nil) ∧
      m'.gamma = .pinf ∧ m'.indexOffset = .fin 0 ∧
      Gen.MapId.LogarithmicMapping.Equals (asIdLog m') (asIdLog ⟨.pinf, .fin 0, mu, lo, hi⟩) = false := by
  obtain ⟨m', h, _, hg', ho'⟩ := log_roundtrip fuel (⟨.pinf, .fin 0, mu, lo, hi⟩ : Gen.Mapping.LogarithmicMapping F64)
    (by rw [hle]; rfl)
  refine ⟨m', h, hg', ho', ?_⟩
  rw [GenMapId.log_equals_eq]
  show MapId.equals ⟨.log, m'.gamma, m'.indexOffset⟩ ⟨.log, .pinf, .fin 0⟩ = false
  rw [show m'.gamma = F64.pinf from hg', show m'.indexOffset = F64.fin 0 from ho']
  rfl

/-! ### the kind is in the message -/

theorem proto_kinds_apart (a : Gen.Mapping.LogarithmicMapping F64) (b : Gen.Mapping.LinearlyInterpolatedMapping F64)
    (c : Gen.Mapping.CubicallyInterpolatedMapping F64) :
    LogarithmicMapping.ToProto a ≠ LinearlyInterpolatedMapping.ToProto b ∧
    LogarithmicMapping.ToProto a ≠ CubicallyInterpolatedMapping.ToProto c ∧
    LinearlyInterpolatedMapping.ToProto b ≠ CubicallyInterpolatedMapping.ToProto c := by
  refine ⟨fun h => ?_, fun h => ?_, fun h => ?_⟩ <;>
  · have := congrArg GoPb.IndexMapping.Interpolation h
    revert this
    simp only [LogarithmicMapping.ToProto, LinearlyInterpolatedMapping.ToProto, CubicallyInterpolatedMapping.ToProto]
    decide

/-! ### rejections (the decoder side of C19) -/

/-- an interpolation outside {NONE, LINEAR, CUBIC} is refused, whatever the parameters (model:
    `C19.mappingFromProto_rejects_unknown_interpolation`) -/
theorem proto_rejects_unknown_interpolation (fuel : Nat) (pm : GoPb.IndexMapping F64)
    (h : pm.Interpolation.toNat = 2 ∨ 4 ≤ pm.Interpolation.toNat) :
    FromProto fuel (some pm) = .ok (IndexMapping.nil, errInterpolation) ∧
    Proto.mappingFromProto (some (pbOfGo pm)) = .error .badInterpolation := by
  have h0 : pm.Interpolation ≠ GoPb.IndexMapping_NONE := by
    intro e; rw [e] at h; revert h; decide
  have h1 : pm.Interpolation ≠ GoPb.IndexMapping_LINEAR := by
    intro e; rw [e] at h; revert h; decide
  have h3 : pm.Interpolation ≠ GoPb.IndexMapping_CUBIC := by
    intro e; rw [e] at h; revert h; decide
  exact ⟨FromProto_unsupported fuel pm h0 h1 h3, model_unsupported pm h0 h1 h3⟩

/-- `gamma ≤ 1` (as floats) is refused for the three known kinds (model: `C19.ofBlock_rejects_gamma_le_one` for
    the binary form, `Proto.mappingFromProto` → `.badGamma` for this one) -/
theorem proto_rejects_gamma_le_one (hle : LeOne) (fuel : Nat) (pm : GoPb.IndexMapping F64)
    (ht : pm.Interpolation = GoPb.IndexMapping_NONE ∨ pm.Interpolation = GoPb.IndexMapping_LINEAR ∨
      pm.Interpolation = GoPb.IndexMapping_CUBIC)
    (hg : F64.le pm.Gamma (.fin 1) = true) :
    ∃ r, FromProto fuel (some pm) = .ok (r, errGamma) :=
  FromProto_gamma_le_one fuel pm ht (by rw [hle, hg])

/-- nil message (the sketch message had no `mapping` field) -/
theorem proto_rejects_nil (fuel : Nat) :
    FromProto (F := F64) fuel none = .ok (IndexMapping.nil, errNilMapping) := rfl

end

end DDS.Props.C19GenProto
